import Rbacx.Proofs.ConcInv
/-
  Rbacx.Proofs.ConcFresh — an evaluation that started while no `set_policy` call was inside its critical
  section, and during whose span no `set_policy` step occurred, returns the decision of the policy that is
  current when it returns (ghost clock: `startClock`, `startClean`, `lastUpd`).
-/
namespace Rbacx.Conc

def isEval : Pc → Bool
  | .eAcq1 _ | .eGen _ | .eRel1 _ _ | .eTag _ _ | .eGet _ _ _ | .eFn _ _ _ | .eAcq2 _ _ _ _ | .eSet _ _ _ _ | .eRel2 _ _ => true
  | _ => false

def FreshLocals (w : World) (s : State) : Pc → Prop
  | .eRel1 _ g0 => g0 = s.gen
  | .eTag _ g0 => g0 = s.gen
  | .eGet _ g0 _ => g0 = s.gen
  | .eFn _ g0 _ => g0 = s.gen
  | .eAcq2 _ g0 _ _ => g0 = s.gen
  | .eSet _ g0 _ _ => g0 = s.gen
  | .eRel2 k d => d = w.decide s.pol k
  | _ => True

def FreshNow (s : State) (th : Thread) : Prop := th.startClean = true ∧ s.lastUpd ≤ th.startClock

def RetOk (w : World) (r : Ret) : Prop :=
  r.startClean = true → r.lastUpdAtReturn ≤ r.startClock → r.dec = w.decide r.polAtReturn r.key

structure FInv (w : World) (s : State) : Prop where
  clockOk : ∀ t, (s.threads t).startClock ≤ s.clock
  fresh : ∀ t, FreshNow s (s.threads t) → isEval (s.threads t).pc = true →
            s.dirty = false ∧ FreshLocals w s (s.threads t).pc
  rets : ∀ t, ∀ r ∈ (s.threads t).returned, RetOk w r

theorem init_finv (w : World) (p0 : Pol) (progs : Nat → List Call) : FInv w (init w p0 progs) := by
  refine ⟨?_, ?_, ?_⟩ <;> simp [init, isEval]

theorem freshLocals_same (w : World) (s s' : State) (pc : Pc) (h1 : s'.gen = s.gen) (h2 : s'.pol = s.pol)
    (h : FreshLocals w s pc) : FreshLocals w s' pc := by
  cases pc <;> simp_all [FreshLocals]

/-- common structure of every step: thread `t` becomes `th'`, the clock ticks, and either nothing a fresh evaluation
    depends on changed, or the step belongs to a `set_policy` call (then no evaluation in progress stays fresh) -/
theorem finv_frame (w : World) (s s' : State) (t : Nat) (th' : Thread) (hf : FInv w s)
    (hth : s'.threads = fun i => if i = t then th' else s.threads i)
    (hclock : s'.clock = s.clock + 1)
    (hlast : (s'.lastUpd = s.lastUpd ∧ s'.gen = s.gen ∧ s'.pol = s.pol ∧ s'.dirty = s.dirty) ∨ s'.lastUpd = s.clock + 1)
    (hsc : th'.startClock ≤ s.clock)
    (hown : FreshNow s' th' → isEval th'.pc = true → s'.dirty = false ∧ FreshLocals w s' th'.pc)
    (hrets : ∀ r ∈ th'.returned, RetOk w r) : FInv w s' := by
  refine ⟨?_, ?_, ?_⟩
  · intro t'
    rw [hth, hclock]
    by_cases ht : t' = t
    · simp only [ht, if_true]; omega
    · simp only [ht, if_false]; have := hf.clockOk t'; omega
  · intro t'
    rw [hth]
    by_cases ht : t' = t
    · simp only [ht, if_true]; exact hown
    · simp only [ht, if_false]
      intro hfn hev
      rcases hlast with ⟨h1, h2, h3, h4⟩ | h1
      · have := hf.fresh t' ⟨hfn.1, by rw [← h1]; exact hfn.2⟩ hev
        exact ⟨by rw [h4]; exact this.1, freshLocals_same w s s' _ h2 h3 this.2⟩
      · have := hf.clockOk t'
        have := hfn.2
        omega
  · intro t'
    rw [hth]
    by_cases ht : t' = t
    · simp only [ht, if_true]; exact hrets
    · simp only [ht, if_false]; exact hf.rets t'

end Rbacx.Conc

namespace Rbacx.Conc

theorem step_finv (w : World) (hinj : Function.Injective w.tagOf) (s : State) (t : Nat)
    (h : Inv w s) (hf : FInv w s) : FInv w (step w s t) := by
  have htok := h.tok t
  have hsc := hf.clockOk t
  have hfr := hf.fresh t
  cases hpc : (s.threads t).pc with
  | idle =>
    cases htodo : (s.threads t).todo with
    | nil =>
      refine finv_frame w s _ t (s.threads t) hf ?_ ?_ (Or.inl ?_) hsc ?_ (hf.rets t)
      · funext i; by_cases hi : i = t <;> simp [step, stepCore, hpc, htodo, hi]
      · simp [step]
      · simp [step, stepCore, hpc, htodo, isUpd]
      · intro _ hev; rw [hpc] at hev; simp [isEval] at hev
    | cons c rest =>
      cases c with
      | eval k =>
        refine finv_frame w s _ t { s.threads t with pc := .eAcq1 k, todo := rest, startClock := s.clock, startClean := !s.dirty }
          hf ?_ ?_ (Or.inl ?_) (Nat.le_refl _) ?_ (hf.rets t)
        · funext i; by_cases hi : i = t <;> simp [step, stepCore, hpc, htodo, setThread, hi]
        · simp [step]
        · simp [step, stepCore, hpc, htodo, isUpd, setThread]
        · intro hfn _
          have : s.dirty = false := by simpa using hfn.1
          exact ⟨by simp [step, stepCore, hpc, htodo, setThread, this], by simp [FreshLocals]⟩
      | setPolicy p =>
        refine finv_frame w s _ t { s.threads t with pc := .uAcq p, todo := rest } hf ?_ ?_ (Or.inr ?_) hsc ?_ (hf.rets t)
        · funext i; by_cases hi : i = t <;> simp [step, stepCore, hpc, htodo, setThread, hi]
        · simp [step]
        · simp [step, stepCore, hpc, htodo, isUpd, setThread]
        · intro _ hev; simp [isEval] at hev
  | eAcq1 k =>
    by_cases hl : s.lock.isNone = true
    · refine finv_frame w s _ t { s.threads t with pc := .eGen k } hf ?_ ?_ (Or.inl ?_) hsc ?_ (hf.rets t)
      · funext i; by_cases hi : i = t <;> simp [step, stepCore, hpc, hl, setThread, hi]
      · simp [step]
      · simp [step, stepCore, hpc, hl, isUpd, setThread]
      · intro hfn _
        have hfn' : FreshNow s (s.threads t) := ⟨hfn.1, by simpa [step, stepCore, hpc, hl, isUpd, setThread] using hfn.2⟩
        exact ⟨by simpa [step, stepCore, hpc, hl, setThread] using (hfr hfn' (by rw [hpc]; rfl)).1, by simp [FreshLocals]⟩
    · refine finv_frame w s _ t (s.threads t) hf ?_ ?_ (Or.inl ?_) hsc ?_ (hf.rets t)
      · funext i; by_cases hi : i = t <;> simp [step, stepCore, hpc, hl, hi]
      · simp [step]
      · simp [step, stepCore, hpc, hl, isUpd]
      · intro hfn hev
        have hfn' : FreshNow s (s.threads t) := ⟨hfn.1, by simpa [step, stepCore, hpc, hl, isUpd] using hfn.2⟩
        have := hfr hfn' hev
        exact ⟨by simpa [step, stepCore, hpc, hl] using this.1, freshLocals_same w s _ _ (by simp [step, stepCore, hpc, hl]) (by simp [step, stepCore, hpc, hl]) this.2⟩
  | eGen k =>
    refine finv_frame w s _ t { s.threads t with pc := .eRel1 k s.gen } hf ?_ ?_ (Or.inl ?_) hsc ?_ (hf.rets t)
    · funext i; by_cases hi : i = t <;> simp [step, stepCore, hpc, setThread, hi]
    · simp [step]
    · simp [step, stepCore, hpc, isUpd, setThread]
    · intro hfn _
      have hfn' : FreshNow s (s.threads t) := ⟨hfn.1, by simpa [step, stepCore, hpc, isUpd, setThread] using hfn.2⟩
      exact ⟨by simpa [step, stepCore, hpc, setThread] using (hfr hfn' (by rw [hpc]; rfl)).1,
             by simp [FreshLocals, step, stepCore, hpc, setThread]⟩
  | eRel1 k g0 =>
    refine finv_frame w s _ t { s.threads t with pc := .eTag k g0 } hf ?_ ?_ (Or.inl ?_) hsc ?_ (hf.rets t)
    · funext i; by_cases hi : i = t <;> simp [step, stepCore, hpc, setThread, hi]
    · simp [step]
    · simp [step, stepCore, hpc, isUpd, setThread]
    · intro hfn _
      have hfn' : FreshNow s (s.threads t) := ⟨hfn.1, by simpa [step, stepCore, hpc, isUpd, setThread] using hfn.2⟩
      have := hfr hfn' (by rw [hpc]; rfl)
      rw [hpc] at this
      exact ⟨by simpa [step, stepCore, hpc, setThread] using this.1,
             by simpa [FreshLocals, step, stepCore, hpc, setThread] using this.2⟩
  | eTag k g0 =>
    refine finv_frame w s _ t { s.threads t with pc := .eGet k g0 s.etag } hf ?_ ?_ (Or.inl ?_) hsc ?_ (hf.rets t)
    · funext i; by_cases hi : i = t <;> simp [step, stepCore, hpc, setThread, hi]
    · simp [step]
    · simp [step, stepCore, hpc, isUpd, setThread]
    · intro hfn _
      have hfn' : FreshNow s (s.threads t) := ⟨hfn.1, by simpa [step, stepCore, hpc, isUpd, setThread] using hfn.2⟩
      have := hfr hfn' (by rw [hpc]; rfl)
      rw [hpc] at this
      exact ⟨by simpa [step, stepCore, hpc, setThread] using this.1,
             by simpa [FreshLocals, step, stepCore, hpc, setThread] using this.2⟩
  | eGet k g0 tag =>
    rw [hpc] at htok
    cases hget : cacheGet s.cache tag k with
    | some d =>
      refine finv_frame w s _ t { s.threads t with pc := .idle, returned := (s.threads t).returned ++ [⟨k, d, (s.threads t).startClock, (s.threads t).startClean, s.pol, s.lastUpd⟩] } hf ?_ ?_ (Or.inl ?_) hsc ?_ ?_
      · funext i; by_cases hi : i = t <;> simp [step, stepCore, hpc, hget, setThread, hi]
      · simp [step]
      · simp [step, stepCore, hpc, hget, isUpd, setThread]
      · intro _ hev; simp [isEval] at hev
      · intro r hr
        simp only [List.mem_append, List.mem_singleton] at hr
        rcases hr with hr | hr
        · exact hf.rets t r hr
        · subst hr
          intro hclean hno
          simp only at hclean hno ⊢
          have := hfr ⟨hclean, hno⟩ (by rw [hpc]; rfl)
          rw [hpc] at this
          simp only [FreshLocals] at this
          obtain ⟨e, he, hk, hd⟩ := cacheGet_some hget
          obtain ⟨p, _, htag, hdec⟩ := h.cache e he
          have htag' : tag = w.tagOf s.pol := htok.2.1 this.2.symm
          have hp : p = s.pol := hinj (by rw [← htag, hk]; exact htag')
          rw [← hd, hdec, hk, hp]
    | none =>
      refine finv_frame w s _ t { s.threads t with pc := .eFn k g0 tag } hf ?_ ?_ (Or.inl ?_) hsc ?_ (hf.rets t)
      · funext i; by_cases hi : i = t <;> simp [step, stepCore, hpc, hget, setThread, hi]
      · simp [step]
      · simp [step, stepCore, hpc, hget, isUpd, setThread]
      · intro hfn _
        have hfn' : FreshNow s (s.threads t) := ⟨hfn.1, by simpa [step, stepCore, hpc, hget, isUpd, setThread] using hfn.2⟩
        have := hfr hfn' (by rw [hpc]; rfl)
        rw [hpc] at this
        exact ⟨by simpa [step, stepCore, hpc, hget, setThread] using this.1,
               by simpa [FreshLocals, step, stepCore, hpc, hget, setThread] using this.2⟩
  | eFn k g0 tag =>
    refine finv_frame w s _ t { s.threads t with pc := .eAcq2 k g0 tag s.fn } hf ?_ ?_ (Or.inl ?_) hsc ?_ (hf.rets t)
    · funext i; by_cases hi : i = t <;> simp [step, stepCore, hpc, setThread, hi]
    · simp [step]
    · simp [step, stepCore, hpc, isUpd, setThread]
    · intro hfn _
      have hfn' : FreshNow s (s.threads t) := ⟨hfn.1, by simpa [step, stepCore, hpc, isUpd, setThread] using hfn.2⟩
      have := hfr hfn' (by rw [hpc]; rfl)
      rw [hpc] at this
      exact ⟨by simpa [step, stepCore, hpc, setThread] using this.1,
             by simpa [FreshLocals, step, stepCore, hpc, setThread] using this.2⟩
  | eAcq2 k g0 tag f =>
    by_cases hl : s.lock.isNone = true
    · refine finv_frame w s _ t { s.threads t with pc := .eSet k g0 tag f } hf ?_ ?_ (Or.inl ?_) hsc ?_ (hf.rets t)
      · funext i; by_cases hi : i = t <;> simp [step, stepCore, hpc, hl, setThread, hi]
      · simp [step]
      · simp [step, stepCore, hpc, hl, isUpd, setThread]
      · intro hfn _
        have hfn' : FreshNow s (s.threads t) := ⟨hfn.1, by simpa [step, stepCore, hpc, hl, isUpd, setThread] using hfn.2⟩
        have := hfr hfn' (by rw [hpc]; rfl)
        rw [hpc] at this
        exact ⟨by simpa [step, stepCore, hpc, hl, setThread] using this.1,
               by simpa [FreshLocals, step, stepCore, hpc, hl, setThread] using this.2⟩
    · refine finv_frame w s _ t (s.threads t) hf ?_ ?_ (Or.inl ?_) hsc ?_ (hf.rets t)
      · funext i; by_cases hi : i = t <;> simp [step, stepCore, hpc, hl, hi]
      · simp [step]
      · simp [step, stepCore, hpc, hl, isUpd]
      · intro hfn hev
        have hfn' : FreshNow s (s.threads t) := ⟨hfn.1, by simpa [step, stepCore, hpc, hl, isUpd] using hfn.2⟩
        have := hfr hfn' hev
        exact ⟨by simpa [step, stepCore, hpc, hl] using this.1, freshLocals_same w s _ _ (by simp [step, stepCore, hpc, hl]) (by simp [step, stepCore, hpc, hl]) this.2⟩
  | eSet k g0 tag f =>
    rw [hpc] at htok
    refine finv_frame w s _ t { s.threads t with pc := .eRel2 k (w.decide f k) } hf ?_ ?_ (Or.inl ?_) hsc ?_ (hf.rets t)
    · funext i; by_cases hi : i = t <;> by_cases hg : s.gen = g0 <;> simp [step, stepCore, hpc, setThread, hi, hg]
    · simp [step]
    · by_cases hg : s.gen = g0 <;> simp [step, stepCore, hpc, isUpd, setThread, hg]
    · intro hfn _
      have hfn' : FreshNow s (s.threads t) :=
        ⟨hfn.1, by by_cases hg : s.gen = g0 <;> simpa [step, stepCore, hpc, isUpd, setThread, hg] using hfn.2⟩
      have := hfr hfn' (by rw [hpc]; rfl)
      rw [hpc] at this
      simp only [FreshLocals] at this
      have hfp : f = s.pol := htok.2.2.1 this.2.symm
      refine ⟨?_, ?_⟩
      · by_cases hg : s.gen = g0 <;> simpa [step, stepCore, hpc, setThread, hg] using this.1
      · by_cases hg : s.gen = g0 <;> simp [FreshLocals, step, stepCore, hpc, setThread, hg, hfp]
  | eRel2 k d =>
    refine finv_frame w s _ t { s.threads t with pc := .idle, returned := (s.threads t).returned ++ [⟨k, d, (s.threads t).startClock, (s.threads t).startClean, s.pol, s.lastUpd⟩] } hf ?_ ?_ (Or.inl ?_) hsc ?_ ?_
    · funext i; by_cases hi : i = t <;> simp [step, stepCore, hpc, setThread, hi]
    · simp [step]
    · simp [step, stepCore, hpc, isUpd, setThread]
    · intro _ hev; simp [isEval] at hev
    · intro r hr
      simp only [List.mem_append, List.mem_singleton] at hr
      rcases hr with hr | hr
      · exact hf.rets t r hr
      · subst hr
        intro hclean hno
        have := hfr ⟨hclean, hno⟩ (by rw [hpc]; rfl)
        rw [hpc] at this
        exact this.2
  | uAcq p =>
    by_cases hl : s.lock.isNone = true
    · refine finv_frame w s _ t { s.threads t with pc := .uGen p } hf ?_ ?_ (Or.inr ?_) hsc ?_ (hf.rets t)
      · funext i; by_cases hi : i = t <;> simp [step, stepCore, hpc, hl, setThread, hi]
      · simp [step]
      · simp [step, stepCore, hpc, hl, isUpd, setThread]
      · intro _ hev; simp [isEval] at hev
    · refine finv_frame w s _ t (s.threads t) hf ?_ ?_ (Or.inr ?_) hsc ?_ (hf.rets t)
      · funext i; by_cases hi : i = t <;> simp [step, stepCore, hpc, hl, hi]
      · simp [step]
      · simp [step, stepCore, hpc, hl, isUpd]
      · intro _ hev; rw [hpc] at hev; simp [isEval] at hev
  | uGen p =>
    refine finv_frame w s _ t { s.threads t with pc := .uPol p } hf ?_ ?_ (Or.inr ?_) hsc ?_ (hf.rets t)
    · funext i; by_cases hi : i = t <;> simp [step, stepCore, hpc, setThread, hi]
    · simp [step]
    · simp [step, stepCore, hpc, isUpd, setThread]
    · intro _ hev; simp [isEval] at hev
  | uPol p =>
    refine finv_frame w s _ t { s.threads t with pc := .uTag p } hf ?_ ?_ (Or.inr ?_) hsc ?_ (hf.rets t)
    · funext i; by_cases hi : i = t <;> simp [step, stepCore, hpc, setThread, hi]
    · simp [step]
    · simp [step, stepCore, hpc, isUpd, setThread]
    · intro _ hev; simp [isEval] at hev
  | uTag p =>
    refine finv_frame w s _ t { s.threads t with pc := .uFn p } hf ?_ ?_ (Or.inr ?_) hsc ?_ (hf.rets t)
    · funext i; by_cases hi : i = t <;> simp [step, stepCore, hpc, setThread, hi]
    · simp [step]
    · simp [step, stepCore, hpc, isUpd, setThread]
    · intro _ hev; simp [isEval] at hev
  | uFn p =>
    refine finv_frame w s _ t { s.threads t with pc := .uClear p } hf ?_ ?_ (Or.inr ?_) hsc ?_ (hf.rets t)
    · funext i; by_cases hi : i = t <;> simp [step, stepCore, hpc, setThread, hi]
    · simp [step]
    · simp [step, stepCore, hpc, isUpd, setThread]
    · intro _ hev; simp [isEval] at hev
  | uClear p =>
    refine finv_frame w s _ t { s.threads t with pc := .uRel p } hf ?_ ?_ (Or.inr ?_) hsc ?_ (hf.rets t)
    · funext i; by_cases hi : i = t <;> simp [step, stepCore, hpc, setThread, hi]
    · simp [step]
    · simp [step, stepCore, hpc, isUpd, setThread]
    · intro _ hev; simp [isEval] at hev
  | uRel p =>
    refine finv_frame w s _ t { s.threads t with pc := .idle } hf ?_ ?_ (Or.inr ?_) hsc ?_ (hf.rets t)
    · funext i; by_cases hi : i = t <;> simp [step, stepCore, hpc, setThread, hi]
    · simp [step]
    · simp [step, stepCore, hpc, isUpd, setThread]
    · intro _ hev; simp [isEval] at hev

theorem run_finv (w : World) (hinj : Function.Injective w.tagOf) (sched : List Nat) :
    ∀ s, Inv w s → FInv w s → Inv w (run w s sched) ∧ FInv w (run w s sched) := by
  induction sched with
  | nil => intro s h hf; exact ⟨h, hf⟩
  | cons t ts ih => intro s h hf; exact ih _ (step_inv w s t h) (step_finv w hinj s t h hf)

end Rbacx.Conc
