import Rbacx.Model.Conc
/-
  Rbacx.Proofs.ConcInv — the invariant of the interleaving semantics, for any number of threads, any
  lists of calls and any schedule.
-/
namespace Rbacx.Conc

/-- the thread is inside a `with self._policy_lock:` block -/
def InSec : Pc → Bool
  | .eGen _ | .eRel1 _ _ | .eSet _ _ _ _ | .eRel2 _ _ => true
  | .uGen _ | .uPol _ | .uTag _ | .uFn _ | .uClear _ | .uRel _ => true
  | _ => false

def Consistent (w : World) (s : State) : Prop := s.etag = w.tagOf s.pol ∧ s.fn = s.pol

/-- generation bookkeeping of an evaluation that recorded `g0` -/
def GenOk (s : State) (g0 : Nat) : Prop := g0 ≤ s.gen ∧ (s.dirty = true → g0 < s.gen)

def TagOk (w : World) (s : State) (g0 tag : Nat) : Prop :=
  (s.gen = g0 → tag = w.tagOf s.pol) ∧ ∃ p ∈ s.hist, tag = w.tagOf p

def FnOk (s : State) (g0 : Nat) (f : Pol) : Prop := (s.gen = g0 → f = s.pol) ∧ f ∈ s.hist

/-- what the locals of a call in progress satisfy -/
def TOk (w : World) (s : State) : Pc → Prop
  | .eRel1 _ g0 => GenOk s g0
  | .eTag _ g0 => GenOk s g0
  | .eGet _ g0 tag => GenOk s g0 ∧ TagOk w s g0 tag
  | .eFn _ g0 tag => GenOk s g0 ∧ TagOk w s g0 tag
  | .eAcq2 _ g0 tag f => GenOk s g0 ∧ TagOk w s g0 tag ∧ FnOk s g0 f
  | .eSet _ g0 tag f => GenOk s g0 ∧ TagOk w s g0 tag ∧ FnOk s g0 f
  | .eRel2 k d => ∃ p ∈ s.hist, d = w.decide p k
  | .uGen _ => s.dirty = false
  | .uPol _ => s.dirty = true
  | .uTag p => s.dirty = true ∧ s.pol = p
  | .uFn p => s.dirty = true ∧ s.pol = p ∧ s.etag = w.tagOf p
  | .uClear p => s.dirty = true ∧ s.pol = p ∧ s.etag = w.tagOf p ∧ s.fn = p
  | .uRel p => s.dirty = true ∧ s.pol = p ∧ s.etag = w.tagOf p ∧ s.fn = p
  | _ => True

structure Inv (w : World) (s : State) : Prop where
  owner : ∀ t, InSec (s.threads t).pc = true → s.lock = some t
  dirtyLocked : s.dirty = true → ∃ u, s.lock = some u ∧ isUpd (s.threads u).pc = true
  cleanCons : s.dirty = false → Consistent w s
  tok : ∀ t, TOk w s (s.threads t).pc
  cache : ∀ e ∈ s.cache, ∃ p ∈ s.hist, e.1.1 = w.tagOf p ∧ e.2 = w.decide p e.1.2
  rets : ∀ t, ∀ r ∈ (s.threads t).returned, ∃ p ∈ s.hist, r.dec = w.decide p r.key
  histOk : s.pol ∈ s.hist ∧ s.fn ∈ s.hist ∧ ∃ p ∈ s.hist, s.etag = w.tagOf p

theorem init_inv (w : World) (p0 : Pol) (progs : Nat → List Call) : Inv w (init w p0 progs) := by
  refine ⟨?_, ?_, ?_, ?_, ?_, ?_, ?_⟩ <;> simp [init, InSec, Consistent, TOk]

/-! ### stability of `TOk` for a thread outside any critical section -/

theorem tok_same (w : World) (s s' : State) (pc : Pc)
    (h1 : s'.gen = s.gen) (h2 : s'.dirty = s.dirty) (h3 : s'.pol = s.pol) (h4 : s'.etag = s.etag) (h5 : s'.fn = s.fn)
    (h6 : s'.hist = s.hist) (h : TOk w s pc) : TOk w s' pc := by
  cases pc <;> simp_all [TOk, GenOk, TagOk, FnOk]

/-- case split of a pc that is outside every critical section -/
theorem outside_cases {P : Pc → Prop} (pc : Pc) (hout : InSec pc = false)
    (h0 : P .idle) (h1 : ∀ k, P (.eAcq1 k)) (h2 : ∀ k g, P (.eTag k g)) (h3 : ∀ k g t, P (.eGet k g t))
    (h4 : ∀ k g t, P (.eFn k g t)) (h5 : ∀ k g t f, P (.eAcq2 k g t f)) (h6 : ∀ p, P (.uAcq p)) : P pc := by
  cases pc <;> simp [InSec] at hout <;> first | exact h0 | apply h1 | apply h2 | apply h3 | apply h4 | apply h5 | apply h6

theorem tagOk_vacuous (w : World) (s' : State) (g0 tag : Nat) (hne : s'.gen ≠ g0) (hex : ∃ p ∈ s'.hist, tag = w.tagOf p) :
    TagOk w s' g0 tag := ⟨fun h => absurd h hne, hex⟩

theorem fnOk_vacuous (s' : State) (g0 : Nat) (f : Pol) (hne : s'.gen ≠ g0) (hm : f ∈ s'.hist) : FnOk s' g0 f :=
  ⟨fun h => absurd h hne, hm⟩

theorem tok_bump (w : World) (s s' : State) (pc : Pc) (hout : InSec pc = false)
    (h1 : s'.gen = s.gen + 1) (h2 : s'.dirty = true) (h6 : s'.hist = s.hist) (h : TOk w s pc) : TOk w s' pc := by
  have gen : ∀ g0, GenOk s g0 → GenOk s' g0 ∧ s'.gen ≠ g0 := by
    intro g0 hg
    have hle := hg.1
    exact ⟨⟨by rw [h1]; omega, fun _ => by rw [h1]; omega⟩, by rw [h1]; omega⟩
  revert h
  refine outside_cases (P := fun pc => TOk w s pc → TOk w s' pc) pc hout ?_ ?_ ?_ ?_ ?_ ?_ ?_
  · intro _; trivial
  · intro _ _; trivial
  · intro k g h; exact (gen g h).1
  · intro k g t h; exact ⟨(gen g h.1).1, tagOk_vacuous w s' g t (gen g h.1).2 (by rw [h6]; exact h.2.2)⟩
  · intro k g t h; exact ⟨(gen g h.1).1, tagOk_vacuous w s' g t (gen g h.1).2 (by rw [h6]; exact h.2.2)⟩
  · intro k g t f h
    exact ⟨(gen g h.1).1, tagOk_vacuous w s' g t (gen g h.1).2 (by rw [h6]; exact h.2.1.2),
           fnOk_vacuous s' g f (gen g h.1).2 (by rw [h6]; exact h.2.2.2)⟩
  · intro _ _; trivial

theorem tok_dirty (w : World) (s s' : State) (pc : Pc) (hout : InSec pc = false)
    (hd : s.dirty = true) (h1 : s'.gen = s.gen) (h6 : ∀ p ∈ s.hist, p ∈ s'.hist)
    (h : TOk w s pc) : TOk w s' pc := by
  have gen : ∀ g0, GenOk s g0 → GenOk s' g0 ∧ s'.gen ≠ g0 := by
    intro g0 hg
    have := hg.2 hd
    exact ⟨⟨by rw [h1]; exact hg.1, fun _ => by rw [h1]; exact this⟩, by rw [h1]; omega⟩
  have ex : ∀ tag, (∃ p ∈ s.hist, tag = w.tagOf p) → ∃ p ∈ s'.hist, tag = w.tagOf p :=
    fun tag ⟨p, hp, he⟩ => ⟨p, h6 p hp, he⟩
  revert h
  refine outside_cases (P := fun pc => TOk w s pc → TOk w s' pc) pc hout ?_ ?_ ?_ ?_ ?_ ?_ ?_
  · intro _; trivial
  · intro _ _; trivial
  · intro k g h; exact (gen g h).1
  · intro k g t h; exact ⟨(gen g h.1).1, tagOk_vacuous w s' g t (gen g h.1).2 (ex t h.2.2)⟩
  · intro k g t h; exact ⟨(gen g h.1).1, tagOk_vacuous w s' g t (gen g h.1).2 (ex t h.2.2)⟩
  · intro k g t f h
    exact ⟨(gen g h.1).1, tagOk_vacuous w s' g t (gen g h.1).2 (ex t h.2.1.2),
           fnOk_vacuous s' g f (gen g h.1).2 (h6 f h.2.2.2)⟩
  · intro _ _; trivial

theorem tok_release (w : World) (s s' : State) (pc : Pc) (hout : InSec pc = false)
    (hd : s.dirty = true) (h1 : s'.gen = s.gen) (h2 : s'.dirty = false) (h6 : s'.hist = s.hist)
    (h : TOk w s pc) : TOk w s' pc := by
  have gen : ∀ g0, GenOk s g0 → GenOk s' g0 ∧ s'.gen ≠ g0 := by
    intro g0 hg
    have := hg.2 hd
    exact ⟨⟨by rw [h1]; exact hg.1, fun hh => by rw [h2] at hh; cases hh⟩, by rw [h1]; omega⟩
  revert h
  refine outside_cases (P := fun pc => TOk w s pc → TOk w s' pc) pc hout ?_ ?_ ?_ ?_ ?_ ?_ ?_
  · intro _; trivial
  · intro _ _; trivial
  · intro k g h; exact (gen g h).1
  · intro k g t h; exact ⟨(gen g h.1).1, tagOk_vacuous w s' g t (gen g h.1).2 (by rw [h6]; exact h.2.2)⟩
  · intro k g t h; exact ⟨(gen g h.1).1, tagOk_vacuous w s' g t (gen g h.1).2 (by rw [h6]; exact h.2.2)⟩
  · intro k g t f h
    exact ⟨(gen g h.1).1, tagOk_vacuous w s' g t (gen g h.1).2 (by rw [h6]; exact h.2.1.2),
           fnOk_vacuous s' g f (gen g h.1).2 (by rw [h6]; exact h.2.2.2)⟩
  · intro _ _; trivial

end Rbacx.Conc

namespace Rbacx.Conc

theorem setThread_self (s : State) (t : Nat) (th : Thread) : (setThread s t th).threads t = th := by
  simp [setThread]

theorem setThread_other (s : State) (t t' : Nat) (th : Thread) (h : t' ≠ t) : (setThread s t th).threads t' = s.threads t' := by
  simp [setThread, h]

theorem others_outside {w : World} {s : State} (h : Inv w s) {t : Nat} (ht : InSec (s.threads t).pc = true) :
    ∀ t', t' ≠ t → InSec (s.threads t').pc = false := by
  intro t' hne
  cases hs : InSec (s.threads t').pc with
  | false => rfl
  | true =>
    have h1 := h.owner t ht
    have h2 := h.owner t' hs
    rw [h1] at h2
    injection h2 with h2
    exact absurd h2.symm hne

theorem free_outside {w : World} {s : State} (h : Inv w s) (hl : s.lock = none) : ∀ t', InSec (s.threads t').pc = false := by
  intro t'
  cases hs : InSec (s.threads t').pc with
  | false => rfl
  | true => have := h.owner t' hs; rw [hl] at this; cases this

/-- a step of thread `t` that leaves gen/dirty/pol/etag/fn/hist alone -/
theorem inv_frame (w : World) (s s' : State) (t : Nat) (th' : Thread) (h : Inv w s)
    (hthreads : s'.threads = fun i => if i = t then th' else s.threads i)
    (h1 : s'.gen = s.gen) (h2 : s'.dirty = s.dirty) (h3 : s'.pol = s.pol) (h4 : s'.etag = s.etag) (h5 : s'.fn = s.fn)
    (h6 : s'.hist = s.hist)
    (hown : ∀ t', InSec (s'.threads t').pc = true → s'.lock = some t')
    (hdirty : s'.dirty = true → ∃ u, s'.lock = some u ∧ isUpd (s'.threads u).pc = true)
    (htok : TOk w s' th'.pc)
    (hcache : ∀ e ∈ s'.cache, ∃ p ∈ s'.hist, e.1.1 = w.tagOf p ∧ e.2 = w.decide p e.1.2)
    (hrets : ∀ r ∈ th'.returned, ∃ p ∈ s'.hist, r.dec = w.decide p r.key) : Inv w s' := by
  refine ⟨hown, hdirty, ?_, ?_, hcache, ?_, ?_⟩
  · intro hd
    have := h.cleanCons (by rw [← h2]; exact hd)
    exact ⟨by rw [h4, h3]; exact this.1, by rw [h5, h3]; exact this.2⟩
  · intro t'
    rw [hthreads]
    by_cases ht : t' = t
    · simp only [ht, if_true]; exact htok
    · simp only [ht, if_false]; exact tok_same w s s' _ h1 h2 h3 h4 h5 h6 (h.tok t')
  · intro t'
    rw [hthreads]
    by_cases ht : t' = t
    · simp only [ht, if_true]; exact hrets
    · simp only [ht, if_false]; rw [h6]; exact h.rets t'
  · rw [h3, h5, h4, h6]; exact h.histOk

end Rbacx.Conc

namespace Rbacx.Conc

section lockLemmas
variable {w : World} {s s' : State} {t : Nat} {th' : Thread}

theorem hown_local (h : Inv w s) (hth : s'.threads = fun i => if i = t then th' else s.threads i)
    (hl : s'.lock = s.lock) (hsec : InSec th'.pc = true → InSec (s.threads t).pc = true) :
    ∀ t', InSec (s'.threads t').pc = true → s'.lock = some t' := by
  intro t' hs
  rw [hth] at hs
  rw [hl]
  by_cases ht : t' = t
  · subst ht; simp only [if_true] at hs; exact h.owner _ (hsec hs)
  · simp only [ht, if_false] at hs; exact h.owner t' hs

theorem hdirty_local (h : Inv w s) (hth : s'.threads = fun i => if i = t then th' else s.threads i)
    (hl : s'.lock = s.lock) (hd : s'.dirty = s.dirty) (hupd : isUpd (s.threads t).pc = true → isUpd th'.pc = true) :
    s'.dirty = true → ∃ u, s'.lock = some u ∧ isUpd (s'.threads u).pc = true := by
  intro hdt
  obtain ⟨u, hu, hup⟩ := h.dirtyLocked (by rw [← hd]; exact hdt)
  refine ⟨u, by rw [hl]; exact hu, ?_⟩
  rw [hth]
  by_cases ht : u = t
  · subst ht; simp only [if_true]; exact hupd hup
  · simp only [ht, if_false]; exact hup

theorem hown_acquire (h : Inv w s) (hth : s'.threads = fun i => if i = t then th' else s.threads i)
    (hfree : s.lock = none) (hl : s'.lock = some t) :
    ∀ t', InSec (s'.threads t').pc = true → s'.lock = some t' := by
  intro t' hs
  rw [hth] at hs
  by_cases ht : t' = t
  · subst ht; exact hl
  · simp only [ht, if_false] at hs
    rw [free_outside h hfree t'] at hs; cases hs

theorem hdirty_free (h : Inv w s) (hfree : s.lock = none) (hd : s'.dirty = s.dirty) :
    s'.dirty = true → ∃ u, s'.lock = some u ∧ isUpd (s'.threads u).pc = true := by
  intro hdt
  obtain ⟨u, hu, _⟩ := h.dirtyLocked (by rw [← hd]; exact hdt)
  rw [hfree] at hu; cases hu

theorem hown_release (h : Inv w s) (hth : s'.threads = fun i => if i = t then th' else s.threads i)
    (hsec : InSec (s.threads t).pc = true) (hout : InSec th'.pc = false) :
    ∀ t', InSec (s'.threads t').pc = true → s'.lock = some t' := by
  intro t' hs
  rw [hth] at hs
  by_cases ht : t' = t
  · subst ht; simp only [if_true] at hs; rw [hout] at hs; cases hs
  · simp only [ht, if_false] at hs
    rw [others_outside h hsec t' ht] at hs; cases hs

/-- a thread that is in a section but is not a `set_policy` call: the state cannot be dirty -/
theorem not_dirty_of_eval_sec (h : Inv w s) (hsec : InSec (s.threads t).pc = true) (hnu : isUpd (s.threads t).pc = false) :
    s.dirty = false := by
  cases hd : s.dirty with
  | false => rfl
  | true =>
    obtain ⟨u, hu, hup⟩ := h.dirtyLocked hd
    have := h.owner t hsec
    rw [this] at hu
    injection hu with hu
    subst hu
    rw [hnu] at hup; cases hup

end lockLemmas

end Rbacx.Conc

namespace Rbacx.Conc

theorem cacheGet_some {c : List ((Nat × Key) × Dec)} {tag : Nat} {k : Key} {d : Dec} (h : cacheGet c tag k = some d) :
    ∃ e ∈ c, e.1 = (tag, k) ∧ e.2 = d := by
  unfold cacheGet at h
  simp only [Option.map_eq_some_iff] at h
  obtain ⟨e, hf, hd⟩ := h
  exact ⟨e, List.mem_of_find?_eq_some hf, by simpa using List.find?_some hf, hd⟩

/-- the invariant is preserved by every step of every thread -/
theorem stepCore_inv (w : World) (s : State) (t : Nat) (h : Inv w s) : Inv w (stepCore w s t) := by
  have htok := h.tok t
  cases hpc : (s.threads t).pc with
  | idle =>
    cases htodo : (s.threads t).todo with
    | nil => simpa [stepCore, hpc, htodo] using h
    | cons c rest =>
      cases c with
      | eval k =>
        simp only [stepCore, hpc, htodo]
        exact inv_frame w s _ t _ h rfl rfl rfl rfl rfl rfl rfl
          (hown_local h rfl rfl (by intro hs; simp [InSec] at hs))
          (hdirty_local h rfl rfl rfl (by intro hu; rw [hpc] at hu; simp [isUpd] at hu))
          (by simp [TOk]) h.cache (h.rets t)
      | setPolicy p =>
        simp only [stepCore, hpc, htodo]
        exact inv_frame w s _ t _ h rfl rfl rfl rfl rfl rfl rfl
          (hown_local h rfl rfl (by intro hs; simp [InSec] at hs))
          (hdirty_local h rfl rfl rfl (by intro hu; rw [hpc] at hu; simp [isUpd] at hu))
          (by simp [TOk]) h.cache (h.rets t)
  | eAcq1 k =>
    simp only [stepCore, hpc]
    split
    · rename_i hfree
      have hfree' : s.lock = none := by simpa using hfree
      exact inv_frame w s _ t _ h rfl rfl rfl rfl rfl rfl rfl
        (hown_acquire h rfl hfree' rfl) (hdirty_free h hfree' rfl) (by simp [TOk]) h.cache (h.rets t)
    · exact h
  | eGen k =>
    simp only [stepCore, hpc]
    have hsec : InSec (s.threads t).pc = true := by rw [hpc]; rfl
    have hnd := not_dirty_of_eval_sec h hsec (by rw [hpc]; rfl)
    exact inv_frame w s _ t _ h rfl rfl rfl rfl rfl rfl rfl
      (hown_local h rfl rfl (fun _ => hsec))
      (hdirty_local h rfl rfl rfl (by intro hu; rw [hpc] at hu; simp [isUpd] at hu))
      (tok_same w s _ _ rfl rfl rfl rfl rfl rfl
        (show TOk w s (.eRel1 k s.gen) from ⟨Nat.le_refl _, fun hd => by rw [hnd] at hd; cases hd⟩))
      h.cache (h.rets t)
  | eRel1 k g0 =>
    simp only [stepCore, hpc]
    have hsec : InSec (s.threads t).pc = true := by rw [hpc]; rfl
    have hnd := not_dirty_of_eval_sec h hsec (by rw [hpc]; rfl)
    rw [hpc] at htok
    exact inv_frame w s _ t _ h rfl rfl rfl rfl rfl rfl rfl
      (hown_release h rfl hsec (by rfl))
      (by intro hd; rw [show ({ s with lock := none } : State).dirty = s.dirty from rfl] at hd
          simp only [setThread] at hd; rw [hnd] at hd; cases hd)
      (tok_same w s _ _ rfl rfl rfl rfl rfl rfl (show TOk w s (.eTag k g0) from htok)) h.cache (h.rets t)
  | eTag k g0 =>
    simp only [stepCore, hpc]
    rw [hpc] at htok
    refine inv_frame w s _ t _ h rfl rfl rfl rfl rfl rfl rfl
      (hown_local h rfl rfl (by intro hs; simp [InSec] at hs))
      (hdirty_local h rfl rfl rfl (by intro hu; rw [hpc] at hu; simp [isUpd] at hu))
      (tok_same w s _ _ rfl rfl rfl rfl rfl rfl (show TOk w s (.eGet k g0 s.etag) from ?_)) h.cache (h.rets t)
    simp only [TOk] at htok ⊢
    refine ⟨htok, ?_, h.histOk.2.2⟩
    intro hg
    have hnd : s.dirty = false := by
      cases hd : s.dirty with
      | false => rfl
      | true => have := htok.2 hd; omega
    exact (h.cleanCons hnd).1
  | eGet k g0 tag =>
    simp only [stepCore, hpc]
    rw [hpc] at htok
    split
    · rename_i d hget
      obtain ⟨e, he, hk, hd⟩ := cacheGet_some hget
      obtain ⟨p, hp, htag, hdec⟩ := h.cache e he
      refine inv_frame w s _ t _ h rfl rfl rfl rfl rfl rfl rfl
        (hown_local h rfl rfl (by intro hs; simp [InSec] at hs))
        (hdirty_local h rfl rfl rfl (by intro hu; rw [hpc] at hu; simp [isUpd] at hu))
        (by simp [TOk]) h.cache ?_
      intro r hr
      simp only [List.mem_append, List.mem_singleton] at hr
      rcases hr with hr | hr
      · exact h.rets t r hr
      · subst hr
        refine ⟨p, hp, ?_⟩
        simp only
        rw [← hd, hdec, hk]
    · exact inv_frame w s _ t _ h rfl rfl rfl rfl rfl rfl rfl
        (hown_local h rfl rfl (by intro hs; simp [InSec] at hs))
        (hdirty_local h rfl rfl rfl (by intro hu; rw [hpc] at hu; simp [isUpd] at hu))
        (tok_same w s _ _ rfl rfl rfl rfl rfl rfl (show TOk w s (.eFn k g0 tag) from htok)) h.cache (h.rets t)
  | eFn k g0 tag =>
    simp only [stepCore, hpc]
    rw [hpc] at htok
    refine inv_frame w s _ t _ h rfl rfl rfl rfl rfl rfl rfl
      (hown_local h rfl rfl (by intro hs; simp [InSec] at hs))
      (hdirty_local h rfl rfl rfl (by intro hu; rw [hpc] at hu; simp [isUpd] at hu))
      (tok_same w s _ _ rfl rfl rfl rfl rfl rfl (show TOk w s (.eAcq2 k g0 tag s.fn) from ?_)) h.cache (h.rets t)
    simp only [TOk] at htok ⊢
    refine ⟨htok.1, htok.2, ?_, h.histOk.2.1⟩
    intro hg
    have hnd : s.dirty = false := by
      cases hd : s.dirty with
      | false => rfl
      | true => have := htok.1.2 hd; omega
    exact (h.cleanCons hnd).2
  | eAcq2 k g0 tag f =>
    simp only [stepCore, hpc]
    rw [hpc] at htok
    split
    · rename_i hfree
      have hfree' : s.lock = none := by simpa using hfree
      exact inv_frame w s _ t _ h rfl rfl rfl rfl rfl rfl rfl
        (hown_acquire h rfl hfree' rfl) (hdirty_free h hfree' rfl)
        (tok_same w s _ _ rfl rfl rfl rfl rfl rfl (show TOk w s (.eSet k g0 tag f) from htok)) h.cache (h.rets t)
    · exact h
  | eSet k g0 tag f =>
    simp only [stepCore, hpc]
    rw [hpc] at htok
    simp only [TOk] at htok
    have hsec : InSec (s.threads t).pc = true := by rw [hpc]; rfl
    by_cases hg : s.gen = g0
    · simp only [if_pos hg]
      refine inv_frame w s _ t _ h rfl rfl rfl rfl rfl rfl rfl
        (hown_local h rfl rfl (fun _ => hsec))
        (hdirty_local h rfl rfl rfl (by intro hu; rw [hpc] at hu; simp [isUpd] at hu))
        (by simp only [TOk]; exact ⟨f, htok.2.2.2, rfl⟩) ?_ (h.rets t)
      intro e he
      simp only [setThread, List.mem_cons] at he
      rcases he with he | he
      · subst he
        refine ⟨s.pol, h.histOk.1, htok.2.1.1 hg, ?_⟩
        simp only
        rw [htok.2.2.1 hg]
      · exact h.cache e he
    · simp only [if_neg hg]
      exact inv_frame w s _ t _ h rfl rfl rfl rfl rfl rfl rfl
        (hown_local h rfl rfl (fun _ => hsec))
        (hdirty_local h rfl rfl rfl (by intro hu; rw [hpc] at hu; simp [isUpd] at hu))
        (by simp only [TOk]; exact ⟨f, htok.2.2.2, rfl⟩) h.cache (h.rets t)
  | eRel2 k d =>
    simp only [stepCore, hpc]
    rw [hpc] at htok
    have hsec : InSec (s.threads t).pc = true := by rw [hpc]; rfl
    have hnd := not_dirty_of_eval_sec h hsec (by rw [hpc]; rfl)
    refine inv_frame w s _ t _ h rfl rfl rfl rfl rfl rfl rfl
      (hown_release h rfl hsec (by rfl))
      (by intro hd; simp only [setThread] at hd; rw [hnd] at hd; cases hd)
      (by simp [TOk]) h.cache ?_
    intro r hr
    simp only [List.mem_append, List.mem_singleton] at hr
    rcases hr with hr | hr
    · exact h.rets t r hr
    · subst hr; exact htok
  | uAcq p =>
    simp only [stepCore, hpc]
    split
    · rename_i hfree
      have hfree' : s.lock = none := by simpa using hfree
      have hnd : s.dirty = false := by
        cases hd : s.dirty with
        | false => rfl
        | true => obtain ⟨u, hu, _⟩ := h.dirtyLocked hd; rw [hfree'] at hu; cases hu
      exact inv_frame w s _ t _ h rfl rfl rfl rfl rfl rfl rfl
        (hown_acquire h rfl hfree' rfl) (hdirty_free h hfree' rfl) (by simp [TOk, setThread, hnd]) h.cache (h.rets t)
    · exact h
  | uGen p =>
    simp only [stepCore, hpc]
    have hsec : InSec (s.threads t).pc = true := by rw [hpc]; rfl
    have hlock := h.owner t hsec
    refine ⟨hown_local h rfl rfl (fun _ => hsec), fun _ => ⟨t, hlock, by simp [setThread, isUpd]⟩,
            (fun hd => by simp [setThread] at hd), ?_, h.cache, ?_, h.histOk⟩
    · intro t'
      by_cases ht : t' = t
      · subst ht; simp [setThread, TOk]
      · rw [setThread_other _ _ _ _ ht]
        exact tok_bump w s _ _ (others_outside h hsec t' ht) rfl rfl rfl (h.tok t')
    · intro t'
      by_cases ht : t' = t
      · subst ht; rw [setThread_self]; exact h.rets _
      · rw [setThread_other _ _ _ _ ht]; exact h.rets t'
  | uPol p =>
    simp only [stepCore, hpc]
    rw [hpc] at htok
    simp only [TOk] at htok
    have hsec : InSec (s.threads t).pc = true := by rw [hpc]; rfl
    have hlock := h.owner t hsec
    have hmono : ∀ q ∈ s.hist, q ∈ s.hist ++ [p] := fun q hq => List.mem_append_left _ hq
    refine ⟨hown_local h rfl rfl (fun _ => hsec), fun _ => ⟨t, hlock, by simp [setThread, isUpd]⟩,
            (fun hd => by simp only [setThread] at hd; rw [htok] at hd; cases hd), ?_, ?_, ?_, ?_⟩
    · intro t'
      by_cases ht : t' = t
      · subst ht; simp [setThread, TOk, htok]
      · rw [setThread_other _ _ _ _ ht]
        exact tok_dirty w s _ _ (others_outside h hsec t' ht) htok rfl hmono (h.tok t')
    · intro e he
      obtain ⟨q, hq, h1, h2⟩ := h.cache e he
      exact ⟨q, hmono q hq, h1, h2⟩
    · intro t' r hr
      have hr' : r ∈ (s.threads t').returned := by
        by_cases ht : t' = t
        · subst ht; simpa [setThread] using hr
        · rw [setThread_other _ _ _ _ ht] at hr; exact hr
      obtain ⟨q, hq, h1⟩ := h.rets t' r hr'
      exact ⟨q, hmono q hq, h1⟩
    · refine ⟨by simp [setThread], hmono _ h.histOk.2.1, ?_⟩
      obtain ⟨q, hq, h1⟩ := h.histOk.2.2
      exact ⟨q, hmono q hq, h1⟩
  | uTag p =>
    simp only [stepCore, hpc]
    rw [hpc] at htok
    simp only [TOk] at htok
    have hsec : InSec (s.threads t).pc = true := by rw [hpc]; rfl
    have hlock := h.owner t hsec
    refine ⟨hown_local h rfl rfl (fun _ => hsec), fun _ => ⟨t, hlock, by simp [setThread, isUpd]⟩,
            (fun hd => by simp only [setThread] at hd; rw [htok.1] at hd; cases hd), ?_, h.cache, ?_, ?_⟩
    · intro t'
      by_cases ht : t' = t
      · subst ht; simp [setThread, TOk, htok]
      · rw [setThread_other _ _ _ _ ht]
        exact tok_dirty w s _ _ (others_outside h hsec t' ht) htok.1 rfl (fun _ hq => hq) (h.tok t')
    · intro t'
      by_cases ht : t' = t
      · subst ht; rw [setThread_self]; exact h.rets _
      · rw [setThread_other _ _ _ _ ht]; exact h.rets t'
    · exact ⟨h.histOk.1, h.histOk.2.1, p, by rw [← htok.2]; exact h.histOk.1, rfl⟩
  | uFn p =>
    simp only [stepCore, hpc]
    rw [hpc] at htok
    simp only [TOk] at htok
    have hsec : InSec (s.threads t).pc = true := by rw [hpc]; rfl
    have hlock := h.owner t hsec
    refine ⟨hown_local h rfl rfl (fun _ => hsec), fun _ => ⟨t, hlock, by simp [setThread, isUpd]⟩,
            (fun hd => by simp only [setThread] at hd; rw [htok.1] at hd; cases hd), ?_, h.cache, ?_, ?_⟩
    · intro t'
      by_cases ht : t' = t
      · subst ht; simp [setThread, TOk, htok]
      · rw [setThread_other _ _ _ _ ht]
        exact tok_dirty w s _ _ (others_outside h hsec t' ht) htok.1 rfl (fun _ hq => hq) (h.tok t')
    · intro t'
      by_cases ht : t' = t
      · subst ht; rw [setThread_self]; exact h.rets _
      · rw [setThread_other _ _ _ _ ht]; exact h.rets t'
    · exact ⟨h.histOk.1, by simp only [setThread]; rw [← htok.2.1]; exact h.histOk.1, h.histOk.2.2⟩
  | uClear p =>
    simp only [stepCore, hpc]
    rw [hpc] at htok
    have hsec : InSec (s.threads t).pc = true := by rw [hpc]; rfl
    exact inv_frame w s _ t _ h rfl rfl rfl rfl rfl rfl rfl
      (hown_local h rfl rfl (fun _ => hsec))
      (hdirty_local h rfl rfl rfl (fun _ => rfl))
      (tok_same w s _ _ rfl rfl rfl rfl rfl rfl (show TOk w s (.uRel p) from htok)) (by intro e he; simp [setThread] at he) (h.rets t)
  | uRel p =>
    simp only [stepCore, hpc]
    rw [hpc] at htok
    simp only [TOk] at htok
    have hsec : InSec (s.threads t).pc = true := by rw [hpc]; rfl
    refine ⟨hown_release h rfl hsec (by rfl), (fun hd => by simp [setThread] at hd),
            (fun _ => ⟨by simp only [setThread]; rw [htok.2.2.1, htok.2.1], by simp only [setThread]; rw [htok.2.2.2, htok.2.1]⟩),
            ?_, h.cache, ?_, h.histOk⟩
    · intro t'
      by_cases ht : t' = t
      · subst ht; simp [setThread, TOk]
      · rw [setThread_other _ _ _ _ ht]
        exact tok_release w s _ _ (others_outside h hsec t' ht) htok.1 rfl rfl rfl (h.tok t')
    · intro t'
      by_cases ht : t' = t
      · subst ht; rw [setThread_self]; exact h.rets _
      · rw [setThread_other _ _ _ _ ht]; exact h.rets t'

end Rbacx.Conc

namespace Rbacx.Conc

theorem step_inv (w : World) (s : State) (t : Nat) (h : Inv w s) : Inv w (step w s t) := by
  have h' := stepCore_inv w s t h
  exact ⟨h'.owner, h'.dirtyLocked, h'.cleanCons, h'.tok, h'.cache, h'.rets, h'.histOk⟩

theorem run_inv (w : World) (sched : List Nat) : ∀ s, Inv w s → Inv w (run w s sched) := by
  induction sched with
  | nil => intro s h; exact h
  | cons t ts ih => intro s h; exact ih _ (step_inv w s t h)

end Rbacx.Conc
