import Rbacx.Model.PyExcept
import Rbacx.Proofs.PyLibLemmas
/-
  Rbacx.Proofs.CondTranslated — what the per-run obligation `Run/C04_translated.lean` needs to prove the exception-passing translation
  of the condition evaluator (`Generated.Src.eval_condition` and its helpers, harness/pytolean_except.py) equal to the hand-written
  model `evalCond` / `evalBin` / `resolve` / `numericPair` (Model/Cond.lean).  Nothing here depends on the generated code.
-/
namespace Rbacx.PyE
open PyVal

/-! ### sequencing -/

@[simp] theorem bind_ok {α β : Type} (v : α) (k : α → Except CondErr β) : bind (.ok v) k = k v := rfl
@[simp] theorem bind_error {α β : Type} (e : CondErr) (k : α → Except CondErr β) : bind (.error e) k = .error e := rfl

theorem bind_map_ok {α β : Type} (x : Except CondErr α) (f : α → β) : bind x (fun v => .ok (f v)) = x.map f := by
  cases x <;> rfl

theorem raise_cte {α : Type} : (raise "ConditionTypeError" : Except CondErr α) = .error .typeMismatch := rfl

/-! ### stage 1: the helpers -/

/-- what `_ensure_str(a, b)` computes: the pair itself when both are strings, else ConditionTypeError -/
def strPair (a b : PyVal) : Except CondErr PyVal :=
  match a, b with
  | .str _, .str _ => .ok (.list [a, b])
  | _, _ => .error .typeMismatch

/-- what `_as_collection(x)` computes: a copy of the list, else ConditionTypeError (no other JSON value is a list/tuple/set) -/
def asCollection (x : PyVal) : Except CondErr PyVal :=
  match x with
  | .list xs => .ok (.list xs)
  | _ => .error .typeMismatch

/-- the pair `_ensure_numeric_strict` returns, as a Python tuple -/
def encFloats (p : Float × Float) : PyVal := .list [.float p.1, .float p.2]

/-- the `getattr(cur, p, None)` fallback of `resolve` as the model has it: the attribute is absent (DESIGN §2.1 ii: path segments
    do not name Python attributes of builtin values) -/
def noAttr : PyVal → PyVal → PyVal → Except CondErr PyVal := fun _ _ _ => .ok PyVal.none

theorem truthy_isInstance_str (v : PyVal) : (isInstance v ["str"]).truthy = v.isStr := by cases v <;> rfl
theorem truthy_isInstance_dict (v : PyVal) : (isInstance v ["dict"]).truthy = v.isDict := by cases v <;> rfl
theorem truthy_isInstance_bool (v : PyVal) : (isInstance v ["bool"]).truthy = v.isBool := by cases v <;> rfl
theorem truthy_isInstance_coll (v : PyVal) : (isInstance v ["list", "tuple", "set", "frozenset"]).truthy = v.isList := by cases v <;> rfl
theorem truthy_isInstance_seq (v : PyVal) : (isInstance v ["list", "tuple"]).truthy = v.isList := by cases v <;> rfl
theorem truthy_isInstance_num (v : PyVal) : (isInstance v ["int", "float"]).truthy = v.isIntOrFloat := by cases v <;> rfl
theorem truthy_isInstance_iterable (v : PyVal) : (isInstance v ["Iterable"]).truthy = isIterable v := by cases v <;> rfl

theorem truthy_por (a b : PyVal) : (por a b).truthy = (a.truthy || b.truthy) := by
  unfold por; cases h : a.truthy <;> simp [h]

theorem truthy_pand (a b : PyVal) : (Rbacx.Py.pand a b).truthy = (a.truthy && b.truthy) := by
  unfold Rbacx.Py.pand; cases h : a.truthy <;> simp [h]

theorem truthy_pnot (a : PyVal) : (Rbacx.Py.pnot a).truthy = !a.truthy := rfl

theorem forFold_ok (g : PyVal → PyVal → PyVal) (xs : List PyVal) (init : PyVal) :
    forFold xs init (fun c p => .ok (g c p)) = .ok (xs.foldl g init) := by
  induction xs generalizing init with
  | nil => rfl
  | cons x xs ih => simp only [forFold, bind_ok, List.foldl_cons, ih]

theorem forFold_congr (f g : PyVal → PyVal → Res) (h : ∀ c p, f c p = g c p) (xs : List PyVal) (init : PyVal) :
    forFold xs init f = forFold xs init g := by
  have : f = g := funext fun c => funext fun p => h c p
  rw [this]

/-- one step of `resolve`'s path walk as the source writes it, on a path segment -/
theorem resolve_step (cur : PyVal) (seg : String) :
    (if (isInstance cur ["dict"]).truthy then
        bind (getE cur (.str seg)) fun t => Except.ok t
      else bind (noAttr cur (.str seg) PyVal.none) fun t => Except.ok t) = .ok (stepPath cur seg) := by
  cases cur <;> rfl

theorem foldl_map_str (g : PyVal → String → PyVal) (segs : List String) (init : PyVal) :
    (segs.map PyVal.str).foldl (fun c p => match p with | .str s => g c s | _ => c) init = segs.foldl g init := by
  induction segs generalizing init with
  | nil => rfl
  | cons s segs ih => simp only [List.map_cons, List.foldl_cons, ih]

/-- the loop of `resolve` over the segments of the path -/
theorem resolve_loop (body : PyVal → PyVal → Res) (hbody : ∀ cur seg, body cur (.str seg) = .ok (stepPath cur seg))
    (segs : List String) (init : PyVal) :
    forFold (segs.map PyVal.str) init body = .ok (segs.foldl stepPath init) := by
  induction segs generalizing init with
  | nil => rfl
  | cons s segs ih => simp only [List.map_cons, forFold, hbody, bind_ok, List.foldl_cons, ih]

end Rbacx.PyE
