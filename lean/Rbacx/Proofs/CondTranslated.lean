import Rbacx.Model.PyExcept
import Rbacx.Proofs.PyLibLemmas
/-
  Rbacx.Proofs.CondTranslated — what the per-run obligation `Run/C04_translated.lean` needs to prove the exception-passing translation
  of the condition evaluator (`Generated.Src.eval_condition` and its helpers, harness/pytolean_except.py) equal to the hand-written
  model `evalCond` / `evalBin` / `resolve` / `numericPair` (Model/Cond.lean).  Nothing here depends on the generated code.
-/
namespace Rbacx.PyE
open PyVal

/-! ### sequencing -/

@[simp] theorem bind_ok {α β : Type} (v : α) (k : α → Except CondErr β) : bind (.ok v) k = k v := rfl
@[simp] theorem bind_error {α β : Type} (e : CondErr) (k : α → Except CondErr β) : bind (.error e) k = .error e := rfl

theorem bind_map_ok {α β : Type} (x : Except CondErr α) (f : α → β) : bind x (fun v => .ok (f v)) = x.map f := by
  cases x <;> rfl

theorem raise_cte {α : Type} : (raise "ConditionTypeError" : Except CondErr α) = .error .typeMismatch := rfl

/-! ### stage 1: the helpers -/

/-- what `_ensure_str(a, b)` computes: the pair itself when both are strings, else ConditionTypeError -/
def strPair (a b : PyVal) : Except CondErr PyVal :=
  match a, b with
  | .str _, .str _ => .ok (.list [a, b])
  | _, _ => .error .typeMismatch

/-- what `_as_collection(x)` computes: a copy of the list, else ConditionTypeError (no other JSON value is a list/tuple/set) -/
def asCollection (x : PyVal) : Except CondErr PyVal :=
  match x with
  | .list xs => .ok (.list xs)
  | _ => .error .typeMismatch

/-- the pair `_ensure_numeric_strict` returns, as a Python tuple -/
def encFloats (p : Float × Float) : PyVal := .list [.float p.1, .float p.2]

/-- the `getattr(cur, p, None)` fallback of `resolve` as the model has it: the attribute is absent (DESIGN §2.1 ii: path segments
    do not name Python attributes of builtin values) -/
def noAttr : PyVal → PyVal → PyVal → Except CondErr PyVal := fun _ _ _ => .ok PyVal.none

theorem truthy_isInstance_str (v : PyVal) : (isInstance v ["str"]).truthy = v.isStr := by cases v <;> rfl
theorem truthy_isInstance_dict (v : PyVal) : (isInstance v ["dict"]).truthy = v.isDict := by cases v <;> rfl
theorem truthy_isInstance_bool (v : PyVal) : (isInstance v ["bool"]).truthy = v.isBool := by cases v <;> rfl
theorem truthy_isInstance_coll (v : PyVal) : (isInstance v ["list", "tuple", "set", "frozenset"]).truthy = v.isList := by cases v <;> rfl
theorem truthy_isInstance_seq (v : PyVal) : (isInstance v ["list", "tuple"]).truthy = v.isList := by cases v <;> rfl
theorem truthy_isInstance_num (v : PyVal) : (isInstance v ["int", "float"]).truthy = v.isIntOrFloat := by cases v <;> rfl
theorem truthy_isInstance_iterable (v : PyVal) : (isInstance v ["Iterable"]).truthy = isIterable v := by cases v <;> rfl

theorem truthy_por (a b : PyVal) : (por a b).truthy = (a.truthy || b.truthy) := by
  unfold por; cases h : a.truthy <;> simp [h]

theorem truthy_pand (a b : PyVal) : (Rbacx.Py.pand a b).truthy = (a.truthy && b.truthy) := by
  unfold Rbacx.Py.pand; cases h : a.truthy <;> simp [h]

theorem truthy_pnot (a : PyVal) : (Rbacx.Py.pnot a).truthy = !a.truthy := rfl

theorem forFold_ok (g : PyVal → PyVal → PyVal) (xs : List PyVal) (init : PyVal) :
    forFold xs init (fun c p => .ok (g c p)) = .ok (xs.foldl g init) := by
  induction xs generalizing init with
  | nil => rfl
  | cons x xs ih => simp only [forFold, bind_ok, List.foldl_cons, ih]

theorem forFold_congr (f g : PyVal → PyVal → Res) (h : ∀ c p, f c p = g c p) (xs : List PyVal) (init : PyVal) :
    forFold xs init f = forFold xs init g := by
  have : f = g := funext fun c => funext fun p => h c p
  rw [this]

/-- one step of `resolve`'s path walk as the source writes it, on a path segment -/
theorem resolve_step (cur : PyVal) (seg : String) :
    (if (isInstance cur ["dict"]).truthy then
        bind (getE cur (.str seg)) fun t => Except.ok t
      else bind (noAttr cur (.str seg) PyVal.none) fun t => Except.ok t) = .ok (stepPath cur seg) := by
  cases cur <;> rfl

theorem foldl_map_str (g : PyVal → String → PyVal) (segs : List String) (init : PyVal) :
    (segs.map PyVal.str).foldl (fun c p => match p with | .str s => g c s | _ => c) init = segs.foldl g init := by
  induction segs generalizing init with
  | nil => rfl
  | cons s segs ih => simp only [List.map_cons, List.foldl_cons, ih]

/-- the loop of `resolve` over the segments of the path -/
theorem resolve_loop (body : PyVal → PyVal → Res) (hbody : ∀ cur seg, body cur (.str seg) = .ok (stepPath cur seg))
    (segs : List String) (init : PyVal) :
    forFold (segs.map PyVal.str) init body = .ok (segs.foldl stepPath init) := by
  induction segs generalizing init with
  | nil => rfl
  | cons s segs ih => simp only [List.map_cons, forFold, hbody, bind_ok, List.foldl_cons, ih]

end Rbacx.PyE

namespace Rbacx.PyE
open PyVal

/-! ### stage 2: the binary operators -/

/-- `a, b = v` as the translator reads it (TypeError when not iterable, ValueError when not two items) is the model's `unpack2` -/
theorem unpack2_eq {β : Type} (v : PyVal) (k : PyVal → PyVal → Except CondErr β) :
    unpack2 v k = bind (Rbacx.unpack2 v) fun p => k p.1 p.2 := by
  cases v with
  | list xs =>
    match xs with
    | [] => rfl
    | [_] => rfl
    | [_, _] => rfl
    | _ :: _ :: _ :: _ => rfl
  | str s =>
    simp only [unpack2, iterE, isIterable, if_true, Rbacx.Py.iter, Rbacx.unpack2]
    generalize s.toList = cs
    match cs with
    | [] => rfl
    | [_] => rfl
    | [_, _] => rfl
    | _ :: _ :: _ :: _ => rfl
  | dict kvs =>
    match kvs with
    | [] => rfl
    | [_] => rfl
    | [(_, _), (_, _)] => rfl
    | _ :: _ :: _ :: _ => rfl
  | _ => rfl

/-- the operator-specific part of `evalBin`, on the resolved operands -/
def evalOp (cx : CondCtx) (op : BinOp) (x y : PyVal) : CondRes :=
  match op with
  | .eq => pure (pyEq x y)
  | .ne => pure (!pyEq x y)
  | .gt => do let (m, n) ← numericPair x y; pure (m > n)
  | .lt => do let (m, n) ← numericPair x y; pure (m < n)
  | .ge => do let (m, n) ← numericPair x y; pure (m >= n)
  | .le => do let (m, n) ← numericPair x y; pure (m <= n)
  | .contains =>
    (match x, y with
     | .list xs, _ => pure (pyIn y xs)
     | .str s, .str t => pure (strContains s t)
     | _, _ => throw .typeMismatch)
  | .isIn =>
    (match x, y with
     | .list xs, .list ys => pure (ys.any fun v => pyIn v xs)
     | _, .list ys => pure (pyIn x ys)
     | .list xs, _ => pure (pyIn y xs)
     | .str s, .str t => pure (strContains t s)
     | _, _ => throw .typeMismatch)
  | .hasAll =>
    (match x, y with
     | .list col, .list needed => pure (needed.all fun v => pyIn v col)
     | _, _ => throw .typeMismatch)
  | .hasAny =>
    (match x, y with
     | .list col, .list opts => pure (opts.any fun v => pyIn v col)
     | _, _ => throw .typeMismatch)
  | .startsWith =>
    (match x, y with
     | .str s, .str t => pure (strStartsWith s t)
     | _, _ => throw .typeMismatch)
  | .endsWith =>
    (match x, y with
     | .str s, .str t => pure (strEndsWith s t)
     | _, _ => throw .typeMismatch)
  | .before => do
    let d1 ← parseDt cx.o cx.strict x
    let d2 ← parseDt cx.o cx.strict y
    pure (d1 < d2)
  | .after => do
    let d1 ← parseDt cx.o cx.strict x
    let d2 ← parseDt cx.o cx.strict y
    pure (d1 > d2)
  | .between => do
    let d ← parseDt cx.o cx.strict x
    match y with
    | .list [lo, hi] =>
      let s ← parseDt cx.o cx.strict (resolve cx.o lo cx.env)
      let e ← parseDt cx.o cx.strict (resolve cx.o hi cx.env)
      pure (s <= d && d <= e)
    | _ => throw .typeMismatch

theorem evalBin_eq (cx : CondCtx) (op : BinOp) (v : PyVal) :
    evalBin cx op v = bind (Rbacx.unpack2 v) fun p => evalOp cx op (resolve cx.o p.1 cx.env) (resolve cx.o p.2 cx.env) := by
  unfold evalBin
  cases Rbacx.unpack2 v with
  | error e => rfl
  | ok p => obtain ⟨a, b⟩ := p; cases op <;> rfl

/-- a returned truth value as the result of a statement range -/
def retBool (b : Bool) : Flow := .ret (.bool b)

/-- one `if OP in cond: a, b = cond[OP]; <body>` statement followed by `rest`, on a dict `cond` -/
def opBranch {β : Type} (kvs : List (String × PyVal)) (key : String) (body : PyVal → PyVal → Except CondErr β)
    (rest : Except CondErr β) : Except CondErr β :=
  if PyVal.hasKey (.dict kvs) key then bind (Rbacx.unpack2 ((PyVal.dict kvs).get key)) (fun p => body p.1 p.2) else rest

/-- THE generic lemma about the shape every operator branch has: the membership test cannot raise on a dict, the subscript cannot
    raise once the key is present, the unpacking raises what the model's `unpack2` says -/
theorem binop_head {β : Type} (kvs : List (String × PyVal)) (key : String) (body : PyVal → PyVal → Except CondErr β)
    (rest : Except CondErr β) :
    (bind (containsE (.dict kvs) (.str key)) fun t =>
      if t.truthy then (bind (itemE (.dict kvs) (.str key)) fun v => unpack2 v body) else rest) = opBranch kvs key body rest := by
  cases h : lookup key kvs with
  | none => simp [containsE, truthy, opBranch, PyVal.hasKey, h]
  | some v => simp [containsE, truthy, opBranch, PyVal.hasKey, itemE, PyVal.get, h, unpack2_eq]

/-- the model's dispatch over the operator keys, in the order of the `if` chain -/
def chainModel (cx : CondCtx) (cond : PyVal) : List BinOp → Except CondErr Flow
  | [] => .ok .next
  | op :: ops => if cond.hasKey op.key then (evalBin cx op (cond.get op.key)).map retBool else chainModel cx cond ops

theorem chainModel_eq (cx : CondCtx) (cond : PyVal) (ops : List BinOp) :
    chainModel cx cond ops =
      match ops.find? (fun op => cond.hasKey op.key) with
      | some op => (evalBin cx op (cond.get op.key)).map retBool
      | Option.none => .ok .next := by
  induction ops with
  | nil => rfl
  | cons op ops ih =>
    simp only [chainModel, List.find?]
    cases h : cond.hasKey op.key <;> simp [ih]

/-- one step of the chain: a translated branch whose body computes the model's operator, in front of a rest that is the model's rest -/
theorem opBranch_step (cx : CondCtx) (kvs : List (String × PyVal)) (op : BinOp) (ops : List BinOp)
    (body : PyVal → PyVal → Except CondErr Flow) (rest : Except CondErr Flow)
    (hbody : ∀ a b, body a b = (evalOp cx op (resolve cx.o a cx.env) (resolve cx.o b cx.env)).map retBool)
    (hrest : rest = chainModel cx (.dict kvs) ops) :
    opBranch kvs op.key body rest = chainModel cx (.dict kvs) (op :: ops) := by
  simp only [opBranch, chainModel, evalBin_eq, hrest]
  cases PyVal.hasKey (.dict kvs) op.key with
  | false => rfl
  | true =>
    simp only [if_true]
    cases Rbacx.unpack2 ((PyVal.dict kvs).get op.key) with
    | error e => rfl
    | ok p => simp only [bind_ok, hbody]

/-- the external `_parse_dt` as the model has it: the parsed instant as an aware datetime (`strict` is the value of `_is_strict(env)`) -/
def parseDtExt (o : Oracle) : PyVal → PyVal → Except CondErr PyVal :=
  fun x strict => (parseDt o strict.truthy x).map (PyVal.dt true)

theorem allE_ok (p : PyVal → Bool) (xs : List PyVal) :
    allE xs (fun x => .ok (.bool (p x))) = .ok (.bool (xs.all p)) := by
  induction xs with
  | nil => rfl
  | cons x xs ih =>
    simp only [allE, bind_ok, truthy, List.all_cons, ih]
    cases p x <;> rfl

theorem anyE_ok (p : PyVal → Bool) (xs : List PyVal) :
    anyE xs (fun x => .ok (.bool (p x))) = .ok (.bool (xs.any p)) := by
  induction xs with
  | nil => rfl
  | cons x xs ih =>
    simp only [anyE, bind_ok, truthy, List.any_cons, ih]
    cases p x <;> rfl

theorem containsE_list (xs : List PyVal) : (fun x => containsE (.list xs) x) = fun x => .ok (.bool (pyIn x xs)) := rfl

end Rbacx.PyE

namespace Rbacx.PyE
open PyVal

/-! ### stage 3: recursion over the document (`and` / `or` / `not`), budget = size -/

theorem size_lookup (k : String) (kvs : List (String × PyVal)) (v : PyVal) (h : lookup k kvs = some v) : v.size ≤ sizeD kvs := by
  induction kvs with
  | nil => simp [lookup] at h
  | cons kv kvs ih =>
    obtain ⟨k', w⟩ := kv
    simp only [lookup] at h
    simp only [sizeD]
    split at h
    · cases h; omega
    · have := ih h; omega

theorem size_get_lt (k : String) (kvs : List (String × PyVal)) (h : PyVal.hasKey (.dict kvs) k = true) :
    ((PyVal.dict kvs).get k).size < (PyVal.dict kvs).size := by
  simp only [PyVal.hasKey] at h
  obtain ⟨v, hv⟩ := Option.isSome_iff_exists.mp h
  have := size_lookup k kvs v hv
  simp only [PyVal.get, hv, Option.getD_some, PyVal.size]
  omega

theorem size_mem (x : PyVal) (xs : List PyVal) (h : x ∈ xs) : x.size ≤ sizeL xs := by
  induction xs with
  | nil => cases h
  | cons y ys ih =>
    simp only [sizeL]
    cases h with
    | head => omega
    | tail _ h' => have := ih h'; omega

theorem size_pos (v : PyVal) : 0 < v.size := by
  cases v <;> simp only [PyVal.size] <;> omega

/-- any budget above the size of the document parses it the same way -/
theorem parseCond_stable : ∀ (n m : Nat) (c : PyVal), c.size < n → c.size < m → parseCond n c = parseCond m c := by
  intro n
  induction n with
  | zero => intro m c h; omega
  | succ n ih =>
    intro m c hn hm
    cases m with
    | zero => omega
    | succ m =>
      cases c with
      | dict kvs =>
        simp only [parseCond]
        have hsub : ∀ k, PyVal.hasKey (.dict kvs) k = true → ((PyVal.dict kvs).get k).size < n ∧ ((PyVal.dict kvs).get k).size < m := by
          intro k hk
          have := size_get_lt k kvs hk
          omega
        have hsubs : ∀ k, PyVal.hasKey (.dict kvs) k = true →
            parseSubsWith (parseCond n) ((PyVal.dict kvs).get k) = parseSubsWith (parseCond m) ((PyVal.dict kvs).get k) := by
          intro k hk
          obtain ⟨h1, h2⟩ := hsub k hk
          generalize (PyVal.dict kvs).get k = v at h1 h2
          cases v with
          | list xs =>
            simp only [parseSubsWith, PyVal.size] at *
            congr 1
            apply List.map_congr_left
            intro x hx
            have := size_mem x xs hx
            exact ih m x (by omega) (by omega)
          | _ => rfl
        split
        · rfl
        · split
          · rfl
          · split
            · next h => rw [hsubs "and" h]
            · split
              · next h => rw [hsubs "or" h]
              · split
                · next h => rw [ih m _ (hsub "not" h).1 (hsub "not" h).2]
                · rfl
      | _ => rfl

theorem parseCond_condOf (n : Nat) (c : PyVal) (h : c.size < n) : parseCond n c = condOf c :=
  parseCond_stable n (c.size + 1) c h (Nat.lt_succ_self _)

/-- `all(f(c) for c in xs)` where every `f(c)` is the model's evaluation of `g c`: the model's `evalAll` -/
theorem allE_evalAll (cx : CondCtx) (f : PyVal → Res) (g : PyVal → Cond) (xs : List PyVal)
    (h : ∀ x ∈ xs, f x = (evalCond cx (g x)).map PyVal.bool) : allE xs f = (evalAll cx (xs.map g)).map PyVal.bool := by
  induction xs with
  | nil => rfl
  | cons x xs ih =>
    have hx := h x (List.mem_cons_self ..)
    have ih' := ih fun y hy => h y (List.mem_cons_of_mem _ hy)
    simp only [allE, List.map_cons, evalAll, hx]
    cases hr : evalCond cx (g x) with
    | error e => rfl
    | ok b => cases b <;> simp [Except.map, truthy, ih']

theorem anyE_evalAny (cx : CondCtx) (f : PyVal → Res) (g : PyVal → Cond) (xs : List PyVal)
    (h : ∀ x ∈ xs, f x = (evalCond cx (g x)).map PyVal.bool) : anyE xs f = (evalAny cx (xs.map g)).map PyVal.bool := by
  induction xs with
  | nil => rfl
  | cons x xs ih =>
    have hx := h x (List.mem_cons_self ..)
    have ih' := ih fun y hy => h y (List.mem_cons_of_mem _ hy)
    simp only [anyE, List.map_cons, evalAny, hx]
    cases hr : evalCond cx (g x) with
    | error e => rfl
    | ok b => cases b <;> simp [Except.map, truthy, ih']

/-- the external `rel_branch` (the statements `if 'rel' in cond: …`) as the model has it: `evalRel` on `cond["rel"]` -/
def relExt (cx : CondCtx) : PyVal → PyVal → Except CondErr PyVal :=
  fun cond _ => (evalRel cx (cond.get "rel")).map PyVal.bool

/-- the operand of `and` / `or` as the translated source iterates it, against the model's `parseSubsWith` -/
theorem subs_cases (f : PyVal → Cond) (v : PyVal) :
    (isIterable v = false ∧ parseSubsWith f v = Option.none) ∨
    (∃ xs, v = .list xs ∧ parseSubsWith f v = some (xs.map f)) ∨
    (isIterable v = true ∧ (∀ x ∈ Rbacx.Py.iter v, x.isDict = false) ∧ parseSubsWith f v = some ((Rbacx.Py.iter v).map Cond.lit)) := by
  cases v with
  | list xs => exact Or.inr (Or.inl ⟨xs, rfl, rfl⟩)
  | str s =>
    refine Or.inr (Or.inr ⟨rfl, ?_, ?_⟩)
    · intro x hx
      simp only [Rbacx.Py.iter, List.mem_map] at hx
      obtain ⟨_, _, rfl⟩ := hx; rfl
    · simp only [parseSubsWith, Rbacx.Py.iter, List.map_map]; rfl
  | dict kvs =>
    refine Or.inr (Or.inr ⟨rfl, ?_, ?_⟩)
    · intro x hx
      simp only [Rbacx.Py.iter, List.mem_map] at hx
      obtain ⟨_, _, rfl⟩ := hx; rfl
    · simp only [parseSubsWith, Rbacx.Py.iter, List.map_map]; rfl
  | _ => exact Or.inl ⟨rfl, rfl⟩

end Rbacx.PyE
