import Rbacx.Model.PyDecide
import Rbacx.Model.Conc
import Rbacx.Model.Engine
import Rbacx.Proofs.CacheProtoTranslated
/-
  Rbacx.Proofs.DecideTranslated — the DECISION DISPATCH of the engine (`Guard._decide_async`) and its CONSTRUCTOR, stated ONCE over
  outcomes, independently of the generated text (the per-run obligation `Run/C09_decide_translated.lean` proves the translation of the
  current source equal to these and derives the corollaries from them).

  * `fallback` / `decideProto` — one call of `_decide_async`: what it returns and which shared attributes it reads, in order, as a function
    of the value each TEXTUAL read of `self._compiled` / `self.policy` yields and of the outcomes of the three functions run on a worker
    thread.
  * `initState` — the state `__init__` constructs.
-/
namespace Rbacx.DecideProto
open Rbacx.PyP Rbacx.PyD

/-- the interpreters: dispatch on `"policies" in p1` (the FIRST read of `self.policy`), evaluation of the SECOND read (`p2` in the
    set branch, `p3` in the single-policy branch); `TypeError` of the test and the interpreter's exception propagate -/
def fallback (dset dpol : PyVal → PyVal → Option PyVal) (p1 p2 p3 env : PyVal) : Res :=
  match strIn "policies" p1 with
  | Option.none => ⟨Option.none, [.rd "policy"]⟩
  | some true => ⟨dset p2 env, [.rd "policy", .rd "policy"]⟩
  | some false => ⟨dpol p3 env, [.rd "policy", .rd "policy"]⟩

/-- **one call of `_decide_async`**: the compiled function if there is one and it returns; otherwise (absent, or it raised) the
    interpreters -/
def decideProto (run dset dpol : PyVal → PyVal → Option PyVal) (fn p1 p2 p3 env : PyVal) : Res :=
  if fn.isNone then
    ⟨(fallback dset dpol p1 p2 p3 env).out, .rd "_compiled" :: (fallback dset dpol p1 p2 p3 env).trace⟩
  else
    match run fn env with
    | some v => ⟨some v, [.rd "_compiled"]⟩
    | Option.none => ⟨(fallback dset dpol p1 p2 p3 env).out, .rd "_compiled" :: (fallback dset dpol p1 p2 p3 env).trace⟩

/-- the shared reads of a call that is answered by the compiled function: exactly the step `eFn` of `Conc.stepCore` -/
theorem decideProto_compiled (run dset dpol : PyVal → PyVal → Option PyVal) (fn p1 p2 p3 env v : PyVal)
    (hfn : fn.isNone = false) (hrun : run fn env = some v) :
    decideProto run dset dpol fn p1 p2 p3 env = ⟨some v, [.rd "_compiled"]⟩ := by
  simp [decideProto, hfn, hrun]

/-- without a compiled function, or when it raised: the interpreters -/
theorem decideProto_fallback (run dset dpol : PyVal → PyVal → Option PyVal) (fn p1 p2 p3 env : PyVal)
    (h : fn.isNone = true ∨ run fn env = Option.none) :
    decideProto run dset dpol fn p1 p2 p3 env =
      ⟨(fallback dset dpol p1 p2 p3 env).out, .rd "_compiled" :: (fallback dset dpol p1 p2 p3 env).trace⟩ := by
  unfold decideProto
  rcases h with h | h
  · simp [h]
  · cases fn.isNone <;> simp [h]

/-- the evaluator program of the interleaving model (`Conc.expectedEvalMiss`) is: lock · generation · unlock · etag · lookup, THEN the
    accesses of a decision answered by the compiled function, then lock · generation · store · unlock -/
theorem expectedEvalMiss_split :
    Conc.expectedEvalMiss =
      ["acq", "rd _policy_gen", "rel", "rd policy_etag", "cache.get"] ++ ([Eff.rd "_compiled"].map label) ++
      ["acq", "rd _policy_gen", "cache.set", "rel"] := by
  simp [Conc.expectedEvalMiss, label]

/-! ### the constructor -/

/-- the fields `__init__` assigns, in order of first assignment: policy, logger_sink, metrics, obligations, role_resolver, cache, cache_ttl,
    policy_etag, _compiled, strict_types, relationship_checker, _policy_lock, _policy_gen -/
def initState (dumps sha : PyVal → Option PyVal) (present : Bool) (compile : PyVal → Option PyVal) (basic lock : PyVal)
    (policy logger_sink metrics obligation_checker role_resolver relationship_checker cache cache_ttl strict_types : PyVal) : PyVal :=
  .list [policy, logger_sink, metrics, (if obligation_checker.truthy then obligation_checker else basic), role_resolver, cache, cache_ttl,
         Rbacx.Translated.newEtag dumps sha policy, Rbacx.Translated.newCompiled present compile .none policy, .bool strict_types.truthy,
         relationship_checker, lock, .int 0]

end Rbacx.DecideProto
