import Rbacx.Model.PyCursor
import Rbacx.Proofs.Redact
import Rbacx.Proofs.RedactLog
/-
  Rbacx.Proofs.EnforcerTranslated — lemmas for the per-run obligation `Run/C19_translated.lean`: the mechanically translated
  `_set_by_path` / `apply_obligations` (`Generated.Src.*`, cursor translation: `Model/PyCursor.lean`) equal the hand-written
  model `Redact.setByPath` / `Redact.applySpecs`.

  * lens laws of `atPath` / `modAt` (get-put, put-get, put-put, composition along `++`) — what "mutation through an alias" obeys on trees;
  * `putT` — the total put at a valid path — and the simp set that moves every read and store of the translated loop body from
    `(state, cursor ++ relative path)` to the node at the cursor;
  * `iterModel` — one iteration of `_set_by_path`'s loop seen from the node at the cursor — and `setParts_iter`: the model's
    recursion is "one iteration, then the rest below";
  * `forEnumFrom_setParts` — ANY loop body that acts as `iterModel` says runs to `put state cursor (setParts …)`: the cursor loop
    (iteration along an access path into ONE state) against the model's structural recursion;
  * `whileO_grow` — the `while len(lst) <= idx: lst.append({})` loop against `ensureSize`, for any emitted condition and body;
  * `forState_foldl`, the spec-list lemmas for `apply_obligations`.
-/
namespace Rbacx.PyC
open PyVal (lookup)
open Rbacx.Redact

/-! ### one subscript -/

theorem setKey_eq_setKV (k : String) (v : PyVal) (kvs : List (String × PyVal)) : setKey k v kvs = Py.setKV k v kvs := by
  induction kvs with
  | nil => rfl
  | cons e rest ih => obtain ⟨k', w⟩ := e; simp only [setKey, Py.setKV, ih]

theorem lookup_setKV_self (k : String) (c : PyVal) (kvs : List (String × PyVal)) : lookup k (Py.setKV k c kvs) = some c := by
  rw [← setKey_eq_setKV]; exact lookup_setKey_self k c kvs

theorem setKV_setKV (k : String) (a b : PyVal) (kvs : List (String × PyVal)) : Py.setKV k b (Py.setKV k a kvs) = Py.setKV k b kvs := by
  induction kvs with
  | nil => simp [Py.setKV]
  | cons e rest ih =>
    obtain ⟨k', w⟩ := e
    by_cases h : k' = k
    · simp [Py.setKV, h]
    · simp [Py.setKV, h, ih]

theorem setKV_lookup (k : String) (c : PyVal) (kvs : List (String × PyVal)) (h : lookup k kvs = some c) : Py.setKV k c kvs = kvs := by
  induction kvs with
  | nil => simp [lookup] at h
  | cons e rest ih =>
    obtain ⟨k', w⟩ := e
    by_cases hk : k' = k
    · simp [lookup, hk] at h; simp [Py.setKV, hk, h]
    · simp [lookup, hk] at h; simp [Py.setKV, hk, ih h]

theorem listPos_lt {len : Nat} {i : Int} {n : Nat} (h : listPos len i = some n) : n < len := by
  unfold listPos at h
  split at h <;> split at h <;> simp at h <;> omega

/-- get-put for one subscript -/
theorem setItem_item (v s c : PyVal) (h : item v s = some c) : setItem v s c = some v := by
  cases v <;> cases s <;> try (simp [item] at h; done)
  case dict.str kvs k =>
    simp only [item] at h
    simp [setItem, setKV_lookup k c kvs h]
  case list.int xs i =>
    simp only [item] at h
    cases hn : listPos xs.length i with
    | none => simp [hn] at h
    | some n =>
      simp only [hn, Option.bind_some] at h
      have hlt := listPos_lt hn
      simp only [setItem, hn, Option.map_some]
      congr 2
      rw [List.getElem?_eq_getElem hlt] at h
      simp only [Option.some.injEq] at h
      rw [← h]; exact List.set_getElem_self hlt

/-- put-get and put-put for one subscript that exists -/
theorem setItem_valid (v s c : PyVal) (h : item v s = some c) (w : PyVal) :
    ∃ v', setItem v s w = some v' ∧ item v' s = some w ∧ ∀ w2, setItem v' s w2 = setItem v s w2 := by
  cases v <;> cases s <;> try (simp [item] at h; done)
  case dict.str kvs k =>
    exact ⟨_, rfl, by simp [item, lookup_setKV_self], fun w2 => by simp [setItem, setKV_setKV]⟩
  case list.int xs i =>
    simp only [item] at h
    cases hn : listPos xs.length i with
    | none => simp [hn] at h
    | some n =>
      have hlt := listPos_lt hn
      refine ⟨.list (xs.set n w), by simp [setItem, hn], ?_, fun w2 => ?_⟩
      · simp [item, hn, hlt]
      · simp [setItem, hn]

/-! ### paths -/

/-- `put`: the state with the node at `path` replaced -/
def put (st : PyVal) (path : Path) (w : PyVal) : Option PyVal := modAt st path fun _ => some w

theorem atPath_append (st : PyVal) (p q : Path) : atPath st (p ++ q) = (atPath st p).bind fun c => atPath c q := by
  induction p generalizing st with
  | nil => simp [atPath]
  | cons s r ih =>
    simp only [List.cons_append, atPath]
    cases item st s with
    | none => rfl
    | some c => simp [ih]

theorem modAt_append (st : PyVal) (p q : Path) (f : PyVal → Option PyVal) :
    modAt st (p ++ q) f = modAt st p fun c => modAt c q f := by
  induction p generalizing st with
  | nil => simp [modAt]
  | cons s r ih =>
    simp only [List.cons_append, modAt]
    cases item st s with
    | none => rfl
    | some c => simp [ih]

/-- at a valid path: modifying = computing the new node from the old one, then putting it -/
theorem modAt_of_atPath (st : PyVal) (p : Path) (c : PyVal) (f : PyVal → Option PyVal) (h : atPath st p = some c) :
    modAt st p f = (f c).bind fun c' => put st p c' := by
  induction p generalizing st with
  | nil => simp [atPath] at h; subst h; simp [modAt, put]
  | cons s r ih =>
    simp only [atPath] at h
    cases hi : item st s with
    | none => simp [hi] at h
    | some d =>
      simp only [hi, Option.bind_some] at h
      simp only [modAt, put, hi, Option.bind_some, ih d h]
      cases f c with
      | none => rfl
      | some c' => simp

/-- put at a valid path succeeds; put-get; put-put -/
theorem put_valid (st : PyVal) (p : Path) (c : PyVal) (h : atPath st p = some c) (w : PyVal) :
    ∃ st', put st p w = some st' ∧ atPath st' p = some w ∧ ∀ w2, put st' p w2 = put st p w2 := by
  induction p generalizing st with
  | nil => exact ⟨w, by simp [put, modAt], by simp [atPath], fun w2 => by simp [put, modAt]⟩
  | cons s r ih =>
    simp only [atPath] at h
    cases hi : item st s with
    | none => simp [hi] at h
    | some d =>
      simp only [hi, Option.bind_some] at h
      obtain ⟨d', hd1, hd2, hd3⟩ := ih d h
      obtain ⟨v', hv1, hv2, hv3⟩ := setItem_valid st s d hi d'
      refine ⟨v', by simp only [put] at hd1 ⊢; simp [modAt, hi, hd1, hv1], by simp [atPath, hv2, hd2], fun w2 => ?_⟩
      have h3 := hd3 w2
      simp only [put] at h3 hd1 ⊢
      simp only [modAt, hv2, hi, Option.bind_some, h3]
      cases modAt d r fun _ => some w2 with
      | none => rfl
      | some x => simp [hv3]

/-- get-put -/
theorem put_self (st : PyVal) (p : Path) (c : PyVal) (h : atPath st p = some c) : put st p c = some st := by
  induction p generalizing st with
  | nil => simp [atPath] at h; simp [put, modAt, h]
  | cons s r ih =>
    simp only [atPath] at h
    cases hi : item st s with
    | none => simp [hi] at h
    | some d =>
      simp only [hi, Option.bind_some] at h
      have := ih d h
      simp only [put] at this ⊢
      simp [modAt, hi, this, setItem_item st s d hi]

/-- the total put: the state with the node at `path` replaced when the path is valid (else the state itself) -/
def putT (st : PyVal) (path : Path) (w : PyVal) : PyVal := (put st path w).getD st

theorem putT_nil (st w : PyVal) : putT st [] w = w := by simp [putT, put, modAt]

section valid
variable {st : PyVal} {p : Path}

theorem put_eq_putT (hv : (atPath st p).isSome = true) (w : PyVal) : put st p w = some (putT st p w) := by
  obtain ⟨c, hc⟩ := Option.isSome_iff_exists.mp hv
  obtain ⟨st', h1, _, _⟩ := put_valid st p c hc w
  simp [putT, h1]

theorem atPath_putT (hv : (atPath st p).isSome = true) (w : PyVal) : atPath (putT st p w) p = some w := by
  obtain ⟨c, hc⟩ := Option.isSome_iff_exists.mp hv
  obtain ⟨st', h1, h2, _⟩ := put_valid st p c hc w
  simp [putT, h1, h2]

theorem putT_putT (hv : (atPath st p).isSome = true) (w w2 : PyVal) : putT (putT st p w) p w2 = putT st p w2 := by
  obtain ⟨c, hc⟩ := Option.isSome_iff_exists.mp hv
  obtain ⟨st', h1, _, h3⟩ := put_valid st p c hc w
  obtain ⟨st2, h4, _, _⟩ := put_valid st p c hc w2
  simp [putT, h1, h3, h4]

theorem putT_self {c : PyVal} (h : atPath st p = some c) : putT st p c = st := by
  simp [putT, put_self st p c h]

theorem valid_putT (hv : (atPath st p).isSome = true) (w : PyVal) : (atPath (putT st p w) p).isSome = true := by
  simp [atPath_putT hv]

theorem atPath_putT_append (hv : (atPath st p).isSome = true) (w : PyVal) (q : Path) :
    atPath (putT st p w) (p ++ q) = atPath w q := by
  simp [atPath_append, atPath_putT hv]

theorem modAt_putT (hv : (atPath st p).isSome = true) (w : PyVal) (f : PyVal → Option PyVal) :
    modAt (putT st p w) p f = (f w).map (putT st p) := by
  rw [modAt_of_atPath _ p w f (atPath_putT hv w)]
  cases f w with
  | none => rfl
  | some c' => simp [put_eq_putT (valid_putT hv w), putT_putT hv]

theorem modAt_putT_append (hv : (atPath st p).isSome = true) (w : PyVal) (q : Path) (f : PyVal → Option PyVal) :
    modAt (putT st p w) (p ++ q) f = (modAt w q f).map (putT st p) := by
  rw [modAt_append, modAt_putT hv]

theorem setAt_putT (hv : (atPath st p).isSome = true) (w k x : PyVal) :
    setAt (putT st p w) p k x = (setItem w k x).map (putT st p) := modAt_putT hv w _

theorem setAt_putT_append (hv : (atPath st p).isSome = true) (w : PyVal) (q : Path) (k x : PyVal) :
    setAt (putT st p w) (p ++ q) k x = (setAt w q k x).map (putT st p) := modAt_putT_append hv w q _

theorem appendAt_putT (hv : (atPath st p).isSome = true) (xs : List PyVal) (x : PyVal) :
    appendAt (putT st p (.list xs)) p x = some (putT st p (.list (xs ++ [x]))) := by
  simp [appendAt, modAt_putT hv]

/-- a put below a put is a put of the put -/
theorem putT_putT_append (hv : (atPath st p).isSome = true) (w : PyVal) (q : Path) (x : PyVal) :
    putT (putT st p w) (p ++ q) x = putT st p (putT w q x) := by
  have h := modAt_putT_append hv w q (fun _ => some x)
  simp only [putT, put] at h ⊢
  rw [h]
  cases hq : modAt w q fun _ => some x with
  | none => simp
  | some y => simp [putT, put]

end valid

/-! ### small facts about the emitted expression forms -/

theorem isInfix_singleton (a : Char) (cs : List Char) : PyVal.isInfix [a] cs = cs.contains a := by
  induction cs with
  | nil => simp [PyVal.isInfix]
  | cons c cs ih =>
    simp only [PyVal.isInfix, ih, List.contains_cons]
    by_cases h : a = c
    · subst h; simp [List.isPrefixOf]
    · have h2 : (a == c) = false := by simp [h]
      have h3 : (c == a) = false := by simp; exact fun h' => h h'.symm
      simp [List.isPrefixOf, h2]

theorem isSuffixOf_singleton (a : Char) (cs : List Char) : [a].isSuffixOf cs = (cs.getLast? == some a) := by
  rw [List.isSuffixOf, List.reverse_singleton]
  cases h : cs.reverse with
  | nil => have : cs = [] := by simpa using h
           subst this; simp
  | cons c r =>
    have : cs.getLast? = some c := by rw [List.getLast?_eq_head?_reverse, h]; rfl
    have e : (some c == some a) = (c == a) := rfl
    simp only [this, List.isPrefixOf, Bool.and_true, e]
    exact BEq.comm

end Rbacx.PyC

/-! ### one iteration of `_set_by_path`'s loop, seen from the node at the cursor -/

namespace Rbacx.PyC
open PyVal (lookup)
open Rbacx.Redact

/-- how one iteration leaves the node `c` at the cursor: `ret c'` = the function returns with `c'` there, `next c' segs` = `c'` there
    and the cursor moves down by `segs` -/
inductive Iter where
  | ret (c : PyVal)
  | next (c : PyVal) (segs : Path)

/-- one iteration for the segment text `p` on the node `c` (`last` = `is_last`), written with the model's vocabulary -/
def iterModel (last : Bool) (p : String) (value : PyVal) : PyVal → Iter
  | .dict kvs =>
    match parseSeg p with
    | .invalid => .ret (.dict kvs)
    | .key k =>
      if last then .ret (.dict (setKey k value kvs))
      else .next (.dict (setKey k (childDict (lookup k kvs)) kvs)) [.str k]
    | .index k idx =>
      let lst := childList (lookup k kvs)
      if idx < -(lst.length : Int) then .ret (.dict (setKey k (.list lst) kvs))
      else
        let lst' := ensureSize lst idx
        let i := normIdx lst.length idx
        if last then .ret (.dict (setKey k (.list (lst'.set i value)) kvs))
        else .next (.dict (setKey k (.list (lst'.set i (childDict lst'[i]?))) kvs)) [.str k, .int idx]
  | c => .ret c

/-- what the state and the cursor are after the iteration -/
def iterLift (st : PyVal) (cur : Path) : Iter → Step
  | .ret c' => .ret (putT st cur c')
  | .next c' segs => .next (putT st cur c') (cur ++ segs)

theorem listPos_normIdx (lst : List PyVal) (idx : Int) (h : ¬ idx < -(lst.length : Int)) :
    listPos (ensureSize lst idx).length idx = some (normIdx lst.length idx) := by
  have hl := length_ensureSize lst idx
  unfold listPos normIdx
  by_cases hn : idx < 0
  · simp only [hn, if_true] at hl ⊢
    rw [hl]; simp only [ite_eq_left_iff]; intro hh; exact absurd (by omega) hh
  · simp only [hn, if_false] at hl ⊢
    rw [hl]; simp only [ite_eq_left_iff]; intro hh; exact absurd (by omega) hh

/-- the model's recursion is: one iteration, then the remaining segments below the new cursor -/
theorem setParts_iter (p : String) (rest : List String) (c value : PyVal) :
    setParts (p :: rest) c value =
      match iterModel rest.isEmpty p value c with
      | .ret c' => c'
      | .next c' segs => putT c' segs (setParts rest ((atPath c' segs).getD .none) value) := by
  cases c <;> try rfl
  case dict kvs =>
    simp only [setParts, iterModel]
    cases hp : parseSeg p with
    | invalid => rfl
    | key k =>
      cases rest with
      | nil => simp [setParts]
      | cons q rest' =>
        simp only [List.isEmpty_cons, Bool.false_eq_true, if_false]
        simp only [atPath, item, Option.bind_some, Option.getD_some, putT, put, modAt,
          setItem, setKey_eq_setKV, setKV_setKV, lookup_setKV_self]
    | index k idx =>
      simp only
      by_cases hlt : idx < -((childList (lookup k kvs)).length : Int)
      · simp only [hlt, if_true]
      · simp only [hlt, if_false]
        cases rest with
        | nil => simp [setParts]
        | cons q rest' =>
          simp only [List.isEmpty_cons, Bool.false_eq_true, if_false]
          have hpos := listPos_normIdx (childList (lookup k kvs)) idx hlt
          have hlen := normIdx_lt (childList (lookup k kvs)) idx hlt
          simp only [atPath, item, Option.bind_some, List.length_set, hpos, hlen,
            List.getElem?_set_self, Option.getD_some, putT, put, modAt, setItem, Option.map_some,
            List.set_set, setKey_eq_setKV, setKV_setKV, lookup_setKV_self]

theorem iterModel_next_valid (last : Bool) (p : String) (value c c' : PyVal) (segs : Path)
    (h : iterModel last p value c = .next c' segs) : last = false ∧ (atPath c' segs).isSome = true := by
  cases c <;> simp only [iterModel] at h <;> try (exact absurd h (by simp))
  case dict kvs =>
    cases hp : parseSeg p with
    | invalid => simp [hp] at h
    | key k =>
      simp only [hp] at h
      cases last
      · simp only [Bool.false_eq_true, if_false, Iter.next.injEq] at h
        obtain ⟨rfl, rfl⟩ := h
        simp [atPath, item, lookup_setKey_self]
      · simp at h
    | index k idx =>
      simp only [hp] at h
      by_cases hlt : idx < -((childList (lookup k kvs)).length : Int)
      · simp [hlt] at h
      · simp only [hlt, if_false] at h
        cases last
        · simp only [Bool.false_eq_true, if_false, Iter.next.injEq] at h
          obtain ⟨rfl, rfl⟩ := h
          have hpos := listPos_normIdx (childList (lookup k kvs)) idx hlt
          have hlen := normIdx_lt (childList (lookup k kvs)) idx hlt
          simp [atPath, item, lookup_setKey_self, hpos, hlen]
        · simp at h

/-- THE CURSOR LOOP AGAINST THE MODEL'S RECURSION.  Any loop body that acts on `(state, cursor)` as `iterModel` acts on the node at the
    cursor — for every state in which the cursor is valid — runs, from a state whose node at the cursor is `c`, to the state with
    `setParts ps c value` there.  `n` = the length of the whole list (what `is_last` compares `i` with). -/
theorem forEnumFrom_setParts (body : PyVal → PyVal → PyVal → Path → Option Step) (value : PyVal) (n : Nat)
    (hbody : ∀ (i : Nat) (p : String) (st0 : PyVal) (cur : Path) (c : PyVal), (atPath st0 cur).isSome = true →
      body (.int i) (.str p) (putT st0 cur c) cur = some (iterLift st0 cur (iterModel (i + 1 == n) p value c)))
    (ps : List String) : ∀ (i : Nat) (st0 : PyVal) (cur : Path) (c : PyVal), (atPath st0 cur).isSome = true → i + ps.length = n → ps ≠ [] →
      forEnumFrom i (putT st0 cur c) cur body (ps.map .str) = some (putT st0 cur (setParts ps c value)) := by
  induction ps with
  | nil => intro _ _ _ _ _ _ h; exact absurd rfl h
  | cons p rest ih =>
    intro i st0 cur c hv hn _
    simp only [List.map_cons, forEnumFrom, hbody i p st0 cur c hv, Option.bind_some]
    have hlast : (i + 1 == n) = rest.isEmpty := by
      cases rest with
      | nil => simp at hn ⊢; omega
      | cons q r => simp at hn ⊢; omega
    rw [setParts_iter, hlast]
    cases hit : iterModel rest.isEmpty p value c with
    | ret c' => simp [iterLift]
    | next c' segs =>
      obtain ⟨hl, hsegs⟩ := iterModel_next_valid _ _ _ _ _ _ hit
      simp only [iterLift]
      obtain ⟨child, hchild⟩ := Option.isSome_iff_exists.mp hsegs
      have hv' : (atPath (putT st0 cur c') (cur ++ segs)).isSome = true := by
        rw [atPath_putT_append hv]; exact hsegs
      have hself : putT (putT st0 cur c') (cur ++ segs) child = putT st0 cur c' := by
        apply putT_self; rw [atPath_putT_append hv]; exact hchild
      have hne : rest ≠ [] := by intro h; simp [h] at hl
      have := ih (i + 1) (putT st0 cur c') (cur ++ segs) child hv' (by simp at hn; omega) hne
      rw [hself] at this
      rw [this, putT_putT_append hv, hchild]
      rfl

/-! ### `while len(lst) <= idx: lst.append({})` -/

/-- any emitted condition / body that test `len(lst) <= idx` and append `{}` through the reference `lst` grow the list as `ensureSize`
    says, on the budget `idx + 1 - len(lst)` -/
theorem whileO_grow (cond body : PyVal → Option PyVal) (st0 : PyVal) (lst : Path) (idx : Int)
    (hcond : ∀ xs : List PyVal, cond (putT st0 lst (.list xs)) = some (.bool (decide ((xs.length : Int) ≤ idx))))
    (hbody : ∀ xs : List PyVal, body (putT st0 lst (.list xs)) = some (putT st0 lst (.list (xs ++ [.dict []])))) :
    ∀ (fuel : Nat) (xs : List PyVal), fuel = (idx + 1 - xs.length).toNat →
      whileO fuel (putT st0 lst (.list xs)) cond body = some (putT st0 lst (.list (ensureSize xs idx))) := by
  intro fuel
  induction fuel with
  | zero =>
    intro xs hf
    have hle : ¬ ((xs.length : Int) ≤ idx) := by omega
    have : ensureSize xs idx = xs := by
      unfold ensureSize; split
      · rfl
      · have : idx.toNat + 1 - xs.length = 0 := by omega
        simp [this]
    simp [whileO, hcond, hle, this, PyVal.truthy]
  | succ n ih =>
    intro xs hf
    have hle : (xs.length : Int) ≤ idx := by omega
    have hstep : ensureSize (xs ++ [.dict []]) idx = ensureSize xs idx := by
      unfold ensureSize
      have h0 : ¬ idx < 0 := by omega
      simp only [h0, if_false, List.length_append, List.length_singleton, List.append_assoc]
      have : idx.toNat + 1 - xs.length = (idx.toNat + 1 - (xs.length + 1)) + 1 := by omega
      rw [this, List.replicate_succ]; rfl
    simp only [whileO, hcond, hle, decide_true, PyVal.truthy, if_true, Option.bind_some, hbody]
    have hn : n = (idx + 1 - ((xs ++ [PyVal.dict []]).length : Int)).toNat := by
      simp only [List.length_append, List.length_singleton]; omega
    rw [ih (xs ++ [PyVal.dict []]) hn, hstep]

end Rbacx.PyC

/-! ### the emitted expression forms of `_set_by_path`'s loop body against `parseSeg` -/

namespace Rbacx.PyC
open PyVal (lookup)
open Rbacx.Redact

theorem truthy_bool (b : Bool) : (PyVal.bool b).truthy = b := rfl
theorem isInstance_dict (a : PyVal) : Py.isInstance a "dict" = .bool a.isDict := rfl
theorem isInstance_list (a : PyVal) : Py.isInstance a "list" = .bool a.isList := rfl

theorem contains_dict_str (kvs : List (String × PyVal)) (k : String) :
    Py.contains (.dict kvs) (.str k) = .bool (lookup k kvs).isSome := by
  unfold Py.contains
  simp only [Py.iter]
  congr 1
  induction kvs with
  | nil => rfl
  | cons kv rest ih =>
    obtain ⟨k0, w⟩ := kv
    have e : PyVal.pyEq (.str k0) (.str k) = (k0 == k) := rfl
    simp only [List.map_cons, List.any_cons, e, lookup, ih]
    by_cases h : k0 = k <;> simp [h]

/-- the name before the first `[` -/
def segKey (p : String) : String := String.ofList (p.toList.takeWhile (· != '['))
/-- the text between the first `[` and the last character -/
def segIdx (p : String) : String := String.ofList ((p.toList.dropWhile (· != '[')).drop 1)

/-- `"[" in p and p.endswith("]")` -/
theorem bracket_test (p : String) :
    (Py.pand (Py.contains (.str p) (.str "[")) (Py.endswith (.str p) (.str "]"))).truthy
      = (p.toList.contains '[' && p.toList.getLast? == some ']') := by
  have e1 : ("[" : String).toList = ['['] := rfl
  have e2 : ("]" : String).toList = [']'] := rfl
  simp only [Py.pand, Py.contains, Py.endswith, PyVal.strContains, PyVal.strEndsWith, e1, e2, isInfix_singleton,
    isSuffixOf_singleton, PyVal.truthy]
  cases p.toList.contains '[' <;> simp [PyVal.truthy]

/-- `key, idx_str = p.split("[", 1)` behind `"[" in p` -/
theorem unpack2_splitChar1 (p : String) (h : p.toList.contains '[' = true) :
    unpack2 (splitChar1 (.str p) '[') = some (.str (segKey p), .str (segIdx p)) := by
  simp only [splitChar1, h, if_true, unpack2, segKey, segIdx]

/-- `int(idx_str[:-1])` -/
theorem intOf_sliceTo (p : String) :
    intOf (sliceTo (.str (segIdx p)) (-1)) = (parsePyInt ((p.toList.dropWhile (· != '[')).drop 1).dropLast).map .int := by
  simp only [sliceTo, segIdx, String.toList_ofList, intOf]
  have : (-(-1 : Int)).toNat = 1 := rfl
  simp only [show ((-1 : Int) < 0) from by decide, if_true, this, List.dropLast_eq_take]

theorem parseSeg_bracket (p : String) (h : (p.toList.contains '[' && p.toList.getLast? == some ']') = true) :
    parseSeg p = match parsePyInt ((p.toList.dropWhile (· != '[')).drop 1).dropLast with
      | some i => .index (segKey p) i
      | none => .invalid := by
  simp only [parseSeg, h, if_true, segKey]
  cases parsePyInt ((p.toList.dropWhile (· != '[')).drop 1).dropLast <;> rfl

theorem parseSeg_plain (p : String) (h : (p.toList.contains '[' && p.toList.getLast? == some ']') = false) :
    parseSeg p = .key p := by
  simp only [parseSeg, h, Bool.false_eq_true, if_false]

/-- `is_last = i == len(parts) - 1` -/
theorem is_last_eq (i : Nat) (l : List PyVal) : (Py.eq (.int i) (sub (lenV (.list l)) (.int 1))).truthy = (i + 1 == l.length) := by
  simp only [lenV, Py.len, sub, Py.eq, PyVal.truthy]
  generalize l.length = n
  show ((i : Int) == (n : Int) - 1) = (i + 1 == n)
  rw [Bool.eq_iff_iff]
  simp only [beq_iff_eq]
  omega

theorem list_set_self {xs : List PyVal} {i : Nat} {e : PyVal} (h : xs[i]? = some e) : xs.set i e = xs := by
  obtain ⟨hi, rfl⟩ := List.getElem?_eq_some_iff.mp h
  exact List.set_getElem_self hi

/-- `cur[key][idx] = w` where the node at the cursor is a dict holding a list under `key` and `idx` is in range -/
theorem setAt_list_elem {st : PyVal} {cur : Path} (hv : (atPath st cur).isSome = true) {kvs : List (String × PyVal)} {k : String}
    {xs : List PyVal} {idx : Int} {n : Nat} (hl : lookup k kvs = some (.list xs)) (hp : listPos xs.length idx = some n) (w : PyVal) :
    setAt (putT st cur (.dict kvs)) (cur ++ [.str k]) (.int idx) w = some (putT st cur (.dict (Py.setKV k (.list (xs.set n w)) kvs))) := by
  rw [setAt_putT_append hv]
  simp [setAt, modAt, item, hl, setItem, hp]

/-- reading `cur[key][idx]` there -/
theorem atPath_list_elem {st : PyVal} {cur : Path} (hv : (atPath st cur).isSome = true) {kvs : List (String × PyVal)} {k : String}
    {xs : List PyVal} {idx : Int} {n : Nat} (hl : lookup k kvs = some (.list xs)) (hp : listPos xs.length idx = some n) :
    atPath (putT st cur (.dict kvs)) (cur ++ [.str k, .int idx]) = xs[n]? := by
  rw [atPath_putT_append hv]
  simp [atPath, item, hl, hp]

theorem putT_dict_key (kvs : List (String × PyVal)) (k : String) (x : PyVal) (h : (lookup k kvs).isSome = true) :
    putT (.dict kvs) [.str k] x = .dict (Py.setKV k x kvs) := by
  obtain ⟨c, hc⟩ := Option.isSome_iff_exists.mp h
  simp [putT, put, modAt, item, hc, setItem]

end Rbacx.PyC

/-! ### `apply_obligations`: the loops over the specs and over their paths -/

namespace Rbacx.PyC
open PyVal (lookup)
open Rbacx.Redact

/-- `for path in <fields>: _set_by_path(out, path, v)`: any emitted body that is `setByPath` on `str` entries folds to `applyWrites` -/
theorem forState_paths (body : PyVal → PyVal → Option PyVal) (v : PyVal)
    (hbody : ∀ (s : String) (st : PyVal), body (.str s) st = some (setByPath st s v)) (ps : List PyVal)
    (hstr : ps.all PyVal.isStr = true) (st : PyVal) :
    forState ps st body = some (applyWrites st (ps.filterMap fun p => (pathStr p).map fun s => (s, v))) := by
  induction ps generalizing st with
  | nil => rfl
  | cons p rest ih =>
    simp only [List.all_cons, Bool.and_eq_true] at hstr
    obtain ⟨h1, h2⟩ := hstr
    cases p <;> simp [PyVal.isStr] at h1
    case str s =>
      simp only [forState, hbody, Option.bind_some, ih h2, List.filterMap_cons, pathStr, Option.map_some, applyWrites,
        List.foldl_cons]

/-- `for ob in obligations or []: …`: any emitted body that performs the writes `specWrites` lists, for every documented spec, runs
    through the model's `applySpecs` — and nothing raises -/
theorem forState_specs (body : PyVal → PyVal → Option PyVal)
    (hbody : ∀ (ob st : PyVal), plainSpec ob = true → ∃ ws, specWrites ob = some ws ∧ body ob st = some (applyWrites st ws))
    (specs : List PyVal) (h : specs.all plainSpec = true) (st : PyVal) :
    forState specs st body = some (applySpecs st specs).1 ∧ (applySpecs st specs).2 = false := by
  induction specs generalizing st with
  | nil => exact ⟨rfl, rfl⟩
  | cons ob rest ih =>
    simp only [List.all_cons, Bool.and_eq_true] at h
    obtain ⟨ws, hws, hb⟩ := hbody ob st h.1
    simp only [forState, hb, Option.bind_some, applySpecs, hws]
    exact ih h.2 _

/-- `ob.get("fields", []) or []` of a documented spec: the list `fieldsOf` gives, all `str` -/
theorem fields_plain (kvs : List (String × PyVal)) (h : plainSpec (.dict kvs) = true) :
    ∃ ps, fieldsOf kvs = some ps ∧ ps.all PyVal.isStr = true ∧
      Py.iter (PyVal.por (Py.getD (.dict kvs) "fields" (.list [])) (.list [])) = ps := by
  simp only [plainSpec] at h
  simp only [fieldsOf, Py.getD]
  cases hl : lookup "fields" kvs with
  | none => exact ⟨[], rfl, rfl, rfl⟩
  | some f =>
    simp only [hl, Bool.or_eq_true, Bool.not_eq_true'] at h
    by_cases ht : f.truthy = true
    · have hx : ∃ xs, f = .list xs ∧ xs.all PyVal.isStr = true := by
        rcases h with h | h
        · simp [ht] at h
        · cases f <;> simp at h
          exact ⟨_, rfl, by simpa using h⟩
      obtain ⟨xs, rfl, hxs⟩ := hx
      exact ⟨xs, by simp [ht], hxs, by simp [PyVal.por, ht, Py.iter]⟩
    · have hf : f.truthy = false := by simpa using ht
      exact ⟨[], by simp [hf], rfl, by simp [PyVal.por, hf, Py.iter]⟩

theorem applyWrites_nil (st : PyVal) : applyWrites st [] = st := rfl

end Rbacx.PyC
