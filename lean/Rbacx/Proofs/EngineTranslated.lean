import Rbacx.Model.Engine
import Rbacx.Model.PyAwait
import Rbacx.Proofs.RawDict
import Rbacx.Proofs.ObligationsTranslated
/-
  Rbacx.Proofs.EngineTranslated — what the per-run obligation `Run/C01_translated.lean` needs to prove the mechanical translation of the
  decision core of `Guard._evaluate_core_async` (core/engine.py; `Generated.Src.engine_env`, `Src.engine_gate`) equal to the model
  (`buildEnv`, `finishDecision`, Model/Engine.lean).  Nothing here depends on the generated code.

  * encodings: the request dataclasses and the returned `Decision` as records (`encSubject` … `encDecision`); the outcomes of the two
    awaited collaborator calls in the model's terms (`checkerOutcome`, `resolverOutcome`);
  * the model in the shape of the source: `gateModel` (the Decision as a function of the raw decision and of the UNPACKED outcome of the
    checker call) with `finishDecision_gateModel`; `envModel` with `buildEnv_envModel`;
  * what the source reads from a raw decision dict (`Represents`), `list(x or [])`, `dict(x or {})`.
-/
namespace Rbacx.Py
open PyVal

/-! ### encodings -/

/-- the returned `Decision` (a frozen dataclass): the record of its seven fields in declaration order -/
def encDecision (d : Decision) : PyVal :=
  record [("allowed", .bool d.allowed), ("effect", .str d.effect), ("obligations", .list d.obligations), ("challenge", d.challenge),
          ("rule_id", d.ruleId), ("policy_id", d.policyId), ("reason", .str d.reason)]

def encSubject (req : Request) : PyVal := record [("id", req.subjectId), ("roles", req.roles), ("attrs", req.subjectAttrs)]
def encAction (req : Request) : PyVal := record [("name", req.action)]
def encResource (req : Request) : PyVal := record [("type", req.resourceType), ("id", req.resourceId), ("attrs", req.resourceAttrs)]
/-- `context`: `None`, or a `Context(attrs=…)` -/
def encContext (req : Request) : PyVal :=
  match req.context with
  | Option.none => PyVal.none
  | some a => record [("attrs", a)]

/-- the OUTCOME of `await maybe_await(self.obligations.check(raw, context))` in the model's terms: the built-in checker returns the
    tuple `checkObligations` computes (tied to the source of `BasicObligationChecker.check` by C07_translated); a custom checker
    returns its pair or raises (`none`) -/
def checkerOutcome (o : Oracle) (cfg : GuardCfg) (req : Request) (raw : Raw) : Option PyVal :=
  match cfg.checker with
  | .builtin => some (encVerdict (checkObligations o raw.decision raw.obligations (dictOr (req.context.getD PyVal.none))))
  | .custom Option.none => Option.none
  | .custom (some (ok, ch)) => some (.list [ok, ch])

/-- the OUTCOME of `await maybe_await(self.role_resolver.expand(roles))` in the model's terms (`none`: it raised, or no resolver) -/
def resolverOutcome (cfg : GuardCfg) (roles : List PyVal) : Option PyVal :=
  match cfg.resolver with
  | Option.none => Option.none
  | some f => f roles

/-- `self.role_resolver` as a value: `None` exactly when no resolver is configured -/
def encResolver (cfg : GuardCfg) : PyVal :=
  match cfg.resolver with
  | Option.none => PyVal.none
  | some _ => .str "<RoleResolver>"

/-! ### the obligation gate in the shape of the source -/

/-- the Decision as the source computes it from the raw decision and the UNPACKED outcome of the checker call (`none`: the call
    raised, or what it returned did not unpack into two items) -/
def gateModel (raw : Raw) (outcome : Option (PyVal × PyVal)) : Decision :=
  if raw.decision == "permit" then
    match outcome with
    | some (ok, ch) =>
      { allowed := ok.truthy, effect := if ok.truthy then "permit" else "deny", obligations := raw.obligations, challenge := ch,
        ruleId := raw.rid, policyId := raw.policyId, reason := if ok.truthy then raw.reason else "obligation_failed" }
    | Option.none =>
      { allowed := true, effect := "permit", obligations := raw.obligations, challenge := PyVal.none, ruleId := raw.rid,
        policyId := raw.policyId, reason := raw.reason }
  else
    { allowed := false, effect := "deny", obligations := raw.obligations, challenge := PyVal.none, ruleId := raw.rid,
      policyId := raw.policyId, reason := raw.reason }

theorem awaitUnpack2_checkerOutcome_builtin (o : Oracle) (cfg : GuardCfg) (req : Request) (raw : Raw) (h : cfg.checker = .builtin) :
    awaitUnpack2 (checkerOutcome o cfg req raw) =
      some (.bool (checkObligations o raw.decision raw.obligations (dictOr (req.context.getD PyVal.none))).1,
            optToVal (checkObligations o raw.decision raw.obligations (dictOr (req.context.getD PyVal.none))).2) := by
  simp only [checkerOutcome, h, encVerdict]; rfl

/-- **the Decision of the model's `finishDecision` is `gateModel` on the unpacked checker outcome** -/
theorem finishDecision_gateModel (o : Oracle) (cfg : GuardCfg) (req : Request) (env : PyVal) (raw : Raw) :
    (finishDecision o cfg req env raw).1 = gateModel raw (awaitUnpack2 (checkerOutcome o cfg req raw)) := by
  unfold gateModel
  by_cases hp : (raw.decision == "permit") = true
  · rw [if_pos hp]
    cases hc : cfg.checker with
    | builtin =>
      rw [awaitUnpack2_checkerOutcome_builtin o cfg req raw hc]
      simp only [finishDecision, hc, hp, Bool.not_true, Bool.false_eq_true, if_false]
      generalize checkObligations o raw.decision raw.obligations (dictOr (req.context.getD PyVal.none)) = v
      obtain ⟨ok, ch⟩ := v
      cases ok <;> cases ch <;> simp [optToVal, PyVal.truthy]
    | custom a =>
      cases a with
      | none => simp [finishDecision, hc, hp, checkerOutcome, awaitUnpack2]
      | some v =>
        obtain ⟨ok, ch⟩ := v
        simp only [finishDecision, hc, hp, checkerOutcome, awaitUnpack2_pair, Bool.not_true, Bool.false_eq_true, if_false]
        cases ok.truthy <;> simp
  · rw [if_neg hp]
    have hp' : (raw.decision == "permit") = false := by simpa using hp
    simp [finishDecision, hp']

/-! ### what the sinks are handed -/

/-- the argument a sink call carries: the audit record `logger_sink.log` is handed (a seven-key dict), the labels dict
    `metrics.inc` / `metrics.observe` are handed -/
def encEvent : Event → PyVal
  | .audit env decision allowed ruleId policyId reason obligations =>
    .dict [("env", env), ("decision", .str decision), ("allowed", .bool allowed), ("rule_id", ruleId), ("policy_id", policyId),
           ("reason", .str reason), ("obligations", .list obligations)]
  | .metricInc decision => .dict [("decision", .str decision)]
  | .metricObserve decision => .dict [("decision", .str decision)]

/-- the events of `finishDecision` as a function of its Decision (the statement of `Rbacx.C11.c11_one_audit_one_metric`) -/
theorem finishDecision_events (o : Oracle) (cfg : GuardCfg) (req : Request) (env : PyVal) (raw : Raw) :
    (finishDecision o cfg req env raw).2 =
      (if cfg.hasMetrics then [Event.metricInc (finishDecision o cfg req env raw).1.effect,
                               Event.metricObserve (finishDecision o cfg req env raw).1.effect] else []) ++
      (if cfg.hasLogger then
        [Event.audit env (finishDecision o cfg req env raw).1.effect (finishDecision o cfg req env raw).1.allowed
          (finishDecision o cfg req env raw).1.ruleId (finishDecision o cfg req env raw).1.policyId
          (finishDecision o cfg req env raw).1.reason (finishDecision o cfg req env raw).1.obligations] else []) := rfl

theorem dictOf_labels (a : PyVal) : dictOf [("decision", a)] = .dict [("decision", a)] := by
  simp [dictOf, setItem, setKV]

theorem dictOf_payload (a b c d e f g : PyVal) :
    dictOf [("env", a), ("decision", b), ("allowed", c), ("rule_id", d), ("policy_id", e), ("reason", f), ("obligations", g)] =
      .dict [("env", a), ("decision", b), ("allowed", c), ("rule_id", d), ("policy_id", e), ("reason", f), ("obligations", g)] := by
  simp [dictOf, setItem, setKV]

/-! ### what the source reads from a raw decision dict -/

theorem strO_str (o : Oracle) (s : String) : strO o (.str s) = .str s := rfl

/-- a raw decision that describes a model `Raw` has no `challenge` key -/
theorem Represents.challenge {d : PyVal} {r : Raw} (h : Represents d r) : Py.get d "challenge" = PyVal.none := by
  rw [h.field]; simp [rawField]

/-- `list(x or [])` for a list `x` -/
theorem list_or_empty (xs : List PyVal) : PyVal.list (Py.iter (por (.list xs) (.list []))) = .list xs := by
  cases xs <;> rfl

theorem eq_permit (s : String) : Py.eq (.str s) (.str "permit") = .bool (s == "permit") := by
  simp only [Py.eq, pyEq]

theorem isNotNone_truthy (v : PyVal) : (Py.isNotNone v).truthy = !v.isNone := rfl

theorem isNone_eq_none {v : PyVal} (h : v.isNone = true) : v = PyVal.none := by
  cases v <;> simp_all [PyVal.isNone]

/-! ### the env -/

/-- `dict(x or {})` is the model's `dictOr`, for every `x` -/
theorem dictCopy_or (x : PyVal) : dictCopy (por x (.dict [])) = dictOr x := by
  cases x with
  | dict kvs => cases kvs <;> rfl
  | none => rfl
  | bool b => cases b <;> rfl
  | int n => simp only [por]; split <;> rfl
  | float f => simp only [por]; split <;> rfl
  | str s => simp only [por]; split <;> rfl
  | list l => cases l <;> rfl
  | dt a m => rfl

/-- the subject's own roles as the model's `effectiveRoles` reads them -/
def ownRoles (r : PyVal) : List PyVal :=
  match r with
  | .list rs => rs
  | _ => []

/-- `list(subject.roles or [])` is the model's own-roles list when `roles` is a list or falsy (`None`) — for a non-empty string or dict
    CPython iterates characters / keys, the model takes no roles: outside the domain (`roles: list[str]`) -/
theorem roles_or_empty (r : PyVal) (h : r.isList = true ∨ r.truthy = false) :
    Py.iter (por r (.list [])) = ownRoles r := by
  unfold ownRoles
  cases r with
  | list l => cases l <;> rfl
  | none => rfl
  | bool b => cases b <;> rfl
  | int n => simp only [por]; split <;> rfl
  | float f => simp only [por]; split <;> rfl
  | dt a m => rfl
  | str s =>
    rcases h with h | h
    · simp [PyVal.isList] at h
    · simp only [por, h]; rfl
  | dict kvs =>
    rcases h with h | h
    · simp [PyVal.isList] at h
    · simp only [por, h]; rfl

/-- `dict(getattr(context, "attrs", {}) or {})` -/
theorem context_attrs (req : Request) :
    dictOr (getattrD (encContext req) "attrs" (.dict [])) = dictOr (req.context.getD PyVal.none) := by
  cases hc : req.context with
  | none => simp only [encContext, hc]; rfl
  | some a => simp only [encContext, hc]; rfl

/-- the four-key display and the strict-types flag -/
theorem env_display (sid roles sattrs act rtype rid rattrs cattrs : PyVal) :
    dictOf [("subject", dictOf [("id", sid), ("roles", roles), ("attrs", sattrs)]), ("action", act),
            ("resource", dictOf [("type", rtype), ("id", rid), ("attrs", rattrs)]), ("context", cattrs)] =
      .dict [("subject", .dict [("id", sid), ("roles", roles), ("attrs", sattrs)]), ("action", act),
             ("resource", .dict [("type", rtype), ("id", rid), ("attrs", rattrs)]), ("context", cattrs)] := by
  simp [dictOf, setItem, setKV]

theorem env_strict (a b c d : PyVal) :
    setItem (.dict [("subject", a), ("action", b), ("resource", c), ("context", d)]) "__strict_types__" (.bool true) =
      .dict ([("subject", a), ("action", b), ("resource", c), ("context", d)] ++ [("__strict_types__", .bool true)]) := by
  simp [setItem, setKV]

/-- the roles that reach the env, from the own roles and the resolver's outcome -/
theorem effectiveRoles_outcome (cfg : GuardCfg) (req : Request) :
    effectiveRoles cfg req =
      (match cfg.resolver with
       | Option.none => .list (ownRoles req.roles)
       | some _ => (resolverOutcome cfg (ownRoles req.roles)).getD (.list (ownRoles req.roles))) := by
  unfold effectiveRoles resolverOutcome ownRoles
  cases cfg.resolver <;> rfl

end Rbacx.Py
