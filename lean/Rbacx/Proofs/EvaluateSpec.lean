import Rbacx.Proofs.PolicyLoop
/-
  Rbacx.Proofs.EvaluateSpec — `evaluate` in terms of the outcome list of its rules.
-/
namespace Rbacx
open PyVal

theorem por_str_not_none (a : PyVal) (s : String) : (por a (.str s)).isNone = false := by
  unfold por
  split
  · rename_i h
    cases a <;> simp_all [truthy, isNone]
  · rfl

theorem condOutcome_not_applied (cx : CondCtx) (c : PyVal) (out : Outcome)
    (h : condOutcome cx c = .ok (some out)) : out.applied = false := by
  unfold condOutcome at h
  split at h
  · simp at h
  · split at h <;> simp at h <;> subst h <;> rfl

/-- `ruleOutcome` never reports a `None` rule id -/
theorem ruleOutcome_rid (cx : CondCtx) (r : PyVal) (o : Outcome) (h : ruleOutcome cx r = .ok o) :
    o.applied = true → o.rid.isNone = false := by
  intro ha
  unfold ruleOutcome at h
  split at h
  · injection h with h; subst h; simp [Outcome.applied] at ha
  · split at h
    · injection h with h; subst h; simp [Outcome.applied] at ha
    · split at h
      · simp at h
      · rename_i out hc
        injection h with h; subst h
        rw [condOutcome_not_applied cx _ _ hc] at ha; simp at ha
      · split at h
        · simp at h
        · injection h with h; subst h; simp [Outcome.rid, por_str_not_none]

theorem outcomes_rids (cx : CondCtx) :
    ∀ (rules : List PyVal) (outs : List Outcome), outcomes cx rules = .ok outs → RidsNonNull outs := by
  intro rules
  induction rules with
  | nil => intro outs h; simp [outcomes] at h; subst h; intro o ho; simp at ho
  | cons r rs ih =>
    intro outs h
    simp only [outcomes] at h
    cases hr : ruleOutcome cx r with
    | error e => simp [hr] at h
    | ok o =>
      simp only [hr] at h
      cases hrs : outcomes cx rs with
      | error e => simp [hrs] at h
      | ok os =>
        simp only [hrs] at h
        injection h with h
        subst h
        intro o' ho'
        rcases List.mem_cons.mp ho' with h1 | h1
        · subst h1; exact ruleOutcome_rid cx r _ hr
        · exact ih _ hrs o' h1

/-- the algorithm string `evaluate` works with -/
def algoOf (dflt : String) (policy : PyVal) : Except CondErr String := lowerField (policy.get "algorithm") dflt

theorem evaluate_eq (cx : CondCtx) (dflt : String) (policy : PyVal) (algo : String) (outs : List Outcome)
    (ha : algoOf dflt policy = .ok algo) (ho : outcomes cx (rulesOf policy) = .ok outs) :
    evaluate cx dflt policy = .ok (finalise algo (loopOuts algo {} outs)) := by
  unfold evaluate
  unfold algoOf at ha
  simp only [ha, bind, Except.bind, rulesLoop_eq_loopOuts cx algo _ _ _ ho, pure, Except.pure]

theorem evaluate_deny_overrides (cx : CondCtx) (dflt : String) (policy : PyVal) (outs : List Outcome)
    (ha : algoOf dflt policy = .ok "deny-overrides") (ho : outcomes cx (rulesOf policy) = .ok outs) :
    evaluate cx dflt policy = .ok (specDO outs) := by
  rw [evaluate_eq cx dflt policy _ outs ha ho, evaluate_do_full]

theorem evaluate_permit_overrides (cx : CondCtx) (dflt : String) (policy : PyVal) (outs : List Outcome)
    (ha : algoOf dflt policy = .ok "permit-overrides") (ho : outcomes cx (rulesOf policy) = .ok outs) :
    evaluate cx dflt policy = .ok (specPO outs) := by
  rw [evaluate_eq cx dflt policy _ outs ha ho, evaluate_po_full]

theorem evaluate_first_applicable (cx : CondCtx) (dflt : String) (policy : PyVal) (outs : List Outcome)
    (ha : algoOf dflt policy = .ok "first-applicable") (ho : outcomes cx (rulesOf policy) = .ok outs) :
    evaluate cx dflt policy = .ok (specFA outs) := by
  rw [evaluate_eq cx dflt policy _ outs ha ho, evaluate_fa_full _ (outcomes_rids cx _ _ ho)]

end Rbacx

namespace Rbacx

theorem outcomes_mem (cx : CondCtx) :
    ∀ (rules : List PyVal) (outs : List Outcome), outcomes cx rules = .ok outs →
      ∀ o, o ∈ outs ↔ ∃ r ∈ rules, ruleOutcome cx r = .ok o := by
  intro rules
  induction rules with
  | nil => intro outs h o; simp [outcomes] at h; subst h; simp
  | cons r rs ih =>
    intro outs h o
    simp only [outcomes] at h
    cases hr : ruleOutcome cx r with
    | error e => simp [hr] at h
    | ok o' =>
      simp only [hr] at h
      cases hrs : outcomes cx rs with
      | error e => simp [hrs] at h
      | ok os =>
        simp only [hrs] at h
        injection h with h
        subst h
        simp only [List.mem_cons, ih _ hrs o]
        constructor
        · rintro (h1 | ⟨r', hr', ho'⟩)
          · subst h1; exact ⟨r, Or.inl rfl, hr⟩
          · exact ⟨r', Or.inr hr', ho'⟩
        · rintro ⟨r', (h1 | h1), ho'⟩
          · subst h1; rw [hr] at ho'; injection ho' with ho'; exact Or.inl ho'.symm
          · exact Or.inr ⟨r', h1, ho'⟩

end Rbacx
