import Rbacx.Proofs.CondTranslated
import Rbacx.Proofs.RawDict
import Rbacx.Model.PolicySet
/-
  Rbacx.Proofs.EvaluatorsTranslated — what the per-run obligation `Run/C02_whole.lean` needs to prove the WHOLE-function
  exception-passing translations of the reference evaluators (`Generated.Src.evaluate`, `Src.decide_single` / `Src.decide`,
  harness/pytolean_except.py, plugin extractors/src_translation_evaluators.py) equal to the hand-written model (`Rbacx.evaluate`,
  Model/Policy.lean; `decideTree`, Model/PolicySet.lean).  Nothing here depends on the generated code:

  * what the exception-passing operations do on the shapes the evaluators meet (`getE` on a dict / a non-dict, `lowerE` of
    `x or "<default>"` = the model's `lowerField`, `list(x) if isinstance(x, list) else []`, `str(x or "")` of a string);
  * `loopM`: a loop with early exit over a model state, the common shape of `rulesLoop` and `childrenLoop`;
  * `forLoop_sim` / `forLoop_rel`: `PyE.forLoop` on a tuple of Python variables simulates `loopM` — through an encoding function
    (the rule loop: the nine variables ARE the model state) or through a representation relation (the child loop: a result dict
    represents a `Raw` in whatever key order);
  * well-formed documents (`DictTree`: every node of the policy tree is a dict), sizes of the parts of a document.
-/
namespace Rbacx.PyE
open PyVal

/-! ### operations on the shapes the evaluators meet -/

theorem getE_isDict {d : PyVal} (h : d.isDict = true) (k : String) : getE d (.str k) = .ok (d.get k) := by
  cases d <;> first | rfl | (simp [PyVal.isDict] at h)

theorem getE_nondict {d : PyVal} (h : d.isDict = false) (k : PyVal) : getE d k = .error (.raised "AttributeError") := by
  cases d <;> first | rfl | (simp [PyVal.isDict] at h)

theorem listE_list (xs : List PyVal) : listE (.list xs) = .ok (.list xs) := rfl

theorem iterE_list (xs : List PyVal) : iterE (.list xs) = .ok xs := rfl

/-- `(x or "<dflt>").lower()` is the model's `lowerField` -/
theorem lowerE_por (v : PyVal) (dflt : String) : lowerE (por v (.str dflt)) = (lowerField v dflt).map PyVal.str := by
  unfold lowerField
  cases por v (.str dflt) <;> rfl

/-- the value of `list(x) if isinstance(x, list) else []` -/
def listOr (v : PyVal) : List PyVal := match v with | .list xs => xs | _ => []

theorem listOr_bind {β : Type} (v : PyVal) (k : PyVal → Except CondErr β) :
    bind (if (isInstance v ["list"]).truthy = true then listE v else Except.ok (PyVal.list [])) k = k (.list (listOr v)) := by
  cases v <;> rfl

theorem listOr_obligations (rule : PyVal) : listOr (por (rule.get "obligations") (.list [])) = ruleObligations rule := by
  unfold ruleObligations listOr
  rfl

theorem truthy_isInstance_list (v : PyVal) : (isInstance v ["list"]).truthy = v.isList := by cases v <;> rfl

theorem eq_str (a b : String) : (Rbacx.Py.eq (.str a) (.str b)).truthy = (a == b) := rfl

theorem strO_decision (o : Oracle) (d : String) : Rbacx.Py.strO o (por (.str d) (.str "")) = .str d := by
  by_cases h : d = ""
  · subst h; rfl
  · have : (PyVal.str d).truthy = true := by simp [PyVal.truthy, h]
    simp [por, this, Rbacx.Py.strO, Oracle.pyStr]

/-- `x.get("a") or x.get("b")` with the second operand evaluated only when Python evaluates it -/
theorem or_get {β : Type} (a b : PyVal) (k : PyVal → Except CondErr β) :
    bind (if a.truthy = true then Except.ok a else Except.ok b) k = k (por a b) := by
  unfold por
  cases a.truthy <;> rfl

theorem dictE_isDict {d : PyVal} (h : d.isDict = true) : dictE d = .ok (Rbacx.Py.dictCopy d) := by
  cases d <;> first | rfl | (simp [PyVal.isDict] at h)

theorem containsE_dict_key {d : PyVal} (h : d.isDict = true) (k : String) : containsE d (.str k) = .ok (.bool (d.hasKey k)) := by
  cases d <;> first | rfl | (simp [PyVal.isDict] at h)

/-- `except ConditionTypeError` around a call: a ConditionTypeError goes to the handler, every other exception propagates -/
theorem tryBind_cte {β : Type} (x : Res) (h : Except CondErr β) (k : PyVal → Except CondErr β) :
    tryBind x ["ConditionTypeError"] h k =
      match x with
      | .ok v => k v
      | .error .typeMismatch => h
      | .error (.raised c) => .error (.raised c) := by
  cases x with
  | ok v => rfl
  | error e =>
    cases e with
    | typeMismatch => rfl
    | raised c =>
      have hcat : catches ["ConditionTypeError"] (.raised c) = false := by
        by_cases hc : c = "ConditionTypeError" <;> simp [catches, hc]
      simp only [tryBind, hcat, Bool.false_eq_true, if_false]

end Rbacx.PyE

namespace Rbacx
open PyVal PyE

/-! ### loops with early exit -/

/-- a loop over `xs` on a state, one `step` per item: an exception ends it, `true` in the second component is `break` -/
def loopM {τ : Type} (step : τ → PyVal → Except CondErr (τ × Bool)) : τ → List PyVal → Except CondErr τ
  | s, [] => .ok s
  | s, x :: xs =>
    match step s x with
    | .error e => .error e
    | .ok (s', b) => if b then .ok s' else loopM step s' xs

/-- the rule loop of the model is such a loop -/
theorem rulesLoop_eq_loopM (cx : CondCtx) (algo : String) (rules : List PyVal) (s : LoopSt) :
    rulesLoop cx algo s rules = loopM (fun s r => (ruleOutcome cx r).map (stepRule algo s)) s rules := by
  induction rules generalizing s with
  | nil => rfl
  | cons r rs ih =>
    unfold rulesLoop loopM
    cases ruleOutcome cx r with
    | error e => rfl
    | ok out =>
      simp only [Except.map]
      cases hb : (stepRule algo s out).2
      · simp only [Bool.false_eq_true, if_false]; exact ih _
      · simp only [if_true]

/-- how one iteration of the model ends, as the `Ctl` of the tuple of Python variables that encodes the state -/
def ctlOf {σ τ : Type} (enc : τ → σ) (r : τ × Bool) : Ctl σ := if r.2 then .brk (enc r.1) else .next (enc r.1)

/-- `PyE.forLoop` whose body, on encoded states, does what `step` does, ends in the encoding of `loopM`'s end state -/
theorem forLoop_sim {σ τ : Type} (enc : τ → σ) (body : σ → PyVal → Except CondErr (Ctl σ))
    (step : τ → PyVal → Except CondErr (τ × Bool)) (xs : List PyVal)
    (h : ∀ s x, x ∈ xs → body (enc s) x = (step s x).map (ctlOf enc)) (s : τ) :
    forLoop xs (enc s) body = (loopM step s xs).map enc := by
  induction xs generalizing s with
  | nil => rfl
  | cons x xs ih =>
    unfold forLoop loopM
    rw [h s x (List.mem_cons_self ..)]
    cases step s x with
    | error e => rfl
    | ok r =>
      obtain ⟨s', b⟩ := r
      cases b
      · simp only [Except.map, bind_ok, ctlOf, Bool.false_eq_true, if_false]
        exact ih (fun s x hx => h s x (List.mem_cons_of_mem _ hx)) s'
      · simp only [Except.map, bind_ok, ctlOf, if_true]

/-- what a relational simulation promises for one result -/
def SimRes {σ τ : Type} (R : σ → τ → Prop) (got : Except CondErr σ) (want : Except CondErr τ) : Prop :=
  match want with
  | .error e => got = .error e
  | .ok s => ∃ p, got = .ok p ∧ R p s

/-- the same with a representation RELATION between Python variables and model states: whenever the body, from related states,
    raises what `step` raises or ends in related states with the same `break` flag, the loops end alike -/
theorem forLoop_rel {σ τ : Type} (R : σ → τ → Prop) (body : σ → PyVal → Except CondErr (Ctl σ))
    (step : τ → PyVal → Except CondErr (τ × Bool)) (xs : List PyVal)
    (h : ∀ p s x, x ∈ xs → R p s →
      match step s x with
      | .error e => body p x = .error e
      | .ok r => ∃ p', body p x = .ok (if r.2 = true then .brk p' else .next p') ∧ R p' r.1)
    (p : σ) (s : τ) (hps : R p s) : SimRes R (forLoop xs p body) (loopM step s xs) := by
  induction xs generalizing p s with
  | nil => exact ⟨p, rfl, hps⟩
  | cons x xs ih =>
    unfold forLoop loopM
    have hx := h p s x (List.mem_cons_self ..) hps
    cases hs : step s x with
    | error e =>
      rw [hs] at hx
      simp only [hx, bind_error, SimRes]
    | ok r =>
      obtain ⟨s', b⟩ := r
      rw [hs] at hx
      obtain ⟨p', hb, hr⟩ := hx
      rw [hb]
      cases b
      · simp only [bind_ok, Bool.false_eq_true, if_false]
        exact ih (fun p s x hx => h p s x (List.mem_cons_of_mem _ hx)) p' s' hr
      · simp only [bind_ok, if_true]
        exact ⟨p', rfl, hr⟩

/-- what follows a simulated computation: a total continuation that maps related results to related results -/
theorem SimRes.bind {σ τ σ' τ' : Type} {R : σ → τ → Prop} {R' : σ' → τ' → Prop} {got : Except CondErr σ} {want : Except CondErr τ}
    (h : SimRes R got want) (k : σ → Except CondErr σ') (g : τ → τ')
    (hk : ∀ p s, R p s → ∃ d, k p = .ok d ∧ R' d (g s)) :
    SimRes R' (PyE.bind got k) (want.map g) := by
  cases want with
  | error e =>
    simp only [SimRes] at h
    simp only [h, bind_error, SimRes, Except.map]
  | ok s =>
    obtain ⟨p, hp, hr⟩ := h
    simp only [hp, bind_ok, SimRes, Except.map]
    exact hk p s hr

/-- the same, stated on whatever expression `W` the model has for "the result after the continuation" (no particular `match`) -/
theorem SimRes.bind_cases {σ τ σ' τ' : Type} {R : σ → τ → Prop} {R' : σ' → τ' → Prop} {got : Except CondErr σ}
    {want : Except CondErr τ} (h : SimRes R got want) (k : σ → Except CondErr σ') (W : Except CondErr τ')
    (herr : ∀ e, want = .error e → W = .error e)
    (hok : ∀ p s, want = .ok s → R p s → SimRes R' (k p) W) : SimRes R' (PyE.bind got k) W := by
  cases want with
  | error e =>
    simp only [SimRes] at h
    rw [h, herr e rfl]
    simp only [bind_error, SimRes]
  | ok s =>
    obtain ⟨p, hp, hr⟩ := h
    rw [hp]
    exact hok p s rfl hr

/-! ### dicts that describe a `Raw` (the results `decide` stores and returns) -/

theorem slot_isNone {d p : PyVal} {o : Option (Raw × PyVal)} (h : Rbacx.Py.SlotRep d p o) : d.isNone = o.isNone := by
  cases o with
  | none => rw [h.1]; rfl
  | some x => obtain ⟨r, pid⟩ := x; exact h.1.isNone_eq

/-- is the value a non-empty string? -/
def strNonEmpty (v : PyVal) : Bool := match v with | .str x => x != "" | _ => false

/-- `if isinstance(rid, str) and rid:` -/
theorem note_cond (v : PyVal) : (Rbacx.Py.pand (PyE.isInstance v ["str"]) v).truthy = strNonEmpty v := by
  cases v <;> simp [Rbacx.Py.pand, PyE.isInstance, Rbacx.Py.isInstance, PyVal.isStr, PyVal.truthy, strNonEmpty]

theorem noteRuleId_eq (s : SetSt) (r : Raw) :
    noteRuleId s r = if strNonEmpty (por r.lastRuleId r.ruleId) = true
      then { s with lastRuleId := por r.lastRuleId r.ruleId } else s := by
  unfold noteRuleId Raw.rid strNonEmpty
  cases por r.lastRuleId r.ruleId <;> simp

theorem por_reason (x : String) : por (.str x) (.str "matched") = .str (if x == "" then "matched" else x) := by
  by_cases h : x = ""
  · subst h; rfl
  · have : (PyVal.str x).truthy = true := by simp [PyVal.truthy, h]
    simp [por, this, h]

theorem por_list_nil (xs : List PyVal) : por (.list xs) (.list []) = .list xs := by
  cases xs <;> rfl

open Rbacx.Py in
/-- the three ways `decide` builds its result -/
theorem no_match_represents (l : PyVal) :
    Represents (.dict [("decision", .str "deny"), ("reason", .str "no_match"), ("rule_id", .none), ("last_rule_id", l),
      ("policy_id", .none), ("obligations", .list [])]) (noMatch l) := represents_encRawSet (noMatch l)

open Rbacx.Py in
theorem deny_represents (r : Raw) (pid : PyVal) :
    Represents (.dict [("decision", .str "deny"), ("reason", .str "explicit_deny"),
      ("rule_id", por r.lastRuleId r.ruleId), ("last_rule_id", por r.lastRuleId r.ruleId),
      ("policy_id", pid), ("obligations", .list r.obligations)]) (denyOut r pid) :=
  represents_encRawSet (denyOut r pid)

open Rbacx.Py in
theorem permit_represents {d : PyVal} {r : Raw} (h : Represents d r) (pid : PyVal) :
    Represents (setItem (setItem (dictCopy d) "policy_id" pid) "reason"
      (por ((setItem (dictCopy d) "policy_id" pid).get "reason") (.str "matched"))) (permitOut r pid) := by
  have h2 : (setItem d "policy_id" pid).get "reason" = .str r.reason := (h.setPolicyId pid).reason
  rw [h.copy, h2, por_reason]
  exact (h.setPolicyId pid).setReason _

open Rbacx.Py in
theorem first_represents {d : PyVal} {r : Raw} (h : Represents d r) (pid : PyVal) :
    Represents (setItem (dictCopy d) "policy_id" pid) { r with policyId := pid } := by
  rw [h.copy]
  exact h.setPolicyId pid

/-! ### documents -/

theorem size_get_le (d : PyVal) (k : String) : (d.get k).size ≤ d.size := by
  cases d with
  | dict kvs =>
    by_cases h : PyVal.hasKey (.dict kvs) k = true
    · exact Nat.le_of_lt (size_get_lt k kvs h)
    · have : (PyVal.dict kvs).get k = .none := by
        simp only [PyVal.hasKey, Bool.not_eq_true, Option.isSome_eq_false_iff, Option.isNone_iff_eq_none] at h
        simp [PyVal.get, h]
      rw [this]
      exact size_pos _
  | _ => exact size_pos _

theorem size_get_lt_of_truthy (d : PyVal) (k : String) (h : (d.get k).truthy = true) : (d.get k).size < d.size := by
  cases d with
  | dict kvs =>
    by_cases hk : PyVal.hasKey (.dict kvs) k = true
    · exact size_get_lt k kvs hk
    · have : (PyVal.dict kvs).get k = .none := by
        simp only [PyVal.hasKey, Bool.not_eq_true, Option.isSome_eq_false_iff, Option.isNone_iff_eq_none] at hk
        simp [PyVal.get, hk]
      rw [this] at h
      simp [PyVal.truthy] at h
  | _ => simp [PyVal.get, PyVal.truthy] at h

/-- a rule of the policy is smaller than the policy -/
theorem size_rule_lt (policy r : PyVal) (h : r ∈ rulesOf policy) : r.size < policy.size := by
  unfold rulesOf at h
  have hle := size_get_le policy "rules"
  generalize policy.get "rules" = v at h hle
  unfold por at h
  by_cases ht : v.truthy = true
  · simp only [ht, if_true] at h
    cases v with
    | list rs =>
      have := size_mem r rs h
      simp only [PyVal.size] at hle
      omega
    | _ => simp at h
  · simp [ht] at h

/-- a child of the set is smaller than the set, by two (the `policies` list lies in between) -/
theorem size_child_lt (doc c : PyVal) (cs : List PyVal) (h : por (doc.get "policies") (.list []) = .list cs) (hc : c ∈ cs) :
    c.size + 1 < doc.size := by
  unfold por at h
  by_cases ht : (doc.get "policies").truthy = true
  · have hle := size_get_lt_of_truthy doc "policies" ht
    simp only [ht, if_true] at h
    rw [h] at hle
    have := size_mem c cs hc
    simp only [PyVal.size] at hle
    omega
  · simp only [ht, Bool.false_eq_true, if_false] at h
    injection h with h; subst h; simp at hc

/-- every document of the policy tree is a dict (the children of a set, the children of its child sets, …) and every rule of
    every policy of the tree is a dict: the shapes on which `pol.get("id")` / `rule.get("id")` do not raise AttributeError -/
def DictDoc (doc : PyVal) : Prop := doc.isDict = true ∧ ∀ r ∈ rulesOf doc, r.isDict = true

def DictTree : PTree → Prop
  | .leaf doc => DictDoc doc
  | .node doc cs => doc.isDict = true ∧ ∀ c ∈ cs, DictTree c

theorem toTree_doc (n : Nat) (d : PyVal) : (toTree n d).doc = d := by
  cases n with
  | zero => rfl
  | succ n =>
    unfold toTree
    split
    · split <;> rfl
    · rfl

theorem dictTree_leaf {d : PyVal} (h : DictTree (.leaf d)) : DictDoc d := by
  unfold DictTree at h
  exact h

theorem dictTree_node {d : PyVal} {cs : List PTree} (h : DictTree (.node d cs)) : d.isDict = true ∧ ∀ c ∈ cs, DictTree c := by
  unfold DictTree at h
  exact h

theorem dictTree_doc {t : PTree} (h : DictTree t) : t.doc.isDict = true := by
  cases t with
  | leaf d => exact (dictTree_leaf h).1
  | node d cs => exact (dictTree_node h).1

/-- `policyset.get("policies") or []`, `[]` when that is not a list: the children `decide` iterates over -/
def kidsOf (doc : PyVal) : List PyVal :=
  match por (doc.get "policies") (.list []) with
  | .list cs => cs
  | _ => []

theorem toTree_node (n : Nat) (doc : PyVal) (h : doc.hasKey "policies" = true) :
    toTree (n + 1) doc = .node doc ((kidsOf doc).map (toTree n)) := by
  unfold toTree kidsOf
  simp only [h, if_true]
  cases por (doc.get "policies") (.list []) <;> rfl

theorem toTree_leaf (n : Nat) (doc : PyVal) (h : doc.hasKey "policies" = false) : toTree (n + 1) doc = .leaf doc := by
  unfold toTree
  simp [h]

theorem size_kid_lt (doc c : PyVal) (h : c ∈ kidsOf doc) : c.size + 1 < doc.size := by
  unfold kidsOf at h
  cases hp : por (doc.get "policies") (.list []) with
  | list cs => rw [hp] at h; exact size_child_lt doc c cs hp h
  | _ => rw [hp] at h; simp at h

/-- what `evaluate` returns has no policy id -/
theorem evaluate_policyId (cx : CondCtx) (dflt : String) (policy : PyVal) (r : Raw) (h : evaluate cx dflt policy = .ok r) :
    r.policyId = .none := by
  unfold evaluate at h
  cases h1 : lowerField (policy.get "algorithm") dflt with
  | error e => simp [h1, Bind.bind, Except.bind] at h
  | ok algo =>
    cases h2 : rulesLoop cx algo {} (rulesOf policy) with
    | error e => simp [h1, h2, Bind.bind, Except.bind, Functor.map, Except.map] at h
    | ok s =>
      simp only [h1, h2, Bind.bind, Except.bind, Pure.pure, Except.pure, Functor.map, Except.map, Except.ok.injEq] at h
      rw [← h]
      rfl

/-- the child loop of the model over the trees of the children `cs` is a `loopM` over `cs` -/
theorem childrenLoop_eq_loopM (cx : CondCtx) (interpDflt setDflt algo : String) (n : Nat) (cs : List PyVal) (s : SetSt) :
    childrenLoop cx interpDflt setDflt algo s (cs.map (toTree n)) =
      loopM (fun s c => (decideTree cx interpDflt setDflt (toTree n c)).map (stepChild algo s (c.get "id"))) s cs := by
  induction cs generalizing s with
  | nil => simp [childrenLoop, loopM]
  | cons c cs ih =>
    rw [List.map_cons, childrenLoop, loopM]
    cases decideTree cx interpDflt setDflt (toTree n c) with
    | error e => rfl
    | ok r =>
      simp only [Except.map, toTree_doc]
      cases hb : (stepChild algo s (c.get "id") r).2
      · simp only [Bool.false_eq_true, if_false]; exact ih _
      · simp only [if_true]

end Rbacx
