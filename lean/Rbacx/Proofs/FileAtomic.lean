import Rbacx.Proofs.FileFS
/-
  The run of a well-shaped `atomic_write` program under every fault: one lemma (`run_canonical`)
  that collects all the facts the C16 theorems project out.
-/
set_option linter.unusedSimpArgs false
namespace Rbacx.FileSrc

/-- everything C16 says about one run `r` of a program whose complete output is `new` -/
structure RunFacts (e : AWEnv) (fs0 : FS) (new : Content) (fault : Fault) (r : AWState × AWOutcome) : Prop where
  allOrNothing : fsGet r.1.fs e.target = fsGet fs0 e.target ∨ fsGet r.1.fs e.target = some ⟨new, e.now⟩
  noTemp : r.2 ≠ .crashed → fsGet r.1.fs e.tmp = none
  success : fault = .none → r.2 = .ok ∧ fsGet r.1.fs e.target = some ⟨new, e.now⟩
  okNew : r.2 = .ok → fsGet r.1.fs e.target = some ⟨new, e.now⟩
  frame : ∀ q, e.tmp ≠ q → e.target ≠ q → fsGet r.1.fs q = fsGet fs0 q
  raisedOnly : r.2 = .raised → fault.isRaise = true
  crashedOnly : r.2 = .crashed → fault.isCrash = true

def tail3 : List AWStep :=
  [⟨.close .temp, .withExit⟩, ⟨.replace .temp .target, .body⟩, ⟨.unlink .temp true, .fin⟩]

def writeSteps (idxs : List Nat) : List AWStep := idxs.map (fun i => (⟨.write .temp i, .withBody⟩ : AWStep))

/-- unfold the interpreter on a concrete step list and decide the resulting lookups -/
macro "aw_close" : tactic => `(tactic|
  (simp [tail3, runSteps, execOp, partialOp, runClean, cleanupSteps, Region.handlers, Fault.pred, Fault.isRaise, Fault.isCrash, rename, unlink, AWEnv.path,
      fsGet_appendChunk, fsGet_createTemp, fsGet_fsSet, fsGet_fsDel, *] <;>
   (try (intro q h1 h2; simp [h1, h2]))))

theorem run_tail3 (e : AWEnv) (fs0 : FS) (hne : e.tmp ≠ e.target) (st : AWState) (buf : Content) (fault : Fault)
    (hh : st.handle = some (e.tmp, buf))
    (hfs : ∀ q, fsGet st.fs q = if e.tmp = q then some ⟨[], e.now⟩ else fsGet fs0 q) :
    RunFacts e fs0 buf fault (runSteps e st tail3 fault) := by
  obtain ⟨fs, handle⟩ := st
  simp only at hh hfs
  subst hh
  have hne' : ¬ e.target = e.tmp := fun h => hne h.symm
  cases fault with
  | none => constructor <;> aw_close
  | crashAfter n k => rcases n with _ | _ | _ | n <;> constructor <;> aw_close
  | raiseAt n k => rcases n with _ | _ | _ | n <;> constructor <;> aw_close

theorem cleanup_withBody (idxs : List Nat) :
    cleanupSteps .withBody (writeSteps idxs ++ tail3) =
      [⟨.close .temp, .withExit⟩, ⟨.unlink .temp true, .fin⟩] := by
  induction idxs with
  | nil => simp [cleanupSteps, writeSteps, tail3, Region.handlers]
  | cons i rest ih =>
    have : cleanupSteps .withBody (writeSteps (i :: rest) ++ tail3) = cleanupSteps .withBody (writeSteps rest ++ tail3) := by
      simp [cleanupSteps, writeSteps, Region.handlers]
    rw [this, ih]

theorem run_tail (e : AWEnv) (fs0 : FS) (hne : e.tmp ≠ e.target) (idxs : List Nat) :
    ∀ (st : AWState) (buf : Content) (fault : Fault), st.handle = some (e.tmp, buf) →
      (∀ q, fsGet st.fs q = if e.tmp = q then some ⟨[], e.now⟩ else fsGet fs0 q) →
      RunFacts e fs0 (buf ++ newContent e.data idxs) fault (runSteps e st (writeSteps idxs ++ tail3) fault) := by
  induction idxs with
  | nil =>
    intro st buf fault hh hfs
    simpa [writeSteps, newContent] using run_tail3 e fs0 hne st buf fault hh hfs
  | cons i rest ih =>
    intro st buf fault hh hfs
    obtain ⟨fs, handle⟩ := st
    simp only at hh hfs
    subst hh
    have hne' : ¬ e.target = e.tmp := fun h => hne h.symm
    have hstep : writeSteps (i :: rest) ++ tail3 = ⟨.write .temp i, .withBody⟩ :: (writeSteps rest ++ tail3) := rfl
    rw [hstep]
    cases fault with
    | none =>
      have := ih ⟨fs, some (e.tmp, buf ++ e.data.getD i [])⟩ _ .none rfl hfs
      simp only [runSteps, execOp, Fault.pred, newContent]
      rw [List.append_assoc] at this
      exact this
    | crashAfter n k =>
      cases n with
      | zero => constructor <;> aw_close
      | succ n =>
        have := ih ⟨fs, some (e.tmp, buf ++ e.data.getD i [])⟩ _ (.crashAfter n k) rfl hfs
        simp only [runSteps, execOp, Fault.pred, newContent]
        rw [List.append_assoc] at this
        exact ⟨this.allOrNothing, this.noTemp, by simp, this.okNew, this.frame, by simpa [Fault.isRaise] using this.raisedOnly,
          by simp [Fault.isCrash]⟩
    | raiseAt n k =>
      cases n with
      | zero =>
        simp only [runSteps, cleanup_withBody]
        constructor <;> aw_close
      | succ n =>
        have := ih ⟨fs, some (e.tmp, buf ++ e.data.getD i [])⟩ _ (.raiseAt n k) rfl hfs
        simp only [runSteps, execOp, Fault.pred, newContent]
        rw [List.append_assoc] at this
        exact ⟨this.allOrNothing, this.noTemp, by simp, this.okNew, this.frame, by simp [Fault.isRaise],
          by simpa [Fault.isCrash] using this.crashedOnly⟩

theorem cleanup_body (idxs : List Nat) :
    cleanupSteps .body (writeSteps idxs ++ tail3) = [⟨.unlink .temp true, .fin⟩] := by
  induction idxs with
  | nil => simp [cleanupSteps, writeSteps, tail3, Region.handlers]
  | cons i rest ih =>
    have : cleanupSteps .body (writeSteps (i :: rest) ++ tail3) = cleanupSteps .body (writeSteps rest ++ tail3) := by
      simp [cleanupSteps, writeSteps, Region.handlers]
    rw [this, ih]

theorem cleanup_outside (steps : List AWStep) : cleanupSteps .outside steps = [] := by
  simp [cleanupSteps, Region.handlers]

theorem canonical_eq (r0 : Region) (idxs : List Nat) :
    canonical r0 idxs = ⟨.mkstemp true, r0⟩ :: ⟨.fdopen .temp, .body⟩ :: (writeSteps idxs ++ tail3) := rfl

/-- every fact about every run of a canonical program, from a file system in which the temp name is fresh -/
theorem run_canonical (e : AWEnv) (fs0 : FS) (hne : e.tmp ≠ e.target) (hfresh : fsGet fs0 e.tmp = none)
    (r0 : Region) (hr0 : r0 = .outside ∨ r0 = .body) (idxs : List Nat) (fault : Fault) :
    RunFacts e fs0 (newContent e.data idxs) fault (runSteps e ⟨fs0, none⟩ (canonical r0 idxs) fault) := by
  have hne' : ¬ e.target = e.tmp := fun h => hne h.symm
  have hfs : ∀ q, fsGet (createTemp fs0 e.tmp e.now) q = if e.tmp = q then some ⟨[], e.now⟩ else fsGet fs0 q :=
    fun q => fsGet_createTemp fs0 e.tmp q e.now
  have key : ∀ f, RunFacts e fs0 (newContent e.data idxs) f
      (runSteps e ⟨createTemp fs0 e.tmp e.now, some (e.tmp, [])⟩ (writeSteps idxs ++ tail3) f) := by
    intro f
    simpa using run_tail e fs0 hne idxs ⟨createTemp fs0 e.tmp e.now, some (e.tmp, [])⟩ [] f rfl hfs
  rw [canonical_eq]
  cases fault with
  | none =>
    simpa [runSteps, execOp, Fault.pred, AWEnv.path, fsGet_createTemp] using key .none
  | crashAfter n k =>
    rcases n with _ | _ | n
    · constructor <;> aw_close
    · constructor <;> aw_close
    · have := key (.crashAfter n k)
      simp only [runSteps, execOp, Fault.pred, AWEnv.path, fsGet_createTemp, if_true, Option.isSome_some]
      exact ⟨this.allOrNothing, this.noTemp, by simp, this.okNew, this.frame, by simpa [Fault.isRaise] using this.raisedOnly,
        by simp [Fault.isCrash]⟩
  | raiseAt n k =>
    rcases n with _ | _ | n
    · rcases hr0 with h | h <;> subst h
      · simp only [runSteps, cleanup_outside]
        constructor <;> aw_close
      · have : cleanupSteps .body (⟨.fdopen .temp, .body⟩ :: (writeSteps idxs ++ tail3)) = [⟨.unlink .temp true, .fin⟩] := by
          rw [← cleanup_body idxs]; simp [cleanupSteps, Region.handlers]
        simp only [runSteps, this]
        constructor <;> aw_close
    · simp only [runSteps, execOp, Fault.pred, cleanup_body]
      constructor <;> aw_close
    · have := key (.raiseAt n k)
      simp only [runSteps, execOp, Fault.pred, AWEnv.path, fsGet_createTemp, if_true, Option.isSome_some]
      exact ⟨this.allOrNothing, this.noTemp, by simp, this.okNew, this.frame, by simp [Fault.isRaise],
        by simpa [Fault.isCrash] using this.crashedOnly⟩

end Rbacx.FileSrc
