import Rbacx.Model.FileSource
/-
  `FilePolicySource.etag` over histories: idempotence (for stability) and the signature-cache
  invariant (for truthfulness under the property's proviso).
-/
namespace Rbacx.FileSrc
variable {Tag Doc : Type}

/-- asking again without touching the disk changes nothing and answers the same -/
theorem etag_idem (cfg : SrcCfg Tag Doc) (disk : Option File) (st : SrcState Tag) :
    etag cfg disk (etag cfg disk st).1 = etag cfg disk st := by
  obtain ⟨cs, ch⟩ := st
  cases disk with
  | none => simp [etag, ensureSha]
  | some f =>
    cases cs with
    | none => simp [etag, ensureSha]
    | some s =>
      cases ch with
      | none => simp [etag, ensureSha]
      | some h =>
        by_cases hs : s = f.sig
        · simp [etag, ensureSha, hs]
        · simp [etag, ensureSha, hs]

/-- The signature cache is the invariant: a cached pair `(sig, sha)` is the signature and the hash of
    the file the last `etag()` call saw. -/
def CacheInv (cfg : SrcCfg Tag Doc) (last : Option File) (st : SrcState Tag) : Prop :=
  ∀ s h, st.cachedSig = some s → st.cachedSha = some h → ∃ f, last = some f ∧ s = f.sig ∧ h = cfg.sha f.content

theorem cacheInv_empty (cfg : SrcCfg Tag Doc) (last : Option File) : CacheInv cfg last SrcState.empty := by
  intro s h hs; simp [SrcState.empty] at hs

/-- one `etag()` call: if the step from the previously observed file to the current one respects the
    proviso, the answer is the true tag and the cache describes the current file -/
theorem etag_truthful (cfg : SrcCfg Tag Doc) (last disk : Option File) (st : SrcState Tag)
    (hinv : CacheInv cfg last st)
    (hp : ∀ f f', last = some f → disk = some f' → f.content ≠ f'.content → f.size ≠ f'.size ∨ f.mtime ≠ f'.mtime) :
    (etag cfg disk st).2 = trueTag cfg disk ∧ CacheInv cfg disk (etag cfg disk st).1 := by
  obtain ⟨cs, ch⟩ := st
  cases disk with
  | none =>
    refine ⟨by simp [etag, ensureSha, trueTag], ?_⟩
    intro s h hs; simp [etag, ensureSha] at hs
  | some f' =>
    cases cs with
    | none =>
      refine ⟨by simp [etag, ensureSha, trueTag, File.sig], ?_⟩
      intro s h hs hh
      simp [etag, ensureSha] at hs hh
      exact ⟨f', rfl, hs.symm, hh.symm⟩
    | some s0 =>
      cases ch with
      | none =>
        refine ⟨by simp [etag, ensureSha, trueTag, File.sig], ?_⟩
        intro s h hs hh
        simp [etag, ensureSha] at hs hh
        exact ⟨f', rfl, hs.symm, hh.symm⟩
      | some h0 =>
        by_cases hs0 : s0 = f'.sig
        · -- cache hit: the cached hash is the hash of the last observed file, whose signature is the current one
          obtain ⟨f, hl, hsf, hhf⟩ := hinv s0 h0 rfl rfl
          have hc : f.content = f'.content := by
            apply Classical.byContradiction
            intro hne
            have hsig : f.sig = f'.sig := by rw [← hsf, hs0]
            simp only [File.sig, Prod.mk.injEq] at hsig
            rcases hp f f' hl rfl hne with h1 | h1
            · exact h1 hsig.1
            · exact h1 hsig.2
          refine ⟨by simp only [etag, ensureSha, hs0, if_true]; simp [trueTag, File.sig, hhf, hc], ?_⟩
          intro s h hs hh
          simp [etag, ensureSha, hs0] at hs hh
          exact ⟨f', rfl, hs.symm, by rw [← hh, hhf, hc]⟩
        · refine ⟨by simp only [etag, ensureSha, hs0, if_false]; simp [trueTag, File.sig], ?_⟩
          intro s h hs hh
          simp [etag, ensureSha, hs0] at hs hh
          exact ⟨f', rfl, hs.symm, hh.symm⟩

/-- every `etag()` answer in a history that respects the proviso is the true tag of the disk at that moment -/
theorem trace_etag_truthful (cfg : SrcCfg Tag Doc) (ops : List FOp) :
    ∀ (w : World Tag) (last : Option File), CacheInv cfg last w.src → Proviso last (etagDisks w.disk ops) →
      ∀ d t, (d, Obs.etag t) ∈ trace cfg w ops → t = trueTag cfg d := by
  induction ops with
  | nil => intro w last _ _ d t hm; simp [trace] at hm
  | cons op ops ih =>
    intro w last hinv hp d t hm
    cases op with
    | etag =>
      simp only [etagDisks, Proviso] at hp
      obtain ⟨h1, h2⟩ := etag_truthful cfg last w.disk w.src hinv hp.1
      simp only [trace, step, List.mem_cons, Prod.mk.injEq, Obs.etag.injEq] at hm
      rcases hm with ⟨hd, ht⟩ | hm
      · rw [hd, ht]; exact h1
      · exact ih ⟨w.disk, (etag cfg w.disk w.src).1⟩ w.disk h2 hp.2 d t hm
    | load =>
      simp only [trace, step, List.mem_cons, Prod.mk.injEq, reduceCtorEq, and_false, false_or] at hm
      exact ih w last hinv (by simpa [etagDisks, applyMod] using hp) d t hm
    | write c m =>
      simp only [trace, step, List.mem_cons, Prod.mk.injEq, reduceCtorEq, and_false, false_or] at hm
      exact ih ⟨applyMod w.disk (.write c m), w.src⟩ last hinv (by simpa [etagDisks] using hp) d t hm
    | touch m =>
      simp only [trace, step, List.mem_cons, Prod.mk.injEq, reduceCtorEq, and_false, false_or] at hm
      exact ih ⟨applyMod w.disk (.touch m), w.src⟩ last hinv (by simpa [etagDisks] using hp) d t hm
    | delete =>
      simp only [trace, step, List.mem_cons, Prod.mk.injEq, reduceCtorEq, and_false, false_or] at hm
      exact ih ⟨applyMod w.disk .delete, w.src⟩ last hinv (by simpa [etagDisks] using hp) d t hm

/-- `load()` answers in any history, from any cache state: the parse of what is on disk -/
theorem trace_load_is_disk (cfg : SrcCfg Tag Doc) (ops : List FOp) :
    ∀ (w : World Tag) d r, (d, Obs.load r) ∈ trace cfg w ops → r = load cfg d := by
  induction ops with
  | nil => intro w d r hm; simp [trace] at hm
  | cons op ops ih =>
    intro w d r hm
    cases op with
    | load =>
      simp only [trace, step, List.mem_cons, Prod.mk.injEq, Obs.load.injEq] at hm
      rcases hm with ⟨hd, hr⟩ | hm
      · rw [hd, hr]
      · exact ih w d r hm
    | etag =>
      simp only [trace, step, List.mem_cons, Prod.mk.injEq, reduceCtorEq, and_false, false_or] at hm
      exact ih _ d r hm
    | write c m =>
      simp only [trace, step, List.mem_cons, Prod.mk.injEq, reduceCtorEq, and_false, false_or] at hm
      exact ih _ d r hm
    | touch m =>
      simp only [trace, step, List.mem_cons, Prod.mk.injEq, reduceCtorEq, and_false, false_or] at hm
      exact ih _ d r hm
    | delete =>
      simp only [trace, step, List.mem_cons, Prod.mk.injEq, reduceCtorEq, and_false, false_or] at hm
      exact ih _ d r hm

/-- reads only, after a first `etag()`: the world does not move and every further `etag()` repeats the answer -/
theorem trace_reads_stable (cfg : SrcCfg Tag Doc) (ops : List FOp) (hr : ∀ op ∈ ops, op.isRead = true)
    (disk : Option File) (st : SrcState Tag) :
    ∀ d t, (d, Obs.etag t) ∈ trace cfg ⟨disk, (etag cfg disk st).1⟩ ops → d = disk ∧ t = (etag cfg disk st).2 := by
  induction ops with
  | nil => intro d t hm; simp [trace] at hm
  | cons op ops ih =>
    intro d t hm
    have hr' : ∀ op ∈ ops, op.isRead = true := fun o ho => hr o (List.mem_cons_of_mem _ ho)
    cases op with
    | etag =>
      simp only [trace, step, etag_idem, List.mem_cons, Prod.mk.injEq, Obs.etag.injEq] at hm
      rcases hm with ⟨hd, ht⟩ | hm
      · exact ⟨hd, ht⟩
      · exact ih hr' d t hm
    | load =>
      simp only [trace, step, List.mem_cons, Prod.mk.injEq, reduceCtorEq, and_false, false_or] at hm
      exact ih hr' d t hm
    | write c m => exact absurd (hr _ List.mem_cons_self) (by simp [FOp.isRead])
    | touch m => exact absurd (hr _ List.mem_cons_self) (by simp [FOp.isRead])
    | delete => exact absurd (hr _ List.mem_cons_self) (by simp [FOp.isRead])

/-- the file the most recent `etag()` call of a history saw (`last` if there was none) -/
def lastObs : Option File → Option File → List FOp → Option File
  | last, _, [] => last
  | _, d, .etag :: ops => lastObs d d ops
  | last, d, op :: ops => lastObs last (applyMod d op) ops

/-- the cache invariant holds after every history that respects the proviso -/
theorem cacheInv_runWorld (cfg : SrcCfg Tag Doc) (ops : List FOp) :
    ∀ (w : World Tag) (last : Option File), CacheInv cfg last w.src → Proviso last (etagDisks w.disk ops) →
      CacheInv cfg (lastObs last w.disk ops) (runWorld cfg w ops).src := by
  induction ops with
  | nil => intro w last hinv _; exact hinv
  | cons op ops ih =>
    intro w last hinv hp
    cases op with
    | etag =>
      simp only [etagDisks, Proviso] at hp
      obtain ⟨_, h2⟩ := etag_truthful cfg last w.disk w.src hinv hp.1
      exact ih ⟨w.disk, (etag cfg w.disk w.src).1⟩ w.disk h2 hp.2
    | load => exact ih w last hinv (by simpa [etagDisks, applyMod] using hp)
    | write c m => exact ih ⟨applyMod w.disk (.write c m), w.src⟩ last hinv (by simpa [etagDisks] using hp)
    | touch m => exact ih ⟨applyMod w.disk (.touch m), w.src⟩ last hinv (by simpa [etagDisks] using hp)
    | delete => exact ih ⟨applyMod w.disk .delete, w.src⟩ last hinv (by simpa [etagDisks] using hp)

/-- operations other than `etag()` never touch the source's cache -/
theorem runWorld_src_of_no_etag (cfg : SrcCfg Tag Doc) (ops : List FOp) (h : ∀ op ∈ ops, op ≠ .etag) :
    ∀ w : World Tag, (runWorld cfg w ops).src = w.src := by
  induction ops with
  | nil => intro w; rfl
  | cons op ops ih =>
    intro w
    have h' : ∀ op ∈ ops, op ≠ .etag := fun o ho => h o (List.mem_cons_of_mem _ ho)
    cases op with
    | etag => exact absurd rfl (h _ List.mem_cons_self)
    | load => exact ih h' w
    | write c m => exact ih h' ⟨applyMod w.disk (.write c m), w.src⟩
    | touch m => exact ih h' ⟨applyMod w.disk (.touch m), w.src⟩
    | delete => exact ih h' ⟨applyMod w.disk .delete, w.src⟩

theorem trueTag_ne_of_content (cfg : SrcCfg Tag Doc) (hsha : Function.Injective cfg.sha) (f f' : File)
    (hc : f.content ≠ f'.content) : trueTag cfg (some f) ≠ trueTag cfg (some f') := by
  simp only [trueTag, Option.map_some, ne_eq, Option.some.injEq, Prod.mk.injEq, not_and]
  intro h
  exact absurd (hsha h) hc

theorem trueTag_ne_of_mtime (cfg : SrcCfg Tag Doc) (hm : cfg.includeMtime = true) (f f' : File)
    (hne : f.mtime ≠ f'.mtime) : trueTag cfg (some f) ≠ trueTag cfg (some f') := by
  simp only [trueTag, hm, Option.map_some, ne_eq, Option.some.injEq, Prod.mk.injEq, not_and, if_true]
  intro _ h
  exact hne h

end Rbacx.FileSrc
