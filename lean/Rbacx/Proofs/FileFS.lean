import Rbacx.Model.FileSource
/-
  Lemmas about the association-list file system: lookup after delete / set / the primitives.
-/
namespace Rbacx.FileSrc

theorem fsGet_fsDel (fs : FS) (p q : Path) :
    fsGet (fsDel fs p) q = if p = q then none else fsGet fs q := by
  induction fs with
  | nil => simp [fsDel, fsGet]
  | cons e rest ih =>
    obtain ⟨k, f⟩ := e
    simp only [fsDel, List.filter_cons] at ih ⊢
    by_cases hk : k = p
    · subst hk
      simp only [beq_self_eq_true, Bool.not_true, Bool.false_eq_true, if_false, ih, fsGet]
      by_cases hq : k = q <;> simp [hq]
    · have : (k == p) = false := by simp [hk]
      simp only [this, Bool.not_false, if_true, fsGet, ih]
      by_cases hq : k = q
      · subst hq
        have : ¬ p = k := fun h => hk h.symm
        simp [this]
      · simp [hq]

theorem fsGet_fsSet (fs : FS) (p q : Path) (f : File) :
    fsGet (fsSet fs p f) q = if p = q then some f else fsGet fs q := by
  simp only [fsSet, fsGet, fsGet_fsDel]
  by_cases h : p = q <;> simp [h]

theorem fsGet_createTemp (fs : FS) (tmp q : Path) (now : Nat) :
    fsGet (createTemp fs tmp now) q = if tmp = q then some ⟨[], now⟩ else fsGet fs q := by
  simp only [createTemp, fsGet_fsSet]

theorem fsGet_appendChunk (fs : FS) (p q : Path) (c : Content) (now : Nat) :
    fsGet (appendChunk fs p c now) q =
      if p = q then some ⟨((fsGet fs p).map (·.content)).getD [] ++ c, now⟩ else fsGet fs q := by
  simp only [appendChunk]
  cases h : fsGet fs p <;> simp [fsGet_fsSet]

end Rbacx.FileSrc
