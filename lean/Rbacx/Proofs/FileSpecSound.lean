import Rbacx.Spec.FileSpec
import Rbacx.Proofs.FileEtag
/-
  The executable tag rules (`Spec.etagsOkOn`) follow from truthfulness of the tags – which is what
  `trace_etag_truthful` proves of the model under the proviso.
-/
namespace Rbacx.FileSrc
variable {Tag Doc : Type}

theorem tagRule_truthful [DecidableEq Tag] (cfg : SrcCfg Tag Doc) (hsha : Function.Injective cfg.sha)
    (d d' : Option File) :
    Spec.tagRule cfg.includeMtime (d, trueTag cfg d) (d', trueTag cfg d') = true := by
  cases d with
  | none => simp [Spec.tagRule]
  | some f =>
    cases d' with
    | none => simp [Spec.tagRule]
    | some f' =>
      cases hm : cfg.includeMtime <;>
        simp [Spec.tagRule, trueTag, hm, hsha.eq_iff]

theorem presenceRule_truthful (cfg : SrcCfg Tag Doc) (d : Option File) :
    Spec.presenceRule (d, trueTag cfg d) = true := by
  cases d <;> simp [Spec.presenceRule, trueTag]

/-- truthful tags satisfy the executable rules, pairwise over any list of observations -/
theorem etagsOkOn_of_truthful [DecidableEq Tag] (cfg : SrcCfg Tag Doc) (hsha : Function.Injective cfg.sha)
    (obs : List (Option File × Option (ETag Tag))) (ht : ∀ a ∈ obs, a.2 = trueTag cfg a.1) :
    Spec.etagsOkOn cfg.includeMtime obs = true := by
  have hrule : ∀ a ∈ obs, ∀ b ∈ obs, Spec.tagRule cfg.includeMtime a b = true := by
    intro a ha b hb
    have := tagRule_truthful cfg hsha a.1 b.1
    rw [← ht a ha, ← ht b hb] at this
    exact this
  simp only [Spec.etagsOkOn, Bool.and_eq_true, List.all_eq_true]
  refine ⟨?_, ?_⟩
  · intro a ha
    have := presenceRule_truthful cfg a.1
    rw [← ht a ha] at this
    exact this
  · clear ht
    induction obs with
    | nil => rfl
    | cons x xs ih =>
      simp only [Spec.pairsAll, Bool.and_eq_true, List.all_eq_true]
      refine ⟨fun b hb => hrule x List.mem_cons_self b (List.mem_cons_of_mem _ hb), ?_⟩
      exact ih (fun a ha b hb => hrule a (List.mem_cons_of_mem _ ha) b (List.mem_cons_of_mem _ hb))

end Rbacx.FileSrc
