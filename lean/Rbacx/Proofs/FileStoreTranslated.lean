import Rbacx.Model.PyWorld
import Rbacx.Proofs.FileAtomic
import Rbacx.Proofs.FileEtag
/-
  Library for the per-run obligations about the TRANSLATED store/file_store.py (`Rbacx.Generated.Src.fs_*`, world-passing — see
  Model/PyWorld.lean, harness/pytolean_world.py).  Nothing here mentions the generated text.

  Part 1 (`Rbacx.FileSrc.Sim`): the model's tiny file system as a WORLD for the translated `atomic_write`: the world is the model
  state + the fault still to come + whether the process has been killed; the six external calls are the model's own primitives
  (`execOp` / `partialOp` of Model/FileSource.lean) applied to the paths the CODE passes (`locOf`), under the world's fault.
  A killed process: no later call has any effect (and what the calls return no longer matters).
  Part 2: the encoding of the model's `SrcState` / `ETag` as the Python values the translated `FilePolicySource` computes with,
  and the externals `os.stat` / `_hash_file` / `open` … read off a disk state.
-/
namespace Rbacx.FileSrc.Sim
open Rbacx Rbacx.FileSrc

/-- the world of the translated `atomic_write` over the model -/
structure MW where
  st : AWState
  /-- the fault still to come, counted in calls from now -/
  fault : Fault
  /-- the process has been killed: nothing it does from now on has an effect -/
  dead : Bool

/-- which of the model's three paths a path argument is -/
def locOf (e : AWEnv) : PyVal → Loc
  | .str p => if p = e.tmp then .temp else if p = e.target then .target else .other
  | _ => .other

/-- one external call = one model step `op` under the world's fault: the fault fires here (`crashAfter 0 k`: the process dies after
    `k` bytes; `raiseAt 0 k`: the call raises `cls` after `k` bytes), or the step runs as the model says — raising `natural` when
    the model's step raises by itself — and the fault moves one call closer -/
def prim (e : AWEnv) (cls : String) (op : AWOp) (natural : String) (okv : PyVal) (w : MW) : MW × Except String PyVal :=
  if w.dead then (w, .ok okv) else
  match w.fault with
  | .crashAfter 0 k => (⟨partialOp e w.st k op, .none, true⟩, .ok okv)
  | .raiseAt 0 k => (⟨partialOp e w.st k op, .none, false⟩, .error cls)
  | f =>
    match execOp e w.st op with
    | (st', true) => (⟨st', f.pred, false⟩, .error natural)
    | (st', false) => (⟨st', f.pred, false⟩, .ok okv)

/-- the file descriptor `mkstemp` hands out -/
def theFd : PyVal := .int 3
/-- the file object `os.fdopen` hands out -/
def theFile : PyVal := .str "<file object>"

/-- the bytes of a text (any fixed injective representation will do: the model's contents are abstract byte lists) -/
def textBytes (s : String) : Content := s.toList.map Char.toNat

/-- `tempfile.mkstemp(prefix=…, dir=…)`: creates the fresh temp file, returns `(fd, name)` -/
def mkstempP (e : AWEnv) (cls : String) : PyW.Ext MW := fun _ _ w =>
  prim e cls (.mkstemp true) "OSError" (.list [theFd, .str e.tmp]) w

/-- `os.fdopen(fd, "w", …)`: a handle on the file the descriptor belongs to -/
def fdopenP (e : AWEnv) (cls : String) : PyW.Ext MW := fun args _ w =>
  match args with
  | .int 3 :: _ => prim e cls (.fdopen .temp) "OSError" theFile w
  | _ => prim e cls (.fdopen .other) "OSError" theFile w

/-- `f.write(data)`: chunk 0 of the model's data when `data` is the text whose bytes that chunk is, else a chunk that is not there -/
def writeP (e : AWEnv) (cls : String) : PyW.Ext MW := fun args _ w =>
  match args with
  | [_, .str s] => prim e cls (.write .temp (if textBytes s = e.data.getD 0 [] then 0 else e.data.length)) "ValueError" (.int 0) w
  | _ => prim e cls (.write .temp e.data.length) "ValueError" (.int 0) w

/-- the `with` exit: `f.close()` -/
def closeP (e : AWEnv) (cls : String) : PyW.Ext MW := fun _ _ w => prim e cls (.close .temp) "OSError" PyVal.none w

/-- `os.replace(src, dst)` on the paths the code passes -/
def replaceP (e : AWEnv) (cls : String) : PyW.Ext MW := fun args _ w =>
  match args with
  | [a, b] => prim e cls (.replace (locOf e a) (locOf e b)) "FileNotFoundError" PyVal.none w
  | _ => prim e cls (.other .other) "TypeError" PyVal.none w

/-- `os.unlink(p)` on the path the code passes; a missing file raises FileNotFoundError (swallowing it is the CODE's business) -/
def unlinkP (e : AWEnv) (cls : String) : PyW.Ext MW := fun args _ w =>
  match args with
  | [a] => prim e cls (.unlink (locOf e a) false) "FileNotFoundError" PyVal.none w
  | _ => prim e cls (.other .other) "TypeError" PyVal.none w

/-- how the model classifies the end of a translated run: killed / returned / raised -/
def outcomeOf (r : PyW.Res MW Unit) : AWOutcome :=
  if r.world.dead then .crashed else match r.out with | .ok _ => .ok | .error _ => .raised

theorem locOf_tmp (e : AWEnv) : locOf e (.str e.tmp) = .temp := by simp [locOf]
theorem locOf_target (e : AWEnv) (hne : e.tmp ≠ e.target) : locOf e (.str e.target) = .target := by
  have : ¬ e.target = e.tmp := fun h => hne h.symm
  simp [locOf, this]

/-- the canonical program for "the whole data, written once" -/
theorem wellShaped_canonical0 : WellShaped (canonical .outside [0]) = true := by decide

end Rbacx.FileSrc.Sim

/-! ## Part 2: `FilePolicySource` — Python values for the model's cache state and tags, externals read off a disk state -/
namespace Rbacx.FileSrc.Enc
open Rbacx Rbacx.FileSrc

/-- `(st_size, st_mtime_ns)` / `None` -/
def encSig : Option (Nat × Nat) → PyVal
  | none => PyVal.none
  | some (a, b) => .list [.int a, .int b]

/-- the cached hex digest / `None` -/
def encSha : Option String → PyVal
  | none => PyVal.none
  | some h => .str h

/-- what `_ensure_content_sha` returns: `(None, None)` / `(sha, sig)` -/
def encEnsure : Option (String × (Nat × Nat)) → PyVal
  | none => .list [PyVal.none, PyVal.none]
  | some (h, sig) => .list [.str h, encSig (some sig)]

/-- what `etag()` returns: `None`, the digest, or `f"{sha}:{mtime_ns}"` -/
def encETag : Option (ETag String) → PyVal
  | none => PyVal.none
  | some (h, none) => .str h
  | some (h, some m) => .str (h ++ ":" ++ toString (Int.ofNat m))

/-- the `os.stat_result` of a file, as the record the translated `_stat_sig` reads (`st_mtime`, the float, is whatever it is) -/
def statRecord (f : File) (mtimeFloat : PyVal) : PyVal :=
  .dict [("st_size", .int f.content.length), ("st_mtime_ns", .int f.mtime), ("st_mtime", mtimeFloat)]

/-- how a call of `os.stat(path)` ends -/
inductive StatOut where
  | file (f : File)
  | missing
  /-- another exception (PermissionError, …) -/
  | fails (cls : String)

def StatOut.disk : StatOut → Option File
  | .file f => some f
  | _ => none

/-- `os.stat` as an external that does not touch the world -/
def statE {W : Type} (so : StatOut) (mtimeFloat : PyVal) : PyW.Ext W := fun _ _ w =>
  (w, match so with
      | .file f => .ok (statRecord f mtimeFloat)
      | .missing => .error "FileNotFoundError"
      | .fails cls => .error cls)

/-- an external with a fixed outcome that does not touch the world -/
def constE {W : Type} (o : Except String PyVal) : PyW.Ext W := fun _ _ w => (w, o)

theorem pyEq_encSig (a b : Option (Nat × Nat)) : PyVal.pyEq (encSig a) (encSig b) = decide (a = b) := by
  rcases a with _ | ⟨a1, a2⟩ <;> rcases b with _ | ⟨b1, b2⟩ <;> simp [encSig, PyVal.pyEq, PyVal.pyEqL]
  by_cases h1 : a1 = b1 <;> by_cases h2 : a2 = b2 <;> simp [h1, h2] <;> omega

theorem encSha_isNone (h : Option String) : (encSha h).isNone = h.isNone := by
  cases h <;> rfl

/-- the test `self._cached_stat_sig != sig or self._cached_sha is None` on encoded cache states: a MISS unless the cached signature
    is the current one and a digest is cached -/
theorem miss_test (cs : Option (Nat × Nat)) (ch : Option String) (sig : Nat × Nat) :
    (PyVal.por (Rbacx.Py.ne (encSig cs) (encSig (some sig))) (Rbacx.Py.isNone (encSha ch))).truthy
      = !(decide (cs = some sig) && ch.isSome) := by
  simp only [Rbacx.Py.ne, Rbacx.Py.isNone, PyVal.por, pyEq_encSig, encSha_isNone]
  by_cases h : cs = some sig <;> cases ch <;> simp [h, PyVal.truthy]

/-- the f-string `f"{sha}:{mtime_ns}"` -/
theorem fstr_etag (h : String) (m : Nat) :
    Rbacx.Py.fstr [Rbacx.Py.strOf (.str h), .str ":", Rbacx.Py.strOf (.int m)] = .str (h ++ ":" ++ toString (Int.ofNat m)) := by
  simp [Rbacx.Py.fstr, Rbacx.Py.fstrText, Rbacx.Py.strOf, String.append_assoc]

end Rbacx.FileSrc.Enc
