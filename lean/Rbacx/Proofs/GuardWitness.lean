import Rbacx.Proofs.TreeWitness
/-
  Rbacx.Proofs.GuardWitness — lifting the permit witness to the compiled function and to the
  engine's decision step (compiled, with interpreter fall-back).
-/
namespace Rbacx

/-- every rule of the policy document (any nesting depth) -/
def allRules (policy : PyVal) : List PyVal := treeRules (treeOf policy)

theorem allRules_single (policy : PyVal) (h : policy.hasKey "policies" = false) : allRules policy = rulesOf policy := by
  simp [allRules, treeOf, toTree, h, treeRules]

theorem selectBucket_subset (o : Oracle) (strict : Bool) (cands : List PyVal) (rt : Option String) (res : PyVal) :
    ∀ r ∈ selectBucket o strict cands rt res, r ∈ cands := by
  intro r hr
  simp only [selectBucket] at hr
  split at hr
  · exact (List.mem_filter.mp hr).1
  · simp at hr

theorem compiled_permit_witness (cx : CondCtx) (c : Consts) (policy : PyVal) (raw : Raw)
    (h : compiledDecide cx c policy = .ok raw) (hp : raw.decision = "permit") :
    PermitWitness cx (allRules policy) raw := by
  unfold compiledDecide at h
  split at h
  · exact decideTree_permit_witness cx _ _ _ raw h hp
  · rename_i hk
    have hk' : policy.hasKey "policies" = false := by simpa using hk
    rw [allRules_single policy hk']
    split at h
    · simp at h
    · rename_i algo ha
      simp only at h
      split at h
      · simp at h
      · rename_i s' hl
        injection h with h
        subst h
        refine (rulesLoop_permit_witness cx algo _ s' hl hp).imp ?_
        intro r ⟨hr, hw⟩
        exact ⟨(List.mem_filter.mp (selectBucket_subset _ _ _ _ _ r hr)).1, hw⟩

theorem guardDecide_permit_witness (cx : CondCtx) (c : Consts) (policy : PyVal) (raw : Raw)
    (h : guardDecide cx c policy = .ok raw) (hp : raw.decision = "permit") :
    PermitWitness cx (allRules policy) raw := by
  unfold guardDecide at h
  split at h
  · rename_i r hc
    injection h with h
    subst h
    exact compiled_permit_witness cx c policy r hc hp
  · split at h
    · exact decideTree_permit_witness cx _ _ _ raw h hp
    · rename_i hk
      have hk' : policy.hasKey "policies" = false := by simpa using hk
      rw [allRules_single policy hk']
      exact evaluate_permit_witness cx _ policy raw h hp

end Rbacx
