import Rbacx.Model.PyHttp
import Rbacx.Model.Sources
import Rbacx.Proofs.ReloaderTranslated
/-
  Rbacx.Proofs.HttpTranslated — proof library for the per-run obligation `Run/C10_http_translated.lean` (the translated
  `HTTPPolicySource`).  Nothing here mentions the generated text:

  * normalisation lemmas for the combinators of `Model/PyHttp.lean` on constructor forms (`thenFlow_next`, `bindE_ok`, …) — simp with
    them EVALUATES a prefix of the method once hypotheses decide its tests;
  * `SatI I R E x` — a three-part postcondition of a statement list (`I` holds of the fields where control runs off the end, `R st v`
    where it returns `v`, `E st e` where `e` escapes) with one COMPOSITIONAL rule per combinator (`sat_thenFlow`, `sat_bindE`,
    `sat_tryCatch`, `sat_ite`): the number of goals is the number of leaves of the text, not the number of paths through it; `sat_bindE`
    keeps the equation `outcome = .ok v`, `sat_ite` the value of the test;
  * the refinement vocabulary between response outcomes and the model's `HttpW` / `Blob` world (`StSim`, `ResSim`, `sentHeaders`).
-/
namespace Rbacx.PyH
open PyVal Rbacx.Reloader

variable {σ τ ρ α : Type}

@[simp] theorem thenFlow_next (st : σ) (s : τ) (k : σ → τ → Stm σ ρ) : thenFlow (st, .ok (.next s)) k = k st s := rfl
@[simp] theorem thenFlow_ret (st : σ) (v : PyVal) (k : σ → τ → Stm σ ρ) : thenFlow ((st, .ok (.ret v)) : Stm σ τ) k = (st, .ok (.ret v)) := rfl
@[simp] theorem thenFlow_error (st : σ) (e : Exc) (k : σ → τ → Stm σ ρ) : thenFlow ((st, .error e) : Stm σ τ) k = (st, .error e) := rfl
@[simp] theorem bindE_ok (st : σ) (v : α) (k : α → Stm σ τ) : bindE st (.ok v) k = k v := rfl
@[simp] theorem bindE_error (st : σ) (e : Exc) (k : α → Stm σ τ) : bindE st (.error e) k = (st, .error e) := rfl
@[simp] theorem tryCatch_next (st : σ) (s : τ) (c : List String) (h : σ → Exc → Stm σ τ) :
    tryCatch (st, .ok (.next s)) c h = (st, .ok (.next s)) := rfl
@[simp] theorem tryCatch_ret (st : σ) (v : PyVal) (c : List String) (h : σ → Exc → Stm σ τ) :
    tryCatch ((st, .ok (.ret v)) : Stm σ τ) c h = (st, .ok (.ret v)) := rfl
theorem tryCatch_error (st : σ) (e : Exc) (c : List String) (h : σ → Exc → Stm σ τ) :
    tryCatch ((st, .error e) : Stm σ τ) c h = if Rbacx.PyX.catches c e then h st e else (st, .error e) := rfl
@[simp] theorem finish_ret (st : σ) (v : PyVal) : finish ((st, .ok (.ret v)) : Stm σ Unit) = (st, .ok v) := rfl
@[simp] theorem finish_error (st : σ) (e : Exc) : finish ((st, .error e) : Stm σ Unit) = (st, .error e) := rfl
@[simp] theorem finish_next (st : σ) (u : Unit) : finish ((st, .ok (.next u)) : Stm σ Unit) = (st, .ok .none) := rfl
@[simp] theorem b2v_truthy (b : Bool) : (b2v b).truthy = b := rfl

theorem thenFlow_bindE (st : σ) (x : Except Exc α) (k1 : α → Stm σ τ) (k : σ → τ → Stm σ ρ) :
    thenFlow (bindE st x k1) k = bindE st x (fun v => thenFlow (k1 v) k) := by
  cases x <;> rfl

/-- a join whose two branches only compute a value: the value is a conditional expression -/
theorem thenFlow_ite_next (c : Bool) (st : σ) (a b : τ) (k : σ → τ → Stm σ ρ) :
    thenFlow (if c then (st, .ok (.next a)) else (st, .ok (.next b))) k = k st (if c then a else b) := by
  cases c <;> rfl

theorem eq_truthy (a b : PyVal) : (Rbacx.Py.eq a b).truthy = pyEq a b := rfl
theorem isNone_truthy (a : PyVal) : (Rbacx.Py.isNone a).truthy = a.isNone := rfl
theorem isNotNone_truthy (a : PyVal) : (Rbacx.Py.isNotNone a).truthy = !a.isNone := rfl
theorem pand_b2v_truthy (a : PyVal) (b : Bool) : (Rbacx.Py.pand a (b2v b)).truthy = (a.truthy && b) := by
  simp only [Rbacx.Py.pand]; split <;> simp_all [b2v, PyVal.truthy]
theorem b2v_pand_truthy (b : Bool) (a : PyVal) : (Rbacx.Py.pand (b2v b) a).truthy = (b && a.truthy) := by
  cases b <;> simp [Rbacx.Py.pand, b2v, PyVal.truthy]

theorem pand_truthy (a b : PyVal) : (Rbacx.Py.pand a b).truthy = (a.truthy && b.truthy) := by
  simp only [Rbacx.Py.pand]; split <;> simp_all
theorem isStr_pand_truthy (v : PyVal) : (Rbacx.Py.pand (Rbacx.Py.isInstance v "str") v).truthy = (v.isStr && v.truthy) := by
  cases v <;> simp [Rbacx.Py.pand, Rbacx.Py.isInstance, PyVal.isStr, PyVal.truthy]
theorem isInstance_str_truthy (v : PyVal) : (Rbacx.Py.isInstance v "str").truthy = v.isStr := by
  cases v <;> simp [Rbacx.Py.isInstance, PyVal.isStr, PyVal.truthy]
theorem isInstance_dict_truthy (v : PyVal) : (Rbacx.Py.isInstance v "dict").truthy = v.isDict := by
  cases v <;> simp [Rbacx.Py.isInstance, PyVal.isDict, PyVal.truthy]

/-- three-part postcondition of a statement list -/
def SatI (I : σ → Prop) (R : σ → PyVal → Prop) (E : σ → Exc → Prop) (x : Stm σ τ) : Prop :=
  match x with
  | (st, .error e) => E st e
  | (st, .ok (.next _)) => I st
  | (st, .ok (.ret v)) => R st v

theorem sat_next {I : σ → Prop} {R E} {st : σ} {s : τ} (h : I st) : SatI I R E ((st, .ok (.next s)) : Stm σ τ) := h
theorem sat_ret {I : σ → Prop} {R : σ → PyVal → Prop} {E} {st : σ} {v : PyVal} (h : R st v) : SatI I R E ((st, .ok (.ret v)) : Stm σ τ) := h
theorem sat_error {I : σ → Prop} {R} {E : σ → Exc → Prop} {st : σ} {e : Exc} (h : E st e) : SatI I R E ((st, .error e) : Stm σ τ) := h

theorem sat_thenFlow {I : σ → Prop} {R E} {x : Stm σ τ} {k : σ → τ → Stm σ ρ}
    (hx : SatI I R E x) (hk : ∀ st s, I st → SatI I R E (k st s)) : SatI I R E (thenFlow x k) := by
  rcases x with ⟨st, (e | (v | s))⟩
  · exact hx
  · exact hx
  · exact hk st s hx

theorem sat_bindE {I : σ → Prop} {R E} {st : σ} {x : Except Exc α} {k : α → Stm σ τ}
    (he : ∀ e, x = .error e → E st e) (hk : ∀ v, x = .ok v → SatI I R E (k v)) : SatI I R E (bindE st x k) := by
  cases x with
  | error e => exact he e rfl
  | ok v => exact hk v rfl

/-- inside a `try` whose handler catches `c`: a caught exception must leave the fields where the handler may start (`I`) -/
theorem sat_tryCatch {I : σ → Prop} {R E} {body : Stm σ τ} {c : List String} {h : σ → Exc → Stm σ τ}
    (hb : SatI I R (fun st e => if Rbacx.PyX.catches c e then I st else E st e) body)
    (hh : ∀ st e, I st → SatI I R E (h st e)) : SatI I R E (tryCatch body c h) := by
  rcases body with ⟨st, (e | (v | s))⟩
  · simp only [tryCatch_error]
    simp only [SatI] at hb
    by_cases hc : Rbacx.PyX.catches c e = true
    · simp only [hc, if_true] at hb ⊢; exact hh st e hb
    · simp only [hc] at hb ⊢; exact hb
  · exact hb
  · exact hb

/-- the join after `try: x = <call> except C: x = d`, WITHOUT forgetting where `x` came from (what follows is proved once per way
    out of the `try`: use for small continuations) -/
theorem sat_thenFlow_tryBind {I : σ → Prop} {R E} {st : σ} {x : Except Exc τ} {c : List String} {d : τ} {k : σ → τ → Stm σ ρ}
    (hok : ∀ v, x = .ok v → SatI I R E (k st v))
    (hcaught : ∀ e, x = .error e → Rbacx.PyX.catches c e = true → SatI I R E (k st d))
    (hesc : ∀ e, x = .error e → Rbacx.PyX.catches c e = false → E st e) :
    SatI I R E (thenFlow (tryCatch (bindE st x fun v => (st, .ok (.next v))) c (fun st' _ => (st', .ok (.next d)))) k) := by
  cases x with
  | ok v => exact hok v rfl
  | error e =>
    simp only [bindE_error, tryCatch_error]
    by_cases hc : Rbacx.PyX.catches c e = true
    · simp only [hc, if_true, thenFlow_next]; exact hcaught e rfl hc
    · have hc' : Rbacx.PyX.catches c e = false := by simpa using hc
      simp only [hc', Bool.false_eq_true, if_false, thenFlow_error]; exact hesc e rfl hc'

theorem sat_ite {I : σ → Prop} {R E} {c : Bool} {a b : Stm σ τ}
    (ha : c = true → SatI I R E a) (hb : c = false → SatI I R E b) : SatI I R E (if c then a else b) := by
  cases c
  · simpa using hb rfl
  · simpa using ha rfl

/-- weakening of the exception part (entering a `try` body from a proof that does not care which exceptions are caught) -/
theorem sat_weaken {I : σ → Prop} {R} {E E' : σ → Exc → Prop} {x : Stm σ τ}
    (h : SatI I R E x) (hE : ∀ st e, E st e → E' st e) : SatI I R E' x := by
  rcases x with ⟨st, (e | (v | s))⟩
  · exact hE st e h
  · exact h
  · exact h

/-- what `SatI` says about the finished call -/
theorem sat_finish {I : σ → Prop} {R E} {x : Stm σ Unit} (h : SatI I R E x) :
    match finish x with
    | (st, .error e) => E st e
    | (st, .ok v) => R st v ∨ (I st ∧ v = .none) := by
  rcases x with ⟨st, (e | (v | s))⟩
  · exact h
  · exact Or.inl h
  · exact Or.inr ⟨h, rfl⟩

theorem sat_finish_error {I : σ → Prop} {R E} {x : Stm σ Unit} (h : SatI I R E x) (e : Exc) (he : (finish x).2 = .error e) :
    E (finish x).1 e := by
  rcases x with ⟨st, (e' | (v | s))⟩
  · simp only [finish_error] at he ⊢; cases he; exact h
  · simp [finish] at he
  · simp [finish] at he

theorem sat_finish_ok {I : σ → Prop} {R E} {x : Stm σ Unit} (h : SatI I R E x) (v : PyVal) (hv : (finish x).2 = .ok v) :
    R (finish x).1 v ∨ (I (finish x).1 ∧ v = .none) := by
  rcases x with ⟨st, (e' | (v' | s))⟩
  · simp [finish] at hv
  · simp only [finish_ret] at hv ⊢; cases hv; exact Or.inl h
  · simp only [finish_next] at hv ⊢; cases hv; exact Or.inr ⟨h, rfl⟩

theorem sat_finish_all {I : σ → Prop} {x : Stm σ Unit} (h : SatI I (fun s _ => I s) (fun s _ => I s) x) : I (finish x).1 := by
  rcases x with ⟨st, (e' | (v' | s))⟩ <;> exact h

/-- postcondition of a statement list that speaks about the live locals it hands on -/
def SatN (N : σ → τ → Prop) (R : σ → PyVal → Prop) (E : σ → Exc → Prop) (x : Stm σ τ) : Prop :=
  match x with
  | (st, .error e) => E st e
  | (st, .ok (.next s)) => N st s
  | (st, .ok (.ret v)) => R st v

/-- a join at which the proof needs to know the VALUE handed on -/
theorem sat_thenFlowN {N : σ → τ → Prop} {I : σ → Prop} {R E} {x : Stm σ τ} {k : σ → τ → Stm σ ρ}
    (hx : SatN N R E x) (hk : ∀ st s, N st s → SatI I R E (k st s)) : SatI I R E (thenFlow x k) := by
  rcases x with ⟨st, (e | (v | s))⟩
  · exact hx
  · exact hx
  · exact hk st s hx

/-- postcondition of a FUNCTION BODY (the spine of joins that ends in a `return` / `raise`): as `SatI`, and control never runs off
    the end.  `I` is the invariant handed to the joins along the spine -/
def SatT (_I : σ → Prop) (R : σ → PyVal → Prop) (E : σ → Exc → Prop) (x : Stm σ Unit) : Prop :=
  match x with
  | (st, .error e) => E st e
  | (_, .ok (.next _)) => False
  | (st, .ok (.ret v)) => R st v

theorem satT_ret {I : σ → Prop} {R : σ → PyVal → Prop} {E} {st : σ} {v : PyVal} (h : R st v) : SatT I R E (st, .ok (.ret v)) := h
theorem satT_error {I : σ → Prop} {R} {E : σ → Exc → Prop} {st : σ} {e : Exc} (h : E st e) : SatT I R E (st, .error e) := h
theorem satT_thenFlow {I : σ → Prop} {R E} {x : Stm σ τ} {k : σ → τ → Stm σ Unit}
    (hx : SatI I R E x) (hk : ∀ st s, I st → SatT I R E (k st s)) : SatT I R E (thenFlow x k) := by
  rcases x with ⟨st, (e | (v | s))⟩
  · exact hx
  · exact hx
  · exact hk st s hx
/-- the same with a change of invariant (the invariant of `SatT` is only a label for the automation) -/
theorem satT_thenFlow' {I I' I'' : σ → Prop} {R E} {x : Stm σ τ} {k : σ → τ → Stm σ Unit}
    (hx : SatI I R E x) (hk : ∀ st s, I st → SatT I' R E (k st s)) : SatT I'' R E (thenFlow x k) := by
  rcases x with ⟨st, (e | (v | s))⟩
  · exact hx
  · exact hx
  · exact hk st s hx
/-- the same with a statement about the value handed on -/
theorem satT_thenFlowN {N : σ → τ → Prop} {I : σ → Prop} {R E} {x : Stm σ τ} {k : σ → τ → Stm σ Unit}
    (hx : SatN N R E x) (hk : ∀ st s, N st s → SatT I R E (k st s)) : SatT I R E (thenFlow x k) := by
  rcases x with ⟨st, (e | (v | s))⟩
  · exact hx
  · exact hx
  · exact hk st s hx
theorem satT_bindE {I : σ → Prop} {R E} {st : σ} {x : Except Exc α} {k : α → Stm σ Unit}
    (he : ∀ e, x = .error e → E st e) (hk : ∀ v, x = .ok v → SatT I R E (k v)) : SatT I R E (bindE st x k) := by
  cases x with
  | error e => exact he e rfl
  | ok v => exact hk v rfl
theorem satT_ite {I : σ → Prop} {R E} {c : Bool} {a b : Stm σ Unit}
    (ha : c = true → SatT I R E a) (hb : c = false → SatT I R E b) : SatT I R E (if c then a else b) := by
  cases c
  · simpa using hb rfl
  · simpa using ha rfl
theorem satT_finish_ok {I : σ → Prop} {R E} {x : Stm σ Unit} (h : SatT I R E x) (v : PyVal) (hv : (finish x).2 = .ok v) :
    R (finish x).1 v := by
  rcases x with ⟨st, (e' | (v' | s))⟩
  · simp [finish] at hv
  · simp only [finish_ret] at hv ⊢; cases hv; exact h
  · exact absurd h id
theorem satT_finish_error {I : σ → Prop} {R E} {x : Stm σ Unit} (h : SatT I R E x) (e : Exc) (he : (finish x).2 = .error e) :
    E (finish x).1 e := by
  rcases x with ⟨st, (e' | (v | s))⟩
  · simp only [finish_error] at he ⊢; cases he; exact h
  · simp [finish] at he
  · exact absurd h id
theorem satT_finish {I : σ → Prop} {R E} {x : Stm σ Unit} (h : SatT I R E x) :
    (∀ v, (finish x).2 = .ok v → R (finish x).1 v) ∧ (∀ e, (finish x).2 = .error e → E (finish x).1 e) :=
  ⟨satT_finish_ok h, satT_finish_error h⟩
/-- every way out satisfies `P` -/
theorem satT_finish_all {P : σ → Prop} {x : Stm σ Unit} (h : SatT P (fun s _ => P s) (fun s _ => P s) x) : P (finish x).1 := by
  rcases x with ⟨st, (e' | (v' | s))⟩
  · exact h
  · exact h
  · exact absurd h id

/-! value-aware rules in weakest-precondition style, for SMALL segments (a join duplicates what follows it) -/
theorem satN_next {N : σ → τ → Prop} {R E} {st : σ} {s : τ} (h : N st s) : SatN N R E ((st, .ok (.next s)) : Stm σ τ) := h
theorem satN_ret {N : σ → τ → Prop} {R : σ → PyVal → Prop} {E} {st : σ} {v : PyVal} (h : R st v) : SatN N R E ((st, .ok (.ret v)) : Stm σ τ) := h
theorem satN_error {N : σ → τ → Prop} {R} {E : σ → Exc → Prop} {st : σ} {e : Exc} (h : E st e) : SatN N R E ((st, .error e) : Stm σ τ) := h
theorem satN_thenFlow {N : σ → ρ → Prop} {R E} {x : Stm σ τ} {k : σ → τ → Stm σ ρ}
    (hx : SatN (fun s v => SatN N R E (k s v)) R E x) : SatN N R E (thenFlow x k) := by
  rcases x with ⟨st, (e | (v | s))⟩
  · exact hx
  · exact hx
  · exact hx
theorem satN_bindE {N : σ → τ → Prop} {R E} {st : σ} {x : Except Exc α} {k : α → Stm σ τ}
    (he : ∀ e, x = .error e → E st e) (hk : ∀ v, x = .ok v → SatN N R E (k v)) : SatN N R E (bindE st x k) := by
  cases x with
  | error e => exact he e rfl
  | ok v => exact hk v rfl
theorem satN_tryCatch {N : σ → τ → Prop} {R E} {body : Stm σ τ} {c : List String} {h : σ → Exc → Stm σ τ}
    (hb : SatN N R (fun st e => if Rbacx.PyX.catches c e then SatN N R E (h st e) else E st e) body) : SatN N R E (tryCatch body c h) := by
  rcases body with ⟨st, (e | (v | s))⟩
  · simp only [tryCatch_error]
    simp only [SatN] at hb
    by_cases hc : Rbacx.PyX.catches c e = true
    · simp only [hc, if_true] at hb ⊢; exact hb
    · simp only [hc] at hb ⊢; exact hb
  · exact hb
  · exact hb
theorem satN_ite {N : σ → τ → Prop} {R E} {c : Bool} {a b : Stm σ τ}
    (ha : c = true → SatN N R E a) (hb : c = false → SatN N R E b) : SatN N R E (if c then a else b) := by
  cases c
  · simpa using hb rfl
  · simpa using ha rfl

macro "satn_steps" : tactic => `(tactic|
  repeat' (first
    | apply satN_thenFlow
    | apply satN_bindE
    | apply satN_tryCatch
    | apply satN_ite
    | apply satN_next
    | apply satN_ret
    | apply satN_error
    | intro _))

/-- the compositional rules, applied as long as one fits; what is left are the leaves (`I st`, `R st v`, `E st e`) with the
    outcome equations and the values of the tests in the context -/
macro "sat_steps" : tactic => `(tactic|
  repeat' (first
    | apply satT_thenFlow
    | apply satT_bindE
    | apply satT_ite
    | apply satT_ret
    | apply satT_error
    | apply sat_thenFlow_tryBind
    | apply sat_thenFlow
    | apply sat_bindE
    | apply sat_tryCatch
    | apply sat_ite
    | apply sat_next
    | apply sat_ret
    | apply sat_error
    | intro _))

/-! ### the request headers -/

/-- the headers `load()` sends: the user's, plus `If-None-Match: <remembered tag>` when a tag is remembered (truthy) and the user's
    headers do not have that key -/
def sentHeaders (headers etag : PyVal) : PyVal :=
  if etag.truthy then setdefault (Rbacx.Py.dictCopy headers) "If-None-Match" etag else Rbacx.Py.dictCopy headers

theorem lookup_append_single (k k' : String) (v : PyVal) (kvs : List (String × PyVal)) :
    lookup k (kvs ++ [(k', v)]) = match lookup k kvs with | some x => some x | Option.none => if k' = k then some v else Option.none := by
  induction kvs with
  | nil => simp [lookup]
  | cons kv rest ih =>
    rcases kv with ⟨k0, v0⟩
    simp only [List.cons_append, lookup]
    split <;> simp_all

/-- `If-None-Match` is sent iff the user set it (then with the user's value) or a tag is remembered (then that tag) -/
theorem sentHeaders_inm (kvs : List (String × PyVal)) (etag : PyVal) :
    (sentHeaders (.dict kvs) etag).get "If-None-Match" =
      match lookup "If-None-Match" kvs with
      | some u => u
      | Option.none => if etag.truthy then etag else .none := by
  unfold sentHeaders
  by_cases ht : etag.truthy = true
  · simp only [ht, if_true, Rbacx.Py.dictCopy, setdefault]
    cases hl : lookup "If-None-Match" kvs with
    | some u => simp [PyVal.get, hl]
    | none => simp [PyVal.get, lookup_append_single, hl]
  · simp only [ht, Rbacx.Py.dictCopy, PyVal.get]
    cases hl : lookup "If-None-Match" kvs <;> simp [hl]

/-- every other header is the user's -/
theorem sentHeaders_other (kvs : List (String × PyVal)) (etag : PyVal) (k : String) (hk : k ≠ "If-None-Match") :
    (sentHeaders (.dict kvs) etag).get k = (PyVal.dict kvs).get k := by
  unfold sentHeaders
  by_cases ht : etag.truthy = true
  · simp only [ht, if_true, Rbacx.Py.dictCopy, setdefault]
    cases hl : lookup "If-None-Match" kvs with
    | some u => rfl
    | none =>
      simp only [PyVal.get, lookup_append_single]
      cases lookup k kvs <;> simp [Ne.symm hk]
  · simp only [ht, Rbacx.Py.dictCopy]; rfl

/-! ### the response headers as `load()` reads them -/

/-- `headers.get(k)`; for a plain dict without `k` the lower-case key; None when there is no `headers` or anything raises -/
def headerOf (r : Resp) (k klow : String) : PyVal :=
  match (if r.has "headers" then r.hget k else .ok .none) with
  | .error _ => .none
  | .ok v => if v.isNone && r.headersIsDict then (match r.hget klow with | .ok v' => v' | .error _ => .none) else v

def etagHeaderOf (r : Resp) : PyVal := headerOf r "ETag" "etag"

/-- `_etag` after the header was looked at: the header when it is a non-empty str, else what it was -/
def newEtag (old : PyVal) (r : Resp) : PyVal :=
  if (etagHeaderOf r).isStr && (etagHeaderOf r).truthy then etagHeaderOf r else old

/-- the `content_type` hint: the `Content-Type` header when it is a str, else None -/
def contentTypeOf (r : Resp) : PyVal :=
  if (headerOf r "Content-Type" "content-type").isStr then headerOf r "Content-Type" "content-type" else .none

/-- reading a header raises `Exception`s only (no KeyboardInterrupt out of `headers.get`) -/
def HeadersRaiseExceptions (r : Resp) : Prop := ∀ k e, r.hget k = .error e → Rbacx.PyX.catches ["Exception"] e = true

/-! ### the model's world as seen through Python values -/

/-- the two fields represent the model's client state (`enc` = how a document marker is rendered as the policy object) -/
def StSim (enc : Doc → PyVal) (w : HttpW) (etag cache : PyVal) : Prop :=
  etag = Rbacx.PyR.tagVal w.cachedTag ∧ cache = (match w.cachedDoc with | some d => enc d | Option.none => .none)

/-- the call's result represents the model's -/
def ResSim (enc : Doc → PyVal) : Reloader.Res Doc → Except Exc PyVal → Prop
  | .ok d, .ok v => v = enc d
  | .raise c, .error e => Rbacx.PyR.excOf e.cls = c
  | _, _ => False

/-- `etag()`'s observation as a Python value -/
def obsVal : EtagObs → PyVal
  | .tag t => .str t
  | .none => .none
  | .nonStr => .int 0

/-- the body of a non-304, non-error answer denotes the stored content `b`, whichever way `load()` gets at it: `.json()` (either call
    site), or the text handed to `parse_policy_text` -/
structure Delivers (enc : Doc → PyVal) (b : Blob) (r : Resp) (url : PyVal) (parse : PyVal → PyVal → PyVal → Except Exc PyVal) : Prop where
  json_ok : ∀ i v, r.callJson i = .ok v → b.valid = true ∧ v = enc b.doc
  json_err : ∀ i e, r.callJson i = .error e → Rbacx.PyX.catches ["Exception"] e = true
  decode_err : ∀ k e, r.decode k = .error e → Rbacx.PyX.catches ["Exception"] e = true
  parse_ok : ∀ t c v, parse t url c = .ok v → b.valid = true ∧ v = enc b.doc
  parse_err : ∀ t c e, parse t url c = .error e → b.valid = false ∧ Rbacx.PyR.excOf e.cls = .jsonDecode

/-- REFINEMENT: how the outcome `g` of the one request and the parser outcomes reflect the model world `w` -/
inductive Answers (enc : Doc → PyVal) (w : HttpW) (url : PyVal) (parse : PyVal → PyVal → PyVal → Except Exc PyVal) :
    Except Exc Resp → Prop where
  /-- the one-shot fault is a transport error -/
  | transportFault (c : Reloader.Exc) (e : Exc) : w.failNext = some c → Rbacx.PyR.excOf e.cls = c → Answers enc w url parse (.error e)
  /-- the one-shot fault is an error status: `raise_for_status()` raises -/
  | statusFault (c : Reloader.Exc) (r : Resp) (e : Exc) : w.failNext = some c → pyEq (r.attr "status_code") (.int 304) = false →
      r.has "raise_for_status" = true → r.callRaise = .error e → Rbacx.PyR.excOf e.cls = c → Answers enc w url parse (.ok r)
  /-- nothing is served: 404 -/
  | notFound (r : Resp) (e : Exc) : w.failNext = Option.none → w.server = Option.none → pyEq (r.attr "status_code") (.int 304) = false →
      r.has "raise_for_status" = true → r.callRaise = .error e → Rbacx.PyR.excOf e.cls = .other "HTTPError" → Answers enc w url parse (.ok r)
  /-- the server honours `If-None-Match` and the tag sent is the current one: 304 -/
  | notModified (b : Blob) (r : Resp) : w.failNext = Option.none → w.server = some b → w.notModified b = true →
      pyEq (r.attr "status_code") (.int 304) = true → Answers enc w url parse (.ok r)
  /-- 200: the `ETag` header is the server's tag (absent when it sends none), the body denotes the stored content -/
  | ok (b : Blob) (r : Resp) : w.failNext = Option.none → w.server = some b → w.notModified b = false →
      pyEq (r.attr "status_code") (.int 304) = false → (r.has "raise_for_status" = true → ∃ x, r.callRaise = .ok x) →
      HeadersRaiseExceptions r → etagHeaderOf r = Rbacx.PyR.tagVal (w.srvTag b) → Delivers enc b r url parse → Answers enc w url parse (.ok r)

theorem srvTag_ne_empty (w : HttpW) (b : Blob) (t : Tag) (h : w.srvTag b = some t) : t ≠ "" := by
  unfold HttpW.srvTag at h
  split at h
  · split at h
    · split at h <;> simp_all
    · simp at h
  · simp at h

/-- the tag the code remembers after a 200 is the model's `newTag` -/
theorem newEtag_model (w : HttpW) (b : Blob) (r : Resp) (h : etagHeaderOf r = Rbacx.PyR.tagVal (w.srvTag b)) :
    newEtag (Rbacx.PyR.tagVal w.cachedTag) r = Rbacx.PyR.tagVal (w.newTag b) := by
  unfold newEtag HttpW.newTag
  rw [h]
  cases hs : w.srvTag b with
  | none => simp [Rbacx.PyR.tagVal, PyVal.isStr]
  | some t =>
    have := srvTag_ne_empty w b t hs
    simp [Rbacx.PyR.tagVal, PyVal.isStr, PyVal.truthy, this]

end Rbacx.PyH
