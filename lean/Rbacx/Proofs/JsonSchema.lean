import Rbacx.Model.JsonSchema
/-
  Rbacx.Proofs.JsonSchema — what each keyword combinator of Model/JsonSchema.lean says about an accepted value (one-liners), for the
  per-run obligation Run/C06_schema.lean.
-/
namespace Rbacx.JS
open PyVal

/-! ### type -/

theorem typeIs_object {v : PyVal} (h : typeIs "object" v = true) : ∃ kvs, v = .dict kvs := by
  cases v <;> simp [typeIs] at h; exact ⟨_, rfl⟩

theorem typeIs_array {v : PyVal} (h : typeIs "array" v = true) : ∃ xs, v = .list xs := by
  cases v <;> simp [typeIs] at h; exact ⟨_, rfl⟩

theorem typeIs_string {v : PyVal} (h : typeIs "string" v = true) : ∃ s, v = .str s := by
  cases v <;> simp [typeIs] at h; exact ⟨_, rfl⟩

theorem typeIs_boolean {v : PyVal} (h : typeIs "boolean" v = true) : ∃ b, v = .bool b := by
  cases v <;> simp [typeIs] at h; exact ⟨_, rfl⟩

theorem typeIs_object_isDict {v : PyVal} (h : typeIs "object" v = true) : v.isDict = true := by
  obtain ⟨kvs, rfl⟩ := typeIs_object h; rfl

theorem typeIs_string_isStr {v : PyVal} (h : typeIs "string" v = true) : v.isStr = true := by
  obtain ⟨s, rfl⟩ := typeIs_string h; rfl

/-- `type: array`, `minItems: 2`, `maxItems: 2`: a two-element list -/
theorem array_two {v : PyVal} (ht : typeIs "array" v = true) (hmin : minItems v 2 = true) (hmax : maxItems v 2 = true) :
    ∃ a b, v = .list [a, b] := by
  obtain ⟨xs, rfl⟩ := typeIs_array ht
  simp only [minItems, maxItems, decide_eq_true_eq] at hmin hmax
  match xs, hmin, hmax with
  | [a, b], _, _ => exact ⟨a, b, rfl⟩
  | [], h, _ => simp at h
  | [_], h, _ => simp at h
  | _ :: _ :: _ :: _, _, h => simp at h

/-! ### objects -/

theorem props_lookup {kvs : List (String × PyVal)} {ps : List (String × (PyVal → Bool))} (h : props (.dict kvs) ps = true)
    {k : String} {f : PyVal → Bool} (hm : (k, f) ∈ ps) {x : PyVal} (hk : lookup k kvs = some x) : f x = true := by
  simp only [props, List.all_eq_true] at h
  have := h (k, f) hm
  simpa [hk] using this

/-- `properties`: a present listed key has a valid value -/
theorem props_get {v : PyVal} {ps : List (String × (PyVal → Bool))} (h : props v ps = true)
    {k : String} {f : PyVal → Bool} (hm : (k, f) ∈ ps) (hk : v.hasKey k = true) : f (v.get k) = true := by
  cases v <;> simp [hasKey] at hk
  rename_i kvs
  cases hl : lookup k kvs with
  | none => simp [hl] at hk
  | some x => simpa [PyVal.get, hl] using props_lookup h hm hl

theorem required_has {v : PyVal} {ks : List String} (h : required v ks = true) (hd : v.isDict = true) {k : String} (hm : k ∈ ks) :
    v.hasKey k = true := by
  cases v <;> simp [isDict] at hd
  simp only [required, List.all_eq_true] at h
  exact h k hm

/-- `additionalProperties: false`: every key that occurs is a listed one -/
theorem noAdditional_mem {v : PyVal} {ks : List String} (h : noAdditional v ks = true) {k : String} (hk : v.hasKey k = true) :
    k ∈ ks := by
  cases v <;> simp [hasKey] at hk
  rename_i kvs
  simp only [noAdditional, List.all_eq_true] at h
  induction kvs with
  | nil => simp [lookup] at hk
  | cons kv rest ih =>
    obtain ⟨k', x⟩ := kv
    by_cases e : k' = k
    · subst e; simpa using h (k', x) (by simp)
    · simp only [lookup, e, ↓reduceIte] at hk
      exact ih hk (fun p hp => h p (by simp [hp]))

theorem noAdditional_not {v : PyVal} {ks : List String} (h : noAdditional v ks = true) {k : String} (hk : k ∉ ks) :
    v.hasKey k = false := by
  cases hh : v.hasKey k with
  | false => rfl
  | true => exact absurd (noAdditional_mem h hh) hk

/-! ### arrays -/

theorem items_all {xs : List PyVal} {f : PyVal → Bool} (h : items (.list xs) 0 f = true) : ∀ x ∈ xs, f x = true := by
  simpa [items] using h

/-! ### combinators -/

theorem oneOf_exists {bs : List Bool} (h : oneOf bs = true) : ∃ b ∈ bs, b = true := by
  simp only [oneOf, beq_iff_eq] at h
  cases hf : bs.filter id with
  | nil => simp [hf] at h
  | cons b rest =>
    have hm : b ∈ bs.filter id := by simp [hf]
    rw [List.mem_filter] at hm
    exact ⟨b, hm.1, by simpa using hm.2⟩

theorem oneOf_false_cons {b : Bool} {bs : List Bool} (hb : b = false) : oneOf (b :: bs) = oneOf bs := by
  subst hb; simp [oneOf]

theorem oneOf_single {b : Bool} (h : oneOf [b] = true) : b = true := by
  cases b <;> simp [oneOf] at h ⊢

theorem oneOf_two {a b : Bool} (h : oneOf [a, b] = true) : a = true ∨ b = true := by
  cases a <;> cases b <;> simp [oneOf] at h ⊢

end Rbacx.JS
