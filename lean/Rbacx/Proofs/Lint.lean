import Rbacx.Proofs.LintTranslated
/-!
  Lemmas about the linter model (`Model/Lint.lean`) behind the C17 property theorems `c17_lint_*`.
-/

namespace Rbacx.Lint
open Rbacx.LintT

/-! ### `d[k] = v` and `d.get` -/

theorem lookup_setKV_same (k : String) (v : PyVal) (kvs : List (String × PyVal)) :
    PyVal.lookup k (Py.setKV k v kvs) = some v := by
  induction kvs with
  | nil => simp [Py.setKV, PyVal.lookup]
  | cons kv kvs ih =>
    obtain ⟨k', w⟩ := kv
    by_cases h : k' = k <;> simp [Py.setKV, PyVal.lookup, h, ih]

theorem lookup_setKV_other (k k' : String) (v : PyVal) (kvs : List (String × PyVal)) (h : k' ≠ k) :
    PyVal.lookup k' (Py.setKV k v kvs) = PyVal.lookup k' kvs := by
  induction kvs with
  | nil => simp [Py.setKV, PyVal.lookup, h.symm]
  | cons kv kvs ih =>
    obtain ⟨k2, w⟩ := kv
    by_cases h2 : k2 = k
    · subst h2
      have : ¬ k2 = k' := fun e => h e.symm
      simp [Py.setKV, PyVal.lookup, this]
    · by_cases h3 : k2 = k'
      · subst h3; simp [Py.setKV, PyVal.lookup, h2]
      · simp [Py.setKV, PyVal.lookup, h2, h3, ih]

theorem get_setItem_other (d : PyVal) (k k' : String) (v : PyVal) (h : k' ≠ k) : (Py.setItem d k v).get k' = d.get k' := by
  cases d <;> simp [Py.setItem, PyVal.get, lookup_setKV_other _ _ _ _ h]

theorem get_setItem_same_dict (kvs : List (String × PyVal)) (k : String) (v : PyVal) : (Py.setItem (.dict kvs) k v).get k = v := by
  simp [Py.setItem, PyVal.get, lookup_setKV_same]

/-- the tag is readable on every tagged issue -/
theorem get_tag (k : Nat) (it : PyVal) : (tag k it).get "policy_index" = .int k := by
  cases it <;> simp [tag, Py.dictCopy, get_setItem_same_dict]

/-- the Bool-valued helper model the evaluators use is the generic one at the model helpers -/
theorem firstApplicableUnreachable_G (o : Oracle) (e l : PyVal) :
    PyVal.bool (firstApplicableUnreachable o e l) = firstApplicableUnreachableG actions (fun a b => .bool (resourceCovers o a b)) e l := by
  simp only [firstApplicableUnreachable, firstApplicableUnreachableG]
  split
  · rfl
  · split <;> rfl

/-! ### the default algorithm -/

theorem lintAlgorithm_default (o : Oracle) (policy : PyVal) (h : (policy.get "algorithm").truthy = false) :
    lintAlgorithm o "deny-overrides" policy = "deny-overrides" := by
  simp only [lintAlgorithm, PyVal.por, h, Bool.false_eq_true, if_false, Oracle.pyStr]
  decide

theorem lintAlgorithm_explicit (o : Oracle) (dflt : String) (policy : PyVal) (h : policy.get "algorithm" = .str "deny-overrides") :
    lintAlgorithm o dflt policy = "deny-overrides" := by
  have ht : (PyVal.str "deny-overrides").truthy = true := by decide
  simp only [lintAlgorithm, PyVal.por, h, ht, if_true, Oracle.pyStr]
  decide

/-! ### children of a set -/

/-- the issues of a list that carry the tag `k` -/
def withIndex (k : Nat) (issues : List PyVal) : List PyVal := issues.filter fun it => PyVal.pyEq (it.get "policy_index") (.int k)

theorem pyEq_int (a b : Nat) : PyVal.pyEq (.int (a : Int)) (.int (b : Int)) = decide (a = b) := by
  simp only [PyVal.pyEq]
  by_cases h : a = b
  · subst h; simp
  · have : ¬ ((a : Int) = (b : Int)) := by omega
    simp [h, this]

theorem withIndex_tagged (k a : Nat) (l : List PyVal) :
    withIndex k (l.map fun it => tag a it) = if a = k then l.map (fun it => tag a it) else [] := by
  induction l with
  | nil => simp [withIndex]
  | cons x l ih =>
    simp only [withIndex, List.map, List.filter, get_tag, pyEq_int] at ih ⊢
    by_cases h : a = k <;> simp_all

theorem withIndex_children (E : Env) (ra : PyVal) (k : Nat) : ∀ (cs : List PyVal) (a : Nat),
    withIndex k ((enumNat a cs).flatMap fun kc => (analyzePolicy E kc.2 ra).map fun it => tag kc.1 it)
      = if a ≤ k then ((cs[k - a]?).map fun c => (analyzePolicy E c ra).map fun it => tag k it).getD [] else [] := by
  intro cs
  induction cs with
  | nil => intro a; simp [enumNat, withIndex]
  | cons c cs ih =>
    intro a
    have hsplit : ∀ l1 l2 : List PyVal, withIndex k (l1 ++ l2) = withIndex k l1 ++ withIndex k l2 := by
      intro l1 l2; simp [withIndex]
    simp only [enumNat, List.flatMap_cons, hsplit, withIndex_tagged, ih]
    by_cases h1 : a = k
    · subst h1
      have : ¬ a + 1 ≤ a := by omega
      simp [this]
    · by_cases h2 : a ≤ k
      · have h3 : a + 1 ≤ k := by omega
        have h4 : k - a = (k - (a + 1)) + 1 := by omega
        simp [h1, h2, h3, h4]
      · have h3 : ¬ a + 1 ≤ k := by omega
        simp [h1, h2, h3]

/-! ### the deny-overrides overlap pass -/

theorem mkIssue_inj {code : String} {l1 e1 l2 e2 : PyVal} {j1 i1 j2 i2 : Nat}
    (h : mkIssue code l1 e1 j1 i1 = mkIssue code l2 e2 j2 i2) : j1 = j2 ∧ i1 = i2 := by
  simp only [mkIssue, PyVal.dict.injEq, List.cons.injEq, Prod.mk.injEq, PyVal.int.injEq, true_and, and_true] at h
  omega

theorem mem_denyAt {acts : PyVal → PyVal} {cov : PyVal → PyVal → PyVal} {rs : List PyVal} {i : Nat} {e x : PyVal} :
    x ∈ denyAt acts cov rs i e ↔ isDeny e = true ∧ ∃ j, x = mkIssue "OVERLAPPED_BY_DENY" (ruleAt rs j) e j i ∧
      i < j ∧ j < rs.length ∧ overlaps acts cov rs e j = true ∧ ∀ k, i < k → k < j → overlaps acts cov rs e k = false := by
  simp only [denyAt]
  by_cases hd : isDeny e = true
  · simp only [hd, if_true, true_and, Option.mem_toList, Option.map_eq_some_iff, find_natsFrom]
    constructor
    · rintro ⟨j, ⟨h1, h2, h3, h4⟩, rfl⟩
      exact ⟨j, rfl, by omega, by omega, h3, fun k hk1 hk2 => h4 k (by omega) hk2⟩
    · rintro ⟨j, rfl, h1, h2, h3, h4⟩
      exact ⟨j, ⟨by omega, by omega, h3, fun k hk1 hk2 => h4 k (by omega) hk2⟩, rfl⟩
  · simp [hd]

theorem mem_denyOverlapIssues {acts : PyVal → PyVal} {cov : PyVal → PyVal → PyVal} {rs : List PyVal} {x : PyVal} :
    x ∈ denyOverlapIssues acts cov rs ↔ ∃ i j, x = mkIssue "OVERLAPPED_BY_DENY" (ruleAt rs j) (ruleAt rs i) j i ∧
      i < j ∧ j < rs.length ∧ isDeny (ruleAt rs i) = true ∧ overlaps acts cov rs (ruleAt rs i) j = true ∧
      ∀ k, i < k → k < j → overlaps acts cov rs (ruleAt rs i) k = false := by
  simp only [denyOverlapIssues, List.mem_flatMap, Prod.exists, mem_enumNat, mem_denyAt]
  constructor
  · rintro ⟨i, e, ⟨_, _, rfl⟩, hd, j, rfl, h⟩
    exact ⟨i, j, rfl, h.1, h.2.1, hd, h.2.2⟩
  · rintro ⟨i, j, rfl, h1, h2, hd, h3⟩
    exact ⟨i, ruleAt rs i, ⟨Nat.zero_le _, by omega, rfl⟩, hd, j, rfl, h1, h2, h3⟩

end Rbacx.Lint
