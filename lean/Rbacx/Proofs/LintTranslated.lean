import Rbacx.Model.Lint
import Rbacx.Model.PyLint
/-!
  Library for the per-run obligation `Run/C17_lint_translated.lean`: what the loops `harness/pytolean_lint.py` emits compute, generic in
  the emitted bodies (so renaming locals changes nothing), and the index arithmetic between the `PyVal` ints the translation iterates
  over and the `Nat` positions of the model (`Model/Lint.lean`).
-/

namespace Rbacx.LintT
open Rbacx.PyLn Rbacx.Lint

/-! ### loops -/

/-- a loop over a mapped list -/
theorem forStep_map {α β σ : Type} (f : β → α) (body : α → σ → Step σ) (xs : List β) (s : σ) :
    forStep body (xs.map f) s = forStep (fun b => body (f b)) xs s := by
  induction xs generalizing s with
  | nil => rfl
  | cons x xs ih => simp only [List.map, forStep]; split <;> simp_all

/-- `for x in xs: if p(x): s = g(x, s); break` — the first `x` with `p` acts, nothing else does -/
theorem forStep_brk_if {α σ : Type} (p : α → Bool) (g : α → σ → σ) (xs : List α) (s : σ) :
    forStep (fun x s => if p x = true then Step.brk (g x s) else Step.next s) xs s
      = match xs.find? p with | some x => g x s | none => s := by
  induction xs with
  | nil => rfl
  | cons x xs ih =>
    by_cases h : p x = true
    · simp [forStep, List.find?, h]
    · simp only [Bool.not_eq_true] at h
      simp [forStep, List.find?, h, ih]

/-- `for x in xs: if p(x): if q(x): s = g(x, s); break` -/
theorem forStep_brk_if2 {α σ : Type} (p q : α → Bool) (g : α → σ → σ) (xs : List α) (s : σ) :
    forStep (fun x s => if p x = true then (if q x = true then Step.brk (g x s) else Step.next s) else Step.next s) xs s
      = match xs.find? (fun x => p x && q x) with | some x => g x s | none => s := by
  have : (fun x (s : σ) => if p x = true then (if q x = true then Step.brk (g x s) else Step.next s) else Step.next s)
       = (fun x s => if (p x && q x) = true then Step.brk (g x s) else Step.next s) := by
    funext x s
    cases p x <;> cases q x <;> rfl
  rw [this]
  exact forStep_brk_if (fun x => p x && q x) g xs s

/-- a loop whose every iteration appends `extra x` to the accumulated list and goes on -/
theorem forStep_collect {α : Type} (body : α → PyVal → Step PyVal) (extra : α → List PyVal) (xs : List α)
    (h : ∀ x ∈ xs, ∀ acc, body x (.list acc) = Step.next (.list (acc ++ extra x))) :
    ∀ acc, forStep body xs (.list acc) = .list (acc ++ xs.flatMap extra) := by
  induction xs with
  | nil => intro acc; simp [forStep]
  | cons x xs ih =>
    intro acc
    simp only [forStep, h x (List.mem_cons_self ..) acc]
    rw [ih (fun y hy => h y (List.mem_cons_of_mem _ hy))]
    simp [List.flatMap_cons, List.append_assoc]

/-- appending the first hit, if any -/
theorem append_find (o : Option α) (d : α → PyVal) (acc : List PyVal) :
    (match o with | some y => PyLn.append (.list acc) (d y) | none => .list acc) = .list (acc ++ (o.map d).toList) := by
  cases o <;> simp [PyLn.append]

/-! ### ranges and positions -/

theorem rangeFrom_nat (a n : Nat) : rangeFrom (Int.ofNat a) n = (natsFrom a n).map fun k => PyVal.int (Int.ofNat k) := by
  induction n generalizing a with
  | zero => rfl
  | succ n ih =>
    simp only [rangeFrom, natsFrom, List.map]
    have : (Int.ofNat a + 1) = Int.ofNat (a + 1) := rfl
    rw [this, ih]

theorem range_nat (a b : Nat) : PyLn.range (.int (Int.ofNat a)) (.int (Int.ofNat b)) = (natsFrom a (b - a)).map fun k => PyVal.int (Int.ofNat k) := by
  simp only [PyLn.range]
  have : (Int.ofNat b - Int.ofNat a).toNat = b - a := by
    simp only [Int.ofNat_eq_natCast]; omega
  rw [this, rangeFrom_nat]

theorem index_nat (rs : List PyVal) (k : Nat) : PyLn.index (.list rs) (.int (Int.ofNat k)) = ruleAt rs k := by
  simp [PyLn.index, ruleAt]

theorem lenV_list (rs : List PyVal) : PyLn.lenV (.list rs) = .int (Int.ofNat rs.length) := by
  simp [PyLn.lenV, Py.len]

theorem add_one (i : Nat) : PyLn.add (.int (Int.ofNat i)) (.int 1) = .int (Int.ofNat (i + 1)) := rfl

theorem enumFrom_nat (a : Nat) (rs : List PyVal) :
    PyLn.enumFrom a rs = (enumNat a rs).map fun ie => (PyVal.int (Int.ofNat ie.1), ie.2) := by
  induction rs generalizing a with
  | nil => rfl
  | cons r rs ih => simp [PyLn.enumFrom, enumNat, ih]

theorem find_map_int (l : List Nat) (p : PyVal → Bool) :
    (l.map fun k => PyVal.int (Int.ofNat k)).find? p = (l.find? fun k => p (.int (Int.ofNat k))).map fun k => PyVal.int (Int.ofNat k) := by
  simp [List.find?_map, Function.comp_def]

theorem mem_natsFrom {a n k : Nat} : k ∈ natsFrom a n ↔ a ≤ k ∧ k < a + n := by
  induction n generalizing a with
  | zero => simp [natsFrom]
  | succ n ih => simp only [natsFrom, List.mem_cons, ih]; omega

theorem mem_enumNat {a : Nat} {rs : List PyVal} {i : Nat} {e : PyVal} :
    (i, e) ∈ enumNat a rs ↔ a ≤ i ∧ i < a + rs.length ∧ e = rs.getD (i - a) PyVal.none := by
  induction rs generalizing a with
  | nil => simp [enumNat]; omega
  | cons r rs ih =>
    simp only [enumNat, List.mem_cons, Prod.mk.injEq, ih, List.length_cons]
    constructor
    · rintro (⟨rfl, rfl⟩ | ⟨h1, h2, h3⟩)
      · simp
      · refine ⟨by omega, by omega, ?_⟩
        have : i - a = (i - (a + 1)) + 1 := by omega
        rw [this]; simpa using h3
    · rintro ⟨h1, h2, h3⟩
      by_cases h : i = a
      · left; subst h; simpa using h3
      · right
        refine ⟨by omega, by omega, ?_⟩
        have : i - a = (i - (a + 1)) + 1 := by omega
        rw [this] at h3; simpa using h3

/-- the first element of a range with `p`: characterisation -/
theorem find_natsFrom {p : Nat → Bool} {a n j : Nat} :
    (natsFrom a n).find? p = some j ↔ a ≤ j ∧ j < a + n ∧ p j = true ∧ ∀ k, a ≤ k → k < j → p k = false := by
  induction n generalizing a with
  | zero => simp [natsFrom]; omega
  | succ n ih =>
    simp only [natsFrom, List.find?]
    by_cases h : p a = true
    · simp only [h, Option.some.injEq]
      constructor
      · rintro rfl; exact ⟨Nat.le_refl _, by omega, h, fun k h1 h2 => by omega⟩
      · rintro ⟨h1, _, _, h4⟩
        by_cases e : a = j
        · exact e
        · have := h4 a (Nat.le_refl _) (by omega); simp [h] at this
    · simp only [Bool.not_eq_true] at h
      simp only [h, ih]
      constructor
      · rintro ⟨h1, h2, h3, h4⟩
        refine ⟨by omega, by omega, h3, fun k hk1 hk2 => ?_⟩
        by_cases e : k = a
        · subst e; exact h
        · exact h4 k (by omega) hk2
      · rintro ⟨h1, h2, h3, h4⟩
        have : a ≠ j := by rintro rfl; simp [h] at h3
        exact ⟨by omega, by omega, h3, fun k hk1 hk2 => h4 k (by omega) hk2⟩

theorem find_natsFrom_none {p : Nat → Bool} {a n : Nat} :
    (natsFrom a n).find? p = Option.none ↔ ∀ k, a ≤ k → k < a + n → p k = false := by
  simp only [List.find?_eq_none, mem_natsFrom, Bool.not_eq_true]
  exact ⟨fun h k h1 h2 => h k ⟨h1, h2⟩, fun h k hk => h k hk.1 hk.2⟩

end Rbacx.LintT
