import Rbacx.Model.Lint
import Rbacx.Model.PyLint
/-!
  Library for the per-run obligation `Run/C17_lint_translated.lean`: what the loops `harness/pytolean_lint.py` emits compute, generic in
  the emitted bodies (so renaming locals changes nothing), and the index arithmetic between the `PyVal` ints the translation iterates
  over and the `Nat` positions of the model (`Model/Lint.lean`).
-/

namespace Rbacx.LintT
open Rbacx.PyLn Rbacx.Lint

/-! ### loops -/

/-- a loop over a mapped list -/
theorem forStep_map {α β σ : Type} (f : β → α) (body : α → σ → Step σ) (xs : List β) (s : σ) :
    forStep body (xs.map f) s = forStep (fun b => body (f b)) xs s := by
  induction xs generalizing s with
  | nil => rfl
  | cons x xs ih => simp only [List.map, forStep]; split <;> simp_all

/-- `for x in xs: if p(x): s = g(x, s); break` — the first `x` with `p` acts, nothing else does -/
theorem forStep_brk_if {α σ : Type} (p : α → Bool) (g : α → σ → σ) (xs : List α) (s : σ) :
    forStep (fun x s => if p x = true then Step.brk (g x s) else Step.next s) xs s
      = match xs.find? p with | some x => g x s | none => s := by
  induction xs with
  | nil => rfl
  | cons x xs ih =>
    by_cases h : p x = true
    · simp [forStep, List.find?, h]
    · simp only [Bool.not_eq_true] at h
      simp [forStep, List.find?, h, ih]

/-- `for x in xs: if p(x): if q(x): s = g(x, s); break` -/
theorem forStep_brk_if2 {α σ : Type} (p q : α → Bool) (g : α → σ → σ) (xs : List α) (s : σ) :
    forStep (fun x s => if p x = true then (if q x = true then Step.brk (g x s) else Step.next s) else Step.next s) xs s
      = match xs.find? (fun x => p x && q x) with | some x => g x s | none => s := by
  have : (fun x (s : σ) => if p x = true then (if q x = true then Step.brk (g x s) else Step.next s) else Step.next s)
       = (fun x s => if (p x && q x) = true then Step.brk (g x s) else Step.next s) := by
    funext x s
    cases p x <;> cases q x <;> rfl
  rw [this]
  exact forStep_brk_if (fun x => p x && q x) g xs s

/-- a loop whose every iteration appends `extra x` to the accumulated list and goes on -/
theorem forStep_collect {α : Type} (body : α → PyVal → Step PyVal) (extra : α → List PyVal) (xs : List α)
    (h : ∀ x ∈ xs, ∀ acc, body x (.list acc) = Step.next (.list (acc ++ extra x))) :
    ∀ acc, forStep body xs (.list acc) = .list (acc ++ xs.flatMap extra) := by
  induction xs with
  | nil => intro acc; simp [forStep]
  | cons x xs ih =>
    intro acc
    simp only [forStep, h x (List.mem_cons_self ..) acc]
    rw [ih (fun y hy => h y (List.mem_cons_of_mem _ hy))]
    simp [List.flatMap_cons, List.append_assoc]

/-- `for it in l: acc.append(f(it))` -/
theorem forStep_append_map (f : PyVal → PyVal) (l : List PyVal) :
    ∀ acc, forStep (fun it s => Step.next (PyLn.append s (f it))) l (.list acc) = .list (acc ++ l.map f) := by
  induction l with
  | nil => intro acc; simp [forStep]
  | cons x l ih =>
    intro acc
    have h1 : PyLn.append (.list acc) (f x) = .list (acc ++ [f x]) := rfl
    simp only [forStep, h1, ih, List.map, List.append_assoc, List.singleton_append]

/-- appending the first hit, if any -/
theorem append_find (o : Option α) (d : α → PyVal) (acc : List PyVal) :
    (match o with | some y => PyLn.append (.list acc) (d y) | none => .list acc) = .list (acc ++ (o.map d).toList) := by
  cases o <;> simp [PyLn.append]

/-! ### ranges and positions -/

theorem rangeFrom_nat (a n : Nat) : rangeFrom (a : Int) n = (natsFrom a n).map fun (k : Nat) => PyVal.int (k : Int) := by
  induction n generalizing a with
  | zero => rfl
  | succ n ih =>
    simp only [rangeFrom, natsFrom, List.map]
    have : ((a : Int) + 1) = ((a + 1 : Nat) : Int) := by omega
    rw [this, ih]

theorem range_nat (a b : Nat) : PyLn.range (.int (a : Int)) (.int (b : Int)) = (natsFrom a (b - a)).map fun (k : Nat) => PyVal.int (k : Int) := by
  simp only [PyLn.range]
  have : ((b : Int) - (a : Int)).toNat = b - a := by
    omega
  rw [this, rangeFrom_nat]

theorem index_nat (rs : List PyVal) (k : Nat) : PyLn.index (.list rs) (.int (k : Int)) = ruleAt rs k := by
  simp [PyLn.index, ruleAt]

theorem lenV_list (rs : List PyVal) : PyLn.lenV (.list rs) = .int (rs.length : Int) := by
  simp [PyLn.lenV, Py.len]

theorem add_one (i : Nat) : PyLn.add (.int (i : Int)) (.int 1) = .int ((i + 1 : Nat) : Int) := by
  simp [PyLn.add]

theorem enumFrom_nat (a : Nat) (rs : List PyVal) :
    PyLn.enumFrom a rs = (enumNat a rs).map fun ie => (PyVal.int (ie.1 : Int), ie.2) := by
  induction rs generalizing a with
  | nil => rfl
  | cons r rs ih => simp [PyLn.enumFrom, enumNat, ih]

theorem find_map_int (l : List Nat) (p : PyVal → Bool) :
    (l.map fun (k : Nat) => PyVal.int (k : Int)).find? p = (l.find? fun (k : Nat) => p (.int (k : Int))).map fun (k : Nat) => PyVal.int (k : Int) := by
  simp [List.find?_map, Function.comp_def]

theorem mem_natsFrom {a n k : Nat} : k ∈ natsFrom a n ↔ a ≤ k ∧ k < a + n := by
  induction n generalizing a with
  | zero => simp [natsFrom]
  | succ n ih => simp only [natsFrom, List.mem_cons, ih]; omega

theorem mem_enumNat {a : Nat} {rs : List PyVal} {i : Nat} {e : PyVal} :
    (i, e) ∈ enumNat a rs ↔ a ≤ i ∧ i < a + rs.length ∧ e = rs.getD (i - a) PyVal.none := by
  induction rs generalizing a with
  | nil => simp [enumNat]; omega
  | cons r rs ih =>
    simp only [enumNat, List.mem_cons, Prod.mk.injEq, ih, List.length_cons]
    constructor
    · rintro (⟨rfl, rfl⟩ | ⟨h1, h2, h3⟩)
      · simp
      · refine ⟨by omega, by omega, ?_⟩
        have : i - a = (i - (a + 1)) + 1 := by omega
        rw [this]; simpa using h3
    · rintro ⟨h1, h2, h3⟩
      by_cases h : i = a
      · left; subst h; simpa using h3
      · right
        refine ⟨by omega, by omega, ?_⟩
        have : i - a = (i - (a + 1)) + 1 := by omega
        rw [this] at h3; simpa using h3

/-- the first element of a range with `p`: characterisation -/
theorem find_natsFrom {p : Nat → Bool} {a n j : Nat} :
    (natsFrom a n).find? p = some j ↔ a ≤ j ∧ j < a + n ∧ p j = true ∧ ∀ k, a ≤ k → k < j → p k = false := by
  induction n generalizing a with
  | zero => simp [natsFrom]; omega
  | succ n ih =>
    simp only [natsFrom, List.find?]
    by_cases h : p a = true
    · simp only [h, Option.some.injEq]
      constructor
      · rintro rfl; exact ⟨Nat.le_refl _, by omega, h, fun k h1 h2 => by omega⟩
      · rintro ⟨h1, _, _, h4⟩
        by_cases e : a = j
        · exact e
        · have := h4 a (Nat.le_refl _) (by omega); simp [h] at this
    · simp only [Bool.not_eq_true] at h
      simp only [h, ih]
      constructor
      · rintro ⟨h1, h2, h3, h4⟩
        refine ⟨by omega, by omega, h3, fun k hk1 hk2 => ?_⟩
        by_cases e : k = a
        · subst e; exact h
        · exact h4 k (by omega) hk2
      · rintro ⟨h1, h2, h3, h4⟩
        have : a ≠ j := by rintro rfl; simp [h] at h3
        exact ⟨by omega, by omega, h3, fun k hk1 hk2 => h4 k (by omega) hk2⟩

theorem find_natsFrom_none {p : Nat → Bool} {a n : Nat} :
    (natsFrom a n).find? p = Option.none ↔ ∀ k, a ≤ k → k < a + n → p k = false := by
  simp only [List.find?_eq_none, mem_natsFrom, Bool.not_eq_true]
  exact ⟨fun h k h1 h2 => h k ⟨h1, h2⟩, fun h k hk => h k hk.1 hk.2⟩

/-! ### the ranges the emitted loops run over -/

theorem range_zero (j : Nat) : PyLn.range (.int 0) (.int (j : Int)) = (natsFrom 0 j).map fun (k : Nat) => PyVal.int (k : Int) := by
  have := range_nat 0 j
  simpa using this

theorem range_one_len (rs : List PyVal) :
    PyLn.range (.int 1) (PyLn.lenV (.list rs)) = (natsFrom 1 (rs.length - 1)).map fun (k : Nat) => PyVal.int (k : Int) := by
  rw [lenV_list]
  exact range_nat 1 rs.length

theorem range_succ_len (i : Nat) (rs : List PyVal) :
    PyLn.range (PyLn.add (.int (i : Int)) (.int 1)) (PyLn.lenV (.list rs))
      = (natsFrom (i + 1) (rs.length - (i + 1))).map fun (k : Nat) => PyVal.int (k : Int) := by
  rw [lenV_list, add_one]
  exact range_nat (i + 1) rs.length

/-! ### the two passes, on the shape the translator emits -/

/-- the POTENTIALLY_UNREACHABLE pass -/
theorem pass_unreachable (unr : PyVal → PyVal → PyVal) (rs acc : List PyVal) :
    forStep (fun j s => Step.next (forStep (fun i s =>
        if (unr (PyLn.index (.list rs) i) (PyLn.index (.list rs) j)).truthy = true then
          Step.brk (PyLn.append s (PyVal.dict [("code", .str "POTENTIALLY_UNREACHABLE"), ("later_id", Py.get (PyLn.index (.list rs) j) "id"),
            ("earlier_id", Py.get (PyLn.index (.list rs) i) "id"), ("later_index", j), ("earlier_index", i)]))
        else Step.next s) (PyLn.range (.int 0) j) s)) (PyLn.range (.int 1) (PyLn.lenV (.list rs))) (.list acc)
      = .list (acc ++ unreachableIssues unr rs) := by
  rw [range_one_len, forStep_map]
  apply forStep_collect
  intro j _ acc
  simp only [forStep_brk_if, range_zero, find_map_int, index_nat, unreachableAt, mkIssue, Py.get]
  generalize (natsFrom 0 j).find? _ = r
  cases r <;> simp [PyLn.append, index_nat]

/-- the OVERLAPPED_BY_DENY pass -/
theorem pass_deny (acts : PyVal → PyVal) (cov : PyVal → PyVal → PyVal) (rs acc : List PyVal) :
    forStep (fun (ie : PyVal × PyVal) s =>
        if (Py.ne (PyVal.por (Py.get ie.2 "effect") (.str "permit")) (.str "deny")).truthy = true then Step.next s
        else Step.next (forStep (fun j s =>
          if (cov ie.2 (PyLn.index (.list rs) j)).truthy = true then
            if PyLn.shares (acts ie.2) (acts (PyLn.index (.list rs) j)) = true then
              Step.brk (PyLn.append s (PyVal.dict [("code", .str "OVERLAPPED_BY_DENY"), ("later_id", Py.get (PyLn.index (.list rs) j) "id"),
                ("earlier_id", Py.get ie.2 "id"), ("later_index", j), ("earlier_index", ie.1)]))
            else Step.next s
          else Step.next s) (PyLn.range (PyLn.add ie.1 (.int 1)) (PyLn.lenV (.list rs))) s))
      (PyLn.enumerate (.list rs)) (.list acc)
      = .list (acc ++ denyOverlapIssues acts cov rs) := by
  simp only [PyLn.enumerate, Py.iter, enumFrom_nat, forStep_map]
  refine forStep_collect _ (fun (ie : Nat × PyVal) => denyAt acts cov rs ie.1 ie.2) (enumNat 0 rs) ?_ acc
  intro ie _ acc
  have tb : ∀ b : Bool, (PyVal.bool b).truthy = b := fun b => rfl
  simp only [denyAt, isDeny, effectOf, Py.ne, Py.get, tb]
  by_cases h : PyVal.pyEq (PyVal.por (ie.2.get "effect") (.str "permit")) (.str "deny") = true
  · have hs : Lint.shares = PyLn.shares := rfl
    simp only [h, Bool.not_true, Bool.false_eq_true, if_false, if_true, forStep_brk_if2, range_succ_len, find_map_int, index_nat]
    simp only [overlaps, hs, mkIssue]
    generalize (natsFrom (ie.1 + 1) _).find? _ = r
    cases r <;> simp [PyLn.append, index_nat]
  · simp [h]

end Rbacx.LintT
