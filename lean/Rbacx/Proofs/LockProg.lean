import Rbacx.Model.PyLockProg
import Rbacx.Proofs.Locks
/-
  Rbacx.Proofs.LockProg — soundness of the static analysis of lock programs (`Model/PyLockProg.lean`), proved once:

  * `post_sound`   — if `post re p d = some o`, every path `t` of `p` that leaves by `e` has `o e = some d'` and carries the static
                     condition from `d` to `d'`: `SafeFromR re d' rest → SafeFromR re d (t ++ rest)`.  Induction over the derivation of
                     `Runs`; a loop is handled by the invariant `post` checks (the body returns to the depth it started from), not by
                     unrolling, so the statement covers ANY number of iterations.
  * `safe_sound`   — `safe re p = true → Runs p t e → SafeFromR re 0 t = true` (hence `Locks.SafeFrom 0 t`).
  * what `SafeFrom` says, spelt out: `safeFrom_no_block_held` (at every `wait` / `ext` of the path the depth is 0),
    `safeFrom_final_depth` (the depth after the path is 0: every acquire released on that exit), `safeFromR_no_reacquire`.
  * `allOps_sound` / `ranked_of_allOps` — every operation of a path is an atom of the program; the rank condition on waits.
  * `matchK_sound` / `accepts_sound` — what the matcher accepts is a path.
-/
namespace Rbacx.LockProg
open Rbacx.Locks

theorem mem_allEnds (e : End) : e ∈ allEnds := by cases e <;> simp [allEnds]

theorem merge_left {a b o : Out} (h : merge a b = some o) {e : End} {x : Nat} (ha : a e = some x) : o e = some x := by
  unfold merge at h
  split at h
  · injection h with h; subst h; simp [ha]
  · cases h

theorem merge_right {a b o : Out} (h : merge a b = some o) {e : End} {x : Nat} (hb : b e = some x) : o e = some x := by
  unfold merge at h
  split at h
  · rename_i hall
    injection h with h; subst h
    have hc := List.all_eq_true.mp hall e (mem_allEnds e)
    cases hae : a e with
    | none => simp [hae, hb]
    | some y =>
      rw [hae, hb] at hc
      simp only [compat, beq_iff_eq] at hc
      simp [hae, hc]
  · cases h

theorem released_get {o o' : Out} (h : released o = some o') {e : End} {x : Nat} (ho : o e = some x) :
    0 < x ∧ o' e = some (x - 1) := by
  unfold released at h
  split at h
  · rename_i hall
    injection h with h; subst h
    have hc := List.all_eq_true.mp hall e (mem_allEnds e)
    rw [ho] at hc
    simp only [decide_eq_true_eq] at hc
    exact ⟨hc, by simp [ho]⟩
  · cases h

theorem compat_some {a : Option Nat} {d x : Nat} (h : compat a (some d) = true) (ha : a = some x) : x = d := by
  subst ha; simpa [compat] using h

/-- carrying the static condition over one path -/
def Carries (re : Bool) (d : Nat) (t : List LOp) (d' : Nat) : Prop :=
  ∀ rest, SafeFromR re d' rest = true → SafeFromR re d (t ++ rest) = true

theorem Carries.nil (re : Bool) (d : Nat) : Carries re d [] d := fun _ h => h

theorem Carries.append {re : Bool} {d d1 d2 : Nat} {t1 t2 : List LOp} (h1 : Carries re d t1 d1) (h2 : Carries re d1 t2 d2) :
    Carries re d (t1 ++ t2) d2 := by
  intro rest hr
  rw [List.append_assoc]
  exact h1 _ (h2 _ hr)

theorem post_sound (re : Bool) {p : Prog} {t : List LOp} {e : End} (h : Runs p t e) :
    ∀ (d : Nat) (o : Out), post re p d = some o → ∃ d', o e = some d' ∧ Carries re d t d' := by
  induction h with
  | skip =>
    intro d o hp
    simp only [post] at hp; injection hp with hp; subst hp
    exact ⟨d, by simp [Out.only], Carries.nil re d⟩
  | atom op =>
    intro d o hp
    simp only [post] at hp
    cases op with
    | acq =>
      simp only [postAtom] at hp
      split at hp
      · rename_i hc
        injection hp with hp; subst hp
        refine ⟨d + 1, by simp [Out.only], ?_⟩
        intro rest hr
        simp only [List.singleton_append, SafeFromR, Bool.and_eq_true]
        exact ⟨hc, hr⟩
      · cases hp
    | rel =>
      simp only [postAtom] at hp
      split at hp
      · rename_i hc
        injection hp with hp; subst hp
        refine ⟨d - 1, by simp [Out.only], ?_⟩
        intro rest hr
        simp only [List.singleton_append, SafeFromR, Bool.and_eq_true, decide_eq_true_eq]
        exact ⟨by simpa using hc, hr⟩
      · cases hp
    | wait u =>
      simp only [postAtom] at hp
      split at hp
      · rename_i hc
        injection hp with hp; subst hp
        refine ⟨d, by simp [Out.only], ?_⟩
        intro rest hr
        simp only [List.singleton_append, SafeFromR, Bool.and_eq_true]
        exact ⟨hc, hr⟩
      · cases hp
    | ext =>
      simp only [postAtom] at hp
      split at hp
      · rename_i hc
        injection hp with hp; subst hp
        refine ⟨d, by simp [Out.only], ?_⟩
        intro rest hr
        simp only [List.singleton_append, SafeFromR, Bool.and_eq_true]
        exact ⟨hc, hr⟩
      · cases hp
    | spawn u =>
      simp only [postAtom] at hp
      injection hp with hp; subst hp
      exact ⟨d, by simp [Out.only], fun rest hr => by simpa [SafeFromR] using hr⟩
    | work =>
      simp only [postAtom] at hp
      injection hp with hp; subst hp
      exact ⟨d, by simp [Out.only], fun rest hr => by simpa [SafeFromR] using hr⟩
  | exit e =>
    intro d o hp
    simp only [post] at hp; injection hp with hp; subst hp
    exact ⟨d, by simp [Out.only], Carries.nil re d⟩
  | @seqN a b t1 t2 e _ _ iha ihb =>
    intro d o hp
    simp only [post] at hp
    cases hpa : post re a d with
    | none => rw [hpa] at hp; cases hp
    | some oa =>
      rw [hpa] at hp
      obtain ⟨d1, hd1, hc1⟩ := iha d oa hpa
      simp only [hd1] at hp
      cases hpb : post re b d1 with
      | none => rw [hpb] at hp; cases hp
      | some ob =>
        rw [hpb] at hp
        obtain ⟨d2, hd2, hc2⟩ := ihb d1 ob hpb
        exact ⟨d2, merge_right hp hd2, hc1.append hc2⟩
  | @seqX a b t e _ hne iha =>
    intro d o hp
    simp only [post] at hp
    cases hpa : post re a d with
    | none => rw [hpa] at hp; cases hp
    | some oa =>
      rw [hpa] at hp
      obtain ⟨d1, hd1, hc1⟩ := iha d oa hpa
      cases hn : oa .norm with
      | none =>
        simp only [hn] at hp; injection hp with hp; subst hp
        exact ⟨d1, hd1, hc1⟩
      | some dn =>
        simp only [hn] at hp
        cases hpb : post re b dn with
        | none => rw [hpb] at hp; cases hp
        | some ob =>
          rw [hpb] at hp
          refine ⟨d1, merge_left hp ?_, hc1⟩
          simp [Out.set, hne, hd1]
  | @choiceL a b t e _ iha =>
    intro d o hp
    simp only [post] at hp
    cases hpa : post re a d with
    | none => rw [hpa] at hp; cases hp
    | some oa =>
      cases hpb : post re b d with
      | none => rw [hpa, hpb] at hp; cases hp
      | some ob =>
        rw [hpa, hpb] at hp
        obtain ⟨d1, hd1, hc1⟩ := iha d oa hpa
        exact ⟨d1, merge_left hp hd1, hc1⟩
  | @choiceR a b t e _ ihb =>
    intro d o hp
    simp only [post] at hp
    cases hpa : post re a d with
    | none => rw [hpa] at hp; cases hp
    | some oa =>
      cases hpb : post re b d with
      | none => rw [hpa, hpb] at hp; cases hp
      | some ob =>
        rw [hpa, hpb] at hp
        obtain ⟨d1, hd1, hc1⟩ := ihb d ob hpb
        exact ⟨d1, merge_right hp hd1, hc1⟩
  | @loopDone a =>
    intro d o hp
    simp only [post] at hp
    cases hpa : post re a d with
    | none => rw [hpa] at hp; cases hp
    | some oa =>
      simp only [hpa] at hp
      split at hp
      · injection hp with hp; subst hp
        exact ⟨d, by simp [Out.set], Carries.nil re d⟩
      · cases hp
  | @loopIter a t1 t2 e1 e _ he1 _ iha ihl =>
    intro d o hp
    have hp0 := hp
    simp only [post] at hp
    cases hpa : post re a d with
    | none => rw [hpa] at hp; cases hp
    | some oa =>
      simp only [hpa] at hp
      split at hp
      · rename_i hc
        simp only [Bool.and_eq_true] at hc
        obtain ⟨d1, hd1, hc1⟩ := iha d oa hpa
        have hd : d1 = d := by
          rcases he1 with h | h
          · subst h; exact compat_some hc.1.1 hd1
          · subst h; exact compat_some hc.1.2 hd1
        subst hd
        obtain ⟨d2, hd2, hc2⟩ := ihl d1 o hp0
        exact ⟨d2, hd2, hc1.append hc2⟩
      · cases hp
  | @loopBrk a t _ iha =>
    intro d o hp
    simp only [post] at hp
    cases hpa : post re a d with
    | none => rw [hpa] at hp; cases hp
    | some oa =>
      simp only [hpa] at hp
      split at hp
      · rename_i hc
        simp only [Bool.and_eq_true] at hc
        injection hp with hp; subst hp
        obtain ⟨d1, hd1, hc1⟩ := iha d oa hpa
        have hd : d1 = d := compat_some hc.2 hd1
        subst hd
        exact ⟨d1, by simp [Out.set], hc1⟩
      · cases hp
  | @loopX a t e _ he iha =>
    intro d o hp
    simp only [post] at hp
    cases hpa : post re a d with
    | none => rw [hpa] at hp; cases hp
    | some oa =>
      simp only [hpa] at hp
      split at hp
      · injection hp with hp; subst hp
        obtain ⟨d1, hd1, hc1⟩ := iha d oa hpa
        refine ⟨d1, ?_, hc1⟩
        rcases he with h | h <;> subst h <;> simp [Out.set, hd1]
      · cases hp
  | @withLock a t e _ iha =>
    intro d o hp
    simp only [post] at hp
    split at hp
    · rename_i hc
      cases hpa : post re a (d + 1) with
      | none => rw [hpa] at hp; cases hp
      | some oa =>
        rw [hpa] at hp
        obtain ⟨d1, hd1, hc1⟩ := iha (d + 1) oa hpa
        obtain ⟨hpos, hget⟩ := released_get hp hd1
        refine ⟨d1 - 1, hget, ?_⟩
        intro rest hr
        have := hc1 (.rel :: rest) (by simp [SafeFromR, hpos, hr])
        simp only [List.cons_append, List.append_assoc, SafeFromR, Bool.and_eq_true]
        exact ⟨hc, this⟩
    · cases hp
  | @tryN a h t e _ hne iha =>
    intro d o hp
    simp only [post] at hp
    cases hpa : post re a d with
    | none => rw [hpa] at hp; cases hp
    | some oa =>
      rw [hpa] at hp
      obtain ⟨d1, hd1, hc1⟩ := iha d oa hpa
      cases hx : oa .exc with
      | none =>
        simp only [hx] at hp; injection hp with hp; subst hp
        exact ⟨d1, hd1, hc1⟩
      | some dx =>
        simp only [hx] at hp
        cases hph : post re h dx with
        | none => rw [hph] at hp; cases hp
        | some oh =>
          rw [hph] at hp
          exact ⟨d1, merge_left hp hd1, hc1⟩
  | @tryH a h t1 t2 e _ _ iha ihh =>
    intro d o hp
    simp only [post] at hp
    cases hpa : post re a d with
    | none => rw [hpa] at hp; cases hp
    | some oa =>
      rw [hpa] at hp
      obtain ⟨d1, hd1, hc1⟩ := iha d oa hpa
      simp only [hd1] at hp
      cases hph : post re h d1 with
      | none => rw [hph] at hp; cases hp
      | some oh =>
        rw [hph] at hp
        obtain ⟨d2, hd2, hc2⟩ := ihh d1 oh hph
        exact ⟨d2, merge_right hp hd2, hc1.append hc2⟩
  | @tryP a h t _ iha =>
    intro d o hp
    simp only [post] at hp
    cases hpa : post re a d with
    | none => rw [hpa] at hp; cases hp
    | some oa =>
      rw [hpa] at hp
      obtain ⟨d1, hd1, hc1⟩ := iha d oa hpa
      simp only [hd1] at hp
      cases hph : post re h d1 with
      | none => rw [hph] at hp; cases hp
      | some oh =>
        rw [hph] at hp
        exact ⟨d1, merge_left hp hd1, hc1⟩
  | @callN a t _ iha =>
    intro d o hp
    simp only [post] at hp
    cases hpa : post re a d with
    | none => rw [hpa] at hp; cases hp
    | some oa =>
      simp only [hpa] at hp
      split at hp
      · injection hp with hp; subst hp
        obtain ⟨d1, hd1, hc1⟩ := iha d oa hpa
        exact ⟨d1, by simp [Out.set, hd1], hc1⟩
      · cases hp
  | @callR a t _ iha =>
    intro d o hp
    simp only [post] at hp
    cases hpa : post re a d with
    | none => rw [hpa] at hp; cases hp
    | some oa =>
      simp only [hpa] at hp
      split at hp
      · rename_i hc
        simp only [Bool.and_eq_true] at hc
        injection hp with hp; subst hp
        obtain ⟨d1, hd1, hc1⟩ := iha d oa hpa
        refine ⟨d1, ?_, hc1⟩
        cases hn : oa .norm with
        | none => simp [Out.set, hd1]
        | some dn =>
          have := hc.1.1
          rw [hn, hd1] at this
          simp only [compat, beq_iff_eq] at this
          simp [Out.set, this]
      · cases hp
  | @callX a t _ iha =>
    intro d o hp
    simp only [post] at hp
    cases hpa : post re a d with
    | none => rw [hpa] at hp; cases hp
    | some oa =>
      simp only [hpa] at hp
      split at hp
      · injection hp with hp; subst hp
        obtain ⟨d1, hd1, hc1⟩ := iha d oa hpa
        exact ⟨d1, by simp [Out.set, hd1], hc1⟩
      · cases hp

theorem safeFromR_imp (re : Bool) : ∀ (p : List LOp) (d : Nat), SafeFromR re d p = true → SafeFrom d p = true := by
  intro p
  induction p with
  | nil => intro d h; simpa [SafeFromR, SafeFrom] using h
  | cons op p ih =>
    intro d h
    cases op <;> simp only [SafeFromR, SafeFrom, Bool.and_eq_true, decide_eq_true_eq] at h ⊢
    · exact ih _ h.2
    · exact ⟨h.1, ih _ h.2⟩
    · exact ⟨h.1, ih _ h.2⟩
    · exact ih _ h
    · exact ih _ h
    · exact ⟨h.1, ih _ h.2⟩

/-- **soundness**: a program the analysis accepts has the static condition on EVERY path (any number of loop iterations,
    every branch, every exit — normal, `return`, exception) -/
theorem safe_sound {re : Bool} {p : Prog} (hs : safe re p = true) {t : List LOp} {e : End} (h : Runs p t e) :
    SafeFromR re 0 t = true := by
  unfold safe at hs
  cases hp : post re p 0 with
  | none => rw [hp] at hs; cases hs
  | some o =>
    rw [hp] at hs
    simp only [Bool.and_eq_true] at hs
    obtain ⟨d', hd', hc⟩ := post_sound re h 0 o hp
    have hz : d' = 0 := by
      cases e
      · have := hs.1.1.1.1; rw [hd'] at this; simpa [exitOk] using this
      · have := hs.1.1.1.2; rw [hd'] at this; simpa [exitOk] using this
      · have := hs.1.1.2; rw [hd'] at this; simpa [exitOk] using this
      · have := hs.1.2; rw [hd'] at this; simp at this
      · have := hs.2; rw [hd'] at this; simp at this
    subst hz
    have := hc [] (by simp [SafeFromR])
    simpa using this

theorem safe_sound' {re : Bool} {p : Prog} (hs : safe re p = true) {t : List LOp} {e : End} (h : Runs p t e) :
    SafeFrom 0 t = true := safeFromR_imp re t 0 (safe_sound hs h)

/-! ### what the static condition says, spelt out -/

/-- lock depth after a list of operations -/
def depthAfter : Nat → List LOp → Nat
  | d, [] => d
  | d, .acq :: p => depthAfter (d + 1) p
  | d, .rel :: p => depthAfter (d - 1) p
  | d, _ :: p => depthAfter d p

def blocking : LOp → Bool
  | .wait _ => true
  | .ext => true
  | _ => false

/-- every acquire of the path has been released when the path ends -/
theorem safeFrom_final_depth : ∀ (p : List LOp) (d : Nat), SafeFrom d p = true → depthAfter d p = 0 := by
  intro p
  induction p with
  | nil => intro d h; simpa [SafeFrom, depthAfter] using h
  | cons op p ih =>
    intro d h
    cases op <;> simp only [SafeFrom, depthAfter, Bool.and_eq_true] at h ⊢
    · exact ih _ h
    · exact ih _ h.2
    · exact ih _ h.2
    · exact ih _ h
    · exact ih _ h
    · exact ih _ h.2

/-- at every blocking operation of the path (`join`, `result`, a source call) the lock is not held -/
theorem safeFrom_no_block_held : ∀ (pre : List LOp) (d : Nat) (op : LOp) (post : List LOp),
    SafeFrom d (pre ++ op :: post) = true → blocking op = true → depthAfter d pre = 0 := by
  intro pre
  induction pre with
  | nil =>
    intro d op post h hb
    cases op <;> simp [blocking] at hb <;> simp only [List.nil_append, SafeFrom, Bool.and_eq_true, beq_iff_eq] at h <;>
      simpa [depthAfter] using h.1
  | cons o pre ih =>
    intro d op post h hb
    cases o <;> simp only [List.cons_append, SafeFrom, depthAfter, Bool.and_eq_true] at h ⊢
    · exact ih _ op post h hb
    · exact ih _ op post h.2 hb
    · exact ih _ op post h.2 hb
    · exact ih _ op post h hb
    · exact ih _ op post h hb
    · exact ih _ op post h.2 hb

/-- a lock that is not re-entrant is never acquired while held -/
theorem safeFromR_no_reacquire : ∀ (pre : List LOp) (d : Nat) (post : List LOp),
    SafeFromR false d (pre ++ .acq :: post) = true → depthAfter d pre = 0 := by
  intro pre
  induction pre with
  | nil =>
    intro d post h
    simp only [List.nil_append, SafeFromR, Bool.false_or, Bool.and_eq_true, beq_iff_eq] at h
    simpa [depthAfter] using h.1
  | cons o pre ih =>
    intro d post h
    cases o <;> simp only [List.cons_append, SafeFromR, depthAfter, Bool.and_eq_true] at h ⊢
    · exact ih _ post h.2
    · exact ih _ post h.2
    · exact ih _ post h.2
    · exact ih _ post h
    · exact ih _ post h
    · exact ih _ post h.2

/-! ### operations of a path are atoms of the program -/

theorem allOps_sound {f : LOp → Bool} {p : Prog} {t : List LOp} {e : End} (h : Runs p t e) :
    allOps f p = true → ∀ o ∈ t, f o = true := by
  induction h with
  | skip => intro _ o ho; cases ho
  | atom op => intro hf o ho; simp only [List.mem_singleton] at ho; subst ho; simpa [allOps] using hf
  | exit e => intro _ o ho; cases ho
  | seqN _ _ iha ihb =>
    intro hf o ho
    simp only [allOps, Bool.and_eq_true] at hf
    rcases List.mem_append.mp ho with h | h
    · exact iha hf.1 o h
    · exact ihb hf.2 o h
  | seqX _ _ iha => intro hf o ho; simp only [allOps, Bool.and_eq_true] at hf; exact iha hf.1 o ho
  | choiceL _ iha => intro hf o ho; simp only [allOps, Bool.and_eq_true] at hf; exact iha hf.1 o ho
  | choiceR _ ihb => intro hf o ho; simp only [allOps, Bool.and_eq_true] at hf; exact ihb hf.2 o ho
  | loopDone => intro _ o ho; cases ho
  | loopIter _ _ _ iha ihl =>
    intro hf o ho
    rcases List.mem_append.mp ho with h | h
    · exact iha (by simpa [allOps] using hf) o h
    · exact ihl hf o h
  | loopBrk _ iha => intro hf o ho; exact iha (by simpa [allOps] using hf) o ho
  | loopX _ _ iha => intro hf o ho; exact iha (by simpa [allOps] using hf) o ho
  | withLock _ iha =>
    intro hf o ho
    simp only [allOps, Bool.and_eq_true] at hf
    simp only [List.mem_cons, List.mem_append] at ho
    rcases ho with h | h | h
    · subst h; exact hf.1.1
    · exact iha hf.2 o h
    · rcases h with h | h
      · subst h; exact hf.1.2
      · cases h
  | tryN _ _ iha => intro hf o ho; simp only [allOps, Bool.and_eq_true] at hf; exact iha hf.1 o ho
  | tryH _ _ iha ihh =>
    intro hf o ho
    simp only [allOps, Bool.and_eq_true] at hf
    rcases List.mem_append.mp ho with h | h
    · exact iha hf.1 o h
    · exact ihh hf.2 o h
  | tryP _ iha => intro hf o ho; simp only [allOps, Bool.and_eq_true] at hf; exact iha hf.1 o ho
  | callN _ iha => intro hf o ho; exact iha (by simpa [allOps] using hf) o ho
  | callR _ iha => intro hf o ho; exact iha (by simpa [allOps] using hf) o ho
  | callX _ iha => intro hf o ho; exact iha (by simpa [allOps] using hf) o ho

theorem ranked_of_all (t : Nat) : ∀ (p : List LOp), (∀ o ∈ p, rankOk t o = true) → Ranked t p = true := by
  intro p
  induction p with
  | nil => intro _; rfl
  | cons op p ih =>
    intro h
    have hop := h op (by simp)
    have hrest := ih (fun o ho => h o (by simp [ho]))
    cases op <;> simp only [Ranked, Bool.and_eq_true] <;> first | exact hrest | exact ⟨by simpa [rankOk] using hop, hrest⟩

/-- a program all of whose `wait`s are for higher-ranked threads has only ranked paths -/
theorem ranked_sound {tid : Nat} {p : Prog} (hr : allOps (rankOk tid) p = true) {t : List LOp} {e : End} (h : Runs p t e) :
    Ranked tid t = true := ranked_of_all tid t (allOps_sound h hr)


/-! ### a thread that makes any finite sequence of calls -/

/-- `c₁; c₂; …; cₙ` — each call runs when the one before completed; an exception ends the sequence -/
def apiSeq : List Prog → Prog
  | [] => .skip
  | c :: cs => .seq c (apiSeq cs)

theorem safeFromR_append (re : Bool) : ∀ (t1 : List LOp) (d : Nat) (t2 : List LOp),
    SafeFromR re d t1 = true → SafeFromR re 0 t2 = true → SafeFromR re d (t1 ++ t2) = true := by
  intro t1
  induction t1 with
  | nil =>
    intro d t2 h1 h2
    simp only [SafeFromR, beq_iff_eq] at h1
    subst h1; simpa using h2
  | cons op t1 ih =>
    intro d t2 h1 h2
    cases op <;> simp only [List.cons_append, SafeFromR, Bool.and_eq_true] at h1 ⊢
    · exact ⟨h1.1, ih _ _ h1.2 h2⟩
    · exact ⟨h1.1, ih _ _ h1.2 h2⟩
    · exact ⟨h1.1, ih _ _ h1.2 h2⟩
    · exact ih _ _ h1 h2
    · exact ih _ _ h1 h2
    · exact ⟨h1.1, ih _ _ h1.2 h2⟩

theorem ranked_append (tid : Nat) : ∀ (t1 t2 : List LOp), Ranked tid t1 = true → Ranked tid t2 = true → Ranked tid (t1 ++ t2) = true := by
  intro t1
  induction t1 with
  | nil => intro t2 _ h2; simpa using h2
  | cons op t1 ih =>
    intro t2 h1 h2
    cases op <;> simp only [List.cons_append, Ranked, Bool.and_eq_true] at h1 ⊢ <;>
      first | exact ih _ h1 h2 | exact ⟨h1.1, ih _ h1.2 h2⟩

/-- a property of operation lists that holds of `[]`, is closed under `++` and holds on every path of every call holds on every
    path of the sequence -/
theorem apiSeq_paths {P : List LOp → Prop} (hnil : P []) (happ : ∀ a b, P a → P b → P (a ++ b)) :
    ∀ (calls : List Prog), (∀ c ∈ calls, ∀ t e, Runs c t e → P t) → ∀ t e, Runs (apiSeq calls) t e → P t := by
  intro calls
  induction calls with
  | nil => intro _ t e h; cases h; exact hnil
  | cons c cs ih =>
    intro hc t e h
    cases h with
    | seqN h1 h2 => exact happ _ _ (hc c (by simp) _ _ h1) (ih (fun c' hc' => hc c' (by simp [hc'])) _ _ h2)
    | seqX h1 _ => exact hc c (by simp) _ _ h1

/-! ### the matcher accepts only paths -/

/-- what a continuation-passing matcher must guarantee -/
def MatchSound (p : Prog) (m : List LOp → K → Bool) : Prop :=
  ∀ t k, m t k = true → ∃ t1 t2 e, t = t1 ++ t2 ∧ Runs p t1 e ∧ k e t2 = true

theorem loopK_sound {a : Prog} {ma : List LOp → K → Bool} (hma : MatchSound a ma) :
    ∀ n, MatchSound (.loop a) (loopK ma n) := by
  intro n
  induction n with
  | zero => intro t k h; exact ⟨[], t, .norm, rfl, .loopDone, by simpa [loopK] using h⟩
  | succ n ih =>
    intro t k h
    simp only [loopK, Bool.or_eq_true] at h
    rcases h with h | h
    · exact ⟨[], t, .norm, rfl, .loopDone, h⟩
    · obtain ⟨t1, t2, e, ht, hr, hk⟩ := hma _ _ h
      cases e with
      | norm =>
        obtain ⟨u1, u2, e', hu, hr', hk'⟩ := ih _ _ hk
        exact ⟨t1 ++ u1, u2, e', by rw [ht, hu, List.append_assoc], .loopIter hr (Or.inl rfl) hr', hk'⟩
      | cont =>
        obtain ⟨u1, u2, e', hu, hr', hk'⟩ := ih _ _ hk
        exact ⟨t1 ++ u1, u2, e', by rw [ht, hu, List.append_assoc], .loopIter hr (Or.inr rfl) hr', hk'⟩
      | brk => exact ⟨t1, t2, .norm, ht, .loopBrk hr, hk⟩
      | ret => exact ⟨t1, t2, .ret, ht, .loopX hr (Or.inl rfl), hk⟩
      | exc => exact ⟨t1, t2, .exc, ht, .loopX hr (Or.inr rfl), hk⟩

theorem matchK_sound (fuel : Nat) : ∀ p, MatchSound p (matchK fuel p) := by
  intro p
  induction p with
  | skip => intro t k h; exact ⟨[], t, .norm, rfl, .skip, by simpa [matchK] using h⟩
  | atom o =>
    intro t k h
    cases t with
    | nil => simp [matchK] at h
    | cons o' t' =>
      simp only [matchK, Bool.and_eq_true, beq_iff_eq] at h
      obtain ⟨ho, hk⟩ := h
      subst ho
      exact ⟨[o], t', .norm, rfl, .atom o, hk⟩
  | exit e => intro t k h; exact ⟨[], t, e, rfl, .exit e, by simpa [matchK] using h⟩
  | seq a b iha ihb =>
    intro t k h
    simp only [matchK] at h
    obtain ⟨t1, t2, e, ht, hr, hk⟩ := iha _ _ h
    by_cases he : e = .norm
    · subst he
      simp only [if_true] at hk
      obtain ⟨u1, u2, e', hu, hr', hk'⟩ := ihb _ _ hk
      exact ⟨t1 ++ u1, u2, e', by rw [ht, hu, List.append_assoc], .seqN hr hr', hk'⟩
    · simp only [he, if_false] at hk
      exact ⟨t1, t2, e, ht, .seqX hr he, hk⟩
  | choice a b iha ihb =>
    intro t k h
    simp only [matchK, Bool.or_eq_true] at h
    rcases h with h | h
    · obtain ⟨t1, t2, e, ht, hr, hk⟩ := iha _ _ h
      exact ⟨t1, t2, e, ht, .choiceL hr, hk⟩
    · obtain ⟨t1, t2, e, ht, hr, hk⟩ := ihb _ _ h
      exact ⟨t1, t2, e, ht, .choiceR hr, hk⟩
  | loop a iha =>
    intro t k h
    simp only [matchK] at h
    exact loopK_sound iha fuel t k h
  | withLock a iha =>
    intro t k h
    cases t with
    | nil => simp [matchK] at h
    | cons o t' =>
      cases o <;> simp only [matchK] at h <;> try (cases h)
      obtain ⟨t1, t2, e, ht, hr, hk⟩ := iha _ _ h
      cases t2 with
      | nil => simp at hk
      | cons o2 r =>
        cases o2 <;> simp only at hk <;> try (cases hk)
        exact ⟨.acq :: (t1 ++ [.rel]), r, e, by simp [ht], .withLock hr, hk⟩
  | tryCatch a h iha ihh =>
    intro t k hm
    simp only [matchK] at hm
    obtain ⟨t1, t2, e, ht, hr, hk⟩ := iha _ _ hm
    by_cases he : e = .exc
    · subst he
      simp only [if_true, Bool.or_eq_true] at hk
      rcases hk with hk | hk
      · exact ⟨t1, t2, .exc, ht, .tryP hr, hk⟩
      · obtain ⟨u1, u2, e', hu, hr', hk'⟩ := ihh _ _ hk
        exact ⟨t1 ++ u1, u2, e', by rw [ht, hu, List.append_assoc], .tryH hr hr', hk'⟩
    · simp only [he, if_false] at hk
      exact ⟨t1, t2, e, ht, .tryN hr he, hk⟩
  | call a iha =>
    intro t k h
    simp only [matchK] at h
    obtain ⟨t1, t2, e, ht, hr, hk⟩ := iha _ _ h
    cases e with
    | norm => exact ⟨t1, t2, .norm, ht, .callN hr, hk⟩
    | ret => exact ⟨t1, t2, .norm, ht, .callR hr, hk⟩
    | exc => exact ⟨t1, t2, .exc, ht, .callX hr, hk⟩
    | brk => simp at hk
    | cont => simp at hk
  | unsupported w => intro t k h; simp [matchK] at h

/-- an operation list the matcher accepts is a complete path of the program -/
theorem accepts_sound {fuel : Nat} {p : Prog} {t : List LOp} (h : accepts fuel p t = true) : ∃ e, Runs p t e := by
  unfold accepts at h
  obtain ⟨t1, t2, e, ht, hr, hk⟩ := matchK_sound fuel p _ _ h
  simp only [Bool.and_eq_true, List.isEmpty_iff] at hk
  obtain ⟨h2, _⟩ := hk
  subst h2
  rw [List.append_nil] at ht
  subst ht
  exact ⟨e, hr⟩

end Rbacx.LockProg

namespace Rbacx.LockProg
open Rbacx.Locks
/-! ### the analysis rejects what it should (non-vacuity of `safe`) -/
example : safe true (.withLock (.atom (.wait 2))) = false := by decide                       -- join under the lock
example : safe true (.withLock (.seq (.atom .ext) mayRaise)) = false := by decide             -- source call under the lock
example : safe true (.seq (.atom .acq) (.seq (.choice (.exit .ret) .skip) (.atom .rel))) = false := by decide   -- early return skips release
example : safe true (.seq (.atom .acq) (.seq mayRaise (.atom .rel))) = false := by decide      -- an exception skips release
example : safe false (.withLock (.call (.withLock .skip))) = false := by decide                -- plain Lock re-acquired by a nested call
example : safe true (.withLock (.call (.withLock .skip))) = true := by decide                  -- fine for an RLock
example : safe true (.loop (.atom .acq)) = false := by decide                                  -- a loop that does not restore the depth
example : safe true (.loop (.seq (.withLock (.choice (.exit .brk) .skip)) (.atom .ext))) = true := by decide
example : safe true (.withLock (.seq (.atom (.spawn 1)) (.atom (.wait 1)))) = false := by decide   -- the pre-repair start()
end Rbacx.LockProg
