import Rbacx.Model.Locks
/-
  Rbacx.Proofs.Locks — if no thread waits for another thread while holding the lock (and waiting is
  acyclic and only for spawned threads), no reachable state is a deadlock.
-/
namespace Rbacx.Locks

structure LInv (n : Nat) (s : LSt) : Prop where
  safe : ∀ t, SafeFrom (s.ths t).depth (s.ths t).prog = true
  spawnSafe : ∀ t, SpawnSafe (fun u => (s.ths u).started) (s.ths t).prog = true
  ranked : ∀ t, Ranked t (s.ths t).prog = true
  ownerDepth : ∀ t, s.owner = some t → 0 < (s.ths t).depth
  depthOwner : ∀ t, 0 < (s.ths t).depth → s.owner = some t
  depthStarted : ∀ t, 0 < (s.ths t).depth → (s.ths t).started = true
  beyond : ∀ t, n ≤ t → (s.ths t).prog = []

theorem spawnSafe_mono (p : List LOp) : ∀ (st st' : Nat → Bool), (∀ u, st u = true → st' u = true) →
    SpawnSafe st p = true → SpawnSafe st' p = true := by
  induction p with
  | nil => intro _ _ _ h; exact h
  | cons op p ih =>
    intro st st' hm h
    cases op with
    | spawn u =>
      simp only [SpawnSafe] at h ⊢
      exact ih _ _ (fun v hv => by by_cases hvu : v = u <;> simp_all) h
    | wait u =>
      simp only [SpawnSafe, Bool.and_eq_true] at h ⊢
      exact ⟨hm u h.1, ih _ _ hm h.2⟩
    | acq => simp only [SpawnSafe] at h ⊢; exact ih _ _ hm h
    | rel => simp only [SpawnSafe] at h ⊢; exact ih _ _ hm h
    | work => simp only [SpawnSafe] at h ⊢; exact ih _ _ hm h
    | ext => simp only [SpawnSafe] at h ⊢; exact ih _ _ hm h

theorem init_inv (n : Nat) (progs : Nat → List LOp) (roots : List Nat)
    (hs : LockFreeWhileBlocking n progs roots = true) (hb : ∀ t, n ≤ t → progs t = []) : LInv n (init progs roots) := by
  have hall : ∀ t, SafeFrom 0 (progs t) = true ∧ SpawnSafe (fun u => roots.contains u) (progs t) = true ∧ Ranked t (progs t) = true := by
    intro t
    by_cases ht : t < n
    · simp only [LockFreeWhileBlocking, List.all_eq_true, List.mem_range, Bool.and_eq_true] at hs
      exact ⟨(hs t ht).1.1, (hs t ht).1.2, (hs t ht).2⟩
    · rw [hb t (by omega)]; simp [SafeFrom, SpawnSafe, Ranked]
  refine ⟨fun t => (hall t).1, fun t => (hall t).2.1, fun t => (hall t).2.2, ?_, ?_, ?_, hb⟩ <;> simp [init]

/-- a thread that holds the lock can always perform its next operation -/
theorem holder_can_step {n : Nat} {s : LSt} (h : LInv n s) {t : Nat} (hd : 0 < (s.ths t).depth) : canStep s t = true := by
  have hst := h.depthStarted t hd
  have hown := h.depthOwner t hd
  have hsafe := h.safe t
  unfold canStep
  rw [hst]
  cases hp : (s.ths t).prog with
  | nil => rw [hp] at hsafe; simp [SafeFrom] at hsafe; omega
  | cons op p =>
    cases op with
    | acq => simp [hown]
    | wait u => rw [hp] at hsafe; simp [SafeFrom] at hsafe; omega
    | rel => simp
    | spawn u => simp
    | work => simp
    | ext => simp

theorem exists_max (P : Nat → Prop) [DecidablePred P] (n : Nat) (hex : ∃ t, t < n ∧ P t) :
    ∃ t, t < n ∧ P t ∧ ∀ u, u < n → P u → u ≤ t := by
  induction n with
  | zero => obtain ⟨t, ht, _⟩ := hex; omega
  | succ n ih =>
    by_cases hn : P n
    · exact ⟨n, by omega, hn, fun u hu _ => by omega⟩
    · have : ∃ t, t < n ∧ P t := by
        obtain ⟨t, ht, hp⟩ := hex
        have : t ≠ n := fun h => hn (h ▸ hp)
        exact ⟨t, by omega, hp⟩
      obtain ⟨t, ht, hp, hmax⟩ := ih this
      refine ⟨t, by omega, hp, ?_⟩
      intro u hu hpu
      by_cases hun : u = n
      · subst hun; exact absurd hpu hn
      · exact hmax u (by omega) hpu

/-- **no deadlock**: as long as some running thread has not finished, some thread can take a step -/
theorem no_deadlock {n : Nat} {s : LSt} (h : LInv n s)
    (hex : ∃ t, (s.ths t).started = true ∧ (s.ths t).prog ≠ []) : ∃ t, canStep s t = true := by
  have hlt : ∀ t, (s.ths t).prog ≠ [] → t < n := by
    intro t hp
    cases Nat.lt_or_ge t n with
    | inl h1 => exact h1
    | inr h1 => exact absurd (h.beyond t h1) hp
  obtain ⟨t0, hs0, hp0⟩ := hex
  obtain ⟨t, _, ⟨hst, hpr⟩, hmax⟩ :=
    exists_max (fun t => (s.ths t).started = true ∧ (s.ths t).prog ≠ []) n ⟨t0, hlt t0 hp0, hs0, hp0⟩
  cases hp : (s.ths t).prog with
  | nil => exact absurd hp hpr
  | cons op p =>
    cases op with
    | acq =>
      cases hown : s.owner with
      | none => exact ⟨t, by simp [canStep, hst, hp, hown]⟩
      | some o => exact ⟨o, holder_can_step h (h.ownerDepth o hown)⟩
    | rel => exact ⟨t, by simp [canStep, hst, hp]⟩
    | spawn u => exact ⟨t, by simp [canStep, hst, hp]⟩
    | work => exact ⟨t, by simp [canStep, hst, hp]⟩
    | ext => exact ⟨t, by simp [canStep, hst, hp]⟩
    | wait u =>
      have hrk := h.ranked t
      have hsp := h.spawnSafe t
      rw [hp] at hrk hsp
      simp only [Ranked, SpawnSafe, Bool.and_eq_true, decide_eq_true_eq] at hrk hsp
      by_cases hdone : (s.ths u).prog = []
      · exact ⟨t, by simp [canStep, hst, hp, done, hdone]⟩
      · have := hmax u (hlt u hdone) ⟨hsp.1, hdone⟩
        omega

end Rbacx.Locks

namespace Rbacx.Locks

theorem setT_self (s : LSt) (t : Nat) (x : TSt) : (setT s t x).ths t = x := by simp [setT]
theorem setT_other (s : LSt) (t t' : Nat) (x : TSt) (h : t' ≠ t) : (setT s t x).ths t' = s.ths t' := by simp [setT, h]

/-- a step that only consumes thread `t`'s head operation, leaving lock, depths and started flags alone -/
theorem inv_pop {n : Nat} {s : LSt} (h : LInv n s) (t : Nat) (op : LOp) (p : List LOp) (hp : (s.ths t).prog = op :: p)
    (hsafe : SafeFrom (s.ths t).depth p = true) (hsp : SpawnSafe (fun u => (s.ths u).started) p = true)
    (hrk : Ranked t p = true) : LInv n (setT s t { s.ths t with prog := p }) := by
  refine ⟨?_, ?_, ?_, ?_, ?_, ?_, ?_⟩
  · intro t'; by_cases ht : t' = t
    · subst ht; rw [setT_self]; exact hsafe
    · rw [setT_other _ _ _ _ ht]; exact h.safe t'
  · intro t'
    have hst : (fun u => ((setT s t { s.ths t with prog := p }).ths u).started) = fun u => (s.ths u).started := by
      funext u; by_cases hu : u = t
      · subst hu; rw [setT_self]
      · rw [setT_other _ _ _ _ hu]
    rw [hst]
    by_cases ht : t' = t
    · subst ht; rw [setT_self]; exact hsp
    · rw [setT_other _ _ _ _ ht]; exact h.spawnSafe t'
  · intro t'; by_cases ht : t' = t
    · subst ht; rw [setT_self]; exact hrk
    · rw [setT_other _ _ _ _ ht]; exact h.ranked t'
  · intro t' ho; by_cases ht : t' = t
    · subst ht; rw [setT_self]; exact h.ownerDepth _ ho
    · rw [setT_other _ _ _ _ ht]; exact h.ownerDepth t' ho
  · intro t' hd; by_cases ht : t' = t
    · subst ht; rw [setT_self] at hd; exact h.depthOwner _ hd
    · rw [setT_other _ _ _ _ ht] at hd; exact h.depthOwner t' hd
  · intro t' hd; by_cases ht : t' = t
    · subst ht; rw [setT_self] at hd ⊢; exact h.depthStarted _ hd
    · rw [setT_other _ _ _ _ ht] at hd ⊢; exact h.depthStarted t' hd
  · intro t' hn; by_cases ht : t' = t
    · subst ht; have := h.beyond _ hn; rw [hp] at this; cases this
    · rw [setT_other _ _ _ _ ht]; exact h.beyond t' hn

theorem step_inv {n : Nat} (s : LSt) (t : Nat) (h : LInv n s) : LInv n (step s t) := by
  unfold step
  by_cases hc : canStep s t = true
  · simp only [hc, Bool.not_true, Bool.false_eq_true, if_false]
    have hsafe := h.safe t
    have hsp := h.spawnSafe t
    have hrk := h.ranked t
    have hst : (s.ths t).started = true := by
      unfold canStep at hc; simp only [Bool.and_eq_true] at hc; exact hc.1
    cases hp : (s.ths t).prog with
    | nil => simp only; exact h
    | cons op p =>
      rw [hp] at hsafe hsp hrk
      cases op with
      | work =>
        simp only [SafeFrom, SpawnSafe, Ranked] at hsafe hsp hrk
        exact inv_pop h t _ p hp hsafe hsp hrk
      | ext =>
        simp only [SafeFrom, SpawnSafe, Ranked, Bool.and_eq_true] at hsafe hsp hrk
        exact inv_pop h t _ p hp hsafe.2 hsp hrk
      | wait u =>
        simp only [SafeFrom, SpawnSafe, Ranked, Bool.and_eq_true] at hsafe hsp hrk
        exact inv_pop h t _ p hp hsafe.2 hsp.2 hrk.2
      | acq =>
        simp only [SafeFrom, SpawnSafe, Ranked] at hsafe hsp hrk
        have hfree : s.owner = none ∨ s.owner = some t := by
          unfold canStep at hc; rw [hp] at hc; simp only [Bool.and_eq_true, Bool.or_eq_true] at hc
          rcases hc.2 with h1 | h1
          · left; simpa using h1
          · right; simpa using h1
        have hothers : ∀ t', t' ≠ t → (s.ths t').depth = 0 := by
          intro t' hne
          cases Nat.eq_zero_or_pos (s.ths t').depth with
          | inl h0 => exact h0
          | inr hpos =>
            have := h.depthOwner t' hpos
            rcases hfree with h1 | h1
            · rw [h1] at this; cases this
            · rw [h1] at this; injection this with this; exact absurd this.symm hne
        refine ⟨?_, ?_, ?_, ?_, ?_, ?_, ?_⟩
        · intro t'; by_cases ht : t' = t
          · subst ht; rw [setT_self]; exact hsafe
          · rw [setT_other _ _ _ _ ht]; exact h.safe t'
        · intro t'
          have hstd : (fun u => ((setT { s with owner := some t } t { s.ths t with prog := p, depth := (s.ths t).depth + 1 }).ths u).started)
              = fun u => (s.ths u).started := by
            funext u; by_cases hu : u = t
            · subst hu; rw [setT_self]
            · rw [setT_other _ _ _ _ hu]
          rw [hstd]
          by_cases ht : t' = t
          · subst ht; rw [setT_self]; exact hsp
          · rw [setT_other _ _ _ _ ht]; exact h.spawnSafe t'
        · intro t'; by_cases ht : t' = t
          · subst ht; rw [setT_self]; exact hrk
          · rw [setT_other _ _ _ _ ht]; exact h.ranked t'
        · intro t' ho
          have : t' = t := by simp only [setT] at ho; injection ho with ho; exact ho.symm
          subst this; rw [setT_self]; simp
        · intro t' hd; by_cases ht : t' = t
          · subst ht; rfl
          · rw [setT_other _ _ _ _ ht] at hd; rw [hothers t' ht] at hd; omega
        · intro t' hd; by_cases ht : t' = t
          · subst ht; rw [setT_self]; exact hst
          · rw [setT_other _ _ _ _ ht] at hd ⊢; exact h.depthStarted t' hd
        · intro t' hn; by_cases ht : t' = t
          · subst ht; have := h.beyond _ hn; rw [hp] at this; cases this
          · rw [setT_other _ _ _ _ ht]; exact h.beyond t' hn
      | rel =>
        simp only [SafeFrom, SpawnSafe, Ranked, Bool.and_eq_true, decide_eq_true_eq] at hsafe hsp hrk
        have hown := h.depthOwner t hsafe.1
        have hothers : ∀ t', t' ≠ t → (s.ths t').depth = 0 := by
          intro t' hne
          cases Nat.eq_zero_or_pos (s.ths t').depth with
          | inl h0 => exact h0
          | inr hpos =>
            have := h.depthOwner t' hpos
            rw [hown] at this; injection this with this; exact absurd this.symm hne
        refine ⟨?_, ?_, ?_, ?_, ?_, ?_, ?_⟩
        · intro t'; by_cases ht : t' = t
          · subst ht; rw [setT_self]; exact hsafe.2
          · rw [setT_other _ _ _ _ ht]; exact h.safe t'
        · intro t'
          have hstd : (fun u => ((setT { s with owner := if (s.ths t).depth ≤ 1 then none else s.owner } t
              { s.ths t with prog := p, depth := (s.ths t).depth - 1 }).ths u).started) = fun u => (s.ths u).started := by
            funext u; by_cases hu : u = t
            · subst hu; rw [setT_self]
            · rw [setT_other _ _ _ _ hu]
          rw [hstd]
          by_cases ht : t' = t
          · subst ht; rw [setT_self]; exact hsp
          · rw [setT_other _ _ _ _ ht]; exact h.spawnSafe t'
        · intro t'; by_cases ht : t' = t
          · subst ht; rw [setT_self]; exact hrk
          · rw [setT_other _ _ _ _ ht]; exact h.ranked t'
        · intro t' ho
          simp only [setT] at ho
          by_cases hd1 : (s.ths t).depth ≤ 1
          · simp [hd1] at ho
          · simp only [hd1, if_false] at ho
            rw [hown] at ho; injection ho with ho; subst ho
            rw [setT_self]; simp only; omega
        · intro t' hd; by_cases ht : t' = t
          · subst ht; rw [setT_self] at hd
            simp only at hd
            simp only [setT]
            have : ¬ (s.ths t').depth ≤ 1 := by omega
            simp [this, hown]
          · rw [setT_other _ _ _ _ ht] at hd; rw [hothers t' ht] at hd; omega
        · intro t' hd; by_cases ht : t' = t
          · subst ht; rw [setT_self]; exact hst
          · rw [setT_other _ _ _ _ ht] at hd ⊢; exact h.depthStarted t' hd
        · intro t' hn; by_cases ht : t' = t
          · subst ht; have := h.beyond _ hn; rw [hp] at this; cases this
          · rw [setT_other _ _ _ _ ht]; exact h.beyond t' hn
      | spawn u =>
        simp only [SafeFrom, SpawnSafe, Ranked] at hsafe hsp hrk
        simp only
        generalize hs2 : setT (setT s t { s.ths t with prog := p }) u
            { (setT s t { s.ths t with prog := p }).ths u with started := true } = s2
        have hprog : ∀ i, (s2.ths i).prog = if i = t then p else (s.ths i).prog := by
          intro i; subst hs2
          by_cases hiu : i = u
          · subst hiu; rw [setT_self]
            by_cases hit : i = t
            · subst hit; simp [setT_self]
            · simp [setT_other _ _ _ _ hit, hit]
          · rw [setT_other _ _ _ _ hiu]
            by_cases hit : i = t
            · subst hit; simp [setT_self]
            · simp [setT_other _ _ _ _ hit, hit]
        have hdepth : ∀ i, (s2.ths i).depth = (s.ths i).depth := by
          intro i; subst hs2
          by_cases hiu : i = u
          · subst hiu; rw [setT_self]
            by_cases hit : i = t
            · subst hit; simp [setT_self]
            · simp [setT_other _ _ _ _ hit]
          · rw [setT_other _ _ _ _ hiu]
            by_cases hit : i = t
            · subst hit; simp [setT_self]
            · simp [setT_other _ _ _ _ hit]
        have hstarted : ∀ i, (s2.ths i).started = if i = u then true else (s.ths i).started := by
          intro i; subst hs2
          by_cases hiu : i = u
          · subst hiu; rw [setT_self]; simp
          · rw [setT_other _ _ _ _ hiu]
            by_cases hit : i = t
            · subst hit; simp [setT_self, hiu]
            · simp [setT_other _ _ _ _ hit, hiu]
        have howner : s2.owner = s.owner := by subst hs2; rfl
        have hstfun : (fun v => (s2.ths v).started) = fun i => if i = u then true else (s.ths i).started := by
          funext v; exact hstarted v
        refine ⟨?_, ?_, ?_, ?_, ?_, ?_, ?_⟩
        · intro t'
          rw [hprog, hdepth]
          by_cases ht : t' = t
          · subst ht; simp only [if_true]; exact hsafe
          · simp only [ht, if_false]; exact h.safe t'
        · intro t'
          rw [hstfun, hprog]
          by_cases ht : t' = t
          · subst ht; simp only [if_true]; exact hsp
          · simp only [ht, if_false]
            exact spawnSafe_mono _ _ _ (fun v hv => by by_cases hvu : v = u <;> simp_all) (h.spawnSafe t')
        · intro t'
          rw [hprog]
          by_cases ht : t' = t
          · subst ht; simp only [if_true]; exact hrk
          · simp only [ht, if_false]; exact h.ranked t'
        · intro t' ho; rw [howner] at ho; rw [hdepth]; exact h.ownerDepth t' ho
        · intro t' hd; rw [hdepth] at hd; rw [howner]; exact h.depthOwner t' hd
        · intro t' hd; rw [hdepth] at hd; rw [hstarted]
          by_cases htu : t' = u
          · simp [htu]
          · simp only [htu, if_false]; exact h.depthStarted t' hd
        · intro t' hn
          rw [hprog]
          by_cases ht : t' = t
          · subst ht; have := h.beyond _ hn; rw [hp] at this; cases this
          · simp only [ht, if_false]; exact h.beyond t' hn
  · simp only [hc, Bool.not_false, if_true]; exact h

theorem run_inv {n : Nat} (sched : List Nat) : ∀ s, LInv n s → LInv n (run s sched) := by
  induction sched with
  | nil => intro s h; exact h
  | cons t ts ih => intro s h; exact ih _ (step_inv s t h)

/-- a thread that is inside an external call (policy source) does not hold the lock -/
theorem ext_lock_free {n : Nat} {s : LSt} (h : LInv n s) {t : Nat} {p : List LOp} (hp : (s.ths t).prog = .ext :: p) :
    s.owner ≠ some t := by
  intro ho
  have hd := h.ownerDepth t ho
  have hs := h.safe t
  rw [hp] at hs
  simp only [SafeFrom, Bool.and_eq_true, beq_iff_eq] at hs
  omega

/-- however long thread `t` stays inside an external call, a thread that wants the lock is not held up by it: either
    the lock is free and it can take it, or the holder — which is not `t` — can continue -/
theorem acq_progress_despite_ext {n : Nat} {s : LSt} (h : LInv n s) {t u : Nat} {p q : List LOp}
    (hp : (s.ths t).prog = .ext :: p) (hu : (s.ths u).prog = .acq :: q) (hst : (s.ths u).started = true) :
    ∃ v, v ≠ t ∧ canStep s v = true := by
  cases ho : s.owner with
  | none =>
    refine ⟨u, ?_, by simp [canStep, hst, hu, ho]⟩
    intro hut
    subst hut
    rw [hp] at hu
    cases hu
  | some o =>
    refine ⟨o, ?_, holder_can_step h (h.ownerDepth o ho)⟩
    intro hot
    subst hot
    exact ext_lock_free h hp ho

end Rbacx.Locks
