import Rbacx.Model.PyLogger
/-
  Rbacx.Proofs.LoggerTranslated — lemmas the per-run obligation `Run/C19_logger_translated.lean` uses: what the Python operations the
  LOGGER translation (harness/pytolean_logger.py) emits compute on the shapes `DecisionLogger` handles, stated once, independent of the
  emitted text.  Also: the model's view of a call of `apply_obligations` as an OUTCOME (`applyModel`), and the constructor arguments
  of `DecisionLogger` as the model's `LogCfg` (`cfgOf`).
-/
namespace Rbacx.Translated
open Rbacx Rbacx.Redact Rbacx.PyL
open PyVal (lookup)

/-! ### booleans, `or`, truthiness -/

theorem por_bool (a b : Bool) : PyVal.por (.bool a) (.bool b) = .bool (a || b) := by
  cases a <;> simp [PyVal.por, PyVal.truthy]

theorem por_truthy (a b : PyVal) : (PyVal.por a b).truthy = (a.truthy || b.truthy) := by
  unfold PyVal.por; cases h : a.truthy <;> simp [h]

theorem truthy_bool (b : Bool) : (PyVal.bool b).truthy = b := rfl

theorem truthy_list (xs : List PyVal) : (PyVal.list xs).truthy = !xs.isEmpty := rfl

theorem pnot_truthy (a : PyVal) : (Py.pnot a).truthy = !a.truthy := rfl

theorem boolOf_truthy (a : PyVal) : (Py.boolOf a).truthy = a.truthy := rfl

/-! ### `str(x) == "deny"` -/

theorem natRepr_ne_deny (n : Nat) : n.repr ≠ "deny" := by
  intro h
  have h1 : (Nat.toDigits 10 n) = "deny".toList := by
    have := congrArg String.toList h
    simpa [Nat.repr] using this
  have hd : ('d' : Char) ∈ Nat.toDigits 10 n := by rw [h1]; decide
  have := Nat.isDigit_of_mem_toDigits (b := 10) (by decide) (by decide) hd
  exact absurd this (by decide)

theorem intRepr_ne_deny (n : Int) : n.repr ≠ "deny" := by
  cases n with
  | ofNat m =>
    simp only [Int.repr]
    exact natRepr_ne_deny m
  | negSucc m =>
    simp only [Int.repr]
    intro h
    have := congrArg String.toList h
    simp at this

theorem intToString_ne_deny (n : Int) : toString n ≠ "deny" := intRepr_ne_deny n

/-- the model's test on the `decision` entry -/
def isDenyVal : PyVal → Bool
  | .str "deny" => true
  | _ => false

theorem strOf_eq_deny (v : PyVal) : PyVal.pyEq (Py.strOf v) (.str "deny") = isDenyVal v := by
  cases v with
  | str s =>
    by_cases h : s = "deny"
    · subst h; simp [Py.strOf, PyVal.pyEq, isDenyVal]
    · have : isDenyVal (.str s) = false := by
        unfold isDenyVal; split
        · rename_i heq; cases heq; exact absurd rfl h
        · rfl
      simp [Py.strOf, PyVal.pyEq, this, h]
  | int n => simp [Py.strOf, PyVal.pyEq, isDenyVal, intRepr_ne_deny]
  | bool b => cases b <;> simp [Py.strOf, PyVal.pyEq, isDenyVal]
  | none => simp [Py.strOf, PyVal.pyEq, isDenyVal]
  | float f => simp [Py.strOf, PyVal.pyEq, isDenyVal]
  | list xs => simp [Py.strOf, PyVal.pyEq, isDenyVal]
  | dict kvs => simp [Py.strOf, PyVal.pyEq, isDenyVal]
  | dt a m => simp [Py.strOf, PyVal.pyEq, isDenyVal]

/-- the model's `category` through `isDenyVal` -/
theorem category_eq (p : PyVal) :
    category p = if (isDenyVal (p.get "decision") || !(p.get "allowed").truthy) = true then "deny"
      else if (p.get "obligations").truthy = true then "permit_with_obligations" else "permit" := by
  unfold category isDenyVal
  rfl

/-- `str(payload.get("decision", "")) == "deny"` is the model's test on `payload.get("decision")` -/
theorem decision_is_deny (p : PyVal) :
    Py.eq (Py.strOf (Py.getD p "decision" (.str ""))) (.str "deny") = .bool (isDenyVal (p.get "decision")) := by
  unfold Py.eq
  rw [strOf_eq_deny]
  congr 1
  cases p <;> simp [Py.getD, PyVal.get, isDenyVal]
  rename_i kvs
  cases lookup "decision" kvs <;> simp

/-- `bool(payload.get("allowed", False))` -/
theorem allowed_truthy (p : PyVal) :
    (Py.boolOf (Py.getD p "allowed" (.bool false))).truthy = (p.get "allowed").truthy := by
  cases p <;> simp [Py.getD, PyVal.get, Py.boolOf, PyVal.truthy]
  rename_i kvs
  cases lookup "allowed" kvs <;> simp

/-- `payload.get("obligations") or []` -/
theorem obligations_truthy (p : PyVal) :
    (PyVal.por (Py.get p "obligations") (.list [])).truthy = (p.get "obligations").truthy := by
  rw [por_truthy]
  have : (PyVal.list []).truthy = false := rfl
  rw [this]; simp [Py.get]

/-! ### the env of the record -/

/-- the stated domain of `log`: `payload["env"]` is a dict, or falsy / missing -/
def envDom (payload : PyVal) : Prop := (payload.get "env").isDict = true ∨ (payload.get "env").truthy = false

theorem get_dictCopy (p : PyVal) (k : String) : Py.get (Py.dictCopy p) k = p.get k := by
  cases p <;> simp [Py.get, Py.dictCopy, PyVal.get, lookup]

/-- `dict(dict(payload).get("env") or {})` is the model's `envObj payload` on the domain -/
theorem env_obj_eq (p : PyVal) (h : envDom p) :
    Py.dictCopy (PyVal.por (Py.get (Py.dictCopy p) "env") (.dict [])) = envObj p := by
  rw [get_dictCopy]
  unfold envObj PyVal.por
  rcases h with h | h
  · cases he : p.get "env" <;> simp [he, PyVal.isDict] at h
    rename_i kvs
    by_cases ht : (PyVal.dict kvs).truthy = true <;> simp [ht, Py.dictCopy]
  · simp [h, Py.dictCopy]

/-! ### the redaction call as an outcome -/

/-- the model's view of `apply_obligations(env, specs, in_place=ip)`: what it returns resp. that it raises (`applySpecs`), and what
    the object passed as `env` looks like afterwards — with `in_place` it is the object worked on (in the state the exception left it),
    without it the call works on a deep copy -/
def applyModel (env specs ip : PyVal) : CallOut :=
  let r := applySpecs env (Py.iter specs)
  if r.2 then .raised (if ip.truthy then r.1 else env) else .returned r.1 (if ip.truthy then r.1 else env)

/-! ### the constructor arguments as the model's configuration -/

/-- the `redactions=` argument: None, or a list of specs -/
def optSpecs : Option (List PyVal) → PyVal
  | none => .none
  | some xs => .list xs

/-- the model's `LogCfg` of `DecisionLogger(sample_rate=sr, redactions=red, redact_in_place=ip, use_default_redactions=ud,
    smart_sampling=sm, category_sampling_rates=rates, max_env_bytes=mb)` with the module constant `_DEFAULT_REDACTIONS = defaults` -/
def cfgOf (defaults : PyVal) (sr : FNum) (red : Option (List PyVal)) (ip ud sm : PyVal) (rates : Option RateMap) (mb : PyVal) : LogCfg :=
  { sampleRate := sr, redactions := red, useDefault := ud.truthy, defaults := Py.iter defaults,
    inPlace := ip.truthy, smart := sm.truthy, strategy := rates, maxEnvBytes := mb }

theorem rateMapOr_eff (rates : Option RateMap) (cfg : LogCfg) (h : cfg.strategy = rates) :
    rateMapOr rates [("deny", FNum.one), ("permit_with_obligations", FNum.one)] = effStrategy cfg := by
  subst h
  unfold rateMapOr effStrategy defaultStrategy
  cases cfg.strategy with
  | none => rfl
  | some m => cases m <;> rfl

/-- `redactions or []` and `redactions is not None` -/
theorem redactions_norm (red : Option (List PyVal)) :
    PyVal.por (optSpecs red) (.list []) = .list (red.getD []) ∧ Py.isNotNone (optSpecs red) = .bool red.isSome := by
  cases red with
  | none => simp [optSpecs, PyVal.por, PyVal.truthy, Py.isNotNone, PyVal.isNone]
  | some xs => cases xs <;> simp [optSpecs, PyVal.por, PyVal.truthy, Py.isNotNone, PyVal.isNone]

/-- `max_env_bytes if isinstance(max_env_bytes, int) and max_env_bytes > 0 else None` against the model's `effBound` -/
def normBound (mb : PyVal) : PyVal :=
  if (Py.pand (Py.isInstance mb "int") (Py.gt mb (.int 0))).truthy then mb else .none

theorem normBound_none (cfg : LogCfg) (h : effBound cfg = none) : normBound cfg.maxEnvBytes = .none := by
  unfold effBound at h
  unfold normBound
  cases hm : cfg.maxEnvBytes <;> simp [hm] at h <;>
    simp [Py.pand, Py.isInstance, Py.gt, Py.lt, PyVal.truthy]
  all_goals first | omega | (rename_i b; cases b <;> simp_all [PyVal.boolToInt])

/-- with a bound in force the attribute is not None and `size > self.max_env_bytes` is the model's comparison -/
theorem normBound_some (cfg : LogCfg) (b : Int) (h : effBound cfg = some b) :
    (Py.isNotNone (normBound cfg.maxEnvBytes)).truthy = true ∧
      ∀ n : Nat, (Py.gt (.int n) (normBound cfg.maxEnvBytes)).truthy = decide ((n : Int) > b) := by
  unfold effBound at h
  unfold normBound
  cases hm : cfg.maxEnvBytes with
  | bool v =>
    cases v <;> simp [hm] at h
    subst h
    simp [Py.pand, Py.isInstance, Py.gt, Py.lt, PyVal.truthy, PyVal.boolToInt, Py.isNotNone, PyVal.isNone]
  | int n =>
    simp [hm] at h
    obtain ⟨hn, hb⟩ := h
    subst hb
    simp [Py.pand, Py.isInstance, Py.gt, Py.lt, PyVal.truthy, Py.isNotNone, PyVal.isNone, hn]
  | _ => simp [hm] at h

/-- the truncation marker as the dict display builds it -/
theorem marker_eq (n : Nat) :
    Py.dictOf [("_truncated", .bool true), ("size_bytes", .int n)] = truncMarker n := by
  simp [Py.dictOf, Py.setItem, Py.setKV, truncMarker]

end Rbacx.Translated
