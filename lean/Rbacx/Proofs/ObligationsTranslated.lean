import Rbacx.Model.PyLib
import Rbacx.Model.Obligations
import Rbacx.Proofs.PyLibLemmas
import Rbacx.Proofs.TargetTranslated
/-
  Rbacx.Proofs.ObligationsTranslated — what the per-run obligation `Run/C07_translated.lean` needs to prove the mechanical
  translation of `BasicObligationChecker.check` (core/obligations.py; `Generated.Src.check_prologue`, `Src.check_step`,
  `Src.check_final`) equal to the model (`obligationUnmet` / `checkObligations`, Model/Obligations.lean).
  Nothing here depends on the generated code.

  * encodings: `encFinite` (the model's `finiteNumber` as the Python-level function `_finite_number`: a float or `None`),
    `encUnmet` (the model's verdict on one obligation as the way control leaves the loop body), `encVerdict` (the returned tuple);
  * the model in the shape of the source: `obligationUnmet_eq` (two guards, the normalised `attrs`, then `unmetTyped` — the
    dispatch on `type`);
  * one lemma per test / branch body of the loop body, stated on the Lean text the translator emits for it.
-/
namespace Rbacx.Py
open PyVal

/-! ### encodings -/

/-- `_finite_number` as the model has it (`finiteNumber`), at the Python level: a float, or `None` -/
def encFinite (o : Oracle) (x : PyVal) : PyVal :=
  match finiteNumber o x with
  | some f => .float f
  | Option.none => PyVal.none

/-- the tuple `(ok, challenge)` -/
def encVerdict (r : Bool × Option String) : PyVal := .list [.bool r.1, optToVal r.2]

/-- the model's verdict on ONE obligation as the way control leaves the loop body: unmet with challenge `ch` = `return False, ch`;
    met / not applicable = the iteration ends normally (`broke = False`) -/
def encUnmet : Option String → Flow
  | some ch => .ret (.list [.bool false, .str ch])
  | Option.none => .next [.bool false]

theorem encUnmet_none : encUnmet Option.none = .next [.bool false] := rfl
theorem encUnmet_some (ch : String) : encUnmet (some ch) = .ret (.list [.bool false, .str ch]) := rfl

/-! ### the loop and what surrounds it -/

/-- the loop over the obligations: the first unmet one returns its challenge, else the statements after the loop -/
theorem forFlow_encUnmet (f : PyVal → Option String) (body : PyVal → Flow) (rest : PyVal) (h : ∀ ob, body ob = encUnmet (f ob))
    (obls : List PyVal) :
    forFlow body rest obls =
      (match obls.findSome? f with
       | some ch => .list [.bool false, .str ch]
       | Option.none => rest) := by
  induction obls with
  | nil => rfl
  | cons ob obls ih =>
    simp only [forFlow, h ob, List.findSome?_cons]
    cases f ob with
    | some ch => rfl
    | none => simp only [encUnmet]; exact ih

/-- the current effect when the legacy key `decision` is a string -/
def effectOf (label : String) : String := if label == "permit" then "permit" else "deny"

theorem effectOf_permit (label : String) : (effectOf label == "permit") = (label == "permit") := by
  unfold effectOf
  by_cases h : label = "permit"
  · subst h; rfl
  · have h' : (label == "permit") = false := by simpa using h
    rw [h']; rfl

/-- the statements before the loop, for a raw decision whose `decision` is the string `label`; `obligations` = the value of
    `decision.get("obligations") or []` -/
def prologueModel (label : String) (obligations : PyVal) : Flow :=
  if obligations.truthy then .next [obligations, .str (effectOf label), .bool (effectOf label == "permit")]
  else .ret (.list [.bool (label == "permit"), PyVal.none])

/-! ### the model in the shape of the source -/

/-- `attrs = (ob or {}).get("attrs") or {}; if not isinstance(attrs, dict): attrs = {}` -/
def normAttrs (a : PyVal) : PyVal :=
  match por a (.dict []) with
  | .dict kvs => PyVal.dict kvs
  | _ => .dict []

/-- the dispatch on the obligation's `type` (the `if`/`elif` chain of the loop body) -/
def unmetTyped (o : Oracle) (ctx attrs : PyVal) (typ : PyVal) : Option String :=
  match typ with
  | .str "require_mfa" => if (ctx.get "mfa").truthy then Option.none else some "mfa"
  | .str "require_level" =>
    let minLevel := numberOrZero o (getOrZero attrs "min")
    (match finiteNumber o (ctx.get "auth_level") with
     | some cur => if cur < minLevel then some "step_up" else Option.none
     | Option.none => some "step_up")
  | .str "http_challenge" => some (httpChallenge o attrs)
  | .str "require_consent" =>
    let key := attrs.get "key"
    if key.isNone then (if (ctx.get "consent").truthy then Option.none else some "consent")
    else
      (match ctx.get "consent", key with
       | .dict kvs, .str k => if ((PyVal.dict kvs).get k).truthy then Option.none else some "consent"
       | _, _ => some "consent")
  | .str "require_terms_accept" => if (ctx.get "tos_accepted").truthy then Option.none else some "tos"
  | .str "require_captcha" => if (ctx.get "captcha_passed").truthy then Option.none else some "captcha"
  | .str "require_reauth" =>
    let maxAge := numberOrZero o (getOrZero attrs "max_age")
    (match finiteNumber o (ctx.get "reauth_age_seconds") with
     | some age => if age > maxAge then some "reauth" else Option.none
     | Option.none => some "reauth")
  | .str "require_age_verified" =>
    if (ctx.get "age_verified").truthy then Option.none else some "age_verification"
  | _ => Option.none

theorem obligationUnmet_eq (o : Oracle) (effect : String) (ctx ob : PyVal) :
    obligationUnmet o effect ctx ob =
      if !(ob.isNone || ob.isDict) then Option.none
      else if !(pyEq (por (ob.get "on") (.str "permit")) (.str effect) && (effect == "permit" || effect == "deny")) then Option.none
      else unmetTyped o ctx (normAttrs (ob.get "attrs")) (ob.get "type") := rfl

/-- the obligation types the checker knows -/
def knownTypes : List String :=
  ["require_mfa", "require_level", "http_challenge", "require_consent", "require_terms_accept", "require_captcha", "require_reauth",
   "require_age_verified"]

/-- a `type` is one of the known strings, or it is none of them (any other string, or not a string at all) -/
theorem typ_cases (typ : PyVal) :
    (∃ s, s ∈ knownTypes ∧ typ = .str s) ∨ (∀ s, s ∈ knownTypes → (Py.eq typ (.str s)).truthy = false) := by
  cases typ with
  | str s =>
    by_cases h : s ∈ knownTypes
    · exact Or.inl ⟨s, h, rfl⟩
    · refine Or.inr fun t ht => ?_
      simp only [Py.eq, truthy_bool, pyEq, beq_eq_false_iff_ne, ne_eq]
      intro e; subst e; exact h ht
  | _ => exact Or.inr fun t _ => rfl

/-- an unknown `type` is advice -/
theorem unmetTyped_other (o : Oracle) (ctx attrs typ : PyVal) (h : ∀ s, s ∈ knownTypes → (Py.eq typ (.str s)).truthy = false) :
    unmetTyped o ctx attrs typ = Option.none := by
  cases typ with
  | str s =>
    have hs : s ∉ knownTypes := fun hm => by have := h s hm; simp [Py.eq, truthy_bool, pyEq] at this
    unfold unmetTyped
    split <;> first | rfl | (exfalso; apply hs; simp_all [knownTypes])
  | _ => rfl

/-! ### the tests of the loop body -/

/-- `(ob or {}).get(k)` is `ob.get(k)` wherever the latter is defined (and `None` elsewhere, as `get` is) -/
theorem get_or_empty (ob : PyVal) (k : String) : Py.get (por ob (.dict [])) k = ob.get k := by
  unfold por Py.get
  split
  · rfl
  · rename_i h
    cases ob <;> simp_all [PyVal.get, PyVal.truthy, PyVal.lookup]

/-- `ob is not None and not isinstance(ob, dict)`: the entry is malformed -/
theorem malformed_test (ob : PyVal) :
    (pand (isNotNone ob) (pnot (isInstance ob "dict"))).truthy = !(ob.isNone || ob.isDict) := by
  cases ob <;> rfl

/-- `on not in ("permit", "deny") or on != current_effect`: the obligation is not aimed at the current effect -/
theorem on_test (on : PyVal) (effect : String) :
    (por (pnot (contains (.list [.str "permit", .str "deny"]) on)) (ne on (.str effect))).truthy =
      !(pyEq on (.str effect) && (effect == "permit" || effect == "deny")) := by
  rw [truthy_por, contains_list]
  cases on <;> simp [pnot, ne, pyEq, PyVal.truthy]
  rename_i s
  rw [BEq.comm (a := "permit"), BEq.comm (a := "deny")]
  by_cases h : s = effect
  · subst h
    simp
  · have h' : (s == effect) = false := by simpa using h
    rw [h']
    simp

/-- `typ == "<literal>"` on a string -/
theorem eq_lit (a b : String) : (Py.eq (.str a) (.str b)).truthy = (a == b) := by
  simp only [Py.eq, truthy_bool, pyEq]

/-- `if not isinstance(attrs, dict): attrs = {}` with `attrs = … or {}`: the test fails = `attrs` is kept -/
theorem normAttrs_of_dict (a : PyVal) (h : ¬ (pnot (isInstance (por a (.dict [])) "dict")).truthy = true) :
    normAttrs a = por a (.dict []) := by
  unfold normAttrs
  generalize por a (.dict []) = v at h
  cases v <;> simp_all [pnot, isInstance, PyVal.isDict, PyVal.truthy]

theorem normAttrs_of_not_dict (a : PyVal) (h : (pnot (isInstance (por a (.dict [])) "dict")).truthy = true) :
    normAttrs a = .dict [] := by
  unfold normAttrs
  generalize por a (.dict []) = v at h
  cases v <;> simp_all [pnot, isInstance, PyVal.isDict, PyVal.truthy]

/-! ### the branch bodies -/

/-- `if not bool(ctx.get(k)): return False, ch` (require_mfa / terms / captcha / age) -/
theorem truthy_row (v : PyVal) (ch : String) :
    (if (pnot (boolOf v)).truthy then Flow.ret (.list [.bool false, .str ch]) else Flow.next [.bool false]) =
      encUnmet (if v.truthy then Option.none else some ch) := by
  have e : (pnot (boolOf v)).truthy = !v.truthy := rfl
  rw [e]
  cases v.truthy <;> rfl

/-- `attrs.get(k, 0)` -/
theorem getD_zero (attrs : PyVal) (k : String) : getD attrs k (.int 0) = getOrZero attrs k := by
  unfold getD getOrZero PyVal.hasKey PyVal.get
  cases attrs <;> simp
  rename_i kvs
  cases lookup k kvs <;> simp

/-- `_finite_number(x) or 0.0` -/
theorem number_or_zero (o : Oracle) (x : PyVal) : por (encFinite o x) (.float 0.0) = .float (numberOrZero o x) := by
  unfold encFinite numberOrZero por
  cases finiteNumber o x with
  | none => rfl
  | some f =>
    show (if (f != 0.0) = true then PyVal.float f else .float 0.0) = .float (if (f != 0.0) = true then f else 0.0)
    by_cases h : (f != 0.0) = true
    · rw [if_pos h, if_pos h]
    · rw [if_neg h, if_neg h]

/-- require_level: `if cur_level is None or cur_level < min_level: return False, "step_up"` -/
theorem level_row (o : Oracle) (c m : PyVal) (ch : String) :
    (if (por (isNone (encFinite o c)) (lt (encFinite o c) (por (encFinite o (getD m "min" (.int 0))) (.float 0.0)))).truthy
      then Flow.ret (.list [.bool false, .str ch]) else Flow.next [.bool false]) =
      encUnmet (match finiteNumber o c with
        | some cur => if cur < numberOrZero o (getOrZero m "min") then some ch else Option.none
        | Option.none => some ch) := by
  rw [number_or_zero, getD_zero, truthy_por]
  unfold encFinite
  cases finiteNumber o c with
  | none => rfl
  | some f =>
    simp only [isNone, PyVal.isNone, lt, PyVal.truthy, Bool.false_or]
    by_cases h : f < numberOrZero o (getOrZero m "min") <;> simp [h, encUnmet]

/-- require_reauth: `if reauth_age is None or reauth_age > max_age: return False, "reauth"` -/
theorem reauth_row (o : Oracle) (c m : PyVal) (ch : String) :
    (if (por (isNone (encFinite o c)) (gt (encFinite o c) (por (encFinite o (getD m "max_age" (.int 0))) (.float 0.0)))).truthy
      then Flow.ret (.list [.bool false, .str ch]) else Flow.next [.bool false]) =
      encUnmet (match finiteNumber o c with
        | some age => if age > numberOrZero o (getOrZero m "max_age") then some ch else Option.none
        | Option.none => some ch) := by
  rw [number_or_zero, getD_zero, truthy_por]
  unfold encFinite
  cases finiteNumber o c with
  | none => rfl
  | some f =>
    simp only [isNone, PyVal.isNone, gt, lt, PyVal.truthy, Bool.false_or]
    by_cases h : f > numberOrZero o (getOrZero m "max_age") <;> simp [h, encUnmet]

/-- `attrs.get("scheme", "")` -/
theorem getD_scheme (attrs : PyVal) : getD attrs "scheme" (.str "") = (if attrs.hasKey "scheme" then attrs.get "scheme" else .str "") := by
  unfold getD PyVal.hasKey PyVal.get
  cases attrs <;> simp
  rename_i kvs
  cases lookup "scheme" kvs <;> simp

/-- http_challenge: `scheme = str(attrs.get("scheme", "")).lower()`, then `http_<scheme>` for the three known schemes, else `http_auth` -/
theorem http_row (o : Oracle) (attrs : PyVal) :
    (if (inSet [.str "basic", .str "bearer", .str "digest"] (lower (strO o (getD attrs "scheme" (.str ""))))).truthy
      then Flow.ret (.list [.bool false, fstr [.str "http_", strO o (lower (strO o (getD attrs "scheme" (.str ""))))]])
      else Flow.ret (.list [.bool false, .str "http_auth"])) =
      encUnmet (some (httpChallenge o attrs)) := by
  rw [getD_scheme]
  unfold httpChallenge
  generalize (if attrs.hasKey "scheme" then attrs.get "scheme" else .str "") = v
  have h1 : lower (strO o v) = .str (asciiLower (o.pyStr v)) := rfl
  rw [h1]
  generalize asciiLower (o.pyStr v) = s
  have h2 : strO o (.str s) = .str s := rfl
  have h3 : fstr [.str "http_", .str s] = .str ("http_" ++ s) := by simp [fstr, fstrText]
  have h4 : (inSet [.str "basic", .str "bearer", .str "digest"] (.str s)).truthy = (s == "basic" || s == "bearer" || s == "digest") := by
    simp only [inSet, List.any_cons, List.any_nil, pyEq, Bool.or_false, truthy_bool]
    rw [BEq.comm (a := "basic"), BEq.comm (a := "bearer"), BEq.comm (a := "digest"), Bool.or_assoc]
  rw [h2, h3, h4]
  simp only [encUnmet]
  split <;> rfl

/-- require_consent without a key: any truthy `consent` -/
theorem consent_any_row (v : PyVal) :
    (if (pnot (boolOf v)).truthy then Flow.ret (.list [.bool false, .str "consent"]) else Flow.next [.bool false]) =
      encUnmet (if v.truthy then Option.none else some "consent") := truthy_row v "consent"

/-- require_consent with a key: `granted` stays False unless `consent` is a dict with a truthy entry under a hashable key — and a
    hashable key that is not a string is in no JSON dict -/
theorem consent_keyed_row (consent key : PyVal) :
    (if (isInstance consent "dict").truthy then
        (if (pnot (if hashable key then boolOf (getV consent key) else PyVal.bool false)).truthy
          then Flow.ret (.list [.bool false, .str "consent"]) else Flow.next [.bool false])
      else
        (if (pnot (PyVal.bool false)).truthy then Flow.ret (.list [.bool false, .str "consent"]) else Flow.next [.bool false])) =
      encUnmet (match consent, key with
        | .dict kvs, .str k => if ((PyVal.dict kvs).get k).truthy then Option.none else some "consent"
        | _, _ => some "consent") := by
  cases consent <;> try rfl
  rename_i kvs
  cases key <;> try rfl
  rename_i k
  simp only [isInstance, PyVal.isDict, PyVal.truthy, hashable, getV, if_true]
  exact truthy_row _ "consent"

/-! ### the branches of the `if`/`elif` chain, each as the translator emits it = the model's verdict for that `type` -/

section branches
variable (o : Oracle) (ctx attrs : PyVal)

theorem branch_mfa :
    (if (pnot (boolOf (Py.get ctx "mfa"))).truthy then Flow.ret (.list [.bool false, .str "mfa"]) else Flow.next [.bool false]) =
      encUnmet (unmetTyped o ctx attrs (.str "require_mfa")) := truthy_row _ _

theorem branch_terms :
    (if (pnot (boolOf (Py.get ctx "tos_accepted"))).truthy then Flow.ret (.list [.bool false, .str "tos"]) else Flow.next [.bool false]) =
      encUnmet (unmetTyped o ctx attrs (.str "require_terms_accept")) := truthy_row _ _

theorem branch_captcha :
    (if (pnot (boolOf (Py.get ctx "captcha_passed"))).truthy then Flow.ret (.list [.bool false, .str "captcha"])
      else Flow.next [.bool false]) =
      encUnmet (unmetTyped o ctx attrs (.str "require_captcha")) := truthy_row _ _

theorem branch_age :
    (if (pnot (boolOf (Py.get ctx "age_verified"))).truthy then Flow.ret (.list [.bool false, .str "age_verification"])
      else Flow.next [.bool false]) =
      encUnmet (unmetTyped o ctx attrs (.str "require_age_verified")) := truthy_row _ _

theorem branch_level :
    (if (por (isNone (encFinite o (Py.get ctx "auth_level")))
          (lt (encFinite o (Py.get ctx "auth_level")) (por (encFinite o (getD attrs "min" (.int 0))) (.float 0.0)))).truthy
      then Flow.ret (.list [.bool false, .str "step_up"]) else Flow.next [.bool false]) =
      encUnmet (unmetTyped o ctx attrs (.str "require_level")) := level_row o _ attrs "step_up"

theorem branch_reauth :
    (if (por (isNone (encFinite o (Py.get ctx "reauth_age_seconds")))
          (gt (encFinite o (Py.get ctx "reauth_age_seconds")) (por (encFinite o (getD attrs "max_age" (.int 0))) (.float 0.0)))).truthy
      then Flow.ret (.list [.bool false, .str "reauth"]) else Flow.next [.bool false]) =
      encUnmet (unmetTyped o ctx attrs (.str "require_reauth")) := reauth_row o _ attrs "reauth"

theorem branch_http :
    (if (inSet [.str "basic", .str "bearer", .str "digest"] (lower (strO o (getD attrs "scheme" (.str ""))))).truthy
      then Flow.ret (.list [.bool false, fstr [.str "http_", strO o (lower (strO o (getD attrs "scheme" (.str ""))))]])
      else Flow.ret (.list [.bool false, .str "http_auth"])) =
      encUnmet (unmetTyped o ctx attrs (.str "http_challenge")) := http_row o attrs

theorem branch_consent :
    (if (isNone (Py.get attrs "key")).truthy then
        (if (pnot (boolOf (Py.get ctx "consent"))).truthy then Flow.ret (.list [.bool false, .str "consent"]) else Flow.next [.bool false])
      else
        (if (isInstance (Py.get ctx "consent") "dict").truthy then
          (if (pnot (if hashable (Py.get attrs "key") then boolOf (getV (Py.get ctx "consent") (Py.get attrs "key")) else PyVal.bool false)).truthy
            then Flow.ret (.list [.bool false, .str "consent"]) else Flow.next [.bool false])
        else
          (if (pnot (PyVal.bool false)).truthy then Flow.ret (.list [.bool false, .str "consent"]) else Flow.next [.bool false]))) =
      encUnmet (unmetTyped o ctx attrs (.str "require_consent")) := by
  rw [consent_keyed_row, consent_any_row]
  show _ = encUnmet (if (attrs.get "key").isNone then _ else _)
  have e : (isNone (Py.get attrs "key")).truthy = (attrs.get "key").isNone := rfl
  rw [e]
  split <;> rfl

end branches

end Rbacx.Py
