import Rbacx.Model.Engine
/-
  Rbacx.Proofs.PolicyLoop — the loop lemma for `evaluate` (DESIGN §5.0): the rule loop, with its
  early `break`s, followed by `finalise`, computes a simple function of the list of rule outcomes.
-/
namespace Rbacx

def Outcome.applied : Outcome → Bool
  | .applies _ _ _ => true
  | _ => false

def Outcome.isDeny : Outcome → Bool
  | .applies e _ _ => e == "deny"
  | _ => false

/-- an applicable rule whose effect is not `deny` counts as a permit in the overrides algorithms -/
def Outcome.isPermit : Outcome → Bool
  | .applies e _ _ => !(e == "deny")
  | _ => false

def Outcome.rid : Outcome → PyVal
  | .applies _ r _ => r
  | _ => .none

def Outcome.obls : Outcome → List PyVal
  | .applies _ _ o => o
  | _ => []

def Outcome.effect : Outcome → String
  | .applies e _ _ => e
  | _ => ""

/-- the loop over already-computed outcomes -/
def loopOuts (algo : String) : LoopSt → List Outcome → LoopSt
  | s, [] => s
  | s, o :: os =>
    if (stepRule algo s o).2 then (stepRule algo s o).1 else loopOuts algo (stepRule algo s o).1 os

/-- outcomes of all rules, if none of them raises -/
def outcomes (cx : CondCtx) : List PyVal → Except CondErr (List Outcome)
  | [] => .ok []
  | r :: rs =>
    match ruleOutcome cx r with
    | .error e => .error e
    | .ok o =>
      match outcomes cx rs with
      | .error e => .error e
      | .ok os => .ok (o :: os)

theorem rulesLoop_eq_loopOuts (cx : CondCtx) (algo : String) :
    ∀ (rules : List PyVal) (s : LoopSt) (outs : List Outcome),
      outcomes cx rules = .ok outs → rulesLoop cx algo s rules = .ok (loopOuts algo s outs) := by
  intro rules
  induction rules with
  | nil => intro s outs h; simp [outcomes] at h; subst h; rfl
  | cons r rs ih =>
    intro s outs h
    simp only [outcomes] at h
    cases hr : ruleOutcome cx r with
    | error e => simp [hr] at h
    | ok o =>
      simp only [hr] at h
      cases hrs : outcomes cx rs with
      | error e => simp [hrs] at h
      | ok os =>
        simp only [hrs] at h
        injection h with h
        subst h
        simp only [rulesLoop, hr, loopOuts]
        split
        · rfl
        · exact ih _ _ hrs

theorem outcomes_length (cx : CondCtx) :
    ∀ (rules : List PyVal) (outs : List Outcome), outcomes cx rules = .ok outs → outs.length = rules.length := by
  intro rules
  induction rules with
  | nil => intro outs h; simp [outcomes] at h; subst h; rfl
  | cons r rs ih =>
    intro outs h
    simp only [outcomes] at h
    cases hr : ruleOutcome cx r with
    | error e => simp [hr] at h
    | ok o =>
      simp only [hr] at h
      cases hrs : outcomes cx rs with
      | error e => simp [hrs] at h
      | ok os =>
        simp only [hrs] at h
        injection h with h
        subst h
        simp [ih _ hrs]

/-! ### specification of the three algorithms over outcome lists -/

def specDecisionDO (outs : List Outcome) : String :=
  if outs.any Outcome.isDeny then "deny" else if outs.any Outcome.isPermit then "permit" else "deny"

def specDecisionPO (outs : List Outcome) : String :=
  if outs.any Outcome.isPermit then "permit" else if outs.any Outcome.isDeny then "deny" else "deny"

def specDecisionFA (outs : List Outcome) : String :=
  match outs.find? Outcome.applied with
  | some o => o.effect
  | none => "deny"

/-! ### deny-overrides -/

theorem loop_do (os : List Outcome) :
    ∀ s : LoopSt, s.anyDeny = false →
      (finalise "deny-overrides" (loopOuts "deny-overrides" s os)).decision =
        (if os.any Outcome.isDeny then "deny"
         else if s.anyPermit || os.any Outcome.isPermit then "permit" else "deny") := by
  induction os with
  | nil => intro s h; simp [loopOuts, finalise, h]; split <;> simp_all
  | cons o os ih =>
    intro s h
    cases o with
    | applies e r ob =>
      by_cases he : e = "deny"
      · subst he
        simp [loopOuts, stepRule, finalise, Outcome.isDeny]
      · have hd : (e == "deny") = false := by simpa using he
        simp only [loopOuts, stepRule, hd, Outcome.isDeny, Outcome.isPermit, List.any_cons]
        simp only [show ("deny-overrides" == "first-applicable") = false by decide,
                   show ("deny-overrides" == "permit-overrides") = false by decide, Bool.false_eq_true, if_false]
        rw [ih _ (by simpa using h)]
        simp
    | actionMismatch => simpa [loopOuts, stepRule, Outcome.isDeny, Outcome.isPermit] using ih _ (by simpa using h)
    | resourceMismatch => simpa [loopOuts, stepRule, Outcome.isDeny, Outcome.isPermit] using ih _ (by simpa using h)
    | condFalse => simpa [loopOuts, stepRule, Outcome.isDeny, Outcome.isPermit] using ih _ (by simpa using h)
    | condTypeErr => simpa [loopOuts, stepRule, Outcome.isDeny, Outcome.isPermit] using ih _ (by simpa using h)

theorem evaluate_do_decision (outs : List Outcome) :
    (finalise "deny-overrides" (loopOuts "deny-overrides" {} outs)).decision = specDecisionDO outs := by
  rw [loop_do outs {} rfl]; simp [specDecisionDO]

/-! ### permit-overrides -/

theorem loop_po (os : List Outcome) :
    ∀ s : LoopSt, s.anyPermit = false →
      (finalise "permit-overrides" (loopOuts "permit-overrides" s os)).decision =
        (if os.any Outcome.isPermit then "permit"
         else if s.anyDeny || os.any Outcome.isDeny then "deny" else "deny") := by
  induction os with
  | nil => intro s h; simp [loopOuts, finalise, h]; split <;> simp_all
  | cons o os ih =>
    intro s h
    cases o with
    | applies e r ob =>
      by_cases he : e = "deny"
      · subst he
        simp only [loopOuts, stepRule, Outcome.isDeny, Outcome.isPermit, List.any_cons]
        simp only [show ("permit-overrides" == "first-applicable") = false by decide,
                   show ("permit-overrides" == "deny-overrides") = false by decide, Bool.false_eq_true, if_false,
                   beq_self_eq_true, if_true]
        rw [ih _ (by simpa using h)]
        simp
      · have hd : (e == "deny") = false := by simpa using he
        simp [loopOuts, stepRule, hd, finalise, Outcome.isPermit]
    | actionMismatch => simpa [loopOuts, stepRule, Outcome.isDeny, Outcome.isPermit] using ih _ (by simpa using h)
    | resourceMismatch => simpa [loopOuts, stepRule, Outcome.isDeny, Outcome.isPermit] using ih _ (by simpa using h)
    | condFalse => simpa [loopOuts, stepRule, Outcome.isDeny, Outcome.isPermit] using ih _ (by simpa using h)
    | condTypeErr => simpa [loopOuts, stepRule, Outcome.isDeny, Outcome.isPermit] using ih _ (by simpa using h)

theorem evaluate_po_decision (outs : List Outcome) :
    (finalise "permit-overrides" (loopOuts "permit-overrides" {} outs)).decision = specDecisionPO outs := by
  rw [loop_po outs {} rfl]; simp [specDecisionPO]

end Rbacx

namespace Rbacx

/-! ### full characterisation of the raw decision (decision, reason, rule id, obligations) -/

def lastWhere (p : Outcome → Bool) : List Outcome → Option Outcome
  | [] => none
  | o :: os =>
    match lastWhere p os with
    | some x => some x
    | none => if p o then some o else none

def Outcome.reason : Outcome → String
  | .actionMismatch => "action_mismatch"
  | .resourceMismatch => "resource_mismatch"
  | .condFalse => "condition_mismatch"
  | .condTypeErr => "condition_type_mismatch"
  | .applies _ _ _ => ""

/-- the reason left behind by a run of non-applicable rules -/
def lastReason (init : String) : List Outcome → String
  | [] => init
  | o :: os => lastReason (if o.applied then init else o.reason) os

def rawDeny (d : Outcome) : Raw :=
  { decision := "deny", reason := "explicit_deny", ruleId := d.rid, lastRuleId := d.rid, obligations := [] }

def rawPermit (rid : PyVal) (obls : List PyVal) : Raw :=
  { decision := "permit", reason := "matched", ruleId := rid, lastRuleId := rid, obligations := obls }

def rawNone (reason : String) : Raw :=
  { decision := "deny", reason := reason, ruleId := .none, lastRuleId := .none, obligations := [] }

def specDO (outs : List Outcome) : Raw :=
  match outs.find? Outcome.isDeny with
  | some d => rawDeny d
  | none =>
    match lastWhere Outcome.isPermit outs with
    | some p => rawPermit p.rid p.obls
    | none => rawNone (lastReason "no_match" outs)

def specPO (outs : List Outcome) : Raw :=
  match outs.find? Outcome.isPermit with
  | some p => rawPermit p.rid p.obls
  | none =>
    match lastWhere Outcome.isDeny outs with
    | some d => rawDeny d
    | none => rawNone (lastReason "no_match" outs)

def specFA (outs : List Outcome) : Raw :=
  match outs.find? Outcome.applied with
  | some o =>
    { decision := o.effect, reason := if o.effect == "deny" then "explicit_deny" else "matched",
      ruleId := o.rid, lastRuleId := o.rid, obligations := o.obls }
  | none => rawNone (lastReason "no_match" outs)

theorem loop_do_full (os : List Outcome) :
    ∀ s : LoopSt, s.anyDeny = false → (s.anyPermit = false → s.lastRuleId = .none) →
      finalise "deny-overrides" (loopOuts "deny-overrides" s os) =
        (match os.find? Outcome.isDeny with
         | some d => rawDeny d
         | none =>
           match lastWhere Outcome.isPermit os with
           | some p => rawPermit p.rid p.obls
           | none =>
             if s.anyPermit then rawPermit s.permitRuleId s.permitObls
             else rawNone (lastReason s.reason os)) := by
  induction os with
  | nil =>
    intro s h1 h2
    simp only [loopOuts, List.find?_nil, lastWhere, lastReason, finalise]
    by_cases hp : s.anyPermit = true
    · simp [h1, hp, rawPermit]
    · have hp' : s.anyPermit = false := by simpa using hp
      simp [h1, hp', rawNone, h2 hp']
  | cons o os ih =>
    intro s h1 h2
    cases o with
    | applies e r ob =>
      by_cases he : e = "deny"
      · subst he
        simp [loopOuts, stepRule, finalise, Outcome.isDeny, rawDeny, Outcome.rid]
      · have hd : (e == "deny") = false := by simpa using he
        simp only [loopOuts, stepRule, hd, Outcome.isDeny, Outcome.isPermit, List.find?_cons, lastWhere]
        simp only [show ("deny-overrides" == "first-applicable") = false by decide,
                   show ("deny-overrides" == "permit-overrides") = false by decide, Bool.false_eq_true, if_false]
        rw [ih _ (by simpa using h1) (by simp)]
        simp only [Bool.not_false, if_true, Outcome.rid, Outcome.obls]
        cases os.find? Outcome.isDeny <;> simp
        cases lastWhere Outcome.isPermit os <;> simp
    | actionMismatch =>
      simp only [loopOuts, stepRule, Bool.false_eq_true, if_false, Outcome.isDeny, Outcome.isPermit,
        List.find?_cons, lastWhere, lastReason, Outcome.applied, Outcome.reason]
      rw [ih _ (by simpa using h1) (by simpa using h2)]
      cases os.find? Outcome.isDeny <;> simp
      cases lastWhere Outcome.isPermit os <;> simp
    | resourceMismatch =>
      simp only [loopOuts, stepRule, Bool.false_eq_true, if_false, Outcome.isDeny, Outcome.isPermit,
        List.find?_cons, lastWhere, lastReason, Outcome.applied, Outcome.reason]
      rw [ih _ (by simpa using h1) (by simpa using h2)]
      cases os.find? Outcome.isDeny <;> simp
      cases lastWhere Outcome.isPermit os <;> simp
    | condFalse =>
      simp only [loopOuts, stepRule, Bool.false_eq_true, if_false, Outcome.isDeny, Outcome.isPermit,
        List.find?_cons, lastWhere, lastReason, Outcome.applied, Outcome.reason]
      rw [ih _ (by simpa using h1) (by simpa using h2)]
      cases os.find? Outcome.isDeny <;> simp
      cases lastWhere Outcome.isPermit os <;> simp
    | condTypeErr =>
      simp only [loopOuts, stepRule, Bool.false_eq_true, if_false, Outcome.isDeny, Outcome.isPermit,
        List.find?_cons, lastWhere, lastReason, Outcome.applied, Outcome.reason]
      rw [ih _ (by simpa using h1) (by simpa using h2)]
      cases os.find? Outcome.isDeny <;> simp
      cases lastWhere Outcome.isPermit os <;> simp

theorem evaluate_do_full (outs : List Outcome) :
    finalise "deny-overrides" (loopOuts "deny-overrides" {} outs) = specDO outs := by
  rw [loop_do_full outs {} rfl (fun _ => rfl)]
  simp only [specDO]
  cases outs.find? Outcome.isDeny <;> simp

end Rbacx

namespace Rbacx

theorem loop_po_full (os : List Outcome) :
    ∀ s : LoopSt, s.anyPermit = false → (s.anyDeny = false → s.lastRuleId = .none) →
      finalise "permit-overrides" (loopOuts "permit-overrides" s os) =
        (match os.find? Outcome.isPermit with
         | some p => rawPermit p.rid p.obls
         | none =>
           match lastWhere Outcome.isDeny os with
           | some d => rawDeny d
           | none =>
             if s.anyDeny then
               { decision := "deny", reason := "explicit_deny", ruleId := s.denyRuleId, lastRuleId := s.denyRuleId,
                 obligations := [] }
             else rawNone (lastReason s.reason os)) := by
  induction os with
  | nil =>
    intro s h1 h2
    simp only [loopOuts, List.find?_nil, lastWhere, lastReason, finalise]
    by_cases hp : s.anyDeny = true
    · simp [h1, hp]
    · have hp' : s.anyDeny = false := by simpa using hp
      simp [h1, hp', rawNone, h2 hp']
  | cons o os ih =>
    intro s h1 h2
    cases o with
    | applies e r ob =>
      by_cases he : e = "deny"
      · subst he
        simp only [loopOuts, stepRule, Outcome.isDeny, Outcome.isPermit, List.find?_cons, lastWhere]
        simp only [show ("permit-overrides" == "first-applicable") = false by decide,
                   show ("permit-overrides" == "deny-overrides") = false by decide, Bool.false_eq_true, if_false,
                   beq_self_eq_true, if_true, Bool.not_true]
        rw [ih _ (by simpa using h1) (by simp)]
        cases os.find? Outcome.isPermit <;> simp
        cases lastWhere Outcome.isDeny os <;> simp [rawDeny, Outcome.rid]
      · have hd : (e == "deny") = false := by simpa using he
        simp [loopOuts, stepRule, hd, finalise, Outcome.isPermit, rawPermit, Outcome.rid, Outcome.obls]
    | actionMismatch =>
      simp only [loopOuts, stepRule, Bool.false_eq_true, if_false, Outcome.isDeny, Outcome.isPermit,
        List.find?_cons, lastWhere, lastReason, Outcome.applied, Outcome.reason]
      rw [ih _ (by simpa using h1) (by simpa using h2)]
      cases os.find? Outcome.isPermit <;> simp
      all_goals (try (cases lastWhere Outcome.isDeny os <;> simp))
    | resourceMismatch =>
      simp only [loopOuts, stepRule, Bool.false_eq_true, if_false, Outcome.isDeny, Outcome.isPermit,
        List.find?_cons, lastWhere, lastReason, Outcome.applied, Outcome.reason]
      rw [ih _ (by simpa using h1) (by simpa using h2)]
      cases os.find? Outcome.isPermit <;> simp
      all_goals (try (cases lastWhere Outcome.isDeny os <;> simp))
    | condFalse =>
      simp only [loopOuts, stepRule, Bool.false_eq_true, if_false, Outcome.isDeny, Outcome.isPermit,
        List.find?_cons, lastWhere, lastReason, Outcome.applied, Outcome.reason]
      rw [ih _ (by simpa using h1) (by simpa using h2)]
      cases os.find? Outcome.isPermit <;> simp
      all_goals (try (cases lastWhere Outcome.isDeny os <;> simp))
    | condTypeErr =>
      simp only [loopOuts, stepRule, Bool.false_eq_true, if_false, Outcome.isDeny, Outcome.isPermit,
        List.find?_cons, lastWhere, lastReason, Outcome.applied, Outcome.reason]
      rw [ih _ (by simpa using h1) (by simpa using h2)]
      cases os.find? Outcome.isPermit <;> simp
      all_goals (try (cases lastWhere Outcome.isDeny os <;> simp))

theorem evaluate_po_full (outs : List Outcome) :
    finalise "permit-overrides" (loopOuts "permit-overrides" {} outs) = specPO outs := by
  rw [loop_po_full outs {} rfl (fun _ => rfl)]
  simp only [specPO]
  cases outs.find? Outcome.isPermit <;> simp

/-- rule ids produced by `ruleOutcome` are never `None` (`rule.get("id") or ""`) -/
def RidsNonNull (outs : List Outcome) : Prop := ∀ o ∈ outs, o.applied = true → o.rid.isNone = false

theorem loop_fa_full (os : List Outcome) (hr : RidsNonNull os) :
    ∀ s : LoopSt, s.lastRuleId = .none → s.obligations = [] →
      finalise "first-applicable" (loopOuts "first-applicable" s os) =
        (match os.find? Outcome.applied with
         | some o =>
           { decision := o.effect, reason := if o.effect == "deny" then "explicit_deny" else "matched",
             ruleId := o.rid, lastRuleId := o.rid, obligations := o.obls }
         | none => rawNone (lastReason s.reason os)) := by
  induction os with
  | nil =>
    intro s h1 h2
    simp [loopOuts, lastReason, finalise, h1, h2, rawNone, PyVal.isNone]
  | cons o os ih =>
    intro s h1 h2
    have hr' : RidsNonNull os := fun o ho ha => hr o (List.mem_cons_of_mem _ ho) ha
    cases o with
    | applies e r ob =>
      have hn : r.isNone = false := hr _ (List.mem_cons_self) rfl
      rw [List.find?_cons_of_pos (by rfl)]
      simp [loopOuts, stepRule, finalise, Outcome.effect, Outcome.rid, Outcome.obls, hn]
    | actionMismatch =>
      simp only [loopOuts, stepRule, Bool.false_eq_true, if_false, List.find?_cons, lastReason, Outcome.applied,
        Outcome.reason]
      rw [ih hr' _ (by simpa using h1) (by simpa using h2)]
    | resourceMismatch =>
      simp only [loopOuts, stepRule, Bool.false_eq_true, if_false, List.find?_cons, lastReason, Outcome.applied,
        Outcome.reason]
      rw [ih hr' _ (by simpa using h1) (by simpa using h2)]
    | condFalse =>
      simp only [loopOuts, stepRule, Bool.false_eq_true, if_false, List.find?_cons, lastReason, Outcome.applied,
        Outcome.reason]
      rw [ih hr' _ (by simpa using h1) (by simpa using h2)]
    | condTypeErr =>
      simp only [loopOuts, stepRule, Bool.false_eq_true, if_false, List.find?_cons, lastReason, Outcome.applied,
        Outcome.reason]
      rw [ih hr' _ (by simpa using h1) (by simpa using h2)]

theorem evaluate_fa_full (outs : List Outcome) (hr : RidsNonNull outs) :
    finalise "first-applicable" (loopOuts "first-applicable" {} outs) = specFA outs := by
  rw [loop_fa_full outs hr {} rfl rfl]
  simp only [specFA]

end Rbacx
