import Rbacx.Model.PyLib
import Rbacx.Model.Compiler
/-
  Rbacx.Proofs.PyLibLemmas — encodings between the model's Lean types and the `PyVal`s the
  translated source works on, and the facts about `Rbacx.Py.*` the per-run obligations need.
-/
namespace Rbacx.Py
open PyVal

def optToVal : Option String → PyVal
  | Option.none => PyVal.none
  | some s => .str s

/-- a tuple of `str | None` -/
def encTypes (l : List (Option String)) : PyVal := .list (l.map optToVal)

def encOptNat : Option Nat → PyVal
  | Option.none => PyVal.none
  | some n => .int n

def encStrs (l : List String) : PyVal := .list (l.map PyVal.str)

theorem pyEq_optToVal (a b : Option String) : pyEq (optToVal a) (optToVal b) = (b == a) := by
  cases a <;> cases b <;> simp [optToVal, pyEq]
  exact BEq.comm

theorem contains_list (l : List PyVal) (x : PyVal) : contains (.list l) x = .bool (l.any fun y => pyEq y x) := rfl

theorem contains_encTypes (l : List (Option String)) (x : Option String) :
    contains (encTypes l) (optToVal x) = .bool (l.contains x) := by
  unfold encTypes
  rw [contains_list]
  congr 1
  induction l with
  | nil => rfl
  | cons y ys ih => simp only [List.map_cons, List.any_cons, pyEq_optToVal, List.contains_cons, ih]

theorem contains_encStrs (l : List String) (x : PyVal) :
    contains (encStrs l) x = .bool (match x with | .str a => l.contains a | _ => false) := by
  unfold encStrs
  rw [contains_list]
  congr 1
  induction l with
  | nil => cases x <;> rfl
  | cons y ys ih =>
    simp only [List.map_cons, List.any_cons, ih]
    cases x <;> simp [pyEq, List.contains_cons]
    rename_i s
    by_cases h : y = s
    · subst h; simp
    · have h2 : (y == s) = false := by simpa using h
      simp [h2, h]
      intro hsy; exact absurd hsy.symm h

theorem por_assoc (a b c : PyVal) : por (por a b) c = por a (por b c) := by
  unfold por
  cases ha : a.truthy <;> simp [ha]

theorem truthy_bool (b : Bool) : (PyVal.bool b).truthy = b := rfl

theorem truthy_list (l : List PyVal) : (PyVal.list l).truthy = !l.isEmpty := rfl

theorem truthy_encTypes (l : List (Option String)) : (encTypes l).truthy = !l.isEmpty := by
  unfold encTypes; rw [truthy_list]; cases l <;> rfl

theorem iter_encTypes (l : List (Option String)) : PyVal.list (iter (encTypes l)) = encTypes l := rfl

end Rbacx.Py
