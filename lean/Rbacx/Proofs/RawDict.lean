import Rbacx.Model.PyLib
import Rbacx.Model.PolicySet
import Rbacx.Proofs.PyLibLemmas
/-
  Rbacx.Proofs.RawDict — raw decision dicts as `PyVal`s: the encodings of the model's `Raw` record and of the loop states of
  `evaluate` / `decide` into the Python values the translated fragments (`Generated.Src.evaluate_step`, `evaluate_final`,
  `decide_step`, `decide_final`) work on, and the facts about `d[k] = v`, `dict(d)` and dict displays that the per-run obligation
  `Run/C02_translated.lean` needs.  Nothing here depends on the generated code.

  Why `Represents` and not one fixed encoding: the dicts that flow through `decide` do not have one key order.  `evaluate` returns
  five keys (no `policy_id`); `decide` returns either a six-key display (`policy_id` fifth) or `dict(child_result)` with
  `policy_id` stored afterwards — appended at the END when the child was a single policy, kept in place when it was a set.
  What every consumer (`.get`) sees is the same, and that is what `Represents d r` says: `d` is a dict and `d.get(k)` is the field
  of `r` for each of the six keys and `None` for any other key.
-/
namespace Rbacx.Py
open PyVal

/-! ### `d[k] = v`, `dict(d)`, displays -/

theorem lookup_setKV (k k' : String) (v : PyVal) (kvs : List (String × PyVal)) :
    lookup k' (setKV k v kvs) = if k = k' then some v else lookup k' kvs := by
  induction kvs with
  | nil => simp [setKV, lookup]
  | cons kv rest ih =>
    obtain ⟨k0, w⟩ := kv
    by_cases h0 : k0 = k
    · subst h0
      by_cases h1 : k0 = k' <;> simp [setKV, lookup, h1]
    · by_cases h1 : k = k'
      · subst h1; simp [setKV, lookup, h0, ih]
      · simp [setKV, lookup, h0, ih, h1]

theorem get_setItem (kvs : List (String × PyVal)) (k k' : String) (v : PyVal) :
    Py.get (setItem (.dict kvs) k v) k' = if k = k' then v else Py.get (.dict kvs) k' := by
  simp only [setItem, Py.get, PyVal.get, lookup_setKV]
  by_cases h : k = k' <;> simp [h]

theorem setItem_isDict (d : PyVal) (k : String) (v : PyVal) : (setItem d k v).isDict = d.isDict := by
  cases d <;> rfl

theorem dictCopy_of_isDict {d : PyVal} (h : d.isDict = true) : dictCopy d = d := by
  cases d <;> simp_all [dictCopy, PyVal.isDict]

/-! ### the model's `Raw` as a dict -/

/-- the dict `policy.evaluate` returns (no `policy_id` key), keys in the order the source writes them -/
def encRaw (r : Raw) : PyVal :=
  .dict [("decision", .str r.decision), ("reason", .str r.reason), ("rule_id", r.ruleId), ("last_rule_id", r.lastRuleId),
         ("obligations", .list r.obligations)]

/-- the six-key display `policyset.decide` returns -/
def encRawSet (r : Raw) : PyVal :=
  .dict [("decision", .str r.decision), ("reason", .str r.reason), ("rule_id", r.ruleId), ("last_rule_id", r.lastRuleId),
         ("policy_id", r.policyId), ("obligations", .list r.obligations)]

/-- what `d.get(k)` answers on a decision dict describing `r` -/
def rawField (r : Raw) (k : String) : PyVal :=
  if "decision" = k then .str r.decision
  else if "reason" = k then .str r.reason
  else if "rule_id" = k then r.ruleId
  else if "last_rule_id" = k then r.lastRuleId
  else if "policy_id" = k then r.policyId
  else if "obligations" = k then .list r.obligations
  else .none

/-- `d` is a decision dict describing `r` (whatever its key order; an absent `policy_id` reads as `None`) -/
structure Represents (d : PyVal) (r : Raw) : Prop where
  isDict : d.isDict = true
  field : ∀ k, Py.get d k = rawField r k

theorem rawField_decision (r : Raw) : rawField r "decision" = .str r.decision := by simp [rawField]
theorem rawField_reason (r : Raw) : rawField r "reason" = .str r.reason := by simp [rawField]
theorem rawField_rule_id (r : Raw) : rawField r "rule_id" = r.ruleId := by simp [rawField]
theorem rawField_last_rule_id (r : Raw) : rawField r "last_rule_id" = r.lastRuleId := by simp [rawField]
theorem rawField_policy_id (r : Raw) : rawField r "policy_id" = r.policyId := by simp [rawField]
theorem rawField_obligations (r : Raw) : rawField r "obligations" = .list r.obligations := by simp [rawField]

namespace Represents
variable {d : PyVal} {r : Raw}

theorem decision (h : Represents d r) : Py.get d "decision" = .str r.decision := by rw [h.field, rawField_decision]
theorem reason (h : Represents d r) : Py.get d "reason" = .str r.reason := by rw [h.field, rawField_reason]
theorem rule_id (h : Represents d r) : Py.get d "rule_id" = r.ruleId := by rw [h.field, rawField_rule_id]
theorem last_rule_id (h : Represents d r) : Py.get d "last_rule_id" = r.lastRuleId := by rw [h.field, rawField_last_rule_id]
theorem policy_id (h : Represents d r) : Py.get d "policy_id" = r.policyId := by rw [h.field, rawField_policy_id]
theorem obligations (h : Represents d r) : Py.get d "obligations" = .list r.obligations := by rw [h.field, rawField_obligations]

theorem isNone_eq (h : Represents d r) : d.isNone = false := by
  have := h.isDict
  cases d <;> simp_all [PyVal.isDict, PyVal.isNone]

theorem copy (h : Represents d r) : dictCopy d = d := dictCopy_of_isDict h.isDict

/-- `d["policy_id"] = pid` -/
theorem setPolicyId (h : Represents d r) (pid : PyVal) : Represents (setItem d "policy_id" pid) { r with policyId := pid } := by
  have hd := h.isDict
  cases d with
  | dict kvs =>
    refine ⟨rfl, fun k => ?_⟩
    rw [get_setItem, h.field]
    unfold rawField
    by_cases h1 : "decision" = k; · subst h1; simp
    by_cases h2 : "reason" = k; · subst h2; simp
    by_cases h3 : "rule_id" = k; · subst h3; simp
    by_cases h4 : "last_rule_id" = k; · subst h4; simp
    by_cases h5 : "policy_id" = k; · subst h5; simp
    simp [h1, h2, h3, h4, h5]
  | _ => simp [PyVal.isDict] at hd

/-- `d["reason"] = x` for a string `x` -/
theorem setReason (h : Represents d r) (x : String) : Represents (setItem d "reason" (.str x)) { r with reason := x } := by
  have hd := h.isDict
  cases d with
  | dict kvs =>
    refine ⟨rfl, fun k => ?_⟩
    rw [get_setItem, h.field]
    unfold rawField
    by_cases h1 : "decision" = k; · subst h1; simp
    by_cases h2 : "reason" = k; · subst h2; simp
    simp [h1, h2]
  | _ => simp [PyVal.isDict] at hd

end Represents

theorem represents_encRawSet (r : Raw) : Represents (encRawSet r) r := by
  refine ⟨rfl, fun k => ?_⟩
  simp only [encRawSet, Py.get, PyVal.get, lookup, rawField]
  by_cases h1 : "decision" = k; · simp [h1]
  by_cases h2 : "reason" = k; · simp [h1, h2]
  by_cases h3 : "rule_id" = k; · simp [h1, h2, h3]
  by_cases h4 : "last_rule_id" = k; · simp [h1, h2, h3, h4]
  by_cases h5 : "policy_id" = k; · simp [h1, h2, h3, h4, h5]
  by_cases h6 : "obligations" = k; · simp [h1, h2, h3, h4, h5, h6]
  simp [h1, h2, h3, h4, h5, h6]

/-- what `evaluate` returns describes a `Raw` without policy id -/
theorem represents_encRaw (r : Raw) (hp : r.policyId = .none) : Represents (encRaw r) r := by
  refine ⟨rfl, fun k => ?_⟩
  simp only [encRaw, Py.get, PyVal.get, lookup, rawField, hp]
  by_cases h1 : "decision" = k; · simp [h1]
  by_cases h2 : "reason" = k; · simp [h1, h2]
  by_cases h3 : "rule_id" = k; · simp [h1, h2, h3]
  by_cases h4 : "last_rule_id" = k; · simp [h1, h2, h3, h4]
  by_cases h5 : "policy_id" = k; · subst h5; simp
  by_cases h6 : "obligations" = k; · simp [h1, h2, h3, h4, h5, h6]
  simp [h1, h2, h3, h4, h5, h6]

/-- a dict display with the six keys of a decision, whatever the expressions: what `dictOf` builds -/
theorem dictOf_six (a b c d e f : PyVal) :
    dictOf [("decision", a), ("reason", b), ("rule_id", c), ("last_rule_id", d), ("policy_id", e), ("obligations", f)] =
      .dict [("decision", a), ("reason", b), ("rule_id", c), ("last_rule_id", d), ("policy_id", e), ("obligations", f)] := by
  simp [dictOf, setItem, setKV]

theorem dictOf_five (a b c d f : PyVal) :
    dictOf [("decision", a), ("reason", b), ("rule_id", c), ("last_rule_id", d), ("obligations", f)] =
      .dict [("decision", a), ("reason", b), ("rule_id", c), ("last_rule_id", d), ("obligations", f)] := by
  simp [dictOf, setItem, setKV]

/-! ### the loop state of `decide` -/

/-- one of the three `(…_result, …_pid)` pairs of `decide`: both `None`, or a decision dict and the child's id -/
def SlotRep (d p : PyVal) : Option (Raw × PyVal) → Prop
  | Option.none => d = .none ∧ p = .none
  | some (r, pid) => Represents d r ∧ p = pid

/-- `_is_applicable`'s body on the three values it reads (`last_rule_id`, `rule_id`, `reason` of the result) -/
theorem is_applicable_aux (lid rid : PyVal) (reason : String) :
    (if (Py.isNone lid).truthy then
       (if (Py.pnot (Py.isInstance rid "str")).truthy then PyVal.bool false
        else por (Py.ne rid (.str "")) (Py.contains (.list [.str "matched", .str "explicit_deny"]) (.str reason)))
     else
       (if (Py.pnot (Py.isInstance lid "str")).truthy then PyVal.bool false
        else por (Py.ne lid (.str "")) (Py.contains (.list [.str "matched", .str "explicit_deny"]) (.str reason)))) =
      PyVal.bool (match (if lid.isNone then rid else lid) with
        | .str s => s != "" || reason == "matched" || reason == "explicit_deny"
        | _ => false) := by
  have key : ∀ v : PyVal,
      (if (Py.pnot (Py.isInstance v "str")).truthy then PyVal.bool false
        else por (Py.ne v (.str "")) (Py.contains (.list [.str "matched", .str "explicit_deny"]) (.str reason))) =
      PyVal.bool (match v with
        | .str s => s != "" || reason == "matched" || reason == "explicit_deny"
        | _ => false) := by
    intro v
    cases v with
    | str s =>
      by_cases hs : s = ""
      · subst hs
        by_cases h1 : reason = "matched"
        · subst h1; rfl
        · by_cases h2 : reason = "explicit_deny"
          · subst h2; rfl
          · have e1 : (reason == "matched") = false := by simpa using h1
            have e2 : (reason == "explicit_deny") = false := by simpa using h2
            have e3 : ("matched" == reason) = false := by simpa using fun e => h1 e.symm
            have e4 : ("explicit_deny" == reason) = false := by simpa using fun e => h2 e.symm
            simp [Py.pnot, Py.isInstance, Py.ne, Py.contains, Py.iter, PyVal.isStr, PyVal.truthy, pyEq, por, e1, e2, e3, e4]
      · have e0 : (s == "") = false := by simpa using hs
        simp [Py.pnot, Py.isInstance, Py.ne, PyVal.isStr, PyVal.truthy, pyEq, por, e0, bne]
    | none => rfl
    | bool b => rfl
    | int n => rfl
    | float f => rfl
    | list l => rfl
    | dict d => rfl
    | dt a m => rfl
  cases lid <;> simp only [Py.isNone, PyVal.isNone, truthy_bool, Bool.false_eq_true, if_false, if_true] <;> exact key _

end Rbacx.Py
