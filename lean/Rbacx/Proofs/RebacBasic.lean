import Rbacx.Spec.Rebac
/-
  Rbacx.Proofs.RebacBasic — the model's building blocks (`_caveat_holds`, `_direct_allowed`,
  `_expand`) compute exactly the declarative notions of `Spec/Rebac.lean`.
-/
namespace Rbacx.Rebac

theorem caveatHolds_iff (reg : Registry) (t : RelTuple) : caveatHolds reg t = true ↔ CaveatSat reg t := by
  unfold caveatHolds CaveatSat
  cases hc : t.caveat with
  | none => simp
  | some c =>
    cases hr : reg c with
    | none => simp [hr]
    | some o =>
      cases o with
      | raises => simp [hr]
      | val b => cases b <;> simp [hr]

theorem directLoop_iff (reg : Registry) (s : String) (ts : List RelTuple) :
    directLoop reg s ts = true ↔ ∃ t ∈ ts, t.subject = s ∧ CaveatSat reg t := by
  induction ts with
  | nil => simp [directLoop]
  | cons t rest ih =>
    have hcs := caveatHolds_iff reg t
    unfold caveatHolds at hcs
    unfold directLoop
    by_cases hs : t.subject = s
    · simp only [bne_iff_ne, ne_eq, hs, not_true_eq_false, if_false, List.mem_cons, exists_eq_or_imp, true_and]
      cases hc : t.caveat with
      | none => simp only [hc] at hcs; simp [← hcs]
      | some c =>
        simp only [hc] at hcs ⊢
        cases hr : reg c with
        | none => simp only [hr] at hcs ⊢; rw [ih, ← hcs]; simp
        | some o =>
          cases o with
          | raises => simp only [hr] at hcs ⊢; rw [ih, ← hcs]; simp
          | val b =>
            simp only [hr] at hcs ⊢
            cases b with
            | true => simp [← hcs]
            | false => simp only [Bool.false_eq_true, if_false]; rw [ih, ← hcs]; simp
    · simp only [bne_iff_ne, ne_eq, hs, not_false_eq_true, if_true, List.mem_cons, exists_eq_or_imp, false_and,
        false_or]
      exact ih

theorem mem_directFor (tuples : List RelTuple) (rel obj : String) (t : RelTuple) :
    t ∈ directFor tuples rel obj ↔ t ∈ tuples ∧ t.resource = obj ∧ t.relation = rel := by
  simp [directFor, List.mem_filter]

theorem directAllowed_iff (cfg : Config) (n : Triple) : directAllowed cfg n = true ↔ DirectSat cfg n := by
  unfold directAllowed DirectSat
  rw [directLoop_iff]
  constructor
  · rintro ⟨t, ht, hs, hc⟩
    rw [mem_directFor] at ht
    exact ⟨t, ht.1, hs, ht.2.2, ht.2.1, hc⟩
  · rintro ⟨t, ht, hs, hr, ho, hc⟩
    exact ⟨t, (mem_directFor _ _ _ _).mpr ⟨ht, ho, hr⟩, hs, hc⟩

theorem mem_ttuTargets (cfg : Config) (s obj ts cu : String) (m : Triple) :
    m ∈ ttuTargets cfg s obj ts cu ↔
      ∃ t ∈ cfg.tuples, t.relation = ts ∧ t.resource = obj ∧ hasColon t.subject = true ∧ CaveatSat cfg.reg t ∧
        m = (s, cu, t.subject) := by
  unfold ttuTargets
  simp only [List.mem_map, List.mem_filter, mem_directFor, Bool.and_eq_true, caveatHolds_iff]
  constructor
  · rintro ⟨t, ⟨⟨ht, ho, hr⟩, hcol, hc⟩, rfl⟩
    exact ⟨t, ht, hr, ho, hcol, hc, rfl⟩
  · rintro ⟨t, ht, hr, ho, hcol, hc, rfl⟩
    exact ⟨t, ⟨⟨ht, ho, hr⟩, hcol, hc⟩, rfl⟩

mutual
theorem mem_expand_iff (cfg : Config) (s obj : String) (e : Expr) (m : Triple) :
    m ∈ expand cfg s obj e ↔ Rewrites cfg s obj e m := by
  cases e with
  | this => simp only [expand, List.not_mem_nil, false_iff]; intro h; cases h
  | other => simp only [expand, List.not_mem_nil, false_iff]; intro h; cases h
  | computed r =>
    simp only [expand, List.mem_singleton]
    constructor
    · rintro rfl; exact .computed r
    · intro h; cases h; rfl
  | ttu ts cu =>
    simp only [expand, mem_ttuTargets]
    constructor
    · rintro ⟨t, ht, hr, ho, hcol, hc, rfl⟩; exact .ttu ts cu t ht hr ho hcol hc
    · intro h
      cases h with
      | ttu _ _ t ht hr ho hcol hc => exact ⟨t, ht, hr, ho, hcol, hc, rfl⟩
  | union es =>
    simp only [expand]
    rw [mem_expandList_iff]
    constructor
    · rintro ⟨e, he, h⟩; exact .union es e m he h
    · intro h
      cases h with
      | union _ e _ he h => exact ⟨e, he, h⟩
theorem mem_expandList_iff (cfg : Config) (s obj : String) (es : List Expr) (m : Triple) :
    m ∈ expandList cfg s obj es ↔ ∃ e ∈ es, Rewrites cfg s obj e m := by
  cases es with
  | nil => simp [expandList]
  | cons e rest =>
    simp only [expandList, List.mem_append, List.mem_cons, exists_eq_or_imp]
    rw [mem_expand_iff, mem_expandList_iff]
end

theorem mem_successors_iff (cfg : Config) (n m : Triple) : m ∈ successors cfg n ↔ RewritesTo cfg n m := by
  unfold successors RewritesTo
  cases h : lookupExpr cfg.rules (splitRef n.2.2).1 n.2.1 with
  | none => simp
  | some e => simp [mem_expand_iff]

theorem mem_children_iff (cfg : Config) (n : Triple) (d : Nat) (x : Triple × Nat) :
    x ∈ children cfg n d ↔ RewritesTo cfg n x.1 ∧ x.2 = d + 1 := by
  unfold children
  simp only [List.mem_map, mem_successors_iff]
  constructor
  · rintro ⟨m, hm, rfl⟩; exact ⟨hm, rfl⟩
  · rintro ⟨hm, hd⟩; exact ⟨x.1, hm, by rw [← hd]⟩

/-! ### `Derivable` -/

theorem Derivable.mono {cfg : Config} {d d' : Nat} {n : Triple} (h : Derivable cfg d n) (hle : d ≤ d') :
    Derivable cfg d' n := by
  induction h generalizing d' with
  | direct hs => exact .direct hs
  | step hr _ ih =>
    cases d' with
    | zero => omega
    | succ k => exact .step hr (ih (by omega))

theorem derivable_zero_iff (cfg : Config) (n : Triple) : Derivable cfg 0 n ↔ DirectSat cfg n := by
  constructor
  · intro h; cases h with | direct hs => exact hs
  · exact .direct

theorem derivable_succ_iff (cfg : Config) (d : Nat) (n : Triple) :
    Derivable cfg (d + 1) n ↔ DirectSat cfg n ∨ ∃ m, RewritesTo cfg n m ∧ Derivable cfg d m := by
  constructor
  · intro h
    cases h with
    | direct hs => exact .inl hs
    | step hr hm => exact .inr ⟨_, hr, hm⟩
  · rintro (hs | ⟨m, hr, hm⟩)
    · exact .direct hs
    · exact .step hr hm

/-- the subject never changes along a rewrite step -/
theorem Rewrites.subject_eq {cfg : Config} {s obj : String} {e : Expr} {m : Triple}
    (h : Rewrites cfg s obj e m) : m.1 = s := by
  induction h with
  | computed r => rfl
  | ttu => rfl
  | union _ _ _ _ _ ih => exact ih

/-- derivability does not look at the limits -/
theorem Rewrites.congr {cfg cfg' : Config} (ht : cfg'.tuples = cfg.tuples) (hg : cfg'.reg = cfg.reg)
    {s obj : String} {e : Expr} {m : Triple} (h : Rewrites cfg s obj e m) : Rewrites cfg' s obj e m := by
  induction h with
  | computed r => exact .computed r
  | ttu ts cu t h1 h2 h3 h4 h5 => exact .ttu ts cu t (by rw [ht]; exact h1) h2 h3 h4 (by rw [hg]; exact h5)
  | union es e m he _ ih => exact .union es e m he ih

theorem Derivable.congr {cfg cfg' : Config} (ht : cfg'.tuples = cfg.tuples) (hr : cfg'.rules = cfg.rules)
    (hg : cfg'.reg = cfg.reg) {d : Nat} {n : Triple} (h : Derivable cfg d n) : Derivable cfg' d n := by
  induction h with
  | direct hs =>
    obtain ⟨t, h1, h2, h3, h4, h5⟩ := hs
    exact .direct ⟨t, by rw [ht]; exact h1, h2, h3, h4, by rw [hg]; exact h5⟩
  | step hrw _ ih =>
    obtain ⟨e, he, hrw⟩ := hrw
    exact .step ⟨e, by rw [hr]; exact he, hrw.congr ht hg⟩ ih

/-! ### `_split_ref` and registries applied to a context -/

theorem beforeColon_append (a b : List Char) (h : ':' ∉ a) : beforeColon (a ++ ':' :: b) = a := by
  induction a with
  | nil => simp [beforeColon]
  | cons c cs ih =>
    have hc : c ≠ ':' := fun e => h (by simp [e])
    have hcs : ':' ∉ cs := fun e => h (List.mem_cons_of_mem _ e)
    simp [beforeColon, hc, ih hcs]

theorem afterColon_append (a b : List Char) (h : ':' ∉ a) : afterColon (a ++ ':' :: b) = b := by
  induction a with
  | nil => simp [afterColon]
  | cons c cs ih =>
    have hc : c ≠ ':' := fun e => h (by simp [e])
    have hcs : ':' ∉ cs := fun e => h (List.mem_cons_of_mem _ e)
    simp [afterColon, hc, ih hcs]

/-- `_split_ref("type:id") = ("type", "id")` where `type` has no colon (the id may) -/
theorem splitRef_typed (ty i : String) (h : ':' ∉ ty.toList) : splitRef (ty ++ ":" ++ i) = (ty, i) := by
  have hl : (ty ++ ":" ++ i).toList = ty.toList ++ ':' :: i.toList := by
    simp [String.toList_append]
  unfold splitRef hasColon
  rw [hl, beforeColon_append _ _ h, afterColon_append _ _ h]
  simp

/-- `_split_ref("id") = ("user", "id")` when there is no colon -/
theorem splitRef_bare (s : String) (h : ':' ∉ s.toList) : splitRef s = ("user", s) := by
  unfold splitRef hasColon
  simp [h]

theorem caveatSat_ofPreds {Ctx : Type} (preds : String → Option (Ctx → Option Bool)) (ctx : Ctx) (t : RelTuple) :
    CaveatSat (Registry.ofPreds preds ctx) t ↔
      t.caveat = none ∨ ∃ c p, t.caveat = some c ∧ preds c = some p ∧ p ctx = some true := by
  unfold CaveatSat Registry.ofPreds
  constructor
  · rintro (h | ⟨c, hc, h⟩)
    · exact .inl h
    · right
      cases hp : preds c with
      | none => simp [hp] at h
      | some p =>
        refine ⟨c, p, hc, hp, ?_⟩
        simp only [hp] at h
        cases hpc : p ctx with
        | none => simp [hpc] at h
        | some b => simp [hpc] at h; rw [h]
  · rintro (h | ⟨c, p, hc, hp, hpc⟩)
    · exact .inl h
    · exact .inr ⟨c, hc, by simp [hp, hpc]⟩

end Rbacx.Rebac
