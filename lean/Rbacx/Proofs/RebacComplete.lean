import Rbacx.Proofs.RebacSound
/-
  Rbacx.Proofs.RebacComplete — completeness of the BFS when neither the node limit nor the deadline
  stops it: if the queue runs empty, the query is not derivable within `max_depth`.

  The argument is the classical BFS one.  Ghost state: the `seen` set annotated with the depth at
  which each node was first dequeued (`sd`).  Invariant (`Inv`): queue depths are non-decreasing and
  span at most two consecutive values; every first-visit depth is ≤ every queued depth (so a node
  is first visited at its minimal depth and `seen`-pruning loses nothing); every visited node within
  `max_depth` has no satisfied direct tuple and each of its rewrite successors is either already
  visited (at depth ≤ its own + 1) or still queued.  At exhaustion the visited set is closed under
  rewriting within the depth bound and contains no directly satisfied node, hence no derivation.
-/
namespace Rbacx.Rebac

/-- proof-only invariant of the BFS loop; `sd` is the `seen` set annotated with first-visit depths -/
structure Inv (cfg : Config) (queue sd : List (Triple × Nat)) : Prop where
  sorted : queue.Pairwise (fun a b => a.2 ≤ b.2)
  bounded : ∀ a ∈ queue, ∀ b ∈ queue, b.2 ≤ a.2 + 1
  below : ∀ a ∈ sd, ∀ b ∈ queue, a.2 ≤ b.2
  closed : ∀ a ∈ sd, (a.2 : Int) ≤ cfg.maxDepth →
    ¬ DirectSat cfg a.1 ∧
    ∀ m, RewritesTo cfg a.1 m → (∃ d', d' ≤ a.2 + 1 ∧ (m, d') ∈ sd) ∨ (m, a.2 + 1) ∈ queue

/-- the visited set at exhaustion: closed under rewriting within the depth bound, nothing satisfied -/
def Closed (cfg : Config) (sd : List (Triple × Nat)) : Prop :=
  ∀ a ∈ sd, (a.2 : Int) ≤ cfg.maxDepth →
    ¬ DirectSat cfg a.1 ∧ ∀ m, RewritesTo cfg a.1 m → ∃ d', d' ≤ a.2 + 1 ∧ (m, d') ∈ sd

theorem Inv.init (cfg : Config) (q : Triple) : Inv cfg [(q, 0)] [] where
  sorted := List.pairwise_singleton _ _
  bounded := by
    intro a ha b hb
    rw [List.mem_singleton] at ha hb
    subst ha hb; omega
  below := by intro a ha; cases ha
  closed := by intro a ha; cases ha

theorem Inv.done {cfg : Config} {sd : List (Triple × Nat)} (h : Inv cfg [] sd) : Closed cfg sd := by
  intro a ha hd
  obtain ⟨h1, h2⟩ := h.closed a ha hd
  refine ⟨h1, fun m hm => ?_⟩
  rcases h2 m hm with h3 | h3
  · exact h3
  · cases h3

/-- head already seen: drop it -/
theorem Inv.pop_seen {cfg : Config} {n : Triple} {d d0 : Nat} {rest sd : List (Triple × Nat)}
    (h : Inv cfg ((n, d) :: rest) sd) (h0 : (n, d0) ∈ sd) : Inv cfg rest sd where
  sorted := (List.pairwise_cons.mp h.sorted).2
  bounded := fun a ha b hb => h.bounded a (List.mem_cons_of_mem _ ha) b (List.mem_cons_of_mem _ hb)
  below := fun a ha b hb => h.below a ha b (List.mem_cons_of_mem _ hb)
  closed := by
    intro a ha hd
    obtain ⟨h1, h2⟩ := h.closed a ha hd
    refine ⟨h1, fun m hm => ?_⟩
    rcases h2 m hm with h3 | h3
    · exact .inl h3
    · rcases List.mem_cons.mp h3 with h4 | h4
      · left
        have hm : m = n := congrArg Prod.fst h4
        have hdd : a.2 + 1 = d := congrArg Prod.snd h4
        have := h.below (n, d0) h0 (n, d) List.mem_cons_self
        exact ⟨d0, by simp only at this; omega, by rw [hm]; exact h0⟩
      · exact .inr h4

/-- a fresh head that is not expanded because it is deeper than `max_depth` -/
theorem Inv.pop_deep {cfg : Config} {n : Triple} {d : Nat} {rest sd : List (Triple × Nat)}
    (h : Inv cfg ((n, d) :: rest) sd) (hd : (d : Int) > cfg.maxDepth) : Inv cfg rest ((n, d) :: sd) where
  sorted := (List.pairwise_cons.mp h.sorted).2
  bounded := fun a ha b hb => h.bounded a (List.mem_cons_of_mem _ ha) b (List.mem_cons_of_mem _ hb)
  below := by
    intro a ha b hb
    rcases List.mem_cons.mp ha with ha | ha
    · subst ha; exact (List.pairwise_cons.mp h.sorted).1 b hb
    · exact h.below a ha b (List.mem_cons_of_mem _ hb)
  closed := by
    intro a ha hda
    rcases List.mem_cons.mp ha with ha | ha
    · subst ha; simp only at hda; omega
    · obtain ⟨h1, h2⟩ := h.closed a ha hda
      refine ⟨h1, fun m hm => ?_⟩
      rcases h2 m hm with ⟨d', hd', h3⟩ | h3
      · exact .inl ⟨d', hd', List.mem_cons_of_mem _ h3⟩
      · rcases List.mem_cons.mp h3 with h4 | h4
        · exact .inl ⟨a.2 + 1, Nat.le_refl _, by rw [h4]; exact List.mem_cons_self⟩
        · exact .inr h4

/-- a fresh head within depth, not directly satisfied: its children go to the back of the queue -/
theorem Inv.pop_expand {cfg : Config} {n : Triple} {d : Nat} {rest sd : List (Triple × Nat)}
    (h : Inv cfg ((n, d) :: rest) sd) (hns : ¬ DirectSat cfg n) :
    Inv cfg (rest ++ children cfg n d) ((n, d) :: sd) := by
  have hlo : ∀ b ∈ rest, d ≤ b.2 := (List.pairwise_cons.mp h.sorted).1
  have hhi : ∀ b ∈ rest, b.2 ≤ d + 1 := fun b hb =>
    h.bounded (n, d) List.mem_cons_self b (List.mem_cons_of_mem _ hb)
  have hch : ∀ b ∈ children cfg n d, b.2 = d + 1 := fun b hb => ((mem_children_iff cfg n d b).mp hb).2
  have hrange : ∀ b ∈ rest ++ children cfg n d, d ≤ b.2 ∧ b.2 ≤ d + 1 := by
    intro b hb
    rcases List.mem_append.mp hb with hb | hb
    · exact ⟨hlo b hb, hhi b hb⟩
    · have := hch b hb; omega
  refine ⟨?_, ?_, ?_, ?_⟩
  · rw [List.pairwise_append]
    refine ⟨(List.pairwise_cons.mp h.sorted).2, ?_, ?_⟩
    · apply List.Pairwise.imp_of_mem (R := fun _ _ => True)
      · intro a b ha hb _
        have := hch a ha; have := hch b hb; omega
      · exact List.pairwise_of_forall (fun _ _ => trivial)
    · intro a ha b hb
      have := hhi a ha; have := hch b hb; omega
  · intro a ha b hb
    have := hrange a ha; have := hrange b hb; omega
  · intro a ha b hb
    have hb' := hrange b hb
    rcases List.mem_cons.mp ha with ha | ha
    · subst ha; exact hb'.1
    · have := h.below a ha (n, d) List.mem_cons_self
      simp only at this; omega
  · intro a ha hda
    rcases List.mem_cons.mp ha with ha | ha
    · subst ha
      refine ⟨hns, fun m hm => .inr ?_⟩
      exact List.mem_append_right _ ((mem_children_iff cfg n d (m, d + 1)).mpr ⟨hm, rfl⟩)
    · obtain ⟨h1, h2⟩ := h.closed a ha hda
      refine ⟨h1, fun m hm => ?_⟩
      rcases h2 m hm with ⟨d', hd', h3⟩ | h3
      · exact .inl ⟨d', hd', List.mem_cons_of_mem _ h3⟩
      · rcases List.mem_cons.mp h3 with h4 | h4
        · exact .inl ⟨a.2 + 1, Nat.le_refl _, by rw [h4]; exact List.mem_cons_self⟩
        · exact .inr (List.mem_append_left _ h4)

theorem bfs_exhausted (cfg : Config) (dl : Nat → Bool) (queue : List (Triple × Nat)) (seen : List Triple)
    (visits ticks : Nat) :
    ∀ sd : List (Triple × Nat), seen = sd.map Prod.fst → Inv cfg queue sd →
      bfs cfg dl queue seen visits ticks = .exhausted →
      ∃ sdf : List (Triple × Nat), (∀ a ∈ sd, a ∈ sdf) ∧ (∀ b ∈ queue, ∃ d', d' ≤ b.2 ∧ (b.1, d') ∈ sdf) ∧
        Closed cfg sdf := by
  fun_induction bfs cfg dl queue seen visits ticks with
  | case1 =>
    intro sd _ hinv _
    exact ⟨sd, fun a ha => ha, fun b hb => (by cases hb), hinv.done⟩
  | case2 seen _ _ n depth rest hseen ih =>
    intro sd hsd hinv hres
    have hn : n ∈ sd.map Prod.fst := by rw [← hsd]; exact List.contains_iff_mem.mp hseen
    obtain ⟨⟨n', d0⟩, h0, hn'⟩ := List.mem_map.mp hn
    simp only at hn'; subst hn'
    obtain ⟨sdf, h1, h2, h3⟩ := ih sd hsd (hinv.pop_seen h0) hres
    refine ⟨sdf, h1, fun b hb => ?_, h3⟩
    rcases List.mem_cons.mp hb with hb | hb
    · subst hb
      have := hinv.below (n', d0) h0 (n', depth) List.mem_cons_self
      exact ⟨d0, this, h1 _ h0⟩
    · exact h2 b hb
  | case3 => intro sd _ _ hres; cases hres
  | case4 seen _ _ n depth rest _ _ hdeep ih =>
    intro sd hsd hinv hres
    obtain ⟨sdf, h1, h2, h3⟩ := ih ((n, depth) :: sd) (by rw [hsd]; rfl) (hinv.pop_deep hdeep) hres
    refine ⟨sdf, fun a ha => h1 a (List.mem_cons_of_mem _ ha), fun b hb => ?_, h3⟩
    rcases List.mem_cons.mp hb with hb | hb
    · subst hb; exact ⟨depth, Nat.le_refl _, h1 _ List.mem_cons_self⟩
    · exact h2 b hb
  | case5 => intro sd _ _ hres; cases hres
  | case6 => intro sd _ _ hres; cases hres
  | case7 seen _ _ n depth rest _ _ _ _ hdir ih =>
    intro sd hsd hinv hres
    have hns : ¬ DirectSat cfg n := fun hs => hdir ((directAllowed_iff cfg n).mpr hs)
    obtain ⟨sdf, h1, h2, h3⟩ := ih ((n, depth) :: sd) (by rw [hsd]; rfl) (hinv.pop_expand hns) hres
    refine ⟨sdf, fun a ha => h1 a (List.mem_cons_of_mem _ ha), fun b hb => ?_, h3⟩
    rcases List.mem_cons.mp hb with hb | hb
    · subst hb; exact ⟨depth, Nat.le_refl _, h1 _ List.mem_cons_self⟩
    · exact h2 b (List.mem_append_left _ hb)

theorem Closed.not_derivable {cfg : Config} {sd : List (Triple × Nat)} (hc : Closed cfg sd) :
    ∀ (k : Nat) (a : Triple × Nat), a ∈ sd → ((a.2 + k : Nat) : Int) ≤ cfg.maxDepth → ¬ Derivable cfg k a.1 := by
  intro k
  induction k with
  | zero =>
    intro a ha hd hder
    exact (hc a ha (by omega)).1 ((derivable_zero_iff cfg a.1).mp hder)
  | succ k ih =>
    intro a ha hd hder
    obtain ⟨h1, h2⟩ := hc a ha (by omega)
    rcases (derivable_succ_iff cfg k a.1).mp hder with hs | ⟨m, hm, hk⟩
    · exact h1 hs
    · obtain ⟨d', hd', hmem⟩ := h2 m hm
      exact ih (m, d') hmem (by simp only; omega) hk

/-- the queue ran empty ⇒ the query is not derivable within `max_depth` -/
theorem check_exhausted_not_derivable (cfg : Config) (dl : Nat → Bool) (q : Triple)
    (h : checkOutcome cfg dl q = .exhausted) : ¬ DerivableWithin cfg q := by
  unfold checkOutcome at h
  obtain ⟨sdf, _, h2, h3⟩ := bfs_exhausted cfg dl [(q, 0)] [] 0 0 [] rfl (Inv.init cfg q) h
  obtain ⟨d', hd', hmem⟩ := h2 (q, 0) List.mem_cons_self
  have hd0 : d' = 0 := by simp only at hd'; omega
  subst hd0
  rintro ⟨d, hd, hder⟩
  exact h3.not_derivable d (q, 0) hmem (by simp only; omega) hder

end Rbacx.Rebac
