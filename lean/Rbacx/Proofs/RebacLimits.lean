import Rbacx.Proofs.RebacComplete
/-
  Rbacx.Proofs.RebacLimits — what the limits, the clock and the caveat registry can and cannot do to
  a `check` call, and `batch_check`.
-/
namespace Rbacx.Rebac

/-! ### the run depends on the store/registry only through `directAllowed` and `children` -/

theorem bfs_congr (cfg cfg' : Config) (dl : Nat → Bool)
    (hd : ∀ n, directAllowed cfg' n = directAllowed cfg n)
    (hc : ∀ n d, children cfg' n d = children cfg n d)
    (hmd : cfg'.maxDepth = cfg.maxDepth) (hmn : cfg'.maxNodes = cfg.maxNodes)
    (queue : List (Triple × Nat)) (seen : List Triple) (visits ticks : Nat) :
    bfs cfg' dl queue seen visits ticks = bfs cfg dl queue seen visits ticks := by
  fun_induction bfs cfg dl queue seen visits ticks with
  | case1 => rw [bfs]
  | case2 _ _ _ n depth rest h ih => rw [bfs]; simp only [h, ↓reduceIte]; exact ih
  | case3 _ _ _ n depth rest h1 h2 => rw [bfs]; simp only [h1, hmn, h2, Bool.false_eq_true, ↓reduceIte]
  | case4 _ _ _ n depth rest h1 h2 h3 ih =>
    rw [bfs]; simp only [h1, hmn, hmd, h2, h3, Bool.false_eq_true, ↓reduceIte]; exact ih
  | case5 _ _ _ n depth rest h1 h2 h3 h4 =>
    rw [bfs]; simp only [h1, hmn, hmd, h2, h3, h4, Bool.false_eq_true, ↓reduceIte]
  | case6 _ _ _ n depth rest h1 h2 h3 h4 h5 =>
    rw [bfs]; simp only [h1, hmn, hmd, h2, h3, h4, hd, h5, Bool.false_eq_true, ↓reduceIte]
  | case7 _ _ _ n depth rest h1 h2 h3 h4 h5 ih =>
    rw [bfs]; simp only [h1, hmn, hmd, h2, h3, h4, hd, h5, hc, Bool.false_eq_true, ↓reduceIte]; exact ih

/-! ### unsatisfied caveats are inert: the run is the run on the store without those tuples -/

/-- the store with every tuple whose caveat is unknown / raising / false removed -/
def pruned (cfg : Config) : Config := { cfg with tuples := cfg.tuples.filter (caveatHolds cfg.reg) }

theorem directLoop_filter (reg : Registry) (s : String) (ts : List RelTuple) :
    directLoop reg s (ts.filter (caveatHolds reg)) = directLoop reg s ts := by
  have key : ∀ b : Bool, b = directLoop reg s ts →
      (directLoop reg s (ts.filter (caveatHolds reg)) = true ↔ b = true) := by
    intro b hb
    subst hb
    rw [directLoop_iff, directLoop_iff]
    constructor
    · rintro ⟨t, ht, h1, h2⟩; exact ⟨t, (List.mem_filter.mp ht).1, h1, h2⟩
    · rintro ⟨t, ht, h1, h2⟩
      exact ⟨t, List.mem_filter.mpr ⟨ht, (caveatHolds_iff reg t).mpr h2⟩, h1, h2⟩
  have := key _ rfl
  cases h1 : directLoop reg s (ts.filter (caveatHolds reg)) <;> cases h2 : directLoop reg s ts <;> simp_all

theorem directFor_filter (p : RelTuple → Bool) (ts : List RelTuple) (rel obj : String) :
    directFor (ts.filter p) rel obj = (directFor ts rel obj).filter p := by
  unfold directFor
  rw [List.filter_filter, List.filter_filter]
  congr 1; funext t; exact Bool.and_comm _ _

theorem directAllowed_pruned (cfg : Config) (n : Triple) : directAllowed (pruned cfg) n = directAllowed cfg n := by
  unfold directAllowed pruned
  simp only [directFor_filter, directLoop_filter]

theorem ttuTargets_pruned (cfg : Config) (s obj ts cu : String) :
    ttuTargets (pruned cfg) s obj ts cu = ttuTargets cfg s obj ts cu := by
  unfold ttuTargets pruned
  simp only [directFor_filter, List.filter_filter]
  congr 2; funext t
  cases hasColon t.subject <;> cases caveatHolds cfg.reg t <;> rfl

mutual
theorem expand_pruned (cfg : Config) (s obj : String) (e : Expr) :
    expand (pruned cfg) s obj e = expand cfg s obj e := by
  cases e with
  | this => simp only [expand]
  | other => simp only [expand]
  | computed r => simp only [expand]
  | ttu ts cu => simp only [expand, ttuTargets_pruned]
  | union es => simp only [expand]; exact expandList_pruned cfg s obj es
theorem expandList_pruned (cfg : Config) (s obj : String) (es : List Expr) :
    expandList (pruned cfg) s obj es = expandList cfg s obj es := by
  cases es with
  | nil => simp only [expandList]
  | cons e rest => simp only [expandList]; rw [expand_pruned, expandList_pruned]
end

theorem children_pruned (cfg : Config) (n : Triple) (d : Nat) : children (pruned cfg) n d = children cfg n d := by
  unfold children successors
  have : (pruned cfg).rules = cfg.rules := rfl
  rw [this]
  cases lookupExpr cfg.rules (splitRef n.2.2).1 n.2.1 with
  | none => rfl
  | some e => simp only [expand_pruned]

theorem checkOutcome_pruned (cfg : Config) (dl : Nat → Bool) (q : Triple) :
    checkOutcome (pruned cfg) dl q = checkOutcome cfg dl q :=
  bfs_congr cfg (pruned cfg) dl (directAllowed_pruned cfg) (children_pruned cfg) rfl rfl _ _ _ _

theorem pruned_all_sat (cfg : Config) : ∀ t ∈ (pruned cfg).tuples, CaveatSat cfg.reg t := by
  intro t ht
  exact (caveatHolds_iff cfg.reg t).mp (List.mem_filter.mp ht).2

/-! ### the registry matters only through "registered and returned true" -/

/-- unknown, raising and false caveats all collapsed to "unregistered" -/
def collapseReg (reg : Registry) : Registry :=
  fun c => if reg c = some (.val true) then some (.val true) else none

theorem caveatHolds_collapse (reg : Registry) (t : RelTuple) :
    caveatHolds (collapseReg reg) t = caveatHolds reg t := by
  unfold caveatHolds collapseReg
  cases t.caveat with
  | none => rfl
  | some c =>
    simp only
    cases hr : reg c with
    | none => simp
    | some o =>
      cases o with
      | raises => simp
      | val b => cases b <;> simp

theorem directLoop_collapse (reg : Registry) (s : String) (ts : List RelTuple) :
    directLoop (collapseReg reg) s ts = directLoop reg s ts := by
  have key : directLoop (collapseReg reg) s ts = true ↔ directLoop reg s ts = true := by
    rw [directLoop_iff, directLoop_iff]
    simp only [← caveatHolds_iff, caveatHolds_collapse]
  cases h1 : directLoop (collapseReg reg) s ts <;> cases h2 : directLoop reg s ts <;> simp_all

/-- the configuration with the registry collapsed -/
def collapsed (cfg : Config) : Config := { cfg with reg := collapseReg cfg.reg }

theorem directAllowed_collapsed (cfg : Config) (n : Triple) :
    directAllowed (collapsed cfg) n = directAllowed cfg n := by
  unfold directAllowed collapsed
  simp only [directLoop_collapse]

theorem ttuTargets_collapsed (cfg : Config) (s obj ts cu : String) :
    ttuTargets (collapsed cfg) s obj ts cu = ttuTargets cfg s obj ts cu := by
  unfold ttuTargets collapsed
  simp only [caveatHolds_collapse]

mutual
theorem expand_collapsed (cfg : Config) (s obj : String) (e : Expr) :
    expand (collapsed cfg) s obj e = expand cfg s obj e := by
  cases e with
  | this => simp only [expand]
  | other => simp only [expand]
  | computed r => simp only [expand]
  | ttu ts cu => simp only [expand, ttuTargets_collapsed]
  | union es => simp only [expand]; exact expandList_collapsed cfg s obj es
theorem expandList_collapsed (cfg : Config) (s obj : String) (es : List Expr) :
    expandList (collapsed cfg) s obj es = expandList cfg s obj es := by
  cases es with
  | nil => simp only [expandList]
  | cons e rest => simp only [expandList]; rw [expand_collapsed, expandList_collapsed]
end

theorem children_collapsed (cfg : Config) (n : Triple) (d : Nat) :
    children (collapsed cfg) n d = children cfg n d := by
  unfold children successors
  have : (collapsed cfg).rules = cfg.rules := rfl
  rw [this]
  cases lookupExpr cfg.rules (splitRef n.2.2).1 n.2.1 with
  | none => rfl
  | some e => simp only [expand_collapsed]

theorem checkOutcome_collapsed (cfg : Config) (dl : Nat → Bool) (q : Triple) :
    checkOutcome (collapsed cfg) dl q = checkOutcome cfg dl q :=
  bfs_congr cfg (collapsed cfg) dl (directAllowed_collapsed cfg) (children_collapsed cfg) rfl rfl _ _ _ _

theorem collapseReg_congr (reg reg' : Registry)
    (h : ∀ c, reg c = some (.val true) ↔ reg' c = some (.val true)) : collapseReg reg = collapseReg reg' := by
  funext c
  unfold collapseReg
  by_cases h1 : reg c = some (.val true)
  · rw [if_pos h1, if_pos ((h c).mp h1)]
  · rw [if_neg h1, if_neg (fun h2 => h1 ((h c).mpr h2))]

/-! ### clocks and limits -/

theorem bfs_no_deadline (cfg : Config) (dl : Nat → Bool) (hdl : ∀ k, dl k = false)
    (queue : List (Triple × Nat)) (seen : List Triple) (visits ticks : Nat) :
    bfs cfg dl queue seen visits ticks ≠ .deadline := by
  fun_induction bfs cfg dl queue seen visits ticks with
  | case1 => intro h; cases h
  | case2 _ _ _ _ _ _ _ ih => exact ih
  | case3 => intro h; cases h
  | case4 _ _ _ _ _ _ _ _ _ ih => exact ih
  | case5 _ _ ticks _ _ _ _ _ _ h => rw [hdl ticks] at h; cases h
  | case6 => intro h; cases h
  | case7 _ _ _ _ _ _ _ _ _ _ _ ih => exact ih

/-- the loop never reports the node limit while `visits` stays below it; in particular a run that
    sees at most `max_nodes` distinct nodes is not cut.  (Used for the non-vacuity examples.) -/
theorem check_eq_toBool (cfg : Config) (dl : Nat → Bool) (q : Triple) :
    check cfg dl q = true ↔ checkOutcome cfg dl q = .found := by
  unfold check
  cases checkOutcome cfg dl q <;> simp [Outcome.toBool]

theorem check_maxNodes_nonpos (cfg : Config) (dl : Nat → Bool) (q : Triple) (h : cfg.maxNodes ≤ 0) :
    checkOutcome cfg dl q = .nodeLimit := by
  unfold checkOutcome
  rw [bfs]
  have : ((0 + 1 : Nat) : Int) > cfg.maxNodes := by omega
  simp only [List.contains_nil, Bool.false_eq_true, ↓reduceIte]
  rw [if_pos this]

theorem check_maxDepth_neg (cfg : Config) (dl : Nat → Bool) (q : Triple) (h : cfg.maxDepth < 0) :
    check cfg dl q = false := by
  cases hc : check cfg dl q with
  | false => rfl
  | true =>
    obtain ⟨d, hd, _⟩ := check_sound cfg dl q hc
    omega

theorem check_deadline_first (cfg : Config) (dl : Nat → Bool) (q : Triple) (h : dl 0 = true) :
    check cfg dl q = false := by
  unfold check checkOutcome
  rw [bfs]
  simp only [List.contains_nil, Bool.false_eq_true, if_false]
  split
  · rfl
  · split
    · rw [bfs]; rfl
    · simp [Outcome.toBool]

/-! ### `batch_check` -/

theorem batchLoop_eq_map (chk : Nat → Triple → Bool) (chk0 : Triple → Bool) (hsame : ∀ j, chk j = chk0)
    (ks : List Triple) (memo : List (Triple × Bool)) (hmemo : ∀ k b, memo.lookup k = some b → b = chk0 k) :
    batchLoop chk ks memo = ks.map chk0 := by
  induction ks generalizing memo with
  | nil => rfl
  | cons k ks ih =>
    unfold batchLoop
    cases hl : memo.lookup k with
    | some b =>
      simp only [List.map_cons]
      rw [ih memo hmemo, hmemo k b hl]
    | none =>
      simp only [List.map_cons, hsame]
      rw [ih]
      intro k' b' hl'
      rw [List.lookup_cons] at hl'
      split at hl'
      · rename_i heq
        have : k' = k := by simpa using heq
        subst this
        exact (Option.some.inj hl').symm
      · exact hmemo k' b' hl'

theorem batchLoop_length (chk : Nat → Triple → Bool) (ks : List Triple) (memo : List (Triple × Bool)) :
    (batchLoop chk ks memo).length = ks.length := by
  induction ks generalizing memo with
  | nil => rfl
  | cons k ks ih =>
    unfold batchLoop
    split
    · simp only [List.length_cons, ih]
    · simp only [List.length_cons, ih]

/-- with per-call clocks: every answer of the batch is an individual `check` of that very triple
    under one of the batch's clocks -/
theorem batchLoop_each (chk : Nat → Triple → Bool) (ks : List Triple) (memo : List (Triple × Bool))
    (hmemo : ∀ k b, memo.lookup k = some b → ∃ j, b = chk j k) :
    ∀ p ∈ ks.zip (batchLoop chk ks memo), ∃ j, p.2 = chk j p.1 := by
  induction ks generalizing memo with
  | nil => intro p hp; simp [batchLoop] at hp
  | cons k ks ih =>
    unfold batchLoop
    split
    · rename_i b hl
      intro p hp
      rw [List.zip_cons_cons, List.mem_cons] at hp
      rcases hp with rfl | hp
      · exact hmemo k b hl
      · exact ih memo hmemo p hp
    · intro p hp
      rw [List.zip_cons_cons, List.mem_cons] at hp
      rcases hp with rfl | hp
      · exact ⟨memo.length, rfl⟩
      · refine ih _ ?_ p hp
        intro k' b' hl'
        rw [List.lookup_cons] at hl'
        split at hl'
        · rename_i heq
          have : k' = k := by simpa using heq
          subst this
          exact ⟨memo.length, (Option.some.inj hl').symm⟩
        · exact hmemo k' b' hl'

end Rbacx.Rebac
