import Rbacx.Proofs.RebacBasic
/-
  Rbacx.Proofs.RebacSound — soundness of the BFS for every limit setting and every clock:
  every queue entry `(u, d)` is reachable from the query in `d` rewrite steps, so a direct hit at a
  node of depth `d ≤ max_depth` is a derivation of the query of depth `d`.
-/
namespace Rbacx.Rebac

/-- every derivation from the queued node lifts to one from `q` that is `depth` steps longer -/
def Lifts (cfg : Config) (q : Triple) (x : Triple × Nat) : Prop :=
  ∀ k, Derivable cfg k x.1 → Derivable cfg (x.2 + k) q

theorem Lifts.root (cfg : Config) (q : Triple) : Lifts cfg q (q, 0) := by
  intro k h; simpa using h

theorem Lifts.child {cfg : Config} {q n : Triple} {d : Nat} (h : Lifts cfg q (n, d))
    {x : Triple × Nat} (hx : x ∈ children cfg n d) : Lifts cfg q x := by
  rw [mem_children_iff] at hx
  intro k hk
  have h1 : Derivable cfg (k + 1) n := .step hx.1 hk
  have h2 := h (k + 1) h1
  rw [hx.2]
  have : d + 1 + k = d + (k + 1) := by omega
  rw [this]; exact h2

theorem bfs_sound (cfg : Config) (dl : Nat → Bool) (q : Triple) (queue : List (Triple × Nat)) (seen : List Triple)
    (visits ticks : Nat) (hq : ∀ x ∈ queue, Lifts cfg q x) (h : bfs cfg dl queue seen visits ticks = .found) :
    ∃ d : Nat, (d : Int) ≤ cfg.maxDepth ∧ Derivable cfg d q := by
  fun_induction bfs cfg dl queue seen visits ticks with
  | case1 => cases h
  | case2 _ _ _ n depth rest _ ih => exact ih (fun x hx => hq x (List.mem_cons_of_mem _ hx)) h
  | case3 => cases h
  | case4 _ _ _ n depth rest _ _ _ ih => exact ih (fun x hx => hq x (List.mem_cons_of_mem _ hx)) h
  | case5 => cases h
  | case6 _ _ _ n depth rest _ _ hd _ hdir =>
    refine ⟨depth, by omega, ?_⟩
    have := hq (n, depth) List.mem_cons_self 0 (.direct ((directAllowed_iff cfg n).mp hdir))
    simpa using this
  | case7 _ _ _ n depth rest _ _ _ _ _ ih =>
    refine ih (fun x hx => ?_) h
    rcases List.mem_append.mp hx with hx | hx
    · exact hq x (List.mem_cons_of_mem _ hx)
    · exact (hq (n, depth) List.mem_cons_self).child hx

theorem check_sound (cfg : Config) (dl : Nat → Bool) (q : Triple) (h : check cfg dl q = true) :
    DerivableWithin cfg q := by
  unfold check at h
  have h' : checkOutcome cfg dl q = .found := by
    cases ho : checkOutcome cfg dl q <;> simp [ho, Outcome.toBool] at h ⊢
  unfold checkOutcome at h'
  exact bfs_sound cfg dl q _ _ _ _ (fun x hx => by
    rw [List.mem_singleton] at hx; subst hx; exact Lifts.root cfg q) h'

end Rbacx.Rebac
