import Rbacx.Proofs.RebacBasic
/-
  Rbacx.Proofs.RebacSpec — the executable spec `specDerivable` (what the driver evaluates on the
  implementation's answers) decides exactly the inductive `DerivableWithin`.
-/
namespace Rbacx.Rebac

theorem specCaveatOk_iff (reg : Registry) (t : RelTuple) : specCaveatOk reg t = true ↔ CaveatSat reg t := by
  unfold specCaveatOk CaveatSat
  cases hc : t.caveat with
  | none => simp
  | some c => simp

theorem specDirect_iff (cfg : Config) (n : Triple) : specDirect cfg n = true ↔ DirectSat cfg n := by
  unfold specDirect DirectSat
  simp only [List.any_eq_true, Bool.and_eq_true, beq_iff_eq, specCaveatOk_iff]
  constructor
  · rintro ⟨t, ht, ⟨⟨hs, hr⟩, ho⟩, hc⟩; exact ⟨t, ht, hs, hr, ho, hc⟩
  · rintro ⟨t, ht, hs, hr, ho, hc⟩; exact ⟨t, ht, ⟨⟨hs, hr⟩, ho⟩, hc⟩

mutual
theorem mem_specRewrite_iff (cfg : Config) (s obj : String) (e : Expr) (m : Triple) :
    m ∈ specRewrite cfg s obj e ↔ Rewrites cfg s obj e m := by
  cases e with
  | this => simp only [specRewrite, List.not_mem_nil, false_iff]; intro h; cases h
  | other => simp only [specRewrite, List.not_mem_nil, false_iff]; intro h; cases h
  | computed r =>
    simp only [specRewrite, List.mem_singleton]
    constructor
    · rintro rfl; exact .computed r
    · intro h; cases h; rfl
  | ttu ts cu =>
    simp only [specRewrite, List.mem_map, List.mem_filter, Bool.and_eq_true, beq_iff_eq, specCaveatOk_iff]
    constructor
    · rintro ⟨t, ⟨ht, ⟨⟨hr, ho⟩, hcol⟩, hc⟩, rfl⟩; exact .ttu ts cu t ht hr ho hcol hc
    · intro h
      cases h with
      | ttu _ _ t ht hr ho hcol hc => exact ⟨t, ⟨ht, ⟨⟨hr, ho⟩, hcol⟩, hc⟩, rfl⟩
  | union es =>
    simp only [specRewrite]
    rw [mem_specRewriteList_iff]
    constructor
    · rintro ⟨e, he, h⟩; exact .union es e m he h
    · intro h
      cases h with
      | union _ e _ he h => exact ⟨e, he, h⟩
theorem mem_specRewriteList_iff (cfg : Config) (s obj : String) (es : List Expr) (m : Triple) :
    m ∈ specRewriteList cfg s obj es ↔ ∃ e ∈ es, Rewrites cfg s obj e m := by
  cases es with
  | nil => simp [specRewriteList]
  | cons e rest =>
    simp only [specRewriteList, List.mem_append, List.mem_cons, exists_eq_or_imp]
    rw [mem_specRewrite_iff, mem_specRewriteList_iff]
end

theorem mem_specSucc_iff (cfg : Config) (n m : Triple) : m ∈ specSucc cfg n ↔ RewritesTo cfg n m := by
  unfold specSucc RewritesTo
  cases h : lookupExpr cfg.rules (splitRef n.2.2).1 n.2.1 with
  | none => simp
  | some e => simp [mem_specRewrite_iff]

theorem specSearch_iff (cfg : Config) (d : Nat) (front : List Triple) :
    specSearch cfg d front = true ↔ ∃ u ∈ front, Derivable cfg d u := by
  induction d generalizing front with
  | zero =>
    simp only [specSearch, List.any_eq_true, specDirect_iff, derivable_zero_iff]
  | succ d ih =>
    simp only [specSearch, Bool.or_eq_true, List.any_eq_true, specDirect_iff, ih, List.mem_eraseDups,
      List.mem_flatMap, mem_specSucc_iff, derivable_succ_iff]
    constructor
    · rintro (⟨u, hu, hs⟩ | ⟨m, ⟨u, hu, hr⟩, hm⟩)
      · exact ⟨u, hu, .inl hs⟩
      · exact ⟨u, hu, .inr ⟨m, hr, hm⟩⟩
    · rintro ⟨u, hu, hs | ⟨m, hr, hm⟩⟩
      · exact .inl ⟨u, hu, hs⟩
      · exact .inr ⟨m, ⟨u, hu, hr⟩, hm⟩

theorem specDerivable_iff (cfg : Config) (q : Triple) : specDerivable cfg q = true ↔ DerivableWithin cfg q := by
  unfold specDerivable DerivableWithin
  by_cases hneg : cfg.maxDepth < 0
  · simp only [hneg, if_true, Bool.false_eq_true, false_iff]
    rintro ⟨d, hd, _⟩; omega
  · simp only [hneg, if_false, specSearch_iff, List.mem_singleton, exists_eq_left]
    constructor
    · intro h; exact ⟨cfg.maxDepth.toNat, by omega, h⟩
    · rintro ⟨d, hd, h⟩; exact h.mono (by omega)

end Rbacx.Rebac
