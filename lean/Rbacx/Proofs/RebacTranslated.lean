import Rbacx.Model.Rebac
import Rbacx.Model.PyRebac
/-
  Rbacx.Proofs.RebacTranslated — library for the per-run obligation `Run/C12_translated.lean`: the typed translation of
  `rbacx/rebac/local.py` (harness/pytolean_rebac.py, meanings in Model/PyRebac.lean) against the hand-written model
  `Model/Rebac.lean`.

  * encodings of the model's values as the translation's (`encExpr`, `encRules`, `encReg`) and what the typed operations do on them;
  * the FUEL BOUND of the BFS: `fuelBound cfg = 2 + max_nodes⁺ · rulesWidth` body runs always suffice, because
    `|queue| + (max_nodes − visits)⁺ · rulesWidth` drops with every iteration that does not return (`whileRet_bfs`, a simulation
    lemma generic in the emitted `cond` / `body` and in the representation of the loop state);
  * the store index (`setdefault(k, []).append(t)` folded over the tuples gives, per key, the sub-list with that key);
  * the memo loop of `batch_check`.
  Nothing here mentions `Rbacx.Generated`.
-/
namespace Rbacx.Rebac
open Rbacx.PyR

/-! ### strings -/

theorem isInfix_singleton (c : Char) (l : List Char) : PyVal.isInfix [c] l = l.contains c := by
  induction l with
  | nil => simp [PyVal.isInfix]
  | cons x xs ih =>
    simp only [PyVal.isInfix, ih, List.contains_cons]
    cases h : x == c
    · have : (c == x) = false := by
        cases h2 : c == x
        · rfl
        · have := eq_of_beq h2; subst this; simp at h
      simp [List.isPrefixOf, this]
    · have := eq_of_beq h; subst this; simp [List.isPrefixOf]

/-- `":" in s` as the translation has it (`isIn ":" s`) is the model's `hasColon` -/
theorem isIn_colon (s : String) : (isIn ":" s : Bool) = hasColon s := by
  show PyVal.strContains s ":" = hasColon s
  unfold PyVal.strContains hasColon
  exact isInfix_singleton ':' s.toList

theorem beforeChar_colon (l : List Char) : beforeChar ':' l = beforeColon l := by
  induction l with
  | nil => rfl
  | cons x xs ih => simp [beforeChar, beforeColon, ih]

theorem afterChar_colon (l : List Char) : afterChar ':' l = afterColon l := by
  induction l with
  | nil => rfl
  | cons x xs ih => simp [afterChar, afterColon, ih]

theorem partitionChar_colon (s : String) (h : hasColon s = true) :
    (partitionChar s ':').1 = String.ofList (beforeColon s.toList) ∧ (partitionChar s ':').2.2 = String.ofList (afterColon s.toList) := by
  unfold hasColon at h
  have h' : ':' ∈ s.toList := by simpa using h
  simp [partitionChar, h', beforeChar_colon, afterChar_colon]

/-! ### userset expressions, rules, registry -/

mutual
/-- the Python object a model expression stands for (`This()`, `ComputedUserset(r)`, `TupleToUserset(ts, cu)`, a list, anything else) -/
def encExpr : Expr → Obj
  | .this => .inst "This" []
  | .computed r => .inst "ComputedUserset" [("relation", r)]
  | .ttu ts cu => .inst "TupleToUserset" [("tupleset", ts), ("computed_userset", cu)]
  | .union es => .list (encExprs es)
  | .other => .other
def encExprs : List Expr → List Obj
  | [] => []
  | e :: es => encExpr e :: encExprs es
end

theorem encExprs_eq_map (es : List Expr) : encExprs es = es.map encExpr := by
  induction es with
  | nil => rfl
  | cons e es ih => simp [encExprs, ih]

theorem isNone_encExpr (e : Expr) : (isNone (encExpr e) : Bool) = false := by
  cases e <;> rfl

/-- `rules: dict[str, dict[str, UsersetExpr]]` -/
def encRules (rules : Rules) : Dict String (Dict String Obj) :=
  ⟨rules.map fun p => (p.1, ⟨p.2.map fun q => (q.1, encExpr q.2)⟩)⟩

theorem lookup_map_snd {α β γ : Type} [BEq α] (f : β → γ) (k : α) (l : List (α × β)) :
    (l.map fun p => (p.1, f p.2)).lookup k = (l.lookup k).map f := by
  induction l with
  | nil => rfl
  | cons p l ih =>
    obtain ⟨a, b⟩ := p
    simp only [List.map_cons, List.lookup_cons]
    cases k == a <;> simp [ih]

/-- `(rules.get(obj_type) or {}).get(relation)` on encoded rules: the model's `lookupExpr`, `None` for "no rule" -/
theorem get_orEmpty_get_encRules (rules : Rules) (ty rel : String) :
    (get (orEmpty (get (encRules rules) ty : Option (Dict String Obj))) rel : Obj) = ((lookupExpr rules ty rel).map encExpr).getD Obj.none := by
  show (Dict.get? (orEmpty (Dict.get? (encRules rules) ty)) rel).getD Obj.none = _
  unfold lookupExpr
  simp only [Dict.get?, encRules]
  rw [lookup_map_snd (fun m : List (String × Expr) => (⟨m.map fun q => (q.1, encExpr q.2)⟩ : Dict String Obj))]
  cases h : List.lookup ty rules with
  | none => simp [orEmpty, OrEmpty.orEmpty, Dict.empty]
  | some m =>
    simp only [Option.map_some, orEmpty, OrEmpty.orEmpty]
    cases m with
    | nil => simp [Dict.empty]
    | cons q m =>
      simp only [List.map_cons, List.isEmpty_cons, Bool.false_eq_true, if_false]
      rw [← List.map_cons (f := fun q : String × Expr => (q.1, encExpr q.2)), lookup_map_snd encExpr]

/-- the model's registry as the translation's: `raises` / `val b` ↦ `raises` / `returns b` -/
def encReg (reg : Registry) : PyR.Registry := fun c =>
  (reg c).map fun o => match o with | .raises => CallOut.raises | .val b => CallOut.returns b

/-! ### `for` with `return` -/

theorem forRet_nil {α β : Type} (body : α → Option β) (rest : β) : forRet [] body rest = rest := rfl

theorem forRet_cons {α β : Type} (x : α) (xs : List α) (body : α → Option β) (rest : β) :
    forRet (x :: xs) body rest = match body x with | some v => v | none => forRet xs body rest := by
  unfold forRet
  simp only [List.findSome?_cons]
  cases body x <;> rfl

/-! ### the store index -/

theorem lookup_sdaEntries {κ α : Type} [BEq κ] [LawfulBEq κ] (k k' : κ) (x : α) (l : List (κ × List α)) :
    (Dict.sdaEntries k x l).lookup k' = if k' == k then some ((l.lookup k).getD [] ++ [x]) else l.lookup k' := by
  induction l with
  | nil =>
    simp only [Dict.sdaEntries, List.lookup_cons, List.lookup_nil, Option.getD_none, List.nil_append]
    cases k' == k <;> rfl
  | cons p l ih =>
    obtain ⟨a, b⟩ := p
    simp only [Dict.sdaEntries]
    by_cases hka : k = a
    · subst hka
      simp only [BEq.rfl, if_true, List.lookup_cons, Option.getD_some]
      cases k' == k <;> rfl
    · have hne : (k == a) = false := by simpa using hka
      simp only [hne, Bool.false_eq_true, if_false, List.lookup_cons, ih]
      by_cases hk'a : k' = a
      · subst hk'a
        have : (k' == k) = false := by simpa using fun h => hka h.symm
        simp [this]
      · have : (k' == a) = false := by simpa using hk'a
        simp [this]

/-- `for t in ts: index.setdefault(key(t), []).append(t)`: under each key the sub-list with that key, in order -/
theorem getD_index {κ α : Type} [BEq κ] [LawfulBEq κ] (key : α → κ) (ts : List α) (d : Dict κ (List α)) (k : κ) :
    Dict.getD (ts.foldl (fun d t => Dict.setdefaultAppend d (key t) t) d) k [] = Dict.getD d k [] ++ ts.filter fun t => key t == k := by
  induction ts generalizing d with
  | nil => simp
  | cons t ts ih =>
    simp only [List.foldl_cons, ih, List.filter_cons]
    simp only [Dict.getD, Dict.get?, Dict.setdefaultAppend, lookup_sdaEntries]
    by_cases h : k = key t
    · subst h; simp
    · have h1 : (k == key t) = false := by simpa using h
      have h2 : (key t == k) = false := by simpa using fun e => h e.symm
      simp [h1, h2]

/-! ### width of a rewrite, fuel bound -/

mutual
/-- how many nodes one `_expand` of the expression can yield on a store of `T` tuples -/
def width (T : Nat) : Expr → Nat
  | .this => 0
  | .computed _ => 1
  | .ttu _ _ => T
  | .union es => widthList T es
  | .other => 0
def widthList (T : Nat) : List Expr → Nat
  | [] => 0
  | e :: es => width T e + widthList T es
end

/-- the sum of the widths of all configured rewrites -/
def rulesWidth (T : Nat) (rules : Rules) : Nat :=
  (rules.map fun p => (p.2.map fun q => width T q.2).sum).sum

/-- a budget of loop-body runs that always suffices for `check` -/
def fuelBound (cfg : Config) : Nat := 2 + cfg.maxNodes.toNat * rulesWidth cfg.tuples.length cfg.rules

theorem directFor_length_le (tuples : List RelTuple) (rel obj : String) : (directFor tuples rel obj).length ≤ tuples.length :=
  List.length_filter_le _ _

mutual
theorem expand_length_le (cfg : Config) (s obj : String) (e : Expr) : (expand cfg s obj e).length ≤ width cfg.tuples.length e := by
  cases e with
  | this => simp [expand, width]
  | computed r => simp [expand, width]
  | ttu ts cu =>
    simp only [expand, width, ttuTargets, List.length_map]
    exact Nat.le_trans (List.length_filter_le _ _) (directFor_length_le _ _ _)
  | union es => simp only [expand, width]; exact expandList_length_le cfg s obj es
  | other => simp [expand, width]
theorem expandList_length_le (cfg : Config) (s obj : String) (es : List Expr) :
    (expandList cfg s obj es).length ≤ widthList cfg.tuples.length es := by
  cases es with
  | nil => simp [expandList, widthList]
  | cons e es =>
    simp only [expandList, widthList, List.length_append]
    have := expand_length_le cfg s obj e
    have := expandList_length_le cfg s obj es
    omega
end

theorem le_sum_of_lookup {α : Type} (f : α → Nat) (k : String) (l : List (String × α)) (v : α) (h : l.lookup k = some v) :
    f v ≤ (l.map fun q => f q.2).sum := by
  induction l with
  | nil => simp at h
  | cons p l ih =>
    obtain ⟨a, b⟩ := p
    simp only [List.lookup_cons] at h
    simp only [List.map_cons, List.sum_cons]
    cases hk : k == a
    · rw [hk] at h; have := ih h; omega
    · rw [hk] at h; cases h; omega

theorem width_le_rulesWidth (T : Nat) (rules : Rules) (ty rel : String) (e : Expr) (h : lookupExpr rules ty rel = some e) :
    width T e ≤ rulesWidth T rules := by
  unfold lookupExpr at h
  cases hm : rules.lookup ty with
  | none => simp [hm] at h
  | some m =>
    simp only [hm] at h
    have h1 := le_sum_of_lookup (width T) rel m e h
    have h2 := le_sum_of_lookup (fun m : List (String × Expr) => (m.map fun q => width T q.2).sum) ty rules m hm
    exact Nat.le_trans h1 h2

theorem children_length_le (cfg : Config) (n : Triple) (d : Nat) :
    (children cfg n d).length ≤ rulesWidth cfg.tuples.length cfg.rules := by
  simp only [children, List.length_map, successors]
  cases h : lookupExpr cfg.rules (splitRef n.2.2).1 n.2.1 with
  | none => simp
  | some e => exact Nat.le_trans (expand_length_le cfg n.1 n.2.2 e) (width_le_rulesWidth _ _ _ _ e h)

/-! ### the BFS loop -/

/-- the answer of a `while` loop that is followed by `return False` -/
def endBool {σ : Type} : LoopEnd Bool σ → Bool
  | .ret v => v
  | .done _ => false

/-- what drops with every iteration that does not return -/
def potential (cfg : Config) (queue : List (Triple × Nat)) (visits : Nat) : Nat :=
  queue.length + (cfg.maxNodes.toNat - visits) * rulesWidth cfg.tuples.length cfg.rules

/-- SIMULATION: a loop whose condition is "the queue is not empty" and whose body does, on the representation `enc ticks queue seen
    visits` of the model's loop state, what one unfolding of `Rebac.bfs` does, returns — within any budget above `potential` — the
    answer of `Rebac.bfs`.  Generic in the emitted `cond` / `body` and in `enc`. -/
theorem whileRet_bfs {σ : Type} (enc : Nat → List (Triple × Nat) → List Triple → Nat → σ)
    (cond : σ → Bool) (body : σ → Step Bool σ) (cfg : Config) (hit : Nat → Bool)
    (hcond : ∀ t q s v, cond (enc t q s v) = !q.isEmpty)
    (hbody : ∀ t n d rest s v, body (enc t ((n, d) :: rest) s v) =
      if s.contains n then .next (enc t rest s v)
      else if ((v + 1 : Nat) : Int) > cfg.maxNodes then .ret false
      else if (d : Int) > cfg.maxDepth then .next (enc t rest (n :: s) (v + 1))
      else if hit t then .ret false
      else if directAllowed cfg n then .ret true
      else .next (enc (t + 1) (rest ++ children cfg n d) (n :: s) (v + 1))) :
    ∀ (fuel : Nat) (q : List (Triple × Nat)) (s : List Triple) (v t : Nat), potential cfg q v < fuel →
      ∃ r, whileRet fuel (enc t q s v) cond body = some r ∧ endBool r = (bfs cfg hit q s v t).toBool := by
  intro fuel
  induction fuel with
  | zero => intro q s v t h; omega
  | succ k ih =>
    intro q s v t hpot
    cases q with
    | nil =>
      refine ⟨.done (enc t [] s v), ?_, ?_⟩
      · unfold whileRet; simp [hcond]
      · rw [bfs]; rfl
    | cons x rest =>
      obtain ⟨n, d⟩ := x
      unfold whileRet
      simp only [hcond, List.isEmpty_cons, Bool.not_false, if_true, hbody]
      rw [bfs]
      have hW := children_length_le cfg n d
      simp only [potential, List.length_cons] at hpot
      by_cases h1 : s.contains n = true
      · simp only [h1, if_true]
        exact ih rest s v t (by simp only [potential]; omega)
      · simp only [h1, Bool.false_eq_true, if_false]
        by_cases h2 : ((v + 1 : Nat) : Int) > cfg.maxNodes
        · simp only [h2, if_true]; exact ⟨_, rfl, rfl⟩
        · simp only [h2, if_false]
          have hk : cfg.maxNodes.toNat - v = (cfg.maxNodes.toNat - (v + 1)) + 1 := by omega
          rw [hk, Nat.succ_mul] at hpot
          by_cases h3 : (d : Int) > cfg.maxDepth
          · simp only [h3, if_true]
            exact ih rest (n :: s) (v + 1) t (by simp only [potential]; omega)
          · simp only [h3, if_false]
            by_cases h4 : hit t = true
            · simp only [h4, if_true]; exact ⟨_, rfl, rfl⟩
            · simp only [h4, Bool.false_eq_true, if_false]
              by_cases h5 : directAllowed cfg n = true
              · simp only [h5, if_true]; exact ⟨_, rfl, rfl⟩
              · simp only [h5, Bool.false_eq_true, if_false]
                exact ih _ (n :: s) (v + 1) (t + 1) (by simp only [potential, List.length_append]; omega)

/-- the same, in the form the obligation applies: `cond` / `body` are read off the emitted loop (`hw`) -/
theorem whileRet_bfs_elim {σ : Type} {P : Prop} (enc : Nat → List (Triple × Nat) → List Triple → Nat → σ)
    (cond : σ → Bool) (body : σ → Step Bool σ) (cfg : Config) (hit : Nat → Bool)
    (fuel : Nat) (q : List (Triple × Nat)) (s : List Triple) (v t : Nat) (w : Option (LoopEnd Bool σ))
    (hw : whileRet fuel (enc t q s v) cond body = w) (hpot : potential cfg q v < fuel)
    (hcond : ∀ t q s v, cond (enc t q s v) = !q.isEmpty)
    (hbody : ∀ t n d rest s v, body (enc t ((n, d) :: rest) s v) =
      if s.contains n then .next (enc t rest s v)
      else if ((v + 1 : Nat) : Int) > cfg.maxNodes then .ret false
      else if (d : Int) > cfg.maxDepth then .next (enc t rest (n :: s) (v + 1))
      else if hit t then .ret false
      else if directAllowed cfg n then .ret true
      else .next (enc (t + 1) (rest ++ children cfg n d) (n :: s) (v + 1)))
    (hk : ∀ r, w = some r → endBool r = (bfs cfg hit q s v t).toBool → P) : P := by
  obtain ⟨r, hr, hb⟩ := whileRet_bfs enc cond body cfg hit hcond hbody fuel q s v t hpot
  exact hk r (hw ▸ hr) hb

/-- the representation of the model's loop state in the translated `check`: `clk` (one reading before the loop), `visits`, the queue
    of `(subject, relation, resource, depth)`, the `seen` set -/
def encState (t : Nat) (q : List (Triple × Nat)) (s : List Triple) (v : Nat) :
    Nat × Int × List (String × String × String × Int) × PySet (String × String × String) :=
  (t + 1, (v : Int), q.map (fun x => (x.1.1, x.1.2.1, x.1.2.2, (x.2 : Int))), s)

theorem potential_init (cfg : Config) (q : Triple) : potential cfg [(q, 0)] 0 < fuelBound cfg := by
  simp [potential, fuelBound]

/-! ### `batch_check` -/

/-- the memo loop of the translation (a dict filled by `memo[key] = res`, an `out` list appended to, a call counter) next to the
    model's `batchLoop` (an association list consed to): same answers, as long as the two memos agree -/
theorem forState_batch (chk : Nat → Triple → Bool) (triples : List Triple) :
    ∀ (memo : Dict Triple Bool) (mm : List (Triple × Bool)) (out : List Bool) (calls : Nat),
      (∀ k, memo.get? k = mm.lookup k) → calls = mm.length →
      (forState triples (calls, memo, out) fun st x =>
        if (isIn x st.2.1 : Bool) then (st.1, st.2.1, st.2.2 ++ [Dict.getItem st.2.1 x])
        else (st.1 + 1, Dict.setItem st.2.1 x (chk st.1 x), st.2.2 ++ [chk st.1 x])).2.2 = out ++ batchLoop chk triples mm := by
  induction triples with
  | nil => intro memo mm out calls _ _; simp [forState, batchLoop]
  | cons x xs ih =>
    intro memo mm out calls hm hc
    simp only [forState, List.foldl_cons] at ih ⊢
    have hin : (isIn x memo : Bool) = (mm.lookup x).isSome := by
      show memo.hasKey x = _
      simp [Dict.hasKey, hm]
    simp only [hin]
    unfold batchLoop
    cases hl : mm.lookup x with
    | some b =>
      simp only [Option.isSome_some, if_true]
      rw [ih memo mm _ calls hm hc]
      simp [Dict.getItem, hm, hl]
    | none =>
      simp only [Option.isSome_none, Bool.false_eq_true, if_false]
      rw [ih (Dict.setItem memo x (chk calls x)) ((x, chk calls x) :: mm) _ (calls + 1) ?_ (by simp [hc])]
      · simp [hc]
      · intro k
        have hmx : memo.entries.lookup x = none := by have := hm x; simpa [Dict.get?, hl] using this
        simp only [Dict.get?, Dict.setItem, List.lookup_cons]
        have hset : ∀ (l : List (Triple × Bool)), l.lookup x = none →
            (Dict.setEntries x (chk calls x) l).lookup k = if k == x then some (chk calls x) else l.lookup k := by
          intro l
          induction l with
          | nil => intro _; simp only [Dict.setEntries, List.lookup_cons, List.lookup_nil]; cases k == x <;> rfl
          | cons p l ihl =>
            obtain ⟨a, b⟩ := p
            intro hnone
            simp only [List.lookup_cons] at hnone
            cases hxa : x == a
            · rw [hxa] at hnone
              simp only [Dict.setEntries, hxa, Bool.false_eq_true, if_false, List.lookup_cons, ihl hnone]
              by_cases hka : k = a
              · subst hka
                have : (k == x) = false := by
                  cases h : k == x
                  · rfl
                  · have := eq_of_beq h; subst this; simp at hxa
                simp [this]
              · have : (k == a) = false := by simpa using hka
                simp [this]
            · rw [hxa] at hnone; cases hnone
        rw [hset _ hmx]
        have := hm k
        simp only [Dict.get?] at this
        cases k == x <;> simp [this]

end Rbacx.Rebac

/-! ### the typed operations on concrete types (all by definition) -/
namespace Rbacx.PyR
theorem iter_list {α : Type} (xs : List α) : (iter xs : List α) = xs := rfl
theorem iter_obj_list (xs : List Obj) : (iter (Obj.list xs) : List Obj) = xs := rfl
theorem truthy_bool (b : Bool) : truthy b = b := rfl
theorem truthy_list {α : Type} (xs : List α) : truthy xs = !xs.isEmpty := rfl
theorem isNone_option {α : Type} (o : Option α) : (isNone o : Bool) = o.isNone := rfl
theorem get_registry_some (r : Registry) (c : String) : (get r (some c) : Option CallOut) = r c := rfl
theorem get_registry_none (r : Registry) : (get r (Option.none : Option String) : Option CallOut) = Option.none := rfl
theorem isIn_list {α : Type} [BEq α] (x : α) (xs : List α) : (isIn x xs : Bool) = xs.contains x := rfl
theorem orEmpty_some_dict {κ ν : Type} (d : Dict κ ν) : (orEmpty (some d) : Dict κ ν) = d := by
  obtain ⟨l⟩ := d
  cases l <;> rfl
theorem orEmpty_none_dict {κ ν : Type} : (orEmpty (Option.none : Option (Dict κ ν)) : Dict κ ν) = Dict.empty := rfl
theorem orEmpty_some_reg (r : Registry) : (orEmpty (some r) : Registry) = r := rfl
theorem orEmpty_none_reg : (orEmpty (Option.none : Option Registry) : Registry) = fun _ => Option.none := rfl
end Rbacx.PyR
