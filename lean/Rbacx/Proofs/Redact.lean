import Rbacx.Model.Redact
/-
  Rbacx.Proofs.Redact — lemmas about `_set_by_path` (model: `Redact.setParts`): leaf monotonicity,
  read-after-write, the characterisation of the no-op cases, no leak outside the path.
-/
namespace Rbacx
namespace Redact
open PyVal (lookup)

/-! ### assoc-list and list facts -/

theorem lookup_setKey_self (k : String) (c : PyVal) (kvs : List (String × PyVal)) :
    lookup k (setKey k c kvs) = some c := by
  induction kvs with
  | nil => simp [setKey, lookup]
  | cons e rest ih =>
    obtain ⟨k', w⟩ := e
    by_cases h : k' = k
    · simp [setKey, lookup, h]
    · simp [setKey, lookup, h, ih]

theorem anyLeaf_dict_nil (P : PyVal → Bool) : anyLeaf P (.dict []) = false := by
  simp [anyLeaf, anyLeafD]

theorem anyOtherD_le (P : PyVal → Bool) (k : String) (kvs : List (String × PyVal)) :
    anyOtherD P k kvs = true → anyLeafD P kvs = true := by
  induction kvs with
  | nil => simp [anyOtherD]
  | cons e rest ih =>
    obtain ⟨k', w⟩ := e
    by_cases h : k' = k
    · simp [anyOtherD, anyLeafD, h]; intro h'; exact Or.inr h'
    · simp only [anyOtherD, anyLeafD, h, if_false, Bool.or_eq_true]
      rintro (h' | h')
      · exact Or.inl h'
      · exact Or.inr (ih h')

theorem anyLeafD_setKey (P : PyVal → Bool) (k : String) (c : PyVal) (kvs : List (String × PyVal)) :
    anyLeafD P (setKey k c kvs) = true → anyLeaf P c = true ∨ anyOtherD P k kvs = true := by
  induction kvs with
  | nil => simp only [setKey, anyLeafD, Bool.or_false]; exact Or.inl
  | cons e rest ih =>
    obtain ⟨k', w⟩ := e
    by_cases h : k' = k
    · simp [setKey, anyLeafD, anyOtherD, h]
    · simp only [setKey, anyLeafD, anyOtherD, h, if_false, Bool.or_eq_true]
      rintro (h' | h')
      · exact Or.inr (Or.inl h')
      · rcases ih h' with h'' | h''
        · exact Or.inl h''
        · exact Or.inr (Or.inr h'')

theorem lookup_anyLeaf (P : PyVal → Bool) (k : String) (c : PyVal) (kvs : List (String × PyVal)) :
    lookup k kvs = some c → anyLeaf P c = true → anyLeafD P kvs = true := by
  induction kvs with
  | nil => simp [lookup]
  | cons e rest ih =>
    obtain ⟨k', w⟩ := e
    by_cases h : k' = k
    · simp only [lookup, h, if_true, Option.some.injEq, anyLeafD, Bool.or_eq_true]
      rintro rfl h'; exact Or.inl h'
    · simp only [lookup, h, if_false, anyLeafD, Bool.or_eq_true]
      intro h1 h2; exact Or.inr (ih h1 h2)

theorem anyOtherL_le (P : PyVal → Bool) (i : Nat) (xs : List PyVal) :
    anyOtherL P i xs = true → anyLeafL P xs = true := by
  induction xs generalizing i with
  | nil => simp [anyOtherL]
  | cons x xs ih =>
    cases i with
    | zero => simp only [anyOtherL, anyLeafL, Bool.or_eq_true]; exact Or.inr
    | succ i =>
      simp only [anyOtherL, anyLeafL, Bool.or_eq_true]
      rintro (h | h)
      · exact Or.inl h
      · exact Or.inr (ih i h)

theorem anyLeafL_set (P : PyVal → Bool) (xs : List PyVal) (i : Nat) (c : PyVal) :
    anyLeafL P (xs.set i c) = true → anyLeaf P c = true ∨ anyOtherL P i xs = true := by
  induction xs generalizing i with
  | nil => simp [anyLeafL]
  | cons x xs ih =>
    cases i with
    | zero => simp only [List.set, anyLeafL, anyOtherL, Bool.or_eq_true]; exact id
    | succ i =>
      simp only [List.set, anyLeafL, anyOtherL, Bool.or_eq_true]
      rintro (h | h)
      · exact Or.inr (Or.inl h)
      · rcases ih i h with h' | h'
        · exact Or.inl h'
        · exact Or.inr (Or.inr h')

theorem getElem?_anyLeaf (P : PyVal → Bool) (xs : List PyVal) (i : Nat) (c : PyVal) :
    xs[i]? = some c → anyLeaf P c = true → anyLeafL P xs = true := by
  induction xs generalizing i with
  | nil => simp
  | cons x xs ih =>
    cases i with
    | zero =>
      simp only [List.getElem?_cons_zero, Option.some.injEq, anyLeafL, Bool.or_eq_true]
      rintro rfl h; exact Or.inl h
    | succ i =>
      simp only [List.getElem?_cons_succ, anyLeafL, Bool.or_eq_true]
      intro h1 h2; exact Or.inr (ih i h1 h2)

theorem anyLeafL_append (P : PyVal → Bool) (xs ys : List PyVal) :
    anyLeafL P (xs ++ ys) = (anyLeafL P xs || anyLeafL P ys) := by
  induction xs with
  | nil => simp [anyLeafL]
  | cons x xs ih => simp [anyLeafL, ih, Bool.or_assoc]

theorem anyLeafL_replicate (P : PyVal → Bool) (n : Nat) :
    anyLeafL P (List.replicate n (.dict [])) = false := by
  induction n with
  | zero => simp [anyLeafL]
  | succ n ih => simp [List.replicate_succ, anyLeafL, anyLeaf, anyLeafD, ih]

theorem anyOtherL_append_replicate (P : PyVal → Bool) (i : Nat) (xs : List PyVal) (n : Nat) :
    anyOtherL P i (xs ++ List.replicate n (.dict [])) = anyOtherL P i xs := by
  induction xs generalizing i with
  | nil =>
    simp only [List.nil_append, anyOtherL]
    cases hb : anyOtherL P i (List.replicate n (.dict [])) with
    | false => rfl
    | true => have := anyOtherL_le P i _ hb; rw [anyLeafL_replicate] at this; exact this.symm
  | cons x xs ih =>
    cases i with
    | zero => simp [anyOtherL, anyLeafL_append, anyLeafL_replicate]
    | succ i => simp [anyOtherL, ih]

theorem anyLeafL_ensureSize (P : PyVal → Bool) (lst : List PyVal) (idx : Int) :
    anyLeafL P (ensureSize lst idx) = anyLeafL P lst := by
  unfold ensureSize; split
  · rfl
  · simp [anyLeafL_append, anyLeafL_replicate]

theorem anyOtherL_ensureSize (P : PyVal → Bool) (i : Nat) (lst : List PyVal) (idx : Int) :
    anyOtherL P i (ensureSize lst idx) = anyOtherL P i lst := by
  unfold ensureSize; split
  · rfl
  · exact anyOtherL_append_replicate P i lst _

theorem getElem?_ensureSize (lst : List PyVal) (idx : Int) (i : Nat) (c : PyVal) :
    (ensureSize lst idx)[i]? = some c → lst[i]? = some c ∨ c = .dict [] := by
  unfold ensureSize; split
  · exact Or.inl
  · intro h
    by_cases hi : i < lst.length
    · rw [List.getElem?_append_left hi] at h; exact Or.inl h
    · rw [List.getElem?_append_right (by omega)] at h
      rw [List.getElem?_replicate] at h
      split at h
      · exact Or.inr (by simpa using h.symm)
      · exact absurd h (by simp)

theorem length_ensureSize (lst : List PyVal) (idx : Int) :
    (ensureSize lst idx).length = if idx < 0 then lst.length else max lst.length (idx.toNat + 1) := by
  unfold ensureSize; split
  · rfl
  · simp only [List.length_append, List.length_replicate]; omega

/-- when the start-of-list guard passes, the normalised index is inside the (grown) list -/
theorem normIdx_lt (lst : List PyVal) (idx : Int) (h : ¬ idx < -(lst.length : Int)) :
    normIdx lst.length idx < (ensureSize lst idx).length := by
  rw [length_ensureSize]; unfold normIdx
  split <;> omega

theorem normIdx_ensureSize (lst : List PyVal) (idx : Int) :
    normIdx (ensureSize lst idx).length idx = normIdx lst.length idx := by
  rw [length_ensureSize]; unfold normIdx
  split <;> rfl

theorem guard_ensureSize (lst : List PyVal) (idx : Int) (h : ¬ idx < -(lst.length : Int)) :
    ¬ idx < -((ensureSize lst idx).length : Int) := by
  rw [length_ensureSize]; split <;> omega

/-! ### `setParts` -/

theorem anyLeaf_childDict_lookup (P : PyVal → Bool) (k : String) (kvs : List (String × PyVal)) :
    anyLeaf P (childDict (lookup k kvs)) = true → anyLeafD P kvs = true := by
  cases h : lookup k kvs with
  | none => simp [childDict, anyLeaf, anyLeafD]
  | some c =>
    cases c with
    | dict d => simp only [childDict]; exact lookup_anyLeaf P k _ kvs h
    | _ => simp [childDict, anyLeaf_dict_nil]

theorem anyLeaf_childDict_getElem? (P : PyVal → Bool) (xs : List PyVal) (i : Nat) :
    anyLeaf P (childDict xs[i]?) = true → anyLeafL P xs = true := by
  cases h : xs[i]? with
  | none => simp [childDict, anyLeaf, anyLeafD]
  | some c =>
    cases c with
    | dict d => simp only [childDict]; exact getElem?_anyLeaf P xs i _ h
    | _ => simp [childDict, anyLeaf_dict_nil]

theorem anyLeafL_childList_lookup (P : PyVal → Bool) (k : String) (kvs : List (String × PyVal)) :
    anyLeafL P (childList (lookup k kvs)) = true → anyLeafD P kvs = true := by
  cases h : lookup k kvs with
  | none => simp [childList, anyLeafL]
  | some c =>
    cases c with
    | list xs =>
      simp only [childList]; intro h'
      exact lookup_anyLeaf P k _ kvs h (by simpa [anyLeaf] using h')
    | _ => simp [childList, anyLeafL]

/-- **leaf monotonicity**: `_set_by_path` never introduces a leaf that was neither in the object nor in the
    written value (created nodes are empty containers; everything else is moved or dropped) -/
theorem anyLeaf_setParts (P : PyVal → Bool) (parts : List String) (o v : PyVal) :
    anyLeaf P (setParts parts o v) = true → anyLeaf P o = true ∨ anyLeaf P v = true := by
  induction parts generalizing o with
  | nil => simp only [setParts]; exact Or.inr
  | cons p rest ih =>
    cases o with
    | dict kvs =>
      simp only [setParts]
      cases hseg : parseSeg p with
      | invalid => exact Or.inl
      | key k =>
        simp only [anyLeaf]
        intro h
        rcases anyLeafD_setKey P k _ kvs h with h' | h'
        · rcases ih _ h' with h'' | h''
          · exact Or.inl (anyLeaf_childDict_lookup P k kvs h'')
          · exact Or.inr h''
        · exact Or.inl (anyOtherD_le P k kvs h')
      | index k idx =>
        simp only
        split
        · simp only [anyLeaf]
          intro h
          rcases anyLeafD_setKey P k _ kvs h with h' | h'
          · exact Or.inl (anyLeafL_childList_lookup P k kvs (by simpa [anyLeaf] using h'))
          · exact Or.inl (anyOtherD_le P k kvs h')
        · simp only [anyLeaf]
          intro h
          rcases anyLeafD_setKey P k _ kvs h with h' | h'
          · simp only [anyLeaf] at h'
            rcases anyLeafL_set P _ _ _ h' with h'' | h''
            · rcases ih _ h'' with h3 | h3
              · have := anyLeaf_childDict_getElem? P _ _ h3
                rw [anyLeafL_ensureSize] at this
                exact Or.inl (anyLeafL_childList_lookup P k kvs this)
              · exact Or.inr h3
            · have := anyOtherL_le P _ _ h''
              rw [anyLeafL_ensureSize] at this
              exact Or.inl (anyLeafL_childList_lookup P k kvs this)
          · exact Or.inl (anyOtherD_le P k kvs h')
    | _ => simp only [setParts]; exact Or.inl

/-- **read after write**: when the final assignment is reached, reading the same path yields the value -/
theorem getParts_setParts (parts : List String) (o v : PyVal) (h : lands parts o = true) :
    getParts parts (setParts parts o v) = some v := by
  induction parts generalizing o with
  | nil => rfl
  | cons p rest ih =>
    cases o with
    | dict kvs =>
      simp only [lands] at h
      simp only [setParts]
      cases hseg : parseSeg p with
      | invalid => simp [hseg] at h
      | key k =>
        simp only [hseg] at h
        simp only [getParts, hseg, lookup_setKey_self, Option.bind_some]
        exact ih _ h
      | index k idx =>
        simp only [hseg] at h
        split at h
        · exact absurd h (by simp)
        · rename_i hg
          simp only [hg, if_false, getParts, hseg, lookup_setKey_self, List.length_set]
          rw [if_neg (guard_ensureSize _ _ hg), normIdx_ensureSize]
          have hlt := normIdx_lt _ _ hg
          rw [List.getElem?_set_self hlt, Option.bind_some]
          exact ih _ h
    | _ => simp [lands] at h

/-- **the no-op cases, exactly**: when the final assignment is *not* reached the value is never written –
    the resulting object does not depend on it (it may still differ from the input: intermediates created,
    a non-list replaced by `[]`, a list grown, exactly as the Python code leaves them) -/
theorem setParts_not_lands (parts : List String) (o v v' : PyVal) (h : lands parts o = false) :
    setParts parts o v = setParts parts o v' := by
  induction parts generalizing o with
  | nil => simp [lands] at h
  | cons p rest ih =>
    cases o with
    | dict kvs =>
      simp only [lands] at h
      simp only [setParts]
      cases hseg : parseSeg p with
      | invalid => rfl
      | key k =>
        simp only [hseg] at h
        simp only [ih _ h]
      | index k idx =>
        simp only [hseg] at h
        split at h
        · rename_i hg; simp only [hg, if_true]
        · rename_i hg; simp only [hg, if_false, ih _ h]
    | _ => rfl

theorem childDict_isDict (c : Option PyVal) : ∃ d, childDict c = .dict d := by
  unfold childDict; split
  · exact ⟨_, rfl⟩
  · exact ⟨[], rfl⟩

/-- on a dict, a path of plain keys and non-negative indices always reaches its final assignment:
    non-dict intermediates are *replaced* by `{}`, missing ones created, short lists grown -/
theorem lands_of_stable (parts : List String) (kvs : List (String × PyVal))
    (h : parts.all stableSeg = true) : lands parts (.dict kvs) = true := by
  induction parts generalizing kvs with
  | nil => rfl
  | cons p rest ih =>
    simp only [List.all_cons, Bool.and_eq_true] at h
    simp only [lands]
    have hp := h.1
    unfold stableSeg at hp
    cases hseg : parseSeg p with
    | invalid => simp [hseg] at hp
    | key k =>
      obtain ⟨d, hd⟩ := childDict_isDict (lookup k kvs)
      simp only [hd]; exact ih d h.2
    | index k idx =>
      simp only [hseg, decide_eq_true_eq] at hp
      have hg : ¬ idx < -((childList (lookup k kvs)).length : Int) := by omega
      simp only [hg, if_false]
      obtain ⟨d, hd⟩ := childDict_isDict ((ensureSize (childList (lookup k kvs)) idx)[normIdx (childList (lookup k kvs)).length idx]?)
      simp only [hd]; exact ih d h.2

theorem leakOutside_dict_nil (P : PyVal → Bool) (parts : List String) :
    leakOutside P parts (.dict []) = false := by
  cases parts with
  | nil => rfl
  | cons p rest =>
    simp only [leakOutside]
    cases parseSeg p <;> simp [anyLeaf, anyLeafD, anyOtherD, lookup]

/-- **no leak (one path)**: when the final assignment is reached and the written value carries no `P`-leaf,
    every `P`-leaf of the result is a `P`-leaf the input had at a position *not under* the path -/
theorem anyLeaf_setParts_lands (P : PyVal → Bool) (parts : List String) (o v : PyVal)
    (hl : lands parts o = true) (hv : anyLeaf P v = false) :
    anyLeaf P (setParts parts o v) = true → leakOutside P parts o = true := by
  induction parts generalizing o with
  | nil => simp only [setParts, hv]; intro h; exact absurd h (by simp)
  | cons p rest ih =>
    cases o with
    | dict kvs =>
      simp only [lands] at hl
      simp only [setParts, leakOutside]
      cases hseg : parseSeg p with
      | invalid => simp [hseg] at hl
      | key k =>
        simp only [hseg] at hl
        simp only [anyLeaf, Bool.or_eq_true]
        intro h
        rcases anyLeafD_setKey P k _ kvs h with h' | h'
        · have h2 := ih _ hl h'
          right
          cases hlk : lookup k kvs with
          | none => rw [hlk] at h2; simp [childDict, leakOutside_dict_nil] at h2
          | some c =>
            rw [hlk] at h2
            cases c with
            | dict d => simpa [childDict] using h2
            | _ => simp [childDict, leakOutside_dict_nil] at h2
        · exact Or.inl h'
      | index k idx =>
        simp only [hseg] at hl
        split at hl
        · exact absurd hl (by simp)
        · rename_i hg
          simp only [hg, if_false, anyLeaf, Bool.or_eq_true]
          intro h
          rcases anyLeafD_setKey P k _ kvs h with h' | h'
          · right
            simp only [anyLeaf] at h'
            cases hlk : lookup k kvs with
            | none =>
              rw [hlk] at h' hl
              simp only [childList] at h' hl
              rcases anyLeafL_set P _ _ _ h' with h'' | h''
              · have h2 := ih _ hl h''
                cases hget : (ensureSize [] idx)[normIdx ([] : List PyVal).length idx]? with
                | none => rw [hget] at h2; simp [childDict, leakOutside_dict_nil] at h2
                | some c =>
                  rw [hget] at h2
                  rcases getElem?_ensureSize _ _ _ _ hget with h3 | h3
                  · simp at h3
                  · subst h3; simp [childDict, leakOutside_dict_nil] at h2
              · rw [anyOtherL_ensureSize] at h''; simp [anyOtherL] at h''
            | some c =>
              rw [hlk] at h' hl hg
              cases c with
              | list xs =>
                simp only [childList] at h' hl hg
                simp only [hg, if_false, Bool.or_eq_true]
                rcases anyLeafL_set P _ _ _ h' with h'' | h''
                · right
                  have h2 := ih _ hl h''
                  cases hget : (ensureSize xs idx)[normIdx xs.length idx]? with
                  | none => rw [hget] at h2; simp [childDict, leakOutside_dict_nil] at h2
                  | some c =>
                    rw [hget] at h2
                    rcases getElem?_ensureSize _ _ _ _ hget with h3 | h3
                    · rw [h3]
                      cases c with
                      | dict d => simpa [childDict] using h2
                      | _ => simp [childDict, leakOutside_dict_nil] at h2
                    · subst h3; simp [childDict, leakOutside_dict_nil] at h2
                · rw [anyOtherL_ensureSize] at h''; exact Or.inl h''
              | _ =>
                simp only [childList] at h' hl
                exfalso
                rcases anyLeafL_set P _ _ _ h' with h'' | h''
                · have h2 := ih _ hl h''
                  cases hget : (ensureSize [] idx)[normIdx ([] : List PyVal).length idx]? with
                  | none => rw [hget] at h2; simp [childDict, leakOutside_dict_nil] at h2
                  | some c =>
                    rw [hget] at h2
                    rcases getElem?_ensureSize _ _ _ _ hget with h3 | h3
                    · simp at h3
                    · subst h3; simp [childDict, leakOutside_dict_nil] at h2
                · rw [anyOtherL_ensureSize] at h''; simp [anyOtherL] at h''
          · exact Or.inl h'
    | _ => simp [lands] at hl

/-! ### `setByPath` (the split path) -/

theorem splitOnChar_ne_nil (sep : Char) (acc cs : List Char) : PyVal.splitOnChar sep acc cs ≠ [] := by
  induction cs generalizing acc with
  | nil => simp [PyVal.splitOnChar]
  | cons c cs ih =>
    simp only [PyVal.splitOnChar]
    split
    · simp
    · exact ih _

theorem splitStr_ne_nil (sep : Char) (s : String) : PyVal.splitStr sep s ≠ [] := by
  simp [PyVal.splitStr, splitOnChar_ne_nil]

theorem setByPath_eq (obj : PyVal) (path : String) (v : PyVal) :
    setByPath obj path v = setParts (PyVal.splitStr '.' path) obj v := by
  unfold setByPath
  split
  · rename_i h; exact absurd h (splitStr_ne_nil _ _)
  · rfl

theorem getByPath_eq (obj : PyVal) (path : String) :
    getByPath obj path = getParts (PyVal.splitStr '.' path) obj := by
  unfold getByPath
  split
  · rename_i h; exact absurd h (splitStr_ne_nil _ _)
  · rfl

theorem landsPath_eq (obj : PyVal) (path : String) :
    landsPath obj path = lands (PyVal.splitStr '.' path) obj := by
  unfold landsPath
  split
  · rename_i h; exact absurd h (splitStr_ne_nil _ _)
  · rfl

theorem leakOutsidePath_eq (P : PyVal → Bool) (obj : PyVal) (path : String) :
    leakOutsidePath P obj path = leakOutside P (PyVal.splitStr '.' path) obj := by
  unfold leakOutsidePath
  split
  · rename_i h; exact absurd h (splitStr_ne_nil _ _)
  · rfl

theorem setParts_dict (parts : List String) (kvs : List (String × PyVal)) (v : PyVal) (h : parts ≠ []) :
    ∃ kvs', setParts parts (.dict kvs) v = .dict kvs' := by
  cases parts with
  | nil => exact absurd rfl h
  | cons p rest =>
    simp only [setParts]
    cases parseSeg p with
    | invalid => exact ⟨_, rfl⟩
    | key k => exact ⟨_, rfl⟩
    | index k idx => simp only; split <;> exact ⟨_, rfl⟩

/-- a dict stays a dict -/
theorem setByPath_dict (kvs : List (String × PyVal)) (path : String) (v : PyVal) :
    ∃ kvs', setByPath (.dict kvs) path v = .dict kvs' := by
  rw [setByPath_eq]; exact setParts_dict _ _ _ (splitStr_ne_nil _ _)

/-! ### the write list of `apply_obligations` -/

theorem applyWrites_append (o : PyVal) (ws ws' : List (String × PyVal)) :
    applyWrites o (ws ++ ws') = applyWrites (applyWrites o ws) ws' := by
  simp [applyWrites, List.foldl_append]

theorem applyWrites_cons (o : PyVal) (w : String × PyVal) (ws : List (String × PyVal)) :
    applyWrites o (w :: ws) = applyWrites (setByPath o w.1 w.2) ws := rfl

/-- later (and earlier) writes never introduce a `P`-leaf that neither the object nor a placeholder had -/
theorem anyLeaf_applyWrites (P : PyVal → Bool) (ws : List (String × PyVal)) (o : PyVal) :
    anyLeaf P (applyWrites o ws) = true → anyLeaf P o = true ∨ ∃ w ∈ ws, anyLeaf P w.2 = true := by
  induction ws generalizing o with
  | nil => exact Or.inl
  | cons w ws ih =>
    rw [applyWrites_cons]
    intro h
    rcases ih _ h with h' | ⟨w', hw', h'⟩
    · rw [setByPath_eq] at h'
      rcases anyLeaf_setParts P _ _ _ h' with h'' | h''
      · exact Or.inl h''
      · exact Or.inr ⟨w, List.mem_cons_self, h''⟩
    · exact Or.inr ⟨w', List.mem_cons_of_mem _ hw', h'⟩

theorem applyWrites_dict (ws : List (String × PyVal)) (kvs : List (String × PyVal)) :
    ∃ kvs', applyWrites (.dict kvs) ws = .dict kvs' := by
  induction ws generalizing kvs with
  | nil => exact ⟨kvs, rfl⟩
  | cons w ws ih =>
    rw [applyWrites_cons]
    obtain ⟨k1, h1⟩ := setByPath_dict kvs w.1 w.2
    rw [h1]; exact ih k1

/-- when no spec raises, `apply_obligations` is the fold of `_set_by_path` over `allWrites` -/
theorem applySpecs_of_allWrites (specs : List PyVal) (ws : List (String × PyVal)) (o : PyVal)
    (h : allWrites specs = some ws) : applySpecs o specs = (applyWrites o ws, false) := by
  induction specs generalizing o ws with
  | nil => simp only [allWrites, Option.some.injEq] at h; subst h; rfl
  | cons ob rest ih =>
    simp only [allWrites] at h
    cases h1 : specWrites ob with
    | none => simp [h1] at h
    | some w1 =>
      cases h2 : allWrites rest with
      | none => simp [h1, h2] at h
      | some w2 =>
        simp only [h1, h2, Option.some.injEq] at h
        subst h
        simp only [applySpecs, h1, applyWrites_append]
        exact ih w2 _ h2

/-- a raise is exactly a spec that is not a mapping / whose `fields` cannot be iterated -/
theorem applySpecs_raised_iff (specs : List PyVal) (o : PyVal) :
    (applySpecs o specs).2 = true ↔ allWrites specs = none := by
  induction specs generalizing o with
  | nil => simp [applySpecs, allWrites]
  | cons ob rest ih =>
    simp only [applySpecs, allWrites]
    cases h1 : specWrites ob with
    | none => simp
    | some w1 =>
      simp only [ih]
      cases allWrites rest <;> simp
