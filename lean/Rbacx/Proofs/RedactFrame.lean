import Rbacx.Proofs.Redact
import Rbacx.Spec.Redact
/-
  Rbacx.Proofs.RedactFrame — two-path lemmas about `_set_by_path`:
  * a write along `q` preserves a successful read along a syntactically disjoint path `p`;
  * a write along `p` never moves a leaf out from under a path `q` of plain keys / non-negative indices.
-/
namespace Rbacx
namespace Redact
open PyVal (lookup)

theorem lookup_setKey_ne (k k2 : String) (c : PyVal) (kvs : List (String × PyVal)) (h : k ≠ k2) :
    lookup k2 (setKey k c kvs) = lookup k2 kvs := by
  induction kvs with
  | nil => simp [setKey, lookup, h]
  | cons e rest ih =>
    obtain ⟨k', w⟩ := e
    by_cases h1 : k' = k
    · subst h1; simp [setKey, lookup, h]
    · by_cases h2 : k' = k2
      · subst h2; simp [setKey, lookup, h1]
      · simp [setKey, lookup, h1, h2, ih]

/-- reading below a node that is not a dict fails unless the path is empty -/
theorem getParts_nondict (ps : List String) (c x : PyVal) (hc : ∀ d, c ≠ .dict d) (hps : ps ≠ []) :
    getParts ps c ≠ some x := by
  cases ps with
  | nil => exact absurd rfl hps
  | cons p rest =>
    cases c with
    | dict d => exact absurd rfl (hc d)
    | _ => simp [getParts]

theorem disjointParts_nil_left (q : List String) : disjointParts [] q = false := by
  cases q <;> rfl

/-- the step shared by the key/key and index/index cases: the child under the common position -/
theorem getParts_child (prest qrest : List String) (c v x : PyVal)
    (ih : ∀ (q : List String) (o : PyVal), disjointParts prest q = true → getParts prest o = some x →
      getParts prest (setParts q o v) = some x)
    (hd : disjointParts prest qrest = true) (hg : getParts prest c = some x) :
    getParts prest (setParts qrest (childDict (some c)) v) = some x := by
  cases c with
  | dict d => exact ih qrest _ hd hg
  | _ =>
    exfalso
    have hne : prest ≠ [] := by
      intro h; subst h; rw [disjointParts_nil_left] at hd; exact absurd hd (by simp)
    exact getParts_nondict prest _ x (by intro d; simp) hne hg

/-- **frame**: a write along `q` preserves every successful read along a disjoint path `p` -/
theorem getParts_setParts_disjoint (p q : List String) (o v x : PyVal)
    (hd : disjointParts p q = true) (hg : getParts p o = some x) :
    getParts p (setParts q o v) = some x := by
  induction p generalizing q o with
  | nil => rw [disjointParts_nil_left] at hd; exact absurd hd (by simp)
  | cons ps prest ih =>
    cases q with
    | nil => simp [disjointParts] at hd
    | cons qs qrest =>
      cases o with
      | dict kvs =>
        simp only [disjointParts] at hd
        simp only [getParts] at hg
        cases hp : parseSeg ps with
        | invalid => simp [hp] at hd
        | key a =>
          cases hq : parseSeg qs with
          | invalid => simpa [setParts, hq, getParts, hp] using hg
          | key b =>
            simp only [hp, hq] at hd hg
            by_cases hab : a = b
            · subst hab
              simp only [if_true] at hd
              cases hl : lookup a kvs with
              | none => simp [hl] at hg
              | some c =>
                simp only [hl, Option.bind_some] at hg
                simp only [setParts, hq, hl, getParts, hp, lookup_setKey_self, Option.bind_some]
                exact getParts_child prest qrest c v x ih hd hg
            · simp only [setParts, hq, getParts, hp, lookup_setKey_ne b a _ kvs (Ne.symm hab)]
              exact hg
          | index b j =>
            simp only [hp, hq, decide_eq_true_eq] at hd hg
            simp only [setParts, hq]
            split <;> simp only [getParts, hp, lookup_setKey_ne b a _ kvs (Ne.symm hd)] <;> exact hg
        | index a i =>
          cases hq : parseSeg qs with
          | invalid => simpa [setParts, hq, getParts, hp] using hg
          | key b =>
            simp only [hp, hq, decide_eq_true_eq] at hd hg
            simp only [setParts, hq, getParts, hp, lookup_setKey_ne b a _ kvs (Ne.symm hd)]
            exact hg
          | index b j =>
            simp only [hp, hq] at hd hg
            by_cases hab : a = b
            · subst hab
              simp only [if_true] at hd
              by_cases hnn : 0 ≤ i ∧ 0 ≤ j
              · simp only [hnn, and_self, if_true] at hd
                cases hl : lookup a kvs with
                | none => simp [hl] at hg
                | some c0 =>
                  cases c0 with
                  | list xs =>
                    simp only [hl] at hg
                    have hgi : ¬ i < -(xs.length : Int) := by omega
                    have hgj : ¬ j < -(xs.length : Int) := by omega
                    simp only [hgi, if_false] at hg
                    simp only [setParts, hq, hl, childList, hgj, if_false, getParts, hp, lookup_setKey_self,
                      List.length_set]
                    have hni : normIdx xs.length i = i.toNat := by simp [normIdx]; omega
                    have hnj : normIdx xs.length j = j.toNat := by simp [normIdx]; omega
                    have hli : ∀ n, normIdx n i = i.toNat := by intro n; simp [normIdx]; omega
                    rw [hni] at hg
                    rw [if_neg (by omega), hli, hnj]
                    cases hx : xs[i.toNat]? with
                    | none => simp [hx] at hg
                    | some c =>
                      simp only [hx, Option.bind_some] at hg
                      have hlt : i.toNat < xs.length := by
                        have := List.getElem?_eq_some_iff.mp hx; exact this.1
                      have hes : (ensureSize xs j)[i.toNat]? = some c := by
                        unfold ensureSize; split
                        · exact hx
                        · rw [List.getElem?_append_left hlt]; exact hx
                      by_cases hij : i = j
                      · subst hij
                        simp only [if_true] at hd
                        have hlt' : i.toNat < (ensureSize xs i).length := by
                          rw [length_ensureSize]; split <;> omega
                        rw [List.getElem?_set_self hlt', Option.bind_some, hes]
                        exact getParts_child prest qrest c v x ih hd hg
                      · have hne : j.toNat ≠ i.toNat := by omega
                        rw [List.getElem?_set_ne hne, hes, Option.bind_some]
                        exact hg
                  | _ => simp [hl] at hg
              · simp [hnn] at hd
            · simp only [setParts, hq]
              split <;> simp only [getParts, hp, lookup_setKey_ne b a _ kvs (Ne.symm hab)] <;> exact hg
      | _ => simp [getParts] at hg

/-! ### a write never moves a leaf out from under a stable path -/

theorem anyOtherD_setKey_self (P : PyVal → Bool) (k : String) (c : PyVal) (kvs : List (String × PyVal)) :
    anyOtherD P k (setKey k c kvs) = anyOtherD P k kvs := by
  induction kvs with
  | nil => simp [setKey, anyOtherD, anyLeafD]
  | cons e rest ih =>
    obtain ⟨k', w⟩ := e
    by_cases h : k' = k
    · simp [setKey, anyOtherD, h]
    · simp [setKey, anyOtherD, h, ih]

theorem anyOtherD_setKey_ne (P : PyVal → Bool) (k k2 : String) (c : PyVal) (kvs : List (String × PyVal))
    (h : k ≠ k2) :
    anyOtherD P k2 (setKey k c kvs) = true → anyLeaf P c = true ∨ anyOtherD P k2 kvs = true := by
  induction kvs with
  | nil => simp only [setKey, anyOtherD, h, if_false, Bool.or_false]; exact Or.inl
  | cons e rest ih =>
    obtain ⟨k', w⟩ := e
    by_cases h1 : k' = k
    · subst h1
      simp only [setKey, if_true, anyOtherD, h, if_false, Bool.or_eq_true]
      rintro (h' | h')
      · exact Or.inl h'
      · exact Or.inr (Or.inr h')
    · by_cases h2 : k' = k2
      · subst h2
        simp only [setKey, h1, if_false, anyOtherD, if_true]
        intro h'
        rcases anyLeafD_setKey P k c rest h' with h'' | h''
        · exact Or.inl h''
        · exact Or.inr (anyOtherD_le P k rest h'')
      · simp only [setKey, h1, if_false, anyOtherD, h2, Bool.or_eq_true]
        rintro (h' | h')
        · exact Or.inr (Or.inl h')
        · rcases ih h' with h'' | h''
          · exact Or.inl h''
          · exact Or.inr (Or.inr h'')

theorem anyOtherD_of_lookup_ne (P : PyVal → Bool) (k k2 : String) (c : PyVal) (kvs : List (String × PyVal))
    (h : k ≠ k2) (hl : lookup k kvs = some c) (hc : anyLeaf P c = true) : anyOtherD P k2 kvs = true := by
  induction kvs with
  | nil => simp [lookup] at hl
  | cons e rest ih =>
    obtain ⟨k', w⟩ := e
    by_cases h1 : k' = k
    · subst h1
      simp only [lookup, if_true, Option.some.injEq] at hl
      subst hl
      simp [anyOtherD, h, hc]
    · simp only [lookup, h1, if_false] at hl
      by_cases h2 : k' = k2
      · subst h2
        simp only [anyOtherD, if_true]
        exact lookup_anyLeaf P k c rest hl hc
      · simp only [anyOtherD, h2, if_false, Bool.or_eq_true]
        exact Or.inr (ih hl)

theorem anyOtherL_set_self (P : PyVal → Bool) (xs : List PyVal) (i : Nat) (c : PyVal) :
    anyOtherL P i (xs.set i c) = anyOtherL P i xs := by
  induction xs generalizing i with
  | nil => rfl
  | cons x xs ih =>
    cases i with
    | zero => simp [List.set, anyOtherL]
    | succ i => simp [List.set, anyOtherL, ih]

theorem anyOtherL_set_ne (P : PyVal → Bool) (xs : List PyVal) (n m : Nat) (c : PyVal) (h : n ≠ m) :
    anyOtherL P m (xs.set n c) = true → anyLeaf P c = true ∨ anyOtherL P m xs = true := by
  induction xs generalizing n m with
  | nil => simp [anyOtherL]
  | cons x xs ih =>
    cases n with
    | zero =>
      cases m with
      | zero => exact absurd rfl h
      | succ m =>
        simp only [List.set, anyOtherL, Bool.or_eq_true]
        rintro (h' | h')
        · exact Or.inl h'
        · exact Or.inr (Or.inr h')
    | succ n =>
      cases m with
      | zero =>
        simp only [List.set, anyOtherL]
        intro h'
        rcases anyLeafL_set P xs n c h' with h'' | h''
        · exact Or.inl h''
        · exact Or.inr (anyOtherL_le P n xs h'')
      | succ m =>
        simp only [List.set, anyOtherL, Bool.or_eq_true]
        rintro (h' | h')
        · exact Or.inr (Or.inl h')
        · rcases ih n m (by omega) h' with h'' | h''
          · exact Or.inl h''
          · exact Or.inr (Or.inr h'')

theorem anyOtherL_of_getElem_ne (P : PyVal → Bool) (xs : List PyVal) (n m : Nat) (c : PyVal) (h : n ≠ m)
    (hx : xs[n]? = some c) (hc : anyLeaf P c = true) : anyOtherL P m xs = true := by
  induction xs generalizing n m with
  | nil => simp at hx
  | cons x xs ih =>
    cases n with
    | zero =>
      simp only [List.getElem?_cons_zero, Option.some.injEq] at hx
      subst hx
      cases m with
      | zero => exact absurd rfl h
      | succ m => simp [anyOtherL, hc]
    | succ n =>
      simp only [List.getElem?_cons_succ] at hx
      cases m with
      | zero => simp only [anyOtherL]; exact getElem?_anyLeaf P xs n c hx hc
      | succ m =>
        simp only [anyOtherL, Bool.or_eq_true]
        exact Or.inr (ih n m (by omega) hx)

theorem leakOutside_nondict (P : PyVal → Bool) (q : List String) (c : PyVal) (hc : ∀ d, c ≠ .dict d) :
    leakOutside P q c = true → anyLeaf P c = true := by
  cases q with
  | nil => simp [leakOutside]
  | cons p rest =>
    cases c with
    | dict d => exact absurd rfl (hc d)
    | _ => simp [leakOutside]

/-- whatever lies outside a path is a leaf of the object -/
theorem leakOutside_le (P : PyVal → Bool) (q : List String) (o : PyVal) :
    leakOutside P q o = true → anyLeaf P o = true := by
  induction q generalizing o with
  | nil => simp [leakOutside]
  | cons p rest ih =>
    cases o with
    | dict kvs =>
      simp only [leakOutside, anyLeaf]
      cases parseSeg p with
      | invalid => exact id
      | key k =>
        simp only [Bool.or_eq_true]
        rintro (h | h)
        · exact anyOtherD_le P k kvs h
        · cases hl : lookup k kvs with
          | none => simp [hl] at h
          | some c => rw [hl] at h; exact lookup_anyLeaf P k c kvs hl (ih c h)
      | index k idx =>
        simp only [Bool.or_eq_true]
        rintro (h | h)
        · exact anyOtherD_le P k kvs h
        · cases hl : lookup k kvs with
          | none => simp [hl] at h
          | some c =>
            rw [hl] at h
            apply lookup_anyLeaf P k c kvs hl
            cases c with
            | list xs =>
              simp only [anyLeaf]
              simp only at h
              split at h
              · exact h
              · simp only [Bool.or_eq_true] at h
                rcases h with h | h
                · exact anyOtherL_le P _ xs h
                · cases hx : xs[normIdx xs.length idx]? with
                  | none => simp [hx] at h
                  | some c => rw [hx] at h; exact getElem?_anyLeaf P xs _ c hx (ih c h)
            | _ => simpa using h
    | _ => simp [leakOutside]

theorem anyLeaf_childDict_opt (P : PyVal → Bool) (o : Option PyVal) :
    anyLeaf P (childDict o) = true → ∃ d, o = some (.dict d) ∧ anyLeaf P (.dict d) = true := by
  cases o with
  | none => simp [childDict, anyLeaf_dict_nil]
  | some c =>
    cases c with
    | dict d => simp only [childDict]; intro h; exact ⟨d, rfl, h⟩
    | _ => simp [childDict, anyLeaf_dict_nil]

theorem anyLeafL_childList_opt (P : PyVal → Bool) (o : Option PyVal) :
    anyLeafL P (childList o) = true → ∃ xs, o = some (.list xs) ∧ anyLeafL P xs = true := by
  cases o with
  | none => simp [childList, anyLeafL]
  | some c =>
    cases c with
    | list xs => simp only [childList]; intro h; exact ⟨xs, rfl, h⟩
    | _ => simp [childList, anyLeafL]

theorem leakOutside_childDict_opt (P : PyVal → Bool) (q : List String) (o : Option PyVal) :
    leakOutside P q (childDict o) = true → ∃ d, o = some (.dict d) ∧ leakOutside P q (.dict d) = true := by
  cases o with
  | none => simp [childDict, leakOutside_dict_nil]
  | some c =>
    cases c with
    | dict d => simp only [childDict]; intro h; exact ⟨d, rfl, h⟩
    | _ => simp [childDict, leakOutside_dict_nil]

/-- the part of `leakOutside` that looks below the head segment's key -/
def tailView (P : PyVal → Bool) (seg : Seg) (qrest : List String) (c : Option PyVal) : Bool :=
  match seg with
  | .invalid => false
  | .key _ =>
    (match c with
     | some c => leakOutside P qrest c
     | none => false)
  | .index _ idx =>
    (match c with
     | some (.list xs) =>
       if idx < -(xs.length : Int) then anyLeafL P xs
       else anyOtherL P (normIdx xs.length idx) xs ||
         (match xs[normIdx xs.length idx]? with
          | some c => leakOutside P qrest c
          | none => false)
     | some c => anyLeaf P c
     | none => false)

def segKey : Seg → String
  | .invalid => ""
  | .key k => k
  | .index k _ => k

theorem leakOutside_dict_eq (P : PyVal → Bool) (qs : String) (qrest : List String) (kvs : List (String × PyVal))
    (seg : Seg) (hseg : parseSeg qs = seg) (hne : seg ≠ .invalid) :
    leakOutside P (qs :: qrest) (.dict kvs) =
      (anyOtherD P (segKey seg) kvs || tailView P seg qrest (lookup (segKey seg) kvs)) := by
  simp only [leakOutside, hseg]
  cases seg with
  | invalid => exact absurd rfl hne
  | key k => rfl
  | index k idx => rfl

theorem tailView_le (P : PyVal → Bool) (seg : Seg) (qrest : List String) (c : PyVal) :
    tailView P seg qrest (some c) = true → anyLeaf P c = true := by
  cases seg with
  | invalid => simp [tailView]
  | key k => simp only [tailView]; exact leakOutside_le P qrest c
  | index k idx =>
    simp only [tailView]
    cases c with
    | list xs =>
      simp only [anyLeaf]
      split
      · exact id
      · simp only [Bool.or_eq_true]
        rintro (h | h)
        · exact anyOtherL_le P _ xs h
        · cases hx : xs[normIdx xs.length idx]? with
          | none => simp [hx] at h
          | some c => rw [hx] at h; exact getElem?_anyLeaf P xs _ c hx (leakOutside_le P qrest c h)
    | _ => simp

/-- dict level: replacing the value under `k` by `c'` – what the two facts about `c'` have to be -/
theorem leak_setKey (P : PyVal → Bool) (seg : Seg) (qrest : List String) (k : String) (c' : PyVal)
    (kvs : List (String × PyVal)) (X : Prop)
    (hM : anyLeaf P c' = true → (∃ c, lookup k kvs = some c ∧ anyLeaf P c = true) ∨ X)
    (hT : k = segKey seg → tailView P seg qrest (some c') = true →
      tailView P seg qrest (lookup k kvs) = true ∨ X) :
    (anyOtherD P (segKey seg) (setKey k c' kvs) ||
        tailView P seg qrest (lookup (segKey seg) (setKey k c' kvs))) = true →
      (anyOtherD P (segKey seg) kvs || tailView P seg qrest (lookup (segKey seg) kvs)) = true ∨ X := by
  by_cases hk : k = segKey seg
  · rw [← hk, anyOtherD_setKey_self, lookup_setKey_self]
    simp only [Bool.or_eq_true]
    rintro (h | h)
    · exact Or.inl (Or.inl h)
    · rcases hT hk h with h' | h'
      · exact Or.inl (Or.inr h')
      · exact Or.inr h'
  · rw [lookup_setKey_ne k _ c' kvs hk]
    simp only [Bool.or_eq_true]
    rintro (h | h)
    · rcases anyOtherD_setKey_ne P k _ c' kvs hk h with h' | h'
      · rcases hM h' with ⟨c, hl, hc⟩ | hx
        · exact Or.inl (Or.inl (anyOtherD_of_lookup_ne P k _ c kvs hk hl hc))
        · exact Or.inr hx
      · exact Or.inl (Or.inl h')
    · exact Or.inl (Or.inr h)

/-- list level: the element view of an index segment after `lst[n] = setParts …` on the grown list -/
theorem leak_list (P : PyVal → Bool) (qrest prest : List String) (lst : List PyVal) (i : Int) (m : Nat) (v : PyVal)
    (ih : ∀ (p : List String) (o : PyVal), leakOutside P qrest (setParts p o v) = true →
      leakOutside P qrest o = true ∨ anyLeaf P v = true)
    (hg : ¬ i < -(lst.length : Int)) :
    (anyOtherL P m ((ensureSize lst i).set (normIdx lst.length i)
          (setParts prest (childDict (ensureSize lst i)[normIdx lst.length i]?) v)) ||
        (match ((ensureSize lst i).set (normIdx lst.length i)
            (setParts prest (childDict (ensureSize lst i)[normIdx lst.length i]?) v))[m]? with
         | some c => leakOutside P qrest c
         | none => false)) = true →
      (anyOtherL P m lst ||
        (match lst[m]? with
         | some c => leakOutside P qrest c
         | none => false)) = true ∨ anyLeaf P v = true := by
  have hlt := normIdx_lt lst i hg
  generalize hn : normIdx lst.length i = n at hlt ⊢
  generalize hc'' : setParts prest (childDict (ensureSize lst i)[n]?) v = c''
  simp only [Bool.or_eq_true]
  by_cases hmn : m = n
  · subst hmn
    rw [anyOtherL_set_self, anyOtherL_ensureSize, List.getElem?_set_self hlt]
    rintro (h | h)
    · exact Or.inl (Or.inl h)
    · rw [← hc''] at h
      rcases ih _ _ h with h' | h'
      · obtain ⟨d, hd, hleak⟩ := leakOutside_childDict_opt P qrest _ h'
        rcases getElem?_ensureSize lst i m _ hd with h3 | h3
        · exact Or.inl (Or.inr (by rw [h3]; exact hleak))
        · simp only [PyVal.dict.injEq] at h3; subst h3
          rw [leakOutside_dict_nil] at hleak; exact absurd hleak (by simp)
      · exact Or.inr h'
  · rw [List.getElem?_set_ne (Ne.symm hmn)]
    rintro (h | h)
    · rcases anyOtherL_set_ne P _ n m c'' (Ne.symm hmn) h with h' | h'
      · rw [← hc''] at h'
        rcases anyLeaf_setParts P _ _ _ h' with h'' | h''
        · obtain ⟨d, hd, hleaf⟩ := anyLeaf_childDict_opt P _ h''
          rcases getElem?_ensureSize lst i n _ hd with h3 | h3
          · exact Or.inl (Or.inl (anyOtherL_of_getElem_ne P lst n m _ (Ne.symm hmn) h3 hleaf))
          · simp only [PyVal.dict.injEq] at h3; subst h3
            rw [anyLeaf_dict_nil] at hleaf; exact absurd hleaf (by simp)
        · exact Or.inr h''
      · rw [anyOtherL_ensureSize] at h'; exact Or.inl (Or.inl h')
    · cases hx : (ensureSize lst i)[m]? with
      | none => simp [hx] at h
      | some c =>
        rw [hx] at h
        rcases getElem?_ensureSize lst i m c hx with h3 | h3
        · exact Or.inl (Or.inr (by rw [h3]; exact h))
        · subst h3; simp only [leakOutside_dict_nil] at h; exact absurd h (by simp)

/-- leaf monotonicity of the value `_set_by_path` stores under a list key -/
theorem anyLeafL_list_step (P : PyVal → Bool) (prest : List String) (lst : List PyVal) (i : Int) (v : PyVal) :
    anyLeafL P ((ensureSize lst i).set (normIdx lst.length i)
        (setParts prest (childDict (ensureSize lst i)[normIdx lst.length i]?) v)) = true →
      anyLeafL P lst = true ∨ anyLeaf P v = true := by
  intro h
  rcases anyLeafL_set P _ _ _ h with h' | h'
  · rcases anyLeaf_setParts P _ _ _ h' with h'' | h''
    · have := anyLeaf_childDict_getElem? P _ _ h''
      rw [anyLeafL_ensureSize] at this; exact Or.inl this
    · exact Or.inr h''
  · have := anyOtherL_le P _ _ h'
    rw [anyLeafL_ensureSize] at this; exact Or.inl this

/-- **stability**: a write along any path `p` never moves a `P`-leaf out from under a path `q` made of plain
    keys and non-negative indices – what is outside `q` afterwards was outside `q` before, or came with the value -/
theorem leakOutside_setParts (P : PyVal → Bool) (q p : List String) (o v : PyVal)
    (hq : q.all stableSeg = true) :
    leakOutside P q (setParts p o v) = true → leakOutside P q o = true ∨ anyLeaf P v = true := by
  induction q generalizing p o with
  | nil => simp [leakOutside]
  | cons qs qrest ih =>
    simp only [List.all_cons, Bool.and_eq_true] at hq
    obtain ⟨hqs, hqr⟩ := hq
    have ih' := fun p o => ih p o hqr
    cases p with
    | nil => simp only [setParts]; intro h; exact Or.inr (leakOutside_le P _ v h)
    | cons ps prest =>
      cases o with
      | dict kvs =>
        unfold stableSeg at hqs
        generalize hseg : parseSeg qs = seg at hqs
        have hne : seg ≠ .invalid := by intro h; subst h; simp at hqs
        rw [leakOutside_dict_eq P qs qrest kvs seg hseg hne]
        simp only [setParts]
        cases hp : parseSeg ps with
        | invalid => simp only; rw [leakOutside_dict_eq P qs qrest kvs seg hseg hne]; exact Or.inl
        | key k =>
          simp only
          rw [leakOutside_dict_eq P qs qrest _ seg hseg hne]
          have hM : anyLeaf P (setParts prest (childDict (lookup k kvs)) v) = true →
              (∃ c, lookup k kvs = some c ∧ anyLeaf P c = true) ∨ anyLeaf P v = true := by
            intro h
            rcases anyLeaf_setParts P _ _ _ h with h' | h'
            · obtain ⟨d, hd, hleaf⟩ := anyLeaf_childDict_opt P _ h'
              exact Or.inl ⟨_, hd, hleaf⟩
            · exact Or.inr h'
          apply leak_setKey P seg qrest k _ kvs _ hM
          intro _ ht
          cases seg with
          | invalid => exact absurd rfl hne
          | key k2 =>
            simp only [tailView] at ht ⊢
            rcases ih' _ _ ht with h' | h'
            · obtain ⟨d, hd, hleak⟩ := leakOutside_childDict_opt P qrest _ h'
              rw [hd]; exact Or.inl hleak
            · exact Or.inr h'
          | index k2 i2 =>
            rcases hM (tailView_le P _ qrest _ ht) with ⟨c, hl, hc⟩ | h'
            · rcases anyLeaf_setParts P _ _ _ (tailView_le P _ qrest _ ht) with h'' | h''
              · obtain ⟨d, hd, hleaf⟩ := anyLeaf_childDict_opt P _ h''
                rw [hd]; simp only [tailView]; exact Or.inl hleaf
              · exact Or.inr h''
            · exact Or.inr h'
        | index k i =>
          simp only
          split
          · -- the index lies before the start of the list: only `cur[key] = []` may have happened
            rw [leakOutside_dict_eq P qs qrest _ seg hseg hne]
            have hM : anyLeaf P (.list (childList (lookup k kvs))) = true →
                (∃ c, lookup k kvs = some c ∧ anyLeaf P c = true) ∨ anyLeaf P v = true := by
              intro h
              simp only [anyLeaf] at h
              obtain ⟨xs, hx, hleaf⟩ := anyLeafL_childList_opt P _ h
              exact Or.inl ⟨_, hx, by simpa [anyLeaf] using hleaf⟩
            apply leak_setKey P seg qrest k _ kvs _ hM
            intro _ ht
            cases hl : lookup k kvs with
            | none =>
              rw [hl] at ht; have := tailView_le P _ qrest _ ht
              simp [childList, anyLeaf, anyLeafL] at this
            | some c =>
              cases c with
              | list xs => rw [hl] at ht; exact Or.inl ht
              | _ =>
                rw [hl] at ht; have := tailView_le P _ qrest _ ht
                simp [childList, anyLeaf, anyLeafL] at this
          · rename_i hg
            rw [leakOutside_dict_eq P qs qrest _ seg hseg hne]
            have hML : anyLeaf P (.list ((ensureSize (childList (lookup k kvs)) i).set
                  (normIdx (childList (lookup k kvs)).length i)
                  (setParts prest (childDict (ensureSize (childList (lookup k kvs)) i)[normIdx
                    (childList (lookup k kvs)).length i]?) v))) = true →
                (∃ xs, lookup k kvs = some (.list xs) ∧ anyLeafL P xs = true) ∨ anyLeaf P v = true := by
              intro h
              simp only [anyLeaf] at h
              rcases anyLeafL_list_step P prest _ i v h with h' | h'
              · obtain ⟨xs, hx, hleaf⟩ := anyLeafL_childList_opt P _ h'
                exact Or.inl ⟨xs, hx, hleaf⟩
              · exact Or.inr h'
            have hM : anyLeaf P (.list ((ensureSize (childList (lookup k kvs)) i).set
                  (normIdx (childList (lookup k kvs)).length i)
                  (setParts prest (childDict (ensureSize (childList (lookup k kvs)) i)[normIdx
                    (childList (lookup k kvs)).length i]?) v))) = true →
                (∃ c, lookup k kvs = some c ∧ anyLeaf P c = true) ∨ anyLeaf P v = true := by
              intro h
              rcases hML h with ⟨xs, hx, hleaf⟩ | h'
              · exact Or.inl ⟨_, hx, by simpa [anyLeaf] using hleaf⟩
              · exact Or.inr h'
            apply leak_setKey P seg qrest k _ kvs _ hM
            intro _ ht
            cases seg with
            | invalid => exact absurd rfl hne
            | key k2 =>
              simp only [tailView] at ht ⊢
              have hleaf := leakOutside_nondict P qrest _ (by intro d; simp) ht
              rcases hML hleaf with ⟨xs, hx, hl⟩ | h'
              · rw [hx]
                cases qrest with
                | nil => simp [leakOutside] at ht
                | cons q' qr => simp only [leakOutside, anyLeaf]; exact Or.inl hl
              · exact Or.inr h'
            | index k2 i2 =>
              simp only [decide_eq_true_eq] at hqs
              simp only [tailView, List.length_set] at ht
              have hg2 : ∀ n : Nat, ¬ i2 < -(n : Int) := by intro n; omega
              have hn2 : ∀ n : Nat, normIdx n i2 = i2.toNat := by intro n; simp [normIdx]; omega
              rw [if_neg (hg2 _), hn2] at ht
              rcases leak_list P qrest prest _ i i2.toNat v ih' hg ht with h' | h'
              · cases hl : lookup k kvs with
                | none => rw [hl] at h'; simp [childList, anyOtherL] at h'
                | some c =>
                  cases c with
                  | list xs =>
                    rw [hl] at h'
                    simp only [childList] at h'
                    simp only [tailView]
                    rw [if_neg (hg2 _), hn2]
                    exact Or.inl h'
                  | _ => rw [hl] at h'; simp [childList, anyOtherL] at h'
              · exact Or.inr h'
      | _ => simp only [setParts]; exact Or.inl

end Redact
end Rbacx
