import Rbacx.Proofs.Redact
/-
  Rbacx.Proofs.RedactLog — lemmas about `DecisionLogger.log` (model: `Redact.log`): sampling gate,
  spec well-formedness (no raise), the size-bound case split.
-/
namespace Rbacx
namespace Redact

theorem unit_pos : 0 < unit := Int.pow_pos (by decide)

/-! ### sampling -/

theorem clamp_one : FNum.clamp .one = .one := by
  have := unit_pos
  simp only [FNum.clamp, FNum.pmin, FNum.pmax, FNum.one, FNum.zero, FNum.lt, FNum.gt]
  simp; omega

/-- a rate `≤ 0` drops whatever the draw -/
theorem shouldDrop_of_le_zero (cfg : LogCfg) (payload : PyVal) (draw : FNum)
    (h : (effRate cfg payload).le .zero = true) : shouldDrop cfg payload draw = true := by
  simp [shouldDrop, h]

/-- a rate `≥ 1` keeps every draw of `random.random()` -/
theorem shouldDrop_of_one_le (cfg : LogCfg) (payload : PyVal) (draw : FNum)
    (h : FNum.le .one (effRate cfg payload) = true) (hd : draw.isDraw) : shouldDrop cfg payload draw = false := by
  have hu := unit_pos
  obtain ⟨hd0, hd1⟩ := hd
  simp only [shouldDrop]
  cases hr : effRate cfg payload with
  | nan => simp [hr, FNum.le, FNum.one] at h
  | fin r =>
    cases draw with
    | nan => simp [FNum.le, FNum.zero] at hd0
    | fin d =>
      simp only [hr, FNum.le, FNum.one, decide_eq_true_eq] at h
      simp only [FNum.lt, FNum.one, decide_eq_true_eq] at hd1
      simp only [FNum.le, FNum.gt, FNum.lt, FNum.zero, Bool.or_eq_false_iff, decide_eq_false_iff_not]
      omega

theorem effStrategy_default (cfg : LogCfg) (h : cfg.strategy = none ∨ cfg.strategy = some []) :
    effStrategy cfg = defaultStrategy := by
  unfold effStrategy
  rcases h with h | h <;> simp [h]

/-- under the default strategy the categories `deny` and `permit_with_obligations` have rate 1.0 -/
theorem effRate_smart_default (cfg : LogCfg) (payload : PyVal) (hs : cfg.smart = true)
    (hst : cfg.strategy = none ∨ cfg.strategy = some [])
    (hc : category payload = "deny" ∨ category payload = "permit_with_obligations") :
    effRate cfg payload = .one := by
  simp only [effRate, hs, Bool.not_true, Bool.false_eq_true, if_false, effStrategy_default cfg hst]
  rcases hc with hc | hc <;> simp [hc, defaultStrategy, lookupRate, clamp_one]

theorem category_deny (payload : PyVal)
    (h : payload.get "decision" = .str "deny" ∨ (payload.get "allowed").truthy = false) :
    category payload = "deny" := by
  unfold category
  rcases h with h | h
  · simp [h]
  · simp [h]

theorem category_obligations (payload : PyVal) (h : (payload.get "obligations").truthy = true) :
    category payload = "deny" ∨ category payload = "permit_with_obligations" := by
  unfold category
  simp only [h, if_true]
  generalize ((match payload.get "decision" with | .str "deny" => true | _ => false) ||
    !(payload.get "allowed").truthy) = b
  cases b
  · exact Or.inr rfl
  · exact Or.inl rfl

/-! ### no raise on well-formed specs -/

/-- a spec as documented: a mapping whose `fields` is missing, falsy (`None`, `[]`) or a list of `str` -/
def plainSpec : PyVal → Bool
  | .dict ob =>
    match PyVal.lookup "fields" ob with
    | none => true
    | some f => !f.truthy || (match f with | .list xs => xs.all PyVal.isStr | _ => false)
  | _ => false

theorem fieldsOf_isSome_of_plain (ob : List (String × PyVal)) (h : plainSpec (.dict ob) = true) :
    (fieldsOf ob).isSome = true := by
  simp only [plainSpec] at h
  unfold fieldsOf
  cases hl : PyVal.lookup "fields" ob with
  | none => rfl
  | some f =>
    simp only [hl, Bool.or_eq_true, Bool.not_eq_true'] at h
    simp only
    rcases h with h | h
    · simp [h]
    · cases f <;> simp at h
      split <;> rfl

theorem specWrites_isSome_of_plain (ob : PyVal) (h : plainSpec ob = true) : (specWrites ob).isSome = true := by
  cases ob with
  | dict kvs =>
    have := fieldsOf_isSome_of_plain kvs h
    simp only [specWrites]
    split <;> simp [Option.isSome_map, this]
  | _ => simp [plainSpec] at h

theorem specsWF_of_plain (specs : List PyVal) (h : specs.all plainSpec = true) : specsWF specs = true := by
  unfold specsWF
  induction specs with
  | nil => rfl
  | cons ob rest ih =>
    simp only [List.all_cons, Bool.and_eq_true] at h
    have h1 := specWrites_isSome_of_plain ob h.1
    have h2 := ih h.2
    simp only [allWrites]
    cases hs : specWrites ob with
    | none => simp [hs] at h1
    | some w =>
      cases ha : allWrites rest with
      | none => simp [ha] at h2
      | some w2 => rfl

theorem applySpecs_not_raised (specs : List PyVal) (o : PyVal) (h : specsWF specs = true) :
    (applySpecs o specs).2 = false := by
  cases hr : (applySpecs o specs).2 with
  | false => rfl
  | true =>
    rw [applySpecs_raised_iff] at hr
    simp [specsWF, hr] at h

theorem redactStep_not_raised (cfg : LogCfg) (payload : PyVal) (h : specsWF (effectiveSpecs cfg) = true) :
    (redactStep cfg payload).2 = false := by
  unfold redactStep
  split
  · rfl
  · rename_i hs
    simp only
    rw [applySpecs_not_raised _ _ h]
    rfl

/-- the env after the redaction step, when nothing raises -/
theorem redactStep_eq (cfg : LogCfg) (payload : PyVal) (h : specsWF (effectiveSpecs cfg) = true) :
    (redactStep cfg payload).1 = applyObligations (envObj payload) (effectiveSpecs cfg) := by
  unfold redactStep applyObligations
  split
  · rename_i hs; rw [hs]; rfl
  · simp only
    rw [applySpecs_not_raised _ _ h]
    rfl

end Redact
end Rbacx
