import Rbacx.Proofs.RedactFrame
import Rbacx.Proofs.RedactLog
/-
  Rbacx.Proofs.RedactSpec — the write list as a whole: stability and frame lifted to `applyWrites`, and
  soundness of the spec predicates of `Spec/Redact.lean` on the model's own output.
-/
namespace Rbacx
namespace Redact

theorem leakOutsidePath_setByPath (P : PyVal → Bool) (q p : String) (o v : PyVal) (hq : stablePath q = true) :
    leakOutsidePath P (setByPath o p v) q = true → leakOutsidePath P o q = true ∨ anyLeaf P v = true := by
  rw [leakOutsidePath_eq, leakOutsidePath_eq, setByPath_eq]
  exact leakOutside_setParts P _ _ o v hq

theorem leakOutsidePath_applyWrites (P : PyVal → Bool) (q : String) (ws : List (String × PyVal)) (o : PyVal)
    (hq : stablePath q = true) :
    leakOutsidePath P (applyWrites o ws) q = true →
      leakOutsidePath P o q = true ∨ ∃ w ∈ ws, anyLeaf P w.2 = true := by
  induction ws generalizing o with
  | nil => exact Or.inl
  | cons w ws ih =>
    rw [applyWrites_cons]
    intro h
    rcases ih _ h with h' | ⟨w', hw', h'⟩
    · rcases leakOutsidePath_setByPath P q w.1 o w.2 hq h' with h'' | h''
      · exact Or.inl h''
      · exact Or.inr ⟨w, List.mem_cons_self, h''⟩
    · exact Or.inr ⟨w', List.mem_cons_of_mem _ hw', h'⟩

/-- **no leak, whole write list, judged on the input env**: a `P`-leaf that sits only under a configured path
    of plain keys / non-negative indices is absent from the result, whatever the other writes are -/
theorem anyLeaf_applyWrites_stable (P : PyVal → Bool) (kvs : List (String × PyVal)) (ws : List (String × PyVal))
    (q : String) (ph : PyVal) (hmem : (q, ph) ∈ ws) (hq : stablePath q = true)
    (hclean : ∀ w ∈ ws, anyLeaf P w.2 = false)
    (honly : leakOutsidePath P (.dict kvs) q = false) :
    anyLeaf P (applyWrites (.dict kvs) ws) = false := by
  obtain ⟨pre, post, hsplit⟩ := List.append_of_mem hmem
  subst hsplit
  cases h : anyLeaf P (applyWrites (.dict kvs) (pre ++ (q, ph) :: post)) with
  | false => rfl
  | true =>
    rw [applyWrites_append, applyWrites_cons] at h
    obtain ⟨kvs', hk⟩ := applyWrites_dict pre kvs
    rcases anyLeaf_applyWrites P post _ h with h' | ⟨w, hw, h'⟩
    · have hl : lands (PyVal.splitStr '.' q) (applyWrites (.dict kvs) pre) = true := by
        rw [hk]; exact lands_of_stable _ _ hq
      have hph : anyLeaf P ph = false := hclean (q, ph) (by simp)
      rw [setByPath_eq] at h'
      have hout := anyLeaf_setParts_lands P _ _ _ hl hph h'
      rw [← leakOutsidePath_eq] at hout
      rcases leakOutsidePath_applyWrites P q pre _ hq hout with h2 | ⟨w, hw, h2⟩
      · rw [honly] at h2; exact absurd h2 (by simp)
      · rw [hclean w (by simp [hw])] at h2; exact absurd h2 (by simp)
    · rw [hclean w (by simp [hw])] at h'; exact absurd h' (by simp)

/-! ### soundness of the spec predicates on the model's output -/

theorem coveredAt_sound (s : String) (ws : List (String × PyVal)) (o : PyVal)
    (h : coveredAt s o ws = true) : occurs s (applyWrites o ws) = false := by
  induction ws generalizing o with
  | nil => simp [coveredAt] at h
  | cons w rest ih =>
    simp only [coveredAt, Bool.or_eq_true, Bool.and_eq_true, Bool.not_eq_true', List.all_eq_true] at h
    rw [applyWrites_cons]
    rcases h with ⟨⟨⟨hl, hout⟩, hph⟩, hrest⟩ | h
    · cases hocc : occurs s (applyWrites (setByPath o w.1 w.2) rest) with
      | false => rfl
      | true =>
        rcases anyLeaf_applyWrites (holds s) rest _ hocc with h' | ⟨w', hw', h'⟩
        · rw [setByPath_eq] at h'
          rw [landsPath_eq] at hl
          have := anyLeaf_setParts_lands (holds s) _ _ _ hl hph h'
          rw [← leakOutsidePath_eq, hout] at this; exact absurd this (by simp)
        · have := hrest w' hw'
          simp only [occurs] at this
          rw [this] at h'; exact absurd h' (by simp)
    · exact ih _ h

theorem coveredStable_sound (s : String) (ws : List (String × PyVal)) (env : PyVal)
    (h : coveredStable s env ws = true) : occurs s (applyWrites env ws) = false := by
  simp only [coveredStable, Bool.and_eq_true, List.all_eq_true, List.any_eq_true, Bool.not_eq_true'] at h
  obtain ⟨⟨hd, hclean⟩, ⟨w, hw, hst, hout⟩⟩ := h
  cases env with
  | dict kvs =>
    exact anyLeaf_applyWrites_stable (holds s) kvs ws w.1 w.2 hw hst (fun w' hw' => hclean w' hw') hout
  | _ => simp [PyVal.isDict] at hd

theorem specNoLeak_model (env : PyVal) (ws : List (String × PyVal)) (secrets : List String) :
    specNoLeak env ws secrets (applyWrites env ws) = true := by
  simp only [specNoLeak, List.all_eq_true]
  intro s _
  split
  · rename_i h
    simp only [Bool.or_eq_true] at h
    rcases h with h | h
    · simp [coveredAt_sound s ws env h]
    · simp [coveredStable_sound s ws env h]
  · rfl

mutual
theorem beq_refl : ∀ v : PyVal, PyVal.beq v v = true
  | .none => rfl
  | .bool b => by simp [PyVal.beq]
  | .int n => by simp [PyVal.beq]
  | .float f => by simp [PyVal.beq]
  | .str s => by simp [PyVal.beq]
  | .list xs => by simp only [PyVal.beq]; exact beqL_refl xs
  | .dict kvs => by simp only [PyVal.beq]; exact beqD_refl kvs
  | .dt a m => by simp [PyVal.beq]
theorem beqL_refl : ∀ xs : List PyVal, PyVal.beqL xs xs = true
  | [] => rfl
  | x :: xs => by simp only [PyVal.beqL, Bool.and_eq_true]; exact ⟨beq_refl x, beqL_refl xs⟩
theorem beqD_refl : ∀ kvs : List (String × PyVal), PyVal.beqD kvs kvs = true
  | [] => rfl
  | (k, v) :: kvs => by
    simp only [PyVal.beqD, Bool.and_eq_true, beq_self_eq_true, true_and]; exact ⟨beq_refl v, beqD_refl kvs⟩
end

theorem getByPath_applyWrites_disjoint (p : String) (x : PyVal) (ws : List (String × PyVal)) (o : PyVal)
    (hd : ∀ w ∈ ws, disjointPaths p w.1 = true) (hg : getByPath o p = some x) :
    getByPath (applyWrites o ws) p = some x := by
  induction ws generalizing o with
  | nil => exact hg
  | cons w ws ih =>
    rw [applyWrites_cons]
    apply ih _ (fun w' hw' => hd w' (List.mem_cons_of_mem _ hw'))
    rw [getByPath_eq, setByPath_eq]
    rw [getByPath_eq] at hg
    exact getParts_setParts_disjoint _ _ _ _ _ (hd w List.mem_cons_self) hg

theorem specPlaceholder_model (ws : List (String × PyVal)) (env : PyVal) :
    specPlaceholder env ws (applyWrites env ws) = true := by
  induction ws generalizing env with
  | nil => rfl
  | cons w rest ih =>
    simp only [specPlaceholder, Bool.and_eq_true]
    refine ⟨?_, by rw [applyWrites_cons]; exact ih _⟩
    split
    · rename_i h
      simp only [List.all_eq_true] at h
      obtain ⟨hl, hdis⟩ := h
      rw [applyWrites_cons]
      have h0 : getByPath (setByPath env w.1 w.2) w.1 = some w.2 := by
        rw [getByPath_eq, setByPath_eq]; rw [landsPath_eq] at hl
        exact getParts_setParts _ _ _ hl
      have := getByPath_applyWrites_disjoint w.1 w.2 rest _ hdis h0
      simp [readsAs, this, beq_refl]
    · rfl

/-! ### logger -/

theorem log_isSome (cfg : LogCfg) (js : PyVal → Option Nat) (payload : PyVal) (draw : FNum) :
    (log cfg js payload draw).isSome = !shouldDrop cfg payload draw := by
  unfold log
  cases shouldDrop cfg payload draw with
  | true => rfl
  | false =>
    simp only [Bool.false_eq_true, if_false, Bool.not_false]
    split
    · rfl
    · split
      · rfl
      · split
        · rfl
        · split <;> rfl

theorem isDraw_of_drawOK (d : FNum) (h : drawOK d = true) : d.isDraw := by
  simp only [drawOK, Bool.and_eq_true] at h; exact h

theorem category_of_isDenyCat (payload : PyVal) (h : isDenyCat payload = true) : category payload = "deny" := by
  unfold category; unfold isDenyCat at h; exact if_pos h

theorem ite_true_of (c x : Bool) (h : c = true → x = true) : (if c = true then x else true) = true := by
  cases c
  · rfl
  · simpa using h

theorem specSampling_model (cfg : LogCfg) (js : PyVal → Option Nat) (payload : PyVal) (draw : FNum) :
    specSampling cfg payload draw (log cfg js payload draw).isSome = true := by
  rw [log_isSome]
  unfold specSampling
  rw [Bool.and_eq_true, Bool.and_eq_true]
  refine ⟨⟨?_, ?_⟩, ?_⟩ <;> apply ite_true_of <;> intro h
  · simp only [Bool.and_eq_true, Bool.not_eq_true'] at h
    have hr : effRate cfg payload = cfg.sampleRate := by simp [effRate, h.1]
    simp [shouldDrop_of_le_zero cfg payload draw (by rw [hr]; exact h.2)]
  · simp only [Bool.and_eq_true, Bool.not_eq_true'] at h
    have hr : effRate cfg payload = cfg.sampleRate := by simp [effRate, h.1.1]
    simp [shouldDrop_of_one_le cfg payload draw (by rw [hr]; exact h.1.2) (isDraw_of_drawOK _ h.2)]
  · simp only [Bool.and_eq_true, Bool.or_eq_true] at h
    obtain ⟨⟨⟨hs, hst⟩, hcat⟩, hd⟩ := h
    have hst' : cfg.strategy = none ∨ cfg.strategy = some [] := by
      cases hstr : cfg.strategy with
      | none => exact Or.inl rfl
      | some l =>
        cases l with
        | nil => exact Or.inr rfl
        | cons e es => simp [hstr] at hst
    have hc : category payload = "deny" ∨ category payload = "permit_with_obligations" := by
      rcases hcat with h | h
      · exact Or.inl (category_of_isDenyCat payload h)
      · exact category_obligations payload h
    have hr := effRate_smart_default cfg payload hs hst' hc
    have hle : FNum.le .one (effRate cfg payload) = true := by rw [hr]; simp [FNum.le, FNum.one]
    simp [shouldDrop_of_one_le cfg payload draw hle (isDraw_of_drawOK _ hd)]

theorem specPriority_model (cfg : LogCfg) (payload : PyVal) :
    specPriority cfg payload (redactStep cfg payload).1 = true := by
  unfold specPriority redactStep
  split
  · rename_i h; simp only [h]; exact beq_refl _
  · rfl

theorem isMarker_truncMarker (n : Nat) : isMarker (truncMarker n) = some (n : Int) := rfl

end Redact
end Rbacx
