import Rbacx.Model.RelMemo
/-
  Rbacx.Proofs.RelMemo — the memoised evaluation (state-passing) versus the pure one:
  (1) `Inv`: the memo's keys are exactly the traced calls and no two traced calls have equal keys
      (at most one lookup per distinct triple-and-context per decision);
  (2) under a checker that answers equal keys equally, the memoised evaluation returns exactly what
      the pure evaluation returns, at every level up to the engine's decision step.
-/
namespace Rbacx

/-! ### (1) at most once -/

structure Inv (st : RelSt) : Prop where
  keys : st.memo.map (·.1) = st.trace
  distinct : st.trace.Pairwise (fun a b => keyEq a b = false)

theorem Inv.empty : Inv {} := ⟨rfl, List.Pairwise.nil⟩

theorem memoLookup_none {memo : List (RelKey × Bool)} {k : RelKey} (h : memoLookup memo k = none) :
    ∀ e ∈ memo, keyEq e.1 k = false := by
  intro e he
  unfold memoLookup at h
  simp only [Option.map_eq_none_iff, List.find?_eq_none] at h
  simpa using h e he

theorem evalRelM_inv (cx : CondCtx) (expr : PyVal) (st : RelSt) (h : Inv st) : Inv (evalRelM cx expr st).2 := by
  unfold evalRelM
  split
  · exact h
  · exact h
  · split
    · exact h
    · split
      · exact h
      · rename_i key _ chk _ hl
        refine ⟨by simp [h.keys], ?_⟩
        rw [List.pairwise_append]
        refine ⟨h.distinct, List.pairwise_singleton _ _, ?_⟩
        intro a ha b hb
        simp only [List.mem_singleton] at hb
        subst hb
        rw [← h.keys] at ha
        obtain ⟨e, he, rfl⟩ := List.mem_map.mp ha
        exact memoLookup_none hl e he

mutual
theorem evalCondM_inv (cx : CondCtx) : ∀ (c : Cond) (st : RelSt), Inv st → Inv (evalCondM cx c st).2
  | .lit _, st, h => by simpa [evalCondM] using h
  | .rel expr, st, h => by simpa [evalCondM] using evalRelM_inv cx expr st h
  | .bin _ _, st, h => by simpa [evalCondM] using h
  | .all Option.none, st, h => by simpa [evalCondM] using h
  | .all (some cs), st, h => by simpa [evalCondM] using evalAllM_inv cx cs st h
  | .any Option.none, st, h => by simpa [evalCondM] using h
  | .any (some cs), st, h => by simpa [evalCondM] using evalAnyM_inv cx cs st h
  | .not c, st, h => by simpa [evalCondM] using evalCondM_inv cx c st h
  | .unknown, st, h => by simpa [evalCondM] using h
theorem evalAllM_inv (cx : CondCtx) : ∀ (cs : List Cond) (st : RelSt), Inv st → Inv (evalAllM cx cs st).2
  | [], st, h => by simpa [evalAllM] using h
  | c :: cs, st, h => by
    have h1 := evalCondM_inv cx c st h
    simp only [evalAllM]
    split
    · rename_i st' heq
      rw [heq] at h1
      exact evalAllM_inv cx cs st' h1
    · exact h1
theorem evalAnyM_inv (cx : CondCtx) : ∀ (cs : List Cond) (st : RelSt), Inv st → Inv (evalAnyM cx cs st).2
  | [], st, h => by simpa [evalAnyM] using h
  | c :: cs, st, h => by
    have h1 := evalCondM_inv cx c st h
    simp only [evalAnyM]
    split
    · rename_i st' heq
      rw [heq] at h1
      exact evalAnyM_inv cx cs st' h1
    · exact h1
end

theorem condOutcomeM_inv (cx : CondCtx) (cond : PyVal) (st : RelSt) (h : Inv st) : Inv (condOutcomeM cx cond st).2 := by
  unfold condOutcomeM
  split
  · exact h
  · have h1 := evalCondM_inv cx (condOf cond) st h
    split <;> (rename_i heq; rw [heq] at h1; exact h1)

theorem ruleOutcomeM_inv (cx : CondCtx) (rule : PyVal) (st : RelSt) (h : Inv st) : Inv (ruleOutcomeM cx rule st).2 := by
  unfold ruleOutcomeM
  split
  · exact h
  · split
    · exact h
    · have h1 := condOutcomeM_inv cx (rule.get "condition") st h
      split
      · rename_i heq; rw [heq] at h1; exact h1
      · rename_i heq; rw [heq] at h1; exact h1
      · rename_i heq; rw [heq] at h1
        split <;> exact h1

theorem rulesLoopM_inv (cx : CondCtx) (algo : String) :
    ∀ (rules : List PyVal) (s : LoopSt) (st : RelSt), Inv st → Inv (rulesLoopM cx algo s rules st).2 := by
  intro rules
  induction rules with
  | nil => intro s st h; simpa [rulesLoopM] using h
  | cons r rs ih =>
    intro s st h
    have h1 := ruleOutcomeM_inv cx r st h
    simp only [rulesLoopM]
    split
    · rename_i heq; rw [heq] at h1; exact h1
    · rename_i heq; rw [heq] at h1
      split
      · exact h1
      · exact ih _ _ h1

theorem evaluateM_inv (cx : CondCtx) (dflt : String) (doc : PyVal) (st : RelSt) (h : Inv st) :
    Inv (evaluateM cx dflt doc st).2 := by
  unfold evaluateM
  split
  · exact h
  · rename_i algo _
    have h1 := rulesLoopM_inv cx algo (rulesOf doc) {} st h
    split <;> (rename_i heq; rw [heq] at h1; exact h1)

mutual
theorem decideTreeM_inv (cx : CondCtx) (i sd : String) : ∀ (t : PTree) (st : RelSt), Inv st → Inv (decideTreeM cx i sd t st).2
  | .leaf doc, st, h => by simpa [decideTreeM] using evaluateM_inv cx i doc st h
  | .node doc cs, st, h => by
    simp only [decideTreeM]
    split
    · exact h
    · rename_i algo _
      have h1 := childrenLoopM_inv cx i sd algo cs {} st h
      split <;> (rename_i heq; rw [heq] at h1; exact h1)
theorem childrenLoopM_inv (cx : CondCtx) (i sd algo : String) :
    ∀ (cs : List PTree) (s : SetSt) (st : RelSt), Inv st → Inv (childrenLoopM cx i sd algo s cs st).2
  | [], s, st, h => by simpa [childrenLoopM] using h
  | c :: cs, s, st, h => by
    have h1 := decideTreeM_inv cx i sd c st h
    simp only [childrenLoopM]
    split
    · rename_i heq; rw [heq] at h1; exact h1
    · rename_i heq; rw [heq] at h1
      split
      · exact h1
      · exact childrenLoopM_inv cx i sd algo cs _ _ h1
end

theorem compiledDecideM_inv (cx : CondCtx) (c : Consts) (policy : PyVal) (st : RelSt) (h : Inv st) :
    Inv (compiledDecideM cx c policy st).2 := by
  unfold compiledDecideM
  split
  · exact decideTreeM_inv cx _ _ _ st h
  · split
    · exact h
    · rename_i algo _
      simp only
      have h1 := rulesLoopM_inv cx algo (selectBucket cx.o (isStrict cx.env)
        ((rulesOf policy).filter (isCandidate · (if (cx.env.get "action").isNone then "" else cx.o.pyStr (cx.env.get "action"))))
        (if ((PyVal.por (cx.env.get "resource") (.dict [])).get "type").isNone then none
          else some (cx.o.pyStr ((PyVal.por (cx.env.get "resource") (.dict [])).get "type")))
        (PyVal.por (cx.env.get "resource") (.dict []))) {} st h
      split <;> (rename_i heq; rw [heq] at h1; exact h1)

theorem guardDecideM_inv (cx : CondCtx) (c : Consts) (policy : PyVal) : Inv (guardDecideM cx c policy).2 := by
  unfold guardDecideM
  have h1 := compiledDecideM_inv cx c policy {} Inv.empty
  split
  · rename_i heq; rw [heq] at h1; exact h1
  · rename_i heq; rw [heq] at h1
    split
    · exact decideTreeM_inv cx _ _ _ _ h1
    · exact evaluateM_inv cx _ _ _ h1

end Rbacx

namespace Rbacx

/-! ### (2) the memo is transparent for a checker that answers equal keys equally -/

/-- a deterministic checker: lookups with the same triple and the same context (as JSON text) get the same answer -/
def ChkRespects (chk : RelChecker) : Prop := ∀ k k', keyEq k k' = true → chk k = chk k'

/-- every memo entry is what the checker answers for any equal key -/
def MemoOK (cx : CondCtx) (st : RelSt) : Prop :=
  ∀ chk, cx.checker = some chk → ∀ e ∈ st.memo, ∀ k, keyEq e.1 k = true → (chk k).getD false = e.2

theorem MemoOK.empty (cx : CondCtx) : MemoOK cx {} := by intro chk _ e he; simp at he

theorem evalRelM_pure (cx : CondCtx) (hresp : ∀ chk, cx.checker = some chk → ChkRespects chk)
    (expr : PyVal) (st : RelSt) (h : MemoOK cx st) :
    (evalRelM cx expr st).1 = evalRel cx expr ∧ MemoOK cx (evalRelM cx expr st).2 := by
  unfold evalRelM evalRel
  cases hq : relQuery cx.o expr cx.env with
  | error e => exact ⟨by simp [bind, Except.bind], h⟩
  | ok q =>
    cases q with
    | none => exact ⟨by simp [bind, Except.bind, pure, Except.pure], h⟩
    | some key =>
      cases hc : cx.checker with
      | none => exact ⟨by simp [bind, Except.bind, pure, Except.pure], h⟩
      | some chk =>
        simp only [bind, Except.bind, pure, Except.pure]
        cases hl : memoLookup st.memo key with
        | some b =>
          refine ⟨?_, h⟩
          simp only
          unfold memoLookup at hl
          simp only [Option.map_eq_some_iff] at hl
          obtain ⟨e, hf, hb⟩ := hl
          have hmem := List.mem_of_find?_eq_some hf
          have hk := List.find?_some hf
          rw [← hb, h chk hc e hmem key (by simpa using hk)]
        | none =>
          refine ⟨rfl, ?_⟩
          intro chk' hc' e he k hk
          rw [hc] at hc'
          injection hc' with hc'
          subst hc'
          simp only [List.mem_append, List.mem_singleton] at he
          rcases he with he | he
          · exact h chk hc e he k hk
          · subst he
            simp only at hk ⊢
            rw [hresp chk hc key k hk]

mutual
theorem evalCondM_pure (cx : CondCtx) (hresp : ∀ chk, cx.checker = some chk → ChkRespects chk) :
    ∀ (c : Cond) (st : RelSt), MemoOK cx st → (evalCondM cx c st).1 = evalCond cx c ∧ MemoOK cx (evalCondM cx c st).2
  | .lit _, st, h => by simp [evalCondM, evalCond, h]
  | .rel expr, st, h => by simpa [evalCondM, evalCond] using evalRelM_pure cx hresp expr st h
  | .bin _ _, st, h => by simp [evalCondM, evalCond, h]
  | .all Option.none, st, h => by simp [evalCondM, evalCond, h]
  | .all (some cs), st, h => by simpa [evalCondM, evalCond] using evalAllM_pure cx hresp cs st h
  | .any Option.none, st, h => by simp [evalCondM, evalCond, h]
  | .any (some cs), st, h => by simpa [evalCondM, evalCond] using evalAnyM_pure cx hresp cs st h
  | .not c, st, h => by
    have := evalCondM_pure cx hresp c st h
    simp only [evalCondM, evalCond]
    exact ⟨by rw [this.1], this.2⟩
  | .unknown, st, h => by simp [evalCondM, evalCond, h]
theorem evalAllM_pure (cx : CondCtx) (hresp : ∀ chk, cx.checker = some chk → ChkRespects chk) :
    ∀ (cs : List Cond) (st : RelSt), MemoOK cx st → (evalAllM cx cs st).1 = evalAll cx cs ∧ MemoOK cx (evalAllM cx cs st).2
  | [], st, h => by simp [evalAllM, evalAll, h]
  | c :: cs, st, h => by
    have h1 := evalCondM_pure cx hresp c st h
    simp only [evalAllM, evalAll]
    rw [← h1.1]
    rcases hr : evalCondM cx c st with ⟨r, st'⟩
    rw [hr] at h1
    rcases r with e | (_ | _)
    · exact ⟨rfl, h1.2⟩
    · exact ⟨rfl, h1.2⟩
    · exact evalAllM_pure cx hresp cs st' h1.2
theorem evalAnyM_pure (cx : CondCtx) (hresp : ∀ chk, cx.checker = some chk → ChkRespects chk) :
    ∀ (cs : List Cond) (st : RelSt), MemoOK cx st → (evalAnyM cx cs st).1 = evalAny cx cs ∧ MemoOK cx (evalAnyM cx cs st).2
  | [], st, h => by simp [evalAnyM, evalAny, h]
  | c :: cs, st, h => by
    have h1 := evalCondM_pure cx hresp c st h
    simp only [evalAnyM, evalAny]
    rw [← h1.1]
    rcases hr : evalCondM cx c st with ⟨r, st'⟩
    rw [hr] at h1
    rcases r with e | (_ | _)
    · exact ⟨rfl, h1.2⟩
    · exact evalAnyM_pure cx hresp cs st' h1.2
    · exact ⟨rfl, h1.2⟩
end

theorem condOutcomeM_pure (cx : CondCtx) (hresp : ∀ chk, cx.checker = some chk → ChkRespects chk)
    (cond : PyVal) (st : RelSt) (h : MemoOK cx st) :
    (condOutcomeM cx cond st).1 = condOutcome cx cond ∧ MemoOK cx (condOutcomeM cx cond st).2 := by
  unfold condOutcomeM condOutcome
  split
  · exact ⟨rfl, h⟩
  · have h1 := evalCondM_pure cx hresp (condOf cond) st h
    rw [← h1.1]
    rcases hr : evalCondM cx (condOf cond) st with ⟨r, st'⟩
    rw [hr] at h1
    rcases r with (_ | cls) | (_ | _) <;> exact ⟨rfl, h1.2⟩

theorem ruleOutcomeM_pure (cx : CondCtx) (hresp : ∀ chk, cx.checker = some chk → ChkRespects chk)
    (rule : PyVal) (st : RelSt) (h : MemoOK cx st) :
    (ruleOutcomeM cx rule st).1 = ruleOutcome cx rule ∧ MemoOK cx (ruleOutcomeM cx rule st).2 := by
  unfold ruleOutcomeM ruleOutcome
  split
  · exact ⟨rfl, h⟩
  · split
    · exact ⟨rfl, h⟩
    · have h1 := condOutcomeM_pure cx hresp (rule.get "condition") st h
      rw [← h1.1]
      rcases hr : condOutcomeM cx (rule.get "condition") st with ⟨r, st'⟩
      rw [hr] at h1
      rcases r with e | (_ | out)
      · exact ⟨rfl, h1.2⟩
      · simp only
        cases lowerField (rule.get "effect") "permit" <;> exact ⟨rfl, h1.2⟩
      · exact ⟨rfl, h1.2⟩

theorem rulesLoopM_pure (cx : CondCtx) (hresp : ∀ chk, cx.checker = some chk → ChkRespects chk) (algo : String) :
    ∀ (rules : List PyVal) (s : LoopSt) (st : RelSt), MemoOK cx st →
      (rulesLoopM cx algo s rules st).1 = rulesLoop cx algo s rules ∧ MemoOK cx (rulesLoopM cx algo s rules st).2 := by
  intro rules
  induction rules with
  | nil => intro s st h; exact ⟨rfl, h⟩
  | cons r rs ih =>
    intro s st h
    have h1 := ruleOutcomeM_pure cx hresp r st h
    simp only [rulesLoopM, rulesLoop]
    rw [← h1.1]
    rcases hr : ruleOutcomeM cx r st with ⟨res, st'⟩
    rw [hr] at h1
    rcases res with e | out
    · exact ⟨rfl, h1.2⟩
    · simp only
      split
      · exact ⟨rfl, h1.2⟩
      · exact ih _ _ h1.2

theorem evaluateM_pure (cx : CondCtx) (hresp : ∀ chk, cx.checker = some chk → ChkRespects chk)
    (dflt : String) (doc : PyVal) (st : RelSt) (h : MemoOK cx st) :
    (evaluateM cx dflt doc st).1 = evaluate cx dflt doc ∧ MemoOK cx (evaluateM cx dflt doc st).2 := by
  unfold evaluateM evaluate
  cases ha : lowerField (doc.get "algorithm") dflt with
  | error e => exact ⟨by simp [bind, Except.bind], h⟩
  | ok algo =>
    have h1 := rulesLoopM_pure cx hresp algo (rulesOf doc) {} st h
    simp only [bind, Except.bind, pure, Except.pure]
    rw [← h1.1]
    rcases hr : rulesLoopM cx algo {} (rulesOf doc) st with ⟨res, st'⟩
    rw [hr] at h1
    rcases res with e | s <;> exact ⟨rfl, h1.2⟩

mutual
theorem decideTreeM_pure (cx : CondCtx) (hresp : ∀ chk, cx.checker = some chk → ChkRespects chk) (i sd : String) :
    ∀ (t : PTree) (st : RelSt), MemoOK cx st →
      (decideTreeM cx i sd t st).1 = decideTree cx i sd t ∧ MemoOK cx (decideTreeM cx i sd t st).2
  | .leaf doc, st, h => by simpa [decideTreeM, decideTree] using evaluateM_pure cx hresp i doc st h
  | .node doc cs, st, h => by
    simp only [decideTreeM, decideTree]
    cases ha : lowerField (doc.get "algorithm") sd with
    | error e => exact ⟨rfl, h⟩
    | ok algo =>
      have h1 := childrenLoopM_pure cx hresp i sd algo cs {} st h
      simp only
      rw [← h1.1]
      rcases hr : childrenLoopM cx i sd algo {} cs st with ⟨res, st'⟩
      rw [hr] at h1
      rcases res with e | s <;> exact ⟨rfl, h1.2⟩
theorem childrenLoopM_pure (cx : CondCtx) (hresp : ∀ chk, cx.checker = some chk → ChkRespects chk) (i sd algo : String) :
    ∀ (cs : List PTree) (s : SetSt) (st : RelSt), MemoOK cx st →
      (childrenLoopM cx i sd algo s cs st).1 = childrenLoop cx i sd algo s cs ∧ MemoOK cx (childrenLoopM cx i sd algo s cs st).2
  | [], s, st, h => ⟨rfl, h⟩
  | c :: cs, s, st, h => by
    have h1 := decideTreeM_pure cx hresp i sd c st h
    simp only [childrenLoopM, childrenLoop]
    rw [← h1.1]
    rcases hr : decideTreeM cx i sd c st with ⟨res, st'⟩
    rw [hr] at h1
    rcases res with e | raw
    · exact ⟨rfl, h1.2⟩
    · simp only
      split
      · exact ⟨rfl, h1.2⟩
      · exact childrenLoopM_pure cx hresp i sd algo cs _ _ h1.2
end

theorem compiledDecideM_pure (cx : CondCtx) (hresp : ∀ chk, cx.checker = some chk → ChkRespects chk)
    (c : Consts) (policy : PyVal) (st : RelSt) (h : MemoOK cx st) :
    (compiledDecideM cx c policy st).1 = compiledDecide cx c policy ∧ MemoOK cx (compiledDecideM cx c policy st).2 := by
  unfold compiledDecideM compiledDecide
  split
  · exact decideTreeM_pure cx hresp _ _ _ st h
  · cases ha : lowerField (policy.get "algorithm") c.compilerDefault with
    | error e => exact ⟨rfl, h⟩
    | ok algo =>
      simp only
      have h1 := rulesLoopM_pure cx hresp algo (selectBucket cx.o (isStrict cx.env)
        ((rulesOf policy).filter (isCandidate · (if (cx.env.get "action").isNone then "" else cx.o.pyStr (cx.env.get "action"))))
        (if ((PyVal.por (cx.env.get "resource") (.dict [])).get "type").isNone then none
          else some (cx.o.pyStr ((PyVal.por (cx.env.get "resource") (.dict [])).get "type")))
        (PyVal.por (cx.env.get "resource") (.dict []))) {} st h
      rw [← h1.1]
      rcases hr : rulesLoopM cx algo {} _ st with ⟨res, st'⟩
      rw [hr] at h1
      rcases res with e | s <;> exact ⟨rfl, h1.2⟩

/-- the memoised decision step returns exactly the pure decision step -/
theorem guardDecideM_pure (cx : CondCtx) (hresp : ∀ chk, cx.checker = some chk → ChkRespects chk)
    (c : Consts) (policy : PyVal) : (guardDecideM cx c policy).1 = guardDecide cx c policy := by
  unfold guardDecideM guardDecide
  have h1 := compiledDecideM_pure cx hresp c policy {} (MemoOK.empty cx)
  rw [← h1.1]
  rcases hr : compiledDecideM cx c policy {} with ⟨res, st'⟩
  rw [hr] at h1
  rcases res with e | r
  · simp only
    split
    · exact (decideTreeM_pure cx hresp _ _ _ st' h1.2).1
    · exact (evaluateM_pure cx hresp _ _ st' h1.2).1
  · rfl

end Rbacx
