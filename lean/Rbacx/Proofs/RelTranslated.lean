import Rbacx.Model.PyRel
import Rbacx.Model.RelMemo
import Rbacx.Proofs.CondTranslated
/-
  Rbacx.Proofs.RelTranslated — what the per-run obligations `Run/C04_parse_dt_translated.lean` and `Run/C13_translated.lean` need to prove
  the translations of `_parse_dt`, `_canon_subject`, `_canon_resource` and of the `rel` branch of `eval_condition`
  (`Generated.Src.parse_dt`, `canon_subject`, `canon_resource`, `rel_range`; harness/pytolean_rel.py) equal to the hand-written model
  (`parseDt`, `canonSubject`, `canonResource`, `relQuery`, `evalRel` of Model/Cond.lean; `evalRelM` of Model/RelMemo.lean).
  Nothing here depends on the generated code.
-/
namespace Rbacx.PyR
open PyVal Rbacx.PyE

/-! ### `_parse_dt`: the two stdlib conversions as the model's oracle has them -/

/-- the external expression `datetime.fromtimestamp(float(x), tz=timezone.utc)` through the oracle: the instant as an aware datetime,
    or an exception of class `ecls x` -/
def epochExt (o : Oracle) (ecls : PyVal → String) : PyVal → Except CondErr PyVal := fun x =>
  match o.epochInstant x with
  | some m => .ok (.dt true m)
  | Option.none => .error (.raised (ecls x))

/-- the external expression `datetime.fromisoformat(x.replace('Z', '+00:00'))` through the oracle: a datetime that is aware or naive
    (`aw s`; `isoInstant` is the instant AFTER a naive result has been read as UTC, which for a naive value is its `micros`), or any
    exception `icls s` -/
def isoExt (o : Oracle) (aw : String → Bool) (icls : String → CondErr) : PyVal → Except CondErr PyVal
  | .str s =>
    (match o.isoInstant s with
     | some m => .ok (.dt (aw s) m)
     | Option.none => .error (icls s))
  | _ => .error (.raised "TypeError")

theorem catches_exception (e : CondErr) : catches ["Exception"] e = true := by
  cases e <;> simp [catches]

theorem tryExcept_epochExt (o : Oracle) (ecls : PyVal → String)
    (hecls : ∀ x, ecls x = "OverflowError" ∨ ecls x = "ValueError" ∨ ecls x = "OSError") (x : PyVal) :
    tryExcept (epochExt o ecls x) ["OverflowError", "ValueError", "OSError"] (PyE.raise "ConditionTypeError") =
      (match o.epochInstant x with
       | some m => (Except.ok m : Except CondErr Int)
       | Option.none => Except.error CondErr.typeMismatch).map (PyVal.dt true) := by
  unfold epochExt
  cases o.epochInstant x with
  | some m => rfl
  | none =>
    rcases hecls x with h | h | h <;> simp [tryExcept, catches, h, PyE.raise, excOf, Except.map]

theorem parseDt_err (o : Oracle) (s : Bool) (x : PyVal) (e : CondErr) (h : parseDt o s x = .error e) : e = .typeMismatch := by
  unfold parseDt at h
  repeat' split at h
  all_goals first | (cases h; rfl) | cases h

theorem parseDtExt_err (o : Oracle) (x strict : PyVal) (e : CondErr) (h : parseDtExt o x strict = .error e) : e = .typeMismatch := by
  unfold parseDtExt at h
  cases hp : parseDt o strict.truthy x with
  | ok m => rw [hp] at h; cases h
  | error e' =>
    rw [hp] at h
    have : e' = e := by simpa [Except.map] using h
    subst this
    exact parseDt_err o _ x e' hp

end Rbacx.PyR
