import Rbacx.Model.PyRel
import Rbacx.Model.RelMemo
import Rbacx.Proofs.CondTranslated
/-
  Rbacx.Proofs.RelTranslated — what the per-run obligations `Run/C04_parse_dt_translated.lean` and `Run/C13_translated.lean` need to prove
  the translations of `_parse_dt`, `_canon_subject`, `_canon_resource` and of the `rel` branch of `eval_condition`
  (`Generated.Src.parse_dt`, `canon_subject`, `canon_resource`, `rel_range`; harness/pytolean_rel.py) equal to the hand-written model
  (`parseDt`, `canonSubject`, `canonResource`, `relQuery`, `evalRel` of Model/Cond.lean; `evalRelM` of Model/RelMemo.lean).
  Nothing here depends on the generated code.
-/
namespace Rbacx.PyR
open PyVal Rbacx.PyE

/-! ### `_parse_dt`: the two stdlib conversions as the model's oracle has them -/

/-- the external expression `datetime.fromtimestamp(float(x), tz=timezone.utc)` through the oracle: the instant as an aware datetime,
    or an exception of class `ecls x` -/
def epochExt (o : Oracle) (ecls : PyVal → String) : PyVal → Except CondErr PyVal := fun x =>
  match o.epochInstant x with
  | some m => .ok (.dt true m)
  | Option.none => .error (.raised (ecls x))

/-- the external expression `datetime.fromisoformat(x.replace('Z', '+00:00'))` through the oracle: a datetime that is aware or naive
    (`aw s`; `isoInstant` is the instant AFTER a naive result has been read as UTC, which for a naive value is its `micros`), or any
    exception `icls s` -/
def isoExt (o : Oracle) (aw : String → Bool) (icls : String → CondErr) : PyVal → Except CondErr PyVal
  | .str s =>
    (match o.isoInstant s with
     | some m => .ok (.dt (aw s) m)
     | Option.none => .error (icls s))
  | _ => .error (.raised "TypeError")

theorem catches_exception (e : CondErr) : catches ["Exception"] e = true := by
  cases e <;> simp [catches]

theorem tryExcept_epochExt (o : Oracle) (ecls : PyVal → String)
    (hecls : ∀ x, ecls x = "OverflowError" ∨ ecls x = "ValueError" ∨ ecls x = "OSError") (x : PyVal) :
    tryExcept (epochExt o ecls x) ["OverflowError", "ValueError", "OSError"] (PyE.raise "ConditionTypeError") =
      (match o.epochInstant x with
       | some m => (Except.ok m : Except CondErr Int)
       | Option.none => Except.error CondErr.typeMismatch).map (PyVal.dt true) := by
  unfold epochExt
  cases o.epochInstant x with
  | some m => rfl
  | none =>
    rcases hecls x with h | h | h <;> simp [tryExcept, catches, h, PyE.raise, excOf, Except.map]

theorem parseDt_err (o : Oracle) (s : Bool) (x : PyVal) (e : CondErr) (h : parseDt o s x = .error e) : e = .typeMismatch := by
  unfold parseDt at h
  repeat' split at h
  all_goals first | (cases h; rfl) | cases h

theorem parseDtExt_err (o : Oracle) (x strict : PyVal) (e : CondErr) (h : parseDtExt o x strict = .error e) : e = .typeMismatch := by
  unfold parseDtExt at h
  cases hp : parseDt o strict.truthy x with
  | ok m => rw [hp] at h; cases h
  | error e' =>
    rw [hp] at h
    have : e' = e := by simpa [Except.map] using h
    subst this
    exact parseDt_err o _ x e' hp

/-! ### `_canon_subject` / `_canon_resource`: small facts -/

/-- `":" in v` on a str is the model's `v.toList.contains ':'` -/
theorem isInfix_colon (cs : List Char) : isInfix [':'] cs = cs.contains ':' := by
  induction cs with
  | nil => rfl
  | cons c cs ih =>
    simp only [isInfix, ih, List.isPrefixOf, List.contains_cons]
    cases h : (':' == c) <;> simp [h]

theorem containsE_colon (v : String) : containsE (.str v) (.str ":") = .ok (.bool (v.toList.contains ':')) := by
  show Except.ok (PyVal.bool (strContains v ":")) = _
  have : (":" : String).toList = [':'] := rfl
  simp only [strContains, this, isInfix_colon]

theorem fstr2 (a b : String) : Rbacx.Py.fstr [.str a, .str b] = .str (a ++ b) := by
  simp [Rbacx.Py.fstr, Rbacx.Py.fstrText]

theorem fstr3 (a b c : String) : Rbacx.Py.fstr [.str a, .str b, .str c] = .str (a ++ b ++ c) := by
  simp [Rbacx.Py.fstr, Rbacx.Py.fstrText, String.append_assoc]

/-- the environments the theorems about the `rel` branch speak about (what `Guard` builds): a dict whose `subject` / `resource` are
    dicts (or absent) and whose `context` is a dict (or falsy / absent).  On other shapes the source raises AttributeError where the
    model's `get` answers `None` (model's domain, DESIGN §2.1) — the translation raises like CPython and is compared with it every run -/
structure EnvOk (env : PyVal) : Prop where
  dict : env.isDict = true
  subject : env.hasKey "subject" = false ∨ (env.get "subject").isDict = true
  resource : env.hasKey "resource" = false ∨ (env.get "resource").isDict = true
  context : (env.get "context").truthy = false ∨ (env.get "context").isDict = true

/-- not a non-empty list / str: `dict(v)` of such a value (pairs → a dict, otherwise TypeError / ValueError) is not represented -/
def noSeq (v : PyVal) : Bool := !(v.truthy && (v.isList || v.isStr))

theorem getDE_env (kvs : List (String × PyVal)) (k : String) (h : PyVal.hasKey (.dict kvs) k = false ∨ ((PyVal.dict kvs).get k).isDict = true) :
    ∃ d, getDE (.dict kvs) (.str k) (.dict []) = .ok d ∧ d.isDict = true ∧ (∀ j, d.get j = ((PyVal.dict kvs).get k).get j) ∧
      (PyVal.por d (.dict [])).isDict = true ∧ (∀ j, (PyVal.por d (.dict [])).get j = ((PyVal.dict kvs).get k).get j) := by
  cases hl : lookup k kvs with
  | none =>
    refine ⟨.dict [], ?_, rfl, ?_, rfl, ?_⟩
    · simp [getDE, Rbacx.Py.hashable, Rbacx.Py.getDV, hl]
    · intro j; simp [PyVal.get, hl, lookup]
    · intro j; simp [PyVal.get, hl, lookup, PyVal.por, PyVal.truthy]
  | some v =>
    have hv : v.isDict = true := by
      rcases h with h | h
      · simp [PyVal.hasKey, hl] at h
      · simpa [PyVal.get, hl] using h
    cases v <;> simp [PyVal.isDict] at hv
    next kv =>
      have hg : (PyVal.dict kvs).get k = .dict kv := by simp [PyVal.get, hl]
      refine ⟨.dict kv, ?_, rfl, ?_, ?_, ?_⟩
      · simp [getDE, Rbacx.Py.hashable, Rbacx.Py.getDV, hl]
      · intro j; rw [hg]
      · cases kv <;> rfl
      · intro j; rw [hg]; cases kv <;> rfl

theorem getE_dict (d : PyVal) (k : String) (h : d.isDict = true) : getE d (.str k) = .ok (d.get k) := by
  cases d <;> simp [PyVal.isDict] at h
  rfl

/-- `dict(v or {})` as the source writes it is the model's `dictOf v` -/
theorem dictE_por (v : PyVal) (h : noSeq v = true) : dictE (PyVal.por v (.dict [])) = (Rbacx.dictOf v).map PyVal.dict := by
  cases v with
  | list xs => cases xs <;> simp_all [noSeq, PyVal.por, PyVal.truthy, dictE, Rbacx.dictOf, Except.map, PyVal.isList]
  | str s =>
    by_cases hs : s = ""
    · subst hs; rfl
    · simp_all [noSeq, PyVal.truthy, PyVal.isStr]
  | dict kvs => cases kvs <;> rfl
  | none => rfl
  | bool b => cases b <;> rfl
  | int n => by_cases hn : n = 0 <;> simp [PyVal.por, PyVal.truthy, hn, dictE, Rbacx.dictOf, Except.map]
  | float f =>
    by_cases hf : (f != 0.0) = true <;> simp [PyVal.por, PyVal.truthy, hf, dictE, Rbacx.dictOf, Except.map]
  | dt a m => rfl

/-- `dict(v)` for a truthy `v` -/
theorem dictE_truthy (v : PyVal) (h : noSeq v = true) (ht : v.truthy = true) : dictE v = (Rbacx.dictOf v).map PyVal.dict := by
  have := dictE_por v h
  simpa [PyVal.por, ht] using this

/-! ### the `rel` branch: what one run does, on the state of PyRel.lean -/

/-- the memo key the source builds: the canonical triple and the hash of the merged context (`hf` = `_ctx_hash`) -/
def encKey (hf : PyVal → String) (k : RelKey) : PyVal := .list [.str k.subject, .str k.relation, .str k.resource, .str (hf k.ctx)]

/-- the arguments `check` is called with -/
def encArgs (k : RelKey) : List PyVal := [.str k.subject, .str k.relation, .str k.resource, k.ctx]

/-- what a `rel` node does, given the lookup `q` the model's `relQuery` computes for it: `False` without consulting anybody when there
    is nothing to ask or nobody to ask (FAIL CLOSED); otherwise the memo is probed FIRST with the canonical key — a hit is returned
    (as a bool) and nobody is called —, and only on a miss (or without a memo) the checker is called, ONCE, with the canonical triple
    and the merged context; what it returns counts by its truth value, a raise counts as `False` (FAIL CLOSED), and the answer is
    STORED under the key (when there is a memo) -/
def relStep (hf : PyVal → String) (f : Checker) (q : Except CondErr (Option RelKey)) (st : St) : Except CondErr PyVal × St :=
  match q with
  | .error e => (.error e, st)
  | .ok Option.none => (.ok (.bool false), st)
  | .ok (some key) =>
    match f with
    | Option.none => (.ok (.bool false), st)
    | some g =>
      let b := ((g (encArgs key)).map PyVal.truthy).getD false
      match st.memo with
      | some m =>
        (match memoFind m (encKey hf key) with
         | some v => (.ok (.bool v.truthy), st)
         | Option.none => (.ok (.bool b), { memo := some (m ++ [(encKey hf key, .bool b)]), calls := st.calls ++ [encArgs key] }))
      | Option.none => (.ok (.bool b), { memo := Option.none, calls := st.calls ++ [encArgs key] })

theorem memoPut_absent (k v : PyVal) (m : List (PyVal × PyVal)) (h : memoFind m k = Option.none) : memoPut k v m = m ++ [(k, v)] := by
  induction m with
  | nil => rfl
  | cons e m ih =>
    obtain ⟨k', w⟩ := e
    simp only [memoFind, List.find?] at h
    cases hk : pyEq k' k with
    | true => simp [hk] at h
    | false =>
      simp only [hk] at h
      simp only [memoPut, hk, Bool.false_eq_true, if_false, List.cons_append]
      rw [ih (by simpa [memoFind] using h)]

theorem bindE_ok {α β : Type} (v : α) (k : α → M β) (s : St) : bindE (.ok v) k s = k v s := rfl
theorem bindE_error {α β : Type} (e : CondErr) (k : α → M β) (s : St) : bindE (.error e) k s = (.error e, s) := rfl
theorem pure_apply {α : Type} (v : α) (s : St) : (pure v : M α) s = (.ok v, s) := rfl
theorem bind_apply {α β : Type} (x : M α) (k : α → M β) (s : St) :
    bind x k s = match x s with | (.ok v, s') => k v s' | (.error e, s') => (.error e, s') := rfl

theorem tryCatch_apply {α : Type} (body : M α) (cls : List String) (handler : M α) (s : St) :
    tryCatch body cls handler s = match body s with
      | (.ok v, s') => (.ok v, s')
      | (.error e, s') => if catches cls e then handler s' else (.error e, s') := rfl
theorem callChecker_some (g : List PyVal → Option PyVal) (args : List PyVal) (s : St) :
    callChecker (some g) args s = match g args with
      | some v => (.ok v, { s with calls := s.calls ++ [args] })
      | Option.none => (.error (.raised "CheckerRaised"), { s with calls := s.calls ++ [args] }) := rfl
theorem memoIsDict_apply (s : St) : memoIsDict s = (.ok (.bool s.memo.isSome), s) := rfl
theorem memoContains_some (k : PyVal) (m : List (PyVal × PyVal)) (c : List (List PyVal)) (hk : keyOk k = true) :
    memoContains k { memo := some m, calls := c } = (.ok (.bool (memoFind m k).isSome), { memo := some m, calls := c }) := by
  simp [memoContains, hk]
theorem memoItem_some (k v : PyVal) (m : List (PyVal × PyVal)) (c : List (List PyVal)) (hk : keyOk k = true) (hf : memoFind m k = some v) :
    memoItem k { memo := some m, calls := c } = (.ok v, { memo := some m, calls := c }) := by
  simp [memoItem, hk, hf]
theorem memoSet_some (k v : PyVal) (m : List (PyVal × PyVal)) (c : List (List PyVal)) (hk : keyOk k = true) :
    memoSet k v { memo := some m, calls := c } = (.ok PyVal.none, { memo := some (memoPut k v m), calls := c }) := by
  simp [memoSet, hk]

/-- the statements of the `rel` branch from `checker = REL_CHECKER.get()` to the end, as harness/pytolean_rel.py emits them (the
    obligation checks that the generated text IS this, up to the names of bound variables) -/
def relTail (ctx_hash : PyVal → Except CondErr PyVal) (raw : PyVal → PyVal → PyVal → Except CondErr PyVal) (rel_checker : Checker)
    (eval_loop subject_str relation resource_str rebac_ctx : PyVal) : M PyVal :=
  let checker := handle (rel_checker).isSome
  if ((Rbacx.Py.isNone checker)).truthy then
    ((pure (PyVal.bool false)))
  else
    (bindE (ctx_hash rebac_ctx) fun t9 =>
    let key := (PyVal.list [subject_str, relation, resource_str, t9])
    bind memoIsDict fun t10 =>
    bind (if (t10).truthy then ((memoContains key)) else (pure t10)) fun t12 =>
    if (t12).truthy then
      (bind (memoItem key) fun t13 =>
      (pure (Rbacx.Py.boolOf t13)))
    else
      (bind (tryCatch (
          bind (callChecker rel_checker [subject_str, relation, resource_str, rebac_ctx]) fun t14 =>
          let res := t14
          let loop := eval_loop
          if ((Rbacx.Py.isNotNone loop)).truthy then
            (bindE (raw res loop (PyVal.float 5.0)) fun t15 =>
            let res := t15
            let allowed_bool := (Rbacx.Py.boolOf res)
            (pure allowed_bool))
          else
            (let allowed_bool := (Rbacx.Py.boolOf res)
            (pure allowed_bool)))
        ["Exception"] (
          let allowed_bool := (PyVal.bool false)
          (pure allowed_bool))) fun allowed_bool =>
      bind memoIsDict fun t16 =>
      if (t16).truthy then
        (bind (memoSet key allowed_bool) fun _t17 =>
        (pure allowed_bool))
      else
        ((pure allowed_bool))))

/-- the tail does what `relStep` says, for EVERY memo state and EVERY checker outcome function — provided `_ctx_hash` returns a str
    (`hf`) and resolving an awaitable gives the value the outcome function stands for (`raw` = identity: READING) -/
theorem relTail_spec (hf : PyVal → String) (ctx_hash : PyVal → Except CondErr PyVal) (hhash : ∀ c, ctx_hash c = .ok (.str (hf c)))
    (raw : PyVal → PyVal → PyVal → Except CondErr PyVal) (hraw : ∀ r l t, raw r l t = .ok r) (f : Checker) (loop : PyVal)
    (key : RelKey) (st : St) :
    relTail ctx_hash raw f loop (.str key.subject) (.str key.relation) (.str key.resource) key.ctx st =
      relStep hf f (.ok (some key)) st := by
  obtain ⟨memo, calls⟩ := st
  cases f with
  | none => rfl
  | some g =>
    have hk : keyOk (PyVal.list [.str key.subject, .str key.relation, .str key.resource, .str (hf key.ctx)]) = true := rfl
    have hh : (Rbacx.Py.isNone (handle (some g).isSome)).truthy = false := rfl
    unfold relTail relStep
    simp only [hh, Bool.false_eq_true, if_false, hhash, bindE_ok, encKey, encArgs]
    cases memo with
    | none =>
      cases hg : g [.str key.subject, .str key.relation, .str key.resource, key.ctx] with
      | none =>
        simp [bind_apply, memoIsDict_apply, Rbacx.Py.truthy_bool, pure_apply, tryCatch_apply, callChecker_some, hg, catches_exception]
      | some v =>
        by_cases hl : (Rbacx.Py.isNotNone loop).truthy = true
        · simp [bind_apply, memoIsDict_apply, Rbacx.Py.truthy_bool, pure_apply, tryCatch_apply, callChecker_some, hg, hl, hraw, bindE_ok, Rbacx.Py.boolOf]
        · simp [bind_apply, memoIsDict_apply, Rbacx.Py.truthy_bool, pure_apply, tryCatch_apply, callChecker_some, hg, hl, Rbacx.Py.boolOf]
    | some m =>
      cases hfind : memoFind m (PyVal.list [.str key.subject, .str key.relation, .str key.resource, .str (hf key.ctx)]) with
      | some v =>
        simp [bind_apply, memoIsDict_apply, Rbacx.Py.truthy_bool, pure_apply, memoContains_some _ _ _ hk, memoItem_some _ _ _ _ hk hfind, hfind, Rbacx.Py.boolOf]
      | none =>
        cases hg : g [.str key.subject, .str key.relation, .str key.resource, key.ctx] with
        | none =>
          simp [bind_apply, memoIsDict_apply, Rbacx.Py.truthy_bool, pure_apply, memoContains_some _ _ _ hk, hfind, tryCatch_apply, callChecker_some, hg,
            catches_exception, memoSet_some _ _ _ _ hk, memoPut_absent _ _ _ hfind]
        | some v =>
          by_cases hl : (Rbacx.Py.isNotNone loop).truthy = true
          · simp [bind_apply, memoIsDict_apply, Rbacx.Py.truthy_bool, pure_apply, memoContains_some _ _ _ hk, hfind, tryCatch_apply, callChecker_some, hg,
              hl, hraw, bindE_ok, Rbacx.Py.boolOf, memoSet_some _ _ _ _ hk, memoPut_absent _ _ _ hfind]
          · simp [bind_apply, memoIsDict_apply, Rbacx.Py.truthy_bool, pure_apply, memoContains_some _ _ _ hk, hfind, tryCatch_apply, callChecker_some, hg,
              hl, Rbacx.Py.boolOf, memoSet_some _ _ _ _ hk, memoPut_absent _ _ _ hfind]

/-- the inner function of the model's `relQuery` (Model/Cond.lean), by name -/
def relBuild (env : PyVal) (relation subject resource : String) (localCtx : PyVal) : Except CondErr (Option RelKey) :=
  if relation == "" then .ok Option.none
  else do
    let base ← dictOf ((PyVal.por (env.get "context") (.dict [])).get "_rebac")
    let merged ← if localCtx.truthy then (do let l ← dictOf localCtx; Pure.pure (dictUpdate base l)) else Pure.pure base
    Pure.pure (some { subject, relation, resource, ctx := .dict merged })

theorem relQuery_eq (o : Oracle) (expr env : PyVal) :
    relQuery o expr env =
      match expr with
      | .str s => relBuild env s (canonSubject o env .none) (canonResource o env .none) .none
      | .dict _ => relBuild env (o.pyStr (PyVal.por (expr.get "relation") (.str ""))) (canonSubject o env (expr.get "subject"))
          (canonResource o env (expr.get "resource")) (expr.get "ctx")
      | _ => .ok Option.none := by
  cases expr <;> rfl

/-- the statements of the `rel` branch from `if not relation:` to the end, as harness/pytolean_rel.py emits them -/
def relRest (ctx_hash : PyVal → Except CondErr PyVal) (raw : PyVal → PyVal → PyVal → Except CondErr PyVal) (rel_checker : Checker)
    (eval_loop env subject_str relation resource_str local_ctx : PyVal) : M PyVal :=
  if ((Rbacx.Py.pnot relation)).truthy then
    ((pure (PyVal.bool false)))
  else
    (bindE (getE env (PyVal.str "context")) fun t4 =>
    let env_ctx := (PyVal.por t4 (PyVal.dict []))
    bindE (getE env_ctx (PyVal.str "_rebac")) fun t5 =>
    bindE (dictE (PyVal.por t5 (PyVal.dict []))) fun t6 =>
    let rebac_ctx := t6
    if (local_ctx).truthy then
      (bindE (dictE local_ctx) fun t7 =>
      bindE (updateE rebac_ctx t7) fun t8 =>
      let rebac_ctx := t8
      relTail ctx_hash raw rel_checker eval_loop subject_str relation resource_str rebac_ctx)
    else
      (relTail ctx_hash raw rel_checker eval_loop subject_str relation resource_str rebac_ctx))

theorem por_dict_isDict (v : PyVal) (h : v.truthy = false ∨ v.isDict = true) : (PyVal.por v (.dict [])).isDict = true := by
  unfold PyVal.por
  rcases h with h | h
  · simp [h, PyVal.isDict]
  · split
    · exact h
    · rfl

theorem relRest_spec (hf : PyVal → String) (ctx_hash : PyVal → Except CondErr PyVal) (hhash : ∀ c, ctx_hash c = .ok (.str (hf c)))
    (raw : PyVal → PyVal → PyVal → Except CondErr PyVal) (hraw : ∀ r l t, raw r l t = .ok r) (f : Checker) (loop : PyVal)
    (env : PyVal) (henv : EnvOk env) (s r o' : String) (lc : PyVal)
    (h1 : noSeq ((PyVal.por (env.get "context") (.dict [])).get "_rebac") = true) (h2 : noSeq lc = true) (st : St) :
    relRest ctx_hash raw f loop env (.str s) (.str r) (.str o') lc st = relStep hf f (relBuild env r s o' lc) st := by
  unfold relRest relBuild
  have hp : (Rbacx.Py.pnot (.str r)).truthy = (r == "") := by
    simp [Rbacx.Py.pnot, PyVal.truthy, bne, Bool.not_not]
  rw [hp]
  by_cases hr : (r == "") = true
  · simp only [hr, if_true]; rfl
  · simp only [hr, Bool.false_eq_true, if_false]
    rw [getE_dict env "context" henv.dict, bindE_ok]
    rw [getE_dict _ "_rebac" (por_dict_isDict _ henv.context), bindE_ok, dictE_por _ h1]
    cases hb : dictOf ((PyVal.por (env.get "context") (.dict [])).get "_rebac") with
    | error e => rfl
    | ok base =>
      simp only [Except.map, bindE_ok]
      by_cases hl : lc.truthy = true
      · simp only [hl, if_true]
        rw [dictE_truthy lc h2 hl]
        cases hd : dictOf lc with
        | error e => rfl
        | ok l =>
          simp only [Except.map, bindE_ok, updateE]
          exact relTail_spec hf ctx_hash hhash raw hraw f loop { subject := s, relation := r, resource := o', ctx := .dict (dictUpdate base l) } st
      · simp only [hl, Bool.false_eq_true, if_false]
        exact relTail_spec hf ctx_hash hhash raw hraw f loop { subject := s, relation := r, resource := o', ctx := .dict base } st

/-! ### … and that is the model's memoised `rel` node (`evalRelM`, Model/RelMemo.lean) -/

/-- the model's checker that an outcome function stands for: the truth value of what `check` returns, `none` when it raises -/
def absChecker (g : List PyVal → Option PyVal) : RelChecker := fun k => (g (encArgs k)).map PyVal.truthy

def encMemo (hf : PyVal → String) (m : List (RelKey × Bool)) : List (PyVal × PyVal) := m.map fun e => (encKey hf e.1, .bool e.2)

/-- a model state as a state of the translation: a dict memo with the canonical keys, the calls made so far -/
def encSt (hf : PyVal → String) (st : RelSt) : St := { memo := some (encMemo hf st.memo), calls := st.trace.map encArgs }

theorem pyEq_encKey (hf : PyVal → String) (hinj : ∀ a b, (hf a == hf b) = (normCtx a == normCtx b)) (a b : RelKey) :
    pyEq (encKey hf a) (encKey hf b) = keyEq a b := by
  simp only [encKey, pyEq, pyEqL, keyEq, hinj, Bool.and_true, Bool.and_assoc]

theorem memoFind_enc (hf : PyVal → String) (hinj : ∀ a b, (hf a == hf b) = (normCtx a == normCtx b)) (m : List (RelKey × Bool)) (k : RelKey) :
    memoFind (encMemo hf m) (encKey hf k) = (memoLookup m k).map PyVal.bool := by
  induction m with
  | nil => rfl
  | cons e m ih =>
    simp only [memoFind, encMemo, List.map_cons, List.find?, pyEq_encKey hf hinj, memoLookup] at ih ⊢
    cases keyEq e.1 k with
    | true => rfl
    | false => exact ih

/-- `relStep` on the image of a model state is the image of the model's `evalRelM`: same answer, same memo afterwards, same calls —
    for a `_ctx_hash` that identifies exactly the contexts the model's `normCtx` identifies (`hinj`: ASSUMPTION on json.dumps) -/
theorem relStep_model (hf : PyVal → String) (hinj : ∀ a b, (hf a == hf b) = (normCtx a == normCtx b)) (o : Oracle) (env expr : PyVal)
    (f : Checker) (st : RelSt) :
    relStep hf f (relQuery o expr env) (encSt hf st) =
      (((evalRelM { o := o, env := env, checker := f.map absChecker } expr st).1).map PyVal.bool,
       encSt hf (evalRelM { o := o, env := env, checker := f.map absChecker } expr st).2) := by
  unfold relStep evalRelM
  cases relQuery o expr env with
  | error e => rfl
  | ok q =>
    cases q with
    | none => rfl
    | some key =>
      cases f with
      | none => rfl
      | some g =>
        simp only [encSt, Option.map_some, memoFind_enc hf hinj]
        cases memoLookup st.memo key with
        | some b => rfl
        | none =>
          simp only [Option.map_none, absChecker, encMemo, List.map_append, List.map_cons, List.map_nil, Except.map]

end Rbacx.PyR

namespace Rbacx.PyR
open PyVal Rbacx.PyE

/-! ### whole condition trees: a predicate on every sub-value of a document, congruence of `all(…)` / `any(…)` -/

mutual
/-- `P` holds of the value and of every value inside it (list items, dict values), at any depth -/
def allSub (P : PyVal → Prop) : PyVal → Prop
  | .list xs => P (.list xs) ∧ allSubL P xs
  | .dict kvs => P (.dict kvs) ∧ allSubD P kvs
  | .none => P .none
  | .bool b => P (.bool b)
  | .int n => P (.int n)
  | .float f => P (.float f)
  | .str s => P (.str s)
  | .dt a m => P (.dt a m)
def allSubL (P : PyVal → Prop) : List PyVal → Prop
  | [] => True
  | x :: xs => allSub P x ∧ allSubL P xs
def allSubD (P : PyVal → Prop) : List (String × PyVal) → Prop
  | [] => True
  | (_, v) :: kvs => allSub P v ∧ allSubD P kvs
end

theorem allSub_self {P : PyVal → Prop} {v : PyVal} (h : allSub P v) : P v := by
  cases v <;> simp only [allSub] at h <;> first | exact h | exact h.1

theorem allSubL_mem {P : PyVal → Prop} {xs : List PyVal} (h : allSubL P xs) {x : PyVal} (hx : x ∈ xs) : allSub P x := by
  induction xs with
  | nil => cases hx
  | cons y ys ih =>
    simp only [allSubL] at h
    cases hx with
    | head => exact h.1
    | tail _ h' => exact ih h.2 h'

theorem allSubD_lookup {P : PyVal → Prop} {kvs : List (String × PyVal)} (h : allSubD P kvs) {k : String} {v : PyVal}
    (hk : lookup k kvs = some v) : allSub P v := by
  induction kvs with
  | nil => simp [lookup] at hk
  | cons kv kvs ih =>
    obtain ⟨k', w⟩ := kv
    simp only [allSubD] at h
    simp only [lookup] at hk
    split at hk
    · cases hk; exact h.1
    · exact ih h.2 hk

theorem allSub_get {P : PyVal → Prop} {kvs : List (String × PyVal)} (h : allSub P (.dict kvs)) {k : String}
    (hk : PyVal.hasKey (.dict kvs) k = true) : allSub P ((PyVal.dict kvs).get k) := by
  simp only [PyVal.hasKey] at hk
  obtain ⟨v, hv⟩ := Option.isSome_iff_exists.mp hk
  simp only [allSub] at h
  simp only [PyVal.get, hv, Option.getD_some]
  exact allSubD_lookup h.2 hv

/-- what an iteration over a sub-value yields: items of a list are sub-values, keys of a dict / characters of a str are not dicts -/
theorem allSub_iter {P : PyVal → Prop} {v : PyVal} (h : allSub P v) {x : PyVal} (hx : x ∈ Rbacx.Py.iter v) :
    x.isDict = false ∨ allSub P x := by
  cases v with
  | list xs => simp only [allSub] at h; exact Or.inr (allSubL_mem h.2 hx)
  | dict kvs =>
    simp only [Rbacx.Py.iter, List.mem_map] at hx
    obtain ⟨_, _, rfl⟩ := hx; exact Or.inl rfl
  | str s =>
    simp only [Rbacx.Py.iter, List.mem_map] at hx
    obtain ⟨_, _, rfl⟩ := hx; exact Or.inl rfl
  | _ => simp [Rbacx.Py.iter] at hx

mutual
theorem allSub_mono {P Q : PyVal → Prop} (hpq : ∀ v, P v → Q v) : ∀ v, allSub P v → allSub Q v
  | .list xs, h => by simp only [allSub] at h ⊢; exact ⟨hpq _ h.1, allSubL_mono hpq xs h.2⟩
  | .dict kvs, h => by simp only [allSub] at h ⊢; exact ⟨hpq _ h.1, allSubD_mono hpq kvs h.2⟩
  | .none, h => by simp only [allSub] at h ⊢; exact hpq _ h
  | .bool _, h => by simp only [allSub] at h ⊢; exact hpq _ h
  | .int _, h => by simp only [allSub] at h ⊢; exact hpq _ h
  | .float _, h => by simp only [allSub] at h ⊢; exact hpq _ h
  | .str _, h => by simp only [allSub] at h ⊢; exact hpq _ h
  | .dt _ _, h => by simp only [allSub] at h ⊢; exact hpq _ h
theorem allSubL_mono {P Q : PyVal → Prop} (hpq : ∀ v, P v → Q v) : ∀ xs, allSubL P xs → allSubL Q xs
  | [], _ => by simp only [allSubL]
  | x :: xs, h => by simp only [allSubL] at h ⊢; exact ⟨allSub_mono hpq x h.1, allSubL_mono hpq xs h.2⟩
theorem allSubD_mono {P Q : PyVal → Prop} (hpq : ∀ v, P v → Q v) : ∀ kvs, allSubD P kvs → allSubD Q kvs
  | [], _ => by simp only [allSubD]
  | (_, v) :: kvs, h => by simp only [allSubD] at h ⊢; exact ⟨allSub_mono hpq v h.1, allSubD_mono hpq kvs h.2⟩
end

theorem allE_congr (xs : List PyVal) (f g : PyVal → Res) (h : ∀ x ∈ xs, f x = g x) : allE xs f = allE xs g := by
  induction xs with
  | nil => rfl
  | cons x xs ih =>
    simp only [allE, h x (List.mem_cons_self ..), ih fun y hy => h y (List.mem_cons_of_mem _ hy)]

theorem anyE_congr (xs : List PyVal) (f g : PyVal → Res) (h : ∀ x ∈ xs, f x = g x) : anyE xs f = anyE xs g := by
  induction xs with
  | nil => rfl
  | cons x xs ih =>
    simp only [anyE, h x (List.mem_cons_self ..), ih fun y hy => h y (List.mem_cons_of_mem _ hy)]

end Rbacx.PyR
