import Rbacx.Spec.Reload
/-
  Rbacx.Proofs.Reloader — step lemmas about one check and their lift to histories.
-/
namespace Rbacx.Reloader

/-! ### one check -/

theorem handle_out (cfg : Cfg) (now : Time) (jit : Time → Time) (c : Exc) (s : RState) :
    handle cfg now jit c s = (registerError cfg now jit s, .returned false) := by
  cases c <;> rfl

/-- every path of a check, spelled out -/
theorem check_cases (cfg : Cfg) (force : Bool) (now : Time) (jit : Time → Time) (e : Res EtagObs) (l : Res Doc)
    (s : RState) :
    -- suppressed
    (suppressed force now s = true ∧ check cfg force now jit e l s = (s, .returned false)) ∨
    -- etag unchanged
    (suppressed force now s = false ∧ callsLoad force now e s = false ∧
      check cfg force now jit e l s = ({ s with etagCalls := s.etagCalls + 1 }, .returned false)) ∨
    -- etag() raised (unforced)
    (suppressed force now s = false ∧ callsLoad force now e s = false ∧
      check cfg force now jit e l s =
        (registerError cfg now jit { s with etagCalls := s.etagCalls + 1 }, .returned false)) ∨
    -- load() raised
    (suppressed force now s = false ∧ callsLoad force now e s = true ∧ (∃ c, l = .raise c) ∧
      check cfg force now jit e l s =
        (registerError cfg now jit { s with etagCalls := s.etagCalls + 1, loads := s.loads + 1 }, .returned false)) ∨
    -- loaded and published
    (suppressed force now s = false ∧ callsLoad force now e s = true ∧
      ∃ d etag, l = .ok d ∧
        check cfg force now jit e l s =
          (publish cfg etag d { s with etagCalls := s.etagCalls + 1, loads := s.loads + 1 }, .returned true)) := by
  unfold check callsLoad
  cases hs : suppressed force now s
  · unfold afterEtag
    cases force
    · -- unforced
      cases e with
      | raise c => right; right; left; simp [handle_out]
      | ok o =>
        cases hc : (o.toOpt.isSome && o.toOpt == s.lastEtag)
        · right; right; right
          cases l with
          | raise c => left; simp [afterLoad, handle_out, hc]
          | ok d => right; exact ⟨by simp, by simp [hc], d, o.toOpt, rfl, by simp [afterLoad, hc]⟩
        · right; left; simp [hc]
    · -- forced
      right; right; right
      cases l with
      | raise c => left; simp [afterLoad, handle_out]
      | ok d =>
        right
        exact ⟨by simp, by simp, d, forcedTag e, rfl, by simp [afterLoad]⟩
  · left; simp

theorem check_returns_bool (cfg : Cfg) (force : Bool) (now : Time) (jit : Time → Time) (e : Res EtagObs) (l : Res Doc)
    (s : RState) : ∃ b, (check cfg force now jit e l s).2 = .returned b := by
  rcases check_cases cfg force now jit e l s with ⟨_, h⟩ | ⟨_, _, h⟩ | ⟨_, _, h⟩ | ⟨_, _, _, h⟩ | ⟨_, _, d, etag, _, h⟩
  · exact ⟨false, by rw [h]⟩
  · exact ⟨false, by rw [h]⟩
  · exact ⟨false, by rw [h]⟩
  · exact ⟨false, by rw [h]⟩
  · exact ⟨true, by rw [h]⟩

/-- what a check does to the engine: nothing, or (exactly when it returns True) install the document
    its own `load()` returned and clear the cache once -/
theorem check_engine (cfg : Cfg) (force : Bool) (now : Time) (jit : Time → Time) (e : Res EtagObs) (l : Res Doc)
    (s : RState) :
    let r := check cfg force now jit e l s
    (r.2 = .returned false ∧ r.1.enginePolicy = s.enginePolicy ∧ r.1.cacheEpoch = s.cacheEpoch ∧
      loadedBy ⟨now, s⟩ (.check force jit e l) = none) ∨
    (r.2 = .returned true ∧ ∃ d, l = .ok d ∧ loadedBy ⟨now, s⟩ (.check force jit e l) = some d ∧
      r.1.enginePolicy = d ∧ r.1.cacheEpoch = s.cacheEpoch + 1) := by
  intro r
  rcases check_cases cfg force now jit e l s with ⟨hs, h⟩ | ⟨_, hl, h⟩ | ⟨_, hl, h⟩ | ⟨_, hl, ⟨c, hc⟩, h⟩ | ⟨_, hl, d, etag, hd, h⟩
  · left; simp [r, h, loadedBy, callsLoad, hs]
  · left; simp [r, h, loadedBy, hl]
  · left; simp [r, h, loadedBy, hl, registerError]
  · left; simp [r, h, loadedBy, hl, hc, registerError]
  · right; simp [r, h, loadedBy, hl, hd, publish]

theorem check_loads (cfg : Cfg) (force : Bool) (now : Time) (jit : Time → Time) (e : Res EtagObs) (l : Res Doc)
    (s : RState) :
    (check cfg force now jit e l s).1.loads = s.loads + (if callsLoad force now e s then 1 else 0) := by
  rcases check_cases cfg force now jit e l s with ⟨hs, h⟩ | ⟨_, hl, h⟩ | ⟨_, hl, h⟩ | ⟨_, hl, _, h⟩ | ⟨_, hl, d, etag, _, h⟩
  · simp [h, callsLoad, hs]
  · simp [h, hl]
  · simp [h, hl, registerError]
  · simp [h, hl, registerError]
  · simp [h, hl, publish]

theorem forced_calls_load (now : Time) (e : Res EtagObs) (s : RState) : callsLoad true now e s = true := by
  simp [callsLoad, suppressed, afterEtag]

/-- the suppression window after a check: untouched, or `now + max(0.2, b + jit b)` for the doubled,
    clamped back-off `b` -/
theorem check_window (cfg : Cfg) (force : Bool) (now : Time) (jit : Time → Time) (e : Res EtagObs) (l : Res Doc)
    (s : RState) :
    let r := check cfg force now jit e l s
    r.1.suppressUntil = s.suppressUntil ∨
      r.1.suppressUntil = now + max floorUs (nextBackoff cfg s.backoff + jit (nextBackoff cfg s.backoff)) := by
  intro r
  rcases check_cases cfg force now jit e l s with ⟨_, h⟩ | ⟨_, _, h⟩ | ⟨_, _, h⟩ | ⟨_, _, _, h⟩ | ⟨_, _, d, etag, _, h⟩
  · left; simp [r, h]
  · left; simp [r, h]
  · right; simp [r, h, registerError]
  · right; simp [r, h, registerError]
  · left; simp [r, h, publish]

theorem nextBackoff_bounds (cfg : Cfg) (hmin : 0 ≤ cfg.backoffMin) (hmax : 0 ≤ cfg.backoffMax) (b : Time) :
    0 ≤ nextBackoff cfg b ∧ nextBackoff cfg b ≤ cfg.backoffMax := by
  unfold nextBackoff; omega

/-- `max(0.2, b + j) ≤ max(0.2, B·(1 + rN/rD))` for `0 ≤ b ≤ B`, `j ≤ b·rN/rD`, cross-multiplied by `rD > 0` -/
theorem window_le (b j B rN rD : Int) (hbB : b ≤ B) (hrD : 0 < rD) (hrN : 0 ≤ rN)
    (hj : j * rD ≤ rN * b) :
    max floorUs (b + j) * rD ≤ max (floorUs * rD) (B * (rD + rN)) := by
  by_cases hc : floorUs ≤ b + j
  · rw [Int.max_eq_right hc]
    have h5 : (b + j) * rD ≤ B * (rD + rN) := by
      calc (b + j) * rD = b * rD + j * rD := Int.add_mul ..
        _ ≤ b * rD + rN * b := Int.add_le_add_left hj _
        _ = b * (rD + rN) := by rw [Int.mul_add, Int.mul_comm rN b]
        _ ≤ B * (rD + rN) := Int.mul_le_mul_of_nonneg_right hbB (by omega)
    exact Int.le_trans h5 (Int.le_max_right ..)
  · rw [Int.max_eq_left (by omega)]; exact Int.le_max_left ..

/-! ### histories -/

theorem step_policy (cfg : Cfg) (h : HState) (ev : Event) :
    (stepEvent cfg h ev).1.rs.enginePolicy = (loadedBy h ev).getD h.rs.enginePolicy := by
  cases ev with
  | advance dt => rfl
  | check force jit e l =>
    have := check_engine cfg force h.now jit e l h.rs
    simp only [stepEvent]
    rcases this with ⟨_, hp, _, hl⟩ | ⟨_, d, _, hl, hp, _⟩
    · rw [hl]; exact hp
    · rw [hl]; exact hp

/-- the engine's policy after a history of non-overlapping checks is the document the most recent
    successful `load()` returned (the initial policy if there was none) -/
theorem run_policy (cfg : Cfg) (evs : List Event) : ∀ h : HState,
    (run cfg h evs).rs.enginePolicy = ((loadedDocs cfg h evs).getLast?).getD h.rs.enginePolicy := by
  induction evs with
  | nil => intro h; rfl
  | cons ev evs ih =>
    intro h
    simp only [run, loadedDocs]
    rw [ih, step_policy, List.getLast?_append]
    cases hl : loadedBy h ev with
    | none => simp
    | some d => cases (loadedDocs cfg (stepEvent cfg h ev).1 evs).getLast? <;> simp

theorem loadedBy_some (h : HState) (ev : Event) (d : Doc) (hl : loadedBy h ev = some d) :
    ∃ force jit e, ev = .check force jit e (.ok d) ∧ callsLoad force h.now e h.rs = true := by
  cases ev with
  | advance dt => simp [loadedBy] at hl
  | check force jit e l =>
    cases l with
    | raise c => simp [loadedBy] at hl
    | ok d' =>
      simp only [loadedBy] at hl
      by_cases hc : callsLoad force h.now e h.rs = true
      · simp [hc] at hl; subst hl; exact ⟨force, jit, e, rfl, hc⟩
      · simp [hc] at hl

theorem loadedDocs_from_events (cfg : Cfg) (evs : List Event) : ∀ (h : HState) (d : Doc), d ∈ loadedDocs cfg h evs →
    ∃ force jit e, Event.check force jit e (.ok d) ∈ evs := by
  induction evs with
  | nil => intro h d hd; simp [loadedDocs] at hd
  | cons ev evs ih =>
    intro h d hd
    simp only [loadedDocs, List.mem_append, Option.mem_toList] at hd
    rcases hd with hd | hd
    · obtain ⟨force, jit, e, rfl, _⟩ := loadedBy_some h ev d hd
      exact ⟨force, jit, e, List.mem_cons_self ..⟩
    · obtain ⟨force, jit, e, hm⟩ := ih _ d hd
      exact ⟨force, jit, e, List.mem_cons_of_mem _ hm⟩

end Rbacx.Reloader
