import Rbacx.Proofs.Reloader
/-
  Rbacx.Proofs.ReloaderConc — overlapping checks: an invariant of the small-step semantics
  (`cstep`) that holds under every schedule of any number of checks.
-/
namespace Rbacx.Reloader

/-- per-thread part of the invariant: a document about to be published came from a successful
    `load()`; `touched` is set exactly by the publish block; a finished check returned a bool, and
    it returned True iff it published -/
def TInv (loaded : List Doc) (t : Thread) : Prop :=
  match t.pc with
  | .publish _ d => d ∈ loaded ∧ t.touched = false
  | .done out => out = .returned t.touched
  | _ => t.touched = false

def CInv (p0 : Doc) (c : Conc) : Prop :=
  (c.rs.enginePolicy = p0 ∨ c.rs.enginePolicy ∈ c.loaded) ∧ ∀ i, TInv c.loaded (c.ts i)

theorem TInv_mono {l l' : List Doc} (h : ∀ d, d ∈ l → d ∈ l') (t : Thread) (ht : TInv l t) : TInv l' t := by
  unfold TInv at *
  split <;> simp_all

theorem CInv_init (s : RState) : CInv s.enginePolicy (Conc.init s) := by
  refine ⟨Or.inl rfl, fun i => ?_⟩
  simp [Conc.init, TInv, Thread.idle]

def Pre.state : Pre → RState
  | .done s _ => s
  | .load s _ => s
  | .fail s _ => s

theorem afterEtag_state (force : Bool) (last : Option Tag) (e : Res EtagObs) (s : RState) :
    (afterEtag force last e s).state = { s with etagCalls := s.etagCalls + 1 } := by
  unfold afterEtag
  cases force
  · cases e with
    | raise c => rfl
    | ok o =>
      cases hc : (o.toOpt.isSome && o.toOpt == last) <;> simp [hc, Pre.state]
  · rfl

theorem afterEtag_done (force : Bool) (last : Option Tag) (e : Res EtagObs) (s s' : RState) (o : Out)
    (h : afterEtag force last e s = .done s' o) : o = .returned false := by
  unfold afterEtag at h
  cases force
  · cases e with
    | raise c => simp at h
    | ok ob =>
      cases hc : (ob.toOpt.isSome && ob.toOpt == last)
      · simp [hc] at h
      · simp [hc] at h; exact h.2.symm
  · simp at h

/-- what one block does to the engine: nothing, unless it is a publish block -/
theorem stepThread_engine (cfg : Cfg) (t : Thread) (o : Obs) (s : RState) :
    ((stepThread cfg t o s).2.enginePolicy = s.enginePolicy ∧ (stepThread cfg t o s).2.cacheEpoch = s.cacheEpoch ∧
      (stepThread cfg t o s).1.touched = t.touched) ∨
    (∃ etag d, t.pc = .publish etag d ∧ (stepThread cfg t o s).2.enginePolicy = d ∧
      (stepThread cfg t o s).2.cacheEpoch = s.cacheEpoch + 1 ∧
      (stepThread cfg t o s).1.pc = .done (.returned true) ∧ (stepThread cfg t o s).1.touched = true) := by
  cases hpc : t.pc with
  | idle => left; cases o <;> simp [stepThread, hpc]
  | start =>
    left
    cases hs : suppressed t.force t.now s <;> cases o <;> simp [stepThread, hpc, hs]
  | etag last =>
    left
    cases o with
    | none => simp [stepThread, hpc]
    | load l => simp [stepThread, hpc]
    | etag e =>
      have hs := afterEtag_state t.force last e s
      cases h : afterEtag t.force last e s <;> rw [h] at hs <;> simp only [Pre.state] at hs <;>
        simp [stepThread, hpc, h, hs]
  | load etag =>
    left
    cases o with
    | none => simp [stepThread, hpc]
    | etag e => simp [stepThread, hpc]
    | load l => cases l <;> simp [stepThread, hpc]
  | publish etag d =>
    right
    exact ⟨etag, d, rfl, by cases o <;> simp [stepThread, hpc, publish]⟩
  | fail c => left; cases o <;> simp [stepThread, hpc, handle_out, registerError]
  | done out => left; cases o <;> simp [stepThread, hpc]

theorem stepThread_TInv (cfg : Cfg) (loaded : List Doc) (t : Thread) (o : Obs) (s : RState) (ht : TInv loaded t) :
    TInv (loaded ++ newlyLoaded t.pc o) (stepThread cfg t o s).1 := by
  have mono : TInv (loaded ++ newlyLoaded t.pc o) t :=
    TInv_mono (fun d hd => List.mem_append_left _ hd) t ht
  cases hpc : t.pc with
  | idle => cases o <;> simpa [stepThread, hpc] using mono
  | done out => cases o <;> simpa [stepThread, hpc] using mono
  | start =>
    have ht' : t.touched = false := by simpa [TInv, hpc] using ht
    cases hs : suppressed t.force t.now s <;> cases o <;> simp [stepThread, hpc, hs, TInv, ht']
  | etag last =>
    have ht' : t.touched = false := by simpa [TInv, hpc] using ht
    cases o with
    | none => simpa [stepThread, hpc] using mono
    | load l => simpa [stepThread, hpc] using mono
    | etag e =>
      cases h' : afterEtag t.force last e s with
      | done s' out => simp [stepThread, hpc, h', TInv, ht', afterEtag_done _ _ _ _ _ _ h']
      | fail s' c => simp [stepThread, hpc, h', TInv, ht']
      | load s' etag => simp [stepThread, hpc, h', TInv, ht']
  | load etag =>
    have ht' : t.touched = false := by simpa [TInv, hpc] using ht
    cases o with
    | none => simpa [stepThread, hpc] using mono
    | etag e => simpa [stepThread, hpc] using mono
    | load l => cases l <;> simp [stepThread, hpc, TInv, ht', newlyLoaded]
  | publish etag d => cases o <;> simp [stepThread, hpc, TInv]
  | fail c =>
    have ht' : t.touched = false := by simpa [TInv, hpc] using ht
    cases o <;> simp [stepThread, hpc, TInv, handle_out, ht']

theorem cstep_CInv (cfg : Cfg) (p0 : Doc) (c : Conc) (ev : CEvent) (h : CInv p0 c) : CInv p0 (cstep cfg c ev) := by
  obtain ⟨hp, ht⟩ := h
  cases ev with
  | spawn i force now jit =>
    simp only [cstep]
    by_cases hc : canSpawn (c.ts i).pc = true
    · rw [if_pos hc]
      refine ⟨hp, fun j => ?_⟩
      by_cases hj : j = i
      · simp [upd, hj, TInv]
      · simpa [upd, hj] using ht j
    · rw [if_neg hc]; exact ⟨hp, ht⟩
  | step i o =>
    simp only [cstep]
    constructor
    · rcases stepThread_engine cfg (c.ts i) o c.rs with ⟨he, _, _⟩ | ⟨etag, d, hpc, he, _⟩
      · rw [he]
        rcases hp with hp | hp
        · left; exact hp
        · right; exact List.mem_append_left _ hp
      · right
        rw [he]
        have := ht i
        simp only [TInv, hpc] at this
        exact List.mem_append_left _ this.1
    · intro j
      by_cases hj : j = i
      · subst hj
        simpa [upd] using stepThread_TInv cfg c.loaded (c.ts j) o c.rs (ht j)
      · simp only [upd, hj, if_false]
        exact TInv_mono (fun d hd => List.mem_append_left _ hd) _ (ht j)

theorem crun_CInv (cfg : Cfg) (p0 : Doc) (evs : List CEvent) : ∀ c, CInv p0 c → CInv p0 (crun cfg c evs) := by
  induction evs with
  | nil => intro c h; exact h
  | cons ev evs ih => intro c h; exact ih _ (cstep_CInv cfg p0 c ev h)

/-- every document in the ghost list was returned by a successful `load()` of the schedule -/
theorem crun_loaded (cfg : Cfg) (evs : List CEvent) : ∀ (c : Conc) (d : Doc), d ∈ (crun cfg c evs).loaded →
    d ∈ c.loaded ∨ ∃ i, CEvent.step i (.load (.ok d)) ∈ evs := by
  induction evs with
  | nil => intro c d h; left; exact h
  | cons ev evs ih =>
    intro c d h
    rcases ih _ d h with h' | ⟨i, hi⟩
    · cases ev with
      | spawn i force now jit =>
        left
        simp only [cstep] at h'
        split at h' <;> exact h'
      | step i o =>
        simp only [cstep, List.mem_append] at h'
        rcases h' with h' | h'
        · left; exact h'
        · right
          refine ⟨i, ?_⟩
          unfold newlyLoaded at h'
          split at h'
          · simp at h'; subst h'; exact List.mem_cons_self ..
          · simp at h'
    · right; exact ⟨i, List.mem_cons_of_mem _ hi⟩

/-- the sequential function `check` is the four blocks run back to back by one thread -/
theorem blocks_eq_check (cfg : Cfg) (c : Conc) (i : Nat) (force : Bool) (now : Time) (jit : Time → Time)
    (e : Res EtagObs) (l : Res Doc) (hidle : canSpawn (c.ts i).pc = true) :
    (crun cfg c [.spawn i force now jit, .step i .none, .step i (.etag e), .step i (.load l), .step i .none]).rs =
      (check cfg force now jit e l c.rs).1 ∧
    ((crun cfg c [.spawn i force now jit, .step i .none, .step i (.etag e), .step i (.load l), .step i .none]).ts i).pc =
      .done (check cfg force now jit e l c.rs).2 := by
  simp only [crun, cstep, hidle, if_true, upd]
  unfold check
  cases hs : suppressed force now c.rs
  · cases h : afterEtag force c.rs.lastEtag e c.rs with
    | done s' out => simp [stepThread, hs, h]
    | fail s' x => simp [stepThread, hs, h]
    | load s' etag => cases l <;> simp [stepThread, hs, h, afterLoad]
  · simp [stepThread, hs]

end Rbacx.Reloader
