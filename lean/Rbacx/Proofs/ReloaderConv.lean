import Rbacx.Proofs.Reloader
/-
  Rbacx.Proofs.ReloaderConv — convergence of a reloader to an honest source.

  `Honest S`: the source has a (ghost) version number that its own calls do not change, a tag it
  reports identifies the version it was reported at, and a successful `load()` returns the
  document of the current version.  Whatever happens to the source from outside may only move the
  version forward ("write *new* document"; a metadata-only touch keeps the version).
-/
namespace Rbacx.Reloader

structure Honest {σ : Type} (S : Source σ) where
  /-- well-formedness of source states (e.g. "the file source's cached sha belongs to the cached signature") -/
  good : σ → Prop
  version : σ → Nat
  verOfTag : Tag → Nat
  docOfVer : Nat → Doc
  etag_good : ∀ w, good w → good (S.etag w).2
  load_good : ∀ w, good w → good (S.load w).2
  etag_ver : ∀ w, good w → version (S.etag w).2 = version w
  load_ver : ∀ w, good w → version (S.load w).2 = version w
  /-- a reported tag is the tag of the current version -/
  etag_honest : ∀ w t, good w → (S.etag w).1 = .ok (.tag t) → verOfTag t = version w
  /-- a successful load returns the document of the current version -/
  load_honest : ∀ w d, good w → (S.load w).1 = .ok d → d = docOfVer (version w)

variable {σ : Type} {S : Source σ}

/-- an outside change of the source: keeps it well-formed and never moves the version back -/
def Honest.EnvOk (H : Honest S) (f : σ → σ) : Prop := ∀ w, H.good w → H.good (f w) ∧ H.version w ≤ H.version (f w)

theorem Honest.envOk_id (H : Honest S) : H.EnvOk id := fun _ h => ⟨h, Nat.le_refl _⟩

def Honest.EvOk (H : Honest S) : WEvent σ → Prop
  | .env f => H.EnvOk f
  | .advance _ => True
  | .check _ _ mid => H.EnvOk mid

/-- source states reachable by `etag()` / `load()` calls alone -/
inductive Calls (S : Source σ) : σ → σ → Prop where
  | refl (w : σ) : Calls S w w
  | etag {w w' : σ} : Calls S w w' → Calls S w (S.etag w').2
  | load {w w' : σ} : Calls S w w' → Calls S w (S.load w').2

theorem Calls.trans {a b c : σ} (h1 : Calls S a b) (h2 : Calls S b c) : Calls S a c := by
  induction h2 with
  | refl => exact h1
  | etag _ ih => exact .etag ih
  | load _ ih => exact .load ih

/-- the source has stopped changing and is loadable: from here on every `etag()` answers `E` and
    every `load()` returns `D` -/
def StableAt (S : Source σ) (E : EtagObs) (D : Doc) (w : σ) : Prop :=
  ∀ w', Calls S w w' → (S.etag w').1 = .ok E ∧ (S.load w').1 = .ok D

theorem StableAt.etag {E : EtagObs} {D : Doc} {w : σ} (h : StableAt S E D w) : StableAt S E D (S.etag w).2 :=
  fun w' hc => h w' (Calls.trans (.etag (.refl w)) hc)

theorem StableAt.load {E : EtagObs} {D : Doc} {w : σ} (h : StableAt S E D w) : StableAt S E D (S.load w).2 :=
  fun w' hc => h w' (Calls.trans (.load (.refl w)) hc)

/-- Coherence of reloader and source: if `_last_etag` is a tag, then either the engine holds a
    document at least as new as that tag (and not newer than the source), or the tag is the one
    the constructor primed (version `v0`) and nothing has been loaded under it. -/
def Coh (H : Honest S) (v0 : Option Nat) (w : WState σ) : Prop :=
  H.good w.src ∧
  ∀ t, w.rs.lastEtag = some t →
    (∃ dv, H.verOfTag t ≤ dv ∧ dv ≤ H.version w.src ∧ w.rs.enginePolicy = H.docOfVer dv) ∨
    (v0 = some (H.verOfTag t) ∧ H.verOfTag t ≤ H.version w.src)

/-- the version the constructor primed `_last_etag` at, if it primed at all -/
def primedAt (H : Honest S) (initialLoad asyncEtag : Bool) (σ0 : σ) : Option Nat :=
  if initialLoad || asyncEtag then none else some (H.version σ0)

theorem coh_init (H : Honest S) (cfg : Cfg) (initialLoad asyncEtag : Bool) (now0 : Time) (p0 : Doc) (σ0 : σ)
    (hg : H.good σ0) : Coh H (primedAt H initialLoad asyncEtag σ0) (winit S cfg initialLoad asyncEtag now0 p0 σ0) := by
  unfold winit primedAt
  by_cases hc : (initialLoad || asyncEtag) = true
  · simp only [hc, if_true]
    exact ⟨hg, fun t ht => by simp [init, Prime.tag] at ht⟩
  · simp only [hc]
    refine ⟨H.etag_good _ hg, fun t ht => ?_⟩
    right
    simp only [init] at ht
    have : (S.etag σ0).1 = .ok (.tag t) := by
      cases he : (S.etag σ0).1 with
      | raise c => rw [he] at ht; simp [Prime.tag] at ht
      | ok o => rw [he] at ht; cases o <;> simp [Prime.tag] at ht; rw [ht]
    have hv := H.etag_honest σ0 t hg this
    simp only [Bool.false_eq_true, if_false]
    exact ⟨by rw [hv], by rw [hv, H.etag_ver _ hg]; exact Nat.le_refl _⟩

theorem coh_weaken (H : Honest S) (v0 : Option Nat) (w : WState σ) (rs' : RState) (src' : σ) (now' : Time)
    (h : Coh H v0 w) (hg : H.good src') (hv : H.version w.src ≤ H.version src')
    (he : rs'.lastEtag = w.rs.lastEtag) (hp : rs'.enginePolicy = w.rs.enginePolicy) :
    Coh H v0 { now := now', rs := rs', src := src' } := by
  refine ⟨hg, fun t ht => ?_⟩
  rw [he] at ht
  rcases h.2 t ht with ⟨dv, h1, h2, h3⟩ | ⟨h1, h2⟩
  · left; exact ⟨dv, h1, Nat.le_trans h2 hv, by rw [hp]; exact h3⟩
  · right; exact ⟨h1, Nat.le_trans h2 hv⟩

/-- the tag a check records comes from the `etag()` answer it saw -/
theorem afterEtag_load_tag (force : Bool) (last : Option Tag) (e : Res EtagObs) (s s' : RState) (etag : Option Tag)
    (t : Tag) (h : afterEtag force last e s = .load s' etag) (ht : etag = some t) : e = .ok (.tag t) := by
  unfold afterEtag at h
  cases force
  · cases e with
    | raise c => simp at h
    | ok o =>
      cases hc : (o.toOpt.isSome && o.toOpt == last)
      · simp [hc] at h
        cases o <;> simp_all [EtagObs.toOpt]
      · simp [hc] at h
  · simp at h
    cases e with
    | raise c => simp_all [forcedTag]
    | ok o => cases o <;> simp_all [forcedTag, EtagObs.toOpt]

theorem afterEtag_keeps (force : Bool) (last : Option Tag) (e : Res EtagObs) (s : RState) :
    (match afterEtag force last e s with
     | .done s' _ => s'.lastEtag = s.lastEtag ∧ s'.enginePolicy = s.enginePolicy ∧ s'.suppressUntil = s.suppressUntil
     | .fail s' _ => s'.lastEtag = s.lastEtag ∧ s'.enginePolicy = s.enginePolicy ∧ s'.suppressUntil = s.suppressUntil
     | .load s' _ => s'.lastEtag = s.lastEtag ∧ s'.enginePolicy = s.enginePolicy ∧ s'.suppressUntil = s.suppressUntil) := by
  unfold afterEtag
  cases force
  · cases e with
    | raise c => simp
    | ok o => cases hc : (o.toOpt.isSome && o.toOpt == last) <;> simp [hc]
  · simp

/-- coherence is preserved by every check, whatever the source does in the middle of it -/
theorem coh_wcheck (H : Honest S) (cfg : Cfg) (v0 : Option Nat) (force : Bool) (jit : Time → Time) (mid : σ → σ)
    (hmid : H.EnvOk mid) (w : WState σ) (h : Coh H v0 w) : Coh H v0 (wcheck S cfg force jit mid w).1 := by
  unfold wcheck
  cases hs : suppressed force w.now w.rs
  case true =>
    simp only [if_true]
    exact coh_weaken H v0 w _ _ _ h (hmid _ h.1).1 (hmid _ h.1).2 rfl rfl
  case false =>
    simp only [Bool.false_eq_true, if_false]
    have hg1 := H.etag_good _ h.1
    have hv1 := H.etag_ver _ h.1
    have hg2 := (hmid _ hg1).1
    have hv2 : H.version w.src ≤ H.version (mid (S.etag w.src).2) := by
      have := (hmid _ hg1).2; rw [hv1] at this; exact this
    have hk := afterEtag_keeps force w.rs.lastEtag (S.etag w.src).1 w.rs
    cases ha : afterEtag force w.rs.lastEtag (S.etag w.src).1 w.rs with
    | done s' o =>
      rw [ha] at hk
      exact coh_weaken H v0 w _ _ _ h hg2 hv2 hk.1 hk.2.1
    | fail s' c =>
      rw [ha] at hk
      simp only [handle_out]
      exact coh_weaken H v0 w _ _ _ h hg2 hv2 (by simp [registerError, hk.1]) (by simp [registerError, hk.2.1])
    | load s' etag =>
      rw [ha] at hk
      simp only
      have hg3 := H.load_good _ hg2
      have hv3 := H.load_ver _ hg2
      cases hl : (S.load (mid (S.etag w.src).2)).1 with
      | raise c =>
        simp only [afterLoad, handle_out]
        exact coh_weaken H v0 w _ _ _ h hg3 (by rw [hv3]; exact hv2) (by simp [registerError, hk.1])
          (by simp [registerError, hk.2.1])
      | ok d =>
        simp only [afterLoad, publish]
        refine ⟨hg3, fun t ht => ?_⟩
        left
        have he := afterEtag_load_tag force _ _ _ _ _ t ha ht
        have hvt := H.etag_honest _ t h.1 he
        have hd := H.load_honest _ d hg2 hl
        exact ⟨H.version (mid (S.etag w.src).2), by rw [hvt]; exact hv2, by rw [hv3]; exact Nat.le_refl _, hd⟩

theorem coh_wstep (H : Honest S) (cfg : Cfg) (v0 : Option Nat) (w : WState σ) (ev : WEvent σ) (hev : H.EvOk ev)
    (h : Coh H v0 w) : Coh H v0 (wstep S cfg w ev).1 := by
  cases ev with
  | env f => exact coh_weaken H v0 w _ _ _ h (hev _ h.1).1 (hev _ h.1).2 rfl rfl
  | advance dt => exact coh_weaken H v0 w _ _ _ h h.1 (Nat.le_refl _) rfl rfl
  | check force jit mid => exact coh_wcheck H cfg v0 force jit mid hev w h

theorem coh_wrun (H : Honest S) (cfg : Cfg) (v0 : Option Nat) (evs : List (WEvent σ)) :
    ∀ w, (∀ ev ∈ evs, H.EvOk ev) → Coh H v0 w → Coh H v0 (wrun S cfg w evs) := by
  induction evs with
  | nil => intro w _ h; exact h
  | cons ev evs ih =>
    intro w hev h
    exact ih _ (fun e he => hev e (List.mem_cons_of_mem _ he)) (coh_wstep H cfg v0 w ev (hev ev List.mem_cons_self) h)

/-! ### convergence -/

/-- the engine enforces the source's document, the recorded tag is the source's tag, unforced
    checks are not suppressed, and the source stays as it is -/
def Converged (S : Source σ) (E : EtagObs) (D : Doc) (w : WState σ) : Prop :=
  w.rs.enginePolicy = D ∧ w.rs.lastEtag = E.toOpt ∧ w.rs.suppressUntil ≤ w.now ∧ StableAt S E D w.src

theorem unsuppressed_of_le (now : Time) (s : RState) (h : s.suppressUntil ≤ now) : suppressed false now s = false := by
  simp only [suppressed, Bool.not_false, Bool.and_true, decide_eq_false_iff_not]
  omega

theorem toOpt_some (E : EtagObs) (t : Tag) (h : E.toOpt = some t) : E = .tag t := by
  cases E <;> simp_all [EtagObs.toOpt]

/-- one unforced check on a stable, loadable, honest source outside the back-off window -/
theorem converge_first (H : Honest S) (cfg : Cfg) (v0 : Option Nat) (jit : Time → Time) (w : WState σ)
    (E : EtagObs) (D : Doc) (hcoh : Coh H v0 w) (hst : StableAt S E D w.src) (hnow : w.rs.suppressUntil ≤ w.now)
    (hprov : ∀ v, v0 = some v → v < H.version w.src) :
    Converged S E D (wcheck S cfg false jit id w).1 := by
  have he := (hst _ (.refl _)).1
  have hl0 := (hst _ (.refl _)).2
  have hl1 := (hst.etag _ (.refl _)).2
  unfold wcheck
  simp only [unsuppressed_of_le _ _ hnow, Bool.false_eq_true, if_false, id]
  rw [he]
  unfold afterEtag
  simp only [Bool.false_eq_true, if_false]
  cases hc : (E.toOpt.isSome && E.toOpt == w.rs.lastEtag)
  · -- tag differs (or there is none): load and publish
    simp only [Bool.false_eq_true, if_false, afterLoad, hl1, publish]
    exact ⟨rfl, rfl, hnow, hst.etag.load⟩
  · -- tag unchanged: by coherence the engine already holds the current document
    simp only [if_true]
    refine ⟨?_, ?_, hnow, hst.etag⟩
    · simp only [Bool.and_eq_true, beq_iff_eq] at hc
      obtain ⟨hsome, heq⟩ := hc
      obtain ⟨t, ht⟩ := Option.isSome_iff_exists.mp hsome
      have hE := toOpt_some E t ht
      have hlast : w.rs.lastEtag = some t := by rw [← heq, ht]
      have hvt := H.etag_honest _ t hcoh.1 (by rw [he, hE])
      have hD := H.load_honest _ D hcoh.1 hl0
      rcases hcoh.2 t hlast with ⟨dv, h1, h2, h3⟩ | ⟨h1, _⟩
      · have : dv = H.version w.src := by omega
        show w.rs.enginePolicy = D
        rw [h3, this, hD]
      · have := hprov _ h1
        omega
    · simp only [Bool.and_eq_true, beq_iff_eq] at hc
      exact hc.2.symm

/-- once converged, an unforced check keeps it so; with a tagged source it returns False without loading -/
theorem converged_check (cfg : Cfg) (jit : Time → Time) (w : WState σ) (E : EtagObs) (D : Doc)
    (h : Converged S E D w) :
    Converged S E D (wcheck S cfg false jit id w).1 ∧
    (∀ t, E = .tag t → (wcheck S cfg false jit id w).2 = .returned false ∧
      (wcheck S cfg false jit id w).1.rs.loads = w.rs.loads) := by
  obtain ⟨hp, hlast, hnow, hst⟩ := h
  have he := (hst _ (.refl _)).1
  have hl1 := (hst.etag _ (.refl _)).2
  unfold wcheck
  simp only [unsuppressed_of_le _ _ hnow, Bool.false_eq_true, if_false, id]
  rw [he]
  unfold afterEtag
  simp only [Bool.false_eq_true, if_false]
  cases hc : (E.toOpt.isSome && E.toOpt == w.rs.lastEtag)
  · simp only [Bool.false_eq_true, if_false, afterLoad, hl1, publish]
    refine ⟨⟨rfl, rfl, hnow, hst.etag.load⟩, fun t ht => ?_⟩
    rw [hlast, ht] at hc
    simp [EtagObs.toOpt] at hc
  · simp only [if_true]
    exact ⟨⟨hp, hlast, hnow, hst.etag⟩, fun t _ => ⟨by simp, by simp⟩⟩

/-- the first check of a convergence may still see an older answer of `etag()`: the source changes
    for the last time between that `etag()` and the `load()` -/
theorem wcheck_mid (H : Honest S) (cfg : Cfg) (jit : Time → Time) (mid : σ → σ) (w : WState σ) (E : EtagObs) (D : Doc)
    (o : EtagObs) (hg : H.good w.src) (hmid : H.EnvOk mid) (he : (S.etag w.src).1 = .ok o)
    (hst : StableAt S E D (mid (S.etag w.src).2)) (hnow : w.rs.suppressUntil ≤ w.now) :
    StableAt S E D (wcheck S cfg false jit mid w).1.src ∧
    (wcheck S cfg false jit mid w).1.rs.suppressUntil = w.rs.suppressUntil ∧
    (wcheck S cfg false jit mid w).1.now = w.now ∧
    H.version (wcheck S cfg false jit mid w).1.src = H.version (mid (S.etag w.src).2) := by
  have hl := (hst _ (.refl _)).2
  have hg2 := (hmid _ (H.etag_good _ hg)).1
  unfold wcheck
  simp only [unsuppressed_of_le _ _ hnow, Bool.false_eq_true, if_false]
  rw [he]
  unfold afterEtag
  simp only [Bool.false_eq_true, if_false]
  cases hc : (o.toOpt.isSome && o.toOpt == w.rs.lastEtag)
  · simp only [Bool.false_eq_true, if_false, afterLoad, hl, publish]
    exact ⟨hst.load, trivial, trivial, H.load_ver _ hg2⟩
  · simp only [if_true]
    exact ⟨hst, trivial, trivial, trivial⟩

/-- a set of source states closed under the source's own calls, on which the answers are constant -/
theorem stable_of_inv (I : σ → Prop) (E : EtagObs) (D : Doc)
    (hetag : ∀ w, I w → I (S.etag w).2) (hload : ∀ w, I w → I (S.load w).2)
    (hans : ∀ w, I w → (S.etag w).1 = .ok E ∧ (S.load w).1 = .ok D) (w : σ) (hw : I w) : StableAt S E D w := by
  intro w' hc
  have : I w' := by
    induction hc with
    | refl => exact hw
    | etag _ ih => exact hetag _ ih
    | load _ ih => exact hload _ ih
  exact hans w' this

/-- the suffix after convergence: clock advances and unforced checks, the source left alone -/
def Quiet (evs : List (WEvent σ)) : Prop :=
  ∀ ev ∈ evs, (∃ dt, ev = .advance dt) ∨ (∃ jit, ev = .check false jit id)

theorem converged_run (cfg : Cfg) (E : EtagObs) (D : Doc) (evs : List (WEvent σ)) (hq : Quiet evs) :
    ∀ w, Converged S E D w →
      Converged S E D (wrun S cfg w evs) ∧
      (∀ t, E = .tag t → (∀ o ∈ woutputs S cfg w evs, o = .returned false) ∧ (wrun S cfg w evs).rs.loads = w.rs.loads) := by
  induction evs with
  | nil => intro w h; exact ⟨h, fun t _ => ⟨by simp [woutputs], rfl⟩⟩
  | cons ev evs ih =>
    intro w h
    have hq' : Quiet evs := fun e he => hq e (List.mem_cons_of_mem _ he)
    rcases hq ev List.mem_cons_self with ⟨dt, rfl⟩ | ⟨jit, rfl⟩
    · have h1 : Converged S E D (wstep S cfg w (.advance dt)).1 := by
        obtain ⟨a, b, c, d⟩ := h
        exact ⟨a, b, by simp only [wstep]; omega, d⟩
      obtain ⟨hc, hr⟩ := ih hq' _ h1
      refine ⟨hc, fun t ht => ?_⟩
      obtain ⟨ho, hl⟩ := hr t ht
      exact ⟨by simpa [woutputs, wstep] using ho, by simpa [wrun, wstep] using hl⟩
    · obtain ⟨h1, h2⟩ := converged_check cfg jit w E D h
      obtain ⟨hc, hr⟩ := ih hq' _ h1
      refine ⟨hc, fun t ht => ?_⟩
      obtain ⟨ho, hl⟩ := hr t ht
      obtain ⟨ho1, hl1⟩ := h2 t ht
      refine ⟨?_, ?_⟩
      · intro o hmem
        simp only [woutputs, wstep, Option.toList, List.cons_append, List.nil_append, List.mem_cons] at hmem
        rcases hmem with rfl | hmem
        · exact ho1
        · exact ho o hmem
      · simp only [wrun, wstep]
        rw [hl, hl1]

end Rbacx.Reloader
