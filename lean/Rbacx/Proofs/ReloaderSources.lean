import Rbacx.Proofs.ReloaderConv
/-
  Rbacx.Proofs.ReloaderSources — the shipped sources (and the scripted custom source) are honest.

  `ver : Tag → Nat` and `doc : Nat → Doc` name the contents that ever exist: the tag of a content
  identifies the write that produced it (hashes / ETags / version ids do not collide, every write
  is a *new* document), and a valid content of write `n` parses to `doc n`.  These are the
  hypotheses under which "the source's current document" is well defined; they are properties of
  the world the source lives in and appear in each `good` predicate and in the `*_write_ok` lemmas.
-/
namespace Rbacx.Reloader

/-- a valid content of write `n` parses to the document `doc n` -/
def Blob.Named (doc : Nat → Doc) (b : Blob) : Prop :=
  b.valid = true → doc b.serial = b.doc

theorem parse_ok {b : Blob} {d : Doc} (h : b.parse = .ok d) : b.valid = true ∧ d = b.doc := by
  unfold Blob.parse at h
  by_cases hv : b.valid = true
  · simp [hv] at h; exact ⟨hv, h.symm⟩
  · simp [hv] at h

/-! ### scripted custom source -/

def customGood (ver : Tag → Nat) (doc : Nat → Doc) (w : CustomW) : Prop :=
  ∀ b, w.cur = some b → b.serial = w.hi ∧ ver b.sha = b.serial ∧ b.Named doc

def customHonest (ver : Tag → Nat) (doc : Nat → Doc) : Honest customSource where
  good := customGood ver doc
  version := fun w => w.hi
  verOfTag := ver
  docOfVer := doc
  etag_good := by
    intro w h
    simp only [customSource, customEtag]
    split
    · exact h
    · split <;> exact h
  load_good := by
    intro w h
    simp only [customSource, customLoad]
    split
    · exact h
    · split <;> exact h
  etag_ver := by
    intro w _
    simp only [customSource, customEtag]
    split
    · rfl
    · split <;> rfl
  load_ver := by
    intro w _
    simp only [customSource, customLoad]
    split
    · rfl
    · split <;> rfl
  etag_honest := by
    intro w t h he
    simp only [customSource, customEtag] at he
    split at he
    · simp at he
    · split at he
      · rename_i b hm hc
        simp at he
        obtain ⟨h1, h2, _⟩ := h b hc
        rw [← he, h2, h1]
      all_goals simp at he
  load_honest := by
    intro w d h hl
    simp only [customSource, customLoad] at hl
    split at hl
    · simp at hl
    · split at hl
      · simp at hl
      · rename_i b hc
        obtain ⟨hv, hd⟩ := parse_ok hl
        obtain ⟨h1, _, h3⟩ := h b hc
        rw [hd, ← h3 hv, h1]

/-- writing a new, correctly named document is an admissible change of the custom source -/
theorem custom_write_ok (ver : Tag → Nat) (doc : Nat → Doc) (b : Blob) (m : Nat)
    (hver : ver b.sha = b.serial) (hdoc : b.Named doc) :
    ∀ w, customGood ver doc w → w.hi ≤ b.serial →
      customGood ver doc (w.apply (.write b m)) ∧ (customHonest ver doc).version w ≤ (customHonest ver doc).version (w.apply (.write b m)) := by
  intro w _ hnew
  refine ⟨?_, hnew⟩
  intro b' hb'
  simp only [CustomW.apply] at hb' ⊢
  cases hb'
  exact ⟨rfl, hver, hdoc⟩

theorem custom_other_ok (ver : Tag → Nat) (doc : Nat → Doc) (op : SrcOp) (hop : ∀ b m, op ≠ .write b m) :
    (customHonest ver doc).EnvOk (fun w => w.apply op) := by
  intro w h
  cases op with
  | write b m => exact absurd rfl (hop b m)
  | delete => exact ⟨fun b hb => by simp [CustomW.apply] at hb, Nat.le_refl _⟩
  | touch m => exact ⟨h, Nat.le_refl _⟩
  | faultEtag c => exact ⟨fun b hb => h b (by simpa [CustomW.apply] using hb), Nat.le_refl _⟩
  | faultLoad c => exact ⟨fun b hb => h b (by simpa [CustomW.apply] using hb), Nat.le_refl _⟩
  | headFails v => exact ⟨h, Nat.le_refl _⟩
  | attrsFail v => exact ⟨h, Nat.le_refl _⟩

/-! ### FilePolicySource (`include_mtime_in_etag=False`) -/

/-- the last conjunct is the property's proviso: a cached (size, mtime) signature equal to the
    file's current one belongs to the file's current content -/
def fileGood (ver : Tag → Nat) (doc : Nat → Doc) (w : FileW) : Prop :=
  w.mtimeInTag = false ∧
  (∀ f, w.disk = some f → f.blob.serial = w.hi ∧ ver f.blob.sha = f.blob.serial ∧ f.blob.Named doc) ∧
  (∀ f sig sha, w.disk = some f → w.cache = some (sig, sha) → sig = (f.blob.size, f.mtime) → sha = f.blob.sha)

theorem fileEtag_sha (ver : Tag → Nat) (doc : Nat → Doc) (w : FileW) (f : FileOnDisk) (h : fileGood ver doc w)
    (hd : w.disk = some f) :
    fileEtag w = (.ok (.tag f.blob.sha), { w with cache := some ((f.blob.size, f.mtime), f.blob.sha) }) := by
  obtain ⟨hm, _, hc⟩ := h
  unfold fileEtag
  rw [hd]
  simp only [hm, Bool.false_eq_true, if_false]
  cases hcache : w.cache with
  | none => rfl
  | some p =>
    obtain ⟨sig, sha⟩ := p
    by_cases hs : sig = (f.blob.size, f.mtime)
    · have := hc f sig sha hd hcache hs
      simp [hs, this]
    · simp [hs]

def fileHonest (ver : Tag → Nat) (doc : Nat → Doc) : Honest fileSource where
  good := fileGood ver doc
  version := fun w => w.hi
  verOfTag := ver
  docOfVer := doc
  etag_good := by
    intro w h
    simp only [fileSource]
    cases hd : w.disk with
    | none =>
      simp only [fileEtag, hd]
      exact ⟨h.1, fun f hf => by simp at hf, fun f sig sha hf => by simp at hf⟩
    | some f =>
      rw [fileEtag_sha ver doc w f h hd]
      refine ⟨h.1, fun f' hf' => h.2.1 f' hf', ?_⟩
      intro f' sig sha hf' hc _
      simp only at hf' hc
      rw [hd] at hf'
      cases hf'
      cases hc
      rfl
  load_good := by
    intro w h
    simp only [fileSource, fileLoad]
    split <;> exact h
  etag_ver := by
    intro w h
    simp only [fileSource]
    cases hd : w.disk with
    | none => simp [fileEtag, hd]
    | some f => rw [fileEtag_sha ver doc w f h hd]
  load_ver := by
    intro w _
    simp only [fileSource, fileLoad]
    split <;> rfl
  etag_honest := by
    intro w t h he
    simp only [fileSource] at he
    cases hd : w.disk with
    | none => simp [fileEtag, hd] at he
    | some f =>
      rw [fileEtag_sha ver doc w f h hd] at he
      simp at he
      obtain ⟨h1, h2, _⟩ := h.2.1 f hd
      rw [← he, h2, h1]
  load_honest := by
    intro w d h hl
    simp only [fileSource, fileLoad] at hl
    split at hl
    · simp at hl
    · rename_i f hd
      obtain ⟨hv, hdoc⟩ := parse_ok hl
      obtain ⟨h1, _, h3⟩ := h.2.1 f hd
      rw [hdoc, ← h3 hv, h1]

/-- a write of a new, correctly named content that does not collide with the cached signature
    (the property's proviso: a content change comes with a size or mtime change) -/
theorem file_write_ok (ver : Tag → Nat) (doc : Nat → Doc) (b : Blob) (m : Nat)
    (hver : ver b.sha = b.serial) (hdoc : b.Named doc) :
    ∀ w, fileGood ver doc w → w.hi ≤ b.serial →
      (∀ sig sha, w.cache = some (sig, sha) → sig = (b.size, m) → sha = b.sha) →
      fileGood ver doc (w.apply (.write b m)) ∧ (fileHonest ver doc).version w ≤ (fileHonest ver doc).version (w.apply (.write b m)) := by
  intro w h hnew hsig
  refine ⟨⟨h.1, ?_, ?_⟩, hnew⟩
  · intro f hf
    simp only [FileW.apply] at hf ⊢
    cases hf
    exact ⟨rfl, hver, hdoc⟩
  · intro f sig sha hf hc hs
    simp only [FileW.apply] at hf hc
    cases hf
    exact hsig sig sha hc hs

theorem file_delete_ok (ver : Tag → Nat) (doc : Nat → Doc) : (fileHonest ver doc).EnvOk (fun w => w.apply .delete) := by
  intro w h
  exact ⟨⟨h.1, fun f hf => by simp [FileW.apply] at hf, fun f sig sha hf => by simp [FileW.apply] at hf⟩, Nat.le_refl _⟩

/-- a touch to an mtime that does not resurrect a stale cached signature -/
theorem file_touch_ok (ver : Tag → Nat) (doc : Nat → Doc) (m : Nat) :
    ∀ w, fileGood ver doc w →
      (∀ f sig sha, w.disk = some f → w.cache = some (sig, sha) → sig = (f.blob.size, m) → sha = f.blob.sha) →
      fileGood ver doc (w.apply (.touch m)) ∧ (fileHonest ver doc).version w ≤ (fileHonest ver doc).version (w.apply (.touch m)) := by
  intro w h hsig
  cases hd : w.disk with
  | none =>
    have : w.apply (.touch m) = w := by simp [FileW.apply, hd]
    rw [this]; exact ⟨h, Nat.le_refl _⟩
  | some f =>
    have : w.apply (.touch m) = { w with disk := some { f with mtime := m } } := by simp [FileW.apply, hd]
    rw [this]
    refine ⟨⟨h.1, ?_, ?_⟩, Nat.le_refl _⟩
    · intro f' hf'
      simp only at hf'
      cases hf'
      exact h.2.1 f hd
    · intro f' sig sha hf' hc hs
      simp only at hf' hc
      cases hf'
      exact hsig f sig sha hd hc hs

/-- a present, parseable file that is left alone is a stable source: `etag()` keeps answering its
    sha and `load()` its document -/
theorem file_stable (ver : Tag → Nat) (doc : Nat → Doc) (w : FileW) (f : FileOnDisk) (h : fileGood ver doc w)
    (hd : w.disk = some f) (hv : f.blob.valid = true) : StableAt fileSource (.tag f.blob.sha) f.blob.doc w := by
  apply stable_of_inv (fun w' => fileGood ver doc w' ∧ w'.disk = some f)
  · intro w' ⟨hg, hd'⟩
    refine ⟨(fileHonest ver doc).etag_good w' hg, ?_⟩
    simp only [fileSource]
    rw [fileEtag_sha ver doc w' f hg hd']
    exact hd'
  · intro w' ⟨hg, hd'⟩
    refine ⟨(fileHonest ver doc).load_good w' hg, ?_⟩
    simp only [fileSource, fileLoad, hd']
  · intro w' ⟨hg, hd'⟩
    constructor
    · simp only [fileSource]; rw [fileEtag_sha ver doc w' f hg hd']
    · simp [fileSource, fileLoad, hd', Blob.parse, hv]
  · exact ⟨h, hd⟩

/-! ### S3PolicySource -/

/-- every tag the configured detector can render for the stored object — with HeadObject or
    GetObjectAttributes working or failing — names that object's write -/
def s3Good (ver : Tag → Nat) (doc : Nat → Doc) (w : S3W) : Prop :=
  ∀ b, w.obj = some b → b.serial = w.hi ∧ b.Named doc ∧
    ∀ hf af t, s3TagOf w.det w.prefer hf af (some b) = some t → ver t = b.serial

theorem s3TagOf_none (det : Detector) (prefer : Option String) (hf af : Bool) : s3TagOf det prefer hf af none = none := by
  cases det <;> cases hf <;> cases af <;> simp [s3TagOf, s3HeadTag]

def s3Honest (ver : Tag → Nat) (doc : Nat → Doc) : Honest s3Source where
  good := s3Good ver doc
  version := fun w => w.hi
  verOfTag := ver
  docOfVer := doc
  etag_good := by
    intro w h
    simp only [s3Source, s3Etag]
    split <;> exact h
  load_good := by
    intro w h
    simp only [s3Source, s3Load]
    split
    · exact h
    · split <;> exact h
  etag_ver := by
    intro w _
    simp only [s3Source, s3Etag]
    split <;> rfl
  load_ver := by
    intro w _
    simp only [s3Source, s3Load]
    split
    · rfl
    · split <;> rfl
  etag_honest := by
    intro w t h he
    simp only [s3Source, s3Etag] at he
    split at he
    · rename_i t' ht'
      simp at he
      subst he
      unfold s3EtagTag at ht'
      cases ho : w.obj with
      | none => rw [ho, s3TagOf_none] at ht'; simp at ht'
      | some b =>
        rw [ho] at ht'
        obtain ⟨h1, _, h3⟩ := h b ho
        rw [h3 _ _ _ ht', h1]
    · simp at he
  load_honest := by
    intro w d h hl
    simp only [s3Source, s3Load] at hl
    split at hl
    · simp at hl
    · split at hl
      · simp at hl
      · rename_i b ho
        obtain ⟨hv, hd⟩ := parse_ok hl
        obtain ⟨h1, h2, _⟩ := h b ho
        rw [hd, ← h2 hv, h1]

theorem s3_write_ok (ver : Tag → Nat) (doc : Nat → Doc) (b : Blob) (m : Nat) (hdoc : b.Named doc) :
    ∀ w, s3Good ver doc w → w.hi ≤ b.serial →
      (∀ hf af t, s3TagOf w.det w.prefer hf af (some b) = some t → ver t = b.serial) →
      s3Good ver doc (w.apply (.write b m)) ∧ (s3Honest ver doc).version w ≤ (s3Honest ver doc).version (w.apply (.write b m)) := by
  intro w _ hnew htag
  refine ⟨?_, hnew⟩
  intro b' hb'
  simp only [S3W.apply] at hb' ⊢
  cases hb'
  exact ⟨rfl, hdoc, htag⟩

/-- deleting the object, HeadObject / GetObjectAttributes starting or ceasing to fail, a GetObject
    fault: none of them moves the version -/
theorem s3_other_ok (ver : Tag → Nat) (doc : Nat → Doc) (op : SrcOp) (hop : ∀ b m, op ≠ .write b m) :
    (s3Honest ver doc).EnvOk (fun w => w.apply op) := by
  intro w h
  cases op with
  | write b m => exact absurd rfl (hop b m)
  | delete => exact ⟨fun b hb => by simp [S3W.apply] at hb, Nat.le_refl _⟩
  | touch m => exact ⟨h, Nat.le_refl _⟩
  | faultEtag c => exact ⟨h, Nat.le_refl _⟩
  | faultLoad c => exact ⟨fun b hb => h b (by simpa [S3W.apply] using hb), Nat.le_refl _⟩
  | headFails v => exact ⟨fun b hb => h b (by simpa [S3W.apply] using hb), Nat.le_refl _⟩
  | attrsFail v => exact ⟨fun b hb => h b (by simpa [S3W.apply] using hb), Nat.le_refl _⟩

/-- a present, parseable object with no GetObject fault pending is a stable source -/
theorem s3_stable (w : S3W) (b : Blob) (ho : w.obj = some b) (hv : b.valid = true) (hf : w.getFault = none) :
    StableAt s3Source (match s3EtagTag w with | some t => .tag t | none => .none) b.doc w := by
  apply stable_of_inv (fun w' => w' = w)
  · intro w' hw'
    subst hw'
    simp only [s3Source, s3Etag]
    split <;> rfl
  · intro w' hw'
    subst hw'
    simp only [s3Source, s3Load, hf, ho]
  · intro w' hw'
    subst hw'
    constructor
    · simp only [s3Source, s3Etag]
      split <;> simp_all
    · simp [s3Source, s3Load, hf, ho, Blob.parse, hv]
  · rfl

/-! ### HTTPPolicySource -/

/-- servers that send no ETag: nothing is ever cached as a tag, every `load()` is an unconditional GET -/
def httpPlainGood (doc : Nat → Doc) (w : HttpW) : Prop :=
  w.serverEtags = false ∧ w.cachedTag = none ∧ ∀ b, w.server = some b → b.serial = w.hi ∧ b.Named doc

theorem srvTag_plain (w : HttpW) (b : Blob) (h : w.serverEtags = false) : w.srvTag b = none := by
  simp [HttpW.srvTag, h]

/-- the three ways `httpLoad` can go, as equations -/
theorem httpLoad_fault (w : HttpW) (c : Exc) (hf : w.failNext = some c) :
    httpLoad w = (.raise c, { w with failNext := none }) := by
  simp only [httpLoad, hf]

theorem httpLoad_missing (w : HttpW) (hf : w.failNext = none) (hs : w.server = none) :
    httpLoad w = (.raise (.other "HTTPError"), w) := by
  simp only [httpLoad, hf, hs]

theorem httpLoad_serving (w : HttpW) (b : Blob) (hf : w.failNext = none) (hs : w.server = some b) :
    httpLoad w =
      if w.notModified b then (.ok (w.cachedDoc.getD emptyDoc), w)
      else if b.valid then (.ok b.doc, { w with cachedTag := w.newTag b, cachedDoc := some b.doc })
      else (.raise .jsonDecode, { w with cachedTag := w.newTag b }) := by
  simp only [httpLoad, hf, hs]

theorem httpLoad_plain (doc : Nat → Doc) (w : HttpW) (h : httpPlainGood doc w) :
    httpPlainGood doc (httpLoad w).2 ∧ (httpLoad w).2.hi = w.hi ∧
    (∀ d, (httpLoad w).1 = .ok d → ∃ b, w.server = some b ∧ b.valid = true ∧ d = b.doc) := by
  obtain ⟨h1, h2, h3⟩ := h
  cases hf : w.failNext with
  | some c => rw [httpLoad_fault w c hf]; exact ⟨⟨h1, h2, h3⟩, rfl, fun d hd => by simp at hd⟩
  | none =>
    cases hs : w.server with
    | none => rw [httpLoad_missing w hf hs]; exact ⟨⟨h1, h2, h3⟩, rfl, fun d hd => by simp at hd⟩
    | some b =>
      have hnm : w.notModified b = false := by simp [HttpW.notModified, h1]
      have hnt : w.newTag b = none := by simp [HttpW.newTag, srvTag_plain w b h1, h2]
      rw [httpLoad_serving w b hf hs, hnm, hnt]
      by_cases hv : b.valid = true
      · simp only [hv, Bool.false_eq_true, if_false, if_true]
        exact ⟨⟨h1, rfl, h3⟩, trivial, fun d hd => ⟨b, rfl, hv, by simp at hd; exact hd.symm⟩⟩
      · simp only [hv, Bool.false_eq_true, if_false]
        exact ⟨⟨h1, rfl, h3⟩, trivial, fun d hd => by simp at hd⟩

def httpPlainHonest (ver : Tag → Nat) (doc : Nat → Doc) : Honest httpSource where
  good := httpPlainGood doc
  version := fun w => w.hi
  verOfTag := ver
  docOfVer := doc
  etag_good := by
    intro w h
    simp only [httpSource, httpEtag]
    split
    · split
      · split <;> exact h
      · exact h
    · split <;> exact h
  load_good := fun w h => (httpLoad_plain doc w h).1
  etag_ver := by
    intro w _
    simp only [httpSource, httpEtag]
    split
    · split
      · split <;> rfl
      · rfl
    · split <;> rfl
  load_ver := fun w h => (httpLoad_plain doc w h).2.1
  etag_honest := by
    intro w t h he
    obtain ⟨h1, h2, _⟩ := h
    simp only [httpSource, httpEtag] at he
    split at he
    · split at he
      · rename_i b hb
        rw [srvTag_plain w b h1] at he
        simp at he
      · simp at he
    · rw [h2] at he
      simp at he
  load_honest := by
    intro w d h hl
    obtain ⟨b, hb, hv, hd⟩ := (httpLoad_plain doc w h).2.2 d hl
    obtain ⟨hs, hn⟩ := h.2.2 b hb
    rw [hd, ← hn hv, hs]

/-- a server without ETags that keeps serving one parseable body is a stable, untagged source -/
theorem http_plain_stable (doc : Nat → Doc) (w : HttpW) (b : Blob) (h : httpPlainGood doc w) (hs : w.server = some b)
    (hv : b.valid = true) (hf : w.failNext = none) : StableAt httpSource .none b.doc w := by
  apply stable_of_inv (fun w' => httpPlainGood doc w' ∧ w'.server = some b ∧ w'.failNext = none)
  · intro w' hw'
    simp only [httpSource, httpEtag]
    split
    · split
      · split <;> exact hw'
      · exact hw'
    · split <;> exact hw'
  · intro w' ⟨hg, hs', hf'⟩
    refine ⟨(httpLoad_plain doc w' hg).1, ?_⟩
    have hnm : w'.notModified b = false := by simp [HttpW.notModified, hg.1]
    simp only [httpSource]
    rw [httpLoad_serving w' b hf' hs', hnm]
    simp [hv, hs', hf']
  · intro w' ⟨hg, hs', hf'⟩
    constructor
    · simp only [httpSource, httpEtag]
      split
      · simp [hs', srvTag_plain w' b hg.1]
      · simp [hg.2.1]
    · have hnm : w'.notModified b = false := by simp [HttpW.notModified, hg.1]
      simp only [httpSource]
      rw [httpLoad_serving w' b hf' hs', hnm]
      simp [hv]
  · exact ⟨h, hs, hf⟩

theorem http_plain_write_ok (ver : Tag → Nat) (doc : Nat → Doc) (b : Blob) (m : Nat) (hdoc : b.Named doc) :
    ∀ w, httpPlainGood doc w → w.hi ≤ b.serial →
      httpPlainGood doc (w.apply (.write b m)) ∧
        (httpPlainHonest ver doc).version w ≤ (httpPlainHonest ver doc).version (w.apply (.write b m)) := by
  intro w h hnew
  refine ⟨⟨h.1, h.2.1, ?_⟩, hnew⟩
  intro b' hb'
  simp only [HttpW.apply] at hb' ⊢
  cases hb'
  exact ⟨rfl, hdoc⟩

/-- the repaired variant (`tagIsRemote = true`: `etag()` asks the server) against a server that sends
    ETags and serves parseable bodies; the last conjunct says the cached (tag, body) pair belongs together -/
def httpRemoteGood (ver : Tag → Nat) (doc : Nat → Doc) (w : HttpW) : Prop :=
  w.tagIsRemote = true ∧
  (∀ b, w.server = some b → b.serial = w.hi ∧ b.valid = true ∧ doc b.serial = b.doc ∧
    ∀ t, w.srvTag b = some t → ver t = b.serial) ∧
  (∀ b t, w.server = some b → w.cachedTag = some t → w.srvTag b = some t → w.cachedDoc = some b.doc)

theorem httpLoad_remote (ver : Tag → Nat) (doc : Nat → Doc) (w : HttpW) (h : httpRemoteGood ver doc w) :
    httpRemoteGood ver doc (httpLoad w).2 ∧ (httpLoad w).2.hi = w.hi ∧
    (∀ d, (httpLoad w).1 = .ok d → ∃ b, w.server = some b ∧ d = b.doc) := by
  obtain ⟨h1, h2, h3⟩ := h
  cases hf : w.failNext with
  | some c => rw [httpLoad_fault w c hf]; exact ⟨⟨h1, h2, h3⟩, rfl, fun d hd => by simp at hd⟩
  | none =>
    cases hs : w.server with
    | none => rw [httpLoad_missing w hf hs]; exact ⟨⟨h1, h2, h3⟩, rfl, fun d hd => by simp at hd⟩
    | some b =>
      obtain ⟨hser, hval, hdoc, htag⟩ := h2 b hs
      rw [httpLoad_serving w b hf hs]
      cases hnm : w.notModified b
      · -- 200
        simp only [hval, Bool.false_eq_true, if_false, if_true]
        refine ⟨⟨h1, h2, ?_⟩, trivial, fun d hd => ⟨b, rfl, by simp at hd; exact hd.symm⟩⟩
        intro b' t hb' _ _
        simp only at hb'
        rw [hs] at hb'
        cases hb'
        rfl
      · -- 304: the cached body
        simp only [if_true]
        refine ⟨⟨h1, h2, h3⟩, trivial, fun d hd => ⟨b, rfl, ?_⟩⟩
        simp only [HttpW.notModified, Bool.and_eq_true, beq_iff_eq] at hnm
        obtain ⟨⟨_, hsome⟩, heq⟩ := hnm
        cases hct : w.cachedTag with
        | none => simp [HttpW.inm, hct] at hsome
        | some t =>
          by_cases ht : t = ""
          · simp [HttpW.inm, hct, ht] at hsome
          · simp only [HttpW.inm, hct, ht, if_false] at heq
            have := h3 b t hs hct heq.symm
            simp [this] at hd
            exact hd.symm

def httpRemoteHonest (ver : Tag → Nat) (doc : Nat → Doc) : Honest httpSource where
  good := httpRemoteGood ver doc
  version := fun w => w.hi
  verOfTag := ver
  docOfVer := doc
  etag_good := by
    intro w h
    simp only [httpSource, httpEtag, h.1, if_true]
    split
    · split <;> exact h
    · exact h
  load_good := fun w h => (httpLoad_remote ver doc w h).1
  etag_ver := by
    intro w h
    simp only [httpSource, httpEtag, h.1, if_true]
    split
    · split <;> rfl
    · rfl
  load_ver := fun w h => (httpLoad_remote ver doc w h).2.1
  etag_honest := by
    intro w t h he
    simp only [httpSource, httpEtag, h.1, if_true] at he
    split at he
    · rename_i b hb
      split at he
      · rename_i t' ht'
        simp at he
        obtain ⟨hser, _, _, htag⟩ := h.2.1 b hb
        rw [← he, htag t' ht', hser]
      · simp at he
    · simp at he
  load_honest := by
    intro w d h hl
    obtain ⟨b, hb, hd⟩ := (httpLoad_remote ver doc w h).2.2 d hl
    obtain ⟨hser, _, hdoc, _⟩ := h.2.1 b hb
    rw [hd, ← hdoc, hser]

/-- a new, parseable document under a new ETag -/
theorem http_remote_write_ok (ver : Tag → Nat) (doc : Nat → Doc) (b : Blob) (m : Nat)
    (hval : b.valid = true) (hdoc : doc b.serial = b.doc) :
    ∀ w, httpRemoteGood ver doc w → w.hi ≤ b.serial →
      (∀ t, w.srvTag b = some t → ver t = b.serial) →
      (∀ t, w.cachedTag = some t → w.srvTag b = some t → w.cachedDoc = some b.doc) →
      httpRemoteGood ver doc (w.apply (.write b m)) ∧
        (httpRemoteHonest ver doc).version w ≤ (httpRemoteHonest ver doc).version (w.apply (.write b m)) := by
  intro w h hnew htag hfresh
  refine ⟨⟨h.1, ?_, ?_⟩, hnew⟩
  · intro b' hb'
    simp only [HttpW.apply] at hb' ⊢
    cases hb'
    exact ⟨rfl, hval, hdoc, htag⟩
  · intro b' t hb' hc hst
    simp only [HttpW.apply] at hb' hc hst ⊢
    cases hb'
    exact hfresh t hc hst

end Rbacx.Reloader
