import Rbacx.Model.PyReloader
import Rbacx.Proofs.Reloader
namespace Rbacx.PyR
end Rbacx.PyR
