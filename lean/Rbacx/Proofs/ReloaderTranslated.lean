import Rbacx.Model.PyReloader
import Rbacx.Proofs.Reloader
/-
  Rbacx.Proofs.ReloaderTranslated — what relates the TRANSLATED source of `HotReloader.check_and_reload_async` / `_register_error`
  (`Rbacx.Generated.Src.reloader_*`, harness/pytolean_state.py) to the hand-written model `Rbacx.Reloader` (Model/Reloader.lean):
  the reading of the abstract number type as integers of microseconds, the abstraction of concrete collaborator outcomes into the
  model's observations, the collaborator calls the model predicts.  Nothing here mentions the generated definitions (the per-run
  obligation `Run/C10_translated.lean` does).
-/
namespace Rbacx.PyR
open Rbacx.Reloader

/-! ### numbers: integers of microseconds -/

/-- `N` reads the source's float arithmetic as EXACT arithmetic on integers of microseconds: `+`, `min`, `max`, `<` are the integer
    ones, the literals `0.2` and `0.0` are 200 000 µs and 0, multiplying by the literal `2.0` doubles.  Nothing is assumed about any other product:
    `self._backoff * self.jitter_ratio * random.uniform(-1.0, 1.0)` is whatever `N.mul` says — the model's `jit` parameter. -/
structure UsReading (N : Num Int) : Prop where
  add : ∀ a b, N.add a b = a + b
  min : ∀ a b, N.min a b = Min.min a b
  max : ∀ a b, N.max a b = Max.max a b
  lt : ∀ a b, N.lt a b = decide (a < b)
  lit_floor : N.lit 2 1 = floorUs
  lit_zero : N.lit 0 1 = 0
  double : ∀ a, N.mul a (N.lit 20 1) = a * 2

/-- fixed-point arithmetic in microseconds: a witness that `UsReading` is satisfiable (products rounded down to whole µs) -/
def usFixed : Num Int :=
  { lit := fun m d => (m : Int) * 1000000 / (10 : Int) ^ d, add := (· + ·), sub := (· - ·), mul := fun a b => a * b / 1000000,
    min := Min.min, max := Max.max, lt := fun a b => decide (a < b), le := fun a b => decide (a ≤ b) }

theorem usFixed_reading : UsReading usFixed where
  add := fun _ _ => rfl
  min := fun _ _ => rfl
  max := fun _ _ => rfl
  lt := fun _ _ => rfl
  lit_floor := by decide
  lit_zero := by decide
  double := fun a => by
    show a * ((20 : Int) * 1000000 / (10 : Int) ^ 1) / 1000000 = a * 2
    have : ((20 : Int) * 1000000 / (10 : Int) ^ 1) = 2000000 := by decide
    rw [this]
    omega

/-- the jitter of a check as a function of the new back-off: `backoff * jitter_ratio * u`, with `N`'s product -/
def jitOf (N : Num Int) (ratio u : Int) : Int → Int := fun b => N.mul (N.mul b ratio) u

/-! ### collaborator outcomes → the model's observations -/

/-- the class under which the `except` clauses see an exception → the model's three cases -/
def excOf (cls : String) : Exc :=
  if cls = "JSONDecodeError" then .jsonDecode else if cls = "FileNotFoundError" then .fileNotFound else .other cls

/-- what `etag()` returned: a str, None, or anything else -/
def obsOfVal : PyVal → EtagObs
  | .str t => .tag t
  | .none => .none
  | _ => .nonStr

def etagRes : Except String PyVal → Reloader.Res EtagObs
  | .ok v => .ok (obsOfVal v)
  | .error c => .raise (excOf c)

def loadRes : Except String Doc → Reloader.Res Doc
  | .ok d => .ok d
  | .error c => .raise (excOf c)

/-- `_last_etag` as a Python value -/
def tagVal : Option Tag → PyVal
  | some t => .str t
  | none => .none

/-- the result of `check_and_reload_async` / `_register_error` as a Python value -/
def outOf : Reloader.Out → Out
  | .returned b => .returned (.bool b)
  | .raised c => .raised (match c with | .jsonDecode => "JSONDecodeError" | .fileNotFound => "FileNotFoundError" | .other n => n)

theorem isStr_ite (v : PyVal) : (if isStr v then v else PyVal.none) = tagVal (obsOfVal v).toOpt := by
  cases v <;> rfl

theorem eq_tagVal (a b : Option Tag) : eq (tagVal a) (tagVal b) = (a == b) := by
  cases a <;> cases b <;> simp [eq, tagVal, PyVal.pyEq]

theorem isNotNone_tagVal (a : Option Tag) : isNotNone (tagVal a) = a.isSome := by
  cases a <;> rfl

/-- what the constructor saw of `source.etag()`: nothing when `initial_load` is on or the source has no sync `etag`
    (`etag_attr is not None and not inspect.iscoroutinefunction(etag_attr)` is false), else the outcome of the sync call -/
def primeOf (initialLoad syncEtag : Bool) (eo : Except String PyVal) : Prime :=
  if initialLoad then .skipped else if syncEtag then .called (etagRes eo) else .skipped

/-! ### the collaborator calls the model predicts -/

def cEtag : Call Doc := ⟨"self.source.etag", []⟩
def cLoad : Call Doc := ⟨"self.source.load", []⟩
def cSet (d : Doc) : Call Doc := ⟨"self.guard.set_policy", [.opaque d]⟩

/-- `etag()` iff the model says `callsEtag`, then `load()` iff `callsLoad`, then `set_policy(d)` iff that `load()` returned `d` -/
def callsOf (force : Bool) (now : Int) (e : Reloader.Res EtagObs) (l : Reloader.Res Doc) (s : RState) : List (Call Doc) :=
  (if callsEtag force now s then [cEtag] else []) ++
  (if callsLoad force now e s then cLoad :: (match l with | .ok d => [cSet d] | .raise _ => []) else [])

/-- the calls of a whole history of non-overlapping checks, as the model predicts them -/
def callsAlong (cfg : Cfg) : HState → List Event → List (Call Doc)
  | _, [] => []
  | h, ev :: evs =>
    (match ev with
     | .advance _ => []
     | .check force _ e l => callsOf force h.now e l h.rs) ++ callsAlong cfg (stepEvent cfg h ev).1 evs

/-- the document handed to `set_policy`, for a `set_policy` call -/
def setArg (c : Call Doc) : Option Doc :=
  if c.callee = "self.guard.set_policy" then (match c.args with | [.opaque d] => some d | _ => none) else none

theorem setArg_callsOf (force : Bool) (now : Int) (e : Reloader.Res EtagObs) (l : Reloader.Res Doc) (s : RState) (jit : Int → Int) :
    (callsOf force now e l s).filterMap setArg = (loadedBy ⟨now, s⟩ (.check force jit e l)).toList := by
  simp only [callsOf, loadedBy]
  cases hE : callsEtag force now s <;> cases hL : callsLoad force now e s <;> cases l <;> simp [setArg, cEtag, cLoad, cSet]

/-- the documents handed to `set_policy` along a history are exactly the documents its successful `load()`s returned, in order -/
theorem setArg_callsAlong (cfg : Cfg) (evs : List Event) : ∀ h : HState,
    (callsAlong cfg h evs).filterMap setArg = loadedDocs cfg h evs := by
  induction evs with
  | nil => intro h; rfl
  | cons ev evs ih =>
    intro h
    simp only [callsAlong, loadedDocs, List.filterMap_append, ih]
    cases ev with
    | advance dt => simp [loadedBy]
    | check force jit e l => rw [setArg_callsOf force h.now e l h.rs jit]

/-- the source-level check (`wcheck`, over which the convergence theorems are stated) is the observation-level `check` on what the
    source answered: `etag()` on the source state at the start, `load()` on the state after the mid-check change — so what is proved
    about `check` for the translated method carries over to `wcheck` / `wrun` -/
theorem wcheck_eq_check {σ : Type} (S : Source σ) (cfg : Cfg) (force : Bool) (jit : Int → Int) (mid : σ → σ) (w : WState σ) :
    (wcheck S cfg force jit mid w).1.rs = (check cfg force w.now jit (S.etag w.src).1 (S.load (mid (S.etag w.src).2)).1 w.rs).1 ∧
    (wcheck S cfg force jit mid w).2 = (check cfg force w.now jit (S.etag w.src).1 (S.load (mid (S.etag w.src).2)).1 w.rs).2 := by
  unfold wcheck check
  cases suppressed force w.now w.rs
  · simp only [Bool.false_eq_true, if_false]
    cases afterEtag force w.rs.lastEtag (S.etag w.src).1 w.rs <;> exact ⟨rfl, rfl⟩
  · exact ⟨rfl, rfl⟩

end Rbacx.PyR
