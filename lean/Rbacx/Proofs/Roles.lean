import Rbacx.Model.Roles
/-
  Rbacx.Proofs.Roles — loop invariants of `expandLoop` and facts about the insertion sort.
-/
namespace Rbacx.Roles

/-- `b` is a configured parent of `a` -/
def parentOf (g : Graph) (a b : String) : Prop := b ∈ parents g a

/-- reflexive-transitive closure of `parentOf g` -/
inductive Reach (g : Graph) : String → String → Prop where
  | refl (a : String) : Reach g a a
  | step {a b c : String} : Reach g a b → parentOf g b c → Reach g a c

theorem Reach.trans {g : Graph} {a b c : String} (h1 : Reach g a b) (h2 : Reach g b c) : Reach g a c := by
  induction h2 with
  | refl => exact h1
  | step _ hp ih => exact Reach.step ih hp

theorem Reach.single {g : Graph} {a b : String} (h : parentOf g a b) : Reach g a b :=
  Reach.step (Reach.refl a) h

theorem mem_pushAll {ps stack : List String} {x : String} : x ∈ pushAll ps stack ↔ x ∈ ps ∨ x ∈ stack := by
  simp [pushAll]

/-! ### the loop -/

/-- the visited set only grows -/
theorem expandLoop_mono (g : Graph) (stack out : List String) :
    ∀ x ∈ out, x ∈ expandLoop g stack out := by
  fun_induction expandLoop g stack out with
  | case1 out => intro x hx; exact hx
  | case2 out r rest hr ih => exact ih
  | case3 out r rest hr ih => intro x hx; exact ih x (List.mem_cons_of_mem _ hx)

/-- everything on the stack ends up in the result -/
theorem expandLoop_stack (g : Graph) (stack out : List String) :
    ∀ x ∈ stack, x ∈ expandLoop g stack out := by
  fun_induction expandLoop g stack out with
  | case1 out => intro x hx; cases hx
  | case2 out r rest hr ih =>
    intro x hx
    rcases List.mem_cons.mp hx with h | h
    · subst h; exact expandLoop_mono g rest out x hr
    · exact ih x h
  | case3 out r rest hr ih =>
    intro x hx
    rcases List.mem_cons.mp hx with h | h
    · subst h; exact expandLoop_mono g _ _ x List.mem_cons_self
    · exact ih x (mem_pushAll.mpr (Or.inr h))

/-- soundness invariant: a predicate closed under `parentOf` that holds of the stack and of the
    visited set holds of the result -/
theorem expandLoop_sound (g : Graph) (P : String → Prop) (hP : ∀ a b, P a → parentOf g a b → P b)
    (stack out : List String) (hs : ∀ x ∈ stack, P x) (ho : ∀ x ∈ out, P x) :
    ∀ x ∈ expandLoop g stack out, P x := by
  fun_induction expandLoop g stack out with
  | case1 out => exact ho
  | case2 out r rest hr ih => exact ih (fun x hx => hs x (List.mem_cons_of_mem _ hx)) ho
  | case3 out r rest hr ih =>
    have hPr : P r := hs r List.mem_cons_self
    apply ih
    · intro x hx
      rcases mem_pushAll.mp hx with h | h
      · exact hP r x hPr h
      · exact hs x (List.mem_cons_of_mem _ h)
    · intro x hx
      rcases List.mem_cons.mp hx with h | h
      · subst h; exact hPr
      · exact ho x h

/-- completeness invariant: if every parent of a visited node is visited or on the stack, the
    result is closed under `parentOf` -/
theorem expandLoop_closed (g : Graph) (stack out : List String)
    (hinv : ∀ x ∈ out, ∀ p, parentOf g x p → p ∈ out ∨ p ∈ stack) :
    ∀ x ∈ expandLoop g stack out, ∀ p, parentOf g x p → p ∈ expandLoop g stack out := by
  fun_induction expandLoop g stack out with
  | case1 out =>
    intro x hx p hp
    rcases hinv x hx p hp with h | h
    · exact h
    · cases h
  | case2 out r rest hr ih =>
    apply ih
    intro x hx p hp
    rcases hinv x hx p hp with h | h
    · exact Or.inl h
    · rcases List.mem_cons.mp h with h | h
      · subst h; exact Or.inl hr
      · exact Or.inr h
  | case3 out r rest hr ih =>
    apply ih
    intro x hx p hp
    rcases List.mem_cons.mp hx with h | h
    · subst h; exact Or.inr (mem_pushAll.mpr (Or.inl hp))
    · rcases hinv x h p hp with h' | h'
      · exact Or.inl (List.mem_cons_of_mem _ h')
      · rcases List.mem_cons.mp h' with h'' | h''
        · subst h''; exact Or.inl List.mem_cons_self
        · exact Or.inr (mem_pushAll.mpr (Or.inr h''))

/-- a set closed under `parentOf` is closed under `Reach` -/
theorem closed_reach {g : Graph} {S : List String} (hc : ∀ x ∈ S, ∀ p, parentOf g x p → p ∈ S)
    {a b : String} (hr : Reach g a b) (ha : a ∈ S) : b ∈ S := by
  induction hr with
  | refl => exact ha
  | step _ hp ih => exact hc _ ih _ hp

/-- the visited set never holds an element twice -/
theorem expandLoop_nodup (g : Graph) (stack out : List String) (h : out.Nodup) :
    (expandLoop g stack out).Nodup := by
  fun_induction expandLoop g stack out with
  | case1 out => exact h
  | case2 out r rest hr ih => exact ih h
  | case3 out r rest hr ih => exact ih (List.nodup_cons.mpr ⟨hr, h⟩)

/-- exact characterisation of the loop started from an empty visited set -/
theorem mem_expandLoop_nil (g : Graph) (stack : List String) (r : String) :
    r ∈ expandLoop g stack [] ↔ ∃ r₀ ∈ stack, Reach g r₀ r := by
  constructor
  · intro h
    refine expandLoop_sound g (fun x => ∃ r₀ ∈ stack, Reach g r₀ x) ?_ stack [] ?_ ?_ r h
    · rintro a b ⟨r₀, h0, hr⟩ hp; exact ⟨r₀, h0, Reach.step hr hp⟩
    · intro x hx; exact ⟨x, hx, Reach.refl x⟩
    · intro x hx; cases hx
  · rintro ⟨r₀, h0, hr⟩
    have hc := expandLoop_closed g stack [] (by intro x hx; cases hx)
    exact closed_reach hc hr (expandLoop_stack g stack [] r₀ h0)

/-! ### sorting -/

theorem mem_insertSorted {x y : String} {l : List String} : y ∈ insertSorted x l ↔ y = x ∨ y ∈ l := by
  induction l with
  | nil => simp [insertSorted]
  | cons z zs ih =>
    simp only [insertSorted]
    split
    · simp
    · simp only [List.mem_cons, ih]
      constructor
      · rintro (h | h | h)
        · exact Or.inr (Or.inl h)
        · exact Or.inl h
        · exact Or.inr (Or.inr h)
      · rintro (h | h | h)
        · exact Or.inr (Or.inl h)
        · exact Or.inl h
        · exact Or.inr (Or.inr h)

theorem mem_sortStrings {y : String} {l : List String} : y ∈ sortStrings l ↔ y ∈ l := by
  induction l with
  | nil => simp [sortStrings]
  | cons z zs ih => simp only [sortStrings, mem_insertSorted, ih, List.mem_cons]

theorem lt_of_not_lt_of_ne {x y : String} (h : ¬ x < y) (hne : x ≠ y) : y < x :=
  Std.lt_of_le_of_ne (String.not_lt.mp h) (Ne.symm hne)

theorem insertSorted_pairwise {x : String} {l : List String} (hx : x ∉ l) (hl : l.Pairwise (· < ·)) :
    (insertSorted x l).Pairwise (· < ·) := by
  induction l with
  | nil => simp [insertSorted]
  | cons z zs ih =>
    have hz := List.pairwise_cons.mp hl
    simp only [insertSorted]
    split
    · rename_i hlt
      refine List.pairwise_cons.mpr ⟨?_, hl⟩
      intro a ha
      rcases List.mem_cons.mp ha with h | h
      · subst h; exact hlt
      · exact String.lt_trans hlt (hz.1 a h)
    · rename_i hnlt
      have hne : x ≠ z := fun h => hx (h ▸ List.mem_cons_self)
      have hzx : z < x := lt_of_not_lt_of_ne hnlt hne
      refine List.pairwise_cons.mpr ⟨?_, ih (fun h => hx (List.mem_cons_of_mem _ h)) hz.2⟩
      intro a ha
      rcases mem_insertSorted.mp ha with h | h
      · subst h; exact hzx
      · exact hz.1 a h

theorem sortStrings_pairwise {l : List String} (h : l.Nodup) : (sortStrings l).Pairwise (· < ·) := by
  induction l with
  | nil => simp [sortStrings]
  | cons z zs ih =>
    have hz := List.nodup_cons.mp h
    simp only [sortStrings]
    exact insertSorted_pairwise (fun hm => hz.1 (mem_sortStrings.mp hm)) (ih hz.2)

theorem pairwise_lt_nodup {l : List String} (h : l.Pairwise (· < ·)) : l.Nodup := by
  induction l with
  | nil => exact List.nodup_nil
  | cons z zs ih =>
    have hz := List.pairwise_cons.mp h
    exact List.nodup_cons.mpr ⟨fun hm => String.lt_irrefl z (hz.1 z hm), ih hz.2⟩

/-! ### edges come from the graph -/

theorem lookup_mem {g : Graph} {r : String} {ps : List String} (h : lookup r g = some ps) : ∃ k, (k, ps) ∈ g := by
  induction g with
  | nil => simp [lookup] at h
  | cons e g ih =>
    obtain ⟨k, qs⟩ := e
    simp only [lookup] at h
    split at h
    · cases h; exact ⟨k, List.mem_cons_self⟩
    · obtain ⟨k', hk⟩ := ih h; exact ⟨k', List.mem_cons_of_mem _ hk⟩

theorem parentOf_mem {g : Graph} {b c : String} (hp : parentOf g b c) : ∃ e ∈ g, c ∈ e.2 := by
  unfold parentOf parents at hp
  cases hl : lookup b g with
  | none => rw [hl] at hp; cases hp
  | some ps =>
    rw [hl] at hp
    obtain ⟨k, hk⟩ := lookup_mem hl
    exact ⟨(k, ps), hk, hp⟩

/-- two strictly increasing lists with the same members are equal -/
theorem pairwise_lt_ext : ∀ (l₁ l₂ : List String), l₁.Pairwise (· < ·) → l₂.Pairwise (· < ·) →
    (∀ r, r ∈ l₁ ↔ r ∈ l₂) → l₁ = l₂ := by
  intro l₁
  induction l₁ with
  | nil =>
    intro l₂ _ _ hm
    cases l₂ with
    | nil => rfl
    | cons y ys => exact absurd ((hm y).mpr List.mem_cons_self) (by simp)
  | cons x xs ih =>
    intro l₂ h1 h2 hm
    cases l₂ with
    | nil => exact absurd ((hm x).mp List.mem_cons_self) (by simp)
    | cons y ys =>
      have hx := List.pairwise_cons.mp h1
      have hy := List.pairwise_cons.mp h2
      have hxy : x = y := by
        rcases List.mem_cons.mp ((hm x).mp List.mem_cons_self) with h | h
        · exact h
        · rcases List.mem_cons.mp ((hm y).mpr List.mem_cons_self) with h' | h'
          · exact h'.symm
          · exact absurd (String.lt_trans (hy.1 x h) (hx.1 y h')) (String.lt_irrefl y)
      subst hxy
      congr 1
      apply ih ys hx.2 hy.2
      intro r
      constructor
      · intro hr
        rcases List.mem_cons.mp ((hm r).mp (List.mem_cons_of_mem _ hr)) with h | h
        · subst h; exact absurd (hx.1 r hr) (String.lt_irrefl r)
        · exact h
      · intro hr
        rcases List.mem_cons.mp ((hm r).mpr (List.mem_cons_of_mem _ hr)) with h | h
        · subst h; exact absurd (hy.1 r hr) (String.lt_irrefl r)
        · exact h

end Rbacx.Roles
