import Rbacx.Model.Roles
import Rbacx.Model.Engine
/-
  Rbacx.Proofs.RolesEngine — vocabulary and lemmas for the engine half of C18: which roles reach
  the environment (`Engine.effectiveRoles`), where the audit events take their environment from.
-/
namespace Rbacx.RolesEngine
open Rbacx Rbacx.Roles

/-- `list(subject.roles or [])` -/
def ownRoles (req : Request) : List PyVal := match req.roles with | .list rs => rs | _ => []

/-- `env["subject"]["roles"]` -/
def subjectRoles (env : PyVal) : PyVal := (env.get "subject").get "roles"

theorem effectiveRoles_eq (cfg : GuardCfg) (req : Request) :
    effectiveRoles cfg req =
      match cfg.resolver with
      | none => .list (ownRoles req)
      | some f => (f (ownRoles req)).getD (.list (ownRoles req)) := rfl

theorem subjectRoles_buildEnv (cfg : GuardCfg) (req : Request) :
    subjectRoles (buildEnv cfg req) = effectiveRoles cfg req := by
  unfold subjectRoles buildEnv
  cases cfg.strict <;> simp [PyVal.get, PyVal.lookup]

/-- the audit events of a run -/
def auditEnvs (evs : List Event) : List PyVal :=
  evs.filterMap fun e => match e with | .audit env .. => some env | _ => none

theorem auditEnvs_guardEval (o : Oracle) (cfg : GuardCfg) (policy : PyVal) (req : Request) (d : Decision)
    (evs : List Event) (h : guardEval o cfg policy req = .ok (d, evs)) :
    auditEnvs evs = if cfg.hasLogger then [buildEnv cfg req] else [] := by
  unfold guardEval at h
  simp only [condCtx] at h
  split at h
  · cases h
  · rename_i raw _
    simp only [Except.ok.injEq] at h
    have h2 := congrArg Prod.snd h
    simp only at h2
    rw [← h2]
    simp only [finishDecision]
    cases cfg.hasMetrics <;> cases cfg.hasLogger <;> simp [auditEnvs]

/-- the real resolver plugged into the engine: string roles in, expanded string roles out -/
def staticResolver (g : Graph) : List PyVal → Option PyVal :=
  fun own => some (.list ((expand g (own.filterMap PyVal.asStr?)).map .str))

theorem filterMap_asStr (rs : List String) : (rs.map PyVal.str).filterMap PyVal.asStr? = rs := by
  induction rs with
  | nil => rfl
  | cons r rs ih => simp [PyVal.asStr?, ih]

end Rbacx.RolesEngine
