import Rbacx.Model.PyLib
import Rbacx.Model.Roles
import Rbacx.Proofs.Roles
import Rbacx.Proofs.PyLibLemmas
/-
  Rbacx.Proofs.RolesTranslated — what the per-run obligation `Run/C18_translated.lean` needs to prove the mechanical, FUEL-bounded
  translation of `StaticRoleResolver.expand` (core/roles.py; `Generated.Src.roles_expand`) equal to the model's `Roles.expand`
  (Model/Roles.lean).  Nothing here depends on the generated code.

  * generic facts about `Py.whileFuel` (more fuel never changes an answer; the answer does not depend on the fuel);
  * the Python-level operations of the loop on ENCODED states (`listLast`/`listInit` = pop, `inSet`/`setAdd` = the visited set,
    `getDV` on an encoded graph = `parents`, the append loop = `pushAll`, `sorted` = `sortStrings`);
  * the budget: `credit g out` = the parent entries of the graph keys not yet visited.  `stack length + credit` strictly decreases
    with every run of the loop body (a skipped element: the stack shrinks; a visited one: its parents move from the credit onto the
    stack, the popped element is gone), so `fuelBound g roles = |roles| + total number of parent entries` body executions suffice —
    on every graph, cyclic or not;
  * `whileFuel_expandLoop`: any loop whose condition and body act on encoded states like the model's `expandLoop` step, run with
    that budget, ends in the encoding of `expandLoop`'s result.  Stated for an abstract `cond`/`body`/encoding: the Run file
    instantiates it with the text the translator emitted.
-/
namespace Rbacx.Py
open PyVal

/-! ### `whileFuel` -/

theorem whileFuel_mono {σ : Type} (cond : σ → Bool) (body : σ → σ) :
    ∀ (n m : Nat) (st r : σ), n ≤ m → whileFuel n st cond body = some r → whileFuel m st cond body = some r := by
  intro n
  induction n with
  | zero =>
    intro m st r _ h
    simp only [whileFuel] at h
    split at h
    · cases h
    · rename_i hc
      cases m <;> simp only [whileFuel, hc] <;> exact h
  | succ n ih =>
    intro m st r hle h
    cases m with
    | zero => omega
    | succ m =>
      simp only [whileFuel] at h ⊢
      split
      · rename_i hc
        rw [if_pos hc] at h
        exact ih m _ r (by omega) h
      · rename_i hc
        rw [if_neg hc] at h
        exact h

/-- the answer of a loop that finishes within its budget does not depend on the budget -/
theorem whileFuel_det {σ : Type} (cond : σ → Bool) (body : σ → σ) (n m : Nat) (st r r' : σ)
    (h1 : whileFuel n st cond body = some r) (h2 : whileFuel m st cond body = some r') : r = r' := by
  rcases Nat.le_total n m with h | h
  · have := whileFuel_mono cond body n m st r h h1
    rw [this] at h2; exact Option.some.inj h2
  · have := whileFuel_mono cond body m n st r' h h2
    rw [this] at h1; exact (Option.some.inj h1).symm

/-! ### list and set operations on encoded values -/

theorem listLast_snoc (xs : List PyVal) (x : PyVal) : listLast (.list (xs ++ [x])) = x := by
  simp [listLast]

theorem listInit_snoc (xs : List PyVal) (x : PyVal) : listInit (.list (xs ++ [x])) = .list xs := by
  simp [listInit]

theorem listLast_encStrs_snoc (l : List String) (r : String) : listLast (encStrs (l ++ [r])) = .str r := by
  simp only [encStrs, List.map_append, List.map_cons, List.map_nil, listLast_snoc]

theorem listInit_encStrs_snoc (l : List String) (r : String) : listInit (encStrs (l ++ [r])) = encStrs l := by
  simp only [encStrs, List.map_append, List.map_cons, List.map_nil, listInit_snoc]

theorem concat_encStrs (a b : List String) : concat (encStrs a) (encStrs b) = encStrs (a ++ b) := by
  simp [concat, encStrs]

theorem list_iter_encStrs (l : List String) : PyVal.list (iter (encStrs l)) = encStrs l := rfl

theorem inSet_encStrs (l : List String) (r : String) : inSet (iter (encStrs l)) (.str r) = .bool (decide (r ∈ l)) := by
  simp only [inSet, iter, encStrs]
  congr 1
  induction l with
  | nil => simp
  | cons a l ih =>
    simp only [List.map_cons, List.any_cons, ih, List.mem_cons, pyEq]
    by_cases h : a = r
    · subst h; simp
    · have h' : ¬ r = a := fun e => h e.symm
      simp [h, h']

theorem setAdd_encStrs (l : List String) (r : String) :
    setAdd (encStrs l) (.str r) = encStrs (if r ∈ l then l else r :: l) := by
  have h := inSet_encStrs l r
  simp only [inSet, iter, encStrs] at h
  simp only [setAdd, encStrs]
  have hb : (l.map PyVal.str).any (fun y => pyEq y (.str r)) = decide (r ∈ l) := by
    injection h
  rw [hb]
  by_cases hm : r ∈ l <;> simp [hm]

theorem collect_singleton (v : PyVal) : collect v (fun p => [p]) = .list (iter v) := by
  simp [collect]

theorem strLt_str (a b : String) : strLt (.str a) (.str b) = decide (a < b) := rfl

theorem insertSorted_strs (x : String) (l : List String) :
    insertSorted (.str x) (l.map PyVal.str) = (Rbacx.Roles.insertSorted x l).map PyVal.str := by
  induction l with
  | nil => rfl
  | cons y ys ih =>
    simp only [List.map_cons, insertSorted, Rbacx.Roles.insertSorted, strLt_str]
    by_cases h : x < y
    · simp [h]
    · simp [h, ih]

theorem sortList_strs (l : List String) : sortList (l.map PyVal.str) = (Rbacx.Roles.sortStrings l).map PyVal.str := by
  induction l with
  | nil => rfl
  | cons x xs ih => simp only [List.map_cons, sortList, Rbacx.Roles.sortStrings, ih, insertSorted_strs]

/-- `sorted(out)` on an encoded set of strings is the model's `sortStrings` -/
theorem sorted_encStrs (l : List String) : sorted (encStrs l) = encStrs (Rbacx.Roles.sortStrings l) := by
  simp only [sorted, iter, encStrs, sortList_strs]

theorem truthy_pnot_encStrs (l : List String) : (pnot (encStrs l)).truthy = l.isEmpty := by
  cases l <;> rfl

end Rbacx.Py

namespace Rbacx.Roles
open PyVal Rbacx.Py

/-! ### encodings -/

/-- a `dict[str, list[str]]` as a Python value (entries in insertion order) -/
def encGraph (g : Graph) : PyVal := .dict (g.map fun e => (e.1, encStrs e.2))

/-- the loop state `(stack, out)` of the translated source for the model's `(stack, out)`: the model keeps the stack reversed -/
def encState (stack out : List String) : PyVal × PyVal := (encStrs stack.reverse, encStrs out)

theorem lookup_encGraph (g : Graph) (r : String) :
    PyVal.lookup r (g.map fun e => (e.1, encStrs e.2)) = (lookup r g).map encStrs := by
  induction g with
  | nil => rfl
  | cons e g ih =>
    obtain ⟨k, ps⟩ := e
    simp only [List.map_cons, PyVal.lookup, lookup]
    by_cases h : k = r
    · simp [h]
    · simp [h, ih]

/-- `graph.get(r, [])` on an encoded graph is the model's `parents` -/
theorem getD_encGraph (g : Graph) (r : String) : getDV (encGraph g) (.str r) (.list []) = encStrs (parents g r) := by
  simp only [getDV, encGraph, lookup_encGraph, parents]
  cases lookup r g <;> rfl

/-- `graph or {}` keeps an encoded graph (an empty one is replaced by an equal value) -/
theorem por_encGraph (g : Graph) : PyVal.por (encGraph g) (.dict []) = encGraph g := by
  cases g <;> rfl

/-! ### the budget -/

/-- parent entries of the graph keys that have not been visited -/
def credit : Graph → List String → Nat
  | [], _ => 0
  | (k, ps) :: g, out => (if k ∈ out then 0 else ps.length) + credit g out

/-- total number of parent entries of the graph -/
def totalParents : Graph → Nat
  | [] => 0
  | (_, ps) :: g => ps.length + totalParents g

/-- a number of executions of the loop body of `expand` that always suffices: one per given role and one per parent entry -/
def fuelBound (g : Graph) (roles : List String) : Nat := roles.length + totalParents g

/-- the same budget computed from the Python values (used by the evaluator `Run/SrcEvalRoles.lean`) -/
def fuelBoundV (graph roles : PyVal) : Nat :=
  (Py.len roles).toNat + (match graph with
    | .dict kvs => (kvs.map fun kv => (Py.len kv.2).toNat).sum
    | _ => 0)

theorem credit_nil (g : Graph) : credit g [] = totalParents g := by
  induction g with
  | nil => rfl
  | cons e g ih => obtain ⟨k, ps⟩ := e; simp [credit, totalParents, ih]

theorem fuelBoundV_enc (g : Graph) (roles : List String) : fuelBoundV (encGraph g) (encStrs roles) = fuelBound g roles := by
  have h : ∀ g : Graph, ((g.map fun e => (e.1, encStrs e.2)).map fun kv => (Py.len kv.2).toNat).sum = totalParents g := by
    intro g
    induction g with
    | nil => rfl
    | cons e g ih =>
      obtain ⟨k, ps⟩ := e
      simp only [List.map_cons, List.sum_cons, totalParents, ih]
      simp [Py.len, encStrs]
  simp only [fuelBoundV, fuelBound, encGraph, h]
  simp [Py.len, encStrs]

theorem credit_cons_le (g : Graph) (r : String) (out : List String) : credit g (r :: out) ≤ credit g out := by
  induction g with
  | nil => simp [credit]
  | cons e g ih =>
    obtain ⟨k, ps⟩ := e
    simp only [credit, List.mem_cons]
    by_cases h1 : k ∈ out
    · simp [h1]; exact ih
    · by_cases h2 : k = r
      · simp [h2]; omega
      · simp [h1, h2]; exact ih

/-- visiting `r` moves (at least) its parents out of the credit -/
theorem credit_visit (g : Graph) (r : String) (out : List String) (hr : r ∉ out) :
    (parents g r).length + credit g (r :: out) ≤ credit g out := by
  induction g with
  | nil => simp [credit, parents, lookup]
  | cons e g ih =>
    obtain ⟨k, ps⟩ := e
    simp only [parents, lookup, credit, List.mem_cons]
    by_cases hk : k = r
    · subst hk
      have := credit_cons_le g k out
      simp [hr]; omega
    · have ih' := ih
      simp only [parents] at ih'
      by_cases h1 : k ∈ out
      · simp [hk, h1]; exact ih'
      · simp [hk, h1]; omega

/-! ### the loop -/

/-- a fuel-bounded loop that tests and steps encoded states the way `expandLoop` does ends — with the budget `stack length +
    credit` — in the encoding of `expandLoop`'s result -/
theorem whileFuel_expandLoop {σ : Type} (enc : List String → List String → σ) (cond : σ → Bool) (body : σ → σ) (g : Graph)
    (hcond : ∀ stack out, cond (enc stack out) = !stack.isEmpty)
    (hbody : ∀ r rest out, body (enc (r :: rest) out)
      = if r ∈ out then enc rest out else enc (pushAll (parents g r) rest) (r :: out))
    (stack out : List String) :
    ∀ fuel, stack.length + credit g out ≤ fuel →
      whileFuel fuel (enc stack out) cond body = some (enc [] (expandLoop g stack out)) := by
  fun_induction expandLoop g stack out with
  | case1 out =>
    intro fuel _
    cases fuel <;> simp [whileFuel, hcond]
  | case2 out r rest hr ih =>
    intro fuel hf
    cases fuel with
    | zero => simp at hf
    | succ n =>
      simp only [whileFuel, hcond, hbody, hr, List.isEmpty_cons, Bool.not_false, if_true]
      exact ih n (by simp at hf; omega)
  | case3 out r rest hr ih =>
    intro fuel hf
    cases fuel with
    | zero => simp at hf
    | succ n =>
      simp only [whileFuel, hcond, hbody, hr, List.isEmpty_cons, Bool.not_false, if_true, if_false]
      apply ih n
      have := credit_visit g r out hr
      simp [pushAll] at hf ⊢
      omega

/-- the encoded state after `r = stack.pop()` … `for p in graph.get(r, []): stack.append(p)` -/
theorem encState_push (ps rest out : List String) :
    (encStrs (rest.reverse ++ ps), encStrs out) = encState (pushAll ps rest) out := by
  simp [encState, pushAll]

/-- `sorted` of the final visited set, as `expand` returns it -/
theorem expand_cons (g : Graph) (a : String) (as : List String) :
    expand g (a :: as) = sortStrings (expandLoop g (a :: as).reverse []) := rfl

end Rbacx.Roles
