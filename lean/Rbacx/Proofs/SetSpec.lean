import Rbacx.Spec.Combining
import Rbacx.Proofs.TreeWitness
/-
  Rbacx.Proofs.SetSpec — the child-combining loop of `policyset.decide` (with its early `break`s and first-deny /
  first-permit bookkeeping) computes the documented combination of the children's results.
-/
namespace Rbacx

/-- the loop over already-computed child results `(policy id, result)` -/
def loopKids (algo : String) : SetSt → List (PyVal × Raw) → SetSt
  | s, [] => s
  | s, (pid, res) :: rs =>
    if (stepChild algo s pid res).2 then (stepChild algo s pid res).1 else loopKids algo (stepChild algo s pid res).1 rs

/-- results of all children, if none of them raises -/
def kidsRes (cx : CondCtx) (i sd : String) : List PTree → Except CondErr (List (PyVal × Raw))
  | [] => .ok []
  | c :: cs =>
    match decideTree cx i sd c with
    | .error e => .error e
    | .ok r =>
      match kidsRes cx i sd cs with
      | .error e => .error e
      | .ok rs => .ok ((c.doc.get "id", r) :: rs)

theorem childrenLoop_eq_loopKids (cx : CondCtx) (i sd algo : String) :
    ∀ (cs : List PTree) (s : SetSt) (rs : List (PyVal × Raw)), kidsRes cx i sd cs = .ok rs →
      childrenLoop cx i sd algo s cs = .ok (loopKids algo s rs) := by
  intro cs
  induction cs with
  | nil => intro s rs h; simp [kidsRes] at h; subst h; rfl
  | cons c cs ih =>
    intro s rs h
    simp only [kidsRes] at h
    cases hc : decideTree cx i sd c with
    | error e => simp [hc] at h
    | ok r =>
      simp only [hc] at h
      cases hk : kidsRes cx i sd cs with
      | error e => simp [hk] at h
      | ok rs' =>
        simp only [hk] at h
        injection h with h
        subst h
        simp only [childrenLoop, hc, loopKids]
        split
        · rfl
        · exact ih _ _ hk

/-! ### what a child result looks like to the loop -/

/-- well-behaved child result (what the induction over the tree maintains): decision is permit or deny, and a
    non-applicable result carries no rule id -/
structure GoodRes (r : Raw) : Prop where
  dec : r.decision = "permit" ∨ r.decision = "deny"
  noRid : isApplicable r = false → r.rid = .none

def appKids (rs : List (PyVal × Raw)) : List (PyVal × Raw) := rs.filter (fun x => isApplicable x.2)

/-- the projection of a set result the property speaks about -/
structure View where
  decision : String
  applicable : Bool
  policyId : PyVal

def viewOf (r : Raw) : View := { decision := r.decision, applicable := isApplicable r, policyId := r.policyId }

theorem noteRuleId_not_app (s : SetSt) (res : Raw) (hg : GoodRes res) (hna : isApplicable res = false) :
    noteRuleId s res = s := by
  unfold noteRuleId
  rw [hg.noRid hna]

theorem stepChild_not_app (algo : String) (s : SetSt) (pid : PyVal) (res : Raw) (hg : GoodRes res)
    (hna : isApplicable res = false) : stepChild algo s pid res = (s, false) := by
  unfold stepChild combineChild
  rw [noteRuleId_not_app s res hg hna]
  simp [hna]

theorem noteRuleId_fields (s : SetSt) (res : Raw) :
    (noteRuleId s res).anyPermit = s.anyPermit ∧ (noteRuleId s res).anyDeny = s.anyDeny ∧ (noteRuleId s res).first = s.first ∧
    (noteRuleId s res).permit = s.permit ∧ (noteRuleId s res).deny = s.deny := by
  unfold noteRuleId
  split <;> (try split) <;> simp

/-! ### first-applicable -/

theorem loopKids_fa (rs : List (PyVal × Raw)) (hg : ∀ x ∈ rs, GoodRes x.2) :
    ∀ s : SetSt, s.first = none →
      finaliseSet "first-applicable" (loopKids "first-applicable" s rs) =
        (match (appKids rs).head? with
         | some (pid, res) => { res with policyId := pid }
         | none => noMatch (loopKids "first-applicable" s rs).lastRuleId) := by
  induction rs with
  | nil => intro s hs; simp [loopKids, finaliseSet, hs, appKids]
  | cons x rs ih =>
    intro s hs
    obtain ⟨pid, res⟩ := x
    have hgr := hg (pid, res) List.mem_cons_self
    have hg' : ∀ x ∈ rs, GoodRes x.2 := fun x hx => hg x (List.mem_cons_of_mem _ hx)
    cases ha : isApplicable res with
    | false =>
      simp only [loopKids, stepChild_not_app _ s pid res hgr ha, Bool.false_eq_true, if_false, appKids, List.filter_cons, ha]
      exact ih hg' s hs
    | true =>
      have hstep : stepChild "first-applicable" s pid res = ({ noteRuleId s res with first := some (res, pid) }, true) := by
        simp [stepChild, combineChild, ha]
      simp [loopKids, hstep, finaliseSet, appKids, List.filter_cons, ha]

end Rbacx

namespace Rbacx

def isD (x : PyVal × Raw) : Bool := x.2.decision == "deny"
def isP (x : PyVal × Raw) : Bool := x.2.decision == "permit"
theorem isD_eq : isD = fun x => x.2.decision == "deny" := rfl
theorem isP_eq : isP = fun x => x.2.decision == "permit" := rfl

theorem good_not_deny {r : Raw} (hg : GoodRes r) (h : (r.decision == "deny") = false) : (r.decision == "permit") = true := by
  rcases hg.dec with h1 | h1 <;> simp_all

theorem loopKids_do (rs : List (PyVal × Raw)) (hg : ∀ x ∈ rs, GoodRes x.2) :
    ∀ s : SetSt, s.anyDeny = false → s.deny = none → s.anyPermit = s.permit.isSome →
      finaliseSet "deny-overrides" (loopKids "deny-overrides" s rs) =
        (match (appKids rs).find? isD with
         | some (pid, res) => denyOut res pid
         | none =>
           match s.permit with
           | some (res, pid) => permitOut res pid
           | none =>
             match (appKids rs).find? isP with
             | some (pid, res) => permitOut res pid
             | none => noMatch (loopKids "deny-overrides" s rs).lastRuleId) := by
  induction rs with
  | nil =>
    intro s h1 h2 h3
    simp only [loopKids, appKids, List.filter_nil, List.find?_nil, finaliseSet]
    simp only [show ("deny-overrides" == "first-applicable") = false by decide, Bool.false_eq_true, if_false,
      beq_self_eq_true, if_true, pick, h1, h2]
    cases hp : s.permit with
    | none => simp [hp] at h3; simp [h3]
    | some v => simp [hp] at h3; simp [h3]
  | cons x rs ih =>
    intro s h1 h2 h3
    obtain ⟨pid, res⟩ := x
    have hgr := hg (pid, res) List.mem_cons_self
    have hg' : ∀ x ∈ rs, GoodRes x.2 := fun x hx => hg x (List.mem_cons_of_mem _ hx)
    obtain ⟨f1, f2, f3, f4, f5⟩ := noteRuleId_fields s res
    cases ha : isApplicable res with
    | false =>
      simp only [loopKids, stepChild_not_app _ s pid res hgr ha, Bool.false_eq_true, if_false, appKids, List.filter_cons, ha]
      exact ih hg' s h1 h2 h3
    | true =>
      cases hd : (res.decision == "deny") with
      | true =>
        have hstep : stepChild "deny-overrides" s pid res =
            ({ noteRuleId s res with anyDeny := true, deny := some (res, pid) }, true) := by
          simp [stepChild, combineChild, ha, hd, f5, h2]
        simp [loopKids, hstep, finaliseSet, appKids, List.filter_cons, ha, isD, hd, pick]
      | false =>
        have hp := good_not_deny hgr hd
        have hstep : stepChild "deny-overrides" s pid res =
            ({ noteRuleId s res with anyPermit := true, permit := if s.permit.isNone then some (res, pid) else s.permit }, false) := by
          simp [stepChild, combineChild, ha, hd, hp, f4]
        simp only [loopKids, hstep, Bool.false_eq_true, if_false, appKids, List.filter_cons, ha, if_true,
          List.find?_cons, isD, hd, isP, hp]
        rw [ih hg' _ (by simp [f2, h1]) (by simp [f5, h2]) (by cases hs : s.permit <;> simp [hs])]
        cases hs : s.permit with
        | none => simp [appKids, isD, isP]
        | some v => simp [appKids, isD, isP]

theorem loopKids_po (rs : List (PyVal × Raw)) (hg : ∀ x ∈ rs, GoodRes x.2) :
    ∀ s : SetSt, s.anyPermit = false → s.permit = none → s.anyDeny = s.deny.isSome →
      finaliseSet "permit-overrides" (loopKids "permit-overrides" s rs) =
        (match (appKids rs).find? isP with
         | some (pid, res) => permitOut res pid
         | none =>
           match s.deny with
           | some (res, pid) => denyOut res pid
           | none =>
             match (appKids rs).find? isD with
             | some (pid, res) => denyOut res pid
             | none => noMatch (loopKids "permit-overrides" s rs).lastRuleId) := by
  induction rs with
  | nil =>
    intro s h1 h2 h3
    simp only [loopKids, appKids, List.filter_nil, List.find?_nil, finaliseSet]
    simp only [show ("permit-overrides" == "first-applicable") = false by decide,
      show ("permit-overrides" == "deny-overrides") = false by decide, Bool.false_eq_true, if_false, pick, h1, h2]
    cases hp : s.deny with
    | none => simp [hp] at h3; simp [h3]
    | some v => simp [hp] at h3; simp [h3]
  | cons x rs ih =>
    intro s h1 h2 h3
    obtain ⟨pid, res⟩ := x
    have hgr := hg (pid, res) List.mem_cons_self
    have hg' : ∀ x ∈ rs, GoodRes x.2 := fun x hx => hg x (List.mem_cons_of_mem _ hx)
    obtain ⟨f1, f2, f3, f4, f5⟩ := noteRuleId_fields s res
    cases ha : isApplicable res with
    | false =>
      simp only [loopKids, stepChild_not_app _ s pid res hgr ha, Bool.false_eq_true, if_false, appKids, List.filter_cons, ha]
      exact ih hg' s h1 h2 h3
    | true =>
      cases hd : (res.decision == "deny") with
      | false =>
        have hp := good_not_deny hgr hd
        have hstep : stepChild "permit-overrides" s pid res =
            ({ noteRuleId s res with anyPermit := true, permit := some (res, pid) }, true) := by
          simp [stepChild, combineChild, ha, hd, hp, f4, h2]
        simp [loopKids, hstep, finaliseSet, appKids, List.filter_cons, ha, isP, hp, pick]
      | true =>
        have hnp : (res.decision == "permit") = false := by
          have : res.decision = "deny" := by simpa using hd
          simp [this]
        have hstep : stepChild "permit-overrides" s pid res =
            ({ noteRuleId s res with anyDeny := true, deny := if s.deny.isNone then some (res, pid) else s.deny }, false) := by
          simp [stepChild, combineChild, ha, hd, f5]
        simp only [loopKids, hstep, Bool.false_eq_true, if_false, appKids, List.filter_cons, ha, if_true,
          List.find?_cons, isD, hd, isP, hnp]
        rw [ih hg' _ (by simp [f1, h1]) (by simp [f4, h2]) (by cases hs : s.deny <;> simp [hs])]
        cases hs : s.deny with
        | none => simp [appKids, isD, isP]
        | some v => simp [appKids, isD, isP]

end Rbacx

namespace Rbacx

/-! ### leaves -/

/-- what the schema guarantees about applicable rules: string ids, effect permit or deny -/
def OutsOk (outs : List Outcome) : Prop :=
  ∀ o ∈ outs, o.applied = true → (∃ s, o.rid = .str s) ∧ (o.effect = "permit" ∨ o.effect = "deny")

structure GoodRes' (r : Raw) : Prop extends GoodRes r where
  sym : r.ruleId = r.lastRuleId

theorem isApplicable_sym {r : Raw} (h : r.ruleId = r.lastRuleId) :
    isApplicable r = (match r.lastRuleId with
      | .str s => s != "" || r.reason == "matched" || r.reason == "explicit_deny"
      | _ => false) := by
  unfold isApplicable
  rw [h]
  cases r.lastRuleId <;> simp [PyVal.isNone]

theorem rid_sym {r : Raw} (h : r.ruleId = r.lastRuleId) : r.rid = r.lastRuleId := by
  unfold Raw.rid PyVal.por
  rw [h]; split <;> rfl

theorem find_mem {p : Outcome → Bool} {l : List Outcome} {o : Outcome} (h : l.find? p = some o) : o ∈ l ∧ p o = true :=
  ⟨List.mem_of_find?_eq_some h, List.find?_some h⟩

theorem lastWhere_mem {p : Outcome → Bool} : ∀ {l : List Outcome} {o : Outcome}, lastWhere p l = some o → o ∈ l ∧ p o = true := by
  intro l
  induction l with
  | nil => intro o h; simp [lastWhere] at h
  | cons a as ih =>
    intro o h
    simp only [lastWhere] at h
    cases hl : lastWhere p as with
    | some x =>
      simp only [hl] at h
      injection h with h
      subst h
      exact ⟨List.mem_cons_of_mem _ (ih hl).1, (ih hl).2⟩
    | none =>
      simp only [hl] at h
      by_cases hp : p a = true
      · simp only [hp, if_true] at h
        injection h with h
        subst h
        exact ⟨List.mem_cons_self, hp⟩
      · simp [hp] at h

theorem lastWhere_none {p : Outcome → Bool} : ∀ {l : List Outcome}, lastWhere p l = none → ∀ o ∈ l, p o = false := by
  intro l
  induction l with
  | nil => intro _ o ho; simp at ho
  | cons a as ih =>
    intro h o ho
    simp only [lastWhere] at h
    cases hl : lastWhere p as with
    | some x => simp [hl] at h
    | none =>
      simp only [hl] at h
      rcases List.mem_cons.mp ho with h1 | h1
      · subst h1
        cases hp : p o with
        | false => rfl
        | true => simp [hp] at h
      · exact ih hl o h1

theorem applied_of_isDeny {o : Outcome} (h : o.isDeny = true) : o.applied = true := by cases o <;> simp_all [Outcome.isDeny, Outcome.applied]
theorem applied_of_isPermit {o : Outcome} (h : o.isPermit = true) : o.applied = true := by cases o <;> simp_all [Outcome.isPermit, Outcome.applied]

theorem applied_cases {o : Outcome} (h : o.applied = true) (he : o.effect = "permit" ∨ o.effect = "deny") :
    (o.isDeny = true ∧ o.isPermit = false) ∨ (o.isDeny = false ∧ o.isPermit = true) := by
  cases o <;> simp_all [Outcome.applied, Outcome.isDeny, Outcome.isPermit, Outcome.effect]
  rcases he with h1 | h1 <;> simp [h1]

theorem rawNone_good (reason : String) : GoodRes' (rawNone reason) ∧ isApplicable (rawNone reason) = false := by
  refine ⟨⟨⟨Or.inr rfl, fun _ => rfl⟩, rfl⟩, rfl⟩

theorem applied_str_app (rid : PyVal) (s : String) (h : rid = .str s) (r : Raw) (hl : r.lastRuleId = rid) (hr : r.ruleId = rid)
    (hreason : r.reason = "matched" ∨ r.reason = "explicit_deny") : isApplicable r = true := by
  rw [isApplicable_sym (by rw [hl, hr]), hl, h]
  rcases hreason with h1 | h1 <;> simp [h1]

/-- a single policy under one of the three algorithms: decision as documented, applicable iff some rule applied -/
theorem leaf_view (algo : String) (halgo : Spec.knownAlgo algo = true) (outs : List Outcome) (hok : OutsOk outs)
    (hr : RidsNonNull outs) :
    let raw := finalise algo (loopOuts algo {} outs)
    raw.decision = (Spec.leaf algo outs).decision ∧ isApplicable raw = (Spec.leaf algo outs).applicable ∧ GoodRes' raw := by
  have hany_none : outs.any Outcome.applied = false → ∀ o ∈ outs, o.applied = false := by
    intro h o ho
    cases ha : o.applied with
    | false => rfl
    | true => have : outs.any Outcome.applied = true := List.any_eq_true.mpr ⟨o, ho, ha⟩; rw [h] at this; cases this
  simp only [Spec.knownAlgo, Bool.or_eq_true, beq_iff_eq] at halgo
  rcases halgo with (rfl | rfl) | rfl
  · -- deny-overrides
    simp only [evaluate_do_full, Spec.leaf, beq_self_eq_true, if_true]
    simp only [specDO, specDecisionDO]
    cases hfd : outs.find? Outcome.isDeny with
    | some d =>
      obtain ⟨hm, hd⟩ := find_mem hfd
      obtain ⟨⟨s, hs⟩, _⟩ := hok d hm (applied_of_isDeny hd)
      have hanyd : outs.any Outcome.isDeny = true := List.any_eq_true.mpr ⟨d, hm, hd⟩
      have hanya : outs.any Outcome.applied = true := List.any_eq_true.mpr ⟨d, hm, applied_of_isDeny hd⟩
      have happ := applied_str_app d.rid s hs (rawDeny d) rfl rfl (Or.inr rfl)
      exact ⟨by simp [rawDeny, hanyd], by rw [happ, hanya],
             ⟨⟨Or.inr rfl, fun h => by rw [happ] at h; cases h⟩, rfl⟩⟩
    | none =>
      have hnod : outs.any Outcome.isDeny = false := by
        cases h : outs.any Outcome.isDeny with
        | false => rfl
        | true =>
          obtain ⟨o, ho, hd⟩ := List.any_eq_true.mp h
          have := List.find?_eq_none.mp hfd o ho
          simp [hd] at this
      cases hlp : lastWhere Outcome.isPermit outs with
      | some p =>
        obtain ⟨hm, hp⟩ := lastWhere_mem hlp
        obtain ⟨⟨s, hs⟩, _⟩ := hok p hm (applied_of_isPermit hp)
        have hanyp : outs.any Outcome.isPermit = true := List.any_eq_true.mpr ⟨p, hm, hp⟩
        have hanya : outs.any Outcome.applied = true := List.any_eq_true.mpr ⟨p, hm, applied_of_isPermit hp⟩
        have happ := applied_str_app p.rid s hs (rawPermit p.rid p.obls) rfl rfl (Or.inl rfl)
        exact ⟨by simp [rawPermit, hnod, hanyp], by rw [happ, hanya],
               ⟨⟨Or.inl rfl, fun h => by rw [happ] at h; cases h⟩, rfl⟩⟩
      | none =>
        have hnop : outs.any Outcome.isPermit = false := by
          cases h : outs.any Outcome.isPermit with
          | false => rfl
          | true =>
            obtain ⟨o, ho, hp⟩ := List.any_eq_true.mp h
            have := lastWhere_none hlp o ho
            rw [hp] at this; cases this
        have hnoa : outs.any Outcome.applied = false := by
          cases h : outs.any Outcome.applied with
          | false => rfl
          | true =>
            obtain ⟨o, ho, ha⟩ := List.any_eq_true.mp h
            rcases applied_cases ha (hok o ho ha).2 with ⟨h1, _⟩ | ⟨_, h2⟩
            · have : outs.any Outcome.isDeny = true := List.any_eq_true.mpr ⟨o, ho, h1⟩; rw [hnod] at this; cases this
            · have : outs.any Outcome.isPermit = true := List.any_eq_true.mpr ⟨o, ho, h2⟩; rw [hnop] at this; cases this
        obtain ⟨hg, hna⟩ := rawNone_good (lastReason "no_match" outs)
        exact ⟨by simp [rawNone, hnod, hnop], by rw [hna, hnoa], hg⟩
  · -- permit-overrides
    simp only [evaluate_po_full, Spec.leaf, show ("permit-overrides" == "deny-overrides") = false by decide,
      Bool.false_eq_true, if_false, beq_self_eq_true, if_true]
    simp only [specPO, specDecisionPO]
    cases hfp : outs.find? Outcome.isPermit with
    | some p =>
      obtain ⟨hm, hp⟩ := find_mem hfp
      obtain ⟨⟨s, hs⟩, _⟩ := hok p hm (applied_of_isPermit hp)
      have hanyp : outs.any Outcome.isPermit = true := List.any_eq_true.mpr ⟨p, hm, hp⟩
      have hanya : outs.any Outcome.applied = true := List.any_eq_true.mpr ⟨p, hm, applied_of_isPermit hp⟩
      have happ := applied_str_app p.rid s hs (rawPermit p.rid p.obls) rfl rfl (Or.inl rfl)
      exact ⟨by simp [rawPermit, hanyp], by rw [happ, hanya],
             ⟨⟨Or.inl rfl, fun h => by rw [happ] at h; cases h⟩, rfl⟩⟩
    | none =>
      have hnop : outs.any Outcome.isPermit = false := by
        cases h : outs.any Outcome.isPermit with
        | false => rfl
        | true =>
          obtain ⟨o, ho, hd⟩ := List.any_eq_true.mp h
          have := List.find?_eq_none.mp hfp o ho
          simp [hd] at this
      cases hld : lastWhere Outcome.isDeny outs with
      | some d =>
        obtain ⟨hm, hd⟩ := lastWhere_mem hld
        obtain ⟨⟨s, hs⟩, _⟩ := hok d hm (applied_of_isDeny hd)
        have hanya : outs.any Outcome.applied = true := List.any_eq_true.mpr ⟨d, hm, applied_of_isDeny hd⟩
        have happ := applied_str_app d.rid s hs (rawDeny d) rfl rfl (Or.inr rfl)
        refine ⟨?_, by rw [happ, hanya], ⟨⟨Or.inr rfl, fun h => by rw [happ] at h; cases h⟩, rfl⟩⟩
        simp only [rawDeny, hnop, Bool.false_eq_true, if_false]
        split <;> rfl
      | none =>
        have hnod : outs.any Outcome.isDeny = false := by
          cases h : outs.any Outcome.isDeny with
          | false => rfl
          | true =>
            obtain ⟨o, ho, hp⟩ := List.any_eq_true.mp h
            have := lastWhere_none hld o ho
            rw [hp] at this; cases this
        have hnoa : outs.any Outcome.applied = false := by
          cases h : outs.any Outcome.applied with
          | false => rfl
          | true =>
            obtain ⟨o, ho, ha⟩ := List.any_eq_true.mp h
            rcases applied_cases ha (hok o ho ha).2 with ⟨h1, _⟩ | ⟨_, h2⟩
            · have : outs.any Outcome.isDeny = true := List.any_eq_true.mpr ⟨o, ho, h1⟩; rw [hnod] at this; cases this
            · have : outs.any Outcome.isPermit = true := List.any_eq_true.mpr ⟨o, ho, h2⟩; rw [hnop] at this; cases this
        obtain ⟨hg, hna⟩ := rawNone_good (lastReason "no_match" outs)
        exact ⟨by simp [rawNone, hnod, hnop], by rw [hna, hnoa], hg⟩
  · -- first-applicable
    simp only [evaluate_fa_full outs hr, Spec.leaf, show ("first-applicable" == "deny-overrides") = false by decide,
      show ("first-applicable" == "permit-overrides") = false by decide, Bool.false_eq_true, if_false]
    simp only [specFA, specDecisionFA]
    cases hfa : outs.find? Outcome.applied with
    | some o =>
      obtain ⟨hm, ha⟩ := find_mem hfa
      obtain ⟨⟨s, hs⟩, heff⟩ := hok o hm ha
      have hanya : outs.any Outcome.applied = true := List.any_eq_true.mpr ⟨o, hm, ha⟩
      have hreason : (if (o.effect == "deny") = true then "explicit_deny" else "matched") = "matched" ∨
          (if (o.effect == "deny") = true then "explicit_deny" else "matched") = "explicit_deny" := by
        split
        · exact Or.inr rfl
        · exact Or.inl rfl
      have happ := applied_str_app o.rid s hs
        { decision := o.effect, reason := if (o.effect == "deny") = true then "explicit_deny" else "matched", ruleId := o.rid, lastRuleId := o.rid, obligations := o.obls }
        rfl rfl hreason
      exact ⟨rfl, by rw [happ, hanya], ⟨⟨heff, fun h => by rw [happ] at h; cases h⟩, rfl⟩⟩
    | none =>
      have hnoa : outs.any Outcome.applied = false := by
        cases h : outs.any Outcome.applied with
        | false => rfl
        | true =>
          obtain ⟨o, ho, ha⟩ := List.any_eq_true.mp h
          have := List.find?_eq_none.mp hfa o ho
          simp [ha] at this
      obtain ⟨hg, hna⟩ := rawNone_good (lastReason "no_match" outs)
      exact ⟨by simp [rawNone], by rw [hna, hnoa], hg⟩

end Rbacx

namespace Rbacx

/-! ### nodes -/

/-- a child's raw result corresponds to its documented result -/
def Rel (x : PyVal × Raw) (y : PyVal × Spec.Res) : Prop :=
  x.1 = y.1 ∧ x.2.decision = y.2.decision ∧ isApplicable x.2 = y.2.applicable ∧ GoodRes' x.2

inductive AllRel : List (PyVal × Raw) → List (PyVal × Spec.Res) → Prop where
  | nil : AllRel [] []
  | cons {x : PyVal × Raw} {y : PyVal × Spec.Res} {rs : List (PyVal × Raw)} {ks : List (PyVal × Spec.Res)} :
      Rel x y → AllRel rs ks → AllRel (x :: rs) (y :: ks)

theorem rel_find (d : String) :
    ∀ {rs : List (PyVal × Raw)} {ks : List (PyVal × Spec.Res)}, AllRel rs ks →
      (match (appKids rs).find? (fun x => x.2.decision == d), (ks.filter (·.2.applicable)).find? (·.2.decision == d) with
       | some (pid, res), some (pid', _) => pid = pid' ∧ isApplicable res = true ∧ res.decision = d ∧ GoodRes' res
       | none, none => True
       | _, _ => False) := by
  intro rs ks h
  induction h with
  | nil => simp [appKids]
  | @cons x y rs ks hxy _ ih =>
    obtain ⟨h1, h2, h3, h4⟩ := hxy
    cases ha : isApplicable x.2 with
    | false =>
      have : y.2.applicable = false := by rw [← h3]; exact ha
      simpa [appKids, List.filter_cons, ha, this] using ih
    | true =>
      have hya : y.2.applicable = true := by rw [← h3]; exact ha
      by_cases hd : x.2.decision = d
      · have hyd : y.2.decision = d := by rw [← h2]; exact hd
        obtain ⟨pid, res⟩ := x
        obtain ⟨pid', r⟩ := y
        simp only at ha hd hya hyd h1 h4
        simp [appKids, List.filter_cons, ha, hya, hd, hyd, h1, h4]
      · have hyd : ¬ y.2.decision = d := by rw [← h2]; exact hd
        simpa [appKids, List.filter_cons, ha, hya, hd, hyd] using ih

theorem rel_head :
    ∀ {rs : List (PyVal × Raw)} {ks : List (PyVal × Spec.Res)}, AllRel rs ks →
      (match (appKids rs).head?, (ks.filter (·.2.applicable)).head? with
       | some (pid, res), some (pid', r) => pid = pid' ∧ isApplicable res = true ∧ res.decision = r.decision ∧ GoodRes' res
       | none, none => True
       | _, _ => False) := by
  intro rs ks h
  induction h with
  | nil => simp [appKids]
  | @cons x y rs ks hxy _ ih =>
    obtain ⟨h1, h2, h3, h4⟩ := hxy
    cases ha : isApplicable x.2 with
    | false =>
      have : y.2.applicable = false := by rw [← h3]; exact ha
      simpa [appKids, List.filter_cons, ha, this] using ih
    | true =>
      have hya : y.2.applicable = true := by rw [← h3]; exact ha
      obtain ⟨pid, res⟩ := x
      obtain ⟨pid', r⟩ := y
      simp only at ha hya h1 h2 h4
      simp [appKids, List.filter_cons, ha, hya, h1, h2, h4]

theorem loopKids_no_app (algo : String) (rs : List (PyVal × Raw)) (hg : ∀ x ∈ rs, GoodRes x.2) (hno : appKids rs = []) :
    ∀ s, loopKids algo s rs = s := by
  induction rs with
  | nil => intro s; rfl
  | cons x rs ih =>
    intro s
    obtain ⟨pid, res⟩ := x
    have ha : isApplicable res = false := by
      cases h : isApplicable res with
      | false => rfl
      | true => simp [appKids, List.filter_cons, h] at hno
    have hno' : appKids rs = [] := by simpa [appKids, List.filter_cons, ha] using hno
    simp only [loopKids, stepChild_not_app algo s pid res (hg (pid, res) List.mem_cons_self) ha, Bool.false_eq_true, if_false]
    exact ih (fun x hx => hg x (List.mem_cons_of_mem _ hx)) hno' s

theorem denyOut_good (res : Raw) (pid : PyVal) (hg : GoodRes' res) (ha : isApplicable res = true) :
    isApplicable (denyOut res pid) = true ∧ GoodRes' (denyOut res pid) := by
  have hrid := rid_sym hg.sym
  have hl : ∃ s, res.lastRuleId = .str s := by
    rw [isApplicable_sym hg.sym] at ha
    cases h : res.lastRuleId <;> simp [h] at ha
    exact ⟨_, rfl⟩
  obtain ⟨s, hs⟩ := hl
  have happ : isApplicable (denyOut res pid) = true :=
    applied_str_app (.str s) s rfl (denyOut res pid) (by simp [denyOut, hrid, hs]) (by simp [denyOut, hrid, hs]) (Or.inr rfl)
  exact ⟨happ, ⟨⟨Or.inr rfl, fun h => absurd h (by simp [happ])⟩, rfl⟩⟩

theorem permitOut_good (res : Raw) (pid : PyVal) (hg : GoodRes' res) (ha : isApplicable res = true) :
    isApplicable (permitOut res pid) = true ∧ GoodRes' (permitOut res pid) ∧ (permitOut res pid).decision = res.decision := by
  have hsym : (permitOut res pid).ruleId = (permitOut res pid).lastRuleId := hg.sym
  have happ : isApplicable (permitOut res pid) = true := by
    rw [isApplicable_sym hsym]
    rw [isApplicable_sym hg.sym] at ha
    simp only [permitOut]
    cases h : res.lastRuleId <;> simp only [h] at ha ⊢ <;> (try exact ha)
    by_cases he : (res.reason == "") = true
    · have hr : res.reason = "" := by simpa using he
      simp only [hr] at ha ⊢
      simpa using ha
    · simp only [he, if_false]
      exact ha
  exact ⟨happ, ⟨⟨hg.dec, fun h => by rw [happ] at h; cases h⟩, hsym⟩, rfl⟩

/-- the child-combining step of a set: decision, applicability and deciding child as documented -/
theorem node_view (algo : String) (halgo : Spec.knownAlgo algo = true) (rs : List (PyVal × Raw))
    (ks : List (PyVal × Spec.Res)) (hrel : AllRel rs ks) :
    let raw := finaliseSet algo (loopKids algo {} rs)
    let r := Spec.combine algo ks
    raw.decision = r.decision ∧ isApplicable raw = r.applicable ∧ (r.applicable = true → raw.policyId = r.policyId) ∧ GoodRes' raw := by
  have hg : ∀ x ∈ rs, GoodRes x.2 := by
    intro x hx
    clear halgo
    induction hrel with
    | nil => simp at hx
    | @cons x0 y0 rs0 ks0 hxy _ ih =>
      rcases List.mem_cons.mp hx with h1 | h1
      · subst h1; exact hxy.2.2.2.toGoodRes
      · exact ih h1
  have hnm : ∀ x, GoodRes' (noMatch x) → True := fun _ _ => trivial
  have noMatchNone : isApplicable (noMatch .none) = false ∧ GoodRes' (noMatch .none) :=
    ⟨rfl, ⟨⟨Or.inr rfl, fun _ => rfl⟩, rfl⟩⟩
  simp only [Spec.knownAlgo, Bool.or_eq_true, beq_iff_eq] at halgo
  rcases halgo with (rfl | rfl) | rfl
  · -- deny-overrides
    simp only [loopKids_do rs hg {} rfl rfl rfl, Spec.combine,
      show ("deny-overrides" == "first-applicable") = false by decide, Bool.false_eq_true, if_false, beq_self_eq_true, if_true]
    have hD := rel_find "deny" hrel
    have hP := rel_find "permit" hrel
    simp only [isD_eq, isP_eq] at *
    cases h1 : (appKids rs).find? (fun x => x.2.decision == "deny") with
    | some v =>
      obtain ⟨pid, res⟩ := v
      cases h2 : (ks.filter (·.2.applicable)).find? (·.2.decision == "deny") with
      | none => simp [h1, h2] at hD
      | some w =>
        obtain ⟨pid', r'⟩ := w
        simp only [h1, h2] at hD
        obtain ⟨hp, ha, _, hgr⟩ := hD
        obtain ⟨happ, hgood⟩ := denyOut_good res pid hgr ha
        exact ⟨rfl, happ, fun _ => by simp [denyOut, hp], hgood⟩
    | none =>
      cases h2 : (ks.filter (·.2.applicable)).find? (·.2.decision == "deny") with
      | some w => simp [h1, h2] at hD
      | none =>
        simp only
        cases h3 : (appKids rs).find? (fun x => x.2.decision == "permit") with
        | some v =>
          obtain ⟨pid, res⟩ := v
          cases h4 : (ks.filter (·.2.applicable)).find? (·.2.decision == "permit") with
          | none => simp [h3, h4] at hP
          | some w =>
            obtain ⟨pid', r'⟩ := w
            simp only [h3, h4] at hP
            obtain ⟨hp, ha, hdec, hgr⟩ := hP
            obtain ⟨happ, hgood, hd⟩ := permitOut_good res pid hgr ha
            exact ⟨by rw [hd, hdec], happ, fun _ => by simp [permitOut, hp], hgood⟩
        | none =>
          cases h4 : (ks.filter (·.2.applicable)).find? (·.2.decision == "permit") with
          | some w => simp [h3, h4] at hP
          | none =>
            have hnone : appKids rs = [] := by
              cases hk : appKids rs with
              | nil => rfl
              | cons x xs =>
                have hx : x ∈ appKids rs := by rw [hk]; exact List.mem_cons_self
                have hxm := (List.mem_filter.mp hx).1
                rcases (hg x hxm).dec with hdd | hdd
                · have := List.find?_eq_none.mp h3 x hx; simp [hdd] at this
                · have := List.find?_eq_none.mp h1 x hx; simp [hdd] at this
            simp only [loopKids_no_app _ rs hg hnone]
            exact ⟨rfl, noMatchNone.1, (fun h => by cases h), noMatchNone.2⟩
  · -- permit-overrides
    simp only [loopKids_po rs hg {} rfl rfl rfl, Spec.combine,
      show ("permit-overrides" == "first-applicable") = false by decide,
      show ("permit-overrides" == "deny-overrides") = false by decide, Bool.false_eq_true, if_false]
    have hD := rel_find "deny" hrel
    have hP := rel_find "permit" hrel
    simp only [isD_eq, isP_eq] at *
    cases h1 : (appKids rs).find? (fun x => x.2.decision == "permit") with
    | some v =>
      obtain ⟨pid, res⟩ := v
      cases h2 : (ks.filter (·.2.applicable)).find? (·.2.decision == "permit") with
      | none => simp [h1, h2] at hP
      | some w =>
        obtain ⟨pid', r'⟩ := w
        simp only [h1, h2] at hP
        obtain ⟨hp, ha, hdec, hgr⟩ := hP
        obtain ⟨happ, hgood, hd⟩ := permitOut_good res pid hgr ha
        exact ⟨by rw [hd, hdec], happ, fun _ => by simp [permitOut, hp], hgood⟩
    | none =>
      cases h2 : (ks.filter (·.2.applicable)).find? (·.2.decision == "permit") with
      | some w => simp [h1, h2] at hP
      | none =>
        simp only
        cases h3 : (appKids rs).find? (fun x => x.2.decision == "deny") with
        | some v =>
          obtain ⟨pid, res⟩ := v
          cases h4 : (ks.filter (·.2.applicable)).find? (·.2.decision == "deny") with
          | none => simp [h3, h4] at hD
          | some w =>
            obtain ⟨pid', r'⟩ := w
            simp only [h3, h4] at hD
            obtain ⟨hp, ha, _, hgr⟩ := hD
            obtain ⟨happ, hgood⟩ := denyOut_good res pid hgr ha
            exact ⟨rfl, happ, fun _ => by simp [denyOut, hp], hgood⟩
        | none =>
          cases h4 : (ks.filter (·.2.applicable)).find? (·.2.decision == "deny") with
          | some w => simp [h3, h4] at hD
          | none =>
            have hnone : appKids rs = [] := by
              cases hk : appKids rs with
              | nil => rfl
              | cons x xs =>
                have hx : x ∈ appKids rs := by rw [hk]; exact List.mem_cons_self
                have hxm := (List.mem_filter.mp hx).1
                rcases (hg x hxm).dec with hdd | hdd
                · have := List.find?_eq_none.mp h1 x hx; simp [hdd] at this
                · have := List.find?_eq_none.mp h3 x hx; simp [hdd] at this
            simp only [loopKids_no_app _ rs hg hnone]
            exact ⟨rfl, noMatchNone.1, (fun h => by cases h), noMatchNone.2⟩
  · -- first-applicable
    simp only [loopKids_fa rs hg {} rfl, Spec.combine, beq_self_eq_true, if_true]
    have hH := rel_head hrel
    cases h1 : (appKids rs).head? with
    | some v =>
      obtain ⟨pid, res⟩ := v
      cases h2 : (ks.filter (·.2.applicable)).head? with
      | none => simp [h1, h2] at hH
      | some w =>
        obtain ⟨pid', r'⟩ := w
        simp only [h1, h2] at hH
        obtain ⟨hp, ha, hdec, hgr⟩ := hH
        have hsym : ({ res with policyId := pid } : Raw).ruleId = ({ res with policyId := pid } : Raw).lastRuleId := hgr.sym
        have happ : isApplicable ({ res with policyId := pid } : Raw) = true := by
          rw [isApplicable_sym hsym]; rw [isApplicable_sym hgr.sym] at ha; exact ha
        exact ⟨hdec, happ, fun _ => hp, ⟨⟨hgr.dec, fun h => by rw [happ] at h; cases h⟩, hsym⟩⟩
    | none =>
      cases h2 : (ks.filter (·.2.applicable)).head? with
      | some w => simp [h1, h2] at hH
      | none =>
        have hnone : appKids rs = [] := by cases hk : appKids rs <;> simp_all
        simp only [loopKids_no_app _ rs hg hnone]
        exact ⟨rfl, noMatchNone.1, (fun h => by cases h), noMatchNone.2⟩

end Rbacx

namespace Rbacx

/-! ### the whole tree -/

/-- what the schema guarantees about every applicable rule of the document: a string id, effect permit or deny -/
def RulesOk (cx : CondCtx) (rules : List PyVal) : Prop :=
  ∀ rule ∈ rules, ∀ o, ruleOutcome cx rule = .ok o → o.applied = true →
    (∃ s, o.rid = .str s) ∧ (o.effect = "permit" ∨ o.effect = "deny")

def isNode : PTree → Bool
  | .node _ _ => true
  | .leaf _ => false

mutual
theorem tree_view (cx : CondCtx) (i sd : String) :
    ∀ (t : PTree) (r : Spec.Res), RulesOk cx (treeRules t) → Spec.tree cx i sd t = some r →
      ∃ raw, decideTree cx i sd t = .ok raw ∧ raw.decision = r.decision ∧ isApplicable raw = r.applicable ∧ GoodRes' raw ∧
        (isNode t = true → r.applicable = true → raw.policyId = r.policyId)
  | .leaf doc, r, hok, hs => by
    simp only [Spec.tree] at hs
    cases ha : lowerField (doc.get "algorithm") i with
    | error e => simp [ha] at hs
    | ok algo =>
      cases ho : outcomes cx (rulesOf doc) with
      | error e => simp [ha, ho] at hs
      | ok outs =>
        simp only [ha, ho] at hs
        by_cases hk : Spec.knownAlgo algo = true
        · simp only [hk, if_true] at hs
          injection hs with hs
          subst hs
          have hoo : OutsOk outs := by
            intro o hom hap
            obtain ⟨rule, hr, hro⟩ := (outcomes_mem cx _ outs ho o).mp hom
            exact hok rule (by simpa [treeRules] using hr) o hro hap
          obtain ⟨h1, h2, h3⟩ := leaf_view algo hk outs hoo (outcomes_rids cx _ outs ho)
          refine ⟨_, ?_, h1, h2, h3, fun hn => by simp [isNode] at hn⟩
          simp only [decideTree]
          exact evaluate_eq cx i doc algo outs ha ho
        · simp [hk] at hs
  | .node doc cs, r, hok, hs => by
    simp only [Spec.tree] at hs
    cases ha : lowerField (doc.get "algorithm") sd with
    | error e => simp [ha] at hs
    | ok algo =>
      cases hkk : Spec.kids cx i sd cs with
      | none => simp [ha, hkk] at hs
      | some ks =>
        simp only [ha, hkk] at hs
        by_cases hk : Spec.knownAlgo algo = true
        · simp only [hk, if_true] at hs
          injection hs with hs
          subst hs
          obtain ⟨rs, hrs, hrel⟩ := kids_view cx i sd cs ks (by simpa [treeRules] using hok) hkk
          obtain ⟨h1, h2, h3, h4⟩ := node_view algo hk rs ks hrel
          refine ⟨_, ?_, h1, h2, h4, fun _ => h3⟩
          simp only [decideTree, ha, childrenLoop_eq_loopKids cx i sd algo cs {} rs hrs]
        · simp [hk] at hs
theorem kids_view (cx : CondCtx) (i sd : String) :
    ∀ (cs : List PTree) (ks : List (PyVal × Spec.Res)), RulesOk cx (treeRulesL cs) → Spec.kids cx i sd cs = some ks →
      ∃ rs, kidsRes cx i sd cs = .ok rs ∧ AllRel rs ks
  | [], ks, _, hs => by
    simp only [Spec.kids] at hs
    injection hs with hs
    subst hs
    exact ⟨[], rfl, .nil⟩
  | c :: cs, ks, hok, hs => by
    simp only [Spec.kids] at hs
    cases hc : Spec.tree cx i sd c with
    | none => simp [hc] at hs
    | some r =>
      cases hcs : Spec.kids cx i sd cs with
      | none => simp [hc, hcs] at hs
      | some ks' =>
        simp only [hc, hcs] at hs
        injection hs with hs
        subst hs
        have hok1 : RulesOk cx (treeRules c) := fun rule hr => hok rule (by simp [treeRulesL, hr])
        have hok2 : RulesOk cx (treeRulesL cs) := fun rule hr => hok rule (by simp [treeRulesL, hr])
        obtain ⟨raw, hd, h1, h2, h3, _⟩ := tree_view cx i sd c r hok1 hc
        obtain ⟨rs, hrs, hrel⟩ := kids_view cx i sd cs ks' hok2 hcs
        exact ⟨(c.doc.get "id", raw) :: rs, by simp [kidsRes, hd, hrs], .cons ⟨rfl, h1, h2, h3⟩ hrel⟩
end

end Rbacx
