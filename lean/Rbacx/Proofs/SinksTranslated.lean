import Rbacx.Model.PySinks
import Rbacx.Proofs.EngineTranslated
/-
  Rbacx.Proofs.SinksTranslated — what the per-run obligation `Run/C11_sinks_translated.lean` needs to prove the mechanical translation of
  the SINK BLOCK of `Guard._evaluate_core_async` (core/engine.py; `Generated.Src.engine_sinks`, a `Rbacx.PyS.Trace`) equal to its
  specification, and to connect that with the events of the model's `finishDecision`.  Nothing here depends on the generated code.

  * `guarded_call`: the shape the source uses three times — `try: x = <sink>; if x is not None: if iscoroutinefunction(x): await x(args…)
    else: x(args…) except Exception: <log>` — makes exactly one call when the sink is there, none when it is absent, and ends `next`
    whatever the sink does (stated on the emitted text, for every sink, label and argument list);
  * `expectedCalls`: the call list the block has to produce; `encSinkCall`: a model `Event` as the sink call that carries it.
-/
namespace Rbacx.PyS
open Rbacx Rbacx.Py PyVal

/-- the call a sink receives when it is there -/
def sinkCall (label : String) (s : Sink) (args : List PyVal) : List Call :=
  if s.isNotNone then [⟨label, s.isCoro, args⟩] else []

/-- **one guarded sink call**: the `try / if x is not None / if iscoroutinefunction(x) / except Exception` shape makes the call exactly
    when the sink is there — awaited iff it is a coroutine function — and never lets anything out, whether the sink returns or raises -/
theorem guarded_call (label : String) (s : Sink) (args : List PyVal) :
    tryExcept (if s.isNotNone then (if s.isCoro then call label s true args else call label s false args) else next) next =
      ⟨sinkCall label s args, .next⟩ := by
  cases s with
  | absent => rfl
  | fn c r => cases c <;> cases r <;> rfl

/-- what the sink block has to do: `inc`, then `observe` (both only when a metrics object is configured), then `log` (only when a
    logger sink is configured), each only when the object has that attribute -/
def expectedCalls (inc observe log : Sink) (metrics logger : Bool) (dur labels payload : PyVal) : List Call :=
  (if metrics then
    sinkCall "self.metrics.inc" inc [.str "rbacx_decisions_total", labels] ++
    sinkCall "self.metrics.observe" observe [.str "rbacx_decision_seconds", dur, labels]
   else []) ++
  (if logger then sinkCall "self.logger_sink.log" log [payload] else [])

/-- a model `Event` as the sink call that carries it: which sink, with which positional arguments (`dur`: the measured duration, an
    opaque value) -/
def encSinkCall (dur : PyVal) (e : Event) : String × List PyVal :=
  match e with
  | .metricInc _ => ("self.metrics.inc", [.str "rbacx_decisions_total", encEvent e])
  | .metricObserve _ => ("self.metrics.observe", [.str "rbacx_decision_seconds", dur, encEvent e])
  | .audit .. => ("self.logger_sink.log", [encEvent e])

theorem sinkCall_present (label : String) (c r : Bool) (args : List PyVal) :
    sinkCall label (.fn c r) args = [⟨label, c, args⟩] := rfl

theorem sinkCall_absent (label : String) (args : List PyVal) : sinkCall label .absent args = [] := rfl

theorem sinkCall_length_le (label : String) (s : Sink) (args : List PyVal) : (sinkCall label s args).length ≤ 1 := by
  cases s <;> simp [sinkCall, Sink.isNotNone]

/-- the events of `finishDecision` as sink calls, given its Decision (see `finishDecision_events`) -/
theorem events_as_calls (dur env : PyVal) (d : Decision) (hasMetrics hasLogger : Bool) :
    ((if hasMetrics then [Event.metricInc d.effect, Event.metricObserve d.effect] else []) ++
      (if hasLogger then [Event.audit env d.effect d.allowed d.ruleId d.policyId d.reason d.obligations] else [])).map (encSinkCall dur) =
    (if hasMetrics then
      [("self.metrics.inc", [PyVal.str "rbacx_decisions_total", encEvent (.metricInc d.effect)]),
       ("self.metrics.observe", [PyVal.str "rbacx_decision_seconds", dur, encEvent (.metricObserve d.effect)])] else []) ++
    (if hasLogger then
      [("self.logger_sink.log", [encEvent (.audit env d.effect d.allowed d.ruleId d.policyId d.reason d.obligations)])] else []) := by
  cases hasMetrics <;> cases hasLogger <;> rfl

end Rbacx.PyS
