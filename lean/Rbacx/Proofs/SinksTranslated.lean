import Rbacx.Model.PySinks
import Rbacx.Proofs.EngineTranslated
/-
  Rbacx.Proofs.SinksTranslated — what the per-run obligation `Run/C11_sinks_translated.lean` needs to prove the mechanical translation of
  the SINK BLOCK of `Guard._evaluate_core_async` (core/engine.py; `Generated.Src.engine_sinks`, a `Rbacx.PyS.Trace`) equal to its
  specification, and to connect that with the events of the model's `finishDecision`.  Nothing here depends on the generated code.

  * `guarded_call_maybe`: the shape the source uses three times since the repair of finding F21 — `try: x = <sink>; if x is not None:
    await maybe_await(x(args…)) except Exception: <log>` — makes the sink's work run exactly once when the sink is there, in EVERY
    spelling (`def`, `async def`, `def` returning an awaitable), never when it is absent, and ends `next` whether the work returns or
    raises, at call time or at await time (stated on the emitted text, for every sink, label and argument list);
  * `guarded_call_old` / `f21_old_shape_drops_awaitable`: the shape BEFORE the repair (`if iscoroutinefunction(x): await x(args…) else:
    x(args…)`) does the same for the `def` and `async def` spellings only: for a `def` returning an awaitable the work never runs
    (finding F21, kernel-checked);
  * `expectedCalls`: the call list the block has to produce; `encSinkCall`: a model `Event` as the sink call that carries it.
-/
namespace Rbacx.PyS
open Rbacx Rbacx.Py PyVal

/-- the work a sink does when it is there: once -/
def sinkCall (label : String) (s : Sink) (args : List PyVal) : List Call :=
  if s.isNotNone then [⟨label, args⟩] else []

/-- **one guarded sink call (the repaired text)**: `try / if x is not None / await maybe_await(x(args…)) / except Exception` makes the
    sink's work run exactly once when the sink is there — whatever its spelling — and never lets anything out, whether the work
    returns or raises -/
theorem guarded_call_maybe (label : String) (s : Sink) (args : List PyVal) :
    tryExcept (if s.isNotNone then callMaybe label s args else next) next = ⟨sinkCall label s args, .next⟩ := by
  cases s with
  | absent => rfl
  | fn sp r => cases r <;> rfl

/-- the text before the repair (`iscoroutinefunction` dispatch) does the same for a plain `def` and an `async def` … -/
theorem guarded_call_old (label : String) (s : Sink) (args : List PyVal) (h : ∀ r, s ≠ .fn .awaitable r) :
    tryExcept (if s.isNotNone then (if s.isCoro then call label s true args else call label s false args) else next) next =
      ⟨sinkCall label s args, .next⟩ := by
  cases s with
  | absent => rfl
  | fn sp r =>
    cases sp with
    | plain => cases r <;> rfl
    | coroFn => cases r <;> rfl
    | awaitable => exact absurd rfl (h r)

/-- … **but not for a plain `def` that returns an awaitable (finding F21)**: the call is made without `await`, the awaitable is
    dropped, the sink's work never runs, nothing is raised -/
theorem f21_old_shape_drops_awaitable (label : String) (r : Bool) (args : List PyVal) :
    tryExcept (if (Sink.fn .awaitable r).isNotNone then
        (if (Sink.fn .awaitable r).isCoro then call label (.fn .awaitable r) true args else call label (.fn .awaitable r) false args)
      else next) next = ⟨[], .next⟩ := rfl

/-- what the sink block has to do: `inc`, then `observe` (both only when a metrics object is configured), then `log` (only when a
    logger sink is configured), each only when the object has that attribute -/
def expectedCalls (inc observe log : Sink) (metrics logger : Bool) (dur labels payload : PyVal) : List Call :=
  (if metrics then
    sinkCall "self.metrics.inc" inc [.str "rbacx_decisions_total", labels] ++
    sinkCall "self.metrics.observe" observe [.str "rbacx_decision_seconds", dur, labels]
   else []) ++
  (if logger then sinkCall "self.logger_sink.log" log [payload] else [])

/-- a model `Event` as the sink call that carries it: which sink, with which positional arguments (`dur`: the measured duration, an
    opaque value) -/
def encSinkCall (dur : PyVal) (e : Event) : String × List PyVal :=
  match e with
  | .metricInc _ => ("self.metrics.inc", [.str "rbacx_decisions_total", encEvent e])
  | .metricObserve _ => ("self.metrics.observe", [.str "rbacx_decision_seconds", dur, encEvent e])
  | .audit .. => ("self.logger_sink.log", [encEvent e])

theorem sinkCall_present (label : String) (sp : Spelling) (r : Bool) (args : List PyVal) :
    sinkCall label (.fn sp r) args = [⟨label, args⟩] := rfl

theorem sinkCall_absent (label : String) (args : List PyVal) : sinkCall label .absent args = [] := rfl

theorem sinkCall_length_le (label : String) (s : Sink) (args : List PyVal) : (sinkCall label s args).length ≤ 1 := by
  cases s <;> simp [sinkCall, Sink.isNotNone]

/-- the events of `finishDecision` as sink calls, given its Decision (see `finishDecision_events`) -/
theorem events_as_calls (dur env : PyVal) (d : Decision) (hasMetrics hasLogger : Bool) :
    ((if hasMetrics then [Event.metricInc d.effect, Event.metricObserve d.effect] else []) ++
      (if hasLogger then [Event.audit env d.effect d.allowed d.ruleId d.policyId d.reason d.obligations] else [])).map (encSinkCall dur) =
    (if hasMetrics then
      [("self.metrics.inc", [PyVal.str "rbacx_decisions_total", encEvent (.metricInc d.effect)]),
       ("self.metrics.observe", [PyVal.str "rbacx_decision_seconds", dur, encEvent (.metricObserve d.effect)])] else []) ++
    (if hasLogger then
      [("self.logger_sink.log", [encEvent (.audit env d.effect d.allowed d.ruleId d.policyId d.reason d.obligations)])] else []) := by
  cases hasMetrics <;> cases hasLogger <;> rfl

end Rbacx.PyS
