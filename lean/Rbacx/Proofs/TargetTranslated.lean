import Rbacx.Model.PyLib
import Rbacx.Model.Target
import Rbacx.Proofs.PyLibLemmas
/-
  Rbacx.Proofs.TargetTranslated — what the per-run obligation `Run/C05_translated.lean` needs to prove the mechanical translation
  of `match_resource` (core/policy.py; `Generated.Src.match_resource`) equal to the model's `matchResource` (Model/Target.lean).
  Nothing here depends on the generated code.

  The translated function is a chain of blocks, each of which either returns `False` or goes on with what follows it:
  strictness resolution, `# type check`, `# id check`, `# attributes`.  For every block there is one lemma, stated on the Lean text the
  translator emits for that block and generic in the continuation `k` (the value of the statements that follow):
  `block = if <the model's check> then k else False`.  `match_assemble` puts the blocks together.
-/
namespace Rbacx.Py
open PyVal

/-! ### the model, with the strictness as an explicit argument -/

/-- `match_resource` once `strict` is resolved to a bool -/
def matchResourceWith (o : Oracle) (strict : Bool) (rdef res : PyVal) : Bool :=
  match rdef with
  | .dict [] => true
  | .dict _ =>
    typeOk o strict (rdef.get "type") (res.get "type") &&
    idOk o strict (rdef.get "id") (res.get "id") &&
    attrsOk o strict (attrsOf rdef) (attrsOf res)
  | _ => false

theorem matchResource_eq_with (o : Oracle) (strictEnv : Bool) (rdef res : PyVal) :
    matchResource o strictEnv rdef res = matchResourceWith o (effectiveStrict strictEnv res) rdef res := by
  cases rdef with
  | dict kvs => cases kvs <;> rfl
  | _ => rfl

/-- the strictness `match_resource(rdef, resource, strict=…)` works with, as a function of its `strict` argument: `None` = look at
    the legacy flag in the resource mapping, anything else = its truth value -/
def strictArg (strict res : PyVal) : Bool :=
  if strict.isNone then (res.get "__strict_types__").truthy else strict.truthy

/-- the argument `evaluate` / the compiled matcher pass: `True if _is_strict(env) else None` -/
def strictParam (strictEnv : Bool) : PyVal := if strictEnv then .bool true else PyVal.none

theorem strictArg_param (strictEnv : Bool) (res : PyVal) : strictArg (strictParam strictEnv) res = effectiveStrict strictEnv res := by
  cases strictEnv <;> rfl

/-- the `# type check` block once `allowed` is built -/
def typeListOk (o : Oracle) (strict : Bool) (allowed : List PyVal) (resType : PyVal) : Bool :=
  (allowed.map o.pyStr).contains "*" ||
  (if strict then resType.isStr && allowed.all PyVal.isStr && allowed.any (fun x => pyEq x resType)
   else !resType.isNone && (allowed.map o.pyStr).contains (o.pyStr resType))

theorem typeOk_eq (o : Oracle) (strict : Bool) (rType resType : PyVal) :
    typeOk o strict rType resType = (rType.isNone || typeListOk o strict (allowedTypes rType) resType) := rfl

/-! ### truth values of the Python-level tests -/

theorem truthy_pnot (a : PyVal) : (pnot a).truthy = !a.truthy := rfl

theorem truthy_por (a b : PyVal) : (por a b).truthy = (a.truthy || b.truthy) := by
  unfold por; cases h : a.truthy <;> simp [h]

theorem isInstance_dict (a : PyVal) : isInstance a "dict" = .bool a.isDict := rfl
theorem isInstance_str (a : PyVal) : isInstance a "str" = .bool a.isStr := rfl
theorem isInstance_list (a : PyVal) : isInstance a "list" = .bool a.isList := rfl

theorem pyEq_str (a b : String) : pyEq (.str a) (.str b) = (a == b) := rfl

theorem inSet_strs (o : Oracle) (xs : List PyVal) (t : String) :
    inSet (xs.map fun x => strO o x) (.str t) = .bool ((xs.map o.pyStr).contains t) := by
  unfold inSet
  congr 1
  induction xs with
  | nil => rfl
  | cons x xs ih =>
    simp only [List.map_cons, List.any_cons, List.contains_cons, ih]
    show (o.pyStr x == t || _) = _
    rw [BEq.comm]

theorem inSet_strs' (o : Oracle) (xs : List PyVal) (t : String) :
    inSet (xs.map fun x => PyVal.str (o.pyStr x)) (.str t) = .bool ((xs.map o.pyStr).contains t) := inSet_strs o xs t

theorem allOf_isStr (allowed : PyVal) :
    allOf allowed (fun x => PyVal.bool x.isStr) = .bool ((iter allowed).all PyVal.isStr) := rfl

theorem ne_strs (o : Oracle) (a b : PyVal) : ne (strO o a) (strO o b) = .bool (!(o.pyStr a == o.pyStr b)) := rfl

/-! ### the blocks -/

/-- `if "*" not in {str(x) for x in allowed}: if strict: … return False … else: … return False …` followed by `k` -/
theorem type_block (o : Oracle) (strict resType allowed k : PyVal) :
    (if (pnot (inSet ((iter allowed).map fun x => strO o x) (PyVal.str "*"))).truthy then
       (if strict.truthy then
          (if (por (pnot (isInstance resType "str")) (pnot (allOf allowed fun x => isInstance x "str"))).truthy then PyVal.bool false
           else if (pnot (inSet (iter allowed) resType)).truthy then PyVal.bool false else k)
        else
          if (por (isNone resType) (pnot (inSet ((iter allowed).map fun x => strO o x) (strO o resType)))).truthy then PyVal.bool false
          else k)
     else k) = if typeListOk o strict.truthy (iter allowed) resType then k else PyVal.bool false := by
  have e : strO o resType = PyVal.str (o.pyStr resType) := rfl
  simp only [e, inSet_strs, allOf_isStr, isInstance_str, truthy_pnot, truthy_por, truthy_bool, Py.isNone, typeListOk]
  simp only [inSet, truthy_bool]
  grind

/-- the three ways `allowed` is built from the rule's `type` -/
theorem type_dispatch (o : Oracle) (strict : Bool) (rType resType k : PyVal) :
    (if (isInstance rType "str").truthy then (if typeListOk o strict (iter (PyVal.list [rType])) resType then k else PyVal.bool false)
     else if (isInstance rType "list").truthy then
       (if typeListOk o strict (iter (PyVal.list (iter rType))) resType then k else PyVal.bool false)
     else (if typeListOk o strict (iter (PyVal.list [rType])) resType then k else PyVal.bool false)) =
    if typeListOk o strict (allowedTypes rType) resType then k else PyVal.bool false := by
  cases rType <;> rfl

/-- `if r_type is not None: <type check>` followed by `k` -/
theorem type_outer (o : Oracle) (strict : Bool) (rType resType k : PyVal) :
    (if (isNotNone rType).truthy then (if typeListOk o strict (allowedTypes rType) resType then k else PyVal.bool false) else k) =
    if typeOk o strict rType resType then k else PyVal.bool false := by
  rw [typeOk_eq]
  cases rType <;> simp [isNotNone, PyVal.isNone, truthy_bool]

/-- the `# id check` block followed by `k` -/
theorem id_block (o : Oracle) (strict rId resId k : PyVal) :
    (if (isNotNone rId).truthy then
       (if strict.truthy then (if (por (isNone resId) (ne resId rId)).truthy then PyVal.bool false else k)
        else if (por (isNone resId) (ne (strO o resId) (strO o rId))).truthy then PyVal.bool false else k)
     else k) = if idOk o strict.truthy rId resId then k else PyVal.bool false := by
  simp only [strO, pyEq_str, truthy_por, truthy_bool, Py.isNone, Py.isNotNone, Py.ne, idOk]
  grind

/-! ### the attribute loop -/

theorem forItemsRet_all (kvs : List (String × PyVal)) (body : PyVal → PyVal → Option PyVal) (p : String → PyVal → Bool) (k : PyVal)
    (h : ∀ key v, body (.str key) v = if p key v then Option.none else some (PyVal.bool false)) :
    forItemsRet (.dict kvs) body k = if kvs.all (fun kv => p kv.1 kv.2) then k else PyVal.bool false := by
  unfold forItemsRet items
  induction kvs with
  | nil => rfl
  | cons kv rest ih =>
    simp only [List.map_cons, List.findSome?_cons, h, List.all_cons]
    by_cases hp : p kv.1 kv.2 = true
    · rw [if_pos hp]
      simp only [hp, Bool.true_and]
      exact ih
    · simp [hp]

theorem contains_dict_key (kvs : List (String × PyVal)) (key : String) :
    contains (.dict kvs) (.str key) = .bool ((PyVal.dict kvs).hasKey key) := by
  unfold contains
  simp only [iter, PyVal.hasKey]
  congr 1
  induction kvs with
  | nil => rfl
  | cons kv rest ih =>
    obtain ⟨k0, w⟩ := kv
    simp only [List.map_cons, List.any_cons, pyEq_str, lookup, ih]
    by_cases h : k0 = key <;> simp [h]

theorem anyOf_eq (rv : PyVal) (xs : List PyVal) :
    anyOf (.list xs) (fun x => eq rv x) = .bool (xs.any fun x => pyEq rv x) := rfl

/-- the body of `for k, v in r_attrs.items():` for one entry, against a resource attribute mapping that is a dict -/
theorem attr_body (o : Oracle) (strict : PyVal) (ra : List (String × PyVal)) (key : String) (v : PyVal) :
    (if (pnot (contains (.dict ra) (.str key))).truthy then some (PyVal.bool false)
     else
       if (isInstance v "list").truthy then
         (if strict.truthy then
            (if (pnot (anyOf v fun x => eq (getV (.dict ra) (.str key)) x)).truthy then some (PyVal.bool false) else Option.none)
          else
            if (pnot (inSet ((iter v).map fun x => strO o x) (strO o (getV (.dict ra) (.str key))))).truthy then some (PyVal.bool false)
            else Option.none)
       else
         (if strict.truthy then (if (ne (getV (.dict ra) (.str key)) v).truthy then some (PyVal.bool false) else Option.none)
          else if (ne (strO o (getV (.dict ra) (.str key))) (strO o v)).truthy then some (PyVal.bool false) else Option.none)) =
    if attrMatches o strict.truthy (.dict ra) key v then Option.none else some (PyVal.bool false) := by
  rw [contains_dict_key]
  unfold attrMatches
  have e : ∀ a, strO o a = PyVal.str (o.pyStr a) := fun _ => rfl
  simp only [getV, truthy_pnot, truthy_bool, Py.ne, e, pyEq_str]
  by_cases hk : (PyVal.dict ra).hasKey key = true
  · cases v with
    | list xs =>
      simp only [hk, isInstance_list, PyVal.isList, truthy_bool, anyOf_eq, inSet_strs', iter]
      grind
    | none => simp only [hk, isInstance_list, PyVal.isList, truthy_bool]; grind
    | bool b => simp only [hk, isInstance_list, PyVal.isList, truthy_bool]; grind
    | int n => simp only [hk, isInstance_list, PyVal.isList, truthy_bool]; grind
    | float f => simp only [hk, isInstance_list, PyVal.isList, truthy_bool]; grind
    | str s => simp only [hk, isInstance_list, PyVal.isList, truthy_bool]; grind
    | dict d => simp only [hk, isInstance_list, PyVal.isList, truthy_bool]; grind
    | dt a m => simp only [hk, isInstance_list, PyVal.isList, truthy_bool]; grind
  · simp [hk]

/-- the `# attributes` block followed by `k` -/
theorem attrs_block (o : Oracle) (strict rAttrs resAttrs k : PyVal) :
    (if (isInstance rAttrs "dict").truthy then
       (if (pnot (isInstance resAttrs "dict")).truthy then PyVal.bool false
        else
          forItemsRet rAttrs
            (fun key v =>
              if (pnot (contains resAttrs key)).truthy then some (PyVal.bool false)
              else
                if (isInstance v "list").truthy then
                  (if strict.truthy then
                     (if (pnot (anyOf v fun x => eq (getV resAttrs key) x)).truthy then some (PyVal.bool false) else Option.none)
                   else
                     if (pnot (inSet ((iter v).map fun x => strO o x) (strO o (getV resAttrs key)))).truthy then some (PyVal.bool false)
                     else Option.none)
                else
                  (if strict.truthy then (if (ne (getV resAttrs key) v).truthy then some (PyVal.bool false) else Option.none)
                   else if (ne (strO o (getV resAttrs key)) (strO o v)).truthy then some (PyVal.bool false) else Option.none))
            k)
     else k) = if attrsOk o strict.truthy rAttrs resAttrs then k else PyVal.bool false := by
  cases rAttrs with
  | dict kvs =>
    cases resAttrs with
    | dict ra =>
      rw [forItemsRet_all kvs _ (attrMatches o strict.truthy (.dict ra)) k (fun key v => attr_body o strict ra key v)]
      simp only [isInstance_dict, PyVal.isDict, truthy_bool, truthy_pnot, attrsOk, Bool.not_true, Bool.false_eq_true, if_true, if_false]
      rfl
    | _ => simp [isInstance_dict, PyVal.isDict, truthy_bool, truthy_pnot, attrsOk]
  | _ => simp [isInstance_dict, PyVal.isDict, truthy_bool, attrsOk]

/-! ### strictness resolution and the whole function -/

theorem lookup_none_of_not_key (kvs : List (String × PyVal)) (key : String) (h : (PyVal.dict kvs).hasKey key = false) :
    (PyVal.dict kvs).get key = PyVal.none := by
  simp only [PyVal.hasKey, PyVal.get] at *
  cases hl : lookup key kvs <;> simp_all

/-- `_is_strict(resource if "__strict_types__" in resource else {})` is the truth value of the legacy flag in the resource mapping -/
theorem legacy_flag (res : PyVal) :
    (boolOf (get (if (contains res (PyVal.str "__strict_types__")).truthy then res else PyVal.dict []) "__strict_types__")).truthy =
      (res.get "__strict_types__").truthy := by
  cases res with
  | dict kvs =>
    rw [contains_dict_key, truthy_bool]
    by_cases h : (PyVal.dict kvs).hasKey "__strict_types__" = true
    · simp [h, boolOf, Py.get, truthy_bool]
    · have h' : (PyVal.dict kvs).hasKey "__strict_types__" = false := by simpa using h
      rw [lookup_none_of_not_key kvs _ h']
      simp [h', boolOf, Py.get, PyVal.get, lookup, PyVal.truthy]
  | _ => split <;> rfl

/-- what follows the strictness resolution, as a function of the resolved `strict` value, after the block lemmas have been applied -/
def afterStrict (o : Oracle) (rdef resource strict : PyVal) : PyVal :=
  if typeOk o strict.truthy (get rdef "type") (get resource "type") then
    (if idOk o strict.truthy (get rdef "id") (get resource "id") then
       (if attrsOk o strict.truthy (por (get rdef "attrs") (por (get rdef "attributes") (PyVal.dict [])))
             (por (get resource "attrs") (por (get resource "attributes") (PyVal.dict []))) then PyVal.bool true
        else PyVal.bool false)
     else PyVal.bool false)
  else PyVal.bool false

theorem afterStrict_eq (o : Oracle) (rdef resource strict : PyVal) :
    afterStrict o rdef resource strict =
      .bool (typeOk o strict.truthy (rdef.get "type") (resource.get "type") && idOk o strict.truthy (rdef.get "id") (resource.get "id") &&
             attrsOk o strict.truthy (attrsOf rdef) (attrsOf resource)) := by
  unfold afterStrict attrsOf
  simp only [Py.get, ← por_assoc]
  cases typeOk o strict.truthy (rdef.get "type") (resource.get "type") <;>
    cases idOk o strict.truthy (rdef.get "id") (resource.get "id") <;>
    cases attrsOk o strict.truthy (por (por (rdef.get "attrs") (rdef.get "attributes")) (PyVal.dict []))
      (por (por (resource.get "attrs") (resource.get "attributes")) (PyVal.dict [])) <;> rfl

/-- the whole function: the two guards on `rdef`, the resolution of `strict`, and the three blocks -/
theorem match_assemble (o : Oracle) (rdef resource strict : PyVal) :
    (if (pnot (isInstance rdef "dict")).truthy then PyVal.bool false
     else if (pnot rdef).truthy then PyVal.bool true
     else if (isNone strict).truthy then
       afterStrict o rdef resource
         (boolOf (get (if (contains resource (PyVal.str "__strict_types__")).truthy then resource else PyVal.dict []) "__strict_types__"))
     else afterStrict o rdef resource strict) =
    .bool (matchResourceWith o (strictArg strict resource) rdef resource) := by
  cases rdef with
  | dict kvs =>
    cases kvs with
    | nil => rfl
    | cons kv kvs =>
      simp only [afterStrict_eq, legacy_flag]
      unfold matchResourceWith strictArg
      cases strict <;> rfl
  | _ => rfl

end Rbacx.Py
