import Rbacx.Proofs.GuardWitness
/-
  Rbacx.Proofs.Total — on well-formed policy documents no evaluation step raises.
  `policyWF` is what the bundled schema guarantees that matters for totality (objects where the code
  calls `.get`, strings where it calls `.lower()`, two operands where it unpacks `a, b = …`, an object
  under `rel.ctx`); the harness checks on every run that every schema-accepted document satisfies it.
-/
namespace Rbacx
open PyVal

/-! ### well-formedness -/

def relWF (expr : PyVal) : Bool :=
  match expr with
  | .dict _ => !(expr.get "ctx").truthy || (expr.get "ctx").isDict
  | _ => true

mutual
def condWF : Cond → Bool
  | .lit _ => true
  | .rel expr => relWF expr
  | .bin _ (.list [_, _]) => true
  | .bin _ _ => false
  | .all Option.none => true
  | .all (some cs) => condsWF cs
  | .any Option.none => true
  | .any (some cs) => condsWF cs
  | .not c => condWF c
  | .unknown => true
def condsWF : List Cond → Bool
  | [] => true
  | c :: cs => condWF c && condsWF cs
end

/-- `(v or dflt)` is a string, so `.lower()` works -/
def strField (v : PyVal) : Bool := !v.truthy || v.isStr

def ruleWF (rule : PyVal) : Bool := strField (rule.get "effect") && condWF (condOf (rule.get "condition"))

def policyWF (doc : PyVal) : Bool := strField (doc.get "algorithm") && (rulesOf doc).all ruleWF

mutual
def treeWF : PTree → Bool
  | .leaf doc => policyWF doc
  | .node doc cs => strField (doc.get "algorithm") && treesWF cs
def treesWF : List PTree → Bool
  | [] => true
  | c :: cs => treeWF c && treesWF cs
end

/-- the whole document: every level has a string (or absent) algorithm, every rule is well-formed -/
def docWF (doc : PyVal) : Bool := treeWF (treeOf doc) && strField (doc.get "algorithm") && (rulesOf doc).all ruleWF

/-- `context._rebac`, when present, is an object -/
def rebacOk (env : PyVal) : Bool :=
  let v := (por (env.get "context") (.dict [])).get "_rebac"
  !v.truthy || v.isDict

/-! ### no raise in conditions -/

theorem numericPair_err {x y : PyVal} {e : CondErr} (h : numericPair x y = .error e) : e = .typeMismatch := by
  simp only [numericPair] at h
  split at h
  · injection h with h; exact h.symm
  · split at h
    · split at h <;> first | (injection h with h; exact h.symm) | simp at h
    · injection h with h; exact h.symm

theorem parseDt_err {o : Oracle} {strict : Bool} {x : PyVal} {e : CondErr} (h : parseDt o strict x = .error e) :
    e = .typeMismatch := by
  unfold parseDt at h
  split at h
  · split at h <;> first | (injection h with h; exact h.symm) | simp at h
  · split at h
    · simp at h
    · split at h <;> first | (injection h with h; exact h.symm) | simp at h
    · split at h <;> first | (injection h with h; exact h.symm) | simp at h
    · split at h <;> first | (injection h with h; exact h.symm) | simp at h
    · injection h with h; exact h.symm

theorem bind_err {α β : Type} {x : Except CondErr α} {f : α → Except CondErr β} {e : CondErr}
    (h : (x >>= f) = .error e) : x = .error e ∨ ∃ a, x = .ok a ∧ f a = .error e := by
  cases x with
  | error e' => left; simpa [bind, Except.bind] using h
  | ok a => right; exact ⟨a, rfl, by simpa [bind, Except.bind] using h⟩

theorem evalBin_err (cx : CondCtx) (op : BinOp) (a b : PyVal) (e : CondErr)
    (h : evalBin cx op (.list [a, b]) = .error e) : e = .typeMismatch := by
  simp only [evalBin, unpack2, bind, Except.bind, pure, Except.pure] at h
  generalize resolve cx.o a cx.env = x at h
  generalize resolve cx.o b cx.env = y at h
  cases op
  case eq => simp at h
  case ne => simp at h
  case gt => cases hp : numericPair x y <;> simp [hp] at h; subst h; exact numericPair_err hp
  case lt => cases hp : numericPair x y <;> simp [hp] at h; subst h; exact numericPair_err hp
  case ge => cases hp : numericPair x y <;> simp [hp] at h; subst h; exact numericPair_err hp
  case le => cases hp : numericPair x y <;> simp [hp] at h; subst h; exact numericPair_err hp
  case contains => cases x <;> cases y <;> simp_all [throw, throwThe, MonadExceptOf.throw]
  case isIn => cases x <;> cases y <;> simp_all [throw, throwThe, MonadExceptOf.throw]
  case hasAll => cases x <;> cases y <;> simp_all [throw, throwThe, MonadExceptOf.throw]
  case hasAny => cases x <;> cases y <;> simp_all [throw, throwThe, MonadExceptOf.throw]
  case startsWith => cases x <;> cases y <;> simp_all [throw, throwThe, MonadExceptOf.throw]
  case endsWith => cases x <;> cases y <;> simp_all [throw, throwThe, MonadExceptOf.throw]
  case before =>
    cases h1 : parseDt cx.o cx.strict x with
    | error e1 => simp [h1] at h; subst h; exact parseDt_err h1
    | ok m1 =>
      cases h2 : parseDt cx.o cx.strict y with
      | error e2 => simp [h1, h2] at h; subst h; exact parseDt_err h2
      | ok m2 => simp [h1, h2] at h
  case after =>
    cases h1 : parseDt cx.o cx.strict x with
    | error e1 => simp [h1] at h; subst h; exact parseDt_err h1
    | ok m1 =>
      cases h2 : parseDt cx.o cx.strict y with
      | error e2 => simp [h1, h2] at h; subst h; exact parseDt_err h2
      | ok m2 => simp [h1, h2] at h
  case between =>
    cases h1 : parseDt cx.o cx.strict x with
    | error e1 => simp [h1] at h; subst h; exact parseDt_err h1
    | ok m1 =>
      simp only [h1] at h
      split at h
      · rename_i lo hi
        cases h2 : parseDt cx.o cx.strict (resolve cx.o lo cx.env) with
        | error e2 => simp [h2] at h; subst h; exact parseDt_err h2
        | ok m2 =>
          cases h3 : parseDt cx.o cx.strict (resolve cx.o hi cx.env) with
          | error e3 => simp [h2, h3] at h; subst h; exact parseDt_err h3
          | ok m3 => simp [h2, h3] at h
      · simp [throw, throwThe, MonadExceptOf.throw] at h; exact h.symm

theorem dictOf_ok (x : PyVal) (h : (!x.truthy || x.isDict) = true) : ∃ kvs, dictOf x = .ok kvs := by
  unfold dictOf
  by_cases ht : x.truthy = true
  · simp only [ht, Bool.not_true, Bool.false_or] at h
    cases x <;> simp_all [isDict]
  · exact ⟨[], by simp [ht]⟩

theorem evalRel_err (cx : CondCtx) (expr : PyVal) (hwf : relWF expr = true) (henv : rebacOk cx.env = true) (e : CondErr) :
    evalRel cx expr ≠ .error e := by
  intro h
  have hq : ∃ q, relQuery cx.o expr cx.env = .ok q := by
    obtain ⟨base, hb⟩ := dictOf_ok _ henv
    unfold relQuery
    cases expr with
    | str s =>
      simp only
      split
      · exact ⟨_, rfl⟩
      · simp [bind, Except.bind, hb, truthy, pure, Except.pure]
    | dict kvs =>
      simp only
      split
      · exact ⟨_, rfl⟩
      · simp only [bind, Except.bind, hb]
        by_cases hl : ((PyVal.dict kvs).get "ctx").truthy = true
        · have : ((PyVal.dict kvs).get "ctx").isDict = true := by simpa [relWF, hl] using hwf
          obtain ⟨l, hl'⟩ := dictOf_ok ((PyVal.dict kvs).get "ctx") (by simp [this])
          simp [hl, hl', pure, Except.pure]
        · simp [hl, pure, Except.pure]
    | _ => exact ⟨_, rfl⟩
  obtain ⟨q, hq⟩ := hq
  simp only [evalRel, hq, bind, Except.bind] at h
  cases q with
  | none => simp [pure, Except.pure] at h
  | some k =>
    simp only [pure, Except.pure] at h
    split at h <;> simp at h

mutual
theorem evalCond_no_raise (cx : CondCtx) (henv : rebacOk cx.env = true) :
    ∀ (c : Cond), condWF c = true → ∀ cls, evalCond cx c ≠ .error (.raised cls)
  | .lit v, _, cls => by simp [evalCond]
  | .rel expr, hwf, cls => by
    simp only [evalCond]; exact evalRel_err cx expr (by simpa [condWF] using hwf) henv _
  | .bin op operands, hwf, cls => by
    intro h
    simp only [evalCond] at h
    match operands, hwf with
    | .list [a, b], _ => have := evalBin_err cx op a b _ h; simp at this
  | .all Option.none, _, cls => by simp [evalCond]
  | .all (some cs), hwf, cls => by
    simp only [evalCond]; exact evalAll_no_raise cx henv cs (by simpa [condWF] using hwf) cls
  | .any Option.none, _, cls => by simp [evalCond]
  | .any (some cs), hwf, cls => by
    simp only [evalCond]; exact evalAny_no_raise cx henv cs (by simpa [condWF] using hwf) cls
  | .not c, hwf, cls => by
    intro h
    simp only [evalCond] at h
    cases hc : evalCond cx c with
    | ok b => simp [hc, Except.map] at h
    | error e =>
      simp only [hc, Except.map] at h
      injection h with h
      subst h
      exact evalCond_no_raise cx henv c (by simpa [condWF] using hwf) cls hc
  | .unknown, _, cls => by simp [evalCond]
theorem evalAll_no_raise (cx : CondCtx) (henv : rebacOk cx.env = true) :
    ∀ (cs : List Cond), condsWF cs = true → ∀ cls, evalAll cx cs ≠ .error (.raised cls)
  | [], _, cls => by simp [evalAll]
  | c :: cs, hwf, cls => by
    intro h
    simp only [condsWF, Bool.and_eq_true] at hwf
    simp only [evalAll] at h
    cases hc : evalCond cx c with
    | ok b =>
      cases b with
      | true => simp only [hc] at h; exact evalAll_no_raise cx henv cs hwf.2 cls h
      | false => simp [hc] at h
    | error e =>
      simp only [hc] at h
      injection h with h
      subst h
      exact evalCond_no_raise cx henv c hwf.1 cls hc
theorem evalAny_no_raise (cx : CondCtx) (henv : rebacOk cx.env = true) :
    ∀ (cs : List Cond), condsWF cs = true → ∀ cls, evalAny cx cs ≠ .error (.raised cls)
  | [], _, cls => by simp [evalAny]
  | c :: cs, hwf, cls => by
    intro h
    simp only [condsWF, Bool.and_eq_true] at hwf
    simp only [evalAny] at h
    cases hc : evalCond cx c with
    | ok b =>
      cases b with
      | false => simp only [hc] at h; exact evalAny_no_raise cx henv cs hwf.2 cls h
      | true => simp [hc] at h
    | error e =>
      simp only [hc] at h
      injection h with h
      subst h
      exact evalCond_no_raise cx henv c hwf.1 cls hc
end

end Rbacx

namespace Rbacx
open PyVal

/-! ### no raise in the rule loop, the set evaluator, the compiled function and the engine -/

theorem lowerField_ok (v : PyVal) (dflt : String) (h : strField v = true) : ∃ s, lowerField v (dflt) = .ok s := by
  unfold lowerField por
  by_cases ht : v.truthy = true
  · simp only [ht, if_true]
    have : v.isStr = true := by simpa [strField, ht] using h
    cases v <;> simp_all [isStr]
  · simp [ht]

theorem condOutcome_ok (cx : CondCtx) (henv : rebacOk cx.env = true) (cond : PyVal) (hwf : condWF (condOf cond) = true) :
    ∃ r, condOutcome cx cond = .ok r := by
  unfold condOutcome
  split
  · exact ⟨_, rfl⟩
  · split
    · exact ⟨_, rfl⟩
    · exact ⟨_, rfl⟩
    · exact ⟨_, rfl⟩
    · rename_i cls hc
      exact absurd hc (evalCond_no_raise cx henv _ hwf cls)

theorem ruleOutcome_ok (cx : CondCtx) (henv : rebacOk cx.env = true) (rule : PyVal) (hwf : ruleWF rule = true) :
    ∃ out, ruleOutcome cx rule = .ok out := by
  simp only [ruleWF, Bool.and_eq_true] at hwf
  unfold ruleOutcome
  split
  · exact ⟨_, rfl⟩
  · split
    · exact ⟨_, rfl⟩
    · obtain ⟨r, hr⟩ := condOutcome_ok cx henv _ hwf.2
      rw [hr]
      cases r with
      | some out => exact ⟨_, rfl⟩
      | none =>
        obtain ⟨e, he⟩ := lowerField_ok (rule.get "effect") "permit" hwf.1
        simp only [he]
        exact ⟨_, rfl⟩

theorem rulesLoop_ok (cx : CondCtx) (henv : rebacOk cx.env = true) (algo : String) :
    ∀ (rules : List PyVal) (s : LoopSt), rules.all ruleWF = true → ∃ s', rulesLoop cx algo s rules = .ok s' := by
  intro rules
  induction rules with
  | nil => intro s _; exact ⟨s, rfl⟩
  | cons r rs ih =>
    intro s hwf
    simp only [List.all_cons, Bool.and_eq_true] at hwf
    obtain ⟨out, ho⟩ := ruleOutcome_ok cx henv r hwf.1
    simp only [rulesLoop, ho]
    split
    · exact ⟨_, rfl⟩
    · exact ih _ hwf.2

theorem evaluate_ok (cx : CondCtx) (henv : rebacOk cx.env = true) (dflt : String) (doc : PyVal) (hwf : policyWF doc = true) :
    ∃ raw, evaluate cx dflt doc = .ok raw := by
  simp only [policyWF, Bool.and_eq_true] at hwf
  obtain ⟨algo, ha⟩ := lowerField_ok (doc.get "algorithm") dflt hwf.1
  obtain ⟨s', hs⟩ := rulesLoop_ok cx henv algo (rulesOf doc) {} hwf.2
  exact ⟨finalise algo s', by simp [evaluate, ha, hs, bind, Except.bind, pure, Except.pure]⟩

mutual
theorem decideTree_ok (cx : CondCtx) (henv : rebacOk cx.env = true) (i sd : String) :
    ∀ (t : PTree), treeWF t = true → ∃ raw, decideTree cx i sd t = .ok raw
  | .leaf doc, hwf => by
    simp only [decideTree]
    exact evaluate_ok cx henv i doc (by simpa [treeWF] using hwf)
  | .node doc cs, hwf => by
    simp only [treeWF, Bool.and_eq_true] at hwf
    obtain ⟨algo, ha⟩ := lowerField_ok (doc.get "algorithm") sd hwf.1
    obtain ⟨s', hs⟩ := childrenLoop_ok cx henv i sd algo cs hwf.2 {}
    exact ⟨finaliseSet algo s', by simp [decideTree, ha, hs]⟩
theorem childrenLoop_ok (cx : CondCtx) (henv : rebacOk cx.env = true) (i sd algo : String) :
    ∀ (cs : List PTree), treesWF cs = true → ∀ s : SetSt, ∃ s', childrenLoop cx i sd algo s cs = .ok s'
  | [], _, s => ⟨s, rfl⟩
  | c :: cs, hwf, s => by
    simp only [treesWF, Bool.and_eq_true] at hwf
    obtain ⟨res, hr⟩ := decideTree_ok cx henv i sd c hwf.1
    simp only [childrenLoop, hr]
    split
    · exact ⟨_, rfl⟩
    · exact childrenLoop_ok cx henv i sd algo cs hwf.2 _
end

theorem all_of_subset {l l' : List PyVal} {p : PyVal → Bool} (h : l'.all p = true) (hsub : ∀ x ∈ l, x ∈ l') :
    l.all p = true := by
  simp only [List.all_eq_true] at h ⊢
  exact fun x hx => h x (hsub x hx)

theorem compiledDecide_ok (cx : CondCtx) (henv : rebacOk cx.env = true) (c : Consts) (policy : PyVal)
    (hwf : docWF policy = true) : ∃ raw, compiledDecide cx c policy = .ok raw := by
  simp only [docWF, Bool.and_eq_true] at hwf
  unfold compiledDecide
  split
  · exact decideTree_ok cx henv _ _ _ hwf.1.1
  · obtain ⟨algo, ha⟩ := lowerField_ok (policy.get "algorithm") c.compilerDefault hwf.1.2
    simp only [ha]
    have hsel : (selectBucket cx.o (isStrict cx.env)
        ((rulesOf policy).filter (isCandidate · (if (cx.env.get "action").isNone then "" else cx.o.pyStr (cx.env.get "action"))))
        (if ((por (cx.env.get "resource") (.dict [])).get "type").isNone then Option.none
          else some (cx.o.pyStr ((por (cx.env.get "resource") (.dict [])).get "type")))
        (por (cx.env.get "resource") (.dict []))).all ruleWF = true :=
      all_of_subset hwf.2 (fun x hx => (List.mem_filter.mp (selectBucket_subset _ _ _ _ _ x hx)).1)
    obtain ⟨s', hs⟩ := rulesLoop_ok cx henv algo _ {} hsel
    simp only [hs]
    exact ⟨_, rfl⟩

theorem guardDecide_ok (cx : CondCtx) (henv : rebacOk cx.env = true) (c : Consts) (policy : PyVal)
    (hwf : docWF policy = true) : ∃ raw, guardDecide cx c policy = .ok raw := by
  obtain ⟨raw, hr⟩ := compiledDecide_ok cx henv c policy hwf
  exact ⟨raw, by simp [guardDecide, hr]⟩

/-! ### reasons -/

def documentedReasons : List String :=
  ["matched", "explicit_deny", "condition_mismatch", "condition_type_mismatch", "resource_mismatch",
   "action_mismatch", "no_match", "obligation_failed"]

def ReasonOk (r : String) : Prop := r ∈ documentedReasons

theorem stepRule_reason (algo : String) (s : LoopSt) (o : Outcome) (h : ReasonOk s.reason) :
    ReasonOk (stepRule algo s o).1.reason := by
  cases o <;> simp only [stepRule] <;> (try (simp [ReasonOk, documentedReasons]; done))
  split
  · simp only; split <;> simp [ReasonOk, documentedReasons]
  · split
    · split
      · simp [ReasonOk, documentedReasons]
      · exact h
    · split
      · simp [ReasonOk, documentedReasons]
      · exact h

theorem rulesLoop_reason (cx : CondCtx) (algo : String) :
    ∀ (rules : List PyVal) (s s' : LoopSt), ReasonOk s.reason → rulesLoop cx algo s rules = .ok s' → ReasonOk s'.reason := by
  intro rules
  induction rules with
  | nil => intro s s' h hl; simp only [rulesLoop] at hl; injection hl with hl; subst hl; exact h
  | cons r rs ih =>
    intro s s' h hl
    simp only [rulesLoop] at hl
    cases hr : ruleOutcome cx r with
    | error e => simp [hr] at hl
    | ok o =>
      simp only [hr] at hl
      split at hl
      · injection hl with hl; subst hl; exact stepRule_reason algo s o h
      · exact ih _ _ (stepRule_reason algo s o h) hl

theorem finalise_reason (algo : String) (s : LoopSt) (h : ReasonOk s.reason) : ReasonOk (finalise algo s).reason := by
  unfold finalise
  simp only
  split
  · split
    · simp [ReasonOk, documentedReasons]
    · split
      · simp [ReasonOk, documentedReasons]
      · exact h
  · split
    · split
      · simp [ReasonOk, documentedReasons]
      · split
        · simp [ReasonOk, documentedReasons]
        · exact h
    · split <;> exact h

theorem evaluate_reason (cx : CondCtx) (dflt : String) (doc : PyVal) (raw : Raw) (h : evaluate cx dflt doc = .ok raw) :
    ReasonOk raw.reason := by
  unfold evaluate at h
  simp only [bind, Except.bind, pure, Except.pure] at h
  cases ha : lowerField (doc.get "algorithm") dflt with
  | error e => simp [ha] at h
  | ok algo =>
    simp only [ha] at h
    cases hl : rulesLoop cx algo {} (rulesOf doc) with
    | error e => simp [hl] at h
    | ok s' =>
      simp only [hl] at h
      injection h with h
      subst h
      exact finalise_reason algo s' (rulesLoop_reason cx algo _ {} s' (by simp [ReasonOk, documentedReasons]) hl)

end Rbacx

namespace Rbacx
open PyVal

structure SetReasons (s : SetSt) : Prop where
  first : ∀ res pid, s.first = some (res, pid) → ReasonOk res.reason
  permit : ∀ res pid, s.permit = some (res, pid) → ReasonOk res.reason

theorem stepChild_reasons (algo : String) (s : SetSt) (pid : PyVal) (res : Raw) (hr : ReasonOk res.reason)
    (h : SetReasons s) : SetReasons (stepChild algo s pid res).1 := by
  have hperm : (noteRuleId s res).permit = s.permit := by unfold noteRuleId; split <;> (try split) <;> rfl
  have hfirst : (noteRuleId s res).first = s.first := by unfold noteRuleId; split <;> (try split) <;> rfl
  have h0 : SetReasons (noteRuleId s res) := ⟨fun r p hp => h.first r p (hfirst ▸ hp), fun r p hp => h.permit r p (hperm ▸ hp)⟩
  unfold stepChild combineChild
  generalize noteRuleId s res = s0 at h0
  split
  · exact h0
  · split
    · exact ⟨fun r p hp => by simp at hp; obtain ⟨rfl, _⟩ := hp; exact hr, h0.permit⟩
    · split
      · exact ⟨h0.first, h0.permit⟩
      · split
        · refine ⟨h0.first, ?_⟩
          intro r p hp
          simp only at hp
          by_cases hn : s0.permit.isNone = true
          · simp [hn] at hp; obtain ⟨rfl, _⟩ := hp; exact hr
          · simp [hn] at hp; exact h0.permit r p hp
        · exact h0

theorem finaliseSet_reason (algo : String) (s : SetSt) (h : SetReasons s) : ReasonOk (finaliseSet algo s).reason := by
  have nm : ∀ x, ReasonOk (noMatch x).reason := fun _ => by simp [noMatch, ReasonOk, documentedReasons]
  have dn : ∀ r p, ReasonOk (denyOut r p).reason := fun _ _ => by simp [denyOut, ReasonOk, documentedReasons]
  have pm : ∀ r p, pick s.anyPermit s.permit = some (r, p) → ReasonOk (permitOut r p).reason := by
    intro r p hk
    have := h.permit r p (pick_some hk)
    simp only [permitOut]
    split
    · simp [ReasonOk, documentedReasons]
    · exact this
  unfold finaliseSet
  split
  · split
    · rename_i res pid hf; exact h.first res pid hf
    · exact nm _
  · split
    · split
      · exact dn _ _
      · split
        · rename_i res pid hk; exact pm res pid hk
        · exact nm _
    · split
      · rename_i res pid hk; exact pm res pid hk
      · split
        · exact dn _ _
        · exact nm _

mutual
theorem decideTree_reason (cx : CondCtx) (i sd : String) :
    ∀ (t : PTree) (raw : Raw), decideTree cx i sd t = .ok raw → ReasonOk raw.reason
  | .leaf doc, raw, h => by simp only [decideTree] at h; exact evaluate_reason cx i doc raw h
  | .node doc cs, raw, h => by
    simp only [decideTree] at h
    cases ha : lowerField (doc.get "algorithm") sd with
    | error e => simp [ha] at h
    | ok algo =>
      simp only [ha] at h
      cases hl : childrenLoop cx i sd algo {} cs with
      | error e => simp [hl] at h
      | ok s' =>
        simp only [hl] at h
        injection h with h
        subst h
        exact finaliseSet_reason algo s'
          (childrenLoop_reasons cx i sd algo cs {} s' ⟨fun _ _ hp => by simp at hp, fun _ _ hp => by simp at hp⟩ hl)
theorem childrenLoop_reasons (cx : CondCtx) (i sd algo : String) :
    ∀ (cs : List PTree) (s s' : SetSt), SetReasons s → childrenLoop cx i sd algo s cs = .ok s' → SetReasons s'
  | [], s, s', h, hl => by simp only [childrenLoop] at hl; injection hl with hl; subst hl; exact h
  | c :: cs, s, s', h, hl => by
    simp only [childrenLoop] at hl
    cases hc : decideTree cx i sd c with
    | error e => simp [hc] at hl
    | ok res =>
      simp only [hc] at hl
      have hr := decideTree_reason cx i sd c res hc
      have hb := stepChild_reasons algo s (c.doc.get "id") res hr h
      split at hl
      · injection hl with hl; subst hl; exact hb
      · exact childrenLoop_reasons cx i sd algo cs _ s' hb hl
end

theorem guardDecide_reason (cx : CondCtx) (c : Consts) (policy : PyVal) (raw : Raw)
    (h : guardDecide cx c policy = .ok raw) : ReasonOk raw.reason := by
  have hcomp : ∀ raw, compiledDecide cx c policy = .ok raw → ReasonOk raw.reason := by
    intro raw h
    unfold compiledDecide at h
    split at h
    · exact decideTree_reason cx _ _ _ raw h
    · split at h
      · simp at h
      · rename_i algo ha
        simp only at h
        split at h
        · simp at h
        · rename_i s' hl
          injection h with h
          subst h
          exact finalise_reason algo s' (rulesLoop_reason cx algo _ {} s' (by simp [ReasonOk, documentedReasons]) hl)
  unfold guardDecide at h
  split at h
  · rename_i r hc; injection h with h; subst h; exact hcomp r hc
  · split at h
    · exact decideTree_reason cx _ _ _ raw h
    · exact evaluate_reason cx _ policy raw h

theorem ite_reason (c : Prop) [Decidable c] {r : String} (h : ReasonOk r) :
    ReasonOk (if c then "obligation_failed" else r) := by
  split
  · simp [ReasonOk, documentedReasons]
  · exact h

theorem finishDecision_reason (o : Oracle) (cfg : GuardCfg) (req : Request) (env : PyVal) (raw : Raw)
    (h : ReasonOk raw.reason) : ReasonOk (finishDecision o cfg req env raw).1.reason := by
  simp only [finishDecision]
  exact ite_reason _ h

end Rbacx
