import Rbacx.Proofs.Witness
/-
  Rbacx.Proofs.TreeWitness — a raw `permit` of the (nested) set evaluator, of the compiled function and
  of the engine's decision step is the permit of an applicable rule of the policy document.
-/
namespace Rbacx

mutual
/-- every rule of a policy document, at any nesting depth -/
def treeRules : PTree → List PyVal
  | .leaf doc => rulesOf doc
  | .node _ cs => treeRulesL cs
def treeRulesL : List PTree → List PyVal
  | [] => []
  | c :: cs => treeRules c ++ treeRulesL cs
end

/-- `raw` is the permit of an applicable, non-deny rule among `rules`, carrying that rule's id and obligations -/
def PermitWitness (cx : CondCtx) (rules : List PyVal) (raw : Raw) : Prop :=
  ∃ r ∈ rules, ∃ e, ruleOutcome cx r = .ok (.applies e raw.lastRuleId raw.obligations) ∧ (e == "deny") = false

theorem PermitWitness.mono {cx : CondCtx} {rules rules' : List PyVal} {raw : Raw}
    (h : PermitWitness cx rules raw) (hsub : ∀ r ∈ rules, r ∈ rules') : PermitWitness cx rules' raw :=
  let ⟨r, hr, e, ho, he⟩ := h
  ⟨r, hsub r hr, e, ho, he⟩

theorem evaluate_permit_witness (cx : CondCtx) (dflt : String) (doc : PyVal) (raw : Raw)
    (h : evaluate cx dflt doc = .ok raw) (hp : raw.decision = "permit") : PermitWitness cx (rulesOf doc) raw := by
  unfold evaluate at h
  simp only [bind, Except.bind, pure, Except.pure] at h
  cases ha : lowerField (doc.get "algorithm") dflt with
  | error e => simp [ha] at h
  | ok algo =>
    simp only [ha] at h
    cases hl : rulesLoop cx algo {} (rulesOf doc) with
    | error e => simp [hl] at h
    | ok s' =>
      simp only [hl] at h
      injection h with h
      subst h
      exact rulesLoop_permit_witness cx algo _ s' hl hp

/-- permit/first entries kept by the set loop are applicable permit results of children seen so far -/
structure SetBacked (cx : CondCtx) (i sd : String) (seen : List PTree) (s : SetSt) : Prop where
  permit : ∀ res pid, s.permit = some (res, pid) → res.decision = "permit" ∧ ∃ c ∈ seen, decideTree cx i sd c = .ok res
  first : ∀ res pid, s.first = some (res, pid) → ∃ c ∈ seen, decideTree cx i sd c = .ok res

theorem combineChild_backed (cx : CondCtx) (i sd algo : String) (seen : List PTree) (s0 : SetSt) (c : PTree) (res : Raw)
    (hc : decideTree cx i sd c = .ok res) (hin : c ∈ seen) (h0 : SetBacked cx i sd seen s0) :
    SetBacked cx i sd seen (combineChild algo s0 (c.doc.get "id") res).1 := by
  unfold combineChild
  split
  · exact h0
  · split
    · exact ⟨h0.permit, fun r p hr => by simp at hr; obtain ⟨rfl, _⟩ := hr; exact ⟨c, hin, hc⟩⟩
    · split
      · exact ⟨h0.permit, h0.first⟩
      · split
        · rename_i hdp
          refine ⟨?_, h0.first⟩
          intro r p hr
          simp only at hr
          by_cases hn : s0.permit.isNone = true
          · simp [hn] at hr
            obtain ⟨rfl, _⟩ := hr
            exact ⟨by simpa using hdp, c, hin, hc⟩
          · simp [hn] at hr
            exact h0.permit r p hr
        · exact h0

theorem stepChild_backed (cx : CondCtx) (i sd algo : String) (seen : List PTree) (s : SetSt) (c : PTree) (res : Raw)
    (hc : decideTree cx i sd c = .ok res) (h : SetBacked cx i sd seen s) :
    SetBacked cx i sd (seen ++ [c]) (stepChild algo s (c.doc.get "id") res).1 := by
  have hin : c ∈ seen ++ [c] := by simp
  have mono : ∀ {res' : Raw}, (∃ c' ∈ seen, decideTree cx i sd c' = .ok res') →
      ∃ c' ∈ seen ++ [c], decideTree cx i sd c' = .ok res' :=
    fun ⟨c', hc', hd⟩ => ⟨c', List.mem_append_left _ hc', hd⟩
  have hperm : (noteRuleId s res).permit = s.permit := by unfold noteRuleId; split <;> (try split) <;> rfl
  have hfirst : (noteRuleId s res).first = s.first := by unfold noteRuleId; split <;> (try split) <;> rfl
  have h0 : SetBacked cx i sd (seen ++ [c]) (noteRuleId s res) :=
    ⟨fun r p hr => by rw [hperm] at hr; exact ⟨(h.permit r p hr).1, mono (h.permit r p hr).2⟩,
     fun r p hr => by rw [hfirst] at hr; exact mono (h.first r p hr)⟩
  exact combineChild_backed cx i sd algo _ _ c res hc hin h0

theorem pick_some {flag : Bool} {x : Option (Raw × PyVal)} {v : Raw × PyVal} (h : pick flag x = some v) : x = some v := by
  unfold pick at h; split at h <;> simp_all

theorem finaliseSet_permit (cx : CondCtx) (i sd algo : String) (seen : List PTree) (s : SetSt)
    (h : SetBacked cx i sd seen s) (hp : (finaliseSet algo s).decision = "permit") :
    ∃ res, res.decision = "permit" ∧ (finaliseSet algo s).lastRuleId = res.lastRuleId ∧
      (finaliseSet algo s).obligations = res.obligations ∧ ∃ c ∈ seen, decideTree cx i sd c = .ok res := by
  have permitCase : ∀ res pid, pick s.anyPermit s.permit = some (res, pid) →
      ∃ res', res'.decision = "permit" ∧ (permitOut res pid).lastRuleId = res'.lastRuleId ∧
        (permitOut res pid).obligations = res'.obligations ∧ ∃ c ∈ seen, decideTree cx i sd c = .ok res' := by
    intro res pid hk
    have := h.permit res pid (pick_some hk)
    exact ⟨res, this.1, by simp [permitOut], by simp [permitOut], this.2⟩
  unfold finaliseSet at hp ⊢
  split
  · rename_i hfa
    simp only [hfa, if_true] at hp
    split
    · rename_i res pid hf
      simp only [hf] at hp
      exact ⟨res, by simpa using hp, rfl, rfl, h.first res pid hf⟩
    · rename_i hf
      simp [hf, noMatch] at hp
  · rename_i hfa
    simp only [hfa, Bool.false_eq_true, if_false] at hp
    split
    · rename_i hdo
      simp only [hdo, if_true] at hp
      split
      · rename_i res pid hk
        simp [hk, denyOut] at hp
      · rename_i hk
        simp only [hk] at hp
        split
        · rename_i res pid hk2
          exact permitCase res pid hk2
        · rename_i hk2
          simp [hk2, noMatch] at hp
    · rename_i hdo
      simp only [hdo, Bool.false_eq_true, if_false] at hp
      split
      · rename_i res pid hk
        exact permitCase res pid hk
      · rename_i hk
        simp only [hk] at hp
        split
        · rename_i res pid hk2
          simp [hk2, denyOut] at hp
        · rename_i hk2
          simp [hk2, noMatch] at hp

theorem childrenLoop_backed (cx : CondCtx) (i sd algo : String) :
    ∀ (cs seen : List PTree) (s s' : SetSt), SetBacked cx i sd seen s →
      childrenLoop cx i sd algo s cs = .ok s' → SetBacked cx i sd (seen ++ cs) s' := by
  intro cs
  induction cs with
  | nil =>
    intro seen s s' h hl
    simp only [childrenLoop] at hl
    injection hl with hl
    subst hl
    simpa using h
  | cons c cs ih =>
    intro seen s s' h hl
    simp only [childrenLoop] at hl
    cases hc : decideTree cx i sd c with
    | error e => simp [hc] at hl
    | ok res =>
      simp only [hc] at hl
      have hb := stepChild_backed cx i sd algo seen s c res hc h
      split at hl
      · injection hl with hl
        subst hl
        exact ⟨fun r p hr => ⟨(hb.permit r p hr).1,
                  let ⟨c', hc', hd⟩ := (hb.permit r p hr).2
                  ⟨c', by simp at hc' ⊢; rcases hc' with h1 | h1 <;> simp [h1], hd⟩⟩,
               fun r p hr => let ⟨c', hc', hd⟩ := hb.first r p hr
                  ⟨c', by simp at hc' ⊢; rcases hc' with h1 | h1 <;> simp [h1], hd⟩⟩
      · have := ih (seen ++ [c]) _ s' hb hl
        simpa [List.append_assoc] using this

theorem treeRulesL_mem {c : PTree} {cs : List PTree} (hc : c ∈ cs) : ∀ r ∈ treeRules c, r ∈ treeRulesL cs := by
  induction cs with
  | nil => simp at hc
  | cons d ds ih =>
    intro r hr
    simp only [treeRulesL, List.mem_append]
    rcases List.mem_cons.mp hc with h1 | h1
    · subst h1; exact Or.inl hr
    · exact Or.inr (ih h1 r hr)

mutual
theorem decideTree_permit_witness (cx : CondCtx) (i sd : String) :
    ∀ (t : PTree) (raw : Raw), decideTree cx i sd t = .ok raw → raw.decision = "permit" →
      PermitWitness cx (treeRules t) raw
  | .leaf doc, raw, h, hp => by
    simp only [decideTree] at h
    simpa [treeRules] using evaluate_permit_witness cx i doc raw h hp
  | .node doc cs, raw, h, hp => by
    simp only [decideTree] at h
    cases ha : lowerField (doc.get "algorithm") sd with
    | error e => simp [ha] at h
    | ok algo =>
      simp only [ha] at h
      cases hl : childrenLoop cx i sd algo {} cs with
      | error e => simp [hl] at h
      | ok s' =>
        simp only [hl] at h
        injection h with h
        subst h
        have hb : SetBacked cx i sd ([] ++ cs) s' :=
          childrenLoop_backed cx i sd algo cs [] {} s' ⟨fun _ _ hr => by simp at hr, fun _ _ hr => by simp at hr⟩ hl
        obtain ⟨res, hrp, hid, hob, c, hc, hd⟩ := finaliseSet_permit cx i sd algo _ s' hb hp
        have hw := children_permit_witness cx i sd cs c (by simpa using hc) res hd hrp
        obtain ⟨r, hr, e, ho, he⟩ := hw
        exact ⟨r, by simpa [treeRules] using hr, e, by rw [hid, hob]; exact ho, he⟩
theorem children_permit_witness (cx : CondCtx) (i sd : String) :
    ∀ (cs : List PTree), ∀ c ∈ cs, ∀ (raw : Raw), decideTree cx i sd c = .ok raw → raw.decision = "permit" →
      PermitWitness cx (treeRulesL cs) raw
  | [] => by intro c hc; simp at hc
  | d :: ds => by
    intro c hc raw h hp
    rcases List.mem_cons.mp hc with h1 | h1
    · rw [h1] at h
      exact (decideTree_permit_witness cx i sd d raw h hp).mono (fun r hr => by simp [treeRulesL, hr])
    · exact (children_permit_witness cx i sd ds c h1 raw h hp).mono (fun r hr => by simp [treeRulesL, hr])
end

end Rbacx
