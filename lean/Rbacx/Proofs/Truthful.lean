import Rbacx.Proofs.SetSpec
import Rbacx.Proofs.GuardWitness
import Rbacx.Proofs.Compiled
/-
  Rbacx.Proofs.Truthful — the raw decision explains itself truthfully (C11): a non-null rule id is the id of a rule
  that applied, with the reported effect, reason and (for a permit) obligations; a null rule id comes with a deny whose
  reason is `no_match` or a mismatch kind exhibited by some rule.  Proved for the rule loop under the three algorithms,
  lifted through the child-combining loop of (nested) sets, the compiled function and the engine's decision step.
-/
namespace Rbacx
open PyVal

/-- the outcome `o` is produced by one of `rules` for this request -/
def Produced (cx : CondCtx) (rules : List PyVal) (o : Outcome) : Prop := ∃ r ∈ rules, ruleOutcome cx r = .ok o

/-- no rule of the list raises (each falls in one of the six outcome classes) -/
def NoRaise (cx : CondCtx) (rules : List PyVal) : Prop := ∀ r ∈ rules, ∃ o, ruleOutcome cx r = .ok o

/-- `raw` is a truthful explanation relative to the outcomes satisfying `P` -/
structure Truthful (P : Outcome → Prop) (raw : Raw) : Prop where
  sym : raw.ruleId = raw.lastRuleId
  /-- no rule id: a deny whose reason is `no_match` or the mismatch kind of some non-applicable outcome -/
  noRule : raw.lastRuleId.isNone = true →
    raw.decision = "deny" ∧ (raw.reason = "no_match" ∨ ∃ o, P o ∧ o.applied = false ∧ o.reason = raw.reason)
  /-- a rule id: it is the (string) id of an applicable outcome with the reported effect; `matched` + that rule's
      obligations for a permit, `explicit_deny` for a deny -/
  rule : raw.lastRuleId.isNone = false →
    ∃ e s ro, P (.applies e (.str s) ro) ∧ raw.lastRuleId = .str s ∧
      ((raw.decision = "permit" ∧ e = "permit" ∧ raw.reason = "matched" ∧ raw.obligations = ro) ∨
       (raw.decision = "deny" ∧ e = "deny" ∧ raw.reason = "explicit_deny"))

theorem Truthful.mono {P Q : Outcome → Prop} {raw : Raw} (h : Truthful P raw) (hpq : ∀ o, P o → Q o) : Truthful Q raw :=
  ⟨h.sym,
   fun hn => ⟨(h.noRule hn).1, (h.noRule hn).2.imp id (fun ⟨o, ho, h1, h2⟩ => ⟨o, hpq o ho, h1, h2⟩)⟩,
   fun hn => let ⟨e, s, ro, hp, hrest⟩ := h.rule hn; ⟨e, s, ro, hpq _ hp, hrest⟩⟩

theorem Produced.mono {cx : CondCtx} {rules rules' : List PyVal} (hsub : ∀ r ∈ rules, r ∈ rules') :
    ∀ o, Produced cx rules o → Produced cx rules' o :=
  fun _ ⟨r, hr, ho⟩ => ⟨r, hsub r hr, ho⟩

/-! ### constructors -/

theorem truthful_deny {P : Outcome → Prop} {e s ro} (hP : P (.applies e (.str s) ro)) (he : e = "deny") (raw : Raw)
    (hl : raw.lastRuleId = .str s) (hr : raw.ruleId = .str s) (hd : raw.decision = "deny")
    (hre : raw.reason = "explicit_deny") : Truthful P raw :=
  ⟨by rw [hl, hr], fun hn => (by rw [hl] at hn; cases hn), fun _ => ⟨e, s, ro, hP, hl, Or.inr ⟨hd, he, hre⟩⟩⟩

theorem truthful_permit {P : Outcome → Prop} {e s ro} (hP : P (.applies e (.str s) ro)) (he : e = "permit") (raw : Raw)
    (hl : raw.lastRuleId = .str s) (hr : raw.ruleId = .str s) (hd : raw.decision = "permit")
    (hre : raw.reason = "matched") (hob : raw.obligations = ro) : Truthful P raw :=
  ⟨by rw [hl, hr], fun hn => (by rw [hl] at hn; cases hn), fun _ => ⟨e, s, ro, hP, hl, Or.inl ⟨hd, he, hre, hob⟩⟩⟩

theorem truthful_none {P : Outcome → Prop} (raw : Raw) (hl : raw.lastRuleId = .none) (hr : raw.ruleId = .none)
    (hd : raw.decision = "deny")
    (h : raw.reason = "no_match" ∨ ∃ o, P o ∧ o.applied = false ∧ o.reason = raw.reason) : Truthful P raw :=
  ⟨by rw [hl, hr], fun _ => ⟨hd, h⟩, fun hn => by rw [hl] at hn; cases hn⟩

theorem truthful_noMatch (P : Outcome → Prop) : Truthful P (noMatch .none) :=
  truthful_none _ rfl rfl rfl (Or.inl rfl)

/-! ### a truthful result is a well-behaved child result -/

theorem Truthful.rid {P : Outcome → Prop} {raw : Raw} (h : Truthful P raw) : raw.rid = raw.lastRuleId := rid_sym h.sym

theorem Truthful.app_iff {P : Outcome → Prop} {raw : Raw} (h : Truthful P raw) :
    isApplicable raw = !raw.lastRuleId.isNone := by
  cases hn : raw.lastRuleId.isNone with
  | true =>
    rw [isApplicable_sym h.sym]
    cases hl : raw.lastRuleId <;> simp [hl, PyVal.isNone] at hn ⊢
  | false =>
    obtain ⟨e, s, ro, _, hl, hc⟩ := h.rule hn
    have hreason : raw.reason = "matched" ∨ raw.reason = "explicit_deny" := by
      rcases hc with ⟨_, _, h1, _⟩ | ⟨_, _, h1⟩
      · exact Or.inl h1
      · exact Or.inr h1
    simpa using applied_str_app (.str s) s rfl raw hl (by rw [h.sym, hl]) hreason

theorem Truthful.good {P : Outcome → Prop} {raw : Raw} (h : Truthful P raw) : GoodRes' raw := by
  refine ⟨⟨?_, ?_⟩, h.sym⟩
  · cases hn : raw.lastRuleId.isNone with
    | true => exact Or.inr (h.noRule hn).1
    | false =>
      obtain ⟨_, _, _, _, _, hc⟩ := h.rule hn
      rcases hc with ⟨h1, _⟩ | ⟨h1, _⟩
      · exact Or.inl h1
      · exact Or.inr h1
  · intro ha
    rw [h.app_iff] at ha
    rw [h.rid]
    cases hl : raw.lastRuleId <;> simp [hl, PyVal.isNone] at ha ⊢

/-! ### the rule loop -/

theorem lastReason_cases : ∀ (outs : List Outcome) (init : String),
    lastReason init outs = init ∨ ∃ o ∈ outs, o.applied = false ∧ o.reason = lastReason init outs
  | [], _ => Or.inl rfl
  | o :: os, init => by
    simp only [lastReason]
    rcases lastReason_cases os (if o.applied then init else o.reason) with h | ⟨o', ho', ha, hr⟩
    · cases hap : o.applied with
      | false =>
        right
        refine ⟨o, List.mem_cons_self, hap, ?_⟩
        simp only [hap, Bool.false_eq_true, if_false] at h ⊢
        exact h.symm
      | true =>
        left
        simp only [hap, if_true] at h ⊢
        exact h
    · exact Or.inr ⟨o', List.mem_cons_of_mem _ ho', ha, hr⟩

theorem rawNone_truthful (outs : List Outcome) : Truthful (· ∈ outs) (rawNone (lastReason "no_match" outs)) :=
  truthful_none _ rfl rfl rfl
    ((lastReason_cases outs "no_match").imp id (fun ⟨o, ho, h1, h2⟩ => ⟨o, ho, h1, h2⟩))

theorem deny_outcome_truthful (outs : List Outcome) (hok : OutsOk outs) (d : Outcome) (hm : d ∈ outs)
    (hd : d.isDeny = true) : Truthful (· ∈ outs) (rawDeny d) := by
  obtain ⟨⟨s, hs⟩, _⟩ := hok d hm (applied_of_isDeny hd)
  cases d with
  | applies e rid ro =>
    simp only [Outcome.rid] at hs
    subst hs
    have he : e = "deny" := by simpa [Outcome.isDeny] using hd
    exact truthful_deny hm he _ rfl rfl rfl rfl
  | _ => simp [Outcome.isDeny] at hd

theorem permit_outcome_truthful (outs : List Outcome) (hok : OutsOk outs) (p : Outcome) (hm : p ∈ outs)
    (hp : p.isPermit = true) : Truthful (· ∈ outs) (rawPermit p.rid p.obls) := by
  obtain ⟨⟨s, hs⟩, heff⟩ := hok p hm (applied_of_isPermit hp)
  cases p with
  | applies e rid ro =>
    simp only [Outcome.rid] at hs
    subst hs
    have hne : ¬ e = "deny" := by simpa [Outcome.isPermit] using hp
    have he : e = "permit" := by
      rcases heff with h | h
      · exact h
      · exact absurd h hne
    exact truthful_permit hm he _ rfl rfl rfl rfl rfl
  | _ => simp [Outcome.isPermit] at hp

theorem specDO_truthful (outs : List Outcome) (hok : OutsOk outs) : Truthful (· ∈ outs) (specDO outs) := by
  unfold specDO
  cases hfd : outs.find? Outcome.isDeny with
  | some d => exact deny_outcome_truthful outs hok d (find_mem hfd).1 (find_mem hfd).2
  | none =>
    cases hlp : lastWhere Outcome.isPermit outs with
    | some p => exact permit_outcome_truthful outs hok p (lastWhere_mem hlp).1 (lastWhere_mem hlp).2
    | none => exact rawNone_truthful outs

theorem specPO_truthful (outs : List Outcome) (hok : OutsOk outs) : Truthful (· ∈ outs) (specPO outs) := by
  unfold specPO
  cases hfp : outs.find? Outcome.isPermit with
  | some p => exact permit_outcome_truthful outs hok p (find_mem hfp).1 (find_mem hfp).2
  | none =>
    cases hld : lastWhere Outcome.isDeny outs with
    | some d => exact deny_outcome_truthful outs hok d (lastWhere_mem hld).1 (lastWhere_mem hld).2
    | none => exact rawNone_truthful outs

theorem specFA_truthful (outs : List Outcome) (hok : OutsOk outs) : Truthful (· ∈ outs) (specFA outs) := by
  unfold specFA
  cases hfa : outs.find? Outcome.applied with
  | none => exact rawNone_truthful outs
  | some o =>
    obtain ⟨hm, ha⟩ := find_mem hfa
    obtain ⟨⟨s, hs⟩, heff⟩ := hok o hm ha
    cases o with
    | applies e rid ro =>
      simp only [Outcome.rid] at hs
      subst hs
      simp only [Outcome.effect] at heff
      rcases heff with he | he
      · subst he
        exact truthful_permit hm rfl _ rfl rfl rfl rfl rfl
      · subst he
        exact truthful_deny hm rfl _ rfl rfl rfl rfl
    | _ => simp [Outcome.applied] at ha

/-- the rule loop + `finalise`, over outcome lists, under one of the three algorithms -/
theorem loopOuts_truthful (algo : String) (halgo : Spec.knownAlgo algo = true) (outs : List Outcome) (hok : OutsOk outs)
    (hr : RidsNonNull outs) : Truthful (· ∈ outs) (finalise algo (loopOuts algo {} outs)) := by
  simp only [Spec.knownAlgo, Bool.or_eq_true, beq_iff_eq] at halgo
  rcases halgo with (rfl | rfl) | rfl
  · rw [evaluate_do_full]; exact specDO_truthful outs hok
  · rw [evaluate_po_full]; exact specPO_truthful outs hok
  · rw [evaluate_fa_full outs hr]; exact specFA_truthful outs hok

theorem outcomes_total (cx : CondCtx) : ∀ rules : List PyVal, NoRaise cx rules → ∃ outs, outcomes cx rules = .ok outs
  | [], _ => ⟨[], rfl⟩
  | r :: rs, h => by
    obtain ⟨o, ho⟩ := h r List.mem_cons_self
    obtain ⟨os, hos⟩ := outcomes_total cx rs (fun r' hr' => h r' (List.mem_cons_of_mem _ hr'))
    exact ⟨o :: os, by simp [outcomes, ho, hos]⟩

theorem outsOk_of_rulesOk {cx : CondCtx} {rules : List PyVal} {outs : List Outcome} (ho : outcomes cx rules = .ok outs)
    (hok : RulesOk cx rules) : OutsOk outs := by
  intro o hom hap
  obtain ⟨rule, hr, hro⟩ := (outcomes_mem cx _ outs ho o).mp hom
  exact hok rule hr o hro hap

/-- the rule loop over a rule list: it terminates normally and its finalised state is truthful -/
theorem rulesLoop_truthful (cx : CondCtx) (algo : String) (halgo : Spec.knownAlgo algo = true) (rules : List PyVal)
    (hok : RulesOk cx rules) (hnr : NoRaise cx rules) :
    ∃ s, rulesLoop cx algo {} rules = .ok s ∧ Truthful (Produced cx rules) (finalise algo s) := by
  obtain ⟨outs, ho⟩ := outcomes_total cx rules hnr
  refine ⟨_, rulesLoop_eq_loopOuts cx algo rules {} outs ho, ?_⟩
  exact (loopOuts_truthful algo halgo outs (outsOk_of_rulesOk ho hok) (outcomes_rids cx _ _ ho)).mono
    (fun o hm => (outcomes_mem cx rules outs ho o).mp hm)

/-! ### algorithms named by the document -/

/-- the level's algorithm, after defaulting and lower-casing, is one of the three the code knows -/
def algoKnown (dflt : String) (doc : PyVal) : Bool :=
  match lowerField (doc.get "algorithm") dflt with
  | .ok a => Spec.knownAlgo a
  | .error _ => false

mutual
/-- every level of the tree names (or defaults to) a known algorithm -/
def algosKnown (i sd : String) : PTree → Bool
  | .leaf doc => algoKnown i doc
  | .node doc cs => algoKnown sd doc && algosKnownL i sd cs
def algosKnownL (i sd : String) : List PTree → Bool
  | [] => true
  | c :: cs => algosKnown i sd c && algosKnownL i sd cs
end

theorem algoKnown_ok {dflt : String} {doc : PyVal} (h : algoKnown dflt doc = true) :
    ∃ a, lowerField (doc.get "algorithm") dflt = .ok a ∧ Spec.knownAlgo a = true := by
  unfold algoKnown at h
  split at h
  · exact ⟨_, by assumption, h⟩
  · cases h

theorem evaluate_truthful (cx : CondCtx) (dflt : String) (doc : PyVal) (ha : algoKnown dflt doc = true)
    (hok : RulesOk cx (rulesOf doc)) (hnr : NoRaise cx (rulesOf doc)) :
    ∃ raw, evaluate cx dflt doc = .ok raw ∧ Truthful (Produced cx (rulesOf doc)) raw := by
  obtain ⟨a, hl, hk⟩ := algoKnown_ok ha
  obtain ⟨s, hs, ht⟩ := rulesLoop_truthful cx a hk (rulesOf doc) hok hnr
  refine ⟨finalise a s, ?_, ht⟩
  simp only [evaluate, hl, hs, bind, Except.bind, pure, Except.pure]

/-! ### one level of a set -/

theorem Truthful.denyOut {P : Outcome → Prop} {res : Raw} (pid : PyVal) (h : Truthful P res)
    (ha : isApplicable res = true) (hd : res.decision = "deny") : Truthful P (denyOut res pid) := by
  have hn : res.lastRuleId.isNone = false := by rw [h.app_iff] at ha; simpa using ha
  obtain ⟨e, s, ro, hp, hl, hc⟩ := h.rule hn
  rcases hc with ⟨h1, _⟩ | ⟨_, he, _⟩
  · rw [hd] at h1; exact absurd h1 (by decide)
  · exact truthful_deny hp he _ (by simp [Rbacx.denyOut, h.rid, hl]) (by simp [Rbacx.denyOut, h.rid, hl]) rfl rfl

theorem Truthful.permitOut {P : Outcome → Prop} {res : Raw} (pid : PyVal) (h : Truthful P res)
    (ha : isApplicable res = true) (hd : res.decision = "permit") : Truthful P (permitOut res pid) := by
  have hn : res.lastRuleId.isNone = false := by rw [h.app_iff] at ha; simpa using ha
  obtain ⟨e, s, ro, hp, hl, hc⟩ := h.rule hn
  rcases hc with ⟨_, he, hre, hob⟩ | ⟨h1, _⟩
  · exact truthful_permit hp he _ (by simp [Rbacx.permitOut, hl]) (by simp [Rbacx.permitOut, h.sym, hl]) hd
      (by simp [Rbacx.permitOut, hre]) (by simp [Rbacx.permitOut, hob])
  · rw [hd] at h1; exact absurd h1 (by decide)

theorem Truthful.withPid {P : Outcome → Prop} {res : Raw} (pid : PyVal) (h : Truthful P res) :
    Truthful P { res with policyId := pid } := ⟨h.sym, h.noRule, h.rule⟩

theorem appKids_empty_of {rs : List (PyVal × Raw)} (hg : ∀ x ∈ rs, GoodRes x.2)
    (h1 : (appKids rs).find? isD = Option.none) (h3 : (appKids rs).find? isP = Option.none) : appKids rs = [] := by
  cases hk : appKids rs with
  | nil => rfl
  | cons x xs =>
    have hx : x ∈ appKids rs := by rw [hk]; exact List.mem_cons_self
    have hxm := (List.mem_filter.mp hx).1
    rcases (hg x hxm).dec with hdd | hdd
    · have := List.find?_eq_none.mp h3 x hx; simp [isP, hdd] at this
    · have := List.find?_eq_none.mp h1 x hx; simp [isD, hdd] at this

theorem appKids_find {q : PyVal × Raw → Bool} {rs : List (PyVal × Raw)} {v : PyVal × Raw}
    (h : (appKids rs).find? q = some v) : v ∈ rs ∧ isApplicable v.2 = true ∧ q v = true := by
  have hm := List.mem_of_find?_eq_some h
  exact ⟨(List.mem_filter.mp hm).1, by simpa using (List.mem_filter.mp hm).2, List.find?_some h⟩

/-- what the child-combining loop returns, under one of the three algorithms: `no_match`, or the result of one applicable
    child re-labelled as a deny / permit / as is, with that child's id as policy id -/
theorem node_shape (algo : String) (halgo : Spec.knownAlgo algo = true) (rs : List (PyVal × Raw))
    (hg : ∀ x ∈ rs, GoodRes x.2) :
    finaliseSet algo (loopKids algo {} rs) = noMatch .none ∨
    ∃ x ∈ rs, isApplicable x.2 = true ∧
      ((x.2.decision = "deny" ∧ finaliseSet algo (loopKids algo {} rs) = denyOut x.2 x.1) ∨
       (x.2.decision = "permit" ∧ finaliseSet algo (loopKids algo {} rs) = permitOut x.2 x.1) ∨
       finaliseSet algo (loopKids algo {} rs) = { x.2 with policyId := x.1 }) := by
  simp only [Spec.knownAlgo, Bool.or_eq_true, beq_iff_eq] at halgo
  rcases halgo with (rfl | rfl) | rfl
  · rw [loopKids_do rs hg {} rfl rfl rfl]
    cases h1 : (appKids rs).find? isD with
    | some v =>
      obtain ⟨hm, ha, hq⟩ := appKids_find h1
      exact Or.inr ⟨v, hm, ha, Or.inl ⟨by simpa [isD] using hq, rfl⟩⟩
    | none =>
      simp only
      cases h3 : (appKids rs).find? isP with
      | some v =>
        obtain ⟨hm, ha, hq⟩ := appKids_find h3
        exact Or.inr ⟨v, hm, ha, Or.inr (Or.inl ⟨by simpa [isP] using hq, rfl⟩)⟩
      | none =>
        left
        rw [loopKids_no_app _ rs hg (appKids_empty_of hg h1 h3)]
  · rw [loopKids_po rs hg {} rfl rfl rfl]
    cases h1 : (appKids rs).find? isP with
    | some v =>
      obtain ⟨hm, ha, hq⟩ := appKids_find h1
      exact Or.inr ⟨v, hm, ha, Or.inr (Or.inl ⟨by simpa [isP] using hq, rfl⟩)⟩
    | none =>
      simp only
      cases h3 : (appKids rs).find? isD with
      | some v =>
        obtain ⟨hm, ha, hq⟩ := appKids_find h3
        exact Or.inr ⟨v, hm, ha, Or.inl ⟨by simpa [isD] using hq, rfl⟩⟩
      | none =>
        left
        rw [loopKids_no_app _ rs hg (appKids_empty_of hg h3 h1)]
  · rw [loopKids_fa rs hg {} rfl]
    cases h1 : (appKids rs).head? with
    | some v =>
      have hm : v ∈ appKids rs := List.mem_of_head? h1
      exact Or.inr ⟨v, (List.mem_filter.mp hm).1, by simpa using (List.mem_filter.mp hm).2, Or.inr (Or.inr rfl)⟩
    | none =>
      left
      have hnone : appKids rs = [] := by cases hk : appKids rs <;> simp_all
      rw [loopKids_no_app _ rs hg hnone]

/-- a set level: the result is `no_match`, or truthful relative to the rules of one child whose id is the reported
    policy id -/
theorem node_truthful (cx : CondCtx) (algo : String) (halgo : Spec.knownAlgo algo = true) (cs : List PTree)
    (rs : List (PyVal × Raw))
    (hrs : ∀ x ∈ rs, ∃ c ∈ cs, x.1 = c.doc.get "id" ∧ Truthful (Produced cx (treeRules c)) x.2) :
    finaliseSet algo (loopKids algo {} rs) = noMatch .none ∨
    ∃ c ∈ cs, (finaliseSet algo (loopKids algo {} rs)).policyId = c.doc.get "id" ∧
      Truthful (Produced cx (treeRules c)) (finaliseSet algo (loopKids algo {} rs)) := by
  have hg : ∀ x ∈ rs, GoodRes x.2 := fun x hx => let ⟨_, _, _, ht⟩ := hrs x hx; ht.good.toGoodRes
  rcases node_shape algo halgo rs hg with h | ⟨x, hx, ha, hc⟩
  · exact Or.inl h
  · right
    obtain ⟨c, hc', hid, ht⟩ := hrs x hx
    refine ⟨c, hc', ?_⟩
    rcases hc with ⟨hd, he⟩ | ⟨hd, he⟩ | he
    · rw [he]; exact ⟨by simp [denyOut, hid], ht.denyOut _ ha hd⟩
    · rw [he]; exact ⟨by simp [permitOut, hid], ht.permitOut _ ha hd⟩
    · rw [he]; exact ⟨hid, ht.withPid _⟩

/-! ### the whole tree -/

theorem kidsRes_of (cx : CondCtx) (i sd : String) (P : PTree → Raw → Prop) :
    ∀ cs : List PTree, (∀ c ∈ cs, ∃ raw, decideTree cx i sd c = .ok raw ∧ P c raw) →
      ∃ rs, kidsRes cx i sd cs = .ok rs ∧ ∀ x ∈ rs, ∃ c ∈ cs, x.1 = c.doc.get "id" ∧ P c x.2
  | [], _ => ⟨[], rfl, fun x hx => by simp at hx⟩
  | c :: cs, h => by
    obtain ⟨raw, hd, hp⟩ := h c List.mem_cons_self
    obtain ⟨rs, hrs, hall⟩ := kidsRes_of cx i sd P cs (fun c' hc' => h c' (List.mem_cons_of_mem _ hc'))
    refine ⟨(c.doc.get "id", raw) :: rs, by simp [kidsRes, hd, hrs], ?_⟩
    intro x hx
    rcases List.mem_cons.mp hx with h1 | h1
    · subst h1; exact ⟨c, List.mem_cons_self, rfl, hp⟩
    · obtain ⟨c', hc', h2, h3⟩ := hall x h1
      exact ⟨c', List.mem_cons_of_mem _ hc', h2, h3⟩

/-- the top level of a set, given that every child decides truthfully -/
theorem node_top (cx : CondCtx) (i sd : String) (doc : PyVal) (cs : List PTree) (ha : algoKnown sd doc = true)
    (hkids : ∀ c ∈ cs, ∃ raw, decideTree cx i sd c = .ok raw ∧ Truthful (Produced cx (treeRules c)) raw) :
    ∃ raw, decideTree cx i sd (.node doc cs) = .ok raw ∧
      (raw = noMatch .none ∨
       ∃ c ∈ cs, raw.policyId = c.doc.get "id" ∧ Truthful (Produced cx (treeRules c)) raw) := by
  obtain ⟨a, hl, hk⟩ := algoKnown_ok ha
  obtain ⟨rs, hrs, hall⟩ := kidsRes_of cx i sd (fun c raw => Truthful (Produced cx (treeRules c)) raw) cs hkids
  refine ⟨finaliseSet a (loopKids a {} rs), ?_, node_truthful cx a hk cs rs hall⟩
  simp only [decideTree, hl, childrenLoop_eq_loopKids cx i sd a cs {} rs hrs]

mutual
/-- **every (nested) policy set whose levels name known algorithms, whose applicable rules have string ids and
    permit/deny effects and none of whose rules raises decides normally, and truthfully relative to its rules** -/
theorem tree_truthful (cx : CondCtx) (i sd : String) :
    ∀ t : PTree, algosKnown i sd t = true → RulesOk cx (treeRules t) → NoRaise cx (treeRules t) →
      ∃ raw, decideTree cx i sd t = .ok raw ∧ Truthful (Produced cx (treeRules t)) raw
  | .leaf doc, ha, hok, hnr => by
    simp only [algosKnown] at ha
    simp only [treeRules] at hok hnr ⊢
    simpa only [decideTree] using evaluate_truthful cx i doc ha hok hnr
  | .node doc cs, ha, hok, hnr => by
    simp only [algosKnown, Bool.and_eq_true] at ha
    simp only [treeRules] at hok hnr ⊢
    obtain ⟨raw, hd, hc⟩ := node_top cx i sd doc cs ha.1 (kids_truthful cx i sd cs ha.2 hok hnr)
    refine ⟨raw, hd, ?_⟩
    rcases hc with h | ⟨c, hc, _, ht⟩
    · rw [h]; exact truthful_noMatch _
    · exact ht.mono (Produced.mono (treeRulesL_mem hc))
theorem kids_truthful (cx : CondCtx) (i sd : String) :
    ∀ cs : List PTree, algosKnownL i sd cs = true → RulesOk cx (treeRulesL cs) → NoRaise cx (treeRulesL cs) →
      ∀ c ∈ cs, ∃ raw, decideTree cx i sd c = .ok raw ∧ Truthful (Produced cx (treeRules c)) raw
  | [], _, _, _ => fun c hc => by simp at hc
  | d :: ds, ha, hok, hnr => by
    simp only [algosKnownL, Bool.and_eq_true] at ha
    intro c hc
    rcases List.mem_cons.mp hc with h1 | h1
    · rw [h1]
      exact tree_truthful cx i sd d ha.1 (fun r hr => hok r (by simp [treeRulesL, hr]))
        (fun r hr => hnr r (by simp [treeRulesL, hr]))
    · exact kids_truthful cx i sd ds ha.2 (fun r hr => hok r (by simp [treeRulesL, hr]))
        (fun r hr => hnr r (by simp [treeRulesL, hr])) c h1
end

end Rbacx
