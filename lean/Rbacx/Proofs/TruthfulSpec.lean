import Rbacx.Proofs.Truthful
import Rbacx.Spec.Engine
/-
  Rbacx.Proofs.TruthfulSpec — the explicit statement of C11 implies the executable one (`Spec.c11`, which the driver
  evaluates on the implementation's Decision), and the engine's decision step produces truthful raw decisions.
-/
namespace Rbacx
open PyVal

/-! ### structural equality is reflexive (bit-exact on floats) -/

mutual
theorem PyVal.beq_refl : ∀ v : PyVal, PyVal.beq v v = true
  | .none => by simp [PyVal.beq]
  | .bool _ => by simp [PyVal.beq]
  | .int _ => by simp [PyVal.beq]
  | .float _ => by simp [PyVal.beq]
  | .str _ => by simp [PyVal.beq]
  | .list xs => by simp [PyVal.beq, PyVal.beqL_refl xs]
  | .dict kvs => by simp [PyVal.beq, PyVal.beqD_refl kvs]
  | .dt _ _ => by simp [PyVal.beq]
theorem PyVal.beqL_refl : ∀ xs : List PyVal, PyVal.beqL xs xs = true
  | [] => by simp [PyVal.beqL]
  | x :: xs => by simp [PyVal.beqL, PyVal.beq_refl x, PyVal.beqL_refl xs]
theorem PyVal.beqD_refl : ∀ kvs : List (String × PyVal), PyVal.beqD kvs kvs = true
  | [] => by simp [PyVal.beqD]
  | (k, v) :: kvs => by simp [PyVal.beqD, PyVal.beq_refl v, PyVal.beqD_refl kvs]
end

theorem PyVal.beq_self (v : PyVal) : (v == v) = true := PyVal.beq_refl v

/-! ### the explicit statement implies `Spec.c11` -/

theorem c11_intro (o : Oracle) (cfg : GuardCfg) (policy : PyVal) (req : Request) (allowed : Bool) (effect : String)
    (ruleId policyId : PyVal) (reason : String) (obls : List PyVal)
    (hnr : ∀ x ∈ Spec.rulesByChild policy, ∃ out, ruleOutcome (condCtx o cfg req) x.2 = .ok out)
    (hnone : ruleId.isNone = true → allowed = false ∧ effect = "deny" ∧
      (reason = "no_match" ∨ ∃ x ∈ Spec.rulesByChild policy, ∃ out, ruleOutcome (condCtx o cfg req) x.2 = .ok out ∧
        out.applied = false ∧ out.reason = reason))
    (hsome : ruleId.isNone = false → ∃ x ∈ Spec.rulesByChild policy, ∃ e rid ro,
      ruleOutcome (condCtx o cfg req) x.2 = .ok (.applies e rid ro) ∧ PyVal.pyEq rid ruleId = true ∧
      (policyId.isNone = true ∨ PyVal.pyEq x.1 policyId = true) ∧
      ((reason = "matched" ∧ e ≠ "deny" ∧ allowed = true ∧ effect = "permit" ∧ ro = obls) ∨
       (reason = "explicit_deny" ∧ e = "deny" ∧ allowed = false ∧ effect = "deny") ∨
       (reason = "obligation_failed" ∧ e ≠ "deny" ∧ allowed = false ∧ effect = "deny" ∧ ro = obls))) :
    Spec.c11 o cfg policy req allowed effect ruleId policyId reason obls = some true := by
  unfold Spec.c11
  simp only []
  rw [if_neg]
  · cases hn : ruleId.isNone with
    | true =>
      obtain ⟨ha, he, hr⟩ := hnone hn
      simp only [if_true, Option.some.injEq, Bool.and_eq_true, Bool.or_eq_true, Bool.not_eq_true', beq_iff_eq,
        List.contains_iff_mem, List.mem_filterMap, List.mem_map]
      refine ⟨⟨ha, he⟩, ?_⟩
      rcases hr with hr | ⟨x, hx, out, hout, hap, hre⟩
      · exact Or.inl hr
      · refine Or.inr ⟨_, ⟨x, hx, rfl⟩, ?_⟩
        simp only [hout]
        cases out <;> simp_all [Outcome.applied, Outcome.reason]
    | false =>
      obtain ⟨x, hx, e, rid, ro, hout, hrid, hpid, hc⟩ := hsome hn
      simp only [Bool.false_eq_true, if_false, Option.some.injEq, List.any_eq_true, List.mem_filterMap, List.mem_map]
      refine ⟨(x.1, e, rid, ro), ⟨_, ⟨x, hx, rfl⟩, by simp only [hout]⟩, ?_⟩
      simp only [hrid, Bool.true_and, Bool.and_eq_true, Bool.or_eq_true]
      refine ⟨?_, hpid⟩
      rcases hc with ⟨rfl, he, rfl, rfl, rfl⟩ | ⟨rfl, rfl, rfl, rfl⟩ | ⟨rfl, he, rfl, rfl, rfl⟩
      · simp [he, PyVal.beq_self]
      · simp
      · simp [he, PyVal.beq_self]
  · intro h
    obtain ⟨x, hx, hm⟩ := List.any_eq_true.mp h
    obtain ⟨y, hy, rfl⟩ := List.mem_map.mp hx
    obtain ⟨out, hout⟩ := hnr y hy
    simp [hout] at hm

/-! ### the tagged rule list of `Spec.c11` -/

mutual
theorem rulesWithChild_eq (top : PyVal) : ∀ t : PTree, Spec.rulesWithChild top t = (treeRules t).map fun r => (top, r)
  | .leaf doc => by simp [Spec.rulesWithChild, treeRules]
  | .node _ cs => by simp [Spec.rulesWithChild, treeRules, rulesWithChildL_eq top cs]
theorem rulesWithChildL_eq (top : PyVal) :
    ∀ cs : List PTree, Spec.rulesWithChildL top cs = (treeRulesL cs).map fun r => (top, r)
  | [] => by simp [Spec.rulesWithChildL, treeRulesL]
  | c :: cs => by simp [Spec.rulesWithChildL, treeRulesL, rulesWithChild_eq top c, rulesWithChildL_eq top cs]
end

theorem treeOf_leaf (policy : PyVal) (h : policy.hasKey "policies" = false) : treeOf policy = .leaf policy := by
  simp [treeOf, toTree, h]

theorem treeOf_node (policy : PyVal) (h : policy.hasKey "policies" = true) : ∃ cs, treeOf policy = .node policy cs := by
  simp only [treeOf, toTree, h, if_true]
  split <;> exact ⟨_, rfl⟩

/-- the top-level children of a policy set (none for a single policy) -/
def PTree.kids : PTree → List PTree
  | .leaf _ => []
  | .node _ cs => cs

theorem rulesByChild_leaf (policy : PyVal) (h : policy.hasKey "policies" = false) :
    Spec.rulesByChild policy = (rulesOf policy).map fun r => (PyVal.none, r) := by
  simp [Spec.rulesByChild, treeOf_leaf policy h]

theorem mem_rulesByChild_node {policy doc : PyVal} {cs : List PTree} (ht : treeOf policy = .node doc cs) {c : PTree}
    (hc : c ∈ cs) {r : PyVal} (hr : r ∈ treeRules c) : (c.doc.get "id", r) ∈ Spec.rulesByChild policy := by
  simp only [Spec.rulesByChild, ht, List.mem_flatMap]
  exact ⟨c, hc, by rw [rulesWithChild_eq]; exact List.mem_map.mpr ⟨r, hr, rfl⟩⟩

/-- the rules `Spec.c11` looks at are rules of the document -/
theorem rulesByChild_sub (policy : PyVal) : ∀ x ∈ Spec.rulesByChild policy, x.2 ∈ allRules policy := by
  intro x hx
  unfold Spec.rulesByChild at hx
  unfold allRules
  cases ht : treeOf policy with
  | leaf doc =>
    simp only [ht, List.mem_map] at hx
    obtain ⟨r, hr, rfl⟩ := hx
    simpa [treeRules] using hr
  | node doc cs =>
    simp only [ht, List.mem_flatMap] at hx
    obtain ⟨c, hc, hx⟩ := hx
    rw [rulesWithChild_eq] at hx
    obtain ⟨r, hr, rfl⟩ := List.mem_map.mp hx
    simpa [treeRules] using treeRulesL_mem hc r hr

/-! ### the engine's decision step -/

/-- outcomes produced by rules of the document that sit in the top-level child whose id is `pid` (any rule of the
    document when `pid` is null) -/
def ProducedIn (cx : CondCtx) (policy pid : PyVal) (o : Outcome) : Prop :=
  ∃ x ∈ Spec.rulesByChild policy, (pid.isNone = true ∨ x.1 = pid) ∧ ruleOutcome cx x.2 = .ok o

/-- every level of the document names (or defaults to) one of the three algorithms: a single policy goes through the
    compiled path (default `compilerDefault`), a set through `decide` (defaults `setDefault` / `interpDefault`) -/
def docAlgosKnown (c : Consts) (policy : PyVal) : Bool :=
  if policy.hasKey "policies" then algosKnown c.interpDefault c.setDefault (treeOf policy)
  else algoKnown c.compilerDefault policy

/-- the ids of the top-level children are comparable with themselves (anything but a value containing a NaN; the
    bundled schema gives child policies no id at all, i.e. `None`) -/
def ChildIdsOk (policy : PyVal) : Prop :=
  ((treeOf policy).kids.all fun c => PyVal.pyEq (c.doc.get "id") (c.doc.get "id")) = true

theorem RulesOk.sub {cx : CondCtx} {rules rules' : List PyVal} (h : RulesOk cx rules') (hsub : ∀ r ∈ rules, r ∈ rules') :
    RulesOk cx rules := fun r hr => h r (hsub r hr)

theorem NoRaise.sub {cx : CondCtx} {rules rules' : List PyVal} (h : NoRaise cx rules') (hsub : ∀ r ∈ rules, r ∈ rules') :
    NoRaise cx rules := fun r hr => h r (hsub r hr)

theorem compiledSelected_sub (cx : CondCtx) (rules : List PyVal) : ∀ r ∈ compiledSelected cx rules, r ∈ rules := by
  intro r hr
  unfold compiledSelected at hr
  exact (List.mem_filter.mp (selectBucket_subset _ _ _ _ _ r hr)).1

/-- **`_decide_async` (compiled function with interpreter fall-back) returns normally and truthfully** on every document
    within the schema's guarantees none of whose rules raises -/
theorem guardDecide_truthful (cx : CondCtx) (c : Consts) (policy : PyVal) (halg : docAlgosKnown c policy = true)
    (hok : RulesOk cx (allRules policy)) (hnr : NoRaise cx (allRules policy)) :
    ∃ raw, guardDecide cx c policy = .ok raw ∧ Truthful (ProducedIn cx policy raw.policyId) raw := by
  cases hk : policy.hasKey "policies" with
  | true =>
    obtain ⟨cs, ht⟩ := treeOf_node policy hk
    simp only [docAlgosKnown, hk, if_true, ht, algosKnown, Bool.and_eq_true] at halg
    have hall : allRules policy = treeRulesL cs := by simp [allRules, ht, treeRules]
    rw [hall] at hok hnr
    obtain ⟨raw, hd, hc⟩ := node_top cx c.interpDefault c.setDefault policy cs halg.1
      (kids_truthful cx c.interpDefault c.setDefault cs halg.2 hok hnr)
    refine ⟨raw, by simp only [guardDecide, compiledDecide, hk, if_true, ht, hd], ?_⟩
    rcases hc with h | ⟨ch, hch, hpid, htr⟩
    · rw [h]; exact truthful_noMatch _
    · refine htr.mono ?_
      rintro o ⟨r, hr, ho⟩
      exact ⟨(ch.doc.get "id", r), mem_rulesByChild_node ht hch hr, Or.inr hpid.symm, ho⟩
  | false =>
    simp only [docAlgosKnown, hk, Bool.false_eq_true, if_false] at halg
    obtain ⟨a, hl, hka⟩ := algoKnown_ok halg
    rw [allRules_single policy hk] at hok hnr
    have hsub := compiledSelected_sub cx (rulesOf policy)
    obtain ⟨s, hs, htr⟩ := rulesLoop_truthful cx a hka _ (hok.sub hsub) (hnr.sub hsub)
    refine ⟨finalise a s, by simp only [guardDecide, compiledDecide_single cx c policy hk, hl, hs], ?_⟩
    refine htr.mono ?_
    rintro o ⟨r, hr, ho⟩
    refine ⟨(PyVal.none, r), ?_, Or.inl rfl, ho⟩
    rw [rulesByChild_leaf policy hk]
    exact List.mem_map.mpr ⟨r, hsub r hr, rfl⟩

/-! ### from the raw decision to the Decision -/

theorem finish_fields (o : Oracle) (cfg : GuardCfg) (req : Request) (env : PyVal) (raw : Raw) :
    (finishDecision o cfg req env raw).1.ruleId = raw.rid ∧
    (finishDecision o cfg req env raw).1.policyId = raw.policyId ∧
    (finishDecision o cfg req env raw).1.obligations = raw.obligations ∧
    ((raw.decision = "permit" ∧
        (((finishDecision o cfg req env raw).1.allowed = true ∧ (finishDecision o cfg req env raw).1.effect = "permit" ∧
            (finishDecision o cfg req env raw).1.reason = raw.reason) ∨
         ((finishDecision o cfg req env raw).1.allowed = false ∧ (finishDecision o cfg req env raw).1.effect = "deny" ∧
            (finishDecision o cfg req env raw).1.reason = "obligation_failed"))) ∨
     (raw.decision ≠ "permit" ∧ (finishDecision o cfg req env raw).1.allowed = false ∧
        (finishDecision o cfg req env raw).1.effect = "deny" ∧ (finishDecision o cfg req env raw).1.reason = raw.reason)) := by
  refine ⟨rfl, rfl, rfl, ?_⟩
  simp only [finishDecision]
  by_cases hp : (raw.decision == "permit") = true
  · have hp' : raw.decision = "permit" := by simpa using hp
    refine Or.inl ⟨hp', ?_⟩
    cases hc : cfg.checker with
    | builtin =>
      simp only [hp, Bool.not_true, Bool.false_eq_true, if_false]
      cases (checkObligations o raw.decision raw.obligations (dictOr (req.context.getD .none))).1 <;> simp
    | custom a =>
      cases a with
      | none => simp [hp]
      | some v => simp only [hp, Bool.not_true, Bool.false_eq_true, if_false]; cases v.1.truthy <;> simp
  · have hp' : raw.decision ≠ "permit" := by simpa using hp
    exact Or.inr ⟨hp', by simp [hp]⟩

/-- what the schema guarantees of a policy document, plus "no rule raises" (outside of which `Spec.c11` is undefined) -/
structure WithinSchema (o : Oracle) (cfg : GuardCfg) (policy : PyVal) (req : Request) : Prop where
  /-- every level's algorithm, after defaulting, is one of the three known ones -/
  algos : docAlgosKnown cfg.consts policy = true
  /-- applicable rules have a string id and effect permit or deny -/
  rules : RulesOk (condCtx o cfg req) (allRules policy)
  noRaise : NoRaise (condCtx o cfg req) (allRules policy)

/-- the explanation carried by a Decision whose raw decision is truthful -/
structure Explained (o : Oracle) (cfg : GuardCfg) (policy : PyVal) (req : Request) (d : Decision) : Prop where
  noRule : d.ruleId.isNone = true → d.allowed = false ∧ d.effect = "deny" ∧
    (d.reason = "no_match" ∨ ∃ x ∈ Spec.rulesByChild policy, ∃ out, ruleOutcome (condCtx o cfg req) x.2 = .ok out ∧
      out.applied = false ∧ out.reason = d.reason)
  rule : d.ruleId.isNone = false → ∃ x ∈ Spec.rulesByChild policy, ∃ e s ro,
    ruleOutcome (condCtx o cfg req) x.2 = .ok (.applies e (.str s) ro) ∧ d.ruleId = .str s ∧
    (d.policyId.isNone = true ∨ x.1 = d.policyId) ∧
    ((d.reason = "matched" ∧ e = "permit" ∧ d.allowed = true ∧ d.effect = "permit" ∧ d.obligations = ro) ∨
     (d.reason = "explicit_deny" ∧ e = "deny" ∧ d.allowed = false ∧ d.effect = "deny") ∨
     (d.reason = "obligation_failed" ∧ e = "permit" ∧ d.allowed = false ∧ d.effect = "deny" ∧ d.obligations = ro))

theorem finish_explained (o : Oracle) (cfg : GuardCfg) (policy : PyVal) (req : Request) (env : PyVal) (raw : Raw)
    (ht : Truthful (ProducedIn (condCtx o cfg req) policy raw.policyId) raw) :
    Explained o cfg policy req (finishDecision o cfg req env raw).1 := by
  obtain ⟨h1, h2, h3, h4⟩ := finish_fields o cfg req env raw
  generalize (finishDecision o cfg req env raw).1 = d at h1 h2 h3 h4
  rw [ht.rid] at h1
  constructor
  · intro hn
    rw [h1] at hn
    obtain ⟨hd, hr⟩ := ht.noRule hn
    rcases h4 with ⟨hp, _⟩ | ⟨_, ha, he, hre⟩
    · rw [hd] at hp; exact absurd hp (by decide)
    · refine ⟨ha, he, ?_⟩
      rw [hre]
      exact hr.imp id (fun ⟨out, ⟨x, hx, _, ho⟩, hap, hor⟩ => ⟨x, hx, out, ho, hap, hor⟩)
  · intro hn
    rw [h1] at hn
    obtain ⟨e, s, ro, ⟨x, hx, hpid, ho⟩, hl, hc⟩ := ht.rule hn
    refine ⟨x, hx, e, s, ro, ho, by rw [h1, hl], by rw [h2]; exact hpid, ?_⟩
    rcases hc with ⟨hd, he, hre, hob⟩ | ⟨hd, he, hre⟩
    · rcases h4 with ⟨_, hcase⟩ | ⟨hnp, _⟩
      · rcases hcase with ⟨ha, hef, hr⟩ | ⟨ha, hef, hr⟩
        · exact Or.inl ⟨by rw [hr, hre], he, ha, hef, by rw [h3, hob]⟩
        · exact Or.inr (Or.inr ⟨hr, he, ha, hef, by rw [h3, hob]⟩)
      · exact absurd hd hnp
    · rcases h4 with ⟨hp, _⟩ | ⟨_, ha, hef, hr⟩
      · rw [hd] at hp; exact absurd hp (by decide)
      · exact Or.inr (Or.inl ⟨by rw [hr, hre], he, ha, hef⟩)

theorem guardEval_raw {o : Oracle} {cfg : GuardCfg} {policy : PyVal} {req : Request} {d : Decision} {evs : List Event}
    (h : guardEval o cfg policy req = .ok (d, evs)) :
    ∃ raw, guardDecide (condCtx o cfg req) cfg.consts policy = .ok raw ∧
      finishDecision o cfg req (condCtx o cfg req).env raw = (d, evs) := by
  simp only [guardEval] at h
  cases hg : guardDecide (condCtx o cfg req) cfg.consts policy with
  | error e => simp [hg] at h
  | ok raw => simp only [hg] at h; injection h with h; exact ⟨raw, rfl, h⟩

/-- the engine, on a document within the schema's guarantees: returns normally, with an explained Decision -/
theorem guardEval_explained (o : Oracle) (cfg : GuardCfg) (policy : PyVal) (req : Request)
    (hs : WithinSchema o cfg policy req) :
    ∃ d evs, guardEval o cfg policy req = .ok (d, evs) ∧ Explained o cfg policy req d := by
  obtain ⟨raw, hg, ht⟩ := guardDecide_truthful (condCtx o cfg req) cfg.consts policy hs.algos hs.rules hs.noRaise
  refine ⟨(finishDecision o cfg req (condCtx o cfg req).env raw).1, (finishDecision o cfg req (condCtx o cfg req).env raw).2,
    ?_, finish_explained o cfg policy req _ raw ht⟩
  simp only [guardEval, hg]

theorem guardEval_explained_of (o : Oracle) (cfg : GuardCfg) (policy : PyVal) (req : Request) (d : Decision) (evs : List Event)
    (hs : WithinSchema o cfg policy req) (h : guardEval o cfg policy req = .ok (d, evs)) :
    Explained o cfg policy req d := by
  obtain ⟨d', evs', h', he⟩ := guardEval_explained o cfg policy req hs
  rw [h] at h'
  injection h' with h'
  injection h' with h1 _
  rw [h1]
  exact he

theorem rulesByChild_fst (policy : PyVal) :
    ∀ x ∈ Spec.rulesByChild policy, x.1 = PyVal.none ∨ ∃ c ∈ (treeOf policy).kids, x.1 = c.doc.get "id" := by
  intro x hx
  unfold Spec.rulesByChild at hx
  cases ht : treeOf policy with
  | leaf doc =>
    simp only [ht, List.mem_map] at hx
    obtain ⟨r, _, rfl⟩ := hx
    exact Or.inl rfl
  | node doc cs =>
    simp only [ht, List.mem_flatMap] at hx
    obtain ⟨c, hc, hx⟩ := hx
    rw [rulesWithChild_eq] at hx
    obtain ⟨r, _, rfl⟩ := List.mem_map.mp hx
    exact Or.inr ⟨c, by simpa [PTree.kids] using hc, rfl⟩

/-- the explicit statement implies the executable one the driver evaluates on the implementation's Decision -/
theorem Explained.spec {o : Oracle} {cfg : GuardCfg} {policy : PyVal} {req : Request} {d : Decision}
    (h : Explained o cfg policy req d) (hnr : NoRaise (condCtx o cfg req) (allRules policy)) (hid : ChildIdsOk policy) :
    Spec.c11 o cfg policy req d.allowed d.effect d.ruleId d.policyId d.reason d.obligations = some true := by
  refine c11_intro o cfg policy req _ _ _ _ _ _ (fun x hx => hnr x.2 (rulesByChild_sub policy x hx)) h.noRule ?_
  intro hn
  obtain ⟨x, hx, e, s, ro, ho, hrid, hpid, hc⟩ := h.rule hn
  refine ⟨x, hx, e, .str s, ro, ho, by rw [hrid]; simp [PyVal.pyEq], ?_, ?_⟩
  · rcases hpid with hp | hp
    · exact Or.inl hp
    · right
      rw [← hp]
      rcases rulesByChild_fst policy x hx with h0 | ⟨c, hc', h0⟩
      · rw [h0]; simp [PyVal.pyEq]
      · rw [h0]; exact List.all_eq_true.mp hid c hc'
  · rcases hc with ⟨h1, he, h2, h3, h4⟩ | ⟨h1, he, h2, h3⟩ | ⟨h1, he, h2, h3, h4⟩
    · exact Or.inl ⟨h1, by rw [he]; decide, h2, h3, h4.symm⟩
    · exact Or.inr (Or.inl ⟨h1, he, h2, h3⟩)
    · exact Or.inr (Or.inr ⟨h1, by rw [he]; decide, h2, h3, h4.symm⟩)

/-! ### a decidable form of the hypotheses (for concrete documents) -/

/-- the rule does not raise and, if it applies, has a string id and effect permit or deny -/
def ruleOkB (cx : CondCtx) (r : PyVal) : Bool :=
  match ruleOutcome cx r with
  | .ok (.applies e (.str _) _) => e == "permit" || e == "deny"
  | .ok (.applies _ _ _) => false
  | .ok _ => true
  | .error _ => false

def withinSchemaB (o : Oracle) (cfg : GuardCfg) (policy : PyVal) (req : Request) : Bool :=
  docAlgosKnown cfg.consts policy && (allRules policy).all (ruleOkB (condCtx o cfg req))

theorem withinSchemaB_sound {o : Oracle} {cfg : GuardCfg} {policy : PyVal} {req : Request}
    (h : withinSchemaB o cfg policy req = true) : WithinSchema o cfg policy req := by
  simp only [withinSchemaB, Bool.and_eq_true, List.all_eq_true] at h
  refine ⟨h.1, ?_, ?_⟩
  · intro r hr out ho hap
    have := h.2 r hr
    simp only [ruleOkB, ho] at this
    cases out with
    | applies e rid ro =>
      cases rid <;> simp only [Bool.false_eq_true] at this
      simp only [Bool.or_eq_true, beq_iff_eq] at this
      exact ⟨⟨_, rfl⟩, this⟩
    | _ => simp [Outcome.applied] at hap
  · intro r hr
    have := h.2 r hr
    simp only [ruleOkB] at this
    cases ho : ruleOutcome (condCtx o cfg req) r with
    | ok out => exact ⟨out, rfl⟩
    | error e => simp [ho] at this

/-! ### events -/

def Event.isAudit : Event → Bool
  | .audit _ _ _ _ _ _ _ => true
  | _ => false

def Event.isMetricInc : Event → Bool
  | .metricInc _ => true
  | _ => false

def Event.isMetricObserve : Event → Bool
  | .metricObserve _ => true
  | _ => false

/-- the events of one evaluation, as a function of the finished Decision only -/
def eventsOf (cfg : GuardCfg) (env : PyVal) (d : Decision) : List Event :=
  (if cfg.hasMetrics then [Event.metricInc d.effect, Event.metricObserve d.effect] else []) ++
  (if cfg.hasLogger then [Event.audit env d.effect d.allowed d.ruleId d.policyId d.reason d.obligations] else [])

theorem finish_events (o : Oracle) (cfg : GuardCfg) (req : Request) (env : PyVal) (raw : Raw) :
    (finishDecision o cfg req env raw).2 = eventsOf cfg env (finishDecision o cfg req env raw).1 := rfl

theorem eventsOf_counts (cfg : GuardCfg) (env : PyVal) (d : Decision) :
    (eventsOf cfg env d).countP Event.isAudit = (if cfg.hasLogger then 1 else 0) ∧
    (eventsOf cfg env d).countP Event.isMetricInc = (if cfg.hasMetrics then 1 else 0) ∧
    (eventsOf cfg env d).countP Event.isMetricObserve = (if cfg.hasMetrics then 1 else 0) := by
  unfold eventsOf
  cases cfg.hasMetrics <;> cases cfg.hasLogger <;>
    simp [List.countP_cons, Event.isAudit, Event.isMetricInc, Event.isMetricObserve]

end Rbacx
