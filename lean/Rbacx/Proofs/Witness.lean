import Rbacx.Proofs.EvaluateSpec
/-
  Rbacx.Proofs.Witness — whatever `evaluate` reports is justified by an outcome of one of the rules it
  actually looked at (for every algorithm string, known or not, and with early `break`s).
-/
namespace Rbacx

/-- the outcomes of the rules the loop consumed: a prefix of the rule list -/
inductive Consumed (cx : CondCtx) : List PyVal → List Outcome → Prop where
  | nil (rules : List PyVal) : Consumed cx rules []
  | cons {r : PyVal} {rs : List PyVal} {o : Outcome} {os : List Outcome} :
      ruleOutcome cx r = .ok o → Consumed cx rs os → Consumed cx (r :: rs) (o :: os)

theorem Consumed.mem {cx : CondCtx} {rules : List PyVal} {outs : List Outcome} (h : Consumed cx rules outs) :
    ∀ o ∈ outs, ∃ r ∈ rules, ruleOutcome cx r = .ok o := by
  induction h with
  | nil => intro o ho; simp at ho
  | cons hr _ ih =>
    intro o' ho'
    rcases List.mem_cons.mp ho' with h1 | h1
    · subst h1; exact ⟨_, List.mem_cons_self, hr⟩
    · obtain ⟨r', hr', ho⟩ := ih o' h1
      exact ⟨r', List.mem_cons_of_mem _ hr', ho⟩

/-- the sequential loop equals the pure loop over the outcomes it consumed -/
theorem rulesLoop_consumed (cx : CondCtx) (algo : String) :
    ∀ (rules : List PyVal) (s s' : LoopSt), rulesLoop cx algo s rules = .ok s' →
      ∃ outs, Consumed cx rules outs ∧ s' = loopOuts algo s outs := by
  intro rules
  induction rules with
  | nil =>
    intro s s' h
    simp only [rulesLoop] at h
    injection h with h
    exact ⟨[], .nil _, by simp [loopOuts, h]⟩
  | cons r rs ih =>
    intro s s' h
    simp only [rulesLoop] at h
    cases hr : ruleOutcome cx r with
    | error e => simp [hr] at h
    | ok o =>
      simp only [hr] at h
      by_cases hb : (stepRule algo s o).2 = true
      · simp only [hb, if_true] at h
        injection h with h
        exact ⟨[o], .cons hr (.nil _), by simp [loopOuts, hb, h]⟩
      · simp only [hb, Bool.false_eq_true, if_false] at h
        obtain ⟨outs, hc, hs⟩ := ih _ _ h
        exact ⟨o :: outs, .cons hr hc, by simp [loopOuts, hb, hs]⟩

/-- permit/deny bookkeeping of the loop state is backed by outcomes seen so far -/
structure Backed (seen : List Outcome) (s : LoopSt) : Prop where
  permit : s.anyPermit = true → ∃ e, Outcome.applies e s.permitRuleId s.permitObls ∈ seen ∧ (e == "deny") = false
  deny : s.anyDeny = true → ∃ obls, Outcome.applies "deny" s.denyRuleId obls ∈ seen

/-- invariant of a state from which the loop continues -/
structure Cont (seen : List Outcome) (s : LoopSt) : Prop extends Backed seen s where
  dec : s.decision = "deny"

/-- invariant of the state the loop ends in -/
structure Final (seen : List Outcome) (s : LoopSt) : Prop extends Backed seen s where
  dec : s.decision = "permit" → ∃ e, Outcome.applies e s.lastRuleId s.obligations ∈ seen ∧ (e == "deny") = false

theorem Backed.mono {seen seen' : List Outcome} {s : LoopSt} (h : Backed seen s) (hsub : ∀ o ∈ seen, o ∈ seen') :
    Backed seen' s :=
  ⟨fun hp => let ⟨e, hm, he⟩ := h.permit hp; ⟨e, hsub _ hm, he⟩,
   fun hd => let ⟨ob, hm⟩ := h.deny hd; ⟨ob, hsub _ hm⟩⟩

theorem Cont.toFinal {seen : List Outcome} {s : LoopSt} (h : Cont seen s) : Final seen s :=
  ⟨h.toBacked, fun hd => by rw [h.dec] at hd; exact absurd hd (by decide)⟩

theorem step_inv (algo : String) (seen : List Outcome) (s : LoopSt) (o : Outcome) (h : Cont seen s) :
    ((stepRule algo s o).2 = false → Cont (seen ++ [o]) (stepRule algo s o).1) ∧
    ((stepRule algo s o).2 = true → Final (seen ++ [o]) (stepRule algo s o).1) := by
  have hm := h.toBacked.mono (seen' := seen ++ [o]) (fun x hx => List.mem_append_left _ hx)
  have hd := h.dec
  cases o with
  | actionMismatch => exact ⟨fun _ => ⟨⟨hm.permit, hm.deny⟩, hd⟩, fun hb => by simp [stepRule] at hb⟩
  | resourceMismatch => exact ⟨fun _ => ⟨⟨hm.permit, hm.deny⟩, hd⟩, fun hb => by simp [stepRule] at hb⟩
  | condFalse => exact ⟨fun _ => ⟨⟨hm.permit, hm.deny⟩, hd⟩, fun hb => by simp [stepRule] at hb⟩
  | condTypeErr => exact ⟨fun _ => ⟨⟨hm.permit, hm.deny⟩, hd⟩, fun hb => by simp [stepRule] at hb⟩
  | applies e rid obls =>
    have hin : Outcome.applies e rid obls ∈ seen ++ [Outcome.applies e rid obls] := by simp
    by_cases h1 : (algo == "first-applicable") = true
    · simp only [stepRule, h1, if_true]
      refine ⟨fun hb => by simp at hb, fun _ => ⟨⟨hm.permit, hm.deny⟩, ?_⟩⟩
      intro hdec
      simp only at hdec
      exact ⟨e, hin, by subst hdec; decide⟩
    · by_cases h2 : (e == "deny") = true
      · have he : e = "deny" := by simpa using h2
        subst he
        by_cases h3 : (algo == "deny-overrides") = true
        · simp only [stepRule, h1, h3, Bool.false_eq_true, if_false, beq_self_eq_true, if_true]
          exact ⟨fun hb => by simp at hb,
                 fun _ => ⟨⟨hm.permit, fun _ => ⟨obls, hin⟩⟩, fun hdec => by simp at hdec⟩⟩
        · simp only [stepRule, h1, h3, Bool.false_eq_true, if_false, beq_self_eq_true, if_true]
          exact ⟨fun _ => ⟨⟨hm.permit, fun _ => ⟨obls, hin⟩⟩, hd⟩, fun hb => by simp at hb⟩
      · have h2' : (e == "deny") = false := by simpa using h2
        by_cases h3 : (algo == "permit-overrides") = true
        · simp only [stepRule, h1, h2', h3, Bool.false_eq_true, if_false, if_true]
          exact ⟨fun hb => by simp at hb,
                 fun _ => ⟨⟨fun _ => ⟨e, hin, h2'⟩, hm.deny⟩, fun _ => ⟨e, hin, h2'⟩⟩⟩
        · simp only [stepRule, h1, h2', h3, Bool.false_eq_true, if_false]
          exact ⟨fun _ => ⟨⟨fun _ => ⟨e, hin, h2'⟩, hm.deny⟩, hd⟩, fun hb => by simp at hb⟩

theorem loopOuts_final (algo : String) :
    ∀ (os seen : List Outcome) (s : LoopSt), Cont seen s → Final (seen ++ os) (loopOuts algo s os) := by
  intro os
  induction os with
  | nil => intro seen s h; simpa [loopOuts] using h.toFinal
  | cons o os ih =>
    intro seen s h
    have hs := step_inv algo seen s o h
    simp only [loopOuts]
    by_cases hb : (stepRule algo s o).2 = true
    · simp only [hb, if_true]
      have hf := hs.2 hb
      exact ⟨hf.toBacked.mono (fun x hx => by simp at hx ⊢; rcases hx with h1 | h1 <;> simp [h1]),
             fun hd => let ⟨e, hm, he⟩ := hf.dec hd
               ⟨e, by simp at hm ⊢; rcases hm with h1 | h1 <;> simp [h1], he⟩⟩
    · simp only [hb, Bool.false_eq_true, if_false]
      have := ih (seen ++ [o]) _ (hs.1 (by simpa using hb))
      simpa [List.append_assoc] using this

theorem init_cont : Cont [] ({} : LoopSt) :=
  ⟨⟨fun h => by simp at h, fun h => by simp at h⟩, rfl⟩

/-- a raw `permit` is always the permit of an applicable rule the loop consumed, with that rule's id and
    obligations — for every algorithm string -/
theorem finalise_permit_witness (algo : String) (seen : List Outcome) (s : LoopSt) (h : Final seen s)
    (hp : (finalise algo s).decision = "permit") :
    ∃ e, Outcome.applies e (finalise algo s).lastRuleId (finalise algo s).obligations ∈ seen ∧ (e == "deny") = false := by
  unfold finalise at hp ⊢
  by_cases h1 : (algo == "deny-overrides") = true
  · simp only [h1, if_true] at hp ⊢
    by_cases h2 : s.anyDeny = true
    · simp [h2] at hp
    · by_cases h3 : s.anyPermit = true
      · simpa [h2, h3] using h.permit h3
      · simp [h2, h3] at hp
  · by_cases h1' : (algo == "permit-overrides") = true
    · simp only [h1, h1', Bool.false_eq_true, if_false, if_true] at hp ⊢
      by_cases h3 : s.anyPermit = true
      · simpa [h3] using h.permit h3
      · by_cases h2 : s.anyDeny = true
        · simp [h2, h3] at hp
        · simp [h2, h3] at hp
    · simp only [h1, h1', Bool.false_eq_true, if_false] at hp ⊢
      by_cases h4 : s.lastRuleId.isNone = true
      · simp [h4] at hp
      · simp only [h4, Bool.false_eq_true, if_false] at hp ⊢
        exact h.dec hp

/-- every raw permit returned by the rule loop comes from an applicable non-deny rule of the list -/
theorem rulesLoop_permit_witness (cx : CondCtx) (algo : String) (rules : List PyVal) (s' : LoopSt)
    (h : rulesLoop cx algo {} rules = .ok s') (hp : (finalise algo s').decision = "permit") :
    ∃ r ∈ rules, ∃ e, ruleOutcome cx r = .ok (.applies e (finalise algo s').lastRuleId (finalise algo s').obligations)
      ∧ (e == "deny") = false := by
  obtain ⟨outs, hc, hs⟩ := rulesLoop_consumed cx algo rules {} s' h
  have hf : Final outs s' := by
    have := loopOuts_final algo outs [] {} init_cont
    simpa [hs] using this
  obtain ⟨e, hm, he⟩ := finalise_permit_witness algo outs s' hf hp
  obtain ⟨r, hr, ho⟩ := hc.mem _ hm
  exact ⟨r, hr, e, ho, he⟩

end Rbacx
