import Rbacx.Proofs.GuardWitness
/-
  C01 — deny by default: no permit without an applicable, satisfied permit rule.

  Quantifier: every policy document (single policy or nested set, any algorithm string or none),
  every engine configuration (lax/strict, any role resolver / relationship checker / obligation
  checker / sinks), every request, every oracle.
-/
namespace Rbacx.C01
open Rbacx

theorem ite_pd (c : Prop) [Decidable c] :
    (if c then "permit" else "deny") = "permit" ∨ (if c then "permit" else "deny") = "deny" := by
  split <;> simp

/-- `allowed` is true exactly when `effect` is "permit" -/
theorem c01_allowed_iff_permit (o : Oracle) (cfg : GuardCfg) (req : Request) (env : PyVal) (raw : Raw) :
    (finishDecision o cfg req env raw).1.allowed = true ↔ (finishDecision o cfg req env raw).1.effect = "permit" := by
  simp only [finishDecision]
  by_cases hp : (raw.decision == "permit") = true
  · cases hc : cfg.checker with
    | builtin =>
      simp only [hp, Bool.not_true, Bool.false_eq_true, if_false]
      cases (checkObligations o raw.decision raw.obligations (dictOr (req.context.getD .none))).1 <;> simp
    | custom a =>
      cases a with
      | none => simp [hp]
      | some v => simp only [hp, Bool.not_true, Bool.false_eq_true, if_false]; cases v.1.truthy <;> simp
  · simp [hp]

theorem guardEval_ok {o : Oracle} {cfg : GuardCfg} {policy : PyVal} {req : Request} {d : Decision} {evs : List Event}
    (h : guardEval o cfg policy req = .ok (d, evs)) :
    ∃ raw, guardDecide (condCtx o cfg req) cfg.consts policy = .ok raw ∧
      finishDecision o cfg req (condCtx o cfg req).env raw = (d, evs) := by
  simp only [guardEval] at h
  cases hg : guardDecide (condCtx o cfg req) cfg.consts policy with
  | error e => simp [hg] at h
  | ok raw => simp only [hg] at h; injection h with h; exact ⟨raw, rfl, h⟩

theorem c01_allowed_iff_permit_guard (o : Oracle) (cfg : GuardCfg) (policy : PyVal) (req : Request) (d : Decision)
    (evs : List Event) (h : guardEval o cfg policy req = .ok (d, evs)) : d.allowed = true ↔ d.effect = "permit" := by
  obtain ⟨raw, _, hf⟩ := guardEval_ok h
  have := c01_allowed_iff_permit o cfg req (condCtx o cfg req).env raw
  rw [hf] at this
  exact this

/-- the raw decision behind an allowed Decision was a permit -/
theorem allowed_raw_permit (o : Oracle) (cfg : GuardCfg) (req : Request) (env : PyVal) (raw : Raw)
    (h : (finishDecision o cfg req env raw).1.allowed = true) : raw.decision = "permit" := by
  simp only [finishDecision] at h
  by_cases hp : (raw.decision == "permit") = true
  · simpa using hp
  · simp [hp] at h

/-- with the built-in checker an allowed Decision has no unmet permit-obligation -/
theorem allowed_obligations_met (o : Oracle) (cfg : GuardCfg) (req : Request) (env : PyVal) (raw : Raw)
    (hb : cfg.checker = .builtin) (h : (finishDecision o cfg req env raw).1.allowed = true) :
    ∀ ob ∈ raw.obligations, obligationUnmet o "permit" (dictOr (req.context.getD .none)) ob = none := by
  have hp := allowed_raw_permit o cfg req env raw h
  simp only [finishDecision, hb, hp] at h
  simp only [beq_self_eq_true, Bool.not_true, Bool.false_eq_true, if_false] at h
  unfold checkObligations at h
  simp only [if_true] at h
  cases hf : List.findSome? (obligationUnmet o "permit" (dictOr (req.context.getD .none))) raw.obligations with
  | some ch => simp [hf] at h
  | none =>
    intro ob hob
    exact List.findSome?_eq_none_iff.mp hf ob hob

/-- **no permit without an applicable, satisfied permit rule**: an allowed decision is backed by a rule of the
    policy whose actions, resource target and condition match the request, whose effect is not deny, and whose
    obligations (the ones returned) are all met per the built-in checker -/
theorem c01_permit_has_witness (o : Oracle) (cfg : GuardCfg) (policy : PyVal) (req : Request) (d : Decision)
    (evs : List Event) (h : guardEval o cfg policy req = .ok (d, evs)) (ha : d.allowed = true) :
    ∃ r ∈ allRules policy, ∃ e rid,
      ruleOutcome (condCtx o cfg req) r = .ok (.applies e rid d.obligations) ∧ (e == "deny") = false ∧
      (cfg.checker = .builtin →
        ∀ ob ∈ d.obligations, obligationUnmet o "permit" (dictOr (req.context.getD .none)) ob = none) := by
  obtain ⟨raw, hg, h⟩ := guardEval_ok h
  · have hd : (finishDecision o cfg req (condCtx o cfg req).env raw).1 = d := by rw [h]
    have ha' : (finishDecision o cfg req (condCtx o cfg req).env raw).1.allowed = true := by rw [hd]; exact ha
    have hp := allowed_raw_permit o cfg req _ raw ha'
    obtain ⟨r, hr, e, ho, he⟩ := guardDecide_permit_witness _ cfg.consts policy raw hg hp
    have hobl : d.obligations = raw.obligations := by rw [← hd]; simp [finishDecision]
    refine ⟨r, hr, e, raw.lastRuleId, by rw [hobl]; exact ho, he, ?_⟩
    intro hb
    rw [hobl]
    exact allowed_obligations_met o cfg req _ raw hb ha'

/-- a policy with no rules, or none that applies to the request, always yields deny -/
theorem c01_none_applicable_denies (o : Oracle) (cfg : GuardCfg) (policy : PyVal) (req : Request) (d : Decision)
    (evs : List Event) (h : guardEval o cfg policy req = .ok (d, evs))
    (hn : ∀ r ∈ allRules policy, ∀ e rid obls, ruleOutcome (condCtx o cfg req) r ≠ .ok (.applies e rid obls)) :
    d.allowed = false ∧ d.effect = "deny" := by
  have hna : d.allowed = false := by
    cases hd : d.allowed with
    | false => rfl
    | true =>
      obtain ⟨r, hr, e, rid, ho, _⟩ := c01_permit_has_witness o cfg policy req d evs h hd
      exact absurd ho (hn r hr e rid _)
  refine ⟨hna, ?_⟩
  have := c01_allowed_iff_permit_guard o cfg policy req d evs h
  obtain ⟨raw, _, hf⟩ := guardEval_ok h
  have he : d.effect = "permit" ∨ d.effect = "deny" := by
    have : d = (finishDecision o cfg req (condCtx o cfg req).env raw).1 := by rw [hf]
    rw [this]; simp only [finishDecision]; exact ite_pd _
  rcases he with he | he
  · rw [this.mpr he] at hna; simp at hna
  · exact he

theorem c01_empty_policy (o : Oracle) (cfg : GuardCfg) (req : Request) (d : Decision) (evs : List Event)
    (policy : PyVal) (hempty : allRules policy = [])
    (h : guardEval o cfg policy req = .ok (d, evs)) : d.allowed = false ∧ d.effect = "deny" :=
  c01_none_applicable_denies o cfg policy req d evs h (by rw [hempty]; intro r hr; simp at hr)

end Rbacx.C01
