import Rbacx.Properties.C01
import Rbacx.Properties.C08
/-
  C01 with the decision cache — the quantifier of C01 says "with and without decision cache".

  The engines of one configuration, sharing ONE cache instance, are an instance of the abstract
  `World` of C08 (`decide` = compiled decision with interpreter fall-back, `finish` = obligation gate +
  Decision + events).  By C08's transparency theorem every evaluation of every history returns what
  `guardEval` returns for the policy that is current at that point; C01's theorems then apply to it.
  Named assumption (as in C08): `PostHarmless` for the key function — equal cache keys ⇒ equal finished
  decisions (see `Properties/C08Key.lean` for what is proved about the key).
-/
namespace Rbacx.C01
open Rbacx Rbacx.CacheHist Rbacx.C08

/-- the engines (one configuration, any number of them, each with its own current policy) as a `World`;
    `key` is the cache key function, `post` what a reference-storing cache ends up holding -/
def engineWorld (o : Oracle) (cfg : GuardCfg) (key : PyVal → Request → String)
    (post : Except CondErr Raw → Request → Except CondErr Raw) :
    World PyVal Request (Except CondErr Raw) (Except CondErr (Decision × List Event)) where
  decide p r := guardDecide (condCtx o cfg r) cfg.consts p
  finish raw r :=
    match raw with
    | .error e => .error e
    | .ok raw => .ok (finishDecision o cfg r (condCtx o cfg r).env raw)
  cacheKey := key
  post := post

/-- an uncached evaluation in that world is `guardEval` -/
theorem engineWorld_plain (o : Oracle) (cfg : GuardCfg) (key : PyVal → Request → String)
    (post : Except CondErr Raw → Request → Except CondErr Raw) (p : PyVal) (r : Request) :
    (engineWorld o cfg key post).finish ((engineWorld o cfg key post).decide p r) r = guardEval o cfg p r := by
  simp only [engineWorld, guardEval]
  cases guardDecide (condCtx o cfg r) cfg.consts p <;> rfl

/-- the policies held by the engines after a prefix of the history -/
def polsAfter {P E : Type} (pols : Nat → P) : List (HOp P E) → (Nat → P)
  | [] => pols
  | .setPolicy e p :: ops => polsAfter (fun i => if i = e then p else pols i) ops
  | _ :: ops => polsAfter pols ops

theorem runPlain_length {P E R D : Type} (w : World P E R D) :
    ∀ (ops : List (HOp P E)) (pols : Nat → P), (runPlain w pols ops).length = ops.length := by
  intro ops
  induction ops with
  | nil => intro _; rfl
  | cons op ops ih => intro pols; simp [runPlain, ih]

/-- the output of the uncached engines at an evaluation in the middle of a history -/
theorem runPlain_at {P E R D : Type} (w : World P E R D) :
    ∀ (pre : List (HOp P E)) (pols : Nat → P) (e : Nat) (env : E) (now : Int) (post : List (HOp P E)),
      (runPlain w pols (pre ++ .eval e env now :: post))[pre.length]? =
        some (some (w.finish (w.decide (polsAfter pols pre e) env) env)) := by
  intro pre
  induction pre with
  | nil => intro pols e env now post; simp [runPlain, stepPlain, polsAfter]
  | cons op pre ih =>
    intro pols e env now post
    cases op with
    | eval e' env' now' => simpa [runPlain, stepPlain, polsAfter] using ih pols e env now post
    | setPolicy e' p' => simpa [runPlain, stepPlain, polsAfter] using ih _ e env now post
    | clearCache e' => simpa [runPlain, stepPlain, polsAfter] using ih pols e env now post

/-- **every evaluation of every history on cached engines returns `guardEval` of the policy current at that
    point**: any honest cache (built-in LRU+TTL of any capacity/TTL, a dict, a copying cache), any number of
    engines sharing it, any interleaving of evaluations, policy replacements and clears, any clock values -/
theorem c01_cached_is_guardEval (o : Oracle) (cfg : GuardCfg) (key : PyVal → Request → String)
    (post : Except CondErr Raw → Request → Except CondErr Raw) (c : CacheLike (Except CondErr Raw))
    (hh : Honest c) (hp : PostHarmless (engineWorld o cfg key post)) (pols : Nat → PyVal)
    (pre : List (HOp PyVal Request)) (e : Nat) (req : Request) (now : Int) (rest : List (HOp PyVal Request)) :
    (runCached (engineWorld o cfg key post) c { pols := pols, cache := c.init, cops := [] }
        (pre ++ .eval e req now :: rest))[pre.length]? =
      some (some (guardEval o cfg (polsAfter pols pre e) req)) := by
  rw [c08_transparent_from_init _ c hh hp, runPlain_at, engineWorld_plain]

/-- **deny by default holds with the decision cache**: an allowed decision returned at any point of any history
    is backed by an applicable, satisfied permit rule of the policy that is current at that point -/
theorem c01_cached_permit_has_witness (o : Oracle) (cfg : GuardCfg) (key : PyVal → Request → String)
    (post : Except CondErr Raw → Request → Except CondErr Raw) (c : CacheLike (Except CondErr Raw))
    (hh : Honest c) (hp : PostHarmless (engineWorld o cfg key post)) (pols : Nat → PyVal)
    (pre : List (HOp PyVal Request)) (e : Nat) (req : Request) (now : Int) (rest : List (HOp PyVal Request))
    (d : Decision) (evs : List Event)
    (hret : (runCached (engineWorld o cfg key post) c { pols := pols, cache := c.init, cops := [] }
        (pre ++ .eval e req now :: rest))[pre.length]? = some (some (.ok (d, evs))))
    (ha : d.allowed = true) :
    ∃ r ∈ allRules (polsAfter pols pre e), ∃ eff rid,
      ruleOutcome (condCtx o cfg req) r = .ok (.applies eff rid d.obligations) ∧ (eff == "deny") = false ∧
      (cfg.checker = .builtin →
        ∀ ob ∈ d.obligations, obligationUnmet o "permit" (dictOr (req.context.getD .none)) ob = none) := by
  rw [c01_cached_is_guardEval o cfg key post c hh hp] at hret
  have h : guardEval o cfg (polsAfter pols pre e) req = .ok (d, evs) := by
    injection hret with hret
    injection hret
  exact c01_permit_has_witness o cfg _ req d evs h ha

/-- … and a current policy none of whose rules applies yields deny, cache or not -/
theorem c01_cached_none_applicable_denies (o : Oracle) (cfg : GuardCfg) (key : PyVal → Request → String)
    (post : Except CondErr Raw → Request → Except CondErr Raw) (c : CacheLike (Except CondErr Raw))
    (hh : Honest c) (hp : PostHarmless (engineWorld o cfg key post)) (pols : Nat → PyVal)
    (pre : List (HOp PyVal Request)) (e : Nat) (req : Request) (now : Int) (rest : List (HOp PyVal Request))
    (d : Decision) (evs : List Event)
    (hret : (runCached (engineWorld o cfg key post) c { pols := pols, cache := c.init, cops := [] }
        (pre ++ .eval e req now :: rest))[pre.length]? = some (some (.ok (d, evs))))
    (hn : ∀ r ∈ allRules (polsAfter pols pre e), ∀ eff rid obls,
      ruleOutcome (condCtx o cfg req) r ≠ .ok (.applies eff rid obls)) :
    d.allowed = false ∧ d.effect = "deny" := by
  rw [c01_cached_is_guardEval o cfg key post c hh hp] at hret
  have h : guardEval o cfg (polsAfter pols pre e) req = .ok (d, evs) := by
    injection hret with hret
    injection hret
  exact c01_none_applicable_denies o cfg _ req d evs h hn

/-- the built-in cache qualifies (C15 ⇒ honest), for every capacity and TTL -/
example (cfg : Rbacx.Cache.Cfg) (ttl : Option Int) : Honest (lruCache (Except CondErr Raw) cfg ttl) :=
  c08_lru_honest cfg ttl

end Rbacx.C01
