import Rbacx.Proofs.EvaluateSpec
import Rbacx.Proofs.SetSpec
/-
  C02 — Combining algorithms decide as specified (reference evaluator).

  Quantifier: every rule list (any length/order; every pattern of permit / deny / action-mismatch /
  resource-mismatch / condition-false / condition-ill-typed outcomes), every request environment,
  every oracle.  The hypothesis `outcomes … = .ok outs` says exactly that every rule falls in one
  of those six classes (no rule raises a non-ConditionTypeError exception).
-/
namespace Rbacx.C02
open Rbacx Classical

/-- the rule is applicable (actions, resource target and condition all match) and its effect is deny -/
def RuleDenies (cx : CondCtx) (r : PyVal) : Prop := ∃ o, ruleOutcome cx r = .ok o ∧ o.isDeny = true
/-- the rule is applicable and its effect is not deny -/
def RulePermits (cx : CondCtx) (r : PyVal) : Prop := ∃ o, ruleOutcome cx r = .ok o ∧ o.isPermit = true
def RuleApplies (cx : CondCtx) (r : PyVal) : Prop := ∃ o, ruleOutcome cx r = .ok o ∧ o.applied = true

theorem any_iff {cx : CondCtx} {rules : List PyVal} {outs : List Outcome} (h : outcomes cx rules = .ok outs)
    (p : Outcome → Bool) : outs.any p = true ↔ ∃ r ∈ rules, ∃ o, ruleOutcome cx r = .ok o ∧ p o = true := by
  simp only [List.any_eq_true]
  constructor
  · rintro ⟨o, ho, hp⟩
    obtain ⟨r, hr, hro⟩ := (outcomes_mem cx rules outs h o).mp ho
    exact ⟨r, hr, o, hro, hp⟩
  · rintro ⟨r, hr, o, hro, hp⟩
    exact ⟨o, (outcomes_mem cx rules outs h o).mpr ⟨r, hr, hro⟩, hp⟩

theorem ite_bool_prop {α : Type} (b : Bool) (P : Prop) [Decidable P] (h : b = true ↔ P) (x y : α) :
    (if b = true then x else y) = if P then x else y := by
  by_cases hp : P
  · rw [if_pos hp, if_pos (h.mpr hp)]
  · rw [if_neg hp, if_neg (fun hb => hp (h.mp hb))]

theorem denies_iff {cx : CondCtx} {rules : List PyVal} {outs : List Outcome} (h : outcomes cx rules = .ok outs) :
    outs.any Outcome.isDeny = true ↔ ∃ r ∈ rules, RuleDenies cx r := any_iff h _

theorem permits_iff {cx : CondCtx} {rules : List PyVal} {outs : List Outcome} (h : outcomes cx rules = .ok outs) :
    outs.any Outcome.isPermit = true ↔ ∃ r ∈ rules, RulePermits cx r := any_iff h _

/-- deny-overrides: deny iff some applicable rule denies, otherwise permit iff some applicable rule permits -/
theorem c02_deny_overrides (cx : CondCtx) (dflt : String) (p : PyVal) (outs : List Outcome)
    (ha : algoOf dflt p = .ok "deny-overrides") (ho : outcomes cx (rulesOf p) = .ok outs) :
    ∃ raw, evaluate cx dflt p = .ok raw ∧
      raw.decision = (if ∃ r ∈ rulesOf p, RuleDenies cx r then "deny"
                      else if ∃ r ∈ rulesOf p, RulePermits cx r then "permit" else "deny") := by
  refine ⟨_, evaluate_deny_overrides cx dflt p outs ha ho, ?_⟩
  have := evaluate_do_decision outs
  rw [evaluate_do_full] at this
  rw [this, specDecisionDO, ite_bool_prop _ _ (denies_iff ho), ite_bool_prop _ _ (permits_iff ho)]

/-- permit-overrides: the dual -/
theorem c02_permit_overrides (cx : CondCtx) (dflt : String) (p : PyVal) (outs : List Outcome)
    (ha : algoOf dflt p = .ok "permit-overrides") (ho : outcomes cx (rulesOf p) = .ok outs) :
    ∃ raw, evaluate cx dflt p = .ok raw ∧
      raw.decision = (if ∃ r ∈ rulesOf p, RulePermits cx r then "permit"
                      else if ∃ r ∈ rulesOf p, RuleDenies cx r then "deny" else "deny") := by
  refine ⟨_, evaluate_permit_overrides cx dflt p outs ha ho, ?_⟩
  have := evaluate_po_decision outs
  rw [evaluate_po_full] at this
  rw [this, specDecisionPO, ite_bool_prop _ _ (denies_iff ho), ite_bool_prop _ _ (permits_iff ho)]

/-- first-applicable: the effect and the id of the first applicable rule in document order; deny if none -/
theorem c02_first_applicable (cx : CondCtx) (dflt : String) (p : PyVal) (outs : List Outcome)
    (ha : algoOf dflt p = .ok "first-applicable") (ho : outcomes cx (rulesOf p) = .ok outs) :
    ∃ raw, evaluate cx dflt p = .ok raw ∧
      (match outs.find? Outcome.applied with
       | some o => raw.decision = o.effect ∧ raw.ruleId = o.rid ∧ raw.obligations = o.obls
       | none => raw.decision = "deny" ∧ raw.ruleId = .none) := by
  refine ⟨_, evaluate_first_applicable cx dflt p outs ha ho, ?_⟩
  simp only [specFA]
  cases outs.find? Outcome.applied <;> simp [rawNone]

/-- no applicable rule ⇒ deny with a null rule id, under every algorithm name the code knows -/
theorem c02_none_applicable (cx : CondCtx) (dflt : String) (p : PyVal) (outs : List Outcome) (algo : String)
    (halgo : algo = "deny-overrides" ∨ algo = "permit-overrides" ∨ algo = "first-applicable")
    (ha : algoOf dflt p = .ok algo) (ho : outcomes cx (rulesOf p) = .ok outs)
    (hn : ∀ o ∈ outs, o.applied = false) :
    ∃ raw, evaluate cx dflt p = .ok raw ∧ raw.decision = "deny" ∧ raw.ruleId = .none ∧ raw.obligations = [] := by
  have hfind : ∀ q : Outcome → Bool, (∀ o, q o = true → o.applied = true) → outs.find? q = none := by
    intro q hq
    rw [List.find?_eq_none]
    intro o ho' hqo
    have := hn o ho'
    rw [hq o hqo] at this
    exact absurd this (by simp)
  have hlast : ∀ q : Outcome → Bool, (∀ o, q o = true → o.applied = true) → lastWhere q outs = none := by
    intro q hq
    clear ho hfind
    induction outs with
    | nil => rfl
    | cons o os ih =>
      simp only [lastWhere]
      rw [ih (fun o ho => hn o (List.mem_cons_of_mem _ ho))]
      have : q o = false := by
        cases hqo : q o with
        | false => rfl
        | true => have := hn o List.mem_cons_self; rw [hq o hqo] at this; exact absurd this (by simp)
      simp [this]
  have hD : ∀ o : Outcome, o.isDeny = true → o.applied = true := by intro o; cases o <;> simp [Outcome.isDeny, Outcome.applied]
  have hP : ∀ o : Outcome, o.isPermit = true → o.applied = true := by intro o; cases o <;> simp [Outcome.isPermit, Outcome.applied]
  rcases halgo with h | h | h <;> subst h
  · refine ⟨_, evaluate_deny_overrides cx dflt p outs ha ho, ?_⟩
    simp [specDO, hfind _ hD, hlast _ hP, rawNone]
  · refine ⟨_, evaluate_permit_overrides cx dflt p outs ha ho, ?_⟩
    simp [specPO, hfind _ hP, hlast _ hD, rawNone]
  · refine ⟨_, evaluate_first_applicable cx dflt p outs ha ho, ?_⟩
    simp [specFA, hfind _ (fun _ h => h), rawNone]

end Rbacx.C02

/-! ### policy sets, at any nesting depth -/

namespace Rbacx.C02
open Rbacx

/-- **a policy set combines its children by the same three algorithms, counting a child as applicable only if one of its
    rules was, at any nesting depth, and reports the id of the deciding child**: whenever the documented result
    `Spec.tree` is defined (every level names one of the three algorithms or none, no rule raises), the set evaluator
    returns it — same decision, same applicability, and (for a set) the deciding child's id.  `RulesOk` is what the schema
    guarantees about applicable rules: a string id and effect permit/deny.
    `Spec.tree` is written without loops or breaks: a leaf is applicable iff one of its rules applied
    (`outs.any applied`) and decides by `specDecisionDO/PO/FA`; a set keeps its applicable children and takes the first
    deny (deny-overrides), the first permit (permit-overrides) or the first child (first-applicable). -/
theorem c02_set (cx : CondCtx) (interpDflt setDflt : String) (t : PTree) (r : Spec.Res)
    (hok : RulesOk cx (treeRules t)) (hs : Spec.tree cx interpDflt setDflt t = some r) :
    ∃ raw, decideTree cx interpDflt setDflt t = .ok raw ∧ raw.decision = r.decision ∧ isApplicable raw = r.applicable ∧
      (isNode t = true → r.applicable = true → raw.policyId = r.policyId) := by
  obtain ⟨raw, h1, h2, h3, _, h5⟩ := tree_view cx interpDflt setDflt t r hok hs
  exact ⟨raw, h1, h2, h3, h5⟩

/-- a set none of whose rules (at any depth) applies denies and is not applicable -/
theorem c02_set_leaf_applicable (algo : String) (outs : List Outcome) :
    (Spec.leaf algo outs).applicable = outs.any Outcome.applied := rfl

theorem c02_set_combine_none (algo : String) (halgo : Spec.knownAlgo algo = true) (ks : List (PyVal × Spec.Res))
    (h : ∀ k ∈ ks, k.2.applicable = false) :
    (Spec.combine algo ks).decision = "deny" ∧ (Spec.combine algo ks).applicable = false := by
  have hf : ks.filter (·.2.applicable) = [] := by
    rw [List.filter_eq_nil_iff]; intro k hk; simp [h k hk]
  simp only [Spec.knownAlgo, Bool.or_eq_true, beq_iff_eq] at halgo
  rcases halgo with (rfl | rfl) | rfl <;> simp [Spec.combine, hf]

/-- non-vacuity: a nested set in which an inner deny-overrides set is overridden by an outer permit-overrides set -/
example : ∀ o : Oracle,
    let rule (rid eff : String) : PyVal := .dict [("id", .str rid), ("effect", .str eff), ("actions", .list [.str "read"]),
      ("resource", .dict [("type", .str "doc")])]
    let inner : PyVal := .dict [("id", .str "inner"), ("algorithm", .str "deny-overrides"),
      ("policies", .list [.dict [("id", .str "a"), ("rules", .list [rule "p" "permit"])],
                          .dict [("id", .str "b"), ("rules", .list [rule "d" "deny"])]])]
    let outer : PyVal := .dict [("algorithm", .str "permit-overrides"),
      ("policies", .list [inner, .dict [("id", .str "c"), ("rules", .list [rule "q" "permit"])]])]
    let cx : CondCtx := { o, env := .dict [("action", .str "read"), ("resource", .dict [("type", .str "doc")])], checker := none }
    (Spec.tree cx "deny-overrides" "deny-overrides" (treeOf outer)).map (fun r => (r.decision, r.applicable)) = some ("permit", true) := by
  intro o; rfl

end Rbacx.C02
