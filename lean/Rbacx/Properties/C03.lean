import Rbacx.Proofs.Compiled
/-
  C03 — the compiled path = reference semantics on the most specific matching tier.

  Quantifier: every single policy with an explicit algorithm (any mix of '*' and named actions,
  single/list/wildcard/absent/ill-typed resource types, ids, attribute constraints, conditions,
  any rule order, any number of rules), every policy set, every request environment whose action
  is a string (what `Action.name` is typed as), lax and strict mode, every oracle.

  `Spec.c03Reference` is the statement, written independently of the compiler: tiers are read off
  the *declared shape* of each rule (`Spec.tier`), the most specific tier holding a rule whose
  action and resource target match the request is chosen, and the reference evaluator
  (`rulesLoop` + `finalise`, the model of `policy.evaluate`) runs on that tier's rules in
  document order.  The compiled function (`compiledDecide`: action index → `_categorize` →
  first bucket with a target-matching rule → `evaluate`) is proved equal to it on decision, rule
  id, policy id and obligations.  The `reason` of a *non-match* is excluded: the compiled path never
  sees action-mismatching rules, so it reports another mismatch kind than the reference (both are
  mismatch kinds some rule exhibited, which is what C11 asks).
-/
namespace Rbacx.C03
open Rbacx PyVal

theorem lowerField_truthy (v : PyVal) (d d' : String) (h : v.truthy = true) : lowerField v d = lowerField v d' := by
  unfold lowerField por
  simp only [h, if_true]

/-- **the engine's compiled decision equals the reference evaluation of the policy restricted to the most
    specific target tier that contains a rule whose action and resource target match the request, rules kept
    in document order** — decision, deciding rule id and obligations; also when evaluation raises (the same
    exception class comes out of both). -/
theorem c03_compiled_eq_reference (cx : CondCtx) (c : Consts) (policy : PyVal)
    (hsingle : policy.hasKey "policies" = false) (halgo : (policy.get "algorithm").truthy = true)
    (hact : actionOk (cx.env.get "action") = true) :
    (compiledDecide cx c policy).map Raw.proj = (Spec.c03Reference cx policy).map Raw.proj := by
  rw [compiledDecide_single cx c policy hsingle, c03Reference_eq,
    lowerField_truthy _ c.compilerDefault "deny-overrides" halgo]
  cases lowerField (policy.get "algorithm") "deny-overrides" with
  | error e => rfl
  | ok algo =>
    simp only []
    apply finish_congr
    rw [compiledSelected_eq cx _ hact]
    exact rulesLoop_filter cx algo _ (fun r hr => outcome_of_not_action cx r hr) _ _

/-- for a policy set the compiled function *is* the reference evaluation of the set -/
theorem c03_set_delegates (cx : CondCtx) (c : Consts) (policy : PyVal) (hset : policy.hasKey "policies" = true) :
    compiledDecide cx c policy = decideTree cx c.interpDefault c.setDefault (treeOf policy) := by
  unfold compiledDecide
  simp only [hset, if_true]

/-- the reference evaluation itself only looks at the rules whose action and resource target match -/
theorem c03_reference_matching_only (cx : CondCtx) (policy : PyVal) :
    (Spec.c03Reference cx policy).map Raw.proj =
      (match lowerField (policy.get "algorithm") "deny-overrides" with
       | .error e => Except.error e
       | .ok algo =>
         match rulesLoop cx algo {} ((refRestricted cx (rulesOf policy)).filter (Spec.targetMatches cx)) with
         | .error e => .error e
         | .ok s => .ok (finalise algo s)).map Raw.proj := by
  rw [c03Reference_eq]
  cases lowerField (policy.get "algorithm") "deny-overrides" with
  | error e => rfl
  | ok algo =>
    simp only []
    apply finish_congr
    exact (rulesLoop_filter cx algo _ (fun r hr => outcome_of_not_target cx r hr) _ _).symm

/-- **rules whose action or resource target does not match the request never influence the decision: adding or
    removing one, anywhere in the document, leaves it unchanged** (`p` has the extra rule `r0`, `p'` has not). -/
theorem c03_irrelevant_rule (cx : CondCtx) (c : Consts) (p p' : PyVal) (l1 l2 : List PyVal) (r0 : PyVal)
    (hs : p.hasKey "policies" = false) (hs' : p'.hasKey "policies" = false)
    (halg : p.get "algorithm" = p'.get "algorithm") (halgo : (p.get "algorithm").truthy = true)
    (hact : actionOk (cx.env.get "action") = true)
    (hr : rulesOf p = l1 ++ r0 :: l2) (hr' : rulesOf p' = l1 ++ l2) (hirr : Spec.targetMatches cx r0 = false) :
    (compiledDecide cx c p).map Raw.proj = (compiledDecide cx c p').map Raw.proj := by
  rw [c03_compiled_eq_reference cx c p hs halgo hact, c03_compiled_eq_reference cx c p' hs' (halg ▸ halgo) hact,
    c03_reference_matching_only, c03_reference_matching_only, hr, hr', ← halg, refRestricted_insert cx l1 l2 r0 hirr]

/-- the same at the level of `Guard`: whenever the reference evaluation yields a raw decision, the engine returns
    the Decision built from it — same `allowed`, `effect`, obligations, challenge, rule id, policy id -/
theorem c03_guard (o : Oracle) (cfg : GuardCfg) (policy : PyVal) (req : Request) (rawRef : Raw)
    (hsingle : policy.hasKey "policies" = false) (halgo : (policy.get "algorithm").truthy = true)
    (hact : actionOk ((condCtx o cfg req).env.get "action") = true)
    (href : Spec.c03Reference (condCtx o cfg req) policy = .ok rawRef) :
    ∃ d evs, guardEval o cfg policy req = .ok (d, evs) ∧
      (let d' := (finishDecision o cfg req (condCtx o cfg req).env rawRef).1
       d.allowed = d'.allowed ∧ d.effect = d'.effect ∧ d.obligations = d'.obligations ∧ d.challenge = d'.challenge ∧
         d.ruleId = d'.ruleId ∧ d.policyId = d'.policyId) := by
  have h := c03_compiled_eq_reference (condCtx o cfg req) cfg.consts policy hsingle halgo hact
  rw [href] at h
  cases hc : compiledDecide (condCtx o cfg req) cfg.consts policy with
  | error e => rw [hc] at h; simp [Except.map] at h
  | ok raw =>
    rw [hc] at h
    simp only [Except.map] at h
    injection h with h
    refine ⟨(finishDecision o cfg req (condCtx o cfg req).env raw).1, (finishDecision o cfg req (condCtx o cfg req).env raw).2, ?_, ?_⟩
    · simp only [guardEval, guardDecide, hc]
    · exact finishDecision_proj o cfg req _ raw rawRef h

/-- the engine puts the request's action name into the env unchanged -/
theorem env_action (o : Oracle) (cfg : GuardCfg) (req : Request) : (condCtx o cfg req).env.get "action" = req.action := by
  unfold condCtx buildEnv
  cases cfg.strict <;> rfl

/-! ### non-vacuity: an id-specific deny beats a type-level permit; a rule aimed at another id does not shadow it -/

private def rule (rid eff : String) (res : List (String × PyVal)) : PyVal :=
  .dict [("id", .str rid), ("effect", .str eff), ("actions", .list [.str "read"]), ("resource", .dict res)]

private def pol : PyVal :=
  .dict [("algorithm", .str "permit-overrides"),
         ("rules", .list [rule "generic" "permit" [("type", .str "doc")],
                          rule "other" "deny" [("type", .str "doc"), ("id", .str "2")],
                          rule "mine" "deny" [("type", .str "doc"), ("id", .str "1")]])]

private def envFor (rid : String) : PyVal :=
  .dict [("action", .str "read"), ("resource", .dict [("type", .str "doc"), ("id", .str rid), ("attrs", .dict [])])]

example (o : Oracle) (c : Consts) :
    ((compiledDecide { o, env := envFor "1", checker := none } c pol).map Raw.proj,
     (compiledDecide { o, env := envFor "3", checker := none } c pol).map Raw.proj) =
    (.ok ("deny", .str "mine", .str "mine", .none, []), .ok ("permit", .str "generic", .str "generic", .none, [])) := by
  rfl

example (o : Oracle) : pol.hasKey "policies" = false ∧ (pol.get "algorithm").truthy = true ∧
    actionOk (({ o, env := envFor "1", checker := none } : CondCtx).env.get "action") = true := by
  refine ⟨rfl, rfl, rfl⟩

end Rbacx.C03
