import Rbacx.Spec.Operators
import Rbacx.Proofs.EvaluateSpec
/-
  C04 — condition operators have their documented meaning and never coerce types.

  Quantifier: every operator, every pair of operand tokens (literals or attribute references),
  every environment (JSON values + datetimes), every oracle, lax and strict.
-/
namespace Rbacx.C04
open Rbacx Rbacx.Spec

/-- case split on a value, including the awareness flag of datetimes -/
macro "cases_val " x:ident : tactic =>
  `(tactic| rcases $x:ident with _ | _ | _ | _ | _ | _ | _ | ⟨(_ | _), _⟩)

theorem parseDt_kind (o : Oracle) (strict : Bool) (x : PyVal) (m : Int) (h : parseDt o strict x = .ok m) :
    (kindOf x).isTime strict = true := by
  unfold parseDt at h
  cases strict <;> cases_val x <;> simp_all [kindOf, Kind.isTime]

theorem numericPair_kind (x y : PyVal) (p : Float × Float) (h : numericPair x y = .ok p) :
    (kindOf x).isNum = true ∧ (kindOf y).isNum = true := by
  unfold numericPair at h
  cases x <;> cases y <;> simp_all [kindOf, Kind.isNum, PyVal.isBool, PyVal.isNumber]

/-- ordering operators compare numbers only: booleans, strings, null, lists, objects, datetimes are a
    type mismatch, never coerced -/
theorem c04_order_numbers_only (cx : CondCtx) (op : BinOp) (hop : op = .gt ∨ op = .lt ∨ op = .ge ∨ op = .le)
    (a b : PyVal) (r : Bool) (h : evalBin cx op (.list [a, b]) = .ok r) :
    (kindOf (resolve cx.o a cx.env)).isNum = true ∧ (kindOf (resolve cx.o b cx.env)).isNum = true := by
  simp only [evalBin, unpack2, bind, Except.bind, pure, Except.pure] at h
  rcases hop with rfl | rfl | rfl | rfl <;> simp only at h <;>
    (cases hp : numericPair (resolve cx.o a cx.env) (resolve cx.o b cx.env) with
     | error e => simp [hp] at h
     | ok p => exact numericPair_kind _ _ p hp)

/-- time operators read instants only from datetimes, epoch numbers and ISO strings; in strict mode from
    timezone-aware datetimes only -/
theorem c04_time_operands (cx : CondCtx) (op : BinOp) (hop : op = .before ∨ op = .after)
    (a b : PyVal) (r : Bool) (h : evalBin cx op (.list [a, b]) = .ok r) :
    (kindOf (resolve cx.o a cx.env)).isTime cx.strict = true ∧
    (kindOf (resolve cx.o b cx.env)).isTime cx.strict = true := by
  simp only [evalBin, unpack2, bind, Except.bind, pure, Except.pure] at h
  rcases hop with rfl | rfl <;> simp only at h <;>
    (cases h1 : parseDt cx.o cx.strict (resolve cx.o a cx.env) with
     | error e => simp [h1] at h
     | ok m1 =>
       cases h2 : parseDt cx.o cx.strict (resolve cx.o b cx.env) with
       | error e => simp [h1, h2] at h
       | ok m2 => exact ⟨parseDt_kind _ _ _ _ h1, parseDt_kind _ _ _ _ h2⟩)

theorem c04_strict_time (cx : CondCtx) (op : BinOp) (hop : op = .before ∨ op = .after) (hs : cx.strict = true)
    (a b : PyVal) (r : Bool) (h : evalBin cx op (.list [a, b]) = .ok r) :
    kindOf (resolve cx.o a cx.env) = .dtAware ∧ kindOf (resolve cx.o b cx.env) = .dtAware := by
  have := c04_time_operands cx op hop a b r h
  rw [hs] at this
  constructor
  · generalize kindOf (resolve cx.o a cx.env) = k at this; cases k <;> simp_all [Kind.isTime]
  · generalize kindOf (resolve cx.o b cx.env) = k at this; cases k <;> simp_all [Kind.isTime]

/-- `between` is inclusive at both ends -/
theorem c04_between_inclusive (cx : CondCtx) (a lo hi : PyVal) (d s e : Int)
    (hd : parseDt cx.o cx.strict (resolve cx.o a cx.env) = .ok d)
    (hs : parseDt cx.o cx.strict (resolve cx.o lo cx.env) = .ok s)
    (he : parseDt cx.o cx.strict (resolve cx.o hi cx.env) = .ok e) :
    evalBin cx .between (.list [a, .list [lo, hi]]) = .ok (decide (s ≤ d) && decide (d ≤ e)) := by
  have hl : resolve cx.o (.list [lo, hi]) cx.env = .list [lo, hi] := by simp [resolve, PyVal.isDict]
  simp [evalBin, unpack2, bind, Except.bind, pure, Except.pure, hd, hs, he, hl]

/-- string operators act on strings only -/
theorem c04_string_ops (cx : CondCtx) (op : BinOp) (hop : op = .startsWith ∨ op = .endsWith)
    (a b : PyVal) (r : Bool) (h : evalBin cx op (.list [a, b]) = .ok r) :
    kindOf (resolve cx.o a cx.env) = .str ∧ kindOf (resolve cx.o b cx.env) = .str := by
  simp only [evalBin, unpack2, bind, Except.bind, pure, Except.pure] at h
  generalize resolve cx.o a cx.env = x at h ⊢
  generalize resolve cx.o b cx.env = y at h ⊢
  rcases hop with rfl | rfl <;> cases x <;> cases y <;> simp_all [kindOf, throw, throwThe, MonadExceptOf.throw]

/-- `hasAll` / `hasAny` act on two collections only -/
theorem c04_collection_ops (cx : CondCtx) (op : BinOp) (hop : op = .hasAll ∨ op = .hasAny)
    (a b : PyVal) (r : Bool) (h : evalBin cx op (.list [a, b]) = .ok r) :
    kindOf (resolve cx.o a cx.env) = .list ∧ kindOf (resolve cx.o b cx.env) = .list := by
  simp only [evalBin, unpack2, bind, Except.bind, pure, Except.pure] at h
  generalize resolve cx.o a cx.env = x at h ⊢
  generalize resolve cx.o b cx.env = y at h ⊢
  rcases hop with rfl | rfl <;> cases x <;> cases y <;> simp_all [kindOf, throw, throwThe, MonadExceptOf.throw]

/-- `contains` / `in`: a collection on the container side, or two strings -/
theorem c04_membership_ops (cx : CondCtx) (a b : PyVal) (r : Bool) :
    (evalBin cx .contains (.list [a, b]) = .ok r →
      accepts cx.strict .contains (kindOf (resolve cx.o a cx.env)) (kindOf (resolve cx.o b cx.env)) = true) ∧
    (evalBin cx .isIn (.list [a, b]) = .ok r →
      accepts cx.strict .isIn (kindOf (resolve cx.o a cx.env)) (kindOf (resolve cx.o b cx.env)) = true) := by
  simp only [evalBin, unpack2, bind, Except.bind, pure, Except.pure]
  generalize resolve cx.o a cx.env = x
  generalize resolve cx.o b cx.env = y
  constructor <;> intro h <;> cases_val x <;> cases_val y <;>
    simp_all [kindOf, accepts, throw, throwThe, MonadExceptOf.throw]

/-- equality never coerces: values of different kinds are unequal, except across the numeric tower
    (bool/int/float), which Python identifies -/
theorem c04_eq_kind_strict (x y : PyVal) (h : PyVal.pyEq x y = true) :
    kindOf x = kindOf y ∨
    ((kindOf x = .bool ∨ kindOf x = .int ∨ kindOf x = .float) ∧ (kindOf y = .bool ∨ kindOf y = .int ∨ kindOf y = .float)) := by
  cases_val x <;> cases_val y <;> simp_all [PyVal.pyEq, kindOf]

/-- and: left to right, `True` iff every sub-condition is `True`; the first non-`True` result (a `False` or a
    type mismatch) is the result and nothing after it is evaluated -/
theorem c04_and_short_circuit (cx : CondCtx) (c : Cond) (cs : List Cond) :
    evalCond cx (.all (some (c :: cs))) =
      (match evalCond cx c with
       | .ok true => evalCond cx (.all (some cs))
       | r => r) := by
  rw [evalCond, evalAll, evalCond]
  rcases evalCond cx c with e | (_ | _) <;> rfl

theorem c04_or_short_circuit (cx : CondCtx) (c : Cond) (cs : List Cond) :
    evalCond cx (.any (some (c :: cs))) =
      (match evalCond cx c with
       | .ok false => evalCond cx (.any (some cs))
       | r => r) := by
  rw [evalCond, evalAny, evalCond]
  rcases evalCond cx c with e | (_ | _) <;> rfl

theorem c04_and_empty (cx : CondCtx) : evalCond cx (.all (some [])) = .ok true := by simp [evalCond, evalAll]
theorem c04_or_empty (cx : CondCtx) : evalCond cx (.any (some [])) = .ok false := by simp [evalCond, evalAny]

theorem c04_not (cx : CondCtx) (c : Cond) (b : Bool) (h : evalCond cx c = .ok b) :
    evalCond cx (.not c) = .ok (!b) := by
  simp [evalCond, h, Except.map]

/-- a type mismatch under `not` stays a type mismatch (it is never turned into a match) -/
theorem c04_not_mismatch (cx : CondCtx) (c : Cond) (e : CondErr) (h : evalCond cx c = .error e) :
    evalCond cx (.not c) = .error e := by
  simp [evalCond, h, Except.map]

/-- attribute references: a step through a missing key or through a non-object yields null, and so does
    every later step -/
theorem c04_resolve_missing_step (cur : PyVal) (seg : String) (h : cur.hasKey seg = false) :
    stepPath cur seg = .none := by
  unfold stepPath PyVal.get
  cases cur <;> simp_all [PyVal.hasKey]

theorem c04_resolve_null_absorbs (segs : List String) : segs.foldl stepPath .none = .none := by
  induction segs with
  | nil => rfl
  | cons s ss ih => simpa [List.foldl, stepPath, PyVal.get] using ih

/-- a type mismatch makes the rule not apply, is local to that rule, and never aborts the loop -/
theorem c04_mismatch_is_local (algo : String) (s : LoopSt) :
    (stepRule algo s .condTypeErr).2 = false ∧
    (stepRule algo s .condTypeErr).1 = { s with reason := "condition_type_mismatch" } := by
  simp [stepRule]

theorem c04_mismatch_not_applicable (cx : CondCtx) (rule : PyVal)
    (hc : condOutcome cx (rule.get "condition") = .ok (some .condTypeErr))
    (ha : matchActions rule (PyVal.por (cx.env.get "action") (.str "")) = true)
    (hr : matchResource cx.o (isStrict cx.env) (PyVal.por (rule.get "resource") (.dict []))
            (PyVal.por (cx.env.get "resource") (.dict [])) = true) :
    ruleOutcome cx rule = .ok .condTypeErr := by
  simp [ruleOutcome, ha, hr, hc]

/-- non-vacuity: a well-typed and an ill-typed comparison -/
example : ∀ (o : Oracle), evalBin { o, env := .dict [], checker := none } .startsWith (.list [.str "abc", .str "ab"]) = .ok true := by
  intro o; rfl
example : ∀ (o : Oracle), evalBin { o, env := .dict [], checker := none } .lt (.list [.str "1", .int 2]) = .error .typeMismatch := by
  intro o; rfl

end Rbacx.C04
