import Rbacx.Properties.C04
/-
  C05 — targets match as documented in lax and strict mode, on every path.

  Quantifier: every rule target, every request resource (values of any JSON kind), every oracle,
  lax and strict, engine / compiled / policy-set path.
-/
namespace Rbacx.C05
open Rbacx Rbacx.Spec

/-! ### actions -/

/-- a rule's actions match iff they list the request's action or `*` -/
theorem c05_actions (rule : PyVal) (acts : List PyVal) (a : String) (h : rule.get "actions" = .list acts) :
    matchActions rule (.str a) = true ↔ (PyVal.str a ∈ acts ∨ PyVal.str "*" ∈ acts) := by
  have key : ∀ s : String, (acts.filterMap PyVal.asStr?).contains s = true ↔ PyVal.str s ∈ acts := by
    intro s
    simp only [List.contains_iff_mem, List.mem_filterMap]
    constructor
    · rintro ⟨v, hv, hs⟩
      cases v <;> simp [PyVal.asStr?] at hs
      subst hs; exact hv
    · intro hm; exact ⟨_, hm, rfl⟩
  simp only [matchActions, h, actionStrings, Bool.or_eq_true, key]

/-! ### the target is the conjunction of the three documented checks -/

theorem c05_match_iff (o : Oracle) (se : Bool) (kv : String × PyVal) (kvs : List (String × PyVal)) (res : PyVal) :
    matchResource o se (.dict (kv :: kvs)) res = true ↔
      typeOk o (effectiveStrict se res) ((PyVal.dict (kv :: kvs)).get "type") (res.get "type") = true ∧
      idOk o (effectiveStrict se res) ((PyVal.dict (kv :: kvs)).get "id") (res.get "id") = true ∧
      attrsOk o (effectiveStrict se res) (attrsOf (.dict (kv :: kvs))) (attrsOf res) = true := by
  simp only [matchResource, Bool.and_eq_true, and_assoc]

/-- an empty target matches everything; a non-object target matches nothing -/
theorem c05_empty_target (o : Oracle) (se : Bool) (res : PyVal) : matchResource o se (.dict []) res = true := rfl

/-! ### type -/

/-- type: absent, or `*` listed, or (strict) the request's type is a string equal to a listed string,
    (lax) its string form is the string form of a listed type -/
theorem c05_type_iff (o : Oracle) (strict : Bool) (rType resType : PyVal) :
    typeOk o strict rType resType = true ↔
      (rType = .none ∨ (∃ x ∈ allowedTypes rType, o.pyStr x = "*") ∨
       (if strict then
          (∃ s, resType = .str s) ∧ (∀ x ∈ allowedTypes rType, ∃ s, x = .str s) ∧
            ∃ x ∈ allowedTypes rType, PyVal.pyEq x resType = true
        else
          resType ≠ .none ∧ ∃ x ∈ allowedTypes rType, o.pyStr x = o.pyStr resType)) := by
  have hnone : ∀ v : PyVal, v.isNone = true ↔ v = .none := by intro v; cases v <;> simp [PyVal.isNone]
  have hstr : ∀ v : PyVal, v.isStr = true ↔ ∃ s, v = .str s := by intro v; cases v <;> simp [PyVal.isStr]
  simp only [typeOk, Bool.or_eq_true, hnone, List.contains_iff_mem, List.mem_map]
  cases strict
  · simp only [Bool.false_eq_true, if_false, Bool.and_eq_true, Bool.not_eq_true', List.contains_iff_mem, List.mem_map]
    have : (resType.isNone = false) ↔ resType ≠ .none := by
      cases resType <;> simp [PyVal.isNone]
    rw [this]
  · simp only [if_true, Bool.and_eq_true, hstr, List.all_eq_true, List.any_eq_true, and_assoc]

/-- strict mode never matches a non-string type value, and never through string forms -/
theorem c05_strict_type_no_coercion (o : Oracle) (rType resType : PyVal)
    (hstar : ¬ ∃ x ∈ allowedTypes rType, o.pyStr x = "*") (hr : rType ≠ .none)
    (h : typeOk o true rType resType = true) :
    ∃ s, resType = .str s ∧ PyVal.str s ∈ allowedTypes rType := by
  rw [c05_type_iff] at h
  rcases h with h | h | h
  · exact absurd h hr
  · exact absurd h hstar
  · simp only [if_true] at h
    obtain ⟨⟨s, hs⟩, _, x, hx, he⟩ := h
    subst hs
    refine ⟨s, rfl, ?_⟩
    cases x <;> simp [PyVal.pyEq] at he
    subst he; exact hx

/-! ### id -/

theorem c05_id_iff (o : Oracle) (strict : Bool) (rId resId : PyVal) :
    idOk o strict rId resId = true ↔
      (rId = .none ∨ (resId ≠ .none ∧ (if strict then PyVal.pyEq resId rId = true else o.pyStr resId = o.pyStr rId))) := by
  have hnone : ∀ v : PyVal, v.isNone = true ↔ v = .none := by intro v; cases v <;> simp [PyVal.isNone]
  have hnn : ∀ v : PyVal, (!v.isNone) = true ↔ v ≠ .none := by intro v; cases v <;> simp [PyVal.isNone]
  simp only [idOk, Bool.or_eq_true, hnone]
  cases strict <;> simp [hnn]

/-- strict: a rule id matches only a request id of the same kind (numeric tower aside): `"1"` never matches `1` -/
theorem c05_strict_id_no_coercion (o : Oracle) (rId resId : PyVal) (hr : rId ≠ .none)
    (h : idOk o true rId resId = true) :
    kindOf resId = kindOf rId ∨
    ((kindOf resId = .bool ∨ kindOf resId = .int ∨ kindOf resId = .float) ∧
     (kindOf rId = .bool ∨ kindOf rId = .int ∨ kindOf rId = .float)) := by
  rw [c05_id_iff] at h
  rcases h with h | ⟨_, h⟩
  · exact absurd h hr
  · exact C04.c04_eq_kind_strict _ _ (by simpa using h)

/-! ### attributes -/

theorem c05_attr_iff (o : Oracle) (strict : Bool) (resAttrs : PyVal) (k : String) (v : PyVal) :
    attrMatches o strict resAttrs k v = true ↔
      (resAttrs.hasKey k = true ∧
       (match v with
        | .list xs =>
          if strict then ∃ x ∈ xs, PyVal.pyEq (resAttrs.get k) x = true
          else ∃ x ∈ xs, o.pyStr x = o.pyStr (resAttrs.get k)
        | _ => if strict then PyVal.pyEq (resAttrs.get k) v = true else o.pyStr (resAttrs.get k) = o.pyStr v)) := by
  unfold attrMatches
  cases v <;> cases strict <;>
    simp only [Bool.and_eq_true, List.any_eq_true, List.contains_iff_mem, List.mem_map, Bool.false_eq_true,
      if_false, if_true, beq_iff_eq]

/-- every constrained attribute must be present in the request's attributes and match -/
theorem c05_attrs_iff (o : Oracle) (strict : Bool) (kvs : List (String × PyVal)) (resAttrs : PyVal) :
    attrsOk o strict (.dict kvs) resAttrs = true ↔
      ((∃ es, resAttrs = .dict es) ∧ ∀ kv ∈ kvs, attrMatches o strict resAttrs kv.1 kv.2 = true) := by
  have hd : ∀ v : PyVal, v.isDict = true ↔ ∃ es, v = .dict es := by intro v; cases v <;> simp [PyVal.isDict]
  simp only [attrsOk, Bool.and_eq_true, hd, List.all_eq_true]

theorem c05_missing_attr_fails (o : Oracle) (strict : Bool) (resAttrs : PyVal) (k : String) (v : PyVal)
    (h : resAttrs.hasKey k = false) : attrMatches o strict resAttrs k v = false := by
  simp [attrMatches, h]

/-! ### every evaluation path hands the engine's strict flag to the matcher -/

theorem c05_engine_flag (cfg : GuardCfg) (req : Request) : isStrict (buildEnv cfg req) = cfg.strict := by
  unfold isStrict buildEnv
  cases cfg.strict <;> simp [PyVal.get, PyVal.lookup, PyVal.truthy]

/-- reference evaluator (single policies and, through it, set children): a rule past the resource check
    matched under the env's flag -/
theorem c05_path_reference (cx : CondCtx) (rule : PyVal) (out : Outcome) (h : ruleOutcome cx rule = .ok out)
    (hna : out.reason ≠ "action_mismatch") (hnr : out.reason ≠ "resource_mismatch") :
    matchActions rule (PyVal.por (cx.env.get "action") (.str "")) = true ∧
    matchResource cx.o (isStrict cx.env) (PyVal.por (rule.get "resource") (.dict []))
      (PyVal.por (cx.env.get "resource") (.dict [])) = true := by
  unfold ruleOutcome at h
  split at h
  · injection h with h; subst h; simp [Outcome.reason] at hna
  · split at h
    · injection h with h; subst h; simp [Outcome.reason] at hnr
    · rename_i h1 h2
      exact ⟨by simpa using h1, by simpa using h2⟩

/-- compiled path: the tier pre-filter uses the same matcher with the same flag, and the selected rules
    are then evaluated by the reference evaluator (so `c05_path_reference` applies to them) -/
theorem c05_path_compiled (o : Oracle) (strict : Bool) (cands : List PyVal) (rt : Option String) (res : PyVal)
    (r : PyVal) (hsel : r ∈ selectBucket o strict cands rt res) :
    ∃ r' ∈ cands, matchResource o strict (PyVal.por (r'.get "resource") (.dict [])) res = true := by
  simp only [selectBucket] at hsel
  split at hsel
  · rename_i i hi
    have := List.find?_some hi
    simp only [List.any_eq_true] at this
    obtain ⟨r', hr', hm⟩ := this
    exact ⟨r', (List.mem_filter.mp hr').1, hm⟩
  · simp at hsel

/-- non-vacuity: `1` vs `"1"` under lax and strict -/
example : ∀ o : Oracle, idOk o false (.int 1) (.str "1") = true := by
  intro o; simp [idOk, Oracle.pyStr, PyVal.isNone]; decide
example : ∀ o : Oracle, idOk o true (.int 1) (.str "1") = false := by
  intro o; simp [idOk, PyVal.pyEq, PyVal.isNone]

end Rbacx.C05
