import Rbacx.Proofs.Total
import Rbacx.Properties.C01
/-
  C06 — evaluation is total for schema-valid policies and JSON-valued requests.

  Quantifier: every well-formed document (`docWF`: what the bundled schema guarantees — checked
  against the real schema on every run), every request over the value universe (any JSON value,
  huge/non-finite numbers, malformed dates, nulls and wrong types in every slot, datetimes), every
  engine configuration, every oracle; `context._rebac`, when present, an object.
-/
namespace Rbacx.C06
open Rbacx

/-- `context._rebac`, when present, is an object -/
def rebacCtxIsObject (cfg : GuardCfg) (req : Request) : Prop := rebacOk (buildEnv cfg req) = true

/-- evaluation terminates without raising and returns a well-formed decision -/
theorem c06_total (o : Oracle) (cfg : GuardCfg) (policy : PyVal) (req : Request)
    (hwf : docWF policy = true) (hctx : rebacCtxIsObject cfg req) :
    ∃ d evs, guardEval o cfg policy req = .ok (d, evs) ∧
      (d.effect = "permit" ∨ d.effect = "deny") ∧ (d.allowed = true ↔ d.effect = "permit") ∧
      d.reason ∈ documentedReasons := by
  obtain ⟨raw, hr⟩ := guardDecide_ok (condCtx o cfg req) hctx cfg.consts policy hwf
  have hge : guardEval o cfg policy req = .ok (finishDecision o cfg req (condCtx o cfg req).env raw) := by
    simp [guardEval, hr]
  refine ⟨(finishDecision o cfg req (condCtx o cfg req).env raw).1, (finishDecision o cfg req (condCtx o cfg req).env raw).2,
    hge, ?_, ?_, ?_⟩
  · simp only [finishDecision]; exact C01.ite_pd _
  · exact C01.c01_allowed_iff_permit o cfg req _ raw
  · exact finishDecision_reason o cfg req _ raw (guardDecide_reason _ cfg.consts policy raw hr)

/-- ill-typed or out-of-range operands make the affected rule not apply rather than raising:
    a binary operator never fails with anything but a type mismatch -/
theorem c06_operands_never_raise (cx : CondCtx) (op : BinOp) (a b : PyVal) (e : CondErr)
    (h : evalBin cx op (.list [a, b]) = .error e) : e = .typeMismatch := evalBin_err cx op a b e h

/-- … and a type mismatch is the outcome `condTypeErr` of that rule only -/
theorem c06_mismatch_skips_rule (cx : CondCtx) (cond : PyVal) (hn : cond.isNone = false)
    (h : evalCond cx (condOf cond) = .error .typeMismatch) : condOutcome cx cond = .ok (some .condTypeErr) := by
  simp [condOutcome, hn, h]

/-- non-vacuity: a document with a condition and an obligation is well-formed -/
example : docWF (.dict [("algorithm", .str "deny-overrides"),
    ("rules", .list [.dict [("id", .str "r"), ("effect", .str "permit"), ("actions", .list [.str "read"]),
      ("resource", .dict [("type", .str "doc")]),
      ("condition", .dict [("<", .list [.dict [("attr", .str "context.n")], .int 5])])]])]) = true := by decide

end Rbacx.C06
