import Rbacx.Properties.C01
/-
  C07 — permits are gated by their obligations; the built-in checker fails closed.

  Quantifier: every obligation list, every request context (any JSON value under every key),
  every oracle; built-in, custom (any verdict) and raising checkers.
  The checker model `checkObligations` is a total function: the repaired code has no raise site
  left for dict-shaped contexts (DESIGN §6 F6), which the correspondence run re-checks on every cell.
-/
namespace Rbacx.C07
open Rbacx

/-- the verdict is positive iff no obligation targeted at permit is unmet -/
theorem c07_ok_iff_all_met (o : Oracle) (obls : List PyVal) (ctx : PyVal) :
    (checkObligations o "permit" obls ctx).1 = true ↔ ∀ ob ∈ obls, obligationUnmet o "permit" ctx ob = none := by
  unfold checkObligations
  simp only [beq_self_eq_true, if_true]
  cases hf : List.findSome? (obligationUnmet o "permit" ctx) obls with
  | some ch =>
    simp only [Bool.false_eq_true, false_iff]
    intro hall
    obtain ⟨ob, hob, hch⟩ := List.exists_of_findSome?_eq_some hf
    rw [hall ob hob] at hch
    simp at hch
  | none =>
    simp only [true_iff]
    exact fun ob hob => List.findSome?_eq_none_iff.mp hf ob hob

/-- a negative verdict carries the challenge of the *first* unmet obligation in list order -/
theorem c07_first_unmet_challenge (o : Oracle) (obls : List PyVal) (ctx : PyVal) (ch : String)
    (h : checkObligations o "permit" obls ctx = (false, some ch)) :
    ∃ pre ob post, obls = pre ++ ob :: post ∧ (∀ p ∈ pre, obligationUnmet o "permit" ctx p = none) ∧
      obligationUnmet o "permit" ctx ob = some ch := by
  unfold checkObligations at h
  simp only [beq_self_eq_true, if_true] at h
  cases hf : List.findSome? (obligationUnmet o "permit" ctx) obls with
  | none => simp [hf] at h
  | some c =>
    simp only [hf, Prod.mk.injEq, Option.some.injEq, true_and] at h
    subst h
    induction obls with
    | nil => simp at hf
    | cons a as ih =>
      simp only [List.findSome?_cons] at hf
      cases ha : obligationUnmet o "permit" ctx a with
      | some c' =>
        simp only [ha, Option.some.injEq] at hf
        subst hf
        exact ⟨[], a, as, rfl, by simp, ha⟩
      | none =>
        simp only [ha] at hf
        obtain ⟨pre, ob, post, he, hp, hu⟩ := ih hf
        refine ⟨a :: pre, ob, post, by simp [he], ?_, hu⟩
        intro p hp'
        rcases List.mem_cons.mp hp' with h1 | h1
        · subst h1; exact ha
        · exact hp p h1

/-- with no unmet obligation the checker's challenge is empty -/
theorem c07_positive_has_no_challenge (o : Oracle) (obls : List PyVal) (ctx : PyVal)
    (h : (checkObligations o "permit" obls ctx).1 = true) : (checkObligations o "permit" obls ctx).2 = none := by
  unfold checkObligations at h ⊢
  simp only [beq_self_eq_true, if_true] at h ⊢
  cases hf : List.findSome? (obligationUnmet o "permit" ctx) obls <;> simp_all

/-- the engine's gate: a raw permit with an unmet obligation is returned as
    allowed=false, effect deny, reason obligation_failed, with the checker's challenge -/
theorem c07_guard_gate (o : Oracle) (cfg : GuardCfg) (req : Request) (env : PyVal) (raw : Raw) (ch : String)
    (hb : cfg.checker = .builtin) (hp : raw.decision = "permit")
    (hu : checkObligations o "permit" raw.obligations (dictOr (req.context.getD .none)) = (false, some ch)) :
    let d := (finishDecision o cfg req env raw).1
    d.allowed = false ∧ d.effect = "deny" ∧ d.reason = "obligation_failed" ∧ d.challenge = .str ch := by
  simp [finishDecision, hb, hp, hu]

/-- … and a raw permit whose obligations are all met is granted unchanged -/
theorem c07_guard_pass (o : Oracle) (cfg : GuardCfg) (req : Request) (env : PyVal) (raw : Raw)
    (hb : cfg.checker = .builtin) (hp : raw.decision = "permit")
    (hm : ∀ ob ∈ raw.obligations, obligationUnmet o "permit" (dictOr (req.context.getD .none)) ob = none) :
    let d := (finishDecision o cfg req env raw).1
    d.allowed = true ∧ d.effect = "permit" ∧ d.reason = raw.reason := by
  have h1 := (c07_ok_iff_all_met o raw.obligations (dictOr (req.context.getD .none))).mpr hm
  simp [finishDecision, hb, hp, h1]

/-- a negative verdict of a custom checker (sync or async: one core) is honoured the same way -/
theorem c07_custom_negative_honoured (o : Oracle) (cfg : GuardCfg) (req : Request) (env : PyVal) (raw : Raw)
    (ok ch : PyVal) (hc : cfg.checker = .custom (some (ok, ch))) (hp : raw.decision = "permit") (hn : ok.truthy = false) :
    let d := (finishDecision o cfg req env raw).1
    d.allowed = false ∧ d.effect = "deny" ∧ d.reason = "obligation_failed" ∧ d.challenge = ch := by
  simp [finishDecision, hc, hp, hn]

/-- a deny is never turned into a permit by any checker -/
theorem c07_deny_stays_deny (o : Oracle) (cfg : GuardCfg) (req : Request) (env : PyVal) (raw : Raw)
    (hp : raw.decision ≠ "permit") :
    (finishDecision o cfg req env raw).1.allowed = false ∧ (finishDecision o cfg req env raw).1.effect = "deny" := by
  have : (raw.decision == "permit") = false := by simpa using hp
  simp [finishDecision, this]

/-! ### the documented table, one row per obligation type (`ob` targets permit: `on` absent or "permit") -/

section table
variable (o : Oracle) (ctx : PyVal)

/-- obligations targeted at the other effect, with an invalid `on`, or malformed, are ignored -/
theorem c07_other_effect_ignored (ob : PyVal) (h : PyVal.pyEq (PyVal.por (ob.get "on") (.str "permit")) (.str "permit") = false) :
    obligationUnmet o "permit" ctx ob = none := by
  unfold obligationUnmet
  split
  · rfl
  · simp [h]

def plain (typ : String) (attrs : List (String × PyVal)) : PyVal :=
  .dict [("type", .str typ), ("on", .str "permit"), ("attrs", .dict attrs)]

theorem c07_truthy_rows (k typ chal : String)
    (hrow : (typ, k, chal) ∈ [("require_mfa", "mfa", "mfa"), ("require_terms_accept", "tos_accepted", "tos"),
       ("require_captcha", "captcha_passed", "captcha"), ("require_age_verified", "age_verified", "age_verification")]) :
    obligationUnmet o "permit" ctx (.dict [("type", .str typ), ("on", .str "permit")]) =
      (if (ctx.get k).truthy then none else some chal) := by
  simp only [List.mem_cons, Prod.mk.injEq, List.mem_nil_iff, or_false] at hrow
  rcases hrow with ⟨rfl, rfl, rfl⟩ | ⟨rfl, rfl, rfl⟩ | ⟨rfl, rfl, rfl⟩ | ⟨rfl, rfl, rfl⟩ <;>
    simp [obligationUnmet, PyVal.get, PyVal.lookup, PyVal.por, PyVal.truthy, PyVal.pyEq, PyVal.isNone, PyVal.isDict] <;>
    rfl

/-- step-up: unmet unless the context level is a finite number ≥ min; missing, null, NaN/Inf, non-numeric
    strings, lists, objects are unmet -/
theorem c07_level_row (min : PyVal) :
    obligationUnmet o "permit" ctx (plain "require_level" [("min", min)]) =
      (match finiteNumber o (ctx.get "auth_level") with
       | some cur => if cur < numberOrZero o min then some "step_up" else none
       | none => some "step_up") := by
  simp [obligationUnmet, plain, PyVal.get, PyVal.lookup, PyVal.por, PyVal.truthy, PyVal.pyEq, PyVal.isNone,
    PyVal.isDict, getOrZero, PyVal.hasKey]
  rfl

theorem c07_level_illtyped (min : PyVal) (h : finiteNumber o (ctx.get "auth_level") = none) :
    obligationUnmet o "permit" ctx (plain "require_level" [("min", min)]) = some "step_up" := by
  rw [c07_level_row, h]

theorem c07_reauth_row (maxAge : PyVal) :
    obligationUnmet o "permit" ctx (plain "require_reauth" [("max_age", maxAge)]) =
      (match finiteNumber o (ctx.get "reauth_age_seconds") with
       | some age => if age > numberOrZero o maxAge then some "reauth" else none
       | none => some "reauth") := by
  simp [obligationUnmet, plain, PyVal.get, PyVal.lookup, PyVal.por, PyVal.truthy, PyVal.pyEq, PyVal.isNone,
    PyVal.isDict, getOrZero, PyVal.hasKey]
  rfl

/-- missing / null / list / object / datetime values are not numbers -/
theorem c07_not_a_number (v : PyVal) (h : v = .none ∨ (∃ xs, v = .list xs) ∨ (∃ kvs, v = .dict kvs) ∨ (∃ a m, v = .dt a m)) :
    finiteNumber o v = none := by
  rcases h with rfl | ⟨xs, rfl⟩ | ⟨kvs, rfl⟩ | ⟨a, m, rfl⟩ <;> rfl

/-- an explicit HTTP challenge is always unmet -/
theorem c07_http_row (attrs : List (String × PyVal)) :
    obligationUnmet o "permit" ctx (plain "http_challenge" attrs) = some (httpChallenge o (.dict attrs)) := by
  simp [obligationUnmet, plain, PyVal.get, PyVal.lookup, PyVal.por, PyVal.truthy, PyVal.pyEq, PyVal.isNone, PyVal.isDict]
  cases attrs <;> rfl

/-- keyed consent needs a mapping with a truthy entry under the key -/
theorem c07_consent_keyed_row (k : String) :
    obligationUnmet o "permit" ctx (plain "require_consent" [("key", .str k)]) =
      (match ctx.get "consent" with
       | .dict kvs => if ((PyVal.dict kvs).get k).truthy then none else some "consent"
       | _ => some "consent") := by
  unfold obligationUnmet plain
  generalize hc : ctx.get "consent" = c
  have hget : ∀ key : String, (PyVal.dict [("type", .str "require_consent"), ("on", .str "permit"),
      ("attrs", .dict [("key", .str k)])]).get key =
        ((PyVal.lookup key [("type", PyVal.str "require_consent"), ("on", .str "permit"),
      ("attrs", .dict [("key", .str k)])]).getD .none) := fun _ => rfl
  simp only [hget, PyVal.lookup]
  simp [PyVal.por, PyVal.truthy, PyVal.pyEq, PyVal.isNone, PyVal.isDict, PyVal.get, PyVal.lookup, hc]
  cases c <;> simp

/-- unknown obligation types are advice -/
theorem c07_unknown_type_ignored (typ : String)
    (h : typ ∉ ["require_mfa", "require_level", "http_challenge", "require_consent", "require_terms_accept",
                "require_captcha", "require_reauth", "require_age_verified"]) :
    obligationUnmet o "permit" ctx (.dict [("type", .str typ), ("on", .str "permit")]) = none := by
  simp only [List.mem_cons, List.mem_nil_iff, or_false, not_or] at h
  obtain ⟨h1, h2, h3, h4, h5, h6, h7, h8⟩ := h
  simp [obligationUnmet, PyVal.get, PyVal.lookup, PyVal.por, PyVal.truthy, PyVal.pyEq, PyVal.isNone, PyVal.isDict]
  split <;> simp_all

end table

end Rbacx.C07
