import Rbacx.Model.CacheHistory
import Rbacx.Properties.C07
import Rbacx.Properties.C15
/-
  C08 — the decision cache is transparent over every history.

  Quantifier: every finite sequence of evaluations (any request), policy replacements, manual
  clears and clock values, on any number of engines sharing ONE cache instance (different policies,
  different type modes — the mode is part of the environment), for EVERY cache implementation that
  is honest (a hit was stored under that key), whatever it evicts or expires.
  Named assumption `KeyFaithful`: equal cache keys ⇒ equal raw decisions (implied by injectivity of
  sha3-256 over the sorted policy JSON and of the canonical JSON of a JSON-valued env; probed by the
  harness on near-duplicate pools on every run).  The serialiser half is no longer assumed: see
  `Properties/C08Key.lean` (`c08_canon_json_injective`, `c08_key_injective`, and `c08_key_faithful`, which derives
  `KeyFaithful` from the remaining, explicitly listed `KeyAssumptions`).
-/
namespace Rbacx.C08
open Rbacx.CacheHist

variable {P E R D : Type}

/-- equal cache keys ⇒ equal raw decisions -/
def KeyFaithful (w : World P E R D) : Prop :=
  ∀ p e p' e', w.cacheKey p e = w.cacheKey p' e' → w.decide p e = w.decide p' e'

/-- what the cache holds for a stored decision finishes exactly like the decision itself, for every
    environment with the same key (aliasing: the engine mutates `raw["reason"]` after storing it) -/
def PostHarmless (w : World P E R D) : Prop :=
  ∀ p e p' e', w.cacheKey p e = w.cacheKey p' e' → w.finish (w.post (w.decide p e) e) e' = w.finish (w.decide p' e') e'

/-- invariant: every value ever stored is the (post-processed) decision of some policy/env with that key -/
def Stored (w : World P E R D) (cops : List (COp R)) : Prop :=
  ∀ k v now, COp.set k v now ∈ cops → ∃ p e, k = w.cacheKey p e ∧ v = w.post (w.decide p e) e

theorem crun_snoc (c : CacheLike R) (ops : List (COp R)) (op : COp R) :
    crun c (ops ++ [op]) = cstep c (crun c ops) op := by
  simp [crun, List.foldl_append]

theorem crun_snoc2 (c : CacheLike R) (ops : List (COp R)) (o1 o2 : COp R) :
    crun c (ops ++ [o1, o2]) = cstep c (cstep c (crun c ops) o1) o2 := by
  simp [crun, List.foldl_append]

theorem stored_snoc_other (w : World P E R D) (cops : List (COp R)) (hs : Stored w cops) (o : COp R)
    (ho : ∀ k v n, o ≠ COp.set k v n) : Stored w (cops ++ [o]) := by
  intro k v n hm
  simp only [List.mem_append, List.mem_singleton] at hm
  rcases hm with hm | hm
  · exact hs k v n hm
  · exact absurd hm.symm (ho k v n)

theorem step_decision (w : World P E R D) (c : CacheLike R) (hh : Honest c) (hp : PostHarmless w)
    (s : St P R c) (hc : s.cache = crun c s.cops) (hs : Stored w s.cops) (op : HOp P E) :
    (stepCached w c s op).2 = (stepPlain w s.pols op).2 ∧
    (stepCached w c s op).1.pols = (stepPlain w s.pols op).1 ∧
    (stepCached w c s op).1.cache = crun c (stepCached w c s op).1.cops ∧
    Stored w (stepCached w c s op).1.cops := by
  cases op with
  | eval e env now =>
    rcases hg : c.get s.cache (w.cacheKey (s.pols e) env) now with ⟨r, cs⟩
    have hcs : cs = cstep c (crun c s.cops) (.get (w.cacheKey (s.pols e) env) now) := by
      simp only [cstep, ← hc, hg]
    cases r with
    | some raw =>
      have hstep : stepCached w c s (.eval e env now) =
          ({ s with cache := cs, cops := s.cops ++ [.get (w.cacheKey (s.pols e) env) now] }, some (w.finish raw env)) := by
        simp only [stepCached, hg]
      rw [hstep]
      refine ⟨?_, rfl, ?_, ?_⟩
      · have hget : (c.get (crun c s.cops) (w.cacheKey (s.pols e) env) now).1 = some raw := by rw [← hc, hg]
        obtain ⟨now', hmem⟩ := hh s.cops _ now raw hget
        obtain ⟨p, e0, hk, hv⟩ := hs _ _ _ hmem
        simp only [stepPlain]
        rw [hv, hp p e0 (s.pols e) env hk.symm]
      · simp only [crun_snoc, hcs]
      · exact stored_snoc_other w _ hs _ (by intro k v n h; cases h)
    | none =>
      have hstep : stepCached w c s (.eval e env now) =
          ({ s with cache := c.set cs (w.cacheKey (s.pols e) env) (w.post (w.decide (s.pols e) env) env) now,
                    cops := s.cops ++ [.get (w.cacheKey (s.pols e) env) now,
                                       .set (w.cacheKey (s.pols e) env) (w.post (w.decide (s.pols e) env) env) now] },
           some (w.finish (w.decide (s.pols e) env) env)) := by
        simp only [stepCached, hg]
      rw [hstep]
      refine ⟨rfl, rfl, ?_, ?_⟩
      · simp only [crun_snoc2, hcs, cstep]
      · intro k v n hm
        simp only [List.mem_append, List.mem_cons, List.mem_nil_iff, or_false] at hm
        rcases hm with hm | hm | hm
        · exact hs k v n hm
        · cases hm
        · injection hm with h1 h2 h3
          exact ⟨s.pols e, env, h1, h2⟩
  | setPolicy e p =>
    refine ⟨rfl, rfl, ?_, ?_⟩
    · simp only [stepCached, crun_snoc, cstep, hc]
    · exact stored_snoc_other w _ hs _ (by intro k v n h; cases h)
  | clearCache e =>
    refine ⟨rfl, rfl, ?_, ?_⟩
    · simp only [stepCached, crun_snoc, cstep, hc]
    · exact stored_snoc_other w _ hs _ (by intro k v n h; cases h)

/-- **transparency**: over every history the cached engines return exactly the decisions of uncached engines
    holding the same current policies -/
theorem c08_transparent (w : World P E R D) (c : CacheLike R) (hh : Honest c) (hp : PostHarmless w)
    (ops : List (HOp P E)) :
    ∀ (s : St P R c), s.cache = crun c s.cops → Stored w s.cops → runCached w c s ops = runPlain w s.pols ops := by
  induction ops with
  | nil => intro s _ _; rfl
  | cons op ops ih =>
    intro s hc hs
    obtain ⟨h1, h2, h3, h4⟩ := step_decision w c hh hp s hc hs op
    simp only [runCached, runPlain, h1]
    rw [ih _ h3 h4, h2]

/-- from the initial state (fresh cache) -/
theorem c08_transparent_from_init (w : World P E R D) (c : CacheLike R) (hh : Honest c) (hp : PostHarmless w)
    (pols : Nat → P) (ops : List (HOp P E)) :
    runCached w c { pols := pols, cache := c.init, cops := [] } ops = runPlain w pols ops :=
  c08_transparent w c hh hp ops _ rfl (by intro k v n hm; cases hm)

/-- a copying cache (or any cache when nothing is mutated after storing): `PostHarmless` is `KeyFaithful` -/
theorem post_id_harmless (w : World P E R D) (hid : ∀ r e, w.post r e = r) (hk : KeyFaithful w)
    (hfin : ∀ p e p' e', w.cacheKey p e = w.cacheKey p' e' → w.finish (w.decide p' e') e = w.finish (w.decide p' e') e') :
    PostHarmless w := by
  intro p e p' e' h
  rw [hid, hk p e p' e' h]

/-! ### the engine's own post-store mutation is harmless -/

/-- `raw["reason"] = "obligation_failed"` when the permit was revoked — the only mutation the engine performs on a
    raw decision after `cache.set(key, raw)` -/
def markFlipped (o : Oracle) (cfg : GuardCfg) (req : Request) (env : PyVal) (raw : Raw) : Raw :=
  if (finishDecision o cfg req env raw).1.reason == "obligation_failed" && raw.decision == "permit"
      && !(finishDecision o cfg req env raw).1.allowed
  then { raw with reason := "obligation_failed" } else raw

/-- finishing the mutated object gives the same Decision and the same events as finishing the original
    (so a later hit on the aliased entry is indistinguishable) -/
theorem c08_alias_harmless (o : Oracle) (cfg : GuardCfg) (req : Request) (env : PyVal) (raw : Raw) :
    (finishDecision o cfg req env (markFlipped o cfg req env raw)).1 = (finishDecision o cfg req env raw).1 := by
  unfold markFlipped
  split
  · rename_i h
    simp only [Bool.and_eq_true, beq_iff_eq, Bool.not_eq_true'] at h
    obtain ⟨⟨_, hperm⟩, hna⟩ := h
    simp only [finishDecision, hperm] at hna ⊢
    simp only [beq_self_eq_true, Bool.not_true, Bool.false_eq_true, if_false, Bool.true_and] at hna ⊢
    cases hc : cfg.checker with
    | builtin =>
      simp only [hc] at hna ⊢
      simp only [Raw.rid, hna]
      simp
    | custom a =>
      cases a with
      | none => simp [hc] at hna
      | some v => simp only [hc] at hna ⊢; simp [Raw.rid, hna]
  · rfl

end Rbacx.C08

/-! ### the built-in LRU+TTL cache is an honest cache (bridge to C15) -/

namespace Rbacx.C08
open Rbacx.CacheHist

/-- `DefaultInMemoryCache(maxsize)` used with the engine's fixed `cache_ttl`, as a `CacheLike` -/
def lruCache (R : Type) (cfg : Rbacx.Cache.Cfg) (ttl : Option Int) : CacheLike R where
  St := List (Rbacx.Cache.Entry R)
  init := []
  get := fun d k now =>
    match Rbacx.Cache.step cfg d (.get k now) with
    | (d', .got r) => (r, d')
    | (d', _) => (none, d')
  set := fun d k v now => (Rbacx.Cache.step cfg d (.set k v ttl now now)).1
  clear := fun d => (Rbacx.Cache.step cfg d .clear).1

def toCacheOp {R : Type} (ttl : Option Int) : COp R → Rbacx.Cache.Op R
  | .get k now => .get k now
  | .set k v now => .set k v ttl now now
  | .clear => .clear

theorem lru_run {R : Type} (cfg : Rbacx.Cache.Cfg) (ttl : Option Int) (ops : List (COp R)) :
    crun (lruCache R cfg ttl) ops = Rbacx.Cache.run cfg (ops.map (toCacheOp ttl)) := by
  unfold crun Rbacx.Cache.run
  show List.foldl (cstep (lruCache R cfg ttl)) ([] : List (Rbacx.Cache.Entry R)) ops = _
  generalize ([] : List (Rbacx.Cache.Entry R)) = d0
  induction ops generalizing d0 with
  | nil => rfl
  | cons op ops ih =>
    simp only [List.map_cons, Rbacx.Cache.runFrom]
    refine (ih (cstep (lruCache R cfg ttl) d0 op)).trans ?_
    congr 1
    cases op with
    | get k now =>
      simp only [cstep, lruCache, toCacheOp]
      rcases h : Rbacx.Cache.step cfg d0 (.get k now) with ⟨d', out⟩
      cases out <;> rfl
    | set k v now => rfl
    | clear => rfl

/-- the built-in cache only ever returns what was stored under that key -/
theorem c08_lru_honest {R : Type} (cfg : Rbacx.Cache.Cfg) (ttl : Option Int) : Honest (lruCache R cfg ttl) := by
  intro ops k now v h
  have hrun := lru_run cfg ttl ops
  have hgot : (Rbacx.Cache.step cfg (Rbacx.Cache.run cfg (ops.map (toCacheOp ttl))) (.get k now)).2 = .got (some v) := by
    rw [← hrun]
    simp only [lruCache] at h
    rcases hs : Rbacx.Cache.step cfg (crun (lruCache R cfg ttl) ops) (.get k now) with ⟨d', out⟩
    simp only [lruCache] at hs
    rw [hs] at h
    cases out with
    | got r => simp only at h; rw [h]
    | done => simp at h
    | keyError => simp at h
  obtain ⟨ops1, ttl', n1, n2, ops2, heq, _⟩ := Rbacx.C15.c15_sound_cache cfg _ k now v hgot
  have hmem : Rbacx.Cache.Op.set k v ttl' n1 n2 ∈ ops.map (toCacheOp ttl) := by rw [heq]; simp
  obtain ⟨o, ho, hoe⟩ := List.mem_map.mp hmem
  cases o with
  | get k' n' => simp [toCacheOp] at hoe
  | clear => simp [toCacheOp] at hoe
  | set k' v' n' =>
    simp only [toCacheOp, Rbacx.Cache.Op.set.injEq] at hoe
    obtain ⟨hk, hv, _, hn, _⟩ := hoe
    subst hk; subst hv
    exact ⟨n', ho⟩

/-- transparency for the built-in cache with any capacity, TTL and purge prefix -/
theorem c08_transparent_lru {P E R D : Type} (w : World P E R D) (cfg : Rbacx.Cache.Cfg) (ttl : Option Int)
    (hp : PostHarmless w) (pols : Nat → P) (ops : List (HOp P E)) :
    runCached w (lruCache R cfg ttl) { pols := pols, cache := [], cops := [] } ops = runPlain w pols ops :=
  c08_transparent_from_init w (lruCache R cfg ttl) (c08_lru_honest cfg ttl) hp pols ops

end Rbacx.C08
