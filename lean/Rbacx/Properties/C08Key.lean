import Rbacx.Properties.C08
import Rbacx.Proofs.CanonJson
/-
  C08 (cache key) — the canonical serialiser behind the decision-cache key is injective.

  `Guard._cache_key(env)` is `f"{etag}:{json.dumps(env, sort_keys=True, separators=(",", ":"), default=str,
  ensure_ascii=False)}"`.  `Rbacx.canonJson` (Model/CanonJson.lean) is an executable transcription of that
  `json.dumps` call on float-free, datetime-free values; the harness compares it with the real
  `Guard._normalize_env_for_cache` on thousands of environments on every run (`props/c08.py`, "canon-json").

  Proved here, for every value (any size, any nesting, any unicode content):
    * `c08_canon_json_injective` — equal canonical text ⇒ the values are equal up to the order of dict entries at
      every depth (`≃`, which is Python's `==` on such values); `c08_canon_json_iff` adds the converse;
    * `c08_canon_json_prefix_free` — the canonical text is uniquely parseable (what follows it is determined);
    * `c08_key_injective` — equal cache keys `etag ++ ":" ++ canon env` ⇒ equal etags and `env ≃ env'`;
    * `c08_key_faithful` — the named assumption `KeyFaithful` of `c08_transparent` follows from what is listed in
      `KeyAssumptions` below.

  What REMAINS ASSUMED for `KeyFaithful` (fields of `KeyAssumptions`):
    1. `tagFaithful` — engines holding policies with the same etag decide alike: sha3-256 over the sorted policy JSON
       is collision-free on the policies in play (cryptographic assumption; the policy serialiser is the same
       `json.dumps(sort_keys=True)` family);
    2. `orderBlind` — the raw decision does not depend on the ORDER of dict entries in the environment (the engine
       only reads an env through `dict.get` / `in` / `==`; not proved here for the evaluator model);
    3. `key` — the real key is the model's key: the differential tie above, and the domain: environments are
       JSON-valued, FLOAT-FREE and DATETIME-FREE with string keys (a Python dict has no duplicate keys, so
       `noDupKeys` is not a restriction).  For floats CPython prints `float.__repr__` (shortest round-trip repr,
       injective on non-NaN doubles but `1.0` vs `1` vs `True` stay distinct texts; all NaNs print `NaN`); a datetime
       and its `str()` DO collide (`default=str`, DESIGN §6 F15).  Ints beyond 4300 digits make `json.dumps` raise and
       the engine fall back to `repr(env)`.
-/
namespace Rbacx.C08
open Rbacx Rbacx.CacheHist

/-- **the canonical serialiser is injective** on float-free values without duplicate keys, up to the order of dict
    entries at every depth -/
theorem c08_canon_json_injective (a b : PyVal) (fa : floatFree a = true) (fb : floatFree b = true)
    (na : noDupKeys a = true) (nb : noDupKeys b = true) (h : canonJson a = canonJson b) : a ≃ b :=
  canonJson_injective a b fa fb na nb h

/-- …and it sees nothing but that: equal text ⇔ equal up to the order of dict entries -/
theorem c08_canon_json_iff (a b : PyVal) (fa : floatFree a = true) (fb : floatFree b = true)
    (na : noDupKeys a = true) (nb : noDupKeys b = true) : canonJson a = canonJson b ↔ a ≃ b :=
  canonJson_eq_iff a b fa fb na nb

/-- unique parse: a canonical text followed by anything that cannot extend a number determines both -/
theorem c08_canon_json_prefix_free (a b : PyVal) (r₁ r₂ : List Char)
    (fa : floatFree a = true) (fb : floatFree b = true) (na : noDupKeys a = true) (nb : noDupKeys b = true)
    (h1 : NoDigitHead r₁) (h2 : NoDigitHead r₂) (h : canonChars a ++ r₁ = canonChars b ++ r₂) : a ≃ b ∧ r₁ = r₂ :=
  canonChars_prefix_free a b r₁ r₂ fa fb na nb h1 h2 h

/-- **equal cache keys ⇒ equal etags and equal environments** (up to the order of dict entries), for hex etags -/
theorem c08_key_injective (tag tag' : String) (env env' : PyVal) (ht : isHexTag tag = true) (ht' : isHexTag tag' = true)
    (ne : noDupKeys env = true) (ne' : noDupKeys env' = true) (k : String)
    (h : cacheKeyOf tag env = some k) (h' : cacheKeyOf tag' env' = some k) : tag = tag' ∧ env ≃ env' :=
  cacheKeyOf_injective tag tag' env env' (colon_not_mem_of_isHexTag tag ht) (colon_not_mem_of_isHexTag tag' ht') ne ne' k h h'

/-- environments in the serialiser's proved domain -/
def JsonEnv : Type := { e : PyVal // floatFree e = true ∧ noDupKeys e = true }

/-- what is still assumed about a world whose environments are `JsonEnv`s (see the header) -/
structure KeyAssumptions {P R D : Type} (w : World P JsonEnv R D) (tagOf : P → String) : Prop where
  /-- the world's key is the concrete key function -/
  key : ∀ p e, cacheKeyOf (tagOf p) e.1 = some (w.cacheKey p e)
  /-- etags are hex digests -/
  tagHex : ∀ p, isHexTag (tagOf p) = true
  /-- sha3-256 of the sorted policy JSON: same etag ⇒ same decisions -/
  tagFaithful : ∀ p p' e, tagOf p = tagOf p' → w.decide p e = w.decide p' e
  /-- the decision does not depend on the order of dict entries of the environment -/
  orderBlind : ∀ p e e', e.1 ≃ e'.1 → w.decide p e = w.decide p e'

/-- `KeyFaithful` reduced to `KeyAssumptions`: serialiser injectivity is no longer part of the assumption -/
theorem c08_key_faithful {P R D : Type} (w : World P JsonEnv R D) (tagOf : P → String) (ha : KeyAssumptions w tagOf) :
    KeyFaithful w := by
  intro p e p' e' hk
  have h1 := ha.key p e
  have h2 := ha.key p' e'
  rw [← hk] at h2
  obtain ⟨ht, he⟩ := c08_key_injective _ _ e.1 e'.1 (ha.tagHex p) (ha.tagHex p') e.2.2 e'.2.2 _ h1 h2
  rw [ha.tagFaithful p p' e ht, ha.orderBlind p' e e' he]

/-! ### non-vacuity: the model prints what CPython prints, and the hypotheses are satisfiable -/

/-- `{"b": -12, "a": [None, True, "x\"y\\\n\x01é"], "": {}}` -/
def sampleEnv : PyVal :=
  .dict [("b", .int (-12)), ("a", .list [.none, .bool true, .str "x\"y\\\n\x01é"]), ("", .dict [])]

example : canonJson sampleEnv = some "{\"\":{},\"a\":[null,true,\"x\\\"y\\\\\\n\\u0001é\"],\"b\":-12}".toList := by decide
example : floatFree sampleEnv = true ∧ noDupKeys sampleEnv = true := by decide
/-- key order is invisible, the JSON type of a leaf is not -/
example : PyVal.dict [("a", .int 1), ("b", .dict [("x", .none), ("y", .none)])] ≃
          PyVal.dict [("b", .dict [("y", .none), ("x", .none)]), ("a", .int 1)] := by decide
example : ¬ (PyVal.dict [("a", .int 1)] ≃ PyVal.dict [("a", .str "1")]) := by decide
example : ¬ (PyVal.dict [("a", .int 1)] ≃ PyVal.dict [("a", .bool true)]) := by decide
example : canonJson (.list [.int 1, .str "1", .bool true, .str "True", .none, .str "null"]) =
    some "[1,\"1\",true,\"True\",null,\"null\"]".toList := by decide
example : cacheKeyOf "ab12" (.dict [("k", .int 0)]) = some "ab12:{\"k\":0}" := by decide
example : canonJson (.float 1.0) = none := by decide

end Rbacx.C08
