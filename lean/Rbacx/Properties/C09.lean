import Rbacx.Proofs.ConcFresh
/-
  C09 — policy replacement is coherent under concurrent evaluations.

  Quantifier: ANY number of threads, each executing ANY list of calls (evaluations of any requests,
  `set_policy` with any policies — A→B, A→B→A, …), under EVERY schedule (a schedule is a list of
  thread ids; one step = one shared access; a thread blocked on the lock does not move).
  Assumptions (trusted base): a single attribute load/store and a cache call are atomic; the lock is
  a mutex; `tagOf` (sha3-256 of the sorted policy JSON) is injective.  The order of accesses the model
  runs is the one extracted from the real Guard on every run (`Run/C09_shape.lean`).
-/
namespace Rbacx.C09
open Rbacx.Conc

/-- every state reachable from a consistent initial state, under any schedule -/
def Reach (w : World) (p0 : Pol) (progs : Nat → List Call) (sched : List Nat) : State := run w (init w p0 progs) sched

/-- **an in-flight evaluation can never leave a wrong decision behind in the cache**: every entry stored under
    (tag, request) is the decision of THE policy with that tag on that request -/
theorem c09_cache_consistent (w : World) (hinj : Function.Injective w.tagOf) (p0 : Pol) (progs : Nat → List Call)
    (sched : List Nat) :
    ∀ e ∈ (Reach w p0 progs sched).cache, ∀ p, e.1.1 = w.tagOf p → e.2 = w.decide p e.1.2 := by
  intro e he p hp
  obtain ⟨q, _, hq, hd⟩ := (run_inv w sched _ (init_inv w p0 progs)).cache e he
  have : q = p := hinj (by rw [← hq, hp])
  rw [hd, this]

/-- **every evaluation returns the complete decision of one policy that was installed** (never a mix of two) -/
theorem c09_returns_whole_decision (w : World) (p0 : Pol) (progs : Nat → List Call) (sched : List Nat) (t : Nat) :
    ∀ r ∈ ((Reach w p0 progs sched).threads t).returned, ∃ p ∈ (Reach w p0 progs sched).hist, r.dec = w.decide p r.key :=
  (run_inv w sched _ (init_inv w p0 progs)).rets t

/-- **once the replacement call has returned, every evaluation started afterwards returns the new policy's decision**:
    an evaluation that started when no `set_policy` call was inside its critical section (`startClean`) and during whose
    whole span no `set_policy` step occurred (`lastUpdAtReturn ≤ startClock`) returns the decision of the policy that is
    current when it returns — whatever other evaluations are in flight, whatever was cached before -/
theorem c09_after_return_new (w : World) (hinj : Function.Injective w.tagOf) (p0 : Pol) (progs : Nat → List Call)
    (sched : List Nat) (t : Nat) :
    ∀ r ∈ ((Reach w p0 progs sched).threads t).returned,
      r.startClean = true → r.lastUpdAtReturn ≤ r.startClock → r.dec = w.decide r.polAtReturn r.key :=
  (run_finv w hinj sched _ (init_inv w p0 progs) (init_finv w p0 progs)).2.rets t

/-- outside a replacement the three published fields agree -/
theorem c09_quiescent_consistent (w : World) (p0 : Pol) (progs : Nat → List Call) (sched : List Nat)
    (hq : (Reach w p0 progs sched).dirty = false) :
    (Reach w p0 progs sched).etag = w.tagOf (Reach w p0 progs sched).pol ∧
    (Reach w p0 progs sched).fn = (Reach w p0 progs sched).pol :=
  (run_inv w sched _ (init_inv w p0 progs)).cleanCons hq

/-- mutual exclusion of the critical sections -/
theorem c09_mutex (w : World) (p0 : Pol) (progs : Nat → List Call) (sched : List Nat) (t t' : Nat)
    (h1 : InSec ((Reach w p0 progs sched).threads t).pc = true) (h2 : InSec ((Reach w p0 progs sched).threads t').pc = true) :
    t = t' := by
  have hi := run_inv w sched _ (init_inv w p0 progs)
  have a := hi.owner t h1
  have b := hi.owner t' h2
  rw [a] at b
  injection b

/-! ### the access order of the code before the repair (finding F7) violates the first theorem -/

namespace Legacy

/-- evaluator: tag := etag · cache.get · f := fn · cache.set((tag,key), decide f key); updater: pol · etag · fn · clear;
    no lock, no generation.  State: (pol, etag, fn, cache) and two program counters. -/
structure St where
  etag : Nat
  fn : Nat
  cache : List ((Nat × Nat) × Nat) := []
  ePc : Nat := 0
  eTag : Nat := 0
  eFn : Nat := 0
  uPc : Nat := 0
deriving Repr, DecidableEq

/-- policy ids are their own tags; `decide p k = p` (the decision reveals the policy) -/
def step (newPol : Nat) (s : St) : Bool → St
  | true =>                       -- evaluator
    match s.ePc with
    | 0 => { s with eTag := s.etag, ePc := 1 }
    | 1 => { s with ePc := 2 }                                    -- cache.get: miss
    | 2 => { s with eFn := s.fn, ePc := 3 }
    | 3 => { s with cache := ((s.eTag, 0), s.eFn) :: s.cache, ePc := 4 }
    | _ => s
  | false =>                      -- set_policy(newPol)
    match s.uPc with
    | 0 => { s with uPc := 1 }                                    -- wr pol
    | 1 => { s with etag := newPol, uPc := 2 }
    | 2 => { s with fn := newPol, uPc := 3 }
    | 3 => { s with cache := [], uPc := 4 }
    | _ => s

def run (newPol : Nat) (s : St) (sched : List Bool) : St := sched.foldl (step newPol) s

/-- U:pol, U:etag, E:tag, E:get(miss), E:fn(old), U:fn, U:clear, E:set — the cache ends up holding the OLD
    policy's decision under the NEW tag, after `set_policy` has returned -/
theorem c09_unfixed_counterexample :
    (run 2 { etag := 1, fn := 1 } [false, false, true, true, true, false, false, true]).cache = [((2, 0), 1)] ∧
    (run 2 { etag := 1, fn := 1 } [false, false, true, true, true, false, false, true]).uPc = 4 := by decide

end Legacy

/-- non-vacuity of the main theorems: a concrete run in which an evaluation overlaps a replacement -/
example : ((Reach { tagOf := id, decide := fun p _ => p } 1
    (fun t => if t = 0 then [.eval 0] else if t = 1 then [.setPolicy 2] else [])
    [0, 0, 0, 0, 1, 1, 1, 1, 1, 1, 1, 1, 0, 0, 0, 0, 0, 0, 0]).threads 0).returned.map (·.dec) = [2] := by decide

end Rbacx.C09
