import Rbacx.Proofs.ReloaderConc
import Rbacx.Proofs.ReloaderSources
/-
  C10 — Hot reload is fail-safe, version-tag gated and converges to the source.

  Model: `Rbacx.Reloader` (Model/Reloader.lean: `check`, the four atomic blocks, `Conc`;
  Model/Sources.lean: sources and source-level histories).  Observation-level theorems
  (`check`, `run`) quantify over *arbitrary* answers of `etag()` / `load()` – every value, every
  exception class, any change of the source between the two calls – and therefore cover every
  source, custom or shipped.
-/
namespace Rbacx.C10
open Rbacx.Reloader

/-! ## safety of one check and of histories of non-overlapping checks -/

/-- A check is total and returns a bool for every answer of the source, including every exception
    class raised by `etag()` or by `load()`. -/
theorem c10_never_raises (cfg : Cfg) (force : Bool) (now : Time) (jit : Time → Time) (e : Res EtagObs) (l : Res Doc)
    (s : RState) :
    ∃ b, (check cfg force now jit e l s).2 = .returned b ∧ specNoRaise (check cfg force now jit e l s).2 = true := by
  obtain ⟨b, hb⟩ := check_returns_bool cfg force now jit e l s
  exact ⟨b, hb, by rw [hb]; rfl⟩

/-- A check that returns False (suppressed, tag unchanged, `etag()` raised, `load()` raised) leaves the
    engine's policy and its cache untouched. -/
theorem c10_false_is_inert (cfg : Cfg) (force : Bool) (now : Time) (jit : Time → Time) (e : Res EtagObs) (l : Res Doc)
    (s : RState) (h : (check cfg force now jit e l s).2 = .returned false) :
    (check cfg force now jit e l s).1.enginePolicy = s.enginePolicy ∧
    (check cfg force now jit e l s).1.cacheEpoch = s.cacheEpoch ∧
    specInert s.snap (check cfg force now jit e l s).1.snap (check cfg force now jit e l s).2 = true := by
  rcases check_engine cfg force now jit e l s with ⟨_, hp, hc, _⟩ | ⟨ht, _⟩
  · exact ⟨hp, hc, by rw [h]; simp [specInert, RState.snap, hp, hc]⟩
  · rw [h] at ht; cases ht

/-- The engine's policy changes only in a check that returns True, and then to the very document
    that check's own `load()` returned, together with one cache clear (`specInstalled` is the
    predicate the driver evaluates on the implementation's trace). -/
theorem c10_installed_by_true_check (cfg : Cfg) (force : Bool) (now : Time) (jit : Time → Time) (e : Res EtagObs)
    (l : Res Doc) (s : RState) :
    specInstalled s.snap (check cfg force now jit e l s).1.snap (check cfg force now jit e l s).2
      (loadedBy ⟨now, s⟩ (.check force jit e l)).toList = true := by
  rcases check_engine cfg force now jit e l s with ⟨ho, hp, hc, hl⟩ | ⟨ho, d, _, hl, hp, hc⟩
  · rw [ho, hl]; simp [specInstalled, RState.snap, hp, hc]
  · rw [ho, hl]; simp [specInstalled, RState.snap, hp, hc]

/-- Every reachable active policy is the initial one or a document that a successful `load()` of
    some check of the history returned. -/
theorem c10_policy_is_loaded (cfg : Cfg) (h0 : HState) (evs : List Event) :
    (run cfg h0 evs).rs.enginePolicy = h0.rs.enginePolicy ∨
      ∃ force jit e, Event.check force jit e (.ok (run cfg h0 evs).rs.enginePolicy) ∈ evs := by
  rw [run_policy]
  cases hl : (loadedDocs cfg h0 evs).getLast? with
  | none => left; rfl
  | some d =>
    right
    exact loadedDocs_from_events cfg evs h0 d (List.mem_of_getLast? hl)

/-- Non-overlapping checks: the active policy is the document returned by the most recent successful
    `load()` (the initial policy if no load succeeded yet). -/
theorem c10_sequential_latest (cfg : Cfg) (h0 : HState) (evs : List Event) :
    (run cfg h0 evs).rs.enginePolicy = ((loadedDocs cfg h0 evs).getLast?).getD h0.rs.enginePolicy :=
  run_policy cfg evs h0

/-! ## bounded back-off -/

/-- the PRNG draw is at most 1: `jit b = b · (rN/rD) · u` with `u ≤ 1` -/
def JitOk (rN rD : Int) (jit : Time → Time) : Prop := ∀ b, 0 ≤ b → jit b * rD ≤ rN * b

/-- `window ≤ max(0.2, backoff_max · (1 + jitter_ratio))`, cross-multiplied by the denominator of the ratio -/
def WindowOk (cfg : Cfg) (rN rD : Int) (now until_ : Time) : Prop :=
  (until_ - now) * rD ≤ max (floorUs * rD) (cfg.backoffMax * (rD + rN))

theorem c10_backoff_bounded_step (cfg : Cfg) (hmin : 0 ≤ cfg.backoffMin) (hmax : 0 ≤ cfg.backoffMax)
    (rN rD : Int) (hrD : 0 < rD) (hrN : 0 ≤ rN) (force : Bool) (now : Time) (jit : Time → Time) (hj : JitOk rN rD jit)
    (e : Res EtagObs) (l : Res Doc) (s : RState) :
    (check cfg force now jit e l s).1.suppressUntil = s.suppressUntil ∨
      WindowOk cfg rN rD now (check cfg force now jit e l s).1.suppressUntil := by
  rcases check_window cfg force now jit e l s with h | h
  · left; exact h
  · right
    have hb := nextBackoff_bounds cfg hmin hmax s.backoff
    unfold WindowOk
    rw [h]
    have : now + max floorUs (nextBackoff cfg s.backoff + jit (nextBackoff cfg s.backoff)) - now =
        max floorUs (nextBackoff cfg s.backoff + jit (nextBackoff cfg s.backoff)) := by omega
    rw [this]
    exact window_le _ _ _ _ _ hb.2 hrD hrN (hj _ hb.1)

/-- the predicate the driver evaluates on the implementation's windows holds of the model's -/
theorem c10_spec_backoff (cfg : Cfg) (hmin : 0 ≤ cfg.backoffMin) (hmax : 0 ≤ cfg.backoffMax)
    (rN rD : Int) (hrD : 0 < rD) (hrN : 0 ≤ rN) (force : Bool) (now : Time) (jit : Time → Time) (hj : JitOk rN rD jit)
    (e : Res EtagObs) (l : Res Doc) (s : RState) :
    specBackoff cfg rN rD now s.snap (check cfg force now jit e l s).1.snap = true := by
  rcases c10_backoff_bounded_step cfg hmin hmax rN rD hrD hrN force now jit hj e l s with h | h
  · simp [specBackoff, RState.snap, h]
  · unfold WindowOk at h
    simp only [specBackoff, RState.snap, Bool.or_eq_true, beq_iff_eq]
    right; exact decide_eq_true h

/-- Along every history (the clock never runs backwards) the time for which unforced checks are
    still suppressed never exceeds `max(0.2, backoff_max · (1 + jitter_ratio))`. -/
theorem c10_backoff_bounded (cfg : Cfg) (hmin : 0 ≤ cfg.backoffMin) (hmax : 0 ≤ cfg.backoffMax)
    (rN rD : Int) (hrD : 0 < rD) (hrN : 0 ≤ rN) (evs : List Event)
    (hj : ∀ force jit e l, Event.check force jit e l ∈ evs → JitOk rN rD jit) :
    ∀ h0 : HState, WindowOk cfg rN rD h0.now h0.rs.suppressUntil →
      WindowOk cfg rN rD (run cfg h0 evs).now (run cfg h0 evs).rs.suppressUntil := by
  induction evs with
  | nil => intro h0 h; exact h
  | cons ev evs ih =>
    intro h0 h
    simp only [run]
    apply ih (fun force jit e l hm => hj force jit e l (List.mem_cons_of_mem _ hm))
    cases ev with
    | advance dt =>
      simp only [stepEvent]
      unfold WindowOk at *
      have : (h0.rs.suppressUntil - (h0.now + ↑dt)) * rD ≤ (h0.rs.suppressUntil - h0.now) * rD :=
        Int.mul_le_mul_of_nonneg_right (by omega) (by omega)
      exact Int.le_trans this h
    | check force jit e l =>
      simp only [stepEvent]
      rcases c10_backoff_bounded_step cfg hmin hmax rN rD hrD hrN force h0.now jit
        (hj force jit e l List.mem_cons_self) e l h0.rs with h' | h'
      · rw [h']; exact h
      · exact h'

/-- Forced checks ignore the window: whatever `suppressUntil` is, a forced check calls `load()`, and
    if that succeeds the document is installed and the check returns True. -/
theorem c10_forced_still_loads (cfg : Cfg) (now : Time) (jit : Time → Time) (e : Res EtagObs) (l : Res Doc) (s : RState) :
    (check cfg true now jit e l s).1.loads = s.loads + 1 ∧
    specForced true s.snap (check cfg true now jit e l s).1.snap = true ∧
    (∀ d, l = .ok d → (check cfg true now jit e l s).2 = .returned true ∧
      (check cfg true now jit e l s).1.enginePolicy = d) := by
  have hl := check_loads cfg true now jit e l s
  rw [forced_calls_load] at hl
  refine ⟨by simpa using hl, by simp [specForced, RState.snap, hl], ?_⟩
  intro d hd
  rcases check_engine cfg true now jit e l s with ⟨_, _, _, hn⟩ | ⟨ho, d', hd', _, hp, _⟩
  · simp [loadedBy, forced_calls_load, hd] at hn
  · rw [hd] at hd'; cases hd'; exact ⟨ho, hp⟩

/-- An unforced check inside the window returns False without calling the source. -/
theorem c10_unforced_suppressed (cfg : Cfg) (now : Time) (jit : Time → Time) (e : Res EtagObs) (l : Res Doc) (s : RState)
    (h : now < s.suppressUntil) : check cfg false now jit e l s = (s, .returned false) := by
  simp [check, suppressed, h]

/-! ## overlapping checks: safety under every interleaving

  A check is four atomic blocks (snapshot under the lock / `etag()` / `load()` / publish or
  register-error under the lock).  `crun` runs any number of checks under any schedule of their
  blocks, with arbitrary source answers at each call; `blocks_eq_check` shows that the sequential
  `check` is the special case of one thread running its blocks back to back.  "The most recent
  document" is *not* claimed here (a slower check may publish an older document after a faster one);
  it is claimed for non-overlapping checks only (`c10_sequential_latest`). -/

/-- Under every schedule of any number of overlapping checks the active policy is the initial one
    or a document returned by a successful `load()` of the schedule. -/
theorem c10_conc_policy_is_loaded (cfg : Cfg) (s : RState) (evs : List CEvent) :
    (crun cfg (Conc.init s) evs).rs.enginePolicy = s.enginePolicy ∨
      ∃ i, CEvent.step i (.load (.ok (crun cfg (Conc.init s) evs).rs.enginePolicy)) ∈ evs := by
  have h := (crun_CInv cfg s.enginePolicy evs _ (CInv_init s)).1
  rcases h with h | h
  · left; exact h
  · rcases crun_loaded cfg evs _ _ h with h' | h'
    · simp [Conc.init] at h'
    · right; exact h'

/-- Under every schedule every finished check has returned a bool (no path raises), and it has
    returned True exactly if it executed its publish block. -/
theorem c10_conc_never_raises (cfg : Cfg) (s : RState) (evs : List CEvent) (i : Nat) (out : Out)
    (h : ((crun cfg (Conc.init s) evs).ts i).pc = .done out) :
    out = .returned ((crun cfg (Conc.init s) evs).ts i).touched := by
  have := (crun_CInv cfg s.enginePolicy evs _ (CInv_init s)).2 i
  simpa [TInv, h] using this

/-- Under every schedule: (a) a block changes the engine's policy or clears the cache only if it is a
    publish block, which installs the document this very check loaded and ends the check with True;
    (b) a check that ended with False never executed a publish block. -/
theorem c10_conc_false_is_inert (cfg : Cfg) :
    (∀ (c : Conc) (ev : CEvent),
      ((cstep cfg c ev).rs.enginePolicy = c.rs.enginePolicy ∧ (cstep cfg c ev).rs.cacheEpoch = c.rs.cacheEpoch) ∨
      ∃ i o etag d, ev = .step i o ∧ (c.ts i).pc = .publish etag d ∧ (cstep cfg c ev).rs.enginePolicy = d ∧
        (cstep cfg c ev).rs.cacheEpoch = c.rs.cacheEpoch + 1 ∧ ((cstep cfg c ev).ts i).pc = .done (.returned true) ∧
        ((cstep cfg c ev).ts i).touched = true) ∧
    (∀ (s : RState) (evs : List CEvent) (i : Nat),
      ((crun cfg (Conc.init s) evs).ts i).pc = .done (.returned false) →
        ((crun cfg (Conc.init s) evs).ts i).touched = false) := by
  constructor
  · intro c ev
    cases ev with
    | spawn i force now jit =>
      left
      simp only [cstep]
      split <;> exact ⟨rfl, rfl⟩
    | step i o =>
      rcases stepThread_engine cfg (c.ts i) o c.rs with ⟨h1, h2, _⟩ | ⟨etag, d, hpc, h1, h2, h3, h4⟩
      · left; exact ⟨h1, h2⟩
      · right
        exact ⟨i, o, etag, d, rfl, hpc, h1, h2, by simpa [cstep, upd] using h3, by simpa [cstep, upd] using h4⟩
  · intro s evs i h
    have := c10_conc_never_raises cfg s evs i _ h
    simpa using this.symm

/-! ## convergence -/

/-- **Convergence to an honest source.**  Any history from construction on – source changes that
    only move the version forward, failures, forced and unforced checks, changes in the middle of
    checks – after which the source is stable at (tag `E`, document `D`) and the back-off window is
    over.  With initial loading disabled (and a sync `etag`) the proviso is that the source changed
    after the reloader was created.  Then the first unforced check leaves the engine enforcing `D`
    (a fortiori the second), it keeps enforcing `D` over every further sequence of unforced checks
    and clock advances, and if the source reports a version tag all those later checks return False
    and none of them calls `load()`. -/
theorem c10_converges {σ : Type} {S : Source σ} (H : Honest S) (cfg : Cfg) (initialLoad asyncEtag : Bool)
    (now0 : Time) (p0 : Doc) (σ0 : σ) (hg : H.good σ0)
    (evs0 : List (WEvent σ)) (hev : ∀ ev ∈ evs0, H.EvOk ev) (E : EtagObs) (D : Doc)
    (hst : StableAt S E D (wrun S cfg (winit S cfg initialLoad asyncEtag now0 p0 σ0) evs0).src)
    (hnow : (wrun S cfg (winit S cfg initialLoad asyncEtag now0 p0 σ0) evs0).rs.suppressUntil ≤
      (wrun S cfg (winit S cfg initialLoad asyncEtag now0 p0 σ0) evs0).now)
    (hchg : initialLoad = false → asyncEtag = false →
      H.version σ0 < H.version (wrun S cfg (winit S cfg initialLoad asyncEtag now0 p0 σ0) evs0).src)
    (jit : Time → Time) (quiet : List (WEvent σ)) (hq : Quiet quiet) :
    let w := wrun S cfg (winit S cfg initialLoad asyncEtag now0 p0 σ0) evs0
    let w1 := (wcheck S cfg false jit id w).1
    let w2 := wrun S cfg w1 quiet
    w1.rs.enginePolicy = D ∧ w2.rs.enginePolicy = D ∧
      ∀ t, E = .tag t → (∀ o ∈ woutputs S cfg w1 quiet, o = .returned false) ∧ w2.rs.loads = w1.rs.loads := by
  intro w w1 w2
  have hcoh : Coh H (primedAt H initialLoad asyncEtag σ0) w :=
    coh_wrun H cfg _ evs0 _ hev (coh_init H cfg initialLoad asyncEtag now0 p0 σ0 hg)
  have hprov : ∀ v, primedAt H initialLoad asyncEtag σ0 = some v → v < H.version w.src := by
    intro v hv
    unfold primedAt at hv
    cases initialLoad <;> cases asyncEtag <;> simp at hv
    subst hv
    exact hchg rfl rfl
  have h1 : Converged S E D w1 := converge_first H cfg _ jit w E D hcoh hst hnow hprov
  obtain ⟨h2, h3⟩ := converged_run cfg E D quiet hq w1 h1
  exact ⟨h1.1, h2.1, h3⟩

/-- **At most two checks** when the source settles *during* the first one: the first unforced check
    still gets an older answer from `etag()` (any answer that is not an exception), the source changes
    for the last time before that check's `load()`, and is stable from then on.  After the second
    unforced check the engine enforces `D`, and the quiescence clause holds from there. -/
theorem c10_converges_midcheck {σ : Type} {S : Source σ} (H : Honest S) (cfg : Cfg) (initialLoad asyncEtag : Bool)
    (now0 : Time) (p0 : Doc) (σ0 : σ) (hg : H.good σ0)
    (evs0 : List (WEvent σ)) (hev : ∀ ev ∈ evs0, H.EvOk ev) (E : EtagObs) (D : Doc)
    (mid : σ → σ) (hmid : H.EnvOk mid) (o : EtagObs)
    (hetag : (S.etag (wrun S cfg (winit S cfg initialLoad asyncEtag now0 p0 σ0) evs0).src).1 = .ok o)
    (hst : StableAt S E D (mid (S.etag (wrun S cfg (winit S cfg initialLoad asyncEtag now0 p0 σ0) evs0).src).2))
    (hnow : (wrun S cfg (winit S cfg initialLoad asyncEtag now0 p0 σ0) evs0).rs.suppressUntil ≤
      (wrun S cfg (winit S cfg initialLoad asyncEtag now0 p0 σ0) evs0).now)
    (hchg : initialLoad = false → asyncEtag = false →
      H.version σ0 < H.version (mid (S.etag (wrun S cfg (winit S cfg initialLoad asyncEtag now0 p0 σ0) evs0).src).2))
    (jit₁ jit₂ : Time → Time) (quiet : List (WEvent σ)) (hq : Quiet quiet) :
    let w := wrun S cfg (winit S cfg initialLoad asyncEtag now0 p0 σ0) evs0
    let w1 := (wcheck S cfg false jit₁ mid w).1
    let w2 := (wcheck S cfg false jit₂ id w1).1
    let w3 := wrun S cfg w2 quiet
    w2.rs.enginePolicy = D ∧ w3.rs.enginePolicy = D ∧
      ∀ t, E = .tag t → (∀ o ∈ woutputs S cfg w2 quiet, o = .returned false) ∧ w3.rs.loads = w2.rs.loads := by
  intro w w1 w2 w3
  have hcoh : Coh H (primedAt H initialLoad asyncEtag σ0) w :=
    coh_wrun H cfg _ evs0 _ hev (coh_init H cfg initialLoad asyncEtag now0 p0 σ0 hg)
  have hcoh1 : Coh H (primedAt H initialLoad asyncEtag σ0) w1 := coh_wcheck H cfg _ false jit₁ mid hmid w hcoh
  obtain ⟨hst1, hsu1, hnow1, hver1⟩ := wcheck_mid H cfg jit₁ mid w E D o hcoh.1 hmid hetag hst hnow
  have hprov : ∀ v, primedAt H initialLoad asyncEtag σ0 = some v → v < H.version w1.src := by
    intro v hv
    unfold primedAt at hv
    cases initialLoad <;> cases asyncEtag <;> simp at hv
    subst hv
    show H.version σ0 < H.version (wcheck S cfg false jit₁ mid w).1.src
    rw [hver1]
    exact hchg rfl rfl
  have hnow' : w1.rs.suppressUntil ≤ w1.now := by
    show (wcheck S cfg false jit₁ mid w).1.rs.suppressUntil ≤ (wcheck S cfg false jit₁ mid w).1.now
    rw [hsu1, hnow1]; exact hnow
  have h2 : Converged S E D w2 := converge_first H cfg _ jit₂ w1 E D hcoh1 hst1 hnow' hprov
  obtain ⟨h3, h4⟩ := converged_run cfg E D quiet hq w2 h2
  exact ⟨h2.1, h3.1, h4⟩

/-- The shipped sources the convergence theorems apply to (`ver`/`doc` name the contents that ever
    exist; see Proofs/ReloaderSources.lean for the `good` predicates, the admissible changes
    `*_write_ok`/`*_other_ok`/`file_touch_ok`, and the `*_stable` lemmas that discharge `StableAt`):
    the file source (under the property's proviso on (size, mtime), in `fileGood`), the S3 source with
    each detector and all its fall-backs, the scripted custom source in every tag mode. -/
def c10_honest_sources (ver : Tag → Nat) (doc : Nat → Doc) :
    Honest fileSource × Honest s3Source × Honest customSource :=
  (fileHonest ver doc, s3Honest ver doc, customHonest ver doc)

/-- **HTTP, partial.**  `HTTPPolicySource` is honest – and `c10_converges` / `c10_converges_midcheck`
    apply – (1) against servers that send no ETag, whichever way `etag()` is implemented (every
    check then loads, unconditionally), and (2) for the variant `tagIsRemote = true` (`etag()` asks
    the server) against servers that send ETags and serve parseable bodies.  For the code as it is
    (`tagIsRemote = false`) with a server that sends ETags the clause is false:
    `c10_http_cached_tag_counterexample`.

    Full statement (not provable for today's code): the same conclusion for every `Honest httpSource`
    whose `good` admits `tagIsRemote = false ∧ serverEtags = true`.  What is missing is `etag_honest`:
    the tag `etag()` reports is the one cached by the last `load()`, not the one of the server's
    current document – and with it the statement itself fails (`c10_http_cached_tag_counterexample`). -/
theorem c10_converges_http_partial (ver : Tag → Nat) (doc : Nat → Doc) (H : Honest httpSource)
    (hH : H = httpPlainHonest ver doc ∨ H = httpRemoteHonest ver doc)
    (cfg : Cfg) (initialLoad : Bool) (now0 : Time) (p0 : Doc) (σ0 : HttpW) (hg : H.good σ0)
    (evs0 : List (WEvent HttpW)) (hev : ∀ ev ∈ evs0, H.EvOk ev) (E : EtagObs) (D : Doc)
    (hst : StableAt httpSource E D (wrun httpSource cfg (winit httpSource cfg initialLoad false now0 p0 σ0) evs0).src)
    (hnow : (wrun httpSource cfg (winit httpSource cfg initialLoad false now0 p0 σ0) evs0).rs.suppressUntil ≤
      (wrun httpSource cfg (winit httpSource cfg initialLoad false now0 p0 σ0) evs0).now)
    (hchg : initialLoad = false →
      H.version σ0 < H.version (wrun httpSource cfg (winit httpSource cfg initialLoad false now0 p0 σ0) evs0).src)
    (jit : Time → Time) (quiet : List (WEvent HttpW)) (hq : Quiet quiet) :
    let w := wrun httpSource cfg (winit httpSource cfg initialLoad false now0 p0 σ0) evs0
    let w1 := (wcheck httpSource cfg false jit id w).1
    let w2 := wrun httpSource cfg w1 quiet
    w1.rs.enginePolicy = D ∧ w2.rs.enginePolicy = D ∧
      ∀ t, E = .tag t → (∀ o ∈ woutputs httpSource cfg w1 quiet, o = .returned false) ∧ w2.rs.loads = w1.rs.loads := by
  have _ := hH
  exact c10_converges H cfg initialLoad false now0 p0 σ0 hg evs0 hev E D hst hnow (fun h _ => hchg h) jit quiet hq

/-! ### the HTTP counterexample (F9) -/

def blob1 : Blob :=
  { serial := 1, doc := "d1", valid := true, sha := "sha1", size := 10, etag := some "e1", vid := none, cks := [] }
def blob2 : Blob :=
  { serial := 2, doc := "d2", valid := true, sha := "sha2", size := 10, etag := some "e2", vid := none, cks := [] }

/-- a server that sends ETags and currently serves document `d1` -/
def httpW0 (remote : Bool) : HttpW :=
  { server := some blob1, serverEtags := true, failNext := none, cachedTag := none, cachedDoc := none,
    tagIsRemote := remote, hi := 1 }

def cfg0 : Cfg := { backoffMin := 500000, backoffMax := 2000000 }
def noJit : Time → Time := fun _ => 0

/-- two polls, then the document changes on the server, then (after a long pause) three more polls -/
def f9History : List (WEvent HttpW) :=
  [.check false noJit id, .check false noJit id, .env (fun w => w.apply (.write blob2 0)), .advance 64000000,
   .check false noJit id, .check false noJit id, .check false noJit id]

/-- from the state F9 leads to, no unforced check ever changes anything -/
theorem http_cached_stuck (cfg : Cfg) (t : Tag) (evs : List (WEvent HttpW)) (hq : Quiet evs) :
    ∀ w : WState HttpW, w.src.tagIsRemote = false → w.src.cachedTag = some t → w.rs.lastEtag = some t →
      w.rs.suppressUntil ≤ w.now →
      (wrun httpSource cfg w evs).rs.enginePolicy = w.rs.enginePolicy ∧
      (wrun httpSource cfg w evs).rs.loads = w.rs.loads ∧ (wrun httpSource cfg w evs).src = w.src := by
  induction evs with
  | nil => intro w _ _ _ _; exact ⟨rfl, rfl, rfl⟩
  | cons ev evs ih =>
    intro w h1 h2 h3 h4
    have hq' : Quiet evs := fun e he => hq e (List.mem_cons_of_mem _ he)
    rcases hq ev List.mem_cons_self with ⟨dt, rfl⟩ | ⟨jit, rfl⟩
    · have := ih hq' (wstep httpSource cfg w (.advance dt)).1 h1 h2 h3 (by simp only [wstep]; omega)
      simpa [wrun, wstep] using this
    · have hstep : (wstep httpSource cfg w (.check false jit id)).1 =
          { w with rs := { w.rs with etagCalls := w.rs.etagCalls + 1 } } := by
        simp [wstep, wcheck, unsuppressed_of_le _ _ h4, httpSource, httpEtag, h1, h2, afterEtag, h3, EtagObs.toOpt]
      have := ih hq' (wstep httpSource cfg w (.check false jit id)).1 (by rw [hstep]; exact h1)
        (by rw [hstep]; exact h2) (by rw [hstep]; exact h3) (by rw [hstep]; exact h4)
      rw [hstep] at this
      simpa [wrun, hstep] using this

/-- **F9, the code as it is** (`tagIsRemote = false`): with a server that sends ETags, after two polls
    the document changes on the server (`d1` → `d2`, new ETag) and stays; the back-off window is over;
    yet the engine keeps enforcing `d1` after three more unforced checks *and after every further
    sequence of unforced checks and clock advances*, none of which calls `load()` again. -/
theorem c10_http_cached_tag_counterexample :
    let w := wrun httpSource cfg0 (winit httpSource cfg0 true false 0 "init" (httpW0 false)) f9History
    w.src.server = some blob2 ∧ w.rs.suppressUntil ≤ w.now ∧ w.rs.enginePolicy = "d1" ∧
    ∀ quiet, Quiet quiet →
      (wrun httpSource cfg0 w quiet).rs.enginePolicy = "d1" ∧ (wrun httpSource cfg0 w quiet).rs.loads = w.rs.loads := by
  intro w
  have hs : w.src.server = some blob2 := by decide
  have hsu : w.rs.suppressUntil ≤ w.now := by decide
  have hp : w.rs.enginePolicy = "d1" := by decide
  refine ⟨hs, hsu, hp, fun quiet hq => ?_⟩
  have := http_cached_stuck cfg0 "e1" quiet hq w (by decide) (by decide) (by decide) hsu
  exact ⟨by rw [this.1, hp], this.2.1⟩

/-- the same history under the repaired variant (`etag()` asks the server) converges at the first
    check after the change -/
theorem c10_http_remote_tag_converges :
    (wrun httpSource cfg0 (winit httpSource cfg0 true false 0 "init" (httpW0 true)) f9History).rs.enginePolicy = "d2" := by
  decide

/-! ## non-vacuity -/

/-- a history exercising failure, back-off, a forced check inside the window, suppression and reload -/
def demoHistory : List Event :=
  [.check false noJit (.ok (.tag "t1")) (.ok "d1"),                       -- loads d1
   .check false noJit (.ok (.tag "t1")) (.ok "dX"),                       -- tag unchanged: False
   .check false noJit (.ok (.tag "t2")) (.raise .jsonDecode),             -- invalid: failure, back-off
   .check false noJit (.ok (.tag "t3")) (.ok "d3"),                       -- suppressed: False, no load
   .check true noJit (.raise (.other "RuntimeError")) (.ok "d3"),         -- forced: loads although suppressed
   .advance 5000000,
   .check false noJit (.ok (.tag "t4")) (.ok "d4")]                       -- after the window: loads d4

example : outputs cfg0 ⟨0, init cfg0 .skipped "init"⟩ demoHistory =
    [.returned true, .returned false, .returned false, .returned false, .returned true, .returned true] := by decide

example : loadedDocs cfg0 ⟨0, init cfg0 .skipped "init"⟩ demoHistory = ["d1", "d3", "d4"] := by decide

example : (run cfg0 ⟨0, init cfg0 .skipped "init"⟩ demoHistory).rs.enginePolicy = "d4" := by decide

/-- the jitter hypothesis of `c10_backoff_bounded` is satisfiable: ratio 1/2, draw u = 1 -/
example : JitOk 1 2 (fun b => b / 2) := by
  intro b hb
  show b / 2 * 2 ≤ 1 * b
  omega

/-- an overlapping schedule in which the slower check publishes the *older* document last: safety holds
    (`d1` was loaded), "most recent" does not – which is why it is claimed for non-overlapping checks only -/
example :
    (crun cfg0 (Conc.init (init cfg0 .skipped "init"))
      [.spawn 0 false 0 noJit, .spawn 1 false 0 noJit, .step 0 .none, .step 1 .none,
       .step 0 (.etag (.ok (.tag "t1"))), .step 0 (.load (.ok "d1")),
       .step 1 (.etag (.ok (.tag "t2"))), .step 1 (.load (.ok "d2")), .step 1 .none, .step 0 .none]).rs.enginePolicy
      = "d1" := by decide

/-- the hypotheses of `c10_converges` are satisfiable for the file source: a present, parseable file is
    a good, stable source state -/
example : ∃ (ver : Tag → Nat) (doc : Nat → Doc) (w : FileW), fileGood ver doc w ∧
    StableAt fileSource (.tag "sha1") "d1" w := by
  let w : FileW := { disk := some { blob := blob1, mtime := 5 }, cache := none, mtimeInTag := false, hi := 1 }
  have hg : fileGood (fun _ => 1) (fun _ => "d1") w :=
    ⟨rfl, fun f hf => by cases hf; exact ⟨rfl, rfl, fun _ => rfl⟩, fun f sig sha _ hc => by simp [w] at hc⟩
  exact ⟨fun _ => 1, fun _ => "d1", w, hg, file_stable _ _ w _ hg rfl rfl⟩

end Rbacx.C10
