import Rbacx.Proofs.Reloader
/-
  C10 — Hot reload is fail-safe, version-tag gated and converges to the source.

  Model: `Rbacx.Reloader` (Model/Reloader.lean: `check`, the four atomic blocks, `Conc`;
  Model/Sources.lean: sources and source-level histories).  Observation-level theorems
  (`check`, `run`) quantify over *arbitrary* answers of `etag()` / `load()` – every value, every
  exception class, any change of the source between the two calls – and therefore cover every
  source, custom or shipped.
-/
namespace Rbacx.C10
open Rbacx.Reloader

/-! ## safety of one check and of histories of non-overlapping checks -/

/-- A check is total and returns a bool for every answer of the source, including every exception
    class raised by `etag()` or by `load()`. -/
theorem c10_never_raises (cfg : Cfg) (force : Bool) (now : Time) (jit : Time → Time) (e : Res EtagObs) (l : Res Doc)
    (s : RState) :
    ∃ b, (check cfg force now jit e l s).2 = .returned b ∧ specNoRaise (check cfg force now jit e l s).2 = true := by
  obtain ⟨b, hb⟩ := check_returns_bool cfg force now jit e l s
  exact ⟨b, hb, by rw [hb]; rfl⟩

/-- A check that returns False (suppressed, tag unchanged, `etag()` raised, `load()` raised) leaves the
    engine's policy and its cache untouched. -/
theorem c10_false_is_inert (cfg : Cfg) (force : Bool) (now : Time) (jit : Time → Time) (e : Res EtagObs) (l : Res Doc)
    (s : RState) (h : (check cfg force now jit e l s).2 = .returned false) :
    (check cfg force now jit e l s).1.enginePolicy = s.enginePolicy ∧
    (check cfg force now jit e l s).1.cacheEpoch = s.cacheEpoch ∧
    specInert s.snap (check cfg force now jit e l s).1.snap (check cfg force now jit e l s).2 = true := by
  rcases check_engine cfg force now jit e l s with ⟨_, hp, hc, _⟩ | ⟨ht, _⟩
  · exact ⟨hp, hc, by rw [h]; simp [specInert, RState.snap, hp, hc]⟩
  · rw [h] at ht; cases ht

/-- The engine's policy changes only in a check that returns True, and then to the very document
    that check's own `load()` returned, together with one cache clear (`specInstalled` is the
    predicate the driver evaluates on the implementation's trace). -/
theorem c10_installed_by_true_check (cfg : Cfg) (force : Bool) (now : Time) (jit : Time → Time) (e : Res EtagObs)
    (l : Res Doc) (s : RState) :
    specInstalled s.snap (check cfg force now jit e l s).1.snap (check cfg force now jit e l s).2
      (loadedBy ⟨now, s⟩ (.check force jit e l)).toList = true := by
  rcases check_engine cfg force now jit e l s with ⟨ho, hp, hc, hl⟩ | ⟨ho, d, _, hl, hp, hc⟩
  · rw [ho, hl]; simp [specInstalled, RState.snap, hp, hc]
  · rw [ho, hl]; simp [specInstalled, RState.snap, hp, hc]

/-- Every reachable active policy is the initial one or a document that a successful `load()` of
    some check of the history returned. -/
theorem c10_policy_is_loaded (cfg : Cfg) (h0 : HState) (evs : List Event) :
    (run cfg h0 evs).rs.enginePolicy = h0.rs.enginePolicy ∨
      ∃ force jit e, Event.check force jit e (.ok (run cfg h0 evs).rs.enginePolicy) ∈ evs := by
  rw [run_policy]
  cases hl : (loadedDocs cfg h0 evs).getLast? with
  | none => left; rfl
  | some d =>
    right
    exact loadedDocs_from_events cfg evs h0 d (List.mem_of_getLast? hl)

/-- Non-overlapping checks: the active policy is the document returned by the most recent successful
    `load()` (the initial policy if no load succeeded yet). -/
theorem c10_sequential_latest (cfg : Cfg) (h0 : HState) (evs : List Event) :
    (run cfg h0 evs).rs.enginePolicy = ((loadedDocs cfg h0 evs).getLast?).getD h0.rs.enginePolicy :=
  run_policy cfg evs h0

/-! ## bounded back-off -/

/-- the PRNG draw is at most 1: `jit b = b · (rN/rD) · u` with `u ≤ 1` -/
def JitOk (rN rD : Int) (jit : Time → Time) : Prop := ∀ b, 0 ≤ b → jit b * rD ≤ rN * b

/-- `window ≤ max(0.2, backoff_max · (1 + jitter_ratio))`, cross-multiplied by the denominator of the ratio -/
def WindowOk (cfg : Cfg) (rN rD : Int) (now until_ : Time) : Prop :=
  (until_ - now) * rD ≤ max (floorUs * rD) (cfg.backoffMax * (rD + rN))

theorem c10_backoff_bounded_step (cfg : Cfg) (hmin : 0 ≤ cfg.backoffMin) (hmax : 0 ≤ cfg.backoffMax)
    (rN rD : Int) (hrD : 0 < rD) (hrN : 0 ≤ rN) (force : Bool) (now : Time) (jit : Time → Time) (hj : JitOk rN rD jit)
    (e : Res EtagObs) (l : Res Doc) (s : RState) :
    (check cfg force now jit e l s).1.suppressUntil = s.suppressUntil ∨
      WindowOk cfg rN rD now (check cfg force now jit e l s).1.suppressUntil := by
  rcases check_window cfg force now jit e l s with h | h
  · left; exact h
  · right
    have hb := nextBackoff_bounds cfg hmin hmax s.backoff
    unfold WindowOk
    rw [h]
    have : now + max floorUs (nextBackoff cfg s.backoff + jit (nextBackoff cfg s.backoff)) - now =
        max floorUs (nextBackoff cfg s.backoff + jit (nextBackoff cfg s.backoff)) := by omega
    rw [this]
    exact window_le _ _ _ _ _ hb.2 hrD hrN (hj _ hb.1)

/-- Along every history (the clock never runs backwards) the time for which unforced checks are
    still suppressed never exceeds `max(0.2, backoff_max · (1 + jitter_ratio))`. -/
theorem c10_backoff_bounded (cfg : Cfg) (hmin : 0 ≤ cfg.backoffMin) (hmax : 0 ≤ cfg.backoffMax)
    (rN rD : Int) (hrD : 0 < rD) (hrN : 0 ≤ rN) (evs : List Event)
    (hj : ∀ force jit e l, Event.check force jit e l ∈ evs → JitOk rN rD jit) :
    ∀ h0 : HState, WindowOk cfg rN rD h0.now h0.rs.suppressUntil →
      WindowOk cfg rN rD (run cfg h0 evs).now (run cfg h0 evs).rs.suppressUntil := by
  induction evs with
  | nil => intro h0 h; exact h
  | cons ev evs ih =>
    intro h0 h
    simp only [run]
    apply ih (fun force jit e l hm => hj force jit e l (List.mem_cons_of_mem _ hm))
    cases ev with
    | advance dt =>
      simp only [stepEvent]
      unfold WindowOk at *
      have : (h0.rs.suppressUntil - (h0.now + ↑dt)) * rD ≤ (h0.rs.suppressUntil - h0.now) * rD :=
        Int.mul_le_mul_of_nonneg_right (by omega) (by omega)
      exact Int.le_trans this h
    | check force jit e l =>
      simp only [stepEvent]
      rcases c10_backoff_bounded_step cfg hmin hmax rN rD hrD hrN force h0.now jit
        (hj force jit e l List.mem_cons_self) e l h0.rs with h' | h'
      · rw [h']; exact h
      · exact h'

/-- Forced checks ignore the window: whatever `suppressUntil` is, a forced check calls `load()`, and
    if that succeeds the document is installed and the check returns True. -/
theorem c10_forced_still_loads (cfg : Cfg) (now : Time) (jit : Time → Time) (e : Res EtagObs) (l : Res Doc) (s : RState) :
    (check cfg true now jit e l s).1.loads = s.loads + 1 ∧
    specForced true s.snap (check cfg true now jit e l s).1.snap = true ∧
    (∀ d, l = .ok d → (check cfg true now jit e l s).2 = .returned true ∧
      (check cfg true now jit e l s).1.enginePolicy = d) := by
  have hl := check_loads cfg true now jit e l s
  rw [forced_calls_load] at hl
  refine ⟨by simpa using hl, by simp [specForced, RState.snap, hl], ?_⟩
  intro d hd
  rcases check_engine cfg true now jit e l s with ⟨_, _, _, hn⟩ | ⟨ho, d', hd', _, hp, _⟩
  · simp [loadedBy, forced_calls_load, hd] at hn
  · rw [hd] at hd'; cases hd'; exact ⟨ho, hp⟩

/-- An unforced check inside the window returns False without calling the source. -/
theorem c10_unforced_suppressed (cfg : Cfg) (now : Time) (jit : Time → Time) (e : Res EtagObs) (l : Res Doc) (s : RState)
    (h : now < s.suppressUntil) : check cfg false now jit e l s = (s, .returned false) := by
  simp [check, suppressed, h]

end Rbacx.C10
