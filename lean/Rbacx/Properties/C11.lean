import Rbacx.Proofs.TruthfulSpec
/-
  C11 — truthful explanations, agreeing audit trail.

  Quantifier: every oracle, every engine configuration (lax/strict, any role resolver / relationship checker /
  obligation checker / sinks, ANY default-algorithm constants `cfg.consts`), every request, and every policy document
  (a single policy — evaluated through the compiled function with interpreter fall-back — or a nested set) that is
  within the schema's guarantees, `WithinSchema`:

    * `algos`   every level's algorithm, after defaulting and lower-casing, is one of the three known ones
                (needed: for an unknown algorithm string the rule loop leaves decision "deny" / reason "no_match"
                next to a non-null rule id);
    * `rules`   `RulesOk`: an applicable rule has a string id and effect permit or deny;
    * `noRaise` no rule of the document raises for this request (outside of this `Spec.c11` is `none`).

  `Spec.rulesByChild policy` lists every rule of the document paired with the id of the top-level child policy
  containing it (`None` for a single policy); `ruleOutcome cx r = .ok (.applies e rid obls)` says rule `r` is applicable
  to the request (actions, resource target and condition all match) with effect `e`, id `rid` and obligations `obls`;
  the other outcomes are the four mismatch kinds, whose reason string is `Outcome.reason`.
-/
namespace Rbacx.C11
open Rbacx

/-- on a document within the schema's guarantees the engine returns a Decision (it never raises) -/
theorem c11_evaluation_defined (o : Oracle) (cfg : GuardCfg) (policy : PyVal) (req : Request)
    (hs : WithinSchema o cfg policy req) : ∃ d evs, guardEval o cfg policy req = .ok (d, evs) :=
  let ⟨d, evs, h, _⟩ := guardEval_explained o cfg policy req hs
  ⟨d, evs, h⟩

/-- **a non-null rule id names a rule of the current policy that is applicable to the request and has the reported
    effect** — reason `matched` for a permit, `explicit_deny` for a deny, `obligation_failed` for a permit revoked by the
    obligation gate; **the obligations returned with a permit (granted or revoked) are that rule's, and a non-null
    policy id is the id of the top-level child policy containing the rule** -/
theorem c11_rule_id_truthful (o : Oracle) (cfg : GuardCfg) (policy : PyVal) (req : Request) (d : Decision)
    (evs : List Event) (hs : WithinSchema o cfg policy req) (h : guardEval o cfg policy req = .ok (d, evs))
    (hn : d.ruleId.isNone = false) :
    ∃ x ∈ Spec.rulesByChild policy, ∃ e s obls,
      ruleOutcome (condCtx o cfg req) x.2 = .ok (.applies e (.str s) obls) ∧ d.ruleId = .str s ∧
      (d.policyId.isNone = true ∨ x.1 = d.policyId) ∧
      ((d.reason = "matched" ∧ e = "permit" ∧ d.allowed = true ∧ d.effect = "permit" ∧ d.obligations = obls) ∨
       (d.reason = "explicit_deny" ∧ e = "deny" ∧ d.allowed = false ∧ d.effect = "deny") ∨
       (d.reason = "obligation_failed" ∧ e = "permit" ∧ d.allowed = false ∧ d.effect = "deny" ∧ d.obligations = obls)) :=
  (guardEval_explained_of o cfg policy req d evs hs h).rule hn

/-- **when no rule applied the rule id is null, the decision is a deny, and the reason is `no_match` or a mismatch kind
    actually exhibited by some rule of the document** -/
theorem c11_no_rule_reason (o : Oracle) (cfg : GuardCfg) (policy : PyVal) (req : Request) (d : Decision)
    (evs : List Event) (hs : WithinSchema o cfg policy req) (h : guardEval o cfg policy req = .ok (d, evs))
    (hn : d.ruleId.isNone = true) :
    d.allowed = false ∧ d.effect = "deny" ∧
    (d.reason = "no_match" ∨ ∃ r ∈ allRules policy, ∃ out, ruleOutcome (condCtx o cfg req) r = .ok out ∧
      out.applied = false ∧ out.reason = d.reason) := by
  obtain ⟨h1, h2, h3⟩ := (guardEval_explained_of o cfg policy req d evs hs h).noRule hn
  exact ⟨h1, h2, h3.imp id (fun ⟨x, hx, out, ho, ha, hr⟩ => ⟨x.2, rulesByChild_sub policy x hx, out, ho, ha, hr⟩)⟩

/-- **the executable statement of C11** (`Spec.c11`, evaluated by the driver on the implementation's Decision on every
    run) **holds of the model's Decision.**  `ChildIdsOk`: the ids of the top-level children are equal to themselves under
    Python `==` (everything but a value containing a NaN; the bundled schema gives child policies no id at all). -/
theorem c11_truthful (o : Oracle) (cfg : GuardCfg) (policy : PyVal) (req : Request) (d : Decision) (evs : List Event)
    (hs : WithinSchema o cfg policy req) (hid : ChildIdsOk policy) (h : guardEval o cfg policy req = .ok (d, evs)) :
    Spec.c11 o cfg policy req d.allowed d.effect d.ruleId d.policyId d.reason d.obligations = some true :=
  (guardEval_explained_of o cfg policy req d evs hs h).spec hs.noRaise hid

/-- the explicit statement (`Explained` = the conclusions of `c11_rule_id_truthful` and `c11_no_rule_reason`) implies the
    executable one, for any Decision whatsoever — so the predicate the driver evaluates on the implementation's output
    is no stronger than the statement proved of the model -/
theorem c11_explicit_implies_spec (o : Oracle) (cfg : GuardCfg) (policy : PyVal) (req : Request) (d : Decision)
    (he : Explained o cfg policy req d) (hnr : NoRaise (condCtx o cfg req) (allRules policy)) (hid : ChildIdsOk policy) :
    Spec.c11 o cfg policy req d.allowed d.effect d.ruleId d.policyId d.reason d.obligations = some true :=
  he.spec hnr hid

/-- the interpreter (`evaluate`, what the fall-back runs for a single policy, with its own default algorithm) is truthful
    as well: its raw decision satisfies `Truthful` relative to the outcomes of the policy's rules -/
theorem c11_interpreter_truthful (cx : CondCtx) (dflt : String) (doc : PyVal) (ha : algoKnown dflt doc = true)
    (hok : RulesOk cx (rulesOf doc)) (hnr : NoRaise cx (rulesOf doc)) :
    ∃ raw, evaluate cx dflt doc = .ok raw ∧ Truthful (Produced cx (rulesOf doc)) raw :=
  evaluate_truthful cx dflt doc ha hok hnr

/-- the same for the set evaluator at any nesting depth -/
theorem c11_set_truthful (cx : CondCtx) (i sd : String) (t : PTree) (ha : algosKnown i sd t = true)
    (hok : RulesOk cx (treeRules t)) (hnr : NoRaise cx (treeRules t)) :
    ∃ raw, decideTree cx i sd t = .ok raw ∧ Truthful (Produced cx (treeRules t)) raw :=
  tree_truthful cx i sd t ha hok hnr

/-! ### one audit record, one decision-count metric, same fields -/

/-- **finishing a raw decision — freshly computed or taken from the decision cache (a hit re-runs exactly this step on
    the stored raw decision, C08) — emits, when a metrics sink is configured, exactly one `inc` and one `observe`
    labelled with the returned effect and, when a logger is configured, exactly one audit record carrying the returned
    Decision's effect, allowed flag, rule id, policy id, reason and obligations; nothing else** -/
theorem c11_one_audit_one_metric (o : Oracle) (cfg : GuardCfg) (req : Request) (env : PyVal) (raw : Raw) :
    (finishDecision o cfg req env raw).2 =
      (if cfg.hasMetrics then [Event.metricInc (finishDecision o cfg req env raw).1.effect,
                               Event.metricObserve (finishDecision o cfg req env raw).1.effect] else []) ++
      (if cfg.hasLogger then
        [Event.audit env (finishDecision o cfg req env raw).1.effect (finishDecision o cfg req env raw).1.allowed
          (finishDecision o cfg req env raw).1.ruleId (finishDecision o cfg req env raw).1.policyId
          (finishDecision o cfg req env raw).1.reason (finishDecision o cfg req env raw).1.obligations] else []) := rfl

/-- the same for a whole evaluation: the events are a function of the returned Decision (and the env that is logged) -/
theorem c11_one_audit_one_metric_guard (o : Oracle) (cfg : GuardCfg) (policy : PyVal) (req : Request) (d : Decision)
    (evs : List Event) (h : guardEval o cfg policy req = .ok (d, evs)) :
    evs = (if cfg.hasMetrics then [Event.metricInc d.effect, Event.metricObserve d.effect] else []) ++
          (if cfg.hasLogger then
            [Event.audit (buildEnv cfg req) d.effect d.allowed d.ruleId d.policyId d.reason d.obligations] else []) := by
  obtain ⟨raw, _, hf⟩ := guardEval_raw h
  have h1 : (finishDecision o cfg req (condCtx o cfg req).env raw).1 = d := by rw [hf]
  have h2 : (finishDecision o cfg req (condCtx o cfg req).env raw).2 = evs := by rw [hf]
  rw [← h2, ← h1]
  rfl

/-- counted: exactly one audit record iff a logger is configured, exactly one `inc` and one `observe` iff a metrics sink is -/
theorem c11_event_counts (o : Oracle) (cfg : GuardCfg) (policy : PyVal) (req : Request) (d : Decision)
    (evs : List Event) (h : guardEval o cfg policy req = .ok (d, evs)) :
    evs.countP Event.isAudit = (if cfg.hasLogger then 1 else 0) ∧
    evs.countP Event.isMetricInc = (if cfg.hasMetrics then 1 else 0) ∧
    evs.countP Event.isMetricObserve = (if cfg.hasMetrics then 1 else 0) := by
  rw [c11_one_audit_one_metric_guard o cfg policy req d evs h]
  exact eventsOf_counts cfg (buildEnv cfg req) d

/-! ### sinks are only consumers of the finished decision -/

/-- **the Decision does not depend on which sinks are configured** (the finishing step) -/
theorem c11_sinks_cannot_change_decision_finish (o : Oracle) (cfg : GuardCfg) (req : Request) (env : PyVal) (raw : Raw)
    (metrics logger : Bool) :
    (finishDecision o { cfg with hasMetrics := metrics, hasLogger := logger } req env raw).1 =
      (finishDecision o cfg req env raw).1 := rfl

/-- **the Decision (or the exception) of a whole evaluation does not depend on which sinks are configured** -/
theorem c11_sinks_cannot_change_decision (o : Oracle) (cfg : GuardCfg) (policy : PyVal) (req : Request)
    (metrics logger : Bool) :
    (guardEval o { cfg with hasMetrics := metrics, hasLogger := logger } policy req).map Prod.fst =
      (guardEval o cfg policy req).map Prod.fst := by
  have hcx : condCtx o { cfg with hasMetrics := metrics, hasLogger := logger } req = condCtx o cfg req := rfl
  simp only [guardEval, hcx]
  cases guardDecide (condCtx o cfg req) cfg.consts policy <;> rfl

/-! ### non-vacuity -/

private def rule (rid eff act : String) (obls : List PyVal) : PyVal :=
  .dict [("id", .str rid), ("effect", .str eff), ("actions", .list [.str act]),
         ("resource", .dict [("type", .str "doc")]), ("obligations", .list obls)]

private def reqRead : Request :=
  { subjectId := .str "u", roles := .list [], subjectAttrs := .none, action := .str "read", resourceType := .str "doc",
    resourceId := .str "1", resourceAttrs := .none, context := none }

/-- deny-overrides: a permit `p` and a matching deny `d`, and a rule for another action -/
private def polDO : PyVal :=
  .dict [("algorithm", .str "deny-overrides"),
         ("rules", .list [rule "p" "permit" "read" [], rule "w" "permit" "write" [], rule "d" "deny" "read" []])]

/-- a set whose first child has no rule for the action and whose second child decides -/
private def polSet : PyVal :=
  .dict [("algorithm", .str "first-applicable"),
         ("policies", .list [.dict [("id", .str "a"), ("algorithm", .str "deny-overrides"), ("rules", .list [rule "w" "deny" "write" []])],
                             .dict [("id", .str "b"), ("algorithm", .str "permit-overrides"), ("rules", .list [rule "q" "permit" "read" [.dict [("type", .str "log")]]])]])]

/-- a policy none of whose rules lists the action (compiler default `permit-overrides`) -/
private def polNone : PyVal := .dict [("rules", .list [rule "w" "permit" "write" []])]

private def proj (r : Except CondErr (Decision × List Event)) :
    Option (Bool × String × PyVal × PyVal × String × Nat × Nat) :=
  match r with
  | .ok (d, evs) => some (d.allowed, d.effect, d.ruleId, d.policyId, d.reason, d.obligations.length, evs.length)
  | .error _ => none

/-- the hypotheses hold, the deciding rule is the deny `d` (not the first applicable rule `p`), three events -/
example (o : Oracle) (c : Consts) :
    let cfg : GuardCfg := { consts := c, hasMetrics := true, hasLogger := true }
    withinSchemaB o cfg polDO reqRead = true ∧ ChildIdsOk polDO ∧
    proj (guardEval o cfg polDO reqRead) = some (false, "deny", .str "d", .none, "explicit_deny", 0, 3) := by
  refine ⟨rfl, rfl, rfl⟩

/-- a set whose second child decides: policy id `b`, rule `q`, that rule's obligation, one audit record only -/
example (o : Oracle) (c : Consts) :
    let cfg : GuardCfg := { consts := c, checker := .custom none, hasLogger := true }
    withinSchemaB o cfg polSet reqRead = true ∧ ChildIdsOk polSet ∧
    proj (guardEval o cfg polSet reqRead) = some (true, "permit", .str "q", .str "b", "matched", 1, 1) := by
  refine ⟨rfl, rfl, rfl⟩

/-- the same permit revoked by a custom obligation checker: `obligation_failed`, still rule `q` of child `b` -/
example (o : Oracle) (c : Consts) :
    let cfg : GuardCfg := { consts := c, checker := .custom (some (.bool false, .none)), hasMetrics := true }
    withinSchemaB o cfg polSet reqRead = true ∧
    proj (guardEval o cfg polSet reqRead) = some (false, "deny", .str "q", .str "b", "obligation_failed", 1, 2) := by
  refine ⟨rfl, rfl⟩

/-- no rule applies: null rule id; the compiled path never sees the action-mismatching rule and says `no_match` -/
example (o : Oracle) :
    let cfg : GuardCfg := { consts := { interpDefault := "deny-overrides", setDefault := "deny-overrides",
                                        compilerDefault := "permit-overrides", lintDefault := "deny-overrides" } }
    withinSchemaB o cfg polNone reqRead = true ∧
    proj (guardEval o cfg polNone reqRead) = some (false, "deny", .none, .none, "no_match", 0, 0) := by
  refine ⟨rfl, rfl⟩

/-- hence the conclusion of `c11_truthful` on the set example is the non-trivial branch of `Spec.c11` -/
example (o : Oracle) (c : Consts) :
    Spec.c11 o { consts := c, checker := .custom none, hasLogger := true } polSet reqRead
      true "permit" (.str "q") (.str "b") "matched" [.dict [("type", .str "log")]] = some true ∧
    Spec.c11 o { consts := c, checker := .custom none, hasLogger := true } polSet reqRead
      true "permit" (.str "w") (.str "b") "matched" [.dict [("type", .str "log")]] = some false ∧
    Spec.c11 o { consts := c, checker := .custom none, hasLogger := true } polSet reqRead
      true "permit" (.str "q") (.str "a") "matched" [.dict [("type", .str "log")]] = some false := by
  refine ⟨rfl, rfl, rfl⟩

end Rbacx.C11
