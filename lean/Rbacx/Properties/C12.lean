import Rbacx.Proofs.RebacLimits
import Rbacx.Proofs.RebacSpec
/-
  C12 — the local relationship checker = bounded derivability; limits only fail closed.

  Quantifier: every tuple store (`cfg.tuples`: any list — cycles, self loops, object→object chains,
  duplicates, caveated tuples), every rewrite-rule map (`cfg.rules`: nested unions of
  This / ComputedUserset / TupleToUserset / unknown nodes per object type), every query triple,
  every `max_depth` / `max_nodes` (Python ints, negative included), every clock behaviour
  (`dl : Nat → Bool`, adversarial: says for each in-loop clock read whether the deadline has passed),
  every caveat registry applied to the call's context (`cfg.reg`: unregistered / raises / true / false).

  Spec (`Spec/Rebac.lean`): `Derivable cfg d q` — derivable with at most `d` rewrite steps from
  satisfied tuples; `DerivableWithin cfg q := ∃ d, d ≤ max_depth ∧ Derivable cfg d q`.

  Termination: `Rebac.bfs` is defined by well-founded recursion on the lexicographic measure
  `(max_nodes + 1 − visits, |queue|)` with a checked `decreasing_by` proof (no fuel, no `partial`),
  so every call terminates on every graph, cyclic or not; `c12_terminates` records the totality.
-/
namespace Rbacx.C12
open Rbacx.Rebac

/-- hit neither the node limit nor the deadline -/
def NoLimitHit (cfg : Config) (dl : Nat → Bool) (q : Triple) : Prop :=
  checkOutcome cfg dl q ≠ .nodeLimit ∧ checkOutcome cfg dl q ≠ .deadline

/-- SOUNDNESS, whatever the limits and whatever the clock does: an answer `true` is a derivation
    within `max_depth` from satisfied tuples through the configured rewrites. -/
theorem c12_sound (cfg : Config) (dl : Nat → Bool) (q : Triple) (h : check cfg dl q = true) :
    ∃ d : Nat, (d : Int) ≤ cfg.maxDepth ∧ Derivable cfg d q :=
  check_sound cfg dl q h

/-- never true for a non-derivable relation (at any depth), whatever the limits -/
theorem c12_never_true_unless_derivable (cfg : Config) (dl : Nat → Bool) (q : Triple)
    (h : ∀ d, ¬ Derivable cfg d q) : check cfg dl q = false := by
  cases hc : check cfg dl q with
  | false => rfl
  | true => obtain ⟨d, _, hd⟩ := c12_sound cfg dl q hc; exact absurd hd (h d)

/-- COMPLETENESS: a run that hits neither the node limit nor the deadline answers `true` for every
    relation derivable within `max_depth` (BFS: first visit of a node is at its minimal depth, so the
    `seen` pruning and the depth cut lose nothing). -/
theorem c12_complete (cfg : Config) (dl : Nat → Bool) (q : Triple) (hlim : NoLimitHit cfg dl q)
    (h : ∃ d : Nat, (d : Int) ≤ cfg.maxDepth ∧ Derivable cfg d q) : check cfg dl q = true := by
  rw [check_eq_toBool]
  cases ho : checkOutcome cfg dl q with
  | found => rfl
  | exhausted => exact absurd h (check_exhausted_not_derivable cfg dl q ho)
  | nodeLimit => exact absurd ho hlim.1
  | deadline => exact absurd ho hlim.2

/-- "exactly when": without a node/time cut the answer *is* bounded derivability -/
theorem c12_exact (cfg : Config) (dl : Nat → Bool) (q : Triple) (hlim : NoLimitHit cfg dl q) :
    check cfg dl q = true ↔ ∃ d : Nat, (d : Int) ≤ cfg.maxDepth ∧ Derivable cfg d q :=
  ⟨c12_sound cfg dl q, c12_complete cfg dl q hlim⟩

/-- a clock that never passes the deadline never cuts the run -/
theorem c12_never_clock_no_deadline (cfg : Config) (dl : Nat → Bool) (q : Triple) (h : ∀ k, dl k = false) :
    checkOutcome cfg dl q ≠ .deadline :=
  bfs_no_deadline cfg dl h _ _ _ _

/-- LIMITS FAIL CLOSED: a run cut by `max_nodes` or by the deadline answers false; so does a run with
    `max_nodes ≤ 0`, with a negative `max_depth`, or whose first clock read is already late. -/
theorem c12_limits_fail_closed (cfg : Config) (dl : Nat → Bool) (q : Triple) :
    (checkOutcome cfg dl q = .nodeLimit ∨ checkOutcome cfg dl q = .deadline → check cfg dl q = false) ∧
    (cfg.maxNodes ≤ 0 → check cfg dl q = false) ∧
    (cfg.maxDepth < 0 → check cfg dl q = false) ∧
    (dl 0 = true → check cfg dl q = false) := by
  refine ⟨?_, ?_, check_maxDepth_neg cfg dl q, check_deadline_first cfg dl q⟩
  · rintro (h | h) <;> simp [check, h, Outcome.toBool]
  · intro h; simp [check, check_maxNodes_nonpos cfg dl q h, Outcome.toBool]

/-- LIMITS ONLY LOSE ANSWERS: if any setting of the limits and any clock answers `true`, then every
    uncut run on the same store / rules / registry with at least that `max_depth` answers `true`.
    (Reaching the depth, node or time limit can only turn the answer to false.) -/
theorem c12_limits_only_lose (cfg cfg' : Config) (dl dl' : Nat → Bool) (q : Triple)
    (ht : cfg'.tuples = cfg.tuples) (hr : cfg'.rules = cfg.rules) (hg : cfg'.reg = cfg.reg)
    (hd : cfg.maxDepth ≤ cfg'.maxDepth) (hlim : NoLimitHit cfg' dl' q)
    (h : check cfg dl q = true) : check cfg' dl' q = true := by
  obtain ⟨d, hdd, hder⟩ := c12_sound cfg dl q h
  apply c12_complete cfg' dl' q hlim
  exact ⟨d, by omega, hder.congr ht hr hg⟩

/-- UNSATISFIED CAVEATS ARE INERT: the run (answer and reason) is the run on the store from which every
    tuple whose caveat is unknown, raising or false has been deleted, and it depends on the registry
    only through "registered and returned true" (unknown ≡ raising ≡ false). -/
theorem c12_bad_caveats_inert (cfg : Config) (dl : Nat → Bool) (q : Triple) :
    checkOutcome cfg dl q = checkOutcome (pruned cfg) dl q ∧
    (∀ t ∈ (pruned cfg).tuples, CaveatSat cfg.reg t) ∧
    (∀ reg' : Registry, (∀ c, cfg.reg c = some (.val true) ↔ reg' c = some (.val true)) →
      checkOutcome { cfg with reg := reg' } dl q = checkOutcome cfg dl q) := by
  refine ⟨(checkOutcome_pruned cfg dl q).symm, pruned_all_sat cfg, fun reg' h => ?_⟩
  rw [← checkOutcome_collapsed cfg, ← checkOutcome_collapsed { cfg with reg := reg' }]
  unfold collapsed
  simp only [collapseReg_congr cfg.reg reg' h]

/-- a satisfied derivation needs every caveat it uses to be registered and true: in particular a
    caveated tuple whose predicate is unregistered / raises / returns false is no direct grant -/
theorem c12_caveat_needed (cfg : Config) (t : RelTuple) (c : String) (hc : t.caveat = some c)
    (hbad : cfg.reg c ≠ some (.val true)) : ¬ CaveatSat cfg.reg t := by
  rintro (h | ⟨c', h1, h2⟩)
  · rw [hc] at h; cases h
  · rw [hc] at h1; cases h1; exact hbad h2

/-- "on the supplied context": with a registry of predicates applied to the call's context, a caveated
    tuple counts iff its caveat is registered and that predicate returns true on this context
    (`none` = the predicate raised) -/
theorem c12_caveat_on_context {Ctx : Type} (preds : String → Option (Ctx → Option Bool)) (ctx : Ctx) (t : RelTuple) :
    CaveatSat (Registry.ofPreds preds ctx) t ↔
      t.caveat = none ∨ ∃ c p, t.caveat = some c ∧ preds c = some p ∧ p ctx = some true :=
  caveatSat_ofPreds preds ctx t

/-- the object type used to select the rewrite: the text before the first colon, `user` without one -/
theorem c12_split_ref (ty i s : String) (hty : ':' ∉ ty.toList) (hs : ':' ∉ s.toList) :
    splitRef (ty ++ ":" ++ i) = (ty, i) ∧ splitRef s = ("user", s) :=
  ⟨splitRef_typed ty i hty, splitRef_bare s hs⟩

/-- TERMINATION is by construction (well-founded recursion, see the header); totality for the record -/
theorem c12_terminates (cfg : Config) (dl : Nat → Bool) (q : Triple) :
    ∃ o : Outcome, checkOutcome cfg dl q = o ∧ check cfg dl q = o.toBool :=
  ⟨_, rfl, rfl⟩

/-- BATCH = MAP: with one clock behaviour for all calls, `batch_check` equals the individual checks -/
theorem c12_batch_eq_map (cfg : Config) (dl : Nat → Bool) (triples : List Triple) :
    batchCheck cfg (fun _ => dl) triples = triples.map (check cfg dl) :=
  batchLoop_eq_map _ (check cfg dl) (fun _ => rfl) triples [] (fun _ _ h => by cases h)

/-- with a different clock per call: same length, and every answer is an individual `check` of that very
    triple under one of the batch's clocks (hence sound: true ⇒ derivable) -/
theorem c12_batch_each (cfg : Config) (dls : Nat → Nat → Bool) (triples : List Triple) :
    (batchCheck cfg dls triples).length = triples.length ∧
    ∀ p ∈ triples.zip (batchCheck cfg dls triples), ∃ j, p.2 = check cfg (dls j) p.1 :=
  ⟨batchLoop_length _ _ _, batchLoop_each _ triples [] (fun _ _ h => by cases h)⟩

/-- the predicate the driver evaluates on the *implementation's* answers decides the inductive spec … -/
theorem c12_spec_decides (cfg : Config) (q : Triple) :
    specDerivable cfg q = true ↔ ∃ d : Nat, (d : Int) ≤ cfg.maxDepth ∧ Derivable cfg d q :=
  specDerivable_iff cfg q

/-- … and the model's own answer always satisfies it -/
theorem c12_model_meets_spec (cfg : Config) (dl : Nat → Bool) (q : Triple) :
    specOk cfg q (decide (checkOutcome cfg dl q = .nodeLimit ∨ checkOutcome cfg dl q = .deadline))
      (check cfg dl q) = true := by
  unfold specOk
  by_cases hlim : checkOutcome cfg dl q = .nodeLimit ∨ checkOutcome cfg dl q = .deadline
  · have hf := (c12_limits_fail_closed cfg dl q).1 hlim
    simp [hf, hlim]
  · have hno : NoLimitHit cfg dl q := ⟨fun h => hlim (.inl h), fun h => hlim (.inr h)⟩
    have hex := c12_exact cfg dl q hno
    rw [← c12_spec_decides] at hex
    cases hc : check cfg dl q <;> cases hs : specDerivable cfg q <;> simp_all

/-! ### non-vacuity: a store with an object→object cycle, a caveated tuple and nested rewrites -/

def exCfg : Config :=
  { tuples := [⟨"user:alice", "viewer", "folder:f1", none⟩, ⟨"folder:f1", "parent", "doc:d1", none⟩,
               ⟨"doc:d1", "parent", "folder:f1", none⟩, ⟨"user:bob", "viewer", "doc:d1", some "office"⟩,
               ⟨"user:carol", "editor", "doc:d1", some "vpn"⟩],
    rules := [("doc", [("viewer", .union [.this, .computed "editor", .ttu "parent" "viewer"])]),
              ("folder", [("viewer", .union [.this, .union [.ttu "parent" "viewer"]])])],
    reg := fun c => if c = "office" then some (.val false) else if c = "vpn" then some (.val true) else none,
    maxDepth := 8, maxNodes := 100 }

def never : Nat → Bool := fun _ => false

/-- alice views d1 through the parent folder: derivable in one rewrite step … -/
example : Derivable exCfg 1 ("user:alice", "viewer", "doc:d1") := by
  refine .step (m := ("user:alice", "viewer", "folder:f1")) ⟨_, rfl, ?_⟩ (.direct ?_)
  · refine .union _ (.ttu "parent" "viewer") _ (by simp) ?_
    exact .ttu "parent" "viewer" ⟨"folder:f1", "parent", "doc:d1", none⟩ (by simp [exCfg]) rfl rfl (by decide) (.inl rfl)
  · exact ⟨⟨"user:alice", "viewer", "folder:f1", none⟩, by simp [exCfg], rfl, rfl, rfl, .inl rfl⟩

/-- … and the model finds it (hypotheses of `c12_exact` are satisfiable with answer true) -/
example : checkOutcome exCfg never ("user:alice", "viewer", "doc:d1") = .found := by
  simp [checkOutcome, bfs, exCfg, never, directAllowed, directFor, directLoop, children, successors, lookupExpr,
    splitRef, hasColon, beforeColon, expand, expandList, ttuTargets, caveatHolds, List.lookup]

/-- carol: computed userset + a caveat that holds -/
example : checkOutcome exCfg never ("user:carol", "viewer", "doc:d1") = .found := by
  simp [checkOutcome, bfs, exCfg, never, directAllowed, directFor, directLoop, children, successors, lookupExpr,
    splitRef, hasColon, beforeColon, expand, expandList, ttuTargets, caveatHolds, List.lookup]

/-- bob's only tuple has a false caveat; the parent edges form a cycle d1 → f1 → d1: the run ends by
    exhausting the queue (no limit involved), answer false — and therefore (completeness) underivable -/
example : checkOutcome exCfg never ("user:bob", "viewer", "doc:d1") = .exhausted := by
  simp [checkOutcome, bfs, exCfg, never, directAllowed, directFor, directLoop, children, successors, lookupExpr,
    splitRef, hasColon, beforeColon, expand, expandList, ttuTargets, caveatHolds, List.lookup]

/-- the node limit turns alice's `true` into `false` (fail closed), never the other way round -/
example : checkOutcome { exCfg with maxNodes := 1 } never ("user:alice", "viewer", "doc:d1") = .nodeLimit := by
  simp [checkOutcome, bfs, exCfg, never, directAllowed, directFor, directLoop, children, successors, lookupExpr,
    splitRef, hasColon, beforeColon, expand, expandList, ttuTargets, caveatHolds, List.lookup]

/-- the depth limit likewise: alice needs one rewrite step -/
example : checkOutcome { exCfg with maxDepth := 0 } never ("user:alice", "viewer", "doc:d1") = .exhausted := by
  simp [checkOutcome, bfs, exCfg, never, directAllowed, directFor, directLoop, children, successors, lookupExpr,
    splitRef, hasColon, beforeColon, expand, expandList, ttuTargets, caveatHolds, List.lookup]

/-- a late clock at the second read -/
example : checkOutcome exCfg (fun k => k == 1) ("user:alice", "viewer", "doc:d1") = .deadline := by
  simp [checkOutcome, bfs, exCfg, directAllowed, directFor, directLoop, children, successors, lookupExpr,
    splitRef, hasColon, beforeColon, expand, expandList, ttuTargets, caveatHolds, List.lookup]

end Rbacx.C12
