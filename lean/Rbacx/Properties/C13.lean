import Rbacx.Proofs.RelMemo
/-
  C13 — `rel` conditions: canonical lookup, fail closed, memoised per decision only.

  Quantifier: every condition tree / rule list / set tree containing `rel` nodes (short and
  extended form, overrides as literals or attribute references, with or without ':' prefix, ctx),
  every request, every checker (any answers, raising = `none`, absent).
  *Partial (named in DESIGN §5 C13):* that `contextvars` isolate concurrent decisions and that an
  async checker is resolved on the captured loop are runtime facts — exercised by the harness,
  no theorem is claimed about `contextvars`/`asyncio`.
-/
namespace Rbacx.C13
open Rbacx

/-- short form: the checker is asked exactly ("user:<id>", relation, "<type>:<id>") with `context._rebac` -/
theorem c13_canonical_short (o : Oracle) (env : PyVal) (rel : String) (hrel : rel ≠ "")
    (base : List (String × PyVal)) (hb : dictOf ((PyVal.por (env.get "context") (.dict [])).get "_rebac") = .ok base) :
    relQuery o (.str rel) env =
      .ok (some { subject := canonSubject o env .none, relation := rel, resource := canonResource o env .none,
                  ctx := .dict base }) := by
  have : (rel == "") = false := by simpa using hrel
  simp [relQuery, this, hb, bind, Except.bind, pure, Except.pure, PyVal.truthy]

theorem c13_canonical_subject_default (o : Oracle) (env : PyVal) (hid : ((env.get "subject").get "id").isNone = false) :
    canonSubject o env .none = "user:" ++ o.pyStr ((env.get "subject").get "id") := by
  have h0 : PyVal.none.isNone = true := rfl
  simp only [canonSubject, hid, h0, Bool.false_eq_true, if_false, if_true]

theorem c13_canonical_resource_default (o : Oracle) (env : PyVal) (hid : ((env.get "resource").get "id").isNone = false) :
    canonResource o env .none =
      o.pyStr (PyVal.por ((env.get "resource").get "type") (.str "object")) ++ ":" ++ o.pyStr ((env.get "resource").get "id") := by
  have h0 : PyVal.none.isNone = true := rfl
  simp only [canonResource, hid, h0, Bool.false_eq_true, if_false, if_true]

/-- an override that resolves to a string is used verbatim when it contains ':' and prefixed otherwise -/
theorem c13_subject_override (o : Oracle) (env tok : PyVal) (v : String) (hn : tok.isNone = false)
    (hr : resolve o tok env = .str v) :
    canonSubject o env tok = (if v.toList.contains ':' then v else "user:" ++ v) := by
  simp [canonSubject, hn, hr]

theorem c13_resource_override (o : Oracle) (env tok : PyVal) (v : String) (hn : tok.isNone = false)
    (hr : resolve o tok env = .str v) :
    canonResource o env tok =
      (if v.toList.contains ':' then v
       else o.pyStr (PyVal.por ((env.get "resource").get "type") (.str "object")) ++ ":" ++ v) := by
  simp [canonResource, hn, hr]

/-- the condition's `ctx` is merged over `context._rebac`, the condition's entries winning -/
theorem c13_ctx_merge (base : List (String × PyVal)) (k : String) (v : PyVal) :
    PyVal.lookup k (dictUpdate base [(k, v)]) = some v := by
  unfold dictUpdate
  simp only [List.foldl]
  split
  · rename_i h
    induction base with
    | nil => simp [PyVal.lookup] at h
    | cons e es ih =>
      simp only [List.map, PyVal.lookup]
      by_cases he : e.1 = k
      · simp [he]
      · simp only [he, if_false]
        apply ih
        simpa [PyVal.lookup, he] using h
  · rename_i h
    induction base with
    | nil => simp [PyVal.lookup]
    | cons e es ih =>
      have he : ¬ e.1 = k := by
        intro hek; simp [PyVal.lookup, hek] at h
      simp only [List.cons_append, PyVal.lookup, he, if_false]
      apply ih
      simpa [PyVal.lookup, he] using h

/-- fail closed: no checker configured ⇒ every `rel` node is false -/
theorem c13_fail_closed_no_checker (cx : CondCtx) (expr : PyVal) (hc : cx.checker = none) (q : Option RelKey)
    (hq : relQuery cx.o expr cx.env = .ok q) : evalRel cx expr = .ok false := by
  simp only [evalRel, hq, bind, Except.bind, pure, Except.pure, hc]
  cases q <;> rfl

/-- fail closed: a checker that raises or times out (`none`) ⇒ the node is false -/
theorem c13_fail_closed_raising (cx : CondCtx) (expr : PyVal) (chk : RelChecker) (hc : cx.checker = some chk)
    (key : RelKey) (hq : relQuery cx.o expr cx.env = .ok (some key)) (hr : chk key = none) :
    evalRel cx expr = .ok false := by
  simp [evalRel, hq, bind, Except.bind, pure, Except.pure, hc, hr]

/-- … and it holds only if the checker affirms exactly the canonical key -/
theorem c13_true_only_if_affirmed (cx : CondCtx) (expr : PyVal) (h : evalRel cx expr = .ok true) :
    ∃ chk key, cx.checker = some chk ∧ relQuery cx.o expr cx.env = .ok (some key) ∧ chk key = some true := by
  simp only [evalRel, bind, Except.bind, pure, Except.pure] at h
  cases hq : relQuery cx.o expr cx.env with
  | error e => simp [hq] at h
  | ok q =>
    cases q with
    | none => simp [hq] at h
    | some key =>
      cases hc : cx.checker with
      | none => simp [hq, hc] at h
      | some chk =>
        simp only [hq, hc] at h
        refine ⟨chk, key, rfl, rfl, ?_⟩
        cases hk : chk key with
        | none => simp [hk] at h
        | some b => simp [hk] at h; rw [h]

/-- within one decision each distinct triple-and-context is looked up at most once -/
theorem c13_at_most_once (cx : CondCtx) (c : Consts) (policy : PyVal) :
    (guardDecideM cx c policy).2.trace.Pairwise (fun a b => keyEq a b = false) :=
  (guardDecideM_inv cx c policy).distinct

/-- the memo never changes a decision: for a checker that answers equal lookups equally, the memoised decision
    step is exactly the pure one — so a decision is a function of the answers the checker gives *in this call*
    (each decision starts from the empty memo: nothing looked up in one decision is reused in another) -/
theorem c13_memo_transparent (cx : CondCtx) (hresp : ∀ chk, cx.checker = some chk → ChkRespects chk)
    (c : Consts) (policy : PyVal) : (guardDecideM cx c policy).1 = guardDecide cx c policy :=
  guardDecideM_pure cx hresp c policy

/-- every call the decision makes is recorded in the memo (nothing is asked twice because the answer is kept) -/
theorem c13_calls_are_memoised (cx : CondCtx) (c : Consts) (policy : PyVal) :
    (guardDecideM cx c policy).2.memo.map (·.1) = (guardDecideM cx c policy).2.trace :=
  (guardDecideM_inv cx c policy).keys

end Rbacx.C13
