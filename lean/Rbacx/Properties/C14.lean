import Rbacx.Proofs.Locks
/-
  C14 — context independence: sync = async, no cross-talk, mutation or deadlock.

  What a theorem carries: **deadlock freedom** of the blocking skeleton of the hot reloader (lock,
  helper thread, polling thread, join) for every schedule, from a static condition that is checked on
  the programs traced from the real code on every run (`Run/C14_locks.lean`).
  *Partial (named in DESIGN §5 C14):* flavour equality (sync / async / sync inside a running loop all
  run the one core `_evaluate_core_async`: a single function `guardEval` in the model, so equality is
  definitional there and lives in the tie), non-interference of concurrent evaluations and
  non-mutation of policy/request objects are observed by the harness, not proved (Lean values are
  immutable: "never mutates" has no counterpart in the model).
-/
namespace Rbacx.C14
open Rbacx.Locks

/-- **no deadlock**: if no thread waits for another thread while holding the lock (and waits only for spawned threads of
    higher rank), then under every schedule, as long as some running thread has not finished, some thread can step -/
theorem c14_no_deadlock (n : Nat) (progs : Nat → List LOp) (roots : List Nat)
    (hshape : LockFreeWhileBlocking n progs roots = true) (hb : ∀ t, n ≤ t → progs t = []) (sched : List Nat)
    (hlive : ∃ t, ((run (init progs roots) sched).ths t).started = true ∧ ((run (init progs roots) sched).ths t).prog ≠ []) :
    ∃ t, canStep (run (init progs roots) sched) t = true :=
  no_deadlock (run_inv sched _ (init_inv n progs roots hshape hb)) hlive

/-- the lock is never held by two threads, and a thread that holds it can always continue -/
theorem c14_holder_progress (n : Nat) (progs : Nat → List LOp) (roots : List Nat)
    (hshape : LockFreeWhileBlocking n progs roots = true) (hb : ∀ t, n ≤ t → progs t = []) (sched : List Nat) (t : Nat)
    (hd : 0 < ((run (init progs roots) sched).ths t).depth) : canStep (run (init progs roots) sched) t = true :=
  holder_can_step (run_inv sched _ (init_inv n progs roots hshape hb)) hd

/-- **the lock is never held across a call into the policy source**: in every reachable state a thread that is inside
    `source.etag()` / `source.load()` does not own the reloader lock -/
theorem c14_no_lock_during_source_call (n : Nat) (progs : Nat → List LOp) (roots : List Nat)
    (hshape : LockFreeWhileBlocking n progs roots = true) (hb : ∀ t, n ≤ t → progs t = []) (sched : List Nat) (t : Nat)
    (p : List LOp) (hp : ((run (init progs roots) sched).ths t).prog = .ext :: p) :
    (run (init progs roots) sched).owner ≠ some t :=
  ext_lock_free (run_inv sched _ (init_inv n progs roots hshape hb)) hp

/-- **start / stop / check are not held up by a check that is stuck in the policy source**: while thread `t` (say the
    polling thread) sits inside a source call for however long, any running thread `u` whose next operation is taking
    the lock finds a thread other than `t` that can step — itself if the lock is free, else the holder -/
theorem c14_lock_available_despite_source_call (n : Nat) (progs : Nat → List LOp) (roots : List Nat)
    (hshape : LockFreeWhileBlocking n progs roots = true) (hb : ∀ t, n ≤ t → progs t = []) (sched : List Nat) (t u : Nat)
    (p q : List LOp) (hp : ((run (init progs roots) sched).ths t).prog = .ext :: p)
    (hu : ((run (init progs roots) sched).ths u).prog = .acq :: q)
    (hst : ((run (init progs roots) sched).ths u).started = true) :
    ∃ v, v ≠ t ∧ canStep (run (init progs roots) sched) v = true :=
  acq_progress_despite_ext (run_inv sched _ (init_inv n progs roots hshape hb)) hp hu hst

/-- a check that loads under the lock is rejected by the static condition, and the poller stuck in `load()` then blocks
    `stop()`: the caller cannot step and the only thread that can is the one inside the source -/
def loadUnderLock : Nat → List LOp
  | 0 => [.acq, .rel, .wait 2]
  | 2 => [.ext, .acq, .ext, .rel]
  | _ => []

theorem c14_load_under_lock_rejected : LockFreeWhileBlocking 3 loadUnderLock [0, 2] = false := by decide

theorem c14_load_under_lock_blocks_stop :
    let s := run (init loadUnderLock [0, 2]) [2, 2]
    (s.ths 2).prog = [.ext, .rel] ∧ s.owner = some 2 ∧ canStep s 0 = false := by decide

/-! ### the pre-repair shapes (finding F10) are deadlocks -/

/-- `start(initial_load=True)` inside a running loop before the repair: the caller takes the lock, submits the check to
    a helper thread and waits for it while still holding the lock; the helper needs the lock -/
def legacyStart : Nat → List LOp
  | 0 => [.acq, .spawn 1, .wait 1, .rel]
  | 1 => [.acq, .work, .rel]
  | _ => []

theorem c14_legacy_start_deadlocks :
    let s := run (init legacyStart [0]) [0, 0]
    (s.ths 0).prog ≠ [] ∧ canStep s 0 = false ∧ canStep s 1 = false := by decide

theorem c14_legacy_start_rejected : LockFreeWhileBlocking 2 legacyStart [0] = false := by decide

/-- `stop(timeout=None)` with the poller mid-check before the repair: join under the lock the poller needs -/
def legacyStop : Nat → List LOp
  | 0 => [.acq, .wait 2, .rel]
  | 2 => [.work, .acq, .rel]
  | _ => []

theorem c14_legacy_stop_deadlocks :
    let s := run (init legacyStop [0, 2]) [2, 0]
    (s.ths 0).prog ≠ [] ∧ canStep s 0 = false ∧ canStep s 2 = false := by decide

/-- the repaired shapes are accepted (non-vacuity of the hypothesis of `c14_no_deadlock`) -/
def repairedStart : Nat → List LOp
  | 0 => [.acq, .rel, .spawn 1, .wait 1, .acq, .spawn 2, .rel]
  | 1 => [.acq, .rel, .ext, .ext, .acq, .rel]
  | 2 => [.acq, .rel, .ext, .acq, .rel, .acq, .rel]
  | _ => []

example : LockFreeWhileBlocking 3 repairedStart [0] = true := by decide

end Rbacx.C14
