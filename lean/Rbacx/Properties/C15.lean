import Rbacx.Proofs.CacheLatest
import Rbacx.Proofs.CacheLock
/-
  C15 — the built-in cache is a linearizable LRU map with TTL and a hard capacity.

  Quantifier: every configuration (`maxsize : Int`, also ≤ 0; any purge prefix), every value type,
  every finite history `ops : List (Op V)` of get / set (ttl none, ≤ 0, > 0) / delete / clear with
  arbitrary clock readings, run on a fresh cache: `run c ops = runFrom c [] ops`.
  Every theorem is the lift to reachable states of a one-step lemma (`step_inv`, `step_rel`,
  `ghost_step`, `stepThread_sim`) by induction over the history (`runFrom_inv`, `rel_runFrom`,
  `traceOkFrom_model`, `ghost_run_mono`, `exec_sim`).  Only `c15_get_latest` assumes the clock is
  monotone (it is `time.monotonic`), because "has expired" is then a fact about the *current*
  clock; the others hold for any clock readings.
-/
namespace Rbacx.C15
open Rbacx.Cache Rbacx.Cache.Lock
variable {V : Type}

/-- **Invariant.** No key twice; never more than `max maxsize 0` entries (so with `maxsize ≤ 0`
    the cache is always empty). -/
theorem c15_inv (c : Cfg) (ops : List (Op V)) :
    (keys (run c ops)).Nodup ∧ ((run c ops).length : Int) ≤ max c.maxsize 0
      ∧ (c.maxsize ≤ 0 → run c ops = []) := by
  have h := runFrom_inv c ops (inv_nil (V := V) c)
  refine ⟨h.nodup, ?_, ?_⟩
  · have := h.cap
    show ((runFrom c [] ops).length : Int) ≤ max c.maxsize 0
    omega
  · intro hm
    have := h.cap
    have h0 : c.maxsize.toNat = 0 := by omega
    exact List.eq_nil_of_length_eq_zero (by show (runFrom c [] ops).length = 0; omega)

/-- **Refinement to a map with dropping.** Every held entry is the latest binding of its key in
    the abstract map `latest ops` (latest `set` since the last `delete` of the key / `clear`), and a
    `get` returns None or the latest value, never one whose deadline is reached. -/
theorem c15_refines_map (c : Cfg) (ops : List (Op V)) :
    (∀ e ∈ run c ops, latest ops e.key = some (e.val, e.exp)) ∧
    ∀ k now, (step c (run c ops) (.get k now)).2 = .got none
      ∨ ∃ v e, latest ops k = some (v, e) ∧ expired e now = false
          ∧ (step c (run c ops) (.get k now)).2 = .got (some v) := by
  have hr := rel_run c ops
  refine ⟨hr.bind, ?_⟩
  intro k now
  simp only [step]
  cases hl : lookup k (run c ops) with
  | none => exact Or.inl rfl
  | some e0 =>
    obtain ⟨he0, hk⟩ := lookup_some hl
    subst hk
    dsimp only
    by_cases hx : expired e0.exp now = true
    · left; simp [hx]
    · right
      exact ⟨e0.val, e0.exp, hr.bind e0 he0, by simpa using hx, by simp [hx]⟩

/-- **What C08 needs of a cache (`SoundCache`).** A `get` returns None or a value that a `set`
    stored under that very key, with no `clear` (nor `delete` of the key, nor later `set` of it) since. -/
theorem c15_sound_cache (c : Cfg) (ops : List (Op V)) (k : String) (now : Time) (v : V)
    (h : (step c (run c ops) (.get k now)).2 = .got (some v)) : StoredSinceClear ops k v := by
  rcases (c15_refines_map c ops).2 k now with h0 | ⟨v', e, hl, _, h1⟩
  · rw [h0] at h; cases h
  · rw [h1] at h
    cases h
    exact latest_stored hl

/-- **get returns the latest value unless expired, deleted, cleared or evicted** (exact, for a
    monotone clock starting at any `T0`): `latest` is `none` after a delete/clear; the deadline of a
    `set` with ttl None/≤ 0 is `none` and never reached; a deadline is reached AT `expires` (`≤`);
    `evicted` says the capacity loop popped the entry of the latest `set` (see `c15_evict_only_lru`
    for when it may). -/
theorem c15_get_latest (c : Cfg) (ops : List (Op V)) (k : String) (now : Time) (T0 : Time)
    (hm : monoFrom T0 (ops ++ [.get k now])) :
    (step c (run c ops) (.get k now)).2 = .got (match latest ops k with
      | none => none
      | some (v, e) => if expired e now || evicted c ops k then none else some v) := by
  obtain ⟨h1, h2⟩ := monoFrom_append hm
  have hg := ghost_run_mono c ops (ghost_init (V := V) T0) h1
  exact get_of_ghost c hg k now (fun _ _ _ hx => expired_mono h2.1 hx)

/-- `ttl` None, 0 or negative never expires: the binding carries no deadline -/
theorem c15_no_deadline (ops : List (Op V)) (k : String) (v : V) (ttl : Option Int) (now1 now2 : Time)
    (h : match ttl with | some t => t ≤ 0 | none => True) :
    latest (ops ++ [.set k v ttl now1 now2]) k = some (v, none) := by
  simp only [latest, aRun_append, aRun, aStep, ↓reduceIte, Option.some.injEq, Prod.mk.injEq, true_and]
  cases ttl with
  | none => rfl
  | some t =>
    have : ¬ (0 < t) := by simp only at h; omega
    simp [expiry, this]

/-- **Capacity eviction only of the least recently used, and only when full.**  If the `set`
    that ends the history pops `e` in its capacity loop then, with `to` = the keys of the whole
    history ordered by when they were last stored or found:
    the dict was over-full; at least `maxsize` *other* keys were stored or found since `e.key` last
    was (`keysSince` lists each once and never `e.key` itself); every key still held afterwards was
    stored or found more recently than `e.key` (so the victim is exactly the LRU entry of `_data`);
    and with `maxsize ≥ 1` a call pops at most one entry. -/
theorem c15_evict_only_lru (c : Cfg) (ops : List (Op V)) (k : String) (v : V) (ttl : Option Int) (now1 now2 : Time)
    (e : Entry V) (he : e ∈ capVictims c (run c ops) (.set k v ttl now1 now2)) :
    let ops' := ops ++ [.set k v ttl now1 now2]
    let to := touchOrder (trace c ops')
    c.maxsize < ((inserted (run c ops) k v ttl now1).length : Int)
    ∧ c.maxsize ≤ ((keysSince to e.key).length : Int)
    ∧ e.key ∉ keysSince to e.key ∧ (keysSince to e.key).Nodup
    ∧ (∀ k2 ∈ keys (run c ops'), k2 ∈ keysSince to e.key)
    ∧ (0 < c.maxsize → (capVictims c (run c ops) (.set k v ttl now1 now2)).length ≤ 1) := by
  intro ops' to
  have hr := rel_run c ops
  have hi := rel_inserted hr k v ttl now1 now2 (step c (run c ops) (.set k v ttl now1 now2)).2
  have hto : to = touch (touchOrder (trace c ops)) (.set k v ttl now1 now2) (step c (run c ops) (.set k v ttl now1 now2)).2 := by
    show touchOrderFrom [] (traceFrom c [] (ops ++ [_])) = _
    rw [traceFrom_append, touchOrderFrom_append]
    rfl
  rw [← hto] at hi
  obtain ⟨h1, h2, h3⟩ := victim_explained c.maxsize hi.sub he
  have hnd : to.Nodup := hi.toNodup
  refine ⟨h1, h2, ?_, ?_, ?_, ?_⟩
  · exact not_mem_keysSince hnd _
  · exact hnd.sublist (keysSince_sublist _ _)
  · intro k2 hk2
    apply h3
    have hrun : run c ops' = (step c (run c ops) (.set k v ttl now1 now2)).1 := by
      show runFrom c [] (ops ++ [_]) = _
      rw [runFrom_append]; rfl
    rw [hrun] at hk2
    have hsub : (step c (run c ops) (.set k v ttl now1 now2)).1.Sublist
        ((inserted (run c ops) k v ttl now1).drop ((inserted (run c ops) k v ttl now1).length - c.maxsize.toNat)) := by
      simp only [step]
      split
      · exact List.nil_sublist _
      · rw [← evictLoop_eq_drop]; exact purge_sublist _ _ _
    exact (keys_sublist hsub).subset hk2
  · intro hpos
    have hcap := (runFrom_inv c ops (inv_nil (V := V) c)).cap
    have hlen : (inserted (run c ops) k v ttl now1).length ≤ (run c ops).length + 1 := by
      simp only [inserted, List.length_append, List.length_cons, List.length_nil]
      have := remove_length_le k (run c ops)
      omega
    simp only [capVictims, List.length_take]
    have : (run c ops).length ≤ c.maxsize.toNat := hcap
    omega

/-- `capVictims` (the hypothesis of `c15_evict_only_lru`, the ghost of `c15_get_latest`) is exactly what the
    `while len(self._data) > self._maxsize: popitem(last=False)` loop pops: a prefix of the dict in recency order. -/
theorem c15_victims_are_popped (c : Cfg) (d : List (Entry V)) (k : String) (v : V) (ttl : Option Int) (now1 now2 : Time) :
    capVictims c d (.set k v ttl now1 now2) ++ evictLoop c.maxsize (inserted d k v ttl now1) = inserted d k v ttl now1 :=
  capVictims_append c d k v ttl now1 now2

/-- **Exactly LRU when nothing expires.**  In a history whose `set`s carry no positive ttl, whatever
    the clock does: a key is held iff it is bound and was not evicted for capacity; a `get` returns
    the latest value unless the key was deleted, cleared or evicted (and the victims are the least
    recently used entries, by `c15_evict_only_lru`). -/
theorem c15_lru_exact_no_ttl (c : Cfg) (ops : List (Op V)) (hn : noTtl ops) (k : String) :
    (k ∈ keys (run c ops) ↔ (latest ops k).isSome = true ∧ evicted c ops k = false)
    ∧ ∀ now, (step c (run c ops) (.get k now)).2 = .got (match latest ops k with
        | none => none
        | some (v, _) => if evicted c ops k then none else some v) := by
  obtain ⟨hg, hd⟩ := ghost_run_noTtl c ops (ghost_init (V := V) 0) (fun _ _ _ h => by cases h) hn
  constructor
  · constructor
    · intro hk
      obtain ⟨e, he, hek⟩ := mem_keys.mp hk
      subst hek
      obtain ⟨h1, h2⟩ := hg.held e he
      exact ⟨by show (aRun _ ops e.key).isSome = true; rw [h1]; rfl, h2⟩
    · intro ⟨h1, h2⟩
      apply Classical.byContradiction
      intro hk
      cases hl : latest ops k with
      | none => rw [hl] at h1; cases h1
      | some p =>
        obtain ⟨v, e⟩ := p
        rcases hg.gone k v e hl hk with hev | hx
        · rw [show evRun c [] (fun _ => false) ops k = evicted c ops k from rfl, h2] at hev; cases hev
        · rw [hd k v e hl] at hx; simp [expired] at hx
  · intro now
    have := get_of_ghost c hg k now (fun v e hk hx => by rw [hd k v e hk] at hx; simp [expired] at hx)
    refine this.trans ?_
    show _ = Out.got (match aRun _ ops k with | none => none | some (v, _) => if evRun c [] _ ops k then none else some v)
    cases hl : aRun (fun _ => none) ops k with
    | none => rfl
    | some p =>
      obtain ⟨v, e⟩ := p
      have he : e = none := hd k v e hl
      subst he
      simp [expired]

/-- **The observation spec holds of every history.**  `traceOk` is the decidable predicate the
    driver evaluates on the *implementation's* observations (results and `list(_data.keys())`
    after every call): capacity, result of every call, every disappearance of a key explained
    (delete, clear, deadline reached, or LRU eviction when over-full), no key appearing but the
    one stored, `_data` in recency order. -/
theorem c15_trace_ok [DecidableEq V] (c : Cfg) (ops : List (Op V)) : traceOk c.maxsize (trace c ops) = true :=
  traceOkFrom_model c ops (inv_nil c) rel_init

/-- **Atomicity.**  If every access of every method lies under the one lock, then for every set of
    threads, every list of calls per thread and EVERY schedule of single accesses, the execution is
    a sequential history of whole calls: the calls in the order in which they acquired the lock
    (`acqOrder`, a subsequence of the schedule).  `complete` lets the current lock holder finish;
    when nobody is inside a call the two configurations (shared state, every thread's results) are equal. -/
theorem c15_atomic_ops {S L : Type} (desc : List MethodDesc) (hall : AllUnderLock desc = true)
    (cf : Conf S L) (hq : Quiet cf) (hc : Conforms desc cf) (sched : List Nat) :
    (acqOrder cf sched).Sublist sched
    ∧ complete (exec cf sched) = execAtomic cf (acqOrder cf sched)
    ∧ (Quiet (exec cf sched) → exec cf sched = execAtomic cf (acqOrder cf sched)) := by
  obtain ⟨_, h2⟩ := exec_sim (linv_of_quiet hall hq hc) sched
  rw [complete_of_free hq.1] at h2
  exact ⟨acqOrder_sublist cf sched, h2, fun hq' => by rw [← h2, complete_of_free hq'.1]⟩

/-- each atomic step of a call that implements a cache op IS the model's `step` on the shared dict,
    its result appended to the calling thread's results: the sequential history of `c15_atomic_ops`
    is a run of `Cache.step` -/
theorem c15_atomic_step_is_model_step (c : Cfg) (cf : Conf (List (Entry V)) (List (Out V))) (i : Nat)
    (call : Call _ _) (cs : List (Call _ _)) (op : Op V) (htodo : (cf.th i).todo = call :: cs)
    (himp : Implements c call op) :
    (stepAtomic cf i).sh = (step c cf.sh op).1
    ∧ ((stepAtomic cf i).th i).loc = (cf.th i).loc ++ [(step c cf.sh op).2]
    ∧ ((stepAtomic cf i).th i).todo = cs
    ∧ ∀ j, j ≠ i → (stepAtomic cf i).th j = cf.th j :=
  stepAtomic_implements c cf i call cs op htodo himp

/-! ### non-vacuity: concrete histories where the interesting branches fire -/

/-- LRU: `get a` saves `a`, so `set c` pops `b`; values are the latest ones -/
example : (trace ({ maxsize := 2 } : Cfg) [Op.set "a" (1 : Nat) none 0 0, .set "b" 2 none 0 0, .get "a" 1, .set "c" 3 none 1 1,
                       .get "b" 1, .get "a" 1]).map (fun o => (o.out, o.keys))
    = [(.done, ["a"]), (.done, ["a", "b"]), (.got (some 1), ["b", "a"]), (.done, ["a", "c"]),
       (.got none, ["a", "c"]), (.got (some 1), ["c", "a"])] := by decide

/-- the victim of that `set c` is `b`, and `c15_evict_only_lru`'s hypothesis is satisfiable -/
example : (capVictims ({ maxsize := 2 } : Cfg) (run ({ maxsize := 2 } : Cfg) [Op.set "a" (1 : Nat) none 0 0, .set "b" 2 none 0 0, .get "a" 1])
    (.set "c" 3 none 1 1)).map (·.key) = ["b"] := by decide

/-- TTL: alive before the deadline, gone AT it; ttl 0 / negative never expire; the purge of a later `set`
    removes an expired entry; a slow `set` (clock passes the deadline inside the call) purges its own entry -/
example : (trace ({ maxsize := 2 } : Cfg) [Op.set "a" (1 : Nat) (some 2) 0 0, .get "a" 1, .get "a" 2, .set "a" 2 (some 0) 2 2,
                       .set "b" 3 (some (-1)) 2 2, .get "a" 99, .get "b" 99, .set "a" 4 (some 2) 99 99,
                       .set "b" 5 none 101 101, .set "a" 6 (some 2) 101 103]).map (fun o => (o.out, o.keys))
    = [(.done, ["a"]), (.got (some 1), ["a"]), (.got none, []), (.done, ["a"]), (.done, ["a", "b"]),
       (.got (some 2), ["b", "a"]), (.got (some 3), ["a", "b"]), (.done, ["b", "a"]), (.done, ["b"]),
       (.done, ["b"])] := by decide

/-- capacity 0 stores nothing; a negative capacity makes `set` raise after emptying the dict -/
example : (trace { maxsize := 0 } [Op.set "a" (1 : Nat) none 0 0, .get "a" 0]).map (fun o => (o.out, o.keys))
    = [(.done, []), (.got none, [])] := by decide
example : (trace { maxsize := -1 } [Op.set "a" (1 : Nat) none 0 0, .get "a" 0]).map (fun o => (o.out, o.keys))
    = [(.keyError, []), (.got none, [])] := by decide

/-- the monotone-clock hypothesis of `c15_get_latest` is satisfiable, `evicted` is not constantly false -/
example : monoFrom 0 ([Op.set "a" (1 : Nat) (some 2) 0 0, .get "a" 1] ++ [.get "a" 2]) := by simp [monoFrom, lastTime]
example : evicted ({ maxsize := 2 } : Cfg) [Op.set "a" (1 : Nat) none 0 0, .set "b" 2 none 0 0, .set "c" 3 none 0 0] "a" = true := by decide
example : evicted ({ maxsize := 2 } : Cfg) [Op.set "a" (1 : Nat) none 0 0, .set "b" 2 none 0 0, .set "c" 3 none 0 0] "b" = false := by decide

/-- the observation spec is not trivially true: it rejects a stale value, an over-full dict and a wrong victim -/
example : traceOk 2 [⟨Op.set "a" (1 : Nat) (some 2) 0 0, .done, ["a"]⟩, ⟨.get "a" 2, .got (some 1), ["a"]⟩] = false := by decide
example : traceOk 1 [⟨Op.set "a" (1 : Nat) none 0 0, .done, ["a"]⟩, ⟨.set "b" 2 none 0 0, .done, ["a", "b"]⟩] = false := by decide
example : traceOk 2 [⟨Op.set "a" (1 : Nat) none 0 0, .done, ["a"]⟩, ⟨.set "b" 2 none 0 0, .done, ["a", "b"]⟩,
                     ⟨.get "a" 0, .got (some 1), ["b", "a"]⟩, ⟨.set "c" 3 none 0 0, .done, ["b", "c"]⟩] = false := by decide

/-- the lock theorem's hypotheses are satisfiable, and `AllUnderLock` rejects an unlocked access -/
example : AllUnderLock [("get", [("read", true), ("pop", true)]), ("delete", [("pop", true)])] = true := by decide
example : AllUnderLock [("get", [("read", true)]), ("delete", [("pop", false)])] = false := by decide

end Rbacx.C15
