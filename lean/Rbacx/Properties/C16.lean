import Rbacx.Proofs.FileAtomic
import Rbacx.Proofs.FileEtag
import Rbacx.Proofs.FileSpecSound
/-
  C16 — The file policy source reports what is on disk; a file replaced through `atomic_write` is,
  at every instant and after an I/O failure or a crash of the writer at any step, either the complete
  old or the complete new content, and a failed write leaves no temporary file behind.

  Atomic write.  Quantifier: every program `prog` of the stated shape (`WellShaped prog = true`; the
  program traced from the real `atomic_write` is shown to have it by the per-run obligation
  `Rbacx/Run/C16_shape.lean`), every old file system in which the temp name is fresh (what `mkstemp`
  guarantees) and differs from the target, every data, every fault: `crashAfter n k` (the process dies
  after `n` complete steps and `k` bytes of the next – also: what a concurrent reader sees at that
  instant) and `raiseAt n k` (step `n` raises after `k` bytes), every `n`, every `k`.

  File source.  Quantifier: every history of `write c mtime | touch mtime | delete | etag | load`, every
  start state of the signature cache, every parser, every hash function (injective where stated).
  The proviso of the property – a content change that keeps both size and mtime is outside the claim –
  is the hypothesis `Proviso` (between consecutive tag observations) resp. the pair hypothesis
  `size ≠ size' ∨ mtime ≠ mtime'`.
-/
namespace Rbacx.C16
open Rbacx Rbacx.FileSrc

theorem wellShaped_canonical {prog : List AWStep} (h : WellShaped prog = true) :
    ∃ r0, (r0 = .outside ∨ r0 = .body) ∧ prog = canonical r0 (writeIdxs prog) := by
  simp only [WellShaped, Bool.or_eq_true, decide_eq_true_eq] at h
  rcases h with h | h
  · exact ⟨.outside, Or.inl rfl, h⟩
  · exact ⟨.body, Or.inr rfl, h⟩

theorem run_wellShaped (e : AWEnv) (fs0 : FS) (prog : List AWStep) (hshape : WellShaped prog = true)
    (hne : e.tmp ≠ e.target) (hfresh : fsGet fs0 e.tmp = none) (fault : Fault) :
    RunFacts e fs0 (newContent e.data (writeIdxs prog)) fault (runSteps e ⟨fs0, none⟩ prog fault) := by
  obtain ⟨r0, hr0, hprog⟩ := wellShaped_canonical hshape
  have := run_canonical e fs0 hne hfresh r0 hr0 (writeIdxs prog) fault
  rw [← hprog] at this
  exact this

/-- the target after a run under a fault -/
def targetAfter (e : AWEnv) (fs0 : FS) (prog : List AWStep) (fault : Fault) : Option File :=
  fsGet (runSteps e ⟨fs0, none⟩ prog fault).1.fs e.target

/-- the complete new file -/
def newFile (e : AWEnv) (prog : List AWStep) : File := ⟨newContent e.data (writeIdxs prog), e.now⟩

/-- **All or nothing.**  After any crash prefix (= at every instant of the run) and after any raising
    step, partial writes and partial flushes included, the target is the old file (absent if it did not
    exist) or the complete new file. -/
theorem c16_all_or_nothing (e : AWEnv) (fs0 : FS) (prog : List AWStep) (hshape : WellShaped prog = true)
    (hne : e.tmp ≠ e.target) (hfresh : fsGet fs0 e.tmp = none) (fault : Fault) :
    targetAfter e fs0 prog fault = fsGet fs0 e.target ∨ targetAfter e fs0 prog fault = some (newFile e prog) :=
  (run_wellShaped e fs0 prog hshape hne hfresh fault).allOrNothing

/-- **A failed write leaves no temp file**: after a raising step – whichever, after however many bytes –
    and after a run without fault, the temp name does not exist.  (A *killed* writer is exempt: no code
    runs after a kill, the temp file necessarily stays, and the property does not ask otherwise.) -/
theorem c16_failure_leaves_no_temp (e : AWEnv) (fs0 : FS) (prog : List AWStep) (hshape : WellShaped prog = true)
    (hne : e.tmp ≠ e.target) (hfresh : fsGet fs0 e.tmp = none) (fault : Fault) (hf : fault.isCrash = false) :
    fsGet (runSteps e ⟨fs0, none⟩ prog fault).1.fs e.tmp = none := by
  have h := run_wellShaped e fs0 prog hshape hne hfresh fault
  apply h.noTemp
  intro hc
  have := h.crashedOnly hc
  rw [hf] at this
  exact absurd this (by simp)

/-- without fault the write succeeds, the target is the complete new file and no temp file remains -/
theorem c16_success_writes_new (e : AWEnv) (fs0 : FS) (prog : List AWStep) (hshape : WellShaped prog = true)
    (hne : e.tmp ≠ e.target) (hfresh : fsGet fs0 e.tmp = none) :
    (runSteps e ⟨fs0, none⟩ prog .none).2 = .ok ∧ targetAfter e fs0 prog .none = some (newFile e prog) ∧
      fsGet (runSteps e ⟨fs0, none⟩ prog .none).1.fs e.tmp = none := by
  have h := run_wellShaped e fs0 prog hshape hne hfresh .none
  obtain ⟨h1, h2⟩ := h.success rfl
  exact ⟨h1, h2, h.noTemp (by rw [h1]; simp)⟩

/-- no other file is ever touched, under any fault -/
theorem c16_other_files_untouched (e : AWEnv) (fs0 : FS) (prog : List AWStep) (hshape : WellShaped prog = true)
    (hne : e.tmp ≠ e.target) (hfresh : fsGet fs0 e.tmp = none) (fault : Fault) (q : Path)
    (h1 : e.tmp ≠ q) (h2 : e.target ≠ q) :
    fsGet (runSteps e ⟨fs0, none⟩ prog fault).1.fs q = fsGet fs0 q :=
  (run_wellShaped e fs0 prog hshape hne hfresh fault).frame q h1 h2

/-- the run raises only when a step was made to raise, and is cut short only when the process was killed -/
theorem c16_outcome (e : AWEnv) (fs0 : FS) (prog : List AWStep) (hshape : WellShaped prog = true)
    (hne : e.tmp ≠ e.target) (hfresh : fsGet fs0 e.tmp = none) (fault : Fault) :
    ((runSteps e ⟨fs0, none⟩ prog fault).2 = .raised → fault.isRaise = true) ∧
    ((runSteps e ⟨fs0, none⟩ prog fault).2 = .crashed → fault.isCrash = true) :=
  ⟨(run_wellShaped e fs0 prog hshape hne hfresh fault).raisedOnly,
   (run_wellShaped e fs0 prog hshape hne hfresh fault).crashedOnly⟩

/-- the executable predicate the harness evaluates on the *implementation's* observations
    (`Spec.atomicOk`) is true of the model's own run, under every fault -/
theorem c16_model_meets_atomic_spec (e : AWEnv) (fs0 : FS) (prog : List AWStep) (hshape : WellShaped prog = true)
    (hne : e.tmp ≠ e.target) (hfresh : fsGet fs0 e.tmp = none) (fault : Fault) :
    Spec.atomicOk ((fsGet fs0 e.target).map (·.content)) (newContent e.data (writeIdxs prog))
      (runSteps e ⟨fs0, none⟩ prog fault).2
      ((targetAfter e fs0 prog fault).map (·.content))
      (if (fsGet (runSteps e ⟨fs0, none⟩ prog fault).1.fs e.tmp).isSome then 1 else 0) = true := by
  have h := run_wellShaped e fs0 prog hshape hne hfresh fault
  have h1 := h.allOrNothing
  have h2 := h.noTemp
  have h3 := h.okNew
  simp only [targetAfter]
  generalize runSteps e ⟨fs0, none⟩ prog fault = r at h1 h2 h3 ⊢
  obtain ⟨st, out⟩ := r
  simp only at h1 h2 h3 ⊢
  cases out with
  | ok => simp [Spec.atomicOk, h3 rfl, h2]
  | raised => rcases h1 with h1 | h1 <;> simp [Spec.atomicOk, h1, h2]
  | crashed => rcases h1 with h1 | h1 <;> simp [Spec.atomicOk, h1]

/-! ### non-vacuity: the shape is inhabited by the program the real function is, and faults do something -/

def sampleProg : List AWStep := canonical .outside [0]
def sampleEnv : AWEnv := { target := "p.json", tmp := ".rbacx.tmp.x", data := [[1, 2, 3, 4]], now := 7 }
def sampleFs : FS := [("p.json", ⟨[9, 9], 1⟩), ("other", ⟨[5], 2⟩)]

example : WellShaped sampleProg = true := by decide
example : WritesAllOnce sampleProg = true := by decide
example : WellShaped (canonical .body [0, 1, 2]) = true := by decide
example : sampleEnv.tmp ≠ sampleEnv.target := by decide
example : fsGet sampleFs sampleEnv.tmp = none := by decide
example : newFile sampleEnv sampleProg = ⟨[1, 2, 3, 4], 7⟩ := by decide
-- old and new are different files, and both outcomes occur
example : targetAfter sampleEnv sampleFs sampleProg .none = some ⟨[1, 2, 3, 4], 7⟩ := by decide
example : targetAfter sampleEnv sampleFs sampleProg (.raiseAt 2 2) = some ⟨[9, 9], 1⟩ := by decide
example : targetAfter sampleEnv sampleFs sampleProg (.crashAfter 4 0) = some ⟨[9, 9], 1⟩ := by decide
example : targetAfter sampleEnv sampleFs sampleProg (.crashAfter 5 0) = some ⟨[1, 2, 3, 4], 7⟩ := by decide
-- a kill leaves the temp file (the exemption is real), an exception does not
example : (fsGet (runSteps sampleEnv ⟨sampleFs, none⟩ sampleProg (.crashAfter 3 2)).1.fs ".rbacx.tmp.x").isSome = true := by decide
example : fsGet (runSteps sampleEnv ⟨sampleFs, none⟩ sampleProg (.raiseAt 3 2)).1.fs ".rbacx.tmp.x" = none := by decide
-- the shape matters: writing in place, or unlinking only on success, breaks the statements
example : WellShaped [⟨.openTrunc .target, .body⟩, ⟨.write .target 0, .withBody⟩, ⟨.close .target, .withExit⟩] = false := by decide
example : targetAfter sampleEnv sampleFs
    [⟨.openTrunc .target, .body⟩, ⟨.write .target 0, .withBody⟩, ⟨.close .target, .withExit⟩] (.crashAfter 2 0) = some ⟨[], 7⟩ := by decide
example : (fsGet (runSteps sampleEnv ⟨sampleFs, none⟩
    [⟨.mkstemp true, .outside⟩, ⟨.fdopen .temp, .body⟩, ⟨.write .temp 0, .withBody⟩, ⟨.close .temp, .withExit⟩,
     ⟨.replace .temp .target, .body⟩, ⟨.unlink .temp true, .outside⟩] (.raiseAt 4 0)).1.fs ".rbacx.tmp.x").isSome = true := by decide

/-! ## the file source -/

variable {Tag Doc : Type}

/-- **`load` is the disk**: every `load()` in every history, whatever the cache holds, returns the parse –
    by the format the extension selects – of the content on disk at that moment (`none`: no file). -/
theorem c16_load_is_disk (cfg : SrcCfg Tag Doc) (w : World Tag) (ops : List FOp) (d : Option File) (r : Option Doc)
    (h : (d, Obs.load r) ∈ trace cfg w ops) :
    r = d.map fun f => cfg.parse (formatOfPath cfg.path) f.content :=
  trace_load_is_disk cfg ops w d r h

/-- **Unchanged file ⇒ equal tags**: after a first `etag()` from *any* cache state, every `etag()` in any
    sequence of `etag()`/`load()` calls (no modification in between) returns the same tag. -/
theorem c16_etag_stable (cfg : SrcCfg Tag Doc) (disk : Option File) (st : SrcState Tag) (ops : List FOp)
    (hr : ∀ op ∈ ops, op.isRead = true) (d : Option File) (t : Option (ETag Tag))
    (h : (d, Obs.etag t) ∈ trace cfg ⟨disk, (etag cfg disk st).1⟩ ops) :
    t = (etag cfg disk st).2 :=
  (trace_reads_stable cfg ops hr disk st d t h).2

/-- Every tag in every history that respects the proviso is the true one: the hash of the content on
    disk (plus the mtime when so configured), `none` exactly when there is no file. -/
theorem c16_etag_truthful (cfg : SrcCfg Tag Doc) (disk0 : Option File) (ops : List FOp)
    (hp : Proviso none (etagDisks disk0 ops)) (d : Option File) (t : Option (ETag Tag))
    (h : (d, Obs.etag t) ∈ trace cfg ⟨disk0, SrcState.empty⟩ ops) :
    t = trueTag cfg d :=
  trace_etag_truthful cfg ops ⟨disk0, SrcState.empty⟩ none (cacheInv_empty cfg none) hp d t h

/-- the signature-cache invariant holds after every history that respects the proviso -/
theorem c16_cache_invariant (cfg : SrcCfg Tag Doc) (disk0 : Option File) (pre : List FOp)
    (hp : Proviso none (etagDisks disk0 pre)) :
    CacheInv cfg (lastObs none disk0 pre) (runWorld cfg ⟨disk0, SrcState.empty⟩ pre).src :=
  cacheInv_runWorld cfg pre ⟨disk0, SrcState.empty⟩ none (cacheInv_empty cfg none) hp

/-- **Changed content ⇒ changed tag** (two observations).  In a world whose cache satisfies the invariant
    (by `c16_cache_invariant`: after every earlier history), observe the tag of file `f`, let any writes,
    touches, deletes and loads happen, observe the tag of file `f'`: if the content differs together with
    the size or the mtime, the tags differ.  `hfirst` says the first observation itself is within the
    claim (relative to the observation before it).  A content change that keeps both size and mtime is
    outside the claim – and is indeed not detected: see the example below. -/
theorem c16_etag_changes (cfg : SrcCfg Tag Doc) (hsha : Function.Injective cfg.sha)
    (last : Option File) (w : World Tag) (hinv : CacheInv cfg last w.src) (f f' : File) (mods : List FOp)
    (hmods : ∀ op ∈ mods, op ≠ .etag) (hw : w.disk = some f)
    (hfirst : ∀ f0, last = some f0 → f0.content ≠ f.content → f0.size ≠ f.size ∨ f0.mtime ≠ f.mtime)
    (hd' : (runWorld cfg ⟨w.disk, (etag cfg w.disk w.src).1⟩ mods).disk = some f')
    (hcontent : f.content ≠ f'.content) (hsig : f.size ≠ f'.size ∨ f.mtime ≠ f'.mtime) :
    (etag cfg w.disk w.src).2 ≠
      (etag cfg (runWorld cfg ⟨w.disk, (etag cfg w.disk w.src).1⟩ mods).disk
        (runWorld cfg ⟨w.disk, (etag cfg w.disk w.src).1⟩ mods).src).2 := by
  rw [hd']
  obtain ⟨h1, h2⟩ := etag_truthful cfg last w.disk w.src hinv
    (by intro f0 f1 hl hf1; rw [hw] at hf1; cases hf1; exact hfirst f0 hl)
  rw [runWorld_src_of_no_etag cfg mods hmods]
  simp only
  obtain ⟨h3, _⟩ := etag_truthful cfg w.disk (some f') (etag cfg w.disk w.src).1 h2
    (by intro f1 f2 hf1 hf2 _; rw [hw] at hf1; cases hf1; cases hf2; exact hsig)
  rw [h1, h3, hw]
  exact trueTag_ne_of_content cfg hsha f f' hcontent

/-- **Changed content ⇒ changed tag** (whole histories).  In every history that respects the proviso,
    any two tag observations – however far apart – of files with different content are different. -/
theorem c16_etag_changes_history (cfg : SrcCfg Tag Doc) (hsha : Function.Injective cfg.sha)
    (disk0 : Option File) (ops : List FOp) (hp : Proviso none (etagDisks disk0 ops))
    (f f' : File) (t t' : Option (ETag Tag))
    (h : (some f, Obs.etag t) ∈ trace cfg ⟨disk0, SrcState.empty⟩ ops)
    (h' : (some f', Obs.etag t') ∈ trace cfg ⟨disk0, SrcState.empty⟩ ops)
    (hcontent : f.content ≠ f'.content) : t ≠ t' := by
  rw [c16_etag_truthful cfg disk0 ops hp _ _ h, c16_etag_truthful cfg disk0 ops hp _ _ h']
  exact trueTag_ne_of_content cfg hsha f f' hcontent

/-- equal content ⇒ equal tag across rewrites too, in the default mode -/
theorem c16_etag_same_content (cfg : SrcCfg Tag Doc) (hm : cfg.includeMtime = false)
    (disk0 : Option File) (ops : List FOp) (hp : Proviso none (etagDisks disk0 ops))
    (f f' : File) (t t' : Option (ETag Tag))
    (h : (some f, Obs.etag t) ∈ trace cfg ⟨disk0, SrcState.empty⟩ ops)
    (h' : (some f', Obs.etag t') ∈ trace cfg ⟨disk0, SrcState.empty⟩ ops)
    (hcontent : f.content = f'.content) : t = t' := by
  rw [c16_etag_truthful cfg disk0 ops hp _ _ h, c16_etag_truthful cfg disk0 ops hp _ _ h']
  simp [trueTag, hm, hcontent]

/-- **mtime mode**: with `include_mtime_in_etag`, two observations with different mtimes have different
    tags – a touch alone changes the tag.  (A touch changes the signature, so it never falls under the
    proviso by itself.) -/
theorem c16_mtime_mode (cfg : SrcCfg Tag Doc) (hm : cfg.includeMtime = true)
    (disk0 : Option File) (ops : List FOp) (hp : Proviso none (etagDisks disk0 ops))
    (f f' : File) (t t' : Option (ETag Tag))
    (h : (some f, Obs.etag t) ∈ trace cfg ⟨disk0, SrcState.empty⟩ ops)
    (h' : (some f', Obs.etag t') ∈ trace cfg ⟨disk0, SrcState.empty⟩ ops)
    (hmt : f.mtime ≠ f'.mtime) : t ≠ t' := by
  rw [c16_etag_truthful cfg disk0 ops hp _ _ h, c16_etag_truthful cfg disk0 ops hp _ _ h']
  exact trueTag_ne_of_mtime cfg hm f f' hmt

/-- the `etag()` observations of a trace: (disk at that moment, answer) -/
def etagObs (tr : List (Option File × Obs Tag Doc)) : List (Option File × Option (ETag Tag)) :=
  tr.filterMap fun e => match e.2 with | .etag t => some (e.1, t) | _ => none

theorem mem_etagObs (tr : List (Option File × Obs Tag Doc)) (a : Option File × Option (ETag Tag))
    (h : a ∈ etagObs tr) : (a.1, Obs.etag a.2) ∈ tr := by
  simp only [etagObs, List.mem_filterMap] at h
  obtain ⟨⟨d, o⟩, hm, ho⟩ := h
  cases o with
  | etag t => simp only [Option.some.injEq] at ho; rw [← ho]; exact hm
  | unit => simp at ho
  | load r => simp at ho

/-- the executable tag rules the harness evaluates on the *implementation's* tags (`Spec.etagsOkOn`:
    a tag iff a file; equal tags iff equal content and, in mtime mode, equal mtime – over all pairs of
    observations) are true of the model's own tags in every history that respects the proviso -/
theorem c16_model_meets_etag_spec [DecidableEq Tag] (cfg : SrcCfg Tag Doc) (hsha : Function.Injective cfg.sha)
    (disk0 : Option File) (ops : List FOp) (hp : Proviso none (etagDisks disk0 ops)) :
    Spec.etagsOkOn cfg.includeMtime (etagObs (trace cfg ⟨disk0, SrcState.empty⟩ ops)) = true :=
  etagsOkOn_of_truthful cfg hsha _ fun a ha =>
    c16_etag_truthful cfg disk0 ops hp a.1 a.2 (mem_etagObs _ a ha)

/-- the concrete touch: `etag(); touch m'; etag()` from any state satisfying the invariant -/
theorem c16_touch_changes_tag (cfg : SrcCfg Tag Doc) (hm : cfg.includeMtime = true)
    (last : Option File) (st : SrcState Tag) (hinv : CacheInv cfg last st) (f : File) (m' : Nat) (hne : f.mtime ≠ m')
    (hfirst : ∀ f0, last = some f0 → f0.content ≠ f.content → f0.size ≠ f.size ∨ f0.mtime ≠ f.mtime) :
    (etag cfg (some f) st).2 ≠ (etag cfg (some ⟨f.content, m'⟩) (etag cfg (some f) st).1).2 := by
  obtain ⟨h1, h2⟩ := etag_truthful cfg last (some f) st hinv
    (by intro f0 f1 hl hf1; cases hf1; exact hfirst f0 hl)
  obtain ⟨h3, _⟩ := etag_truthful cfg (some f) (some ⟨f.content, m'⟩) (etag cfg (some f) st).1 h2
    (by intro f1 f2 hf1 hf2 hc; cases hf1; cases hf2; exact absurd rfl hc)
  rw [h1, h3]
  exact trueTag_ne_of_mtime cfg hm f ⟨f.content, m'⟩ hne

/-! ### non-vacuity -/

def idCfg (mt : Bool) (path : String := "p.json") : SrcCfg Content (Format × Content) :=
  { sha := id, parse := fun fmt c => (fmt, c), includeMtime := mt, path := path }

def obsOf (mt : Bool) (disk0 : Option File) (ops : List FOp) : List (Option (Option (ETag Content))) :=
  (trace (idCfg mt) ⟨disk0, SrcState.empty⟩ ops).map fun e => match e.2 with | .etag t => some t | _ => none

-- a same-size rewrite with a new mtime is detected; the proviso holds of this history
example : obsOf false none [.write [1, 2] 5, .etag, .write [3, 4] 6, .etag] =
    [none, some (some ([1, 2], none)), none, some (some ([3, 4], none))] := by decide
example : Proviso none (etagDisks none [.write [1, 2] 5, .etag, .write [3, 4] 6, .etag]) := by
  simp [etagDisks, Proviso, applyMod, File.size]
-- the excluded case is real: same size, same mtime, different content ⇒ the tag does not move
example : obsOf false none [.write [1, 2] 5, .etag, .write [3, 4] 5, .etag] =
    [none, some (some ([1, 2], none)), none, some (some ([1, 2], none))] := by decide
example : ¬ Proviso none (etagDisks none [.write [1, 2] 5, .etag, .write [3, 4] 5, .etag]) := by
  simp [etagDisks, Proviso, applyMod, File.size]
-- touch: invisible by default, visible in mtime mode; delete ⇒ none, and the cache is dropped
example : obsOf false none [.write [1] 5, .etag, .touch 6, .etag, .delete, .etag] =
    [none, some (some ([1], none)), none, some (some ([1], none)), none, some none] := by decide
example : obsOf true none [.write [1] 5, .etag, .touch 6, .etag] =
    [none, some (some ([1], some 5)), none, some (some ([1], some 6))] := by decide
-- extension dispatch
example : formatOfPath "/d/policy.YML" = .yaml ∧ formatOfPath "p.yaml" = .yaml ∧ formatOfPath "p.json" = .json ∧
    formatOfPath "p.yml.bak" = .json ∧ formatOfPath "policy" = .json := by decide

end Rbacx.C16
