import Rbacx.Model.Tools
import Rbacx.Properties.C02
import Rbacx.Proofs.GuardWitness
import Rbacx.Proofs.Lint
/-
  C17 — one document, one meaning: formats, tools and default algorithm agree.

  What a theorem carries here: the format-detection priority, the CLI status function, and the
  default algorithm on every evaluation path as a function of the four default constants the model
  takes from the source (`Consts`, re-extracted on every run). That JSON and YAML renderings parse to
  equal objects and that jsonschema implements the schema are library behaviour (oracles), checked
  differentially by the harness.
-/
namespace Rbacx.C17
open Rbacx Classical

/-! ### format detection: explicit hint > content type > file extension > JSON -/

theorem c17_detect_explicit (fmt : String) (ct fn : Option String) (h : PyVal.asciiLower fmt = "json" ∨ PyVal.asciiLower fmt = "yaml") :
    detectFormat (some fmt) ct fn = (if PyVal.asciiLower fmt = "json" then .json else .yaml) := by
  rcases h with h | h <;> simp [detectFormat, h]

theorem c17_detect_content_type (fmt : Option String) (ct : String) (fn : Option String)
    (hf : (fmt.map PyVal.asciiLower).getD "" ≠ "json" ∧ (fmt.map PyVal.asciiLower).getD "" ≠ "yaml") (hne : PyVal.asciiLower ct ≠ "")
    (hm : hasInfix (PyVal.asciiLower ct) "yaml" = true ∨ hasInfix (PyVal.asciiLower ct) "x-yaml" = true ∨
          hasInfix (PyVal.asciiLower ct) "json" = true) :
    detectFormat fmt (some ct) fn =
      (if hasInfix (PyVal.asciiLower ct) "yaml" = true ∨ hasInfix (PyVal.asciiLower ct) "x-yaml" = true then .yaml else .json) := by
  have h1 : ((fmt.map PyVal.asciiLower).getD "" == "json") = false := by simpa using hf.1
  have h2 : ((fmt.map PyVal.asciiLower).getD "" == "yaml") = false := by simpa using hf.2
  have h3 : (PyVal.asciiLower ct != "") = true := by simpa using hne
  simp only [detectFormat, h1, h2, Bool.false_eq_true, if_false, Option.map_some, Option.getD_some, h3, Bool.true_and]
  by_cases hy : (hasInfix (PyVal.asciiLower ct) "yaml" || hasInfix (PyVal.asciiLower ct) "x-yaml") = true
  · have hy' := hy
    simp only [Bool.or_eq_true] at hy'
    simp [hy, hy']
  · have hy' := hy
    simp only [Bool.or_eq_true] at hy'
    have hj : hasInfix (PyVal.asciiLower ct) "json" = true := by
      rcases hm with h | h | h
      · exact absurd (Or.inl h) hy'
      · exact absurd (Or.inr h) hy'
      · exact h
    simp [hy, hy', hj]

theorem c17_detect_extension (fn : String)
    (hne : PyVal.asciiLower fn ≠ "") :
    detectFormat none none (some fn) =
      (if PyVal.strEndsWith (PyVal.asciiLower fn) ".yaml" = true ∨ PyVal.strEndsWith (PyVal.asciiLower fn) ".yml" = true then .yaml else .json) := by
  have h3 : (PyVal.asciiLower fn != "") = true := by simpa using hne
  simp [detectFormat, h3]

theorem c17_detect_default : detectFormat none none none = .json := by decide

/-! ### command line: success status versus the schema-error status, judged per validated document -/

theorem all_id_iff (verdicts : List Bool) : verdicts.all id = true ↔ ∀ v ∈ verdicts, v = true := by
  simp [List.all_eq_true]

theorem not_all_id_iff (verdicts : List Bool) : verdicts.all id = false ↔ ∃ v ∈ verdicts, v = false := by
  constructor
  · intro h
    have : ¬ ∀ v ∈ verdicts, v = true := fun hall => by rw [(all_id_iff verdicts).mpr hall] at h; simp at h
    simp only [not_forall] at this
    obtain ⟨v, hv, hne⟩ := this
    exact ⟨v, hv, by simpa using hne⟩
  · rintro ⟨v, hv, hf⟩
    cases hb : verdicts.all id with
    | false => rfl
    | true => rw [(all_id_iff verdicts).mp hb v hv] at hf; simp at hf

theorem c17_cli_validate (strict : Bool) (verdicts : List Bool) (n : Nat) :
    (cliStatus .validate strict true verdicts n = EXIT_OK ↔ ∀ v ∈ verdicts, v = true) ∧
    (cliStatus .validate strict true verdicts n = EXIT_SCHEMA_ERRORS ↔ ∃ v ∈ verdicts, v = false) := by
  simp only [cliStatus]
  have h1 := all_id_iff verdicts
  have h2 := not_all_id_iff verdicts
  generalize verdicts.all id = b at h1 h2 ⊢
  cases b
  · have he := h2.mp rfl
    have hn : ¬ ∀ v ∈ verdicts, v = true := fun h => by simpa using h1.mpr h
    simp only [Bool.not_true, Bool.false_eq_true, if_false, EXIT_OK, EXIT_SCHEMA_ERRORS]
    exact ⟨⟨fun h => by omega, fun h => absurd h hn⟩, ⟨fun _ => he, fun _ => trivial⟩⟩
  · have ha := h1.mp rfl
    have hn : ¬ ∃ v ∈ verdicts, v = false := fun h => by simpa using h2.mpr h
    simp only [Bool.not_true, Bool.false_eq_true, if_false, if_true, EXIT_OK, EXIT_SCHEMA_ERRORS]
    exact ⟨⟨fun _ => ha, fun _ => trivial⟩, ⟨fun h => by omega, fun h => absurd h hn⟩⟩

theorem c17_cli_check (strict : Bool) (verdicts : List Bool) (n : Nat) :
    (cliStatus .check strict true verdicts n = EXIT_SCHEMA_ERRORS ↔ ∃ v ∈ verdicts, v = false) ∧
    ((∀ v ∈ verdicts, v = true) →
      cliStatus .check strict true verdicts n = (if strict = true ∧ n ≠ 0 then EXIT_LINT_ERRORS else EXIT_OK)) := by
  simp only [cliStatus]
  have h1 := all_id_iff verdicts
  have h2 := not_all_id_iff verdicts
  generalize verdicts.all id = b at h1 h2 ⊢
  cases b
  · have he := h2.mp rfl
    have hn : ¬ ∀ v ∈ verdicts, v = true := fun h => by simpa using h1.mpr h
    simp only [Bool.not_true, Bool.false_eq_true, if_false, Bool.not_false, if_true]
    exact ⟨⟨fun _ => he, fun _ => trivial⟩, fun h => absurd h hn⟩
  · have hn : ¬ ∃ v ∈ verdicts, v = false := fun h => by simpa using h2.mpr h
    simp only [Bool.not_true, Bool.false_eq_true, if_false]
    refine ⟨⟨fun h => ?_, fun h => absurd h hn⟩, fun _ => ?_⟩
    · exfalso; split at h <;> simp [EXIT_LINT_ERRORS, EXIT_OK, EXIT_SCHEMA_ERRORS] at h
    · cases strict <;> simp

theorem c17_cli_env (cmd : CliCmd) (hc : cmd ≠ .lint) (strict : Bool) (verdicts : List Bool) (n : Nat) :
    cliStatus cmd strict false verdicts n = EXIT_ENV := by
  cases cmd <;> simp_all [cliStatus]


/-! ### parser dispatch: one text, one parser — on every delivery path

  `parsePolicyText` is the ONE function every delivery path calls (cli.py and FilePolicySource with the file name as the only hint,
  HTTPPolicySource with URL and Content-Type, S3PolicySource through `parsePolicyBytes` with the key: checked syntactically on every
  run, harness/extractors/src_translation_cli.py `delivery`).  The parsers are oracles; what is proved is WHICH one is consulted. -/

/-- the text is handed to exactly the parser `detectFormat` names: the JSON oracle's outcome as it is, or the YAML oracle's
    outcome with an empty document read as `{}` and anything but a mapping rejected -/
theorem c17_parse_dispatch (P : Parsers) (text : PyVal) (fmt ct fn : Option String) :
    (detectFormat fmt ct fn = .json → parsePolicyText P text fmt ct fn = P.jsonLoads text) ∧
    (detectFormat fmt ct fn = .yaml → parsePolicyText P text fmt ct fn = parseYaml P text) ∧
    (∀ (fmt' ct' fn' : Option String), detectFormat fmt' ct' fn' = detectFormat fmt ct fn →
      parsePolicyText P text fmt' ct' fn' = parsePolicyText P text fmt ct fn) ∧
    (∀ (decode : PyVal → PyVal → PyX.Res) (data enc : PyVal), decode data enc = .ok text →
      parsePolicyBytes P decode data enc fmt ct fn = parsePolicyText P text fmt ct fn) := by
  refine ⟨fun h => by simp [parsePolicyText, h], fun h => by simp [parsePolicyText, h], fun f c n h => by simp [parsePolicyText, h],
    fun decode data enc h => by simp [parsePolicyBytes, h]⟩

/-- YAML: `None` (an empty document) is the empty policy, a mapping is itself, any other value is a ValueError, a failed import an
    ImportError; the oracle's own exceptions pass -/
theorem c17_parse_yaml (P : Parsers) (text : PyVal) (m : PyVal) (hi : P.importYaml = .ok m) :
    (P.yamlSafeLoad text = .ok PyVal.none → parseYaml P text = .ok (.dict [])) ∧
    (∀ kvs, P.yamlSafeLoad text = .ok (.dict kvs) → parseYaml P text = .ok (.dict kvs)) ∧
    (∀ v, P.yamlSafeLoad text = .ok v → v.isNone = false → v.isDict = false → ∃ e, parseYaml P text = .error e ∧ e.cls = "ValueError") ∧
    (∀ e, P.yamlSafeLoad text = .error e → parseYaml P text = .error e) := by
  refine ⟨fun h => by simp [parseYaml, hi, h], fun kvs h => by simp [parseYaml, hi, h], fun v h hn hd => ?_, fun e h => by simp [parseYaml, hi, h]⟩
  cases v <;> simp_all [parseYaml, PyVal.isNone, PyVal.isDict]

/-! ### the command functions, outcome by outcome (`cliRun`) against the status function (`cliStatus`) -/

/-- the verdicts `cliVerdicts` reports are the validator's outcomes, value by value, when no exception escapes -/
theorem cliVerdicts_ok (validate : PyVal → PyX.Res) (ds : List PyVal)
    (h : ∀ d ∈ ds, ∀ e, validate d = .error e → escapesValidation e = false) :
    cliVerdicts validate ds = .ok (ds.map fun d => (validate d).toBool) := by
  induction ds with
  | nil => rfl
  | cons d ds ih =>
    have ih' := ih (fun d' hd' => h d' (List.mem_cons_of_mem _ hd'))
    simp only [cliVerdicts, ih', List.map_cons]
    cases hv : validate d with
    | ok v => rfl
    | error e => simp [h d (List.mem_cons_self) e hv, Except.toBool]

/-- `validate` / `check` / `lint` return exactly `cliStatus` of the verdicts: when the input loads, the validated values are `ds`,
    no exception of the validator escapes (none is a RuntimeError or outside `Exception`), and the linter returns the list `issues` -/
theorem c17_cli_run_status (cmd : CliCmd) (w : CliWorld) (strict policyset : Bool) (path : Option String) (reqArg req doc : PyVal)
    (ds issues : List PyVal)
    (hreq : w.parseRequireAttrs reqArg = .ok req) (hload : cliLoad w path = .ok doc) (hds : cliValidated policyset doc = .ok ds)
    (hval : ∀ d ∈ ds, ∀ e, w.validate d = .error e → escapesValidation e = false)
    (hlint : (if policyset then w.lintSet doc req else w.lintPolicy doc req) = .ok (.list issues)) :
    cliRun cmd w strict policyset path reqArg =
      .ok (cliStatus cmd strict true (ds.map fun d => (w.validate d).toBool) issues.length) := by
  have hv := cliVerdicts_ok w.validate ds hval
  have hl : cliLintPhase w strict policyset doc req = .ok (if strict && issues.length != 0 then EXIT_LINT_ERRORS else EXIT_OK) := by
    simp only [cliLintPhase, hlint, PyX.iterE, Py.iter]
    cases issues <;> simp
  cases cmd with
  | lint => simp [cliRun, hreq, hload, hl, cliStatus]
  | validate => simp [cliRun, cliLoadValidate, hload, cliValidatePhase, hds, hv, cliStatus]
  | check =>
    simp only [cliRun, hreq, hload, cliValidatePhase, hds, hv, cliStatus, hl]
    by_cases ha : (List.map (fun d => (w.validate d).toBool) ds).all id = true <;> simp [ha]

/-- the environment status: a RuntimeError of the validator (jsonschema missing) on the first value that does not validate cleanly
    is EXIT_ENV for `validate` and `check` — but with `--policyset` and NO child nothing is validated and the status is that of an
    empty verdict list (where the coarser `cliStatus … false …` says EXIT_ENV) -/
theorem c17_cli_run_env (w : CliWorld) (strict policyset : Bool) (path : Option String) (reqArg req doc d : PyVal) (ds : List PyVal)
    (e : PyX.Exc) (hreq : w.parseRequireAttrs reqArg = .ok req) (hload : cliLoad w path = .ok doc)
    (hds : cliValidated policyset doc = .ok (d :: ds)) (he : w.validate d = .error e) (hr : PyX.isSubclass e.cls "RuntimeError" = true) :
    cliRun .validate w strict policyset path reqArg = .ok EXIT_ENV ∧ cliRun .check w strict policyset path reqArg = .ok EXIT_ENV := by
  have hv : cliVerdicts w.validate (d :: ds) = .error e := by simp [cliVerdicts, he, escapesValidation, hr]
  constructor <;> simp [cliRun, cliLoadValidate, hreq, hload, cliValidatePhase, hds, hv, hr]

/-- an unreadable or unparsable input is an EXCEPTION that escapes `lint` and `check` (and `validate`, unless it is a RuntimeError):
    no command function returns EXIT_IO -/
theorem c17_cli_run_load_error (w : CliWorld) (strict policyset : Bool) (path : Option String) (reqArg req : PyVal) (e : PyX.Exc)
    (hreq : w.parseRequireAttrs reqArg = .ok req) (hload : cliLoad w path = .error e) :
    cliRun .lint w strict policyset path reqArg = .error e ∧ cliRun .check w strict policyset path reqArg = .error e ∧
    cliRun .validate w strict policyset path reqArg = (if PyX.isSubclass e.cls "RuntimeError" then .ok EXIT_ENV else .error e) := by
  simp [cliRun, cliLoadValidate, hreq, hload]

/-! non-vacuity: a world in which a two-child set read from STDIN has one conforming and one non-conforming child -/
def exampleWorld : CliWorld :=
  { openRead := fun _ => .error { cls := "FileNotFoundError" }, stdinRead := .ok (.str "T"),
    parsers := { jsonLoads := fun _ => .ok (.dict [("policies", .list [.int 1, .int 2])]), importYaml := .ok PyVal.none,
                 yamlSafeLoad := fun _ => .ok PyVal.none },
    parseRequireAttrs := fun _ => .ok (.dict []),
    validate := fun d => if PyVal.pyEq d (.int 1) then .ok PyVal.none else .error { cls := "ValidationError" },
    lintPolicy := fun _ _ => .ok (.list []), lintSet := fun _ _ => .ok (.list [.dict []]) }

example : cliRun .validate exampleWorld false true Option.none PyVal.none = .ok EXIT_SCHEMA_ERRORS := by rfl
example : cliRun .check exampleWorld true false Option.none PyVal.none = .ok EXIT_SCHEMA_ERRORS := by rfl
example : cliRun .lint exampleWorld true true Option.none PyVal.none = .ok EXIT_LINT_ERRORS := by rfl
example : cliRun .lint exampleWorld true true (some "p.json") PyVal.none = .error { cls := "FileNotFoundError" } := by rfl

/-- `main` hands the command function's outcome through: its status (an `int`) is the process status, an exception that escapes
    the command function escapes `main`; no subcommand is EXIT_USAGE -/
theorem c17_cli_main (buildParser : PyX.Res) (parseArgs callFunc : PyVal → PyX.Res) (argv parser args : PyVal)
    (hb : buildParser = .ok parser) (hp : parseArgs argv = .ok args) :
    (PyX.hasattr args "func" = false → cliMain buildParser parseArgs callFunc argv = .ok (.int EXIT_USAGE)) ∧
    (PyX.hasattr args "func" = true →
      (∀ r : Except PyX.Exc Nat, callFunc args = encExit r → cliMain buildParser parseArgs callFunc argv = encExit r)) := by
  refine ⟨fun h => by simp [cliMain, hb, hp, h], fun h r hr => ?_⟩
  cases r with
  | error e => simp [cliMain, hb, hp, h, hr, encExit]
  | ok n => simp [cliMain, hb, hp, h, hr, encExit, PyX.intE]

/-! ### the default combining algorithm -/

/-- every evaluation path and the linter default to deny-overrides -/
def DefaultsUniform (c : Consts) : Prop :=
  c.interpDefault = "deny-overrides" ∧ c.setDefault = "deny-overrides" ∧
  c.compilerDefault = "deny-overrides" ∧ c.lintDefault = "deny-overrides"

instance (c : Consts) : Decidable (DefaultsUniform c) := by unfold DefaultsUniform; exact inferInstance

/-- a document that names no algorithm (absent, null or empty) -/
def NoAlgorithm (doc : PyVal) : Prop := (doc.get "algorithm").truthy = false

theorem algo_default (doc : PyVal) (h : NoAlgorithm doc) : lowerField (doc.get "algorithm") "deny-overrides" = .ok "deny-overrides" := by
  unfold NoAlgorithm at h
  simp [lowerField, PyVal.por, h]
  decide

/-- reference evaluator and children of a set: any applicable deny wins -/
theorem c17_default_deny_wins_reference (cx : CondCtx) (c : Consts) (hu : DefaultsUniform c) (p : PyVal)
    (hn : NoAlgorithm p) (outs : List Outcome) (ho : outcomes cx (rulesOf p) = .ok outs)
    (hd : ∃ r ∈ rulesOf p, C02.RuleDenies cx r) :
    ∃ raw, evaluate cx c.interpDefault p = .ok raw ∧ raw.decision = "deny" := by
  rw [hu.1]
  obtain ⟨raw, he, hdec⟩ := C02.c02_deny_overrides cx "deny-overrides" p outs (algo_default p hn) ho
  exact ⟨raw, he, by rw [hdec, if_pos hd]⟩

/-- the engine (compiled path): within the tier it selects, any applicable deny wins -/
theorem c17_default_deny_wins_engine (cx : CondCtx) (c : Consts) (hu : DefaultsUniform c) (p : PyVal)
    (hs : p.hasKey "policies" = false) (hn : NoAlgorithm p) (selected : List PyVal) (outs : List Outcome)
    (hsel : selected = selectBucket cx.o (isStrict cx.env)
        ((rulesOf p).filter (isCandidate · (if (cx.env.get "action").isNone then "" else cx.o.pyStr (cx.env.get "action"))))
        (if ((PyVal.por (cx.env.get "resource") (.dict [])).get "type").isNone then none
          else some (cx.o.pyStr ((PyVal.por (cx.env.get "resource") (.dict [])).get "type")))
        (PyVal.por (cx.env.get "resource") (.dict [])))
    (ho : outcomes cx selected = .ok outs) (hd : outs.any Outcome.isDeny = true) :
    ∃ raw, compiledDecide cx c p = .ok raw ∧ raw.decision = "deny" := by
  have ha : lowerField (p.get "algorithm") c.compilerDefault = .ok "deny-overrides" := by rw [hu.2.2.1]; exact algo_default p hn
  have hl := rulesLoop_eq_loopOuts cx "deny-overrides" selected {} outs ho
  refine ⟨finalise "deny-overrides" (loopOuts "deny-overrides" {} outs), ?_, ?_⟩
  · simp only [compiledDecide, hs, Bool.false_eq_true, if_false, ha]
    rw [← hsel, hl]
  · rw [evaluate_do_decision, specDecisionDO, if_pos hd]

/-- the current defaults of the code are NOT uniform when the compiler's differs: a concrete policy without
    algorithm on which the engine lets a permit beat a deny (finding F1) -/
def f1Policy : PyVal :=
  .dict [("rules", .list [
    .dict [("id", .str "p"), ("effect", .str "permit"), ("actions", .list [.str "read"]), ("resource", .dict [("type", .str "doc")])],
    .dict [("id", .str "d"), ("effect", .str "deny"), ("actions", .list [.str "read"]), ("resource", .dict [("type", .str "doc")])]])]

def f1Env : PyVal :=
  .dict [("subject", .dict [("id", .str "u")]), ("action", .str "read"),
         ("resource", .dict [("type", .str "doc"), ("id", .str "1"), ("attrs", .dict [])]), ("context", .dict [])]

theorem c17_compiler_default_counterexample (o : Oracle) :
    let c : Consts := { interpDefault := "deny-overrides", setDefault := "deny-overrides",
                        compilerDefault := "permit-overrides", lintDefault := "deny-overrides" }
    (compiledDecide { o, env := f1Env, checker := none } c f1Policy).map (·.decision) = .ok "permit" ∧
    (evaluate { o, env := f1Env, checker := none } c.interpDefault f1Policy).map (·.decision) = .ok "deny" := by
  constructor <;> rfl

/-! ### the linter's overlap analysis (model `Model/Lint.lean`; the per-run obligation `Run/C17_lint_translated.lean` proves the translated
    source of `analyze_policy` / `analyze_policyset` equal to `Lint.analyzePolicy` / `Lint.analyzePolicyset` with `dflt = "deny-overrides"`) -/

/-- a policy that names no algorithm (absent / null / "" — any falsy value) is analysed under deny-overrides whenever the default
    constant is "deny-overrides": it gets exactly the issues — all of them, hence the algorithm-dependent ones — of the same document
    with `"algorithm": "deny-overrides"` written out, whatever the first pass and the helper functions are -/
theorem c17_lint_default (E : Lint.Env) (hd : E.dflt = "deny-overrides") (policy ra : PyVal)
    (h : (policy.get "algorithm").truthy = false) :
    Lint.lintAlgorithm E.o E.dflt policy = "deny-overrides" ∧
    Lint.algoIssues E policy = Lint.algoIssues E (Py.setItem policy "algorithm" (.str "deny-overrides")) ∧
    Lint.analyzePolicy E policy ra = Lint.analyzePolicy E (Py.setItem policy "algorithm" (.str "deny-overrides")) ra := by
  have h1 : Lint.lintAlgorithm E.o E.dflt policy = "deny-overrides" := hd ▸ Lint.lintAlgorithm_default E.o policy h
  have hr : Lint.rulesOf (Py.setItem policy "algorithm" (.str "deny-overrides")) = Lint.rulesOf policy := by
    simp [Lint.rulesOf, Lint.get_setItem_other]
  have hq : Lint.lintReq (Py.setItem policy "algorithm" (.str "deny-overrides")) ra = Lint.lintReq policy ra := by
    simp [Lint.lintReq, Lint.get_setItem_other]
  have h2 : Lint.lintAlgorithm E.o E.dflt (Py.setItem policy "algorithm" (.str "deny-overrides")) = "deny-overrides" := by
    cases policy with
    | dict kvs => exact Lint.lintAlgorithm_explicit _ _ _ (Lint.get_setItem_same_dict kvs _ _)
    | _ => exact h1
  refine ⟨h1, ?_, ?_⟩
  · simp only [Lint.algoIssues, hr, h1, h2]
  · simp only [Lint.analyzePolicy, hr, hq, h1, h2]

/-- under deny-overrides the algorithm-dependent issues are the deny overlaps, and only those -/
theorem c17_lint_deny_overrides_issues (acts : PyVal → PyVal) (cov unr : PyVal → PyVal → PyVal) (rs : List PyVal) :
    Lint.overlapIssues acts cov unr "deny-overrides" rs = Lint.denyOverlapIssues acts cov rs := by
  have : ("deny-overrides" = "first-applicable") = False := by decide
  simp [Lint.overlapIssues, this]

/-- the children of a set are analysed independently: the issues `analyze_policyset` reports with `policy_index = k` are exactly the
    issues `analyze_policy` reports for the k-th child on its own, tagged — the right-hand side mentions neither the set's algorithm
    (nor any other key of the set) nor the siblings -/
theorem c17_lint_set_children_independent (E : Lint.Env) (policyset ra : PyVal) (k : Nat) (c : PyVal)
    (hc : (Lint.childrenOf policyset)[k]? = some c) :
    Lint.withIndex k (Lint.analyzePolicyset E policyset ra) = (Lint.analyzePolicy E c ra).map (Lint.tag k) := by
  simp [Lint.analyzePolicyset, Lint.withIndex_children, hc]

/-- consequently two sets — whatever their algorithms and their other children — report the same issues about a child they share
    at the same position -/
theorem c17_lint_set_children_shared (E : Lint.Env) (s1 s2 ra : PyVal) (k : Nat) (c : PyVal)
    (h1 : (Lint.childrenOf s1)[k]? = some c) (h2 : (Lint.childrenOf s2)[k]? = some c) :
    Lint.withIndex k (Lint.analyzePolicyset E s1 ra) = Lint.withIndex k (Lint.analyzePolicyset E s2 ra) := by
  rw [c17_lint_set_children_independent E s1 ra k c h1, c17_lint_set_children_independent E s2 ra k c h2]

/-- what is reported under deny-overrides, exactly: an OVERLAPPED_BY_DENY issue for the pair (earlier `i`, later `j`) is reported iff
    rule `i` is a deny rule, it covers the resource of rule `j` and shares an action with it, AND `j` is the FIRST such rule after `i`
    (the source `break`s after the first overlapped rule of each deny rule) -/
theorem c17_lint_overlap_iff (acts : PyVal → PyVal) (cov unr : PyVal → PyVal → PyVal) (rs : List PyVal) (i j : Nat) :
    Lint.mkIssue "OVERLAPPED_BY_DENY" (Lint.ruleAt rs j) (Lint.ruleAt rs i) j i ∈ Lint.overlapIssues acts cov unr "deny-overrides" rs ↔
      i < j ∧ j < rs.length ∧ Lint.isDeny (Lint.ruleAt rs i) = true ∧ Lint.overlaps acts cov rs (Lint.ruleAt rs i) j = true ∧
      ∀ k, i < k → k < j → Lint.overlaps acts cov rs (Lint.ruleAt rs i) k = false := by
  rw [c17_lint_deny_overrides_issues, Lint.mem_denyOverlapIssues]
  constructor
  · rintro ⟨i', j', he, h⟩
    obtain ⟨rfl, rfl⟩ := Lint.mkIssue_inj he
    exact h
  · intro h
    exact ⟨i, j, rfl, h⟩

/-- soundness: every algorithm-dependent issue reported under deny-overrides names an earlier DENY rule that covers the resource of
    the later rule and shares an action with it -/
theorem c17_lint_overlap_sound (acts : PyVal → PyVal) (cov unr : PyVal → PyVal → PyVal) (rs : List PyVal) (x : PyVal)
    (hx : x ∈ Lint.overlapIssues acts cov unr "deny-overrides" rs) :
    ∃ i j, x = Lint.mkIssue "OVERLAPPED_BY_DENY" (Lint.ruleAt rs j) (Lint.ruleAt rs i) j i ∧ i < j ∧ j < rs.length ∧
      Lint.isDeny (Lint.ruleAt rs i) = true ∧ (cov (Lint.ruleAt rs i) (Lint.ruleAt rs j)).truthy = true ∧
      Lint.shares (acts (Lint.ruleAt rs i)) (acts (Lint.ruleAt rs j)) = true := by
  rw [c17_lint_deny_overrides_issues, Lint.mem_denyOverlapIssues] at hx
  obtain ⟨i, j, rfl, h1, h2, h3, h4, _⟩ := hx
  simp only [Lint.overlaps, Bool.and_eq_true] at h4
  exact ⟨i, j, rfl, h1, h2, h3, h4.1, h4.2⟩

/-- completeness, as far as the source goes: a deny rule `i` that overlaps a later rule `j` is reported — for `j` or for an earlier
    rule `j'` it also overlaps (one report per deny rule) -/
theorem c17_lint_overlap_complete (acts : PyVal → PyVal) (cov unr : PyVal → PyVal → PyVal) (rs : List PyVal) (i j : Nat)
    (hij : i < j) (hj : j < rs.length) (hd : Lint.isDeny (Lint.ruleAt rs i) = true)
    (ho : Lint.overlaps acts cov rs (Lint.ruleAt rs i) j = true) :
    ∃ j', i < j' ∧ j' ≤ j ∧
      Lint.mkIssue "OVERLAPPED_BY_DENY" (Lint.ruleAt rs j') (Lint.ruleAt rs i) j' i ∈ Lint.overlapIssues acts cov unr "deny-overrides" rs := by
  -- the least overlapped rule after `i`
  have : ∀ n, ∀ j, j - i ≤ n → i < j → j < rs.length → Lint.overlaps acts cov rs (Lint.ruleAt rs i) j = true →
      ∃ j', i < j' ∧ j' ≤ j ∧ Lint.overlaps acts cov rs (Lint.ruleAt rs i) j' = true ∧
        ∀ k, i < k → k < j' → Lint.overlaps acts cov rs (Lint.ruleAt rs i) k = false := by
    intro n
    induction n with
    | zero => intro j h1 h2; omega
    | succ n ih =>
      intro j h1 h2 h3 h4
      by_cases hex : ∃ k, i < k ∧ k < j ∧ Lint.overlaps acts cov rs (Lint.ruleAt rs i) k = true
      · obtain ⟨k, hk1, hk2, hk3⟩ := hex
        obtain ⟨j', a, b, c, d⟩ := ih k (by omega) hk1 (by omega) hk3
        exact ⟨j', a, by omega, c, d⟩
      · refine ⟨j, h2, Nat.le_refl _, h4, fun k hk1 hk2 => ?_⟩
        cases hov : Lint.overlaps acts cov rs (Lint.ruleAt rs i) k
        · rfl
        · exact absurd ⟨k, hk1, hk2, hov⟩ hex
  obtain ⟨j', a, b, c, d⟩ := this (j - i) j (Nat.le_refl _) hij hj ho
  exact ⟨j', a, b, (c17_lint_overlap_iff acts cov unr rs i j').2 ⟨a, by omega, hd, c, d⟩⟩

/-- non-vacuity: a deny rule before a permit rule it overlaps is reported (helpers: every rule has the action "read", every resource
    is covered) -/
example :
    let d : PyVal := .dict [("id", .str "d"), ("effect", .str "deny")]
    let p : PyVal := .dict [("id", .str "p"), ("effect", .str "permit")]
    Lint.mkIssue "OVERLAPPED_BY_DENY" p d 1 0 ∈
      Lint.overlapIssues (fun _ => .list [.str "read"]) (fun _ _ => .bool true) (fun _ _ => .bool false) "deny-overrides" [d, p] := by
  intro d p
  refine (c17_lint_overlap_iff _ _ _ [d, p] 0 1).2 ⟨by omega, by simp, ?_, ?_, fun k h1 h2 => by omega⟩
  · simp [Lint.isDeny, Lint.effectOf, Lint.ruleAt, d, PyVal.get, PyVal.lookup, PyVal.por, PyVal.truthy, PyVal.pyEq]
  · simp [Lint.overlaps, Lint.shares, Py.iter, PyVal.truthy, PyVal.pyEq]

end Rbacx.C17
