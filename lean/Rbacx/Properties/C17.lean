import Rbacx.Model.Tools
import Rbacx.Properties.C02
import Rbacx.Proofs.GuardWitness
/-
  C17 — one document, one meaning: formats, tools and default algorithm agree.

  What a theorem carries here: the format-detection priority, the CLI status function, and the
  default algorithm on every evaluation path as a function of the four default constants the model
  takes from the source (`Consts`, re-extracted on every run). That JSON and YAML renderings parse to
  equal objects and that jsonschema implements the schema are library behaviour (oracles), checked
  differentially by the harness.
-/
namespace Rbacx.C17
open Rbacx Classical

/-! ### format detection: explicit hint > content type > file extension > JSON -/

theorem c17_detect_explicit (fmt : String) (ct fn : Option String) (h : PyVal.asciiLower fmt = "json" ∨ PyVal.asciiLower fmt = "yaml") :
    detectFormat (some fmt) ct fn = (if PyVal.asciiLower fmt = "json" then .json else .yaml) := by
  rcases h with h | h <;> simp [detectFormat, h]

theorem c17_detect_content_type (fmt : Option String) (ct : String) (fn : Option String)
    (hf : (fmt.map PyVal.asciiLower).getD "" ≠ "json" ∧ (fmt.map PyVal.asciiLower).getD "" ≠ "yaml") (hne : PyVal.asciiLower ct ≠ "")
    (hm : hasInfix (PyVal.asciiLower ct) "yaml" = true ∨ hasInfix (PyVal.asciiLower ct) "x-yaml" = true ∨
          hasInfix (PyVal.asciiLower ct) "json" = true) :
    detectFormat fmt (some ct) fn =
      (if hasInfix (PyVal.asciiLower ct) "yaml" = true ∨ hasInfix (PyVal.asciiLower ct) "x-yaml" = true then .yaml else .json) := by
  have h1 : ((fmt.map PyVal.asciiLower).getD "" == "json") = false := by simpa using hf.1
  have h2 : ((fmt.map PyVal.asciiLower).getD "" == "yaml") = false := by simpa using hf.2
  have h3 : (PyVal.asciiLower ct != "") = true := by simpa using hne
  simp only [detectFormat, h1, h2, Bool.false_eq_true, if_false, Option.map_some, Option.getD_some, h3, Bool.true_and]
  by_cases hy : (hasInfix (PyVal.asciiLower ct) "yaml" || hasInfix (PyVal.asciiLower ct) "x-yaml") = true
  · have hy' := hy
    simp only [Bool.or_eq_true] at hy'
    simp [hy, hy']
  · have hy' := hy
    simp only [Bool.or_eq_true] at hy'
    have hj : hasInfix (PyVal.asciiLower ct) "json" = true := by
      rcases hm with h | h | h
      · exact absurd (Or.inl h) hy'
      · exact absurd (Or.inr h) hy'
      · exact h
    simp [hy, hy', hj]

theorem c17_detect_extension (fn : String)
    (hne : PyVal.asciiLower fn ≠ "") :
    detectFormat none none (some fn) =
      (if PyVal.strEndsWith (PyVal.asciiLower fn) ".yaml" = true ∨ PyVal.strEndsWith (PyVal.asciiLower fn) ".yml" = true then .yaml else .json) := by
  have h3 : (PyVal.asciiLower fn != "") = true := by simpa using hne
  simp [detectFormat, h3]

theorem c17_detect_default : detectFormat none none none = .json := by decide

/-! ### command line: success status versus the schema-error status, judged per validated document -/

theorem all_id_iff (verdicts : List Bool) : verdicts.all id = true ↔ ∀ v ∈ verdicts, v = true := by
  simp [List.all_eq_true]

theorem not_all_id_iff (verdicts : List Bool) : verdicts.all id = false ↔ ∃ v ∈ verdicts, v = false := by
  constructor
  · intro h
    have : ¬ ∀ v ∈ verdicts, v = true := fun hall => by rw [(all_id_iff verdicts).mpr hall] at h; simp at h
    simp only [not_forall] at this
    obtain ⟨v, hv, hne⟩ := this
    exact ⟨v, hv, by simpa using hne⟩
  · rintro ⟨v, hv, hf⟩
    cases hb : verdicts.all id with
    | false => rfl
    | true => rw [(all_id_iff verdicts).mp hb v hv] at hf; simp at hf

theorem c17_cli_validate (strict : Bool) (verdicts : List Bool) (n : Nat) :
    (cliStatus .validate strict true verdicts n = EXIT_OK ↔ ∀ v ∈ verdicts, v = true) ∧
    (cliStatus .validate strict true verdicts n = EXIT_SCHEMA_ERRORS ↔ ∃ v ∈ verdicts, v = false) := by
  simp only [cliStatus]
  have h1 := all_id_iff verdicts
  have h2 := not_all_id_iff verdicts
  generalize verdicts.all id = b at h1 h2 ⊢
  cases b
  · have he := h2.mp rfl
    have hn : ¬ ∀ v ∈ verdicts, v = true := fun h => by simpa using h1.mpr h
    simp only [Bool.not_true, Bool.false_eq_true, if_false, EXIT_OK, EXIT_SCHEMA_ERRORS]
    exact ⟨⟨fun h => by omega, fun h => absurd h hn⟩, ⟨fun _ => he, fun _ => trivial⟩⟩
  · have ha := h1.mp rfl
    have hn : ¬ ∃ v ∈ verdicts, v = false := fun h => by simpa using h2.mpr h
    simp only [Bool.not_true, Bool.false_eq_true, if_false, if_true, EXIT_OK, EXIT_SCHEMA_ERRORS]
    exact ⟨⟨fun _ => ha, fun _ => trivial⟩, ⟨fun h => by omega, fun h => absurd h hn⟩⟩

theorem c17_cli_check (strict : Bool) (verdicts : List Bool) (n : Nat) :
    (cliStatus .check strict true verdicts n = EXIT_SCHEMA_ERRORS ↔ ∃ v ∈ verdicts, v = false) ∧
    ((∀ v ∈ verdicts, v = true) →
      cliStatus .check strict true verdicts n = (if strict = true ∧ n ≠ 0 then EXIT_LINT_ERRORS else EXIT_OK)) := by
  simp only [cliStatus]
  have h1 := all_id_iff verdicts
  have h2 := not_all_id_iff verdicts
  generalize verdicts.all id = b at h1 h2 ⊢
  cases b
  · have he := h2.mp rfl
    have hn : ¬ ∀ v ∈ verdicts, v = true := fun h => by simpa using h1.mpr h
    simp only [Bool.not_true, Bool.false_eq_true, if_false, Bool.not_false, if_true]
    exact ⟨⟨fun _ => he, fun _ => trivial⟩, fun h => absurd h hn⟩
  · have hn : ¬ ∃ v ∈ verdicts, v = false := fun h => by simpa using h2.mpr h
    simp only [Bool.not_true, Bool.false_eq_true, if_false]
    refine ⟨⟨fun h => ?_, fun h => absurd h hn⟩, fun _ => ?_⟩
    · exfalso; split at h <;> simp [EXIT_LINT_ERRORS, EXIT_OK, EXIT_SCHEMA_ERRORS] at h
    · cases strict <;> simp

theorem c17_cli_env (cmd : CliCmd) (hc : cmd ≠ .lint) (strict : Bool) (verdicts : List Bool) (n : Nat) :
    cliStatus cmd strict false verdicts n = EXIT_ENV := by
  cases cmd <;> simp_all [cliStatus]

/-! ### the default combining algorithm -/

/-- every evaluation path and the linter default to deny-overrides -/
def DefaultsUniform (c : Consts) : Prop :=
  c.interpDefault = "deny-overrides" ∧ c.setDefault = "deny-overrides" ∧
  c.compilerDefault = "deny-overrides" ∧ c.lintDefault = "deny-overrides"

instance (c : Consts) : Decidable (DefaultsUniform c) := by unfold DefaultsUniform; exact inferInstance

/-- a document that names no algorithm (absent, null or empty) -/
def NoAlgorithm (doc : PyVal) : Prop := (doc.get "algorithm").truthy = false

theorem algo_default (doc : PyVal) (h : NoAlgorithm doc) : lowerField (doc.get "algorithm") "deny-overrides" = .ok "deny-overrides" := by
  unfold NoAlgorithm at h
  simp [lowerField, PyVal.por, h]
  decide

/-- reference evaluator and children of a set: any applicable deny wins -/
theorem c17_default_deny_wins_reference (cx : CondCtx) (c : Consts) (hu : DefaultsUniform c) (p : PyVal)
    (hn : NoAlgorithm p) (outs : List Outcome) (ho : outcomes cx (rulesOf p) = .ok outs)
    (hd : ∃ r ∈ rulesOf p, C02.RuleDenies cx r) :
    ∃ raw, evaluate cx c.interpDefault p = .ok raw ∧ raw.decision = "deny" := by
  rw [hu.1]
  obtain ⟨raw, he, hdec⟩ := C02.c02_deny_overrides cx "deny-overrides" p outs (algo_default p hn) ho
  exact ⟨raw, he, by rw [hdec, if_pos hd]⟩

/-- the engine (compiled path): within the tier it selects, any applicable deny wins -/
theorem c17_default_deny_wins_engine (cx : CondCtx) (c : Consts) (hu : DefaultsUniform c) (p : PyVal)
    (hs : p.hasKey "policies" = false) (hn : NoAlgorithm p) (selected : List PyVal) (outs : List Outcome)
    (hsel : selected = selectBucket cx.o (isStrict cx.env)
        ((rulesOf p).filter (isCandidate · (if (cx.env.get "action").isNone then "" else cx.o.pyStr (cx.env.get "action"))))
        (if ((PyVal.por (cx.env.get "resource") (.dict [])).get "type").isNone then none
          else some (cx.o.pyStr ((PyVal.por (cx.env.get "resource") (.dict [])).get "type")))
        (PyVal.por (cx.env.get "resource") (.dict [])))
    (ho : outcomes cx selected = .ok outs) (hd : outs.any Outcome.isDeny = true) :
    ∃ raw, compiledDecide cx c p = .ok raw ∧ raw.decision = "deny" := by
  have ha : lowerField (p.get "algorithm") c.compilerDefault = .ok "deny-overrides" := by rw [hu.2.2.1]; exact algo_default p hn
  have hl := rulesLoop_eq_loopOuts cx "deny-overrides" selected {} outs ho
  refine ⟨finalise "deny-overrides" (loopOuts "deny-overrides" {} outs), ?_, ?_⟩
  · simp only [compiledDecide, hs, Bool.false_eq_true, if_false, ha]
    rw [← hsel, hl]
  · rw [evaluate_do_decision, specDecisionDO, if_pos hd]

/-- the current defaults of the code are NOT uniform when the compiler's differs: a concrete policy without
    algorithm on which the engine lets a permit beat a deny (finding F1) -/
def f1Policy : PyVal :=
  .dict [("rules", .list [
    .dict [("id", .str "p"), ("effect", .str "permit"), ("actions", .list [.str "read"]), ("resource", .dict [("type", .str "doc")])],
    .dict [("id", .str "d"), ("effect", .str "deny"), ("actions", .list [.str "read"]), ("resource", .dict [("type", .str "doc")])]])]

def f1Env : PyVal :=
  .dict [("subject", .dict [("id", .str "u")]), ("action", .str "read"),
         ("resource", .dict [("type", .str "doc"), ("id", .str "1"), ("attrs", .dict [])]), ("context", .dict [])]

theorem c17_compiler_default_counterexample (o : Oracle) :
    let c : Consts := { interpDefault := "deny-overrides", setDefault := "deny-overrides",
                        compilerDefault := "permit-overrides", lintDefault := "deny-overrides" }
    (compiledDecide { o, env := f1Env, checker := none } c f1Policy).map (·.decision) = .ok "permit" ∧
    (evaluate { o, env := f1Env, checker := none } c.interpDefault f1Policy).map (·.decision) = .ok "deny" := by
  constructor <;> rfl

end Rbacx.C17
