import Rbacx.Spec.Roles
import Rbacx.Proofs.RolesEngine
/-
  C18 — Role expansion = reflexive-transitive closure, used as is.

  Quantifier: every inheritance graph `g : List (String × List String)` (cycles, diamonds,
  self-loops, parents that are not keys, duplicate parents, duplicate keys), every role list
  (empty, `None`, duplicates, roles absent from the graph); for the engine part every policy,
  request, oracle and configuration, with any resolver function (`none` = it raised).

  Domain: role names are strings (`str`), compared by code point.

  Termination is by construction: `Roles.expandLoop` is defined by well-founded recursion on
  `(number of graph keys not yet visited, stack length)` (lexicographic) — no fuel, no `partial`;
  the kernel accepted the decrease proofs `Roles.step_decreases` / `Roles.unvisited_cons_lt`.
-/
namespace Rbacx.C18
open Rbacx Rbacx.Roles Rbacx.RolesEngine

/-! ### the resolver -/

/-- the expanded list holds exactly the roles reachable from a given role along configured
    inheritance edges (reflexive-transitive closure) -/
theorem c18_closure (g : Graph) (rs : List String) (r : String) :
    r ∈ expand g rs ↔ ∃ r₀ ∈ rs, Reach g r₀ r := by
  unfold expand
  cases rs with
  | nil => simp
  | cons a as =>
    simp only [List.isEmpty_cons, Bool.false_eq_true, if_false, mem_sortStrings, mem_expandLoop_nil,
      List.mem_reverse]

/-- the output is strictly increasing in code-point order, hence has no duplicates -/
theorem c18_sorted_nodup (g : Graph) (rs : List String) :
    (expand g rs).Pairwise (· < ·) ∧ (expand g rs).Nodup := by
  have h : (expand g rs).Pairwise (· < ·) := by
    unfold expand
    split
    · exact List.Pairwise.nil
    · exact sortStrings_pairwise (expandLoop_nodup g _ [] List.nodup_nil)
  exact ⟨h, pairwise_lt_nodup h⟩

/-- no roles (`[]` or `None`) ⇒ nothing, whatever the graph -/
theorem c18_empty (g : Graph) : expand g [] = [] ∧ expandOpt g none = [] := ⟨rfl, rfl⟩

/-- `expand` is a total function of ANY graph (the definition is well-founded recursion, see the
    header) and it invents nothing: every returned role is one of the given roles or occurs in
    some parent list — in particular on a cyclic graph the answer is a finite list over the
    graph's names.  Concrete cycles and self-loops are evaluated below. -/
theorem c18_terminates (g : Graph) (rs : List String) :
    ∃ out, expand g rs = out ∧ ∀ r ∈ out, r ∈ rs ∨ ∃ e ∈ g, r ∈ e.2 := by
  refine ⟨_, rfl, ?_⟩
  intro r hr
  obtain ⟨r₀, h0, hreach⟩ := (c18_closure g rs r).mp hr
  cases hreach with
  | refl => exact Or.inl h0
  | step _ hp => exact Or.inr (parentOf_mem hp)

/-- on a two-cycle (any names) both roles come back, from either entry point -/
theorem c18_cycle (a b : String) (r : String) :
    r ∈ expand [(a, [b]), (b, [a])] [a] ↔ r = a ∨ r = b := by
  rw [c18_closure]
  have hpar : ∀ x y, parentOf [(a, [b]), (b, [a])] x y → y = a ∨ y = b := by
    intro x y h
    simp only [parentOf, parents, lookup] at h
    by_cases h1 : a = x
    · subst h1; simp at h; exact Or.inr h
    · by_cases h2 : b = x
      · subst h2; simp [h1] at h; exact Or.inl h
      · simp [h1, h2] at h
  constructor
  · rintro ⟨r₀, h0, hr⟩
    simp only [List.mem_singleton] at h0
    subst h0
    cases hr with
    | refl => exact Or.inl rfl
    | step _ hp => exact hpar _ _ hp
  · rintro (h | h)
    · subst h; exact ⟨r, List.mem_singleton.mpr rfl, Reach.refl r⟩
    · subst h
      refine ⟨a, List.mem_singleton.mpr rfl, Reach.single ?_⟩
      simp [parentOf, parents, lookup]

/-- the model's own output is accepted by the independent verdict the driver evaluates on the
    implementation's output (`Spec.Roles.isClosureOf`: strictly increasing, contains the roots,
    closed under parents, within the naive iterated closure) -/
theorem c18_model_meets_spec (g : Graph) (rs : List String) :
    Spec.Roles.isClosureOf g rs (expand g rs) = true :=
  Spec.Roles.isClosureOf_complete g rs _ (c18_sorted_nodup g rs).1 (c18_closure g rs)

/-- and that verdict accepts nothing else: an output it accepts IS the model's output, so a run in
    which the verdict holds of every implementation output establishes `expand`-equality case by case -/
theorem c18_spec_verdict_sound (g : Graph) (rs out : List String) (h : Spec.Roles.isClosureOf g rs out = true) :
    out = expand g rs := by
  obtain ⟨hs, hm⟩ := Spec.Roles.isClosureOf_sound g rs out h
  apply pairwise_lt_ext _ _ hs (c18_sorted_nodup g rs).1
  intro r
  rw [hm r, c18_closure]

/-! ### the engine -/

/-- with a resolver that answers `rs'` for the subject's own roles, `rs'` — nothing else — is the
    `subject.roles` of the environment the conditions are evaluated in, and the environment in the
    audit record is that same environment -/
theorem c18_engine_uses_expansion (o : Oracle) (cfg : GuardCfg) (policy : PyVal) (req : Request)
    (f : List PyVal → Option PyVal) (rs' : PyVal)
    (hres : cfg.resolver = some f) (hf : f (ownRoles req) = some rs') :
    (condCtx o cfg req).env = buildEnv cfg req
    ∧ subjectRoles (buildEnv cfg req) = rs'
    ∧ ∀ d evs, guardEval o cfg policy req = .ok (d, evs) →
        (∀ env ∈ auditEnvs evs, env = buildEnv cfg req ∧ subjectRoles env = rs')
        ∧ (cfg.hasLogger = true → auditEnvs evs = [buildEnv cfg req]) := by
  have hroles : subjectRoles (buildEnv cfg req) = rs' := by
    rw [subjectRoles_buildEnv, effectiveRoles_eq]
    simp only [hres, hf, Option.getD_some]
  refine ⟨rfl, hroles, ?_⟩
  intro d evs h
  have ha := auditEnvs_guardEval o cfg policy req d evs h
  constructor
  · intro env henv
    rw [ha] at henv
    split at henv
    · have := List.mem_singleton.mp henv
      subst this
      exact ⟨rfl, hroles⟩
    · cases henv
  · intro hl
    rw [ha, hl]; rfl

/-- if the resolver fails, the subject's own roles are used unchanged (conditions and audit) -/
theorem c18_engine_fallback (o : Oracle) (cfg : GuardCfg) (policy : PyVal) (req : Request)
    (f : List PyVal → Option PyVal)
    (hres : cfg.resolver = some f) (hf : f (ownRoles req) = none) :
    subjectRoles (buildEnv cfg req) = .list (ownRoles req)
    ∧ ∀ d evs, guardEval o cfg policy req = .ok (d, evs) →
        ∀ env ∈ auditEnvs evs, env = buildEnv cfg req ∧ subjectRoles env = .list (ownRoles req) := by
  have hroles : subjectRoles (buildEnv cfg req) = .list (ownRoles req) := by
    rw [subjectRoles_buildEnv, effectiveRoles_eq]
    simp only [hres, hf, Option.getD_none]
  refine ⟨hroles, ?_⟩
  intro d evs h env henv
  rw [auditEnvs_guardEval o cfg policy req d evs h] at henv
  split at henv
  · have := List.mem_singleton.mp henv
    subst this
    exact ⟨rfl, hroles⟩
  · cases henv

/-- nothing but the resolved list matters: the whole result (decision and events) is the one an
    engine without resolver computes for a subject that owns the resolved roles -/
theorem c18_engine_transparent (o : Oracle) (cfg : GuardCfg) (policy : PyVal) (req : Request)
    (f : List PyVal → Option PyVal) (rs' : List PyVal)
    (hres : cfg.resolver = some f) (hf : f (ownRoles req) = some (.list rs')) :
    guardEval o cfg policy req
      = guardEval o { cfg with resolver := none } policy { req with roles := .list rs' } := by
  have henv : buildEnv cfg req = buildEnv { cfg with resolver := none } { req with roles := .list rs' } := by
    have hr : effectiveRoles cfg req
        = effectiveRoles { cfg with resolver := none } { req with roles := .list rs' } := by
      rw [effectiveRoles_eq, effectiveRoles_eq]
      simp only [hres, hf, Option.getD_some]
      rfl
    unfold buildEnv
    rw [hr]
  unfold guardEval condCtx
  simp only [← henv]
  rfl

/-- both halves together: an engine configured with the static resolver shows the conditions a
    `subject.roles` list in which a role occurs (Python `in`) iff it is reachable from one of the
    subject's own roles -/
theorem c18_engine_static (cfg : GuardCfg) (req : Request) (g : Graph) (rs : List String)
    (hres : cfg.resolver = some (staticResolver g)) (hroles : req.roles = .list (rs.map .str)) :
    subjectRoles (buildEnv cfg req) = .list ((expand g rs).map .str)
    ∧ ∀ r, PyVal.pyIn (.str r) ((expand g rs).map .str) = true ↔ ∃ r₀ ∈ rs, Reach g r₀ r := by
  constructor
  · rw [subjectRoles_buildEnv]
    rw [effectiveRoles_eq]
    simp only [hres, ownRoles, hroles, staticResolver, filterMap_asStr, Option.getD_some]
  · intro r
    rw [← c18_closure]
    simp [PyVal.pyIn, PyVal.pyEq]

/-! ### non-vacuity -/

/-- diamond with a cycle, a self-loop, a parent that is not a key, a duplicate parent, a role
    absent from the graph and a duplicate role; mixed case / non-ASCII to show the order -/
def demoGraph : Graph :=
  [("manager", ["employee", "auditor", "employee"]), ("employee", ["user"]), ("auditor", ["user", "manager"]),
   ("user", ["user"]), ("Ünused", ["x"])]

example : expand demoGraph ["manager", "guest", "manager"] = ["auditor", "employee", "guest", "manager", "user"] := by
  simp [expand, expandLoop, demoGraph, parents, lookup, pushAll, sortStrings, insertSorted]

example : expand [("a", ["b"]), ("b", ["a"])] ["a"] = ["a", "b"] := by
  simp [expand, expandLoop, parents, lookup, pushAll, sortStrings, insertSorted]

example : expand [("a", ["a"])] ["a"] = ["a"] := by
  simp [expand, expandLoop, parents, lookup, pushAll, sortStrings, insertSorted]

example : expand [("b", ["a", "Z", "é"])] ["b"] = ["Z", "a", "b", "é"] := by
  simp [expand, expandLoop, parents, lookup, pushAll, sortStrings, insertSorted]

example : Reach demoGraph "manager" "user" :=
  Reach.step (b := "employee") (Reach.single (a := "manager") (by simp [parentOf, parents, lookup, demoGraph]))
    (by simp [parentOf, parents, lookup, demoGraph])

/-- the hypotheses of the engine theorems are satisfiable with a non-trivial expansion -/
example : ∃ (cfg : GuardCfg) (req : Request) (f : List PyVal → Option PyVal),
    cfg.resolver = some f ∧ f (ownRoles req) = some (.list [.str "employee", .str "manager", .str "user"])
      ∧ ownRoles req = [.str "manager"] :=
  ⟨{ consts := default, resolver := some (fun _ => some (.list [.str "employee", .str "manager", .str "user"])), hasLogger := true },
   { (default : Request) with roles := .list [.str "manager"] }, _, rfl, rfl, rfl⟩

example : ∃ (cfg : GuardCfg) (req : Request) (f : List PyVal → Option PyVal),
    cfg.resolver = some f ∧ f (ownRoles req) = none ∧ ownRoles req = [.str "manager"] :=
  ⟨{ consts := default, resolver := some (fun _ => none) }, { (default : Request) with roles := .list [.str "manager"] }, _, rfl, rfl, rfl⟩

end Rbacx.C18
