import Rbacx.Proofs.RedactSpec
/-
  C19 — Audit redaction, sampling, size bound.

  Model: `Rbacx.Redact` (`Model/Redact.lean`) – `setByPath` = `_set_by_path`, `applyObligations` /
  `applySpecs` = `apply_obligations`, `log` = `DecisionLogger.log` with the random draw and the
  serialised size (`jsonSize`, an oracle) as arguments.

  Quantifier: every value `env` (arbitrarily nested dicts/lists, any leaves), every path string, every
  spec list, every leaf predicate `P` ("is / contains the secret"), every configuration, every draw.
-/
namespace Rbacx.C19
open Rbacx Rbacx.Redact

/-! ### redaction never raises (so the unredacted fall-back branch of `log` is unreachable)

  Python raise sites examined (enforcer.py, decision_logger.py), for a JSON-valued payload:
  * `int(idx_str[:-1])` – inside `try/except Exception: return`; modelled as `Seg.invalid` (no-op).
  * `cur[key][idx] = value` / `cur[key][idx]` – `IndexError` only if `idx < -len` or `idx ≥ len`; the first is
    guarded by `if idx < -len(cur[key]): return`, the second by `_ensure_list_size` (model: `normIdx_lt`
    proves the index is inside the grown list – used in `c19_placeholder_at_path`).
  * `cur[p] = …`, `key not in cur`, `cur[key]` – `cur` is a dict at these points (checked by `isinstance`).
  * `copy.deepcopy(payload)` – total on JSON-valued trees.
  * `ob.get(...)` – `AttributeError` when a spec is not a mapping; `for path in ob.get("fields", []) or []` –
    `TypeError` when `fields` is a truthy non-iterable.  These two ARE reachable with a malformed configuration
    and are explicit in the model (`specWrites … = none`, `applySpecs … = (_, true)`, the `except` branch of
    `log` in `redactStep`).  The theorem says they are the only ones: on specs that are mappings with a
    missing / falsy / list-of-`str` `fields`, nothing raises, for every payload.
  * `json.dumps(redacted_env)` has its own inner `except` (model: `jsonSize … = none` ⇒ emitted in full).
-/

theorem c19_redaction_total (payload : PyVal) (specs : List PyVal) (h : specs.all plainSpec = true) :
    (applySpecs payload specs).2 = false ∧
      ∃ ws, allWrites specs = some ws ∧ applyObligations payload specs = applyWrites payload ws := by
  have hwf := specsWF_of_plain specs h
  refine ⟨applySpecs_not_raised specs payload hwf, ?_⟩
  unfold specsWF at hwf
  cases ha : allWrites specs with
  | none => simp [ha] at hwf
  | some ws => exact ⟨ws, rfl, by simp [applyObligations, applySpecs_of_allWrites specs ws payload ha]⟩

/-- in the logger: with well-formed effective specs the `except` branch (which would emit the *unredacted*
    env) is not taken, and the env that reaches the size check is `apply_obligations(env, specs)` -/
theorem c19_redaction_total_logger (cfg : LogCfg) (payload : PyVal)
    (h : (effectiveSpecs cfg).all plainSpec = true) :
    (redactStep cfg payload).2 = false ∧
      (redactStep cfg payload).1 = applyObligations (envObj payload) (effectiveSpecs cfg) :=
  ⟨redactStep_not_raised cfg payload (specsWF_of_plain _ h), redactStep_eq cfg payload (specsWF_of_plain _ h)⟩

/-! ### the placeholder is at the path -/

/-- whenever the final assignment is reached (`landsPath`), reading the path back yields the written value -/
theorem c19_placeholder_at_path (obj : PyVal) (path : String) (v : PyVal) (h : landsPath obj path = true) :
    getByPath (setByPath obj path v) path = some v := by
  rw [getByPath_eq, setByPath_eq]
  rw [landsPath_eq] at h
  exact getParts_setParts _ _ _ h

/-- … and exactly then: if it is not reached, the value is never written (the result is the same whatever the
    value).  `landsPath` fails iff the root is not a dict, or some bracket segment does not hold an `int()`
    literal, or an index lies before the start of its list (by definition of `lands`). -/
theorem c19_placeholder_noop_exact (obj : PyVal) (path : String) (v v' : PyVal) (h : landsPath obj path = false) :
    setByPath obj path v = setByPath obj path v' := by
  rw [setByPath_eq, setByPath_eq]
  rw [landsPath_eq] at h
  exact setParts_not_lands _ _ _ _ h

/-- on a dict, every path made of plain keys and non-negative indices is written: missing intermediates are
    created, non-dict intermediates *replaced*, short lists grown -/
theorem c19_placeholder_stable (kvs : List (String × PyVal)) (path : String) (v : PyVal)
    (h : stablePath path = true) :
    getByPath (setByPath (.dict kvs) path v) path = some v := by
  apply c19_placeholder_at_path
  rw [landsPath_eq]
  exact lands_of_stable _ _ h

/-- the last configured write of a spec list is readable in the emitted env -/
theorem c19_placeholder_last_write (env : PyVal) (ws : List (String × PyVal)) (path : String) (ph : PyVal)
    (h : landsPath (applyWrites env ws) path = true) :
    getByPath (applyWrites env (ws ++ [(path, ph)])) path = some ph := by
  rw [applyWrites_append]
  exact c19_placeholder_at_path _ _ _ h

/-! ### no leak -/

/-- one path: if the write lands and the placeholder carries no `P`-leaf, every `P`-leaf of the result is a
    `P`-leaf the env already had at a position **not under** the path.  (`P` arbitrary: "equals the secret",
    "contains the secret", "is not a placeholder", …) -/
theorem c19_no_leak (P : PyVal → Bool) (env : PyVal) (path : String) (ph : PyVal)
    (hl : landsPath env path = true) (hph : anyLeaf P ph = false) :
    anyLeaf P (setByPath env path ph) = true → leakOutsidePath P env path = true := by
  rw [setByPath_eq, leakOutsidePath_eq]
  rw [landsPath_eq] at hl
  exact anyLeaf_setParts_lands P _ _ _ hl hph

/-- the secret-absence form: a secret that occurs only under the path does not occur in the result -/
theorem c19_no_leak_secret (s : String) (env : PyVal) (path : String) (ph : PyVal)
    (hl : landsPath env path = true) (hph : occurs s ph = false)
    (honly : leakOutsidePath (holds s) env path = false) :
    occurs s (setByPath env path ph) = false := by
  cases h : occurs s (setByPath env path ph) with
  | false => rfl
  | true =>
    have := c19_no_leak (holds s) env path ph hl hph h
    rw [honly] at this; exact absurd this (by simp)

/-- never re-introduced: whatever the path does (land, rebuild a node, no-op half-way), it adds no `P`-leaf
    that neither the object nor the written value had -/
theorem c19_never_reintroduced (P : PyVal → Bool) (o : PyVal) (path : String) (v : PyVal) :
    anyLeaf P (setByPath o path v) = true → anyLeaf P o = true ∨ anyLeaf P v = true := by
  rw [setByPath_eq]; exact anyLeaf_setParts P _ _ _

/-- the whole write list of `apply_obligations`: if, *when its turn comes*, path `p` lands and the secret sits
    only under it, the secret is absent from the final record – whatever the earlier and later writes are
    (overlapping, rebuilding nodes, no-ops), as long as no placeholder carries it. -/
theorem c19_no_leak_specs_at_state (P : PyVal → Bool) (env : PyVal) (pre post : List (String × PyVal))
    (p : String) (ph : PyVal)
    (hph : anyLeaf P ph = false) (hpost : ∀ w ∈ post, anyLeaf P w.2 = false)
    (hl : landsPath (applyWrites env pre) p = true)
    (honly : leakOutsidePath P (applyWrites env pre) p = false) :
    anyLeaf P (applyWrites env (pre ++ (p, ph) :: post)) = false := by
  cases h : anyLeaf P (applyWrites env (pre ++ (p, ph) :: post)) with
  | false => rfl
  | true =>
    rw [applyWrites_append, applyWrites_cons] at h
    rcases anyLeaf_applyWrites P post _ h with h' | ⟨w, hw, h'⟩
    · have := c19_no_leak P _ p ph hl hph h'
      rw [honly] at this; exact absurd this (by simp)
    · rw [hpost w hw] at h'; exact absurd h' (by simp)

/-- the whole write list, **judged on the input env alone**: a secret that sits only under a configured path of
    plain keys / non-negative indices (`stablePath`) is absent from the final record, whatever the other
    configured paths are and wherever in the list it stands.
    (For a path with a *negative* index this is false, and rightly so: `items[-1]` denotes a different element
    once an earlier write `items[3].x` has grown the list – use `c19_no_leak_specs_at_state` there.) -/
theorem c19_no_leak_specs (P : PyVal → Bool) (kvs : List (String × PyVal)) (ws : List (String × PyVal))
    (path : String) (ph : PyVal) (hmem : (path, ph) ∈ ws) (hst : stablePath path = true)
    (hclean : ∀ w ∈ ws, anyLeaf P w.2 = false)
    (honly : leakOutsidePath P (.dict kvs) path = false) :
    anyLeaf P (applyWrites (.dict kvs) ws) = false :=
  anyLeaf_applyWrites_stable P kvs ws path ph hmem hst hclean honly

/-- a landed placeholder survives every later write along a (syntactically) disjoint path -/
theorem c19_placeholder_specs (env : PyVal) (pre post : List (String × PyVal)) (path : String) (ph : PyVal)
    (hl : landsPath (applyWrites env pre) path = true)
    (hdis : ∀ w ∈ post, disjointPaths path w.1 = true) :
    getByPath (applyWrites env (pre ++ (path, ph) :: post)) path = some ph := by
  rw [applyWrites_append, applyWrites_cons]
  exact getByPath_applyWrites_disjoint path ph post _ hdis (c19_placeholder_at_path _ _ _ hl)

/-- the spec predicates the driver evaluates on the implementation's redacted env hold of the model's own
    output, for every env, every spec list that does not raise, every list of secrets -/
theorem c19_spec_redaction_sound (env : PyVal) (specs : List PyVal) (ws : List (String × PyVal))
    (secrets : List String) (h : allWrites specs = some ws) :
    specNoLeak env ws secrets (applyObligations env specs) = true ∧
      specPlaceholder env ws (applyObligations env specs) = true := by
  have : applyObligations env specs = applyWrites env ws := by
    simp [applyObligations, applySpecs_of_allWrites specs ws env h]
  rw [this]
  exact ⟨specNoLeak_model env ws secrets, specPlaceholder_model ws env⟩

/-! ### the caller's object

  `c19_caller_untouched` is definitional in a pure model: `applyObligationsIO` returns the caller's object
  unchanged when `in_place = False` because the model has no aliasing – which is what `copy.deepcopy`
  establishes in the code.  The real tie is in the harness: the caller's env is deep-compared before/after
  every call (apply_obligations and DecisionLogger.log), and with `in_place=True` the returned object must
  *be* the payload. -/
theorem c19_caller_untouched (payload : PyVal) (specs : List PyVal) :
    (applyObligationsIO payload specs false).2 = payload ∧
      (applyObligationsIO payload specs true).2 = (applyObligationsIO payload specs true).1 := ⟨rfl, rfl⟩

/-! ### priority of redaction sets -/

/-- explicit `redactions` (even `[]`) > the default set, only when opted in > nothing -/
theorem c19_priority (cfg : LogCfg) :
    (∀ rs, cfg.redactions = some rs → effectiveSpecs cfg = rs) ∧
      (cfg.redactions = none → cfg.useDefault = true → effectiveSpecs cfg = cfg.defaults) ∧
      (cfg.redactions = none → cfg.useDefault = false → effectiveSpecs cfg = []) := by
  refine ⟨?_, ?_, ?_⟩
  · intro rs h; simp [effectiveSpecs, h]
  · intro h1 h2; simp [effectiveSpecs, h1, h2]
  · intro h1 h2; simp [effectiveSpecs, h1, h2]

/-- and the emitted record depends on the three settings only through that choice -/
theorem c19_priority_only (cfg : LogCfg) (js : PyVal → Option Nat) (payload : PyVal) (draw : FNum) :
    log cfg js payload draw = log { cfg with redactions := some (effectiveSpecs cfg) } js payload draw := rfl

/-! ### sampling -/

/-- rate ≤ 0 ⇒ nothing is emitted, whatever the draw; rate ≥ 1 ⇒ every decision is emitted, for every draw of
    `random.random()` (a float in [0, 1)) -/
theorem c19_sampling (cfg : LogCfg) (js : PyVal → Option Nat) (payload : PyVal) (draw : FNum)
    (hs : cfg.smart = false) :
    (cfg.sampleRate.le .zero = true → log cfg js payload draw = none) ∧
      (FNum.le .one cfg.sampleRate = true → draw.isDraw → (log cfg js payload draw).isSome = true) := by
  have hr : effRate cfg payload = cfg.sampleRate := by simp [effRate, hs]
  constructor
  · intro h
    simp [log, shouldDrop_of_le_zero cfg payload draw (by rw [hr]; exact h)]
  · intro h hd
    simp only [log, shouldDrop_of_one_le cfg payload draw (by rw [hr]; exact h) hd]
    simp only [Bool.false_eq_true, if_false]
    split
    · rfl
    · split
      · rfl
      · split
        · rfl
        · split <;> rfl

/-- smart sampling, default category rates: denies and permits carrying obligations are always emitted -/
theorem c19_smart_defaults (cfg : LogCfg) (js : PyVal → Option Nat) (payload : PyVal) (draw : FNum)
    (hs : cfg.smart = true) (hst : cfg.strategy = none ∨ cfg.strategy = some [])
    (hcat : (payload.get "decision" = .str "deny" ∨ (payload.get "allowed").truthy = false) ∨
      (payload.get "obligations").truthy = true)
    (hd : draw.isDraw) :
    (log cfg js payload draw).isSome = true := by
  have hc : category payload = "deny" ∨ category payload = "permit_with_obligations" := by
    rcases hcat with h | h
    · exact Or.inl (category_deny payload h)
    · exact category_obligations payload h
  have hr := effRate_smart_default cfg payload hs hst hc
  have hle : FNum.le .one (effRate cfg payload) = true := by
    rw [hr]; simp [FNum.le, FNum.one]
  simp only [log, shouldDrop_of_one_le cfg payload draw hle hd]
  simp only [Bool.false_eq_true, if_false]
  split
  · rfl
  · split
    · rfl
    · split
      · rfl
      · split <;> rfl

/-! ### size bound -/

/-- with an active bound `b` and well-formed specs: the (redacted) env is emitted in full iff its serialised
    UTF-8 size `n` is within the bound; otherwise the marker `{"_truncated": true, "size_bytes": n}` is -/
theorem c19_size_bound (cfg : LogCfg) (js : PyVal → Option Nat) (payload : PyVal) (draw : FNum)
    (b : Int) (n : Nat)
    (hkeep : shouldDrop cfg payload draw = false)
    (hwf : (effectiveSpecs cfg).all plainSpec = true)
    (hb : effBound cfg = some b)
    (hn : js (applyObligations (envObj payload) (effectiveSpecs cfg)) = some n) :
    ∃ out, log cfg js payload draw = some out ∧
      (out.truncated = false ↔ (n : Int) ≤ b) ∧
      (out.truncated = false → out.env = applyObligations (envObj payload) (effectiveSpecs cfg)) ∧
      (out.truncated = true → out.env = truncMarker n) := by
  obtain ⟨h2, h1⟩ := c19_redaction_total_logger cfg payload hwf
  simp only [log, hkeep, Bool.false_eq_true, if_false, h2, hb, h1, hn]
  by_cases hgt : (n : Int) > b
  · simp only [hgt, if_true]
    exact ⟨_, rfl, by simp; omega, by simp, by simp⟩
  · simp only [hgt, if_false]
    exact ⟨_, rfl, by simp; omega, by simp, by simp⟩

/-- no (effective) bound ⇒ always emitted in full; the bound is effective only for an `int > 0` -/
theorem c19_size_unbounded (cfg : LogCfg) (js : PyVal → Option Nat) (payload : PyVal) (draw : FNum)
    (hkeep : shouldDrop cfg payload draw = false)
    (hwf : (effectiveSpecs cfg).all plainSpec = true)
    (hb : effBound cfg = none) :
    log cfg js payload draw = some ⟨applyObligations (envObj payload) (effectiveSpecs cfg), false⟩ := by
  obtain ⟨h2, h1⟩ := c19_redaction_total_logger cfg payload hwf
  simp only [log, hkeep, Bool.false_eq_true, if_false, h2, hb, h1]

/-- the logger-side spec predicates hold of the model's own output (the size predicate: when the redacted env is
    not itself shaped like a truncation marker) -/
theorem c19_spec_logger_sound (cfg : LogCfg) (js : PyVal → Option Nat) (payload : PyVal) (draw : FNum) :
    specSampling cfg payload draw (log cfg js payload draw).isSome = true ∧
      specPriority cfg payload (redactStep cfg payload).1 = true ∧
      ((effectiveSpecs cfg).all plainSpec = true →
        isMarker (applyObligations (envObj payload) (effectiveSpecs cfg)) = none →
        ∀ out, log cfg js payload draw = some out →
          specSize cfg js (js (applyObligations (envObj payload) (effectiveSpecs cfg))) out.env = true) := by
  refine ⟨specSampling_model cfg js payload draw, specPriority_model cfg payload, ?_⟩
  intro hwf hnm out hout
  obtain ⟨h2, h1⟩ := c19_redaction_total_logger cfg payload hwf
  unfold specSize
  cases hb : effBound cfg with
  | none => rfl
  | some b =>
    simp only
    have hkeep : shouldDrop cfg payload draw = false := by
      have := log_isSome cfg js payload draw
      rw [hout] at this; simpa using this.symm
    simp only [log, hkeep, Bool.false_eq_true, if_false, h2, hb, h1] at hout
    cases hn : js (applyObligations (envObj payload) (effectiveSpecs cfg)) with
    | none =>
      simp only [hn, Option.some.injEq] at hout
      subst hout
      simp [hnm, hn]
    | some n =>
      simp only [hn] at hout
      by_cases hgt : (n : Int) > b
      · simp only [hgt, if_true, Option.some.injEq] at hout
        subst hout
        simp [isMarker_truncMarker, hgt]
      · simp only [hgt, if_false, Option.some.injEq] at hout
        subst hout
        simp only [hnm, hn]
        simp; omega

/-! ### non-vacuity: concrete instances satisfy the hypotheses (kernel-evaluated) -/

/-- `{"user": {"email": "s3cr3t", "name": "bob"}, "items": [{"price": "tok-9"}, {"price": 3}], "n": 1}` -/
def exEnv : PyVal :=
  .dict [("user", .dict [("email", .str "s3cr3t"), ("name", .str "bob")]),
         ("items", .list [.dict [("price", .str "tok-9")], .dict [("price", .int 3)]]), ("n", .int 1)]

def exSpecs : List PyVal :=
  [.dict [("type", .str "redact_fields"), ("fields", .list [.str "user.email", .str "n.x[1].y"])],
   .dict [("type", .str "mask_fields"), ("fields", .list [.str "items[0].price"])],
   .dict [("type", .str "other")], .dict [("type", .str "mask_fields"), ("fields", .none)]]

example : exSpecs.all plainSpec = true := by decide +kernel
example : occurs "s3cr3t" exEnv = true ∧ landsPath exEnv "user.email" = true ∧
    leakOutsidePath (holds "s3cr3t") exEnv "user.email" = false ∧ occurs "s3cr3t" phRedact = false ∧
    occurs "s3cr3t" (setByPath exEnv "user.email" phRedact) = false := by decide +kernel
example : occurs "tok-9" exEnv = true ∧ landsPath exEnv "items[-2].price" = true ∧
    leakOutsidePath (holds "tok-9") exEnv "items[-2].price" = false ∧
    leakOutsidePath (holds "tok-9") exEnv "items[1].price" = true := by decide +kernel
-- the no-op cases: index before the start of the list, not an int literal, root not a dict;
-- a non-dict intermediate (`n` is `1`) is *replaced*, so the path lands; `a[1` is a plain key
example : landsPath exEnv "items[-3].price" = false ∧ landsPath exEnv "items[x].price" = false ∧
    landsPath (.list []) "a" = false ∧ landsPath exEnv "n.x[1].y" = true ∧ stablePath "n.x[1].y" = true ∧
    landsPath exEnv "a[1" = true ∧ stablePath "items[-1]" = false := by decide +kernel
example : occurs "s3cr3t" (applyObligations exEnv exSpecs) = false ∧
    occurs "tok-9" (applyObligations exEnv exSpecs) = false ∧
    occurs "bob" (applyObligations exEnv exSpecs) = true := by decide +kernel
-- a malformed spec raises (and the logger then falls back to the unredacted env)
example : (applySpecs exEnv [.dict [("type", .str "mask_fields"), ("fields", .int 5)]]).2 = true := by
  decide +kernel
example : (applySpecs exEnv [.str "mask_fields"]).2 = true := by decide +kernel

-- the list-level statements: `user.email` is a stable path, `items[-2].price` is not (and is covered *at state*)
example : stablePath "user.email" = true ∧
    ((allWrites exSpecs).getD []).any (fun w => w.1 == "user.email") = true ∧
    ((allWrites exSpecs).getD []).all (fun w => !occurs "s3cr3t" w.2) = true := by decide +kernel
example : anyLeaf (holds "s3cr3t")
    (applyWrites exEnv [("n.x", phMask), ("user.email", phRedact), ("user.name", phMask)]) = false :=
  c19_no_leak_specs (holds "s3cr3t") _ _ "user.email" phRedact (by simp) (by decide +kernel)
    (by intro w hw; simp at hw; rcases hw with rfl | rfl | rfl <;> decide +kernel) (by decide +kernel)
example : disjointPaths "user.email" "items[0].price" = true ∧ disjointPaths "user.email" "user" = false ∧
    disjointPaths "items[0].price" "items[1].price" = true ∧ disjointPaths "items[0]" "items[-1]" = false ∧
    disjointPaths "a" "a[0]" = false := by decide +kernel
example : coveredAt "tok-9" exEnv [("n.x", phMask), ("items[-2].price", phMask)] = true ∧
    coveredStable "tok-9" exEnv [("n.x", phMask), ("items[-2].price", phMask)] = false ∧
    placeholderClaims exEnv ((allWrites exSpecs).getD []) = 3 := by decide +kernel

example : FNum.isDraw (.fin 0) := ⟨by decide, by simpa [FNum.lt, FNum.one] using unit_pos⟩
example : FNum.isDraw (.fin (unit - 1)) :=
  ⟨by have := unit_pos; simp [FNum.le, FNum.zero]; omega, by simp [FNum.lt, FNum.one]; omega⟩

def exCfg : LogCfg :=
  { redactions := some exSpecs, useDefault := true, defaults := [.dict [("type", .str "redact_fields")]],
    maxEnvBytes := .int 30 }

example : effectiveSpecs exCfg = exSpecs ∧ effectiveSpecs { exCfg with redactions := some [] } = [] ∧
    effectiveSpecs { exCfg with redactions := none } = exCfg.defaults ∧
    effectiveSpecs { exCfg with redactions := none, useDefault := false } = [] := ⟨rfl, rfl, rfl, rfl⟩
example : effBound exCfg = some 30 ∧ effBound { exCfg with maxEnvBytes := .int 0 } = none ∧
    effBound { exCfg with maxEnvBytes := .float 30.0 } = none := ⟨rfl, rfl, rfl⟩
example : (log exCfg (fun _ => some 31) (.dict [("env", exEnv)]) (.fin 0)).map (·.truncated) = some true ∧
    (log exCfg (fun _ => some 30) (.dict [("env", exEnv)]) (.fin 0)).map (·.truncated) = some false := by
  decide +kernel
example : category (.dict [("decision", .str "permit"), ("allowed", .bool true),
    ("obligations", .list [.dict []])]) = "permit_with_obligations" := by decide +kernel

end Rbacx.C19
