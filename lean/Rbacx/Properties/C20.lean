import Rbacx.Model.Asgi
import Rbacx.Properties.C07
/-
  C20 — ASGI enforcement: downstream runs iff allowed; denials are generic 403s.

  Quantifier: every engine answer (composed with `guardEval`: every policy / request /
  configuration), mode, add_headers flag, scope type, succeeding or raising env builder.
-/
namespace Rbacx.C20
open Rbacx

def Enforcing (cfg : AsgiCfg) (scopeType : PyVal) : Prop :=
  PyVal.pyEq scopeType (.str "http") = true ∧ cfg.mode = "enforce" ∧ cfg.hasBuilder = true

theorem enforcing_cond {cfg : AsgiCfg} {st : PyVal} (h : Enforcing cfg st) :
    (PyVal.pyEq st (.str "http") && cfg.mode == "enforce" && cfg.hasBuilder) = true := by
  obtain ⟨h1, h2, h3⟩ := h; simp [h1, h2, h3]

/-- in enforce mode the downstream application is invoked for an HTTP request iff the engine allowed it -/
theorem c20_downstream_iff_allowed (o : Oracle) (cfg : AsgiCfg) (st : PyVal) (req : Request) (d : Decision)
    (engine : Request → Except String Decision) (he : Enforcing cfg st) (hd : engine req = .ok d) :
    AsgiAction.callDownstream ∈ asgiCall o cfg st (.ok req) engine ↔ d.allowed = true := by
  simp only [asgiCall, enforcing_cond he, if_true, hd]
  cases d.allowed <;> simp

/-- otherwise exactly one 403 response: start + one body, the generic Forbidden document -/
theorem c20_single_403 (o : Oracle) (cfg : AsgiCfg) (st : PyVal) (req : Request) (d : Decision)
    (engine : Request → Except String Decision) (he : Enforcing cfg st) (hd : engine req = .ok d) (hna : d.allowed = false) :
    ∃ hdrs, asgiCall o cfg st (.ok req) engine = [.injectGuard, .sendStart 403 hdrs, .sendBody forbiddenBody] := by
  simp only [asgiCall, enforcing_cond he, if_true, hd, hna]
  exact ⟨_, rfl⟩

/-- the body never depends on the decision (reason, rule id, policy id, obligations, challenge) -/
theorem c20_body_is_generic (o : Oracle) (cfg : AsgiCfg) (st : PyVal) (b : Except String Request)
    (engine : Request → Except String Decision) (body : String)
    (h : AsgiAction.sendBody body ∈ asgiCall o cfg st b engine) : body = forbiddenBody := by
  simp only [asgiCall] at h
  split at h
  · split at h
    · simp at h
    · split at h
      · simp at h
      · split at h <;> simp at h
        exact h
  · simp at h

/-- diagnostics appear only as X-RBACX-* headers and only when header diagnostics are enabled -/
theorem c20_headers_only_when_enabled (o : Oracle) (cfg : AsgiCfg) (st : PyVal) (b : Except String Request)
    (engine : Request → Except String Decision) (status : Nat) (hdrs : List (String × String))
    (hoff : cfg.addHeaders = false) (h : AsgiAction.sendStart status hdrs ∈ asgiCall o cfg st b engine) :
    status = 403 ∧ hdrs = baseHeaders := by
  simp only [asgiCall] at h
  split at h
  · split at h
    · simp at h
    · split at h
      · simp at h
      · split at h <;> simp [hoff] at h
        exact h
  · simp at h

/-- if building the env or evaluating raises, the downstream application is not invoked and nothing is sent -/
theorem c20_errors_block_downstream (o : Oracle) (cfg : AsgiCfg) (st : PyVal) (b : Except String Request)
    (engine : Request → Except String Decision) (he : Enforcing cfg st)
    (herr : (∃ cls, b = .error cls) ∨ (∃ req cls, b = .ok req ∧ engine req = .error cls)) :
    ∃ cls, asgiCall o cfg st b engine = [.injectGuard, .propagate cls] := by
  simp only [asgiCall, enforcing_cond he, if_true]
  rcases herr with ⟨cls, rfl⟩ | ⟨req, cls, rfl, he2⟩
  · exact ⟨cls, rfl⟩
  · exact ⟨cls, by simp [he2]⟩

/-- non-HTTP scopes, inject mode and a missing env builder pass through with the engine attached -/
theorem c20_passthrough (o : Oracle) (cfg : AsgiCfg) (st : PyVal) (b : Except String Request)
    (engine : Request → Except String Decision)
    (h : PyVal.pyEq st (.str "http") = false ∨ cfg.mode ≠ "enforce" ∨ cfg.hasBuilder = false) :
    asgiCall o cfg st b engine = [.injectGuard, .callDownstream] := by
  have : (PyVal.pyEq st (.str "http") && cfg.mode == "enforce" && cfg.hasBuilder) = false := by
    rcases h with h | h | h
    · simp [h]
    · have : (cfg.mode == "enforce") = false := by simpa using h
      simp [this]
    · simp [h]
  simp [asgiCall, this]

/-- the guard is always attached to the scope, first -/
theorem c20_guard_injected (o : Oracle) (cfg : AsgiCfg) (st : PyVal) (b : Except String Request)
    (engine : Request → Except String Decision) : (asgiCall o cfg st b engine).head? = some .injectGuard := rfl

/-- composition with the engine model: a permit revoked by an obligation is a 403 -/
theorem c20_obligation_failed_is_403 (o : Oracle) (cfg : AsgiCfg) (st : PyVal) (req : Request)
    (gcfg : GuardCfg) (env : PyVal) (raw : Raw) (ch : String) (he : Enforcing cfg st)
    (hb : gcfg.checker = .builtin) (hp : raw.decision = "permit")
    (hu : checkObligations o "permit" raw.obligations (dictOr (req.context.getD .none)) = (false, some ch)) :
    ∃ hdrs, asgiCall o cfg st (.ok req) (fun _ => .ok (finishDecision o gcfg req env raw).1) =
      [.injectGuard, .sendStart 403 hdrs, .sendBody forbiddenBody] := by
  have := (C07.c07_guard_gate o gcfg req env raw ch hb hp hu).1
  exact c20_single_403 o cfg st req _ _ he rfl this

end Rbacx.C20
