import Rbacx.Generated
import Rbacx.Proofs.EngineTranslated
/-!
  Per-run obligation (C01, C07, C11): the DECISION CORE OF THE ENGINE, `Guard._evaluate_core_async` of core/engine.py as it is written
  NOW.  harness/pytolean_async.py (plugin `extractors/src_translation_engine.py`) translates two statement ranges of the current
  source text statement by statement into `Rbacx.Generated.Src.*`; the awaited collaborator calls are not translated but function
  parameters giving the call's OUTCOME (`some v` = returned `v`, `none` = raised):

  * `engine_env`  — `roles = list(subject.roles or [])` … `if self.strict_types: env["__strict_types__"] = True`;
    external: `self.role_resolver.expand`;
  * `engine_gate` — `decision_str = str(raw.get("decision"))` … `d = Decision(…)`; external: `self.obligations.check`, whose result is
    unpacked into `ok, ch` (a result that does not unpack is the raising case).

  Proved here, about the TRANSLATED SOURCE:
  * `engine_gate`: for every model `Raw`, every dict that describes it, every checker function and every context value, the range
    returns the encoding of `gateModel raw (unpacked outcome)`; with the model's checker outcome that is the Decision of
    `finishDecision` (`engine_gate_finish`) — the object `Rbacx.C01.*`, `Rbacx.C07.c07_guard_*`, `Rbacx.C11.c11_one_audit_one_metric`
    are about;
  * corollaries read off the translated source: `allowed = True ↔ effect = "permit"` for EVERY value of `raw` (no hypothesis at all:
    `engine_gate_allowed_iff_permit`), a permit needs a raw permit (`engine_gate_allowed_raw_permit`), a checker that raises — or
    returns something that does not unpack — leaves the permit standing (`engine_gate_checker_raised`, `engine_gate_unpack_failure`),
    a falsy verdict turns the permit into deny / obligation_failed with the checker's challenge (`engine_gate_unmet`);
  * `engine_env`: the range returns the model's `buildEnv cfg req` on the encoded request, for a subject whose `roles` is a list or
    falsy; the resolver's outcome `none` (raised) leaves the subject's own roles (C18's fallback clause).
-/
namespace Rbacx.Translated
open Rbacx Rbacx.Py Rbacx.Generated PyVal

/-! ### (A) the gate -/

/-- the range on a dict that describes a model `Raw`, for EVERY checker function `check` and every `context` value: the Decision is
    `gateModel` on the unpacked outcome of `check raw context` -/
theorem engine_gate (o : Oracle) (check : PyVal → PyVal → Option PyVal) (d ctx : PyVal) (raw : Raw) (h : Represents d raw) :
    Src.engine_gate o check d ctx = encDecision (gateModel raw (awaitUnpack2 (check d ctx))) := by
  unfold Src.engine_gate gateModel
  simp only [h.decision, h.reason, h.obligations, h.rule_id, h.last_rule_id, h.policy_id, h.challenge, strO_str, list_or_empty,
    eq_permit, truthy_bool]
  by_cases hp : (raw.decision == "permit") = true
  · simp only [hp, if_true]
    cases awaitUnpack2 (check d ctx) with
    | none => rfl
    | some v =>
      obtain ⟨ok, ch⟩ := v
      simp only [isNotNone_truthy, boolOf, pnot, truthy_bool]
      by_cases hc : ch.isNone = true <;> by_cases hk : ok.truthy = true <;>
        simp only [hc, hk, Bool.not_true, Bool.not_false, Bool.false_eq_true, if_true, if_false, encDecision, Raw.rid] <;>
        first | rfl | (rw [isNone_eq_none hc])
  · have hp' : (raw.decision == "permit") = false := by simpa using hp
    simp only [hp', Bool.false_eq_true, if_false]
    rfl

/-- **C01/C07-gate: with the model's checker outcome the translated range returns the Decision of `finishDecision`** — for every
    raw decision, engine configuration (built-in checker, custom verdict, raising checker), request and oracle -/
theorem engine_gate_finish (o : Oracle) (cfg : GuardCfg) (req : Request) (env : PyVal) (raw : Raw)
    (check : PyVal → PyVal → Option PyVal) (d ctx : PyVal) (h : Represents d raw)
    (hc : check d ctx = checkerOutcome o cfg req raw) :
    Src.engine_gate o check d ctx = encDecision (finishDecision o cfg req env raw).1 := by
  rw [engine_gate o check d ctx raw h, hc, finishDecision_gateModel]

/-- **C01, read off the translated source, for EVERY value `raw` (any dict, any junk), every checker and every context:
    `allowed` is `True` exactly when `effect` is `"permit"`** -/
theorem engine_gate_allowed_iff_permit (o : Oracle) (check : PyVal → PyVal → Option PyVal) (raw ctx : PyVal) :
    attr (Src.engine_gate o check raw ctx) "allowed" = .bool true ↔ attr (Src.engine_gate o check raw ctx) "effect" = .str "permit" := by
  unfold Src.engine_gate
  generalize strO o (Py.get raw "decision") = ds
  simp only [Py.eq, truthy_bool]
  by_cases hp : pyEq ds (.str "permit") = true
  · simp only [hp, if_true]
    cases awaitUnpack2 (check raw ctx) with
    | none => simp [attr, record, PyVal.get, PyVal.lookup]
    | some v =>
      obtain ⟨ok, ch⟩ := v
      simp only [isNotNone_truthy, boolOf, pnot, truthy_bool]
      by_cases hc : ch.isNone = true <;> by_cases hk : ok.truthy = true <;> simp [hc, hk, attr, record, PyVal.get, PyVal.lookup]
  · have hp' : pyEq ds (.str "permit") = false := by simpa using hp
    simp [hp', attr, record, PyVal.get, PyVal.lookup]

/-- … and `allowed` is always a bool, `effect` always one of the two strings (every `raw`) -/
theorem engine_gate_effect_values (o : Oracle) (check : PyVal → PyVal → Option PyVal) (raw ctx : PyVal) :
    attr (Src.engine_gate o check raw ctx) "effect" = .str "permit" ∨ attr (Src.engine_gate o check raw ctx) "effect" = .str "deny" := by
  unfold Src.engine_gate
  generalize strO o (Py.get raw "decision") = ds
  simp only [Py.eq, truthy_bool]
  by_cases hp : pyEq ds (.str "permit") = true
  · simp only [hp, if_true]
    cases awaitUnpack2 (check raw ctx) with
    | none => simp [attr, record, PyVal.get, PyVal.lookup]
    | some v =>
      obtain ⟨ok, ch⟩ := v
      simp only [isNotNone_truthy, boolOf, pnot, truthy_bool]
      by_cases hc : ch.isNone = true <;> by_cases hk : ok.truthy = true <;> simp [hc, hk, attr, record, PyVal.get, PyVal.lookup]
  · have hp' : pyEq ds (.str "permit") = false := by simpa using hp
    simp [hp', attr, record, PyVal.get, PyVal.lookup]

/-- a permit only comes from a raw permit: `allowed` is true only when `str(raw.get("decision")) == "permit"` (every `raw`) -/
theorem engine_gate_allowed_raw_permit (o : Oracle) (check : PyVal → PyVal → Option PyVal) (raw ctx : PyVal)
    (h : attr (Src.engine_gate o check raw ctx) "allowed" = .bool true) : strO o (Py.get raw "decision") = .str "permit" := by
  unfold Src.engine_gate at h
  have hs : strO o (Py.get raw "decision") = .str (o.pyStr (Py.get raw "decision")) := rfl
  rw [hs] at h ⊢
  generalize o.pyStr (Py.get raw "decision") = s at h ⊢
  simp only [eq_permit, truthy_bool] at h
  by_cases hp : (s == "permit") = true
  · have : s = "permit" := by simpa using hp
    rw [this]
  · have hp' : (s == "permit") = false := by simpa using hp
    simp [hp', attr, record, PyVal.get, PyVal.lookup] at h

/-- **C07: the checker raised ⇒ the permit stands** (nothing of the raw decision is changed) -/
theorem engine_gate_checker_raised (o : Oracle) (check : PyVal → PyVal → Option PyVal) (d ctx : PyVal) (raw : Raw)
    (h : Represents d raw) (hp : raw.decision = "permit") (hr : check d ctx = Option.none) :
    Src.engine_gate o check d ctx =
      encDecision { allowed := true, effect := "permit", obligations := raw.obligations, challenge := PyVal.none, ruleId := raw.rid,
                    policyId := raw.policyId, reason := raw.reason } := by
  rw [engine_gate o check d ctx raw h, hr]
  simp [gateModel, hp, awaitUnpack2]

/-- the checker returned something that does not unpack into `ok, ch` (not iterable, or not exactly two items): CPython raises at
    the unpacking, inside the same `try` — the permit stands as well -/
theorem engine_gate_unpack_failure (o : Oracle) (check : PyVal → PyVal → Option PyVal) (d ctx v : PyVal) (raw : Raw)
    (h : Represents d raw) (hp : raw.decision = "permit") (hr : check d ctx = some v) (hv : (Py.iter v).length ≠ 2) :
    Src.engine_gate o check d ctx =
      encDecision { allowed := true, effect := "permit", obligations := raw.obligations, challenge := PyVal.none, ruleId := raw.rid,
                    policyId := raw.policyId, reason := raw.reason } := by
  rw [engine_gate o check d ctx raw h, hr, awaitUnpack2_bad v hv]
  simp [gateModel, hp]

/-- **C07: a falsy verdict on a raw permit ⇒ `allowed=False`, `effect="deny"`, `reason="obligation_failed"`, the checker's challenge** -/
theorem engine_gate_unmet (o : Oracle) (check : PyVal → PyVal → Option PyVal) (d ctx ok ch : PyVal) (raw : Raw)
    (h : Represents d raw) (hp : raw.decision = "permit") (hr : check d ctx = some (.list [ok, ch])) (hf : ok.truthy = false) :
    Src.engine_gate o check d ctx =
      encDecision { allowed := false, effect := "deny", obligations := raw.obligations, challenge := ch, ruleId := raw.rid,
                    policyId := raw.policyId, reason := "obligation_failed" } := by
  rw [engine_gate o check d ctx raw h, hr, awaitUnpack2_pair]
  simp [gateModel, hp, hf]

/-- a raw deny stays a deny whatever the checker would say (it is not even asked: `check` is arbitrary) -/
theorem engine_gate_deny (o : Oracle) (check : PyVal → PyVal → Option PyVal) (d ctx : PyVal) (raw : Raw)
    (h : Represents d raw) (hp : raw.decision ≠ "permit") :
    Src.engine_gate o check d ctx =
      encDecision { allowed := false, effect := "deny", obligations := raw.obligations, challenge := PyVal.none, ruleId := raw.rid,
                    policyId := raw.policyId, reason := raw.reason } := by
  rw [engine_gate o check d ctx raw h]
  have : (raw.decision == "permit") = false := by simpa using hp
  simp [gateModel, this]

/-! ### (B) the env -/

/-- **the translated env construction is the model's `buildEnv`**: for every engine configuration and every request whose subject's
    `roles` is a list or falsy; `expand` is any function that answers the model's resolver outcome on the subject's own roles;
    `rr` = the value of `self.role_resolver` (`None` exactly when no resolver is configured) -/
theorem engine_env (cfg : GuardCfg) (req : Request) (expand : PyVal → Option PyVal) (rr : PyVal)
    (hroles : req.roles.isList = true ∨ req.roles.truthy = false)
    (hrr : rr.isNone = cfg.resolver.isNone)
    (hx : expand (.list (ownRoles req.roles)) =
            resolverOutcome cfg (ownRoles req.roles)) :
    Src.engine_env expand (encSubject req) rr (encAction req) (encResource req) (encContext req) (.bool cfg.strict) =
      buildEnv cfg req := by
  unfold Src.engine_env buildEnv
  have a1 : attr (encSubject req) "roles" = req.roles := rfl
  have a2 : attr (encSubject req) "id" = req.subjectId := rfl
  have a3 : attr (encSubject req) "attrs" = req.subjectAttrs := rfl
  have a4 : attr (encAction req) "name" = req.action := rfl
  have a5 : attr (encResource req) "type" = req.resourceType := rfl
  have a6 : attr (encResource req) "id" = req.resourceId := rfl
  have a7 : attr (encResource req) "attrs" = req.resourceAttrs := rfl
  simp only [a1, a2, a3, a4, a5, a6, a7, roles_or_empty req.roles hroles, hx, dictCopy_or, context_attrs, env_display,
    isNotNone_truthy, hrr, truthy_bool, effectiveRoles_outcome]
  cases hres : cfg.resolver with
  | none =>
    simp only [Option.isNone_none, Bool.not_true, Bool.false_eq_true, if_false]
    cases cfg.strict <;> simp [env_strict]
  | some f =>
    simp only [Option.isNone_some, Bool.not_false, if_true, resolverOutcome, hres]
    cases f (ownRoles req.roles) with
    | none => cases cfg.strict <;> simp [env_strict]
    | some v => cases cfg.strict <;> simp [env_strict]

/-- C18's fallback clause, read off the translated source: a resolver that raises leaves the subject's own roles in the env -/
theorem engine_env_resolver_raised (cfg : GuardCfg) (req : Request) (expand : PyVal → Option PyVal) (rr : PyVal)
    (hroles : req.roles.isList = true ∨ req.roles.truthy = false)
    (hx : expand (.list (ownRoles req.roles)) = Option.none) :
    Py.get (Py.get (Src.engine_env expand (encSubject req) rr (encAction req) (encResource req) (encContext req) (.bool cfg.strict))
      "subject") "roles" = .list (ownRoles req.roles) := by
  unfold Src.engine_env
  have a1 : attr (encSubject req) "roles" = req.roles := rfl
  simp only [a1, roles_or_empty req.roles hroles, hx, env_display, truthy_bool]
  cases (isNotNone rr).truthy <;> cases cfg.strict <;> simp [env_strict, Py.get, PyVal.get, PyVal.lookup]

/-! ### (D) what the sinks are handed (C11: the audit record and the metric agree with the Decision) -/

/-- `labels = {"decision": d.effect}` on a Decision record -/
theorem engine_metric_labels (d : Decision) :
    Src.engine_metric_labels (encDecision d) = encEvent (.metricInc d.effect) := by
  unfold Src.engine_metric_labels
  rw [dictOf_labels]; rfl

/-- `payload = {"env": env, "decision": d.effect, "allowed": d.allowed, …}` on a Decision record: the seven keys carry the env and the
    Decision's effect, allowed flag, rule id, policy id, reason and obligations -/
theorem engine_audit_payload (env : PyVal) (d : Decision) :
    Src.engine_audit_payload env (encDecision d) =
      encEvent (.audit env d.effect d.allowed d.ruleId d.policyId d.reason d.obligations) := by
  unfold Src.engine_audit_payload
  rw [dictOf_payload]; rfl

/-- **C11, agreement clause, about the translated source: the arguments of the sink calls the model's `finishDecision` emits are
    exactly what the translated `labels = …` / `payload = …` statements compute from the Decision the translated gate returns** —
    same hypotheses as `engine_gate_finish` -/
theorem engine_sinks_agree (o : Oracle) (cfg : GuardCfg) (req : Request) (env : PyVal) (raw : Raw)
    (check : PyVal → PyVal → Option PyVal) (d ctx : PyVal) (h : Represents d raw)
    (hc : check d ctx = checkerOutcome o cfg req raw) :
    (finishDecision o cfg req env raw).2.map encEvent =
      (if cfg.hasMetrics then [Src.engine_metric_labels (Src.engine_gate o check d ctx),
                               Src.engine_metric_labels (Src.engine_gate o check d ctx)] else []) ++
      (if cfg.hasLogger then [Src.engine_audit_payload env (Src.engine_gate o check d ctx)] else []) := by
  rw [engine_gate_finish o cfg req env raw check d ctx h hc, finishDecision_events, engine_metric_labels, engine_audit_payload]
  cases cfg.hasMetrics <;> cases cfg.hasLogger <;> rfl

end Rbacx.Translated

#print axioms Rbacx.Translated.engine_metric_labels
#print axioms Rbacx.Translated.engine_audit_payload
#print axioms Rbacx.Translated.engine_sinks_agree
#print axioms Rbacx.Translated.engine_gate
#print axioms Rbacx.Translated.engine_gate_finish
#print axioms Rbacx.Translated.engine_gate_allowed_iff_permit
#print axioms Rbacx.Translated.engine_gate_effect_values
#print axioms Rbacx.Translated.engine_gate_allowed_raw_permit
#print axioms Rbacx.Translated.engine_gate_checker_raised
#print axioms Rbacx.Translated.engine_gate_unpack_failure
#print axioms Rbacx.Translated.engine_gate_unmet
#print axioms Rbacx.Translated.engine_gate_deny
#print axioms Rbacx.Translated.engine_env
#print axioms Rbacx.Translated.engine_env_resolver_raised
